/-
C09 (and C03, C10), tie to the source text, FAT level: `FatVolume::write_new_directory_entry` and
`FatVolume::make_dir` (fat/volume.rs), machine-translated into `Sdmmc.Gen.FunsDir`, against
`Model.Fat.writeNewDirectoryEntry`, `Model.Fat.makeDir`.

Both ties are `_partial`: they hold for every fuel above a stated bound WHEN THE MODEL'S ANSWER IS NOT `diverged`
(the model's walk carries its own fuel `chainFuel v + 1`; see `Props/C06GenM.lean`), and for a volume whose cluster
numbers stay below the `ROOT_DIR` marker (`endCluster v ≤ 0xFFFF_FFFC`; the Rust compares a cluster handed out by
`alloc_cluster` with that marker, the model keeps a flag).
-/
import Sdmmc.Gen.FunsDir
import Sdmmc.Model.Fat
import Sdmmc.Lemmas.GenMgrIO
import Sdmmc.Lemmas.GenDir
import Sdmmc.Props.C01GenFind
import Sdmmc.Props.C06GenM
import Sdmmc.Props.C03GenM

set_option linter.unusedSimpArgs false

namespace Sdmmc.Props.C09GenM

open Sdmmc Sdmmc.Model Sdmmc.Model.Fat Sdmmc.Gen Sdmmc.Lemmas.GenMgrIO Sdmmc.Lemmas.GenDir
open Sdmmc.Lemmas.FBasic
open Sdmmc.Props.C06GenM (slot_eq slotsFrom slotsOf_eq slotsFrom_succ next16_ne_root nextCluster_vol
  range_iter clusterToBlock_root32)
open Sdmmc.Props.C03GenM (serialize_length)

/-! ### The slots of a block -/

set_option hygiene false in
local macro "new_slots_tac" loop:ident : tactic => `(tactic| (
  intro n
  induction n with
  | zero => intro i _ fs; exact ⟨i, rfl⟩
  | succ n ih =>
    intro i h fs
    rw [$loop:ident, slotsFrom_succ, firstFreeSlot]
    simp only [slot_eq]
    by_cases hv : OnDisk.isValid (slice fs.cache.blk (i * 32) 32) = true
    · have h1 : ¬ ¬ OnDisk.isValid (slice fs.cache.blk (i * 32) 32) = true := fun hh => hh hv
      simp only [hv, Bool.not_true, Bool.false_eq_true, if_false, not_true_eq_false, cacheBlk, bind_apply]
      exact ih (i + 1) (by omega) fs
    · have hb : OnDisk.isValid (slice fs.cache.blk (i * 32) 32) = false := by
        cases hx : OnDisk.isValid (slice fs.cache.blk (i * 32) 32)
        · rfl
        · exact (hv hx).elim
      simp only [hb, Bool.not_false, if_true, Bool.false_eq_true, not_false_eq_true]
      have hmod : i * 32 % 4294967296 = i * 32 := Nat.mod_eq_of_lt (by omega)
      rw [hmod]
      refine ⟨0, ?_⟩
      simp only [bind_apply, cacheModify, cacheBlk, pure_apply]
      have hsp : ∀ (ft : FatType) (e : DirEntry), List.take (i * 32) fs.cache.blk ++ DirEntry.serialize ft e ++
          List.drop (i * 32 + 32) fs.cache.blk = splice fs.cache.blk (i * 32) (DirEntry.serialize ft e) := by
        intro ft e
        unfold splice
        rw [serialize_length ft e (.inr trivial)]
      rw [hsp]
  ))

/-- What the slot loop of `write_new_directory_entry` does: the first free slot gets the new entry. -/
def newSlot (ft : FatType) (name : Bytes) (attributes firstCluster : Nat) (now : Timestamp) (b : Nat)
    (slots : List (Nat × Bytes)) (c : Nat) (fs : FS) : Res (Except DirEntry Nat) × FS :=
  match firstFreeSlot slots with
  | some off =>
    (cacheModify (fun blk => splice blk off (DirEntry.serialize ft (DirEntry.new name attributes firstCluster now b off))) >>=
      fun _ => writeBack >>= fun _ =>
        pure (Except.error (DirEntry.new name attributes firstCluster now b off))) fs
  | none => (.ok (Except.ok c), fs)

theorem new_slots16 (v : FatVolume) (now : Timestamp) (name : Bytes) (attributes firstCluster b : Nat) :
    ∀ (n i : Nat), i + n = 16 → ∀ fs : FS, ∃ c,
      FunsDir.FatVolume_write_new_directory_entry_loop3 v now name attributes firstCluster b fs.cache.blk n i fs =
        newSlot .fat16 name attributes firstCluster now b (slotsFrom fs.cache.blk i n) c fs := by
  unfold newSlot
  new_slots_tac FunsDir.FatVolume_write_new_directory_entry_loop3

theorem new_slots32 (v : FatVolume) (now : Timestamp) (name : Bytes) (attributes firstCluster b : Nat) :
    ∀ (n i : Nat), i + n = 16 → ∀ fs : FS, ∃ c,
      FunsDir.FatVolume_write_new_directory_entry_loop6 v now name attributes firstCluster b fs.cache.blk n i fs =
        newSlot .fat32 name attributes firstCluster now b (slotsFrom fs.cache.blk i n) c fs := by
  unfold newSlot
  new_slots_tac FunsDir.FatVolume_write_new_directory_entry_loop6

/-! ### The blocks of one step -/

def nblocksOut (x : Res (Option DirEntry)) (done : FunsM.BlockIter) : Res (Except DirEntry FunsM.BlockIter) :=
  match x with
  | .ok (some e) => .ok (.error e)
  | .ok none => .ok (.ok done)
  | .err e => .err e
  | .panic m => .panic m
  | .diverged => .diverged

set_option hygiene false in
local macro "new_blocks_tac" loop:ident slots:ident : tactic => `(tactic| (
  intro n
  induction n with
  | zero =>
    intro first fuel fs hf hft
    obtain ⟨fuel', rfl⟩ : ∃ f', fuel = f' + 1 := ⟨fuel - 1, by omega⟩
    rw [$loop:ident]
    simp only [FunsM.BlockIter_next, Nat.add_zero, ge_iff_le, Nat.le_refl, if_true, writeNewBlocks, pure_apply,
      nblocksOut]
  | succ n ih =>
    intro first fuel fs hf hft
    obtain ⟨fuel', rfl⟩ : ∃ f', fuel = f' + 1 := ⟨fuel - 1, by omega⟩
    rw [$loop:ident, writeNewBlocks]
    have hlt : ¬ first ≥ first + (n + 1) := by omega
    simp only [FunsM.BlockIter_next, hlt, if_false, FunsM.BlockIdx_add, bind_apply, getVol_apply, hft]
    have hv1 := C06GenM.cacheRead_vol first fs
    rcases hcr : cacheRead first fs with ⟨r, fs1⟩
    rw [hcr] at hv1
    have hv1 : fs1.vol = fs.vol := hv1
    cases r with
    | ok u =>
      simp only [cacheBlk, bind_apply]
      obtain ⟨c, hc⟩ := $slots:ident v now name attributes firstCluster first 16 0 rfl fs1
      rw [hc, newSlot, slotsOf_eq]
      cases hfi : firstFreeSlot (slotsFrom fs1.cache.blk 0 16) with
      | some off =>
        simp only [bind_apply, cacheModify, pure_apply]
        rcases writeBack _ with ⟨r2, fs2⟩
        cases r2 <;> rfl
      | none =>
        simp only []
        have h2 : first + (n + 1) = first + 1 + n := by omega
        rw [h2]
        exact ih (first + 1) fuel' fs1 (by omega) (by rw [hv1]; exact hft)
    | err e => rfl
    | panic m => rfl
    | diverged => rfl
  ))

theorem new_blocks16 (v : FatVolume) (now : Timestamp) (name : Bytes) (attributes firstCluster : Nat) :
    ∀ (n first fuel : Nat) (fs : FS), fuel ≥ n + 1 → fs.vol.fatType = .fat16 →
    FunsDir.FatVolume_write_new_directory_entry_loop2 v now name attributes firstCluster fuel
        { inclusive_end := first + n, current := first } fs =
      (nblocksOut (writeNewBlocks name attributes firstCluster now n first fs).1
        { inclusive_end := first + n, current := first + n },
       (writeNewBlocks name attributes firstCluster now n first fs).2) := by
  new_blocks_tac FunsDir.FatVolume_write_new_directory_entry_loop2 new_slots16

theorem new_blocks32 (v : FatVolume) (now : Timestamp) (name : Bytes) (attributes firstCluster : Nat) :
    ∀ (n first fuel : Nat) (fs : FS), fuel ≥ n + 1 → fs.vol.fatType = .fat32 →
    FunsDir.FatVolume_write_new_directory_entry_loop5 v now name attributes firstCluster fuel
        { inclusive_end := first + n, current := first } fs =
      (nblocksOut (writeNewBlocks name attributes firstCluster now n first fs).1
        { inclusive_end := first + n, current := first + n },
       (writeNewBlocks name attributes firstCluster now n first fs).2) := by
  new_blocks_tac FunsDir.FatVolume_write_new_directory_entry_loop5 new_slots32

/-- Computations that keep the volume record. -/
def KV {α : Type} (m : F α) : Prop := ∀ fs, (m fs).2.vol = fs.vol

theorem KV.pure {α : Type} (a : α) : KV (Pure.pure a : F α) := fun _ => rfl
theorem KV.fail {α : Type} (e : Err) : KV (F.fail e : F α) := fun _ => rfl
theorem KV.getVol : KV F.getVol := fun _ => rfl
theorem KV.cacheBlk : KV cacheBlk := fun _ => rfl
theorem KV.cacheModify (g : Block → Block) : KV (cacheModify g) := fun _ => rfl
theorem KV.cacheRead (b : Nat) : KV (cacheRead b) := fun fs => C06GenM.cacheRead_vol b fs
theorem KV.writeBack : KV writeBack := fun fs => writeBack_vol fs
theorem KV.bind {α β : Type} {m : F α} {f : α → F β} (hm : KV m) (hf : ∀ a, KV (f a)) : KV (m >>= f) := by
  intro fs
  rw [bind_apply']
  have h := hm fs
  cases hr : (m fs).1 with
  | ok a => exact (hf a _).trans h
  | err e => exact h
  | panic msg => exact h
  | diverged => exact h

/-- The scan keeps the volume record. -/
theorem writeNewBlocks_kv (name : Bytes) (attributes firstCluster : Nat) (now : Timestamp) :
    ∀ (n b : Nat), KV (writeNewBlocks name attributes firstCluster now n b)
  | 0, _ => KV.pure _
  | n + 1, b => by
    rw [writeNewBlocks]
    refine KV.bind KV.getVol fun v => KV.bind (KV.cacheRead _) fun _ => KV.bind KV.cacheBlk fun blk => ?_
    cases firstFreeSlot (slotsOf blk) with
    | some off => exact KV.bind (KV.cacheModify _) fun _ => KV.bind KV.writeBack fun _ => KV.pure _
    | none => exact writeNewBlocks_kv name attributes firstCluster now n (b + 1)

/-! ### The walk along the chain -/

/-- What `write_new_directory_entry` does with the answer of its outer loop. -/
def finishW {σ : Type} (r : Except DirEntry σ) : F DirEntry :=
  match r with
  | Except.error e => pure e
  | Except.ok _ => F.getVol >>= fun _ => F.fail .NotEnoughSpace

/-- `alloc_cluster` keeps the FAT type and the number of clusters. -/
theorem alloc_keeps (prev : Option Nat) (zero : Bool) (fs : FS) :
    (allocCluster prev zero fs).2.vol.fatType = fs.vol.fatType ∧
    (allocCluster prev zero fs).2.vol.clusterCount = fs.vol.clusterCount := by
  obtain ⟨a, b, h⟩ := allocCluster_vol prev zero fs
  rw [h]
  exact ⟨rfl, rfl⟩

theorem new_walk16 (now : Timestamp) (name : Bytes) (attributes firstCluster : Nat) :
    ∀ (fuelM fuelG : Nat) (v0 : FatVolume) (w : DirWalk) (fs : FS), fs.vol.fatType = .fat16 →
      endCluster fs.vol ≤ 4294967292 →
      (w.fixedRoot = true ↔ w.cluster = 4294967292) →
      fuelG ≥ fuelM + w.dirSize + 1 → (writeNewWalk name attributes firstCluster now fuelM w fs).1 ≠ .diverged →
      (FunsDir.FatVolume_write_new_directory_entry_loop1 v0 now name attributes firstCluster w.dirSize fuelG
          (some w.cluster, w.firstBlock) >>= finishW) fs =
        writeNewWalk name attributes firstCluster now fuelM w fs := by
  intro fuelM
  induction fuelM with
  | zero =>
    intro fuelG v0 w fs _ _ _ _ hnd
    exact (hnd rfl).elim
  | succ fuelM ih =>
    intro fuelG v0 w fs hft hec hroot hG hnd
    obtain ⟨fuel, rfl⟩ : ∃ f, fuelG = f + 1 := ⟨fuelG - 1, by omega⟩
    rw [writeNewWalk] at hnd ⊢
    rw [bind_apply, FunsDir.FatVolume_write_new_directory_entry_loop1]
    simp only [range_iter, bind_apply, getVol_apply] at hnd ⊢
    rw [new_blocks16 fs.vol now name attributes firstCluster w.dirSize w.firstBlock fuel fs (by omega) hft]
    have hv1 := writeNewBlocks_kv name attributes firstCluster now w.dirSize w.firstBlock fs
    rcases hfb : writeNewBlocks name attributes firstCluster now w.dirSize w.firstBlock fs with ⟨r, fs1⟩
    rw [hfb] at hv1 hnd
    simp only at hv1 hnd
    cases r with
    | ok oe =>
      cases oe with
      | some e => rfl
      | none =>
        simp only [nblocksOut, Sdmmc.Lemmas.FBasic.ite_apply, bind_apply, pure_apply] at hnd ⊢
        obtain ⟨fuel', rfl⟩ : ∃ f, fuel = f + 1 := ⟨fuel - 1, by omega⟩
        by_cases hfr : w.fixedRoot = true
        · have hc : ¬ (w.cluster ≠ 4294967292) := fun h => h (hroot.mp hfr)
          simp only [hfr, if_true, hc, if_false, pure_apply, bind_apply, getVol_apply]
          rfl
        · have hc : w.cluster ≠ 4294967292 := fun h => hfr (hroot.mpr h)
          simp only [hfr, if_false, hc, ne_eq, not_false_eq_true, if_true, attempt_apply, bind_apply,
            Bool.false_eq_true] at hnd ⊢
          have hv2 := nextCluster_vol w.cluster fs1
          have hne := next16_ne_root w.cluster
          rcases hnc : nextCluster w.cluster fs1 with ⟨rn, fs2⟩
          rw [hnc] at hv2 hnd
          simp only at hv2 hnd
          cases rn with
          | ok n =>
            simp only [pure_apply, bind_apply, getVol_apply] at hnd ⊢
            have hn := hne n fs1 (by rw [hv1]; exact hft) (by rw [hnc])
            have e1 : fs2.vol = fs.vol := by rw [hv2, hv1]
            rw [e1] at hnd ⊢
            exact ih (fuel' + 1) fs2.vol
              { cluster := n, firstBlock := clusterToBlock fs.vol n, dirSize := w.dirSize, fixedRoot := false } fs2
              (by rw [e1]; exact hft) (by rw [e1]; exact hec) ⟨fun h => (by cases h), fun h => (hn h).elim⟩
              (by simp only []; omega) hnd
          | err e =>
            cases e
            case EndOfFile =>
              simp only [bind_apply, getVol_apply] at hnd ⊢
              have hk := alloc_keeps (some w.cluster) true fs2
              have hlt := allocCluster_ok_lt (some w.cluster) true fs2
              rcases hal : allocCluster (some w.cluster) true fs2 with ⟨ra, fs3⟩
              rw [hal] at hk hlt hnd
              simp only at hk hlt hnd
              have e2 : fs2.vol = fs.vol := by rw [hv2, hv1]
              cases ra with
              | ok c =>
                simp only [pure_apply, bind_apply, getVol_apply] at hnd ⊢
                have hcl := hlt c rfl
                have hcne : c ≠ 4294967292 := by
                  have : endCluster fs2.vol ≤ 4294967292 := by rw [e2]; exact hec
                  omega
                exact ih (fuel' + 1) fs3.vol
                  { cluster := c, firstBlock := clusterToBlock fs3.vol c, dirSize := w.dirSize, fixedRoot := false } fs3
                  (by rw [hk.1, e2]; exact hft)
                  (by unfold endCluster at hec ⊢; rw [hk.2, e2]; exact hec)
                  ⟨fun h => (by cases h), fun h => (hcne h).elim⟩ (by simp only []; omega) hnd
              | err e2 => rfl
              | panic m => rfl
              | diverged => rfl
            all_goals rfl
          | panic m => rfl
          | diverged => rfl
    | err e => rfl
    | panic m => rfl
    | diverged => rfl

theorem new_walk32 (now : Timestamp) (name : Bytes) (attributes firstCluster : Nat) :
    ∀ (fuelM fuelG : Nat) (v0 : FatVolume) (w : DirWalk) (fs : FS), fs.vol.fatType = .fat32 →
      w.fixedRoot = false →
      fuelG ≥ fuelM + w.dirSize + 1 → (writeNewWalk name attributes firstCluster now fuelM w fs).1 ≠ .diverged →
      (FunsDir.FatVolume_write_new_directory_entry_loop4 v0 now name attributes firstCluster w.dirSize fuelG
          (some w.cluster, w.firstBlock) >>= finishW) fs =
        writeNewWalk name attributes firstCluster now fuelM w fs := by
  intro fuelM
  induction fuelM with
  | zero =>
    intro fuelG v0 w fs _ _ _ hnd
    exact (hnd rfl).elim
  | succ fuelM ih =>
    intro fuelG v0 w fs hft hfr hG hnd
    obtain ⟨fuel, rfl⟩ : ∃ f, fuelG = f + 1 := ⟨fuelG - 1, by omega⟩
    rw [writeNewWalk] at hnd ⊢
    rw [bind_apply, FunsDir.FatVolume_write_new_directory_entry_loop4]
    simp only [range_iter, bind_apply, getVol_apply] at hnd ⊢
    rw [new_blocks32 fs.vol now name attributes firstCluster w.dirSize w.firstBlock fuel fs (by omega) hft]
    have hv1 := writeNewBlocks_kv name attributes firstCluster now w.dirSize w.firstBlock fs
    rcases hfb : writeNewBlocks name attributes firstCluster now w.dirSize w.firstBlock fs with ⟨r, fs1⟩
    rw [hfb] at hv1 hnd
    simp only at hv1 hnd
    cases r with
    | ok oe =>
      cases oe with
      | some e => rfl
      | none =>
        simp only [nblocksOut, Sdmmc.Lemmas.FBasic.ite_apply, bind_apply, pure_apply, hfr, Bool.false_eq_true, if_false,
          attempt_apply] at hnd ⊢
        obtain ⟨fuel', rfl⟩ : ∃ f, fuel = f + 1 := ⟨fuel - 1, by omega⟩
        have hv2 := nextCluster_vol w.cluster fs1
        rcases hnc : nextCluster w.cluster fs1 with ⟨rn, fs2⟩
        rw [hnc] at hv2 hnd
        simp only at hv2 hnd
        cases rn with
        | ok n =>
          simp only [pure_apply, bind_apply, getVol_apply] at hnd ⊢
          have e1 : fs2.vol = fs.vol := by rw [hv2, hv1]
          rw [e1] at hnd ⊢
          exact ih (fuel' + 1) fs2.vol
            { cluster := n, firstBlock := clusterToBlock fs.vol n, dirSize := w.dirSize, fixedRoot := false } fs2
            (by rw [e1]; exact hft) rfl (by simp only []; omega) hnd
        | err e =>
          cases e
          case EndOfFile =>
            simp only [bind_apply, getVol_apply] at hnd ⊢
            have hk := alloc_keeps (some w.cluster) true fs2
            rcases hal : allocCluster (some w.cluster) true fs2 with ⟨ra, fs3⟩
            rw [hal] at hk hnd
            simp only at hk hnd
            have e2 : fs2.vol = fs.vol := by rw [hv2, hv1]
            cases ra with
            | ok c =>
              simp only [pure_apply, bind_apply, getVol_apply] at hnd ⊢
              exact ih (fuel' + 1) fs3.vol
                { cluster := c, firstBlock := clusterToBlock fs3.vol c, dirSize := w.dirSize, fixedRoot := false } fs3
                (by rw [hk.1, e2]; exact hft) rfl (by simp only []; omega) hnd
            | err e2 => rfl
            | panic m => rfl
            | diverged => rfl
          all_goals rfl
        | panic m => rfl
        | diverged => rfl
    | err e => rfl
    | panic m => rfl
    | diverged => rfl

/-! ### `write_new_directory_entry` -/

/-- `write_new_directory_entry(time_source, dir_cluster, name, attributes, first_cluster)` with `now` the value of
the clock during the call is the model's `writeNewDirectoryEntry`, for every fuel above
`chainFuel v + (blocks per step) + 3`, when the model's answer is not `diverged` and (FAT16) the cluster numbers
stay below the `ROOT_DIR` marker. -/
theorem write_new_directory_entry_eq_partial (fuel : Nat) (now : Timestamp) (dirCluster : Nat) (name : Bytes)
    (attributes firstCluster : Nat) (fs : FS)
    (hfuel : fuel ≥ chainFuel fs.vol + (dirWalkStart fs.vol dirCluster).dirSize + 3)
    (hec : endCluster fs.vol ≤ 4294967292)
    (hnd : (writeNewDirectoryEntry dirCluster name attributes firstCluster now fs).1 ≠ .diverged) :
    FunsDir.FatVolume_write_new_directory_entry fuel now dirCluster name attributes firstCluster fs =
      writeNewDirectoryEntry dirCluster name attributes firstCluster now fs := by
  unfold FunsDir.FatVolume_write_new_directory_entry writeNewDirectoryEntry at *
  simp only [bind_apply, getVol_apply] at hnd ⊢
  cases hft : fs.vol.fatType with
  | fat16 =>
    simp only []
    have hw : dirWalkStart fs.vol dirCluster =
        { cluster := dirCluster,
          firstBlock := if dirCluster = 4294967292 then FunsM.BlockIdx_add fs.vol.lbaStart fs.vol.firstRootDirBlock
            else clusterToBlock fs.vol dirCluster,
          dirSize := if dirCluster = 4294967292 then FunsDir.BlockCount_from_bytes (fs.vol.rootEntriesCount * 32)
            else fs.vol.blocksPerCluster,
          fixedRoot := decide (dirCluster = 4294967292) } := by
      unfold dirWalkStart
      simp only [hft]
      have hr : CLUSTER_ROOT_DIR = 4294967292 := rfl
      rw [hr]
      by_cases h : dirCluster = 4294967292
      · simp only [h, if_true, decide_true]
        rfl
      · simp only [h, if_false, decide_false]
    rw [hw] at hnd hfuel ⊢
    have := new_walk16 now name attributes firstCluster (chainFuel fs.vol + 1) fuel fs.vol _ fs hft hec (by simp)
      (by simp only [] at hfuel ⊢; omega) hnd
    rw [← this]
    refine congrFun (congrArg _ (funext fun r => ?_)) fs
    cases r <;> rfl
  | fat32 =>
    simp only []
    have hw : dirWalkStart fs.vol dirCluster =
        { cluster := if dirCluster = 4294967292 then fs.vol.firstRootDirCluster else dirCluster,
          firstBlock := clusterToBlock fs.vol dirCluster, dirSize := fs.vol.blocksPerCluster, fixedRoot := false } := by
      unfold dirWalkStart
      simp only [hft]
      rfl
    rw [hw] at hnd hfuel ⊢
    have := new_walk32 now name attributes firstCluster (chainFuel fs.vol + 1) fuel fs.vol _ fs hft rfl
      (by simp only [] at hfuel ⊢; omega) hnd
    rw [← this]
    by_cases h : dirCluster = 4294967292
    · simp only [h, if_true]
      refine congrFun (congrArg _ (funext fun r => ?_)) fs
      cases r <;> rfl
    · simp only [h, if_false]
      refine congrFun (congrArg _ (funext fun r => ?_)) fs
      cases r <;> rfl

/-! ### `make_dir` -/

theorem this_dir_eq : FunsDir.ShortFileName_this_dir = Sfn.thisDir := rfl
theorem parent_dir_eq : FunsDir.ShortFileName_parent_dir = Sfn.parentDir := rfl

/-- The loop that blanks the remaining blocks of the new cluster. -/
theorem blank_loop_eq : ∀ (n first fuel : Nat) (v0 : FatVolume), fuel ≥ n + 1 →
    (FunsDir.FatVolume_make_dir_loop1 v0 fuel { inclusive_end := first + n, current := first } >>= fun _ =>
      (pure () : F Unit)) = zeroBlocks n first := by
  intro n
  induction n with
  | zero =>
    intro first fuel v0 hf
    obtain ⟨fuel', rfl⟩ : ∃ f', fuel = f' + 1 := ⟨fuel - 1, by omega⟩
    funext s
    rw [FunsDir.FatVolume_make_dir_loop1]
    simp only [FunsM.BlockIter_next, Nat.add_zero, ge_iff_le, Nat.le_refl, if_true, zeroBlocks, bind_apply, pure_apply]
  | succ n ih =>
    intro first fuel v0 hf
    obtain ⟨fuel', rfl⟩ : ∃ f', fuel = f' + 1 := ⟨fuel - 1, by omega⟩
    funext s
    rw [FunsDir.FatVolume_make_dir_loop1]
    have hlt : ¬ first ≥ first + (n + 1) := by omega
    simp only [FunsM.BlockIter_next, hlt, if_false, zeroBlocks, bind_apply, pure_apply, FunsM.BlockIdx_add, cacheBlk]
    have h2 : first + (n + 1) = first + 1 + n := by omega
    rw [h2]
    rcases blankMut first s with ⟨r, s1⟩
    cases r <;> simp only []
    rcases writeBack s1 with ⟨r2, s2⟩
    cases r2 <;> simp only []
    have := congrFun (ih (first + 1) fuel' v0 (by omega)) s2
    simp only [bind_apply] at this
    exact this

theorem KV.blankMut (b : Nat) : KV (blankMut b) := fun _ => rfl

theorem zeroBlocks_kv : ∀ (n first : Nat), KV (zeroBlocks n first)
  | 0, _ => KV.pure _
  | n + 1, first => by
    rw [zeroBlocks]
    exact KV.bind (KV.blankMut _) fun _ => KV.bind KV.writeBack fun _ => zeroBlocks_kv n (first + 1)

/-- The first block of the new cluster is skipped, the others are blanked. -/
theorem blank_rest (start bpc fuel : Nat) (v0 : FatVolume) (hf : fuel ≥ bpc + 1) :
    (FunsDir.FatVolume_make_dir_loop1 v0 fuel
        (FunsM.BlockIter_next (FunsM.BlockIdx_range start bpc).inclusive_end (FunsM.BlockIdx_range start bpc).current).2 >>=
      fun _ => (pure () : F Unit)) = zeroBlocks (bpc - 1) (start + 1) := by
  rw [range_iter]
  cases bpc with
  | zero =>
    simp only [FunsM.BlockIter_next, Nat.add_zero, ge_iff_le, Nat.le_refl, if_true]
    have := blank_loop_eq 0 start fuel v0 (by omega)
    simp only [Nat.add_zero] at this
    rw [this]
    rfl
  | succ k =>
    have hlt : ¬ start ≥ start + (k + 1) := by omega
    simp only [FunsM.BlockIter_next, hlt, if_false, FunsM.BlockIdx_add]
    have h2 : start + (k + 1) = start + 1 + k := by omega
    rw [h2]
    exact blank_loop_eq k (start + 1) fuel v0 (by omega)

theorem geom_dirSize (v : FatVolume) (a b : Option Nat) (p : Nat) :
    (dirWalkStart { v with freeClustersCount := a, nextFreeCluster := b } p).dirSize = (dirWalkStart v p).dirSize := rfl

/-- `make_dir(time_source, parent, sfn, att)` with `now` the value of the clock during the call is the model's
`makeDir`, for every fuel above `chainFuel v + (blocks per step of the parent) + 3` and above the blocks per
cluster, when the model's answer is not `diverged` and the cluster numbers stay below the `ROOT_DIR` marker. -/
theorem make_dir_eq_partial (fuel : Nat) (now : Timestamp) (parent : Nat) (sfn : Bytes) (att : Nat) (fs : FS)
    (hfuel : fuel ≥ chainFuel fs.vol + (dirWalkStart fs.vol parent).dirSize + 3)
    (hfuel2 : fuel ≥ fs.vol.blocksPerCluster + 1)
    (hec : endCluster fs.vol ≤ 4294967292)
    (hnd : (makeDir parent sfn att now fs).1 ≠ .diverged) :
    FunsDir.FatVolume_make_dir fuel now parent sfn att fs = makeDir parent sfn att now fs := by
  unfold FunsDir.FatVolume_make_dir makeDir at *
  simp only [bind_apply, getVol_apply] at hnd ⊢
  obtain ⟨ga, gb, hgeo⟩ := allocCluster_vol none false fs
  rcases hal : allocCluster none false fs with ⟨ra, fs1⟩
  rw [hal] at hgeo hnd
  simp only at hgeo hnd
  cases ra with
  | ok c =>
    simp only [this_dir_eq, parent_dir_eq, blankMut, cacheBlk, cacheModify, bind_apply, Nat.zero_add, List.take_zero,
      List.nil_append] at hnd ⊢
    have hl := fun (ft : FatType) (e : DirEntry) => serialize_length ft e (.inr trivial)
    have hd : DIRENT_LEN = 32 := rfl
    have hr : CLUSTER_ROOT_DIR = 4294967292 := rfl
    have he : CLUSTER_EMPTY = 0 := rfl
    simp only [splice, hl, List.take_zero, List.nil_append, Nat.zero_add, hd, hr, he] at hnd ⊢
    have hwv : ∀ s : FS, (writeBack s).2.vol = s.vol := writeBack_vol
    rcases hwb : writeBack _ with ⟨r2, fs2⟩
    have hv2' := congrArg (fun x : Res Unit × FS => x.2.vol) hwb
    simp only [hwv] at hv2'
    have hv2 : fs2.vol = fs1.vol := hv2'.symm
    rw [hwb] at hnd
    cases r2 with
    | ok u2 =>
      simp only [] at hnd ⊢
      have hbl := congrFun (blank_rest (clusterToBlock fs1.vol c) fs1.vol.blocksPerCluster fuel fs1.vol
        (by rw [hgeo]; exact hfuel2)) fs2
      rw [bind_apply] at hbl
      have hv3 := zeroBlocks_kv (fs1.vol.blocksPerCluster - 1) (clusterToBlock fs1.vol c + 1) fs2
      rcases hlp : FunsDir.FatVolume_make_dir_loop1 fs1.vol fuel
          (FunsM.BlockIter_next (FunsM.BlockIdx_range (clusterToBlock fs1.vol c) fs1.vol.blocksPerCluster).inclusive_end
            (FunsM.BlockIdx_range (clusterToBlock fs1.vol c) fs1.vol.blocksPerCluster).current).snd fs2 with ⟨rl, fs3⟩
      rw [hlp] at hbl
      rw [← hbl] at hnd hv3 ⊢
      cases rl with
      | ok it =>
        simp only [pure_apply, attempt_apply] at hnd hv3 ⊢
        have hv3 : fs3.vol = fs2.vol := hv3
        have e3 : fs3.vol = { fs.vol with freeClustersCount := ga, nextFreeCluster := gb } := by
          rw [hv3, hv2, hgeo]
        have hnd2 : (writeNewDirectoryEntry parent sfn att c now fs3).1 ≠ .diverged := by
          intro hdv
          apply hnd
          rcases hw : writeNewDirectoryEntry parent sfn att c now fs3 with ⟨rw, fs4⟩
          rw [hw] at hdv
          simp only at hdv
          subst hdv
          rfl
        rw [write_new_directory_entry_eq_partial fuel now parent sfn att c fs3
          (by rw [e3]; exact hfuel) (by rw [e3]; exact hec) hnd2]
        rcases writeNewDirectoryEntry parent sfn att c now fs3 with ⟨rw, fs4⟩
        cases rw with
        | ok e => rfl
        | err e =>
          simp only [bind_apply, attempt_apply, getVol_apply, fail_apply]
        | panic m => rfl
        | diverged => rfl
      | err e => rfl
      | panic m => rfl
      | diverged => rfl
    | err e => rfl
    | panic m => rfl
    | diverged => rfl
  | err e => rfl
  | panic m => rfl
  | diverged => rfl

end Sdmmc.Props.C09GenM
