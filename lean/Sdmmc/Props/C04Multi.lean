/-
C04 with SEVERAL OPEN VOLUMES — licences over multi-volume histories.

C04: "Every block the library writes lies inside the partition of the volume being operated on and inside the region
appropriate to its purpose; the master boot record, boot sector, other partitions and blocks past the last cluster are
never written.  Within the data area a call only changes bytes of the file range it was asked to write, of clusters it
newly allocated, or of the directory slot it owns; within the FAT only entries of chains it extends, truncates or frees;
all other bytes of every rewritten block are preserved."

`Props.C04Hist` proves this for histories on ONE open volume; `Props.C03Multi` lifts the volume invariant to several open
volumes on one device (`VolInvN`, `MirrorN`, the simulation lemma `step_proj`).  Here the LICENCES are lifted: every call
of every multi-volume history is licensed by a licence of the volume it works on.  Property theorems only; vocabulary
`Sdmmc.Spec.VolumeN` (`VolInvN`, `MirrorN`, `proj`, `target`, `volFiles`, `volDirs`), `Sdmmc.Spec.WriteSet` (`Licence`,
`Licensed`, `AllLicensed`, `InfoWrite`), `Lemmas.WriteSetInv.LicenceFor` (read the header of `Props/C04Hist.lean`),
`Props.C03Multi` (`CoveredN`, `CoveredNRun`: the hypothesis on `open_volume` calls that succeed).  Proofs:
`Sdmmc.Lemmas.VolNLic`.

VOCABULARY DEFINED HERE (tiny):
* `workTarget s op` — the index of the volume record the call `op` works on in state `s`: `target s op` (the record
  named through the call's directory / file / volume handle), and for `close_volume v` — which `target` leaves out,
  because it is not simulated on the projection — the record carrying the handle `v`.  `none` for `open_volume`,
  `open_root_dir`, `close_dir`, `has_open_handles` (table calls) and for every call whose handle names no open record.
* `CallStaysInVolume s op` — every device write of the call `op` issued in `s` goes to a block of the partition of the
  volume record the call works on, in its FAT, FAT16-root, data or info region, never block 0; a call that works on no
  volume record writes nothing (the existential cannot be met).

WHAT IS PROVED (all constructors of `Op`, every outcome; no name hypothesis, no `LabelFresh` hypothesis).
* `step_licensed_multi` — a call addressed to volume record `i` (`target s op = some i`) has a licence `L` with
  `LicenceFor gh (volFiles s h) (volDirs s h) s.dev.disk op L` — `gh` the ghost of record `i`, `h` its handle: the
  licence is described from the open files / directories OF THAT VOLUME (`proj_tables`: they are the tables of `proj s i`)
  and the medium before the call —, every write the call reports is licensed by `L` for the geometry of volume `i`
  (`AllLicensed gh.vol`), and the medium afterwards is the medium before with exactly these writes applied.
  `step_licensed_work` — the same for `workTarget`, i.e. including `close_volume` (licence `infoLicence`: the two counters
  of the FAT32 info sector of the volume being closed).
* `untargeted_writes_nothing` — a call with `target s op = none` other than `close_volume` writes nothing (`open_volume`
  only reads); `closeVolume_writes_info` — every write of `close_volume v` goes to the info sector of the FAT32 volume
  record carrying `v` (region `.info` of ITS partition), and changes bytes 488 … 495 only (`InfoWrite`);
  `unaddressed_writes_nothing` — a call with `workTarget s op = none` writes nothing.
* `step_stays_in_volume` — `CallStaysInVolume s op` under the invariant.
* `run_getElem` — the `k`-th output of a history is the output of its `k`-th call in the state the first `k` calls leave.
* `history_never_leaves_volume_multi` — **for every history** (hypothesis `CoveredNRun`: about successful `open_volume`
  calls only) **and every `k`**: the invariant holds in the state `sk` the first `k` calls leave, and the `k`-th call
  stays in the volume it works on IN THAT STATE (`CallStaysInVolume sk ops[k]`);
  `history_outputs_stay_in_volume` — the same read off the `k`-th output of `run`.
* `history_licensed_multi` — for every history and every `k`: the `k`-th call, if it works on record `i` of `sk`, is
  licensed (`LicenceFor` … `AllLicensed` … medium equation) by a licence of THAT volume, for some ghosts of `sk`
  satisfying the invariant.
-/
import Sdmmc.Lemmas.VolNLic
import Sdmmc.Props.C03Multi

namespace Sdmmc.Props.C04Multi
open Sdmmc.Model Sdmmc.Model.Fat Sdmmc.Spec.Volume
open Sdmmc.Spec hiding run step NoFault Coherent
open Sdmmc.Props.C03Multi (CoveredN CoveredNRun)
open Sdmmc.Lemmas.WriteSetInv (LicenceFor)
open Sdmmc.Lemmas.WriteSet (infoLicence)

/-! ### Vocabulary -/

/-- The index of the volume record the call `op` works on in state `s`: `target s op`, and for `close_volume v` the
record carrying the handle `v` (the first one: `get_volume_by_id`). -/
def workTarget (s : Mgr) : Op → Option Nat
  | .closeVolume v => s.vols.findIdx? (·.rawVolume = v)
  | op => target s op

/-- Every device write of the call `op` issued in `s` goes to a block of the partition of the volume record the call
works on — in its FAT, FAT16-root, data or info region —, never to block 0.  (A call that works on no volume record
writes nothing.) -/
def CallStaysInVolume (s : Mgr) (op : Op) : Prop :=
  ∀ w, w ∈ (step s op).2.writes → ∃ (i : Nat) (vi : VolInfo), workTarget s op = some i ∧ s.vols[i]? = some vi ∧
    InPartition vi.vol w.1 ∧ w.1 ≠ 0 ∧
    (regionOf vi.vol w.1 = .fat ∨ regionOf vi.vol w.1 = .root ∨ regionOf vi.vol w.1 = .data ∨ regionOf vi.vol w.1 = .info)

theorem workTarget_closeVolume (s : Mgr) (v : Nat) : workTarget s (.closeVolume v) = s.vols.findIdx? (·.rawVolume = v) := rfl

theorem workTarget_eq_target (s : Mgr) {op : Op} (h : ∀ v, op ≠ .closeVolume v) : workTarget s op = target s op := by
  cases op <;> first | rfl | exact absurd rfl (h _)

/-- An addressed call works on the record it is addressed to. -/
theorem workTarget_of_target {s : Mgr} {op : Op} {i : Nat} (ht : target s op = some i) : workTarget s op = some i := by
  rw [workTarget_eq_target s (fun v e => by rw [e] at ht; cases ht)]; exact ht

/-- A work target is the index of a volume record. -/
theorem workTarget_lt {s : Mgr} {op : Op} {i : Nat} (hw : workTarget s op = some i) : ∃ vi, s.vols[i]? = some vi := by
  by_cases hcl : ∃ v, op = .closeVolume v
  · obtain ⟨v, rfl⟩ := hcl
    obtain ⟨vi, hvi, _⟩ := Lemmas.MHoare.findIdx?_some_get hw
    exact ⟨vi, hvi⟩
  · rw [workTarget_eq_target s (fun v e => hcl ⟨v, e⟩)] at hw
    exact C03Multi.target_lt hw

/-- The tables the licence of a call on record `i` is described from are the tables of the projection `proj s i`. -/
theorem proj_tables {s : Mgr} {i : Nat} {vi : VolInfo} (hvi : s.vols[i]? = some vi) :
    (proj s i).files = volFiles s vi.rawVolume ∧ (proj s i).dirs = volDirs s vi.rawVolume ∧ (proj s i).dev = s.dev := by
  rw [C03Multi.proj_def hvi]; exact ⟨rfl, rfl, rfl⟩

/-! ### One call -/

/-- **`step_licensed_multi`.**  A call addressed to volume record `i` — whatever it answers — has a licence `L`,
described by `LicenceFor` from the ghost of record `i`, the open files and directories of THAT volume and the medium
BEFORE the call, such that every device write the call issues is licensed by `L` for the geometry of volume `i`
(`AllLicensed`: each write judged against the medium the earlier writes of the call produced), and the medium
afterwards is the medium before with exactly these writes applied. -/
theorem step_licensed_multi (s : Mgr) (op : Op) (ghs : List Ghost) (hI : VolInvN s ghs) (hm : MirrorN s ghs) {i : Nat}
    {vi : VolInfo} {gh : Ghost} (ht : target s op = some i) (hvi : s.vols[i]? = some vi) (hgh : ghs[i]? = some gh) :
    ∃ L, LicenceFor gh (volFiles s vi.rawVolume) (volDirs s vi.rawVolume) s.dev.disk op L ∧
      AllLicensed gh.vol s.dev.disk L (step s op).2.writes ∧
      ∀ b, (step s op).1.dev.disk.get b = (s.dev.disk.applyWrites (step s op).2.writes).get b :=
  Lemmas.VolN.licensed_of_target hI hm op ht hvi hgh

/-- The same, spelled with the projection `proj s i` (the one-volume manager volume `i` sees). -/
theorem step_licensed_multi_proj (s : Mgr) (op : Op) (ghs : List Ghost) (hI : VolInvN s ghs) (hm : MirrorN s ghs) {i : Nat}
    {vi : VolInfo} {gh : Ghost} (ht : target s op = some i) (hvi : s.vols[i]? = some vi) (hgh : ghs[i]? = some gh) :
    ∃ L, LicenceFor gh (proj s i).files (proj s i).dirs s.dev.disk op L ∧
      AllLicensed gh.vol s.dev.disk L (step s op).2.writes ∧
      ∀ b, (step s op).1.dev.disk.get b = (s.dev.disk.applyWrites (step s op).2.writes).get b := by
  rw [(proj_tables hvi).1, (proj_tables hvi).2.1]
  exact step_licensed_multi s op ghs hI hm ht hvi hgh

/-- **`closeVolume_writes_info`.**  Every write of `close_volume v` goes to the info sector of the volume record `vi`
carrying the handle `v` — a FAT32 volume; the block lies in the info region of ITS partition — and changes nothing but
bytes 488 … 495 (`InfoWrite`); there is at most one such write. -/
theorem closeVolume_writes_info (s : Mgr) (v : Nat) (ghs : List Ghost) (hI : VolInvN s ghs) (w : Nat × Block)
    (hw : w ∈ (step s (.closeVolume v)).2.writes) :
    ∃ (i : Nat) (vi : VolInfo), s.vols.findIdx? (·.rawVolume = v) = some i ∧ s.vols[i]? = some vi ∧
      vi.vol.fatType = .fat32 ∧ w.1 = vi.vol.infoLocation ∧ regionOf vi.vol w.1 = .info ∧
      InfoWrite vi.vol s.dev.disk (infoLicence vi.vol) w ∧ (step s (.closeVolume v)).2.writes = [w] := by
  rcases Lemmas.VolN.closeVolume_step hI v with ⟨h1, _⟩ | ⟨k, vi, blk, h1, h2, h3, h4, _, h6, h7⟩
  · rw [h1] at hw; cases hw
  · rw [h4] at hw ⊢
    have e : w = (vi.vol.infoLocation, blk) := by simpa using hw
    rw [e]
    exact ⟨k, vi, h1, h2, h3, rfl, h7, h6, rfl⟩

/-- **`step_licensed_work`.**  The licence statement for every call that works on a volume record, `close_volume`
included: its licence is `infoLicence` of the volume being closed. -/
theorem step_licensed_work (s : Mgr) (op : Op) (ghs : List Ghost) (hI : VolInvN s ghs) (hm : MirrorN s ghs) {i : Nat}
    {vi : VolInfo} {gh : Ghost} (hw : workTarget s op = some i) (hvi : s.vols[i]? = some vi) (hgh : ghs[i]? = some gh) :
    ∃ L, LicenceFor gh (volFiles s vi.rawVolume) (volDirs s vi.rawVolume) s.dev.disk op L ∧
      AllLicensed gh.vol s.dev.disk L (step s op).2.writes ∧
      ∀ b, (step s op).1.dev.disk.get b = (s.dev.disk.applyWrites (step s op).2.writes).get b := by
  by_cases hcl : ∃ v, op = .closeVolume v
  · obtain ⟨v, rfl⟩ := hcl
    obtain ⟨h1, h2, _⟩ := Lemmas.VolN.closeVolume_licensed hI v hw hvi hgh
    exact ⟨_, .closeVolume v, h1, h2⟩
  · rw [workTarget_eq_target s (fun v e => hcl ⟨v, e⟩)] at hw
    exact step_licensed_multi s op ghs hI hm hw hvi hgh

/-- **`untargeted_writes_nothing`.**  A call that is addressed to no volume record (`open_volume` — it only reads —,
`open_root_dir`, `close_dir`, `has_open_handles`, and every call whose handle names no open record) and is not
`close_volume` writes nothing and leaves the medium alone. -/
theorem untargeted_writes_nothing (s : Mgr) (op : Op) (ghs : List Ghost) (hI : VolInvN s ghs) (ht : target s op = none)
    (hncl : ∀ v, op ≠ .closeVolume v) : (step s op).2.writes = [] ∧ (step s op).1.dev.disk = s.dev.disk :=
  Lemmas.VolN.untargeted_nowrite hI op ht hncl

/-- **`unaddressed_writes_nothing`.**  A call that works on no volume record writes nothing. -/
theorem unaddressed_writes_nothing (s : Mgr) (op : Op) (ghs : List Ghost) (hI : VolInvN s ghs)
    (hw : workTarget s op = none) : (step s op).2.writes = [] ∧ (step s op).1.dev.disk = s.dev.disk := by
  by_cases hcl : ∃ v, op = .closeVolume v
  · obtain ⟨v, rfl⟩ := hcl
    exact Lemmas.VolN.closeVolume_bad_nowrite hI v hw
  · rw [workTarget_eq_target s (fun v e => hcl ⟨v, e⟩)] at hw
    exact untargeted_writes_nothing s op ghs hI hw (fun v e => hcl ⟨v, e⟩)

/-- **`step_stays_in_volume`.**  Under the invariant every call — all constructors of `Op`, every outcome — writes
only inside the partition of the volume record it works on, in a region of its purpose. -/
theorem step_stays_in_volume (s : Mgr) (op : Op) (ghs : List Ghost) (hI : VolInvN s ghs) (hm : MirrorN s ghs) :
    CallStaysInVolume s op := by
  intro w hw
  cases hwt : workTarget s op with
  | none => rw [(unaddressed_writes_nothing s op ghs hI hwt).1] at hw; cases hw
  | some i =>
    obtain ⟨vi, hvi⟩ := workTarget_lt hwt
    obtain ⟨gh, hgh⟩ : ∃ gh, ghs[i]? = some gh :=
      ⟨_, List.getElem?_eq_getElem (by rw [hI.len]; exact (List.getElem?_eq_some_iff.1 hvi).1)⟩
    obtain ⟨L, _, hall, _⟩ := step_licensed_work s op ghs hI hm hwt hvi hgh
    have hreg := Lemmas.WriteSet.allLicensed_in_region gh.vol (hI.med i vi gh hvi hgh).geom L _ _ hall w hw
    rw [← hI.vols i vi gh hvi hgh] at hreg
    exact ⟨i, vi, rfl, hvi, hreg.2.1, hreg.2.2.2, hreg.1⟩

/-! ### Histories -/

/-- The `k`-th output of a history is the output of its `k`-th call, issued in the state the first `k` calls leave. -/
theorem run_getElem (s : Mgr) (ops : List Op) (k : Nat) (hk : k < ops.length) :
    (run s ops).2[k]? = some (step (run s (ops.take k)).1 ops[k]).2 := Lemmas.VolN.mrun_getElem ops s k hk

/-- **`history_never_leaves_volume_multi`.**  For every history of API calls on a manager with several open volumes
(the only hypothesis, `CoveredNRun`, concerns the `open_volume` calls that succeed) and every `k`: the state `sk` the
first `k` calls leave satisfies the invariant, and the `k`-th call — whose output is the `k`-th output of the history —
writes only inside the partition of the volume record it works on in `sk`, in its FAT, FAT16-root, data or info region,
never block 0; if it works on no volume record it writes nothing. -/
theorem history_never_leaves_volume_multi (ops : List Op) (s : Mgr) (ghs : List Ghost) (hI : VolInvN s ghs)
    (hm : MirrorN s ghs) (hc : CoveredNRun s ops) (k : Nat) (hk : k < ops.length) :
    (∃ ghs', VolInvN (run s (ops.take k)).1 ghs' ∧ MirrorN (run s (ops.take k)).1 ghs') ∧
    (run s ops).2[k]? = some (step (run s (ops.take k)).1 ops[k]).2 ∧
    CallStaysInVolume (run s (ops.take k)).1 ops[k] := by
  obtain ⟨ghs', hI', hm'⟩ := C03Multi.api_history_invariant_multi_prefix ops s ghs hI hm hc k
  exact ⟨⟨ghs', hI', hm'⟩, run_getElem s ops k hk, step_stays_in_volume _ _ ghs' hI' hm'⟩

/-- … read off the outputs of `run`: every write `w` of the `k`-th output `o` of the history lies in the partition of
the volume record `i` the `k`-th call works on in the state it is issued in. -/
theorem history_outputs_stay_in_volume (ops : List Op) (s : Mgr) (ghs : List Ghost) (hI : VolInvN s ghs)
    (hm : MirrorN s ghs) (hc : CoveredNRun s ops) (k : Nat) (o : Out) (ho : (run s ops).2[k]? = some o) (w : Nat × Block)
    (hw : w ∈ o.writes) :
    ∃ (op : Op) (i : Nat) (vi : VolInfo), ops[k]? = some op ∧ workTarget (run s (ops.take k)).1 op = some i ∧
      (run s (ops.take k)).1.vols[i]? = some vi ∧ InPartition vi.vol w.1 ∧ w.1 ≠ 0 ∧
      (regionOf vi.vol w.1 = .fat ∨ regionOf vi.vol w.1 = .root ∨ regionOf vi.vol w.1 = .data ∨ regionOf vi.vol w.1 = .info) := by
  have hk : k < ops.length := by
    rw [← Lemmas.VolN.mrun_length ops s]; exact (List.getElem?_eq_some_iff.1 ho).1
  obtain ⟨_, hout, hst⟩ := history_never_leaves_volume_multi ops s ghs hI hm hc k hk
  rw [Option.some.inj (ho.symm.trans hout)] at hw
  obtain ⟨i, vi, h1, h2, h3⟩ := hst w hw
  exact ⟨ops[k], i, vi, List.getElem?_eq_getElem hk, h1, h2, h3⟩

/-- **`history_licensed_multi`.**  For every history and every `k`: if the `k`-th call works on volume record `i` of
the state `sk` it is issued in (`close_volume` included), then — for ghosts `ghs'` of `sk` satisfying the invariant,
`gh` the ghost of record `i` — it has a licence `L` described from `gh`, the open files and directories of THAT volume
and the medium of `sk`; every write of the call is licensed by `L` for the geometry of volume `i`; and the medium
afterwards is the medium of `sk` with exactly these writes applied. -/
theorem history_licensed_multi (ops : List Op) (s : Mgr) (ghs : List Ghost) (hI : VolInvN s ghs) (hm : MirrorN s ghs)
    (hc : CoveredNRun s ops) (k : Nat) (hk : k < ops.length) (i : Nat) (vi : VolInfo)
    (hw : workTarget (run s (ops.take k)).1 ops[k] = some i) (hvi : (run s (ops.take k)).1.vols[i]? = some vi) :
    ∃ (ghs' : List Ghost) (gh : Ghost), VolInvN (run s (ops.take k)).1 ghs' ∧ MirrorN (run s (ops.take k)).1 ghs' ∧
      ghs'[i]? = some gh ∧ gh.vol = vi.vol ∧
      ∃ L, LicenceFor gh (volFiles (run s (ops.take k)).1 vi.rawVolume) (volDirs (run s (ops.take k)).1 vi.rawVolume)
          (run s (ops.take k)).1.dev.disk ops[k] L ∧
        AllLicensed vi.vol (run s (ops.take k)).1.dev.disk L (step (run s (ops.take k)).1 ops[k]).2.writes ∧
        ∀ b, (step (run s (ops.take k)).1 ops[k]).1.dev.disk.get b =
          ((run s (ops.take k)).1.dev.disk.applyWrites (step (run s (ops.take k)).1 ops[k]).2.writes).get b := by
  obtain ⟨ghs', hI', hm'⟩ := C03Multi.api_history_invariant_multi_prefix ops s ghs hI hm hc k
  obtain ⟨gh, hgh⟩ : ∃ gh, ghs'[i]? = some gh :=
    ⟨_, List.getElem?_eq_getElem (by rw [hI'.len]; exact (List.getElem?_eq_some_iff.1 hvi).1)⟩
  have hvol := hI'.vols i vi gh hvi hgh
  obtain ⟨L, h1, h2, h3⟩ := step_licensed_work _ _ ghs' hI' hm' hw hvi hgh
  exact ⟨ghs', gh, hI', hm', hgh, hvol.symm, L, h1, by rw [hvol]; exact h2, h3⟩

/-! ### Non-vacuity and an evaluated history (tests, labelled as tests) -/

namespace Example
open Sdmmc.Lemmas.VolExample Sdmmc.Lemmas.VolN.Example2
open Sdmmc.Props.C03Multi.Example (two_volumes two_volumes_mirror ops ops_covered)

/-- The two partitions of the example medium of `Props.C03Multi.Example`: the FAT16 volume (record 0, handle 1) occupies
blocks 0 … 39, the FAT32 volume (record 1, handle 5) blocks 40 … 79 with its info sector in block 41. -/
theorem partitions :
    vol16.lbaStart = 0 ∧ vol16.numBlocks = 40 ∧ vol32b.lbaStart = 40 ∧ vol32b.numBlocks = 40 ∧ vol32b.infoLocation = 41 ∧
    mgr2.vols.map (fun vi => (vi.rawVolume, vi.vol.lbaStart, vi.vol.numBlocks)) = [(1, 0, 40), (5, 40, 40)] := by decide

/-- The history theorem applies to the history `ops` of `Props.C03Multi.Example` (14 calls touching both volumes): every
call stays in the volume it works on … -/
theorem ops_stay (k : Nat) (hk : k < ops.length) : CallStaysInVolume (run mgr2 (ops.take k)).1 ops[k] :=
  (history_never_leaves_volume_multi ops mgr2 ghs2 two_volumes two_volumes_mirror ops_covered k hk).2.2

/-- … also when read off the outputs of `run` … -/
example (k : Nat) (o : Out) (ho : (run mgr2 ops).2[k]? = some o) (w : Nat × Block) (hw : w ∈ o.writes) :
    ∃ (op : Op) (i : Nat) (vi : VolInfo), ops[k]? = some op ∧ workTarget (run mgr2 (ops.take k)).1 op = some i ∧
      (run mgr2 (ops.take k)).1.vols[i]? = some vi ∧ InPartition vi.vol w.1 ∧ w.1 ≠ 0 ∧
      (regionOf vi.vol w.1 = .fat ∨ regionOf vi.vol w.1 = .root ∨ regionOf vi.vol w.1 = .data ∨ regionOf vi.vol w.1 = .info) :=
  history_outputs_stay_in_volume ops mgr2 ghs2 two_volumes two_volumes_mirror ops_covered k o ho w hw

/-- … and every call that works on a volume record is licensed by a licence of that volume. -/
example (k : Nat) (hk : k < ops.length) (i : Nat) (vi : VolInfo)
    (hw : workTarget (run mgr2 (ops.take k)).1 ops[k] = some i) (hvi : (run mgr2 (ops.take k)).1.vols[i]? = some vi) :
    ∃ (ghs' : List Ghost) (gh : Ghost), VolInvN (run mgr2 (ops.take k)).1 ghs' ∧ MirrorN (run mgr2 (ops.take k)).1 ghs' ∧
      ghs'[i]? = some gh ∧ gh.vol = vi.vol ∧
      ∃ L, LicenceFor gh (volFiles (run mgr2 (ops.take k)).1 vi.rawVolume) (volDirs (run mgr2 (ops.take k)).1 vi.rawVolume)
          (run mgr2 (ops.take k)).1.dev.disk ops[k] L ∧
        AllLicensed vi.vol (run mgr2 (ops.take k)).1.dev.disk L (step (run mgr2 (ops.take k)).1 ops[k]).2.writes ∧
        ∀ b, (step (run mgr2 (ops.take k)).1 ops[k]).1.dev.disk.get b =
          ((run mgr2 (ops.take k)).1.dev.disk.applyWrites (step (run mgr2 (ops.take k)).1 ops[k]).2.writes).get b :=
  history_licensed_multi ops mgr2 ghs2 two_volumes two_volumes_mirror ops_covered k hk i vi hw hvi

/-- One call: creating `M.TXT` through directory handle 6 — a directory of the FAT32 volume, record 1 — is licensed by
a licence described from the ghost `gh32b` of that volume and ITS open directories. -/
example : ∃ L, LicenceFor gh32b (volFiles mgr2 5) (volDirs mgr2 5) mgr2.dev.disk (.openFile 6 [77, 46, 84, 88, 84] .ReadWriteCreate) L ∧
    AllLicensed vol32b mgr2.dev.disk L (step mgr2 (.openFile 6 [77, 46, 84, 88, 84] .ReadWriteCreate)).2.writes ∧
    ∀ b, (step mgr2 (.openFile 6 [77, 46, 84, 88, 84] .ReadWriteCreate)).1.dev.disk.get b =
      (mgr2.dev.disk.applyWrites (step mgr2 (.openFile 6 [77, 46, 84, 88, 84] .ReadWriteCreate)).2.writes).get b :=
  step_licensed_multi mgr2 _ ghs2 two_volumes two_volumes_mirror (i := 1) (vi := { rawVolume := 5, idx := 1, vol := vol32b })
    (gh := gh32b) (by decide +kernel) rfl rfl

/-- Evaluated (TEST): for each of the 14 calls of `ops`, the volume record the call works on in the state it is issued in
(`workTarget`) and the block numbers it writes.  The calls on record 0 — the FAT16 volume, partition blocks 0 … 39 —
write blocks 1, 2 (FAT copies), 3 (root directory), 8, 10 (data) only; the calls on record 1 — the FAT32 volume,
partition blocks 40 … 79 — write blocks 41 (info sector), 42, 43 (FAT copies), 44, 45, 49, 50, 51 (data) only;
`close_volume 5` is refused once (directories still open: nothing written), then writes the info sector 41 of ITS volume;
`close_dir` works on no volume record and writes nothing; after `close_volume` the remaining volume is record 0. -/
theorem ops_targets_and_blocks :
    (List.range ops.length).map (fun k =>
        (workTarget (run mgr2 (ops.take k)).1 (ops.getD k .hasOpen),
         (step (run mgr2 (ops.take k)).1 (ops.getD k .hasOpen)).2.writes.map (·.1))) =
      [(some 0, [3]), (some 1, [44]), (some 0, [1, 2, 8, 1, 2, 1, 2, 10]), (some 1, [42, 43, 49, 42, 43, 42, 43, 50]),
       (some 0, [3]), (some 1, [42, 43, 51, 45]), (some 1, [41, 44]), (some 0, [3, 1, 2, 1, 2, 1, 2]), (some 0, [3]),
       (some 1, []), (none, []), (none, []), (some 1, [41]), (some 0, [])] := by decide +kernel

/-- Evaluated (TEST): the same, as the statement of the theorems — every block written by a call on record 0 lies in
1 … 39, every block written by a call on record 1 in 41 … 79, a call on no record writes nothing. -/
theorem ops_blocks_in_partitions :
    (List.range ops.length).all (fun k =>
        (step (run mgr2 (ops.take k)).1 (ops.getD k .hasOpen)).2.writes.all fun w =>
          match workTarget (run mgr2 (ops.take k)).1 (ops.getD k .hasOpen) with
          | some 0 => decide (1 ≤ w.1 ∧ w.1 < 40)
          | some 1 => decide (41 ≤ w.1 ∧ w.1 < 80)
          | _ => false) = true := by decide +kernel

/-- Evaluated (TEST): block 41, the one block `close_volume 5` writes, is the info sector of the FAT32 volume. -/
theorem close_volume_block : regionOf vol32b 41 = .info ∧ regionOf vol16 41 = .outside := by decide

end Example

end Sdmmc.Props.C04Multi
