/-
C15 (mounting), tie to the source text: fat/info.rs — `InfoSector::create_from_bytes` and the accessors
`free_clusters_count`, `next_free_cluster`, machine-translated into `Sdmmc.Gen.FunsInfo` (tools/translate_mgr2.py, with
the pure translator tools/translate.py as a library) — against the model's `Info.parse` and `parseVolumeInfo`
(`Model/Mount.lean`), i.e. the SECOND HALF of `fat::parse_volume` on FAT32: validate the three signatures of the info
sector (the `&'static str` error is the payload of `FormatError`), then `volume.free_clusters_count =
info_sector.free_clusters_count(); volume.next_free_cluster = info_sector.next_free_cluster();`.

This is what is complete of the `parse_volume` package: the whole function (block read of the BPB, the FAT16 / FAT32
branches building the `FatVolume` record, the info-sector read) is NOT machine-translated; `FunsMgr.parseVolume`
remains the hand-given binding, of which `parse_volume_info_binding` below justifies the info-sector step and
`Props/C15Gen.lean` / `Props/C15GenLayout.lean` the layout arithmetic.
-/
import Sdmmc.Gen.FunsInfo
import Sdmmc.Gen.FunsMgr
import Sdmmc.Model.Mount

namespace Sdmmc.Props.C15GenM2

open Sdmmc Sdmmc.Model Sdmmc.Gen

/-! ### The five fields -/

theorem lead_sig_eq (d : Bytes) : FunsInfo.InfoSector_lead_sig d = Info.leadSig d := rfl
theorem struc_sig_eq (d : Bytes) : FunsInfo.InfoSector_struc_sig d = Info.strucSig d := rfl
theorem trail_sig_eq (d : Bytes) : FunsInfo.InfoSector_trail_sig d = Info.trailSig d := rfl
theorem free_count_eq (d : Bytes) : FunsInfo.InfoSector_free_count d = Info.freeCount d := rfl
theorem next_free_eq (d : Bytes) : FunsInfo.InfoSector_next_free d = Info.nextFree d := rfl

/-! ### `create_from_bytes` and the two accessors -/

/-- What `parse_volume` takes from the info block, as the translations compute it: the error string of
`create_from_bytes`, or the two optional numbers. -/
def infoOf (d : Bytes) : Except String (Option Nat × Option Nat) :=
  match FunsInfo.InfoSector_create_from_bytes d with
  | .error msg => .error msg
  | .ok _ => .ok (FunsInfo.InfoSector_free_clusters_count d, FunsInfo.InfoSector_next_free_cluster d)

/-- The model's outcome read as that `Except`: `FormatError msg` is the Rust `&'static str`. -/
def ofExcept {α : Type} : Except String α → Res α
  | .ok a => .ok a
  | .error msg => .err (.FormatError msg)

/-- **`InfoSector::create_from_bytes` + `free_clusters_count` + `next_free_cluster` are the model's `Info.parse`**, for
every sector: the same three signature checks in the same order with the same messages; `0xFFFF_FFFF` is "unknown" for
both numbers, and so are the reserved clusters `0` and `1` for the next free cluster. -/
theorem info_parse_eq (d : Bytes) : Info.parse d = ofExcept (infoOf d) := by
  unfold Info.parse infoOf FunsInfo.InfoSector_create_from_bytes FunsInfo.InfoSector_free_clusters_count
    FunsInfo.InfoSector_next_free_cluster
  simp only [lead_sig_eq, struc_sig_eq, trail_sig_eq, free_count_eq, next_free_eq,
    show INFO_LEAD_SIG = 1096897106 from rfl, show INFO_STRUC_SIG = 1631679090 from rfl,
    show INFO_TRAIL_SIG = 2857697280 from rfl]
  by_cases h1 : Info.leadSig d = 1096897106
  · by_cases h2 : Info.strucSig d = 1631679090
    · by_cases h3 : Info.trailSig d = 2857697280
      · simp [h1, h2, h3, ofExcept]
        exact ⟨rfl, rfl⟩
      · simp [h1, h2, h3, ofExcept]
    · simp [h1, h2, ofExcept]
  · simp [h1, ofExcept]

/-- The info-sector step of the hand-given binding `FunsMgr.parseVolume` (`M.lift (parseVolumeInfo v info)`) is the
Rust text: validate, then the two assignments. -/
theorem parse_volume_info_binding (v : FatVolume) (info : Bytes) :
    parseVolumeInfo v info =
      match FunsInfo.InfoSector_create_from_bytes info with
      | .error msg => .err (.FormatError msg)
      | .ok _ => .ok { v with freeClustersCount := FunsInfo.InfoSector_free_clusters_count info,
                              nextFreeCluster := FunsInfo.InfoSector_next_free_cluster info } := by
  unfold parseVolumeInfo
  rw [info_parse_eq]
  unfold infoOf
  cases FunsInfo.InfoSector_create_from_bytes info <;> rfl

/-! ### Evaluated examples -/

namespace Example

/-- An info sector with the three signatures, 1000 free clusters, next free cluster 7. -/
def sector : Bytes :=
  [0x52, 0x52, 0x61, 0x41] ++ List.replicate 480 0 ++ [0x72, 0x72, 0x41, 0x61] ++ [0xE8, 0x03, 0, 0] ++ [7, 0, 0, 0] ++
    List.replicate 12 0 ++ [0, 0, 0x55, 0xAA]

/-- The two numbers, or `(none, none)` with the error string. -/
def show_ (r : Except String (Option Nat × Option Nat)) : Option Nat × Option Nat × String :=
  match r with
  | .ok (a, b) => (a, b, "")
  | .error msg => (none, none, msg)

example : sector.length = 512 := by decide +kernel
example : show_ (infoOf sector) = (some 1000, some 7, "") := by decide +kernel
/-- `0xFFFF_FFFF` and the reserved clusters are "unknown". -/
example : show_ (infoOf ((sector.take 488) ++ [0xFF, 0xFF, 0xFF, 0xFF, 1, 0, 0, 0] ++ sector.drop 496)) = (none, none, "") := by
  decide +kernel
/-- A bad signature: the error string of the source. -/
example : show_ (infoOf (0 :: sector.drop 1)) = (none, none, "Bad lead signature on InfoSector") ∧
    show_ (infoOf (sector.take 511 ++ [0])) = (none, none, "Bad trail signature on InfoSector") := by
  refine ⟨?_, ?_⟩ <;> decide +kernel
end Example

end Sdmmc.Props.C15GenM2
