/-
C01, tie to the source text, manager level: `VolumeManagerData::find_data_on_disk` (volume_mgr.rs),
machine-translated into `Sdmmc.Gen.FunsMgr` (its `&mut (u32, ClusterId)` argument is handed back next to the
result on every exit), against `Model.findDataOnDisk` run on the volume slot.

`find_data_on_disk_eq` is unconditional.  The one difference in form: where `next_cluster` panics the model
hands the panic back as a VALUE (`.ok (start, .panic m)`, its callers pass it on after restoring the file
offset) while the translation panics; `flat` is that reading of the model's value.
-/
import Sdmmc.Gen.FunsMgr
import Sdmmc.Model.Mgr
import Sdmmc.Lemmas.GenMgrIO

set_option linter.unusedSimpArgs false

namespace Sdmmc.Props.C01GenFind

open Sdmmc Sdmmc.Model Sdmmc.Gen Sdmmc.Lemmas.GenMgr Sdmmc.Lemmas.GenMgrIO
open Sdmmc.Lemmas (FBasic.bind_apply FBasic.attempt_apply FBasic.pure_apply FBasic.getVol_apply FBasic.panic_apply
  FBasic.ite_apply FBasic.lift_apply)

/-! ### The model's computation keeps the volume record and the medium -/

theorem nextCluster_keeps (c : Nat) : KeepsF (Fat.nextCluster c) := by
  unfold Fat.nextCluster
  refine KeepsF.ite _ (KeepsF.panic _) ?_
  refine KeepsF.bind KeepsF.getVol fun v => ?_
  refine KeepsF.bind (KeepsF.cacheRead _) fun _ => ?_
  refine KeepsF.bind KeepsF.cacheBlk fun blk => ?_
  exact KeepsF.lift _

theorem walkClusters_keeps (bpc : Nat) : ∀ (n : Nat) (st : Nat × Nat), KeepsF (walkClusters bpc n st)
  | 0, st => KeepsF.pure _
  | n + 1, st => by
    unfold walkClusters
    refine KeepsF.bind (KeepsF.attempt (nextCluster_keeps _)) fun r => ?_
    cases r with
    | ok c => exact walkClusters_keeps bpc n _
    | err e => exact KeepsF.pure _
    | panic m => exact KeepsF.pure _
    | diverged => exact KeepsF.pure _

theorem findDataOnDisk_keeps (fileStart desired : Nat) (start : Nat × Nat) :
    KeepsF (findDataOnDisk fileStart desired start) := by
  unfold findDataOnDisk
  refine KeepsF.bind KeepsF.getVol fun v => ?_
  refine KeepsF.ite _ (KeepsF.panic _) ?_
  refine KeepsF.bind (walkClusters_keeps _ _ _) fun p => ?_
  obtain ⟨st, r⟩ := p
  cases r with
  | ok u => exact KeepsF.ite _ (KeepsF.panic _) (KeepsF.pure _)
  | err e => exact KeepsF.pure _
  | panic m => exact KeepsF.pure _
  | diverged => exact KeepsF.pure _

/-! ### The walk along the chain -/

/-- The outcome of the model's walk as the translated loop reports it. -/
def walkOut (x : Res ((Nat × Nat) × Res Unit)) : Res (Except ((Nat × Nat) × Res (Nat × Nat × Nat)) (Nat × Nat)) :=
  match x with
  | .ok (st, .ok ()) => .ok (.ok st)
  | .ok (st, .err e) => .ok (.error (st, .err e))
  | .ok (_, .panic m) => .panic m
  | .ok (_, .diverged) => .diverged
  | .err e => .err e
  | .panic m => .panic m
  | .diverged => .diverged

theorem loop_eq (vi bpc : Nat) (v : VolInfo) : ∀ (n : Nat) (st : Nat × Nat) (s0 s : Mgr), s.vols[vi]? = some v →
    FunsMgr.VolumeManagerData_find_data_on_disk_loop1 s0 vi bpc n st s =
      (walkOut (walkClusters bpc n st (fsOf s v)).1, upd s (walkClusters bpc n st (fsOf s v)).2)
  | 0, st, s0, s, _ => rfl
  | n + 1, st, s0, s, hv => by
    rw [FunsMgr.VolumeManagerData_find_data_on_disk_loop1, walkClusters]
    simp only [bind_apply, get_apply, attempt_apply, FBasic.bind_apply, FBasic.attempt_apply]
    rw [withVol_keep vi _ s v hv (nextCluster_keeps _ _).vol]
    have hk := (nextCluster_keeps st.2 (fsOf s v)).vol
    rcases hn : Fat.nextCluster st.2 (fsOf s v) with ⟨r, fs1⟩
    rw [hn] at hk
    simp only at hk
    cases r with
    | ok c =>
      simp only [bind_apply, get_apply]
      rw [loop_eq vi bpc v n _ _ (upd s fs1) hv, fsOf_upd s v fs1 hk]
      rfl
    | err e => rfl
    | panic m => rfl
    | diverged => rfl

/-! ### `find_data_on_disk` -/

/-- The model's pair as the Rust caller sees it: a panic inside is a panic. -/
def flat {σ α : Type} (x : Res (σ × Res α) × Mgr) : Res (σ × Res α) × Mgr :=
  match x with
  | (.ok (_, .panic m), s) => (.panic m, s)
  | (.ok (_, .diverged), s) => (.diverged, s)
  | r => r

theorem find_data_on_disk_eq (vi : Nat) (start : Nat × Nat) (fileStart desired : Nat) (s : Mgr) :
    FunsMgr.VolumeManagerData_find_data_on_disk vi start fileStart desired s =
      flat (withVol vi (findDataOnDisk fileStart desired start) s) := by
  unfold FunsMgr.VolumeManagerData_find_data_on_disk
  simp only [bind_apply, get_apply]
  rcases hv : s.vols[vi]? with _ | v
  · rw [getVolInfo_none s vi hv, withVol_none vi _ s hv]
    rfl
  · rw [getVolInfo_ok s vi v hv, withVol_keep vi _ s v hv (findDataOnDisk_keeps _ _ _ _).vol]
    unfold findDataOnDisk
    have hst : (if desired < start.1 then (let start := (0, start.2); let start := (start.1, fileStart); start) else start) =
        (if desired < start.1 then (0, fileStart) else start) := rfl
    simp only [hst, FBasic.bind_apply, FBasic.getVol_apply, fsOf_vol]
    generalize (if desired < start.1 then (0, fileStart) else start) = st
    by_cases hz : Fat.bytesPerCluster v.vol = 0
    · simp only [hz, if_true, FBasic.ite_apply, FBasic.panic_apply, ite_apply, panic_apply]
      rfl
    · simp only [hz, if_false, FBasic.ite_apply, ite_apply, bind_apply, FBasic.bind_apply]
      rw [loop_eq vi _ v _ st s s hv]
      have hk := (walkClusters_keeps (Fat.bytesPerCluster v.vol) ((desired - st.1) / Fat.bytesPerCluster v.vol) st
        (fsOf s v)).vol
      rcases hw : walkClusters (Fat.bytesPerCluster v.vol) ((desired - st.1) / Fat.bytesPerCluster v.vol) st (fsOf s v)
        with ⟨r, fs1⟩
      rw [hw] at hk
      simp only at hk
      have hv1 : (upd s fs1).vols[vi]? = some v := hv
      cases r with
      | ok p =>
        obtain ⟨st', r'⟩ := p
        cases r' with
        | ok u =>
          simp only [walkOut, bind_apply, get_apply, pure_apply, FBasic.ite_apply, FBasic.panic_apply,
            FBasic.pure_apply, ite_apply, panic_apply]
          by_cases ha : desired - st'.1 < Fat.bytesPerCluster v.vol
          · simp only [ha, if_true, not_true, if_false, bind_apply, getVolInfo_ok _ vi v hv1, pure_apply]
            rfl
          · simp only [ha, if_false, not_false_eq_true, if_true]
            rfl
        | err e => rfl
        | panic m => rfl
        | diverged => rfl
      | err e => rfl
      | panic m => rfl
      | diverged => rfl

/-- The shape of a successful answer: the offset lies inside the block and the rest of the block is available. -/
theorem findDataOnDisk_avail {fileStart desired : Nat} {start cc : Nat × Nat} {fs fs' : FS} {b o a : Nat}
    (h : findDataOnDisk fileStart desired start fs = (.ok (cc, .ok (b, o, a)), fs')) : o < 512 ∧ a = 512 - o := by
  unfold findDataOnDisk at h
  simp only [FBasic.bind_apply, FBasic.getVol_apply, FBasic.ite_apply, FBasic.panic_apply] at h
  split at h
  · cases h
  · rcases hw : walkClusters (Fat.bytesPerCluster fs.vol)
        (((desired - (if desired < start.1 then (0, fileStart) else start).1)) / Fat.bytesPerCluster fs.vol)
        (if desired < start.1 then (0, fileStart) else start) fs with ⟨r, fs1⟩
    rw [hw] at h
    cases r with
    | ok p =>
      obtain ⟨st', r'⟩ := p
      cases r' with
      | ok u =>
        simp only [FBasic.ite_apply, FBasic.panic_apply, FBasic.pure_apply] at h
        split at h
        · cases h
        · simp only [Prod.mk.injEq, Res.ok.injEq] at h
          obtain ⟨⟨_, _, ho, ha⟩, _⟩ := h
          subst ho ha
          exact ⟨Nat.mod_lt _ (by decide), rfl⟩
      | err e => simp only [FBasic.pure_apply, Res.bind, Prod.mk.injEq, Res.ok.injEq] at h; obtain ⟨⟨_, h2⟩, _⟩ := h; cases h2
      | panic m => simp only [FBasic.pure_apply, Res.bind, Prod.mk.injEq, Res.ok.injEq] at h; obtain ⟨⟨_, h2⟩, _⟩ := h; cases h2
      | diverged => simp only [FBasic.pure_apply, Res.bind, Prod.mk.injEq, Res.ok.injEq] at h; obtain ⟨⟨_, h2⟩, _⟩ := h; cases h2
    | err e => cases h
    | panic m => cases h
    | diverged => cases h

end Sdmmc.Props.C01GenFind
