/-
C02 — HEADLINE THEOREM.

PROPERTY (verbatim from `properties.jsonl`).
statement:
  "Once a file has been flushed or closed, a completely fresh mount of the raw block device - by this library and by
  an independent FAT reader written from the specification - shows that file under its name with exactly the flushed
  length and contents, the directory/file attribute, a creation time that never changes after creation and a
  modification time equal to the clock value at the last write. Every file and directory that the history did not
  touch is byte-for-byte and entry-for-entry unchanged."
quantifier:
  "all histories of create/write/truncate/append/delete/mkdir ending in flush or close, all FAT16/FAT32 geometries
  and pre-populated trees (nested directories, long-name entries, deleted slots, fragmented chains), remount taken
  at every quiescent point"

HOW TO READ `C02_main_partial`.
* The writer.  `s` is a manager state with the invariant of API histories (`VolInv s gh`, C03) and no open file; ANY tree is
  allowed on its medium (nested directories, long-name fragments, deleted slots, fragmented chains: `VolInv` asks for
  soundness only).  `a0` is its abstract counterpart (`Abs s gh a0`, `Lemmas/AbsFsBase.lean`; it exists:
  `Lemmas.AbsFs.abs_absOf0`): the abstract file system of C01 (`Spec/AbsFs.lean`) — per directory number the list of slots
  `.file m bytes` (stored entry `m : Meta` = name, attribute byte, creation time, modification time, size; the file's
  bytes) / `.dir m target` / `.deleted` / `.frag`, and the tables of open handles.
* `es : List CEv` (`Spec/ClockRun.lean`) is ANY history of API calls and clock movements `tick t` (the crate's
  `TimeSource`, read by the calls; it moves between calls); `runClk s es` runs it: `.1` the final state, `.2` the events
  with the answers the calls gave (`Ev`).  `hq`: the remount is taken at a QUIESCENT point — every file has been closed.
  `k` is ANY prefix of the history after which no file is open (`hq`): the remount is taken at EVERY quiescent point;
  `sk := (runClk s (es.take k)).1` is the writer's state there.
* The fresh mount.  `t` is ANY manager with empty tables, a fault-free device and a coherent cache on the medium of `sk`
  (`FreshOn`, `Props.C02Fs.freshOn_def`): the raw block device, nothing else.
* Clauses (the `∃ gh' a w`: `gh'` the writer's ghost at the quiescent point, `a` the abstract tree there, `w` the record
  a mount of the medium yields):
    (history)   the abstract file system makes the same history with the SAME answers, ending in `a` (C01);
    (mounts)    the medium mounts, to the geometry of the writer's volume;
    (tree)      `open_volume` on any fresh `t` answers the first handle, and the mounted manager's abstract tree has the
                directories of `a` with the same slots: every entry (name, attribute byte, both time stamps, size) and
                every file's bytes — "a completely fresh mount of the raw block device shows …";
    (length)    in `a` the stored size of every file is the length of its bytes — "exactly the flushed length";
    (reader)    `FreshShows` (`Props.C02Final`) — this library as reader: `open_volume`, `open_root_dir`, `open_dir` along
                any path of names leading (in `a`) to directory `x`, `open_file_in_dir` of any name found there at a file slot `(m, bytes)`,
                `file_length`, `read n`, `iterate_dir` answer: the handles in order, `m.size`, `bytes.take n`, and a
                listing that is exactly the listing of directory `x` of `a`, `m` among its entries — "under its name with
                exactly the flushed length and contents, the directory / file attribute";
    (spec)      `IndependentShows` (`Props.C02Final`) — the independent reader `Spec.Fs` (written from the FAT
                specification, sharing no code with the model) finds at the same index of the same directory a slot with that name, attribute byte and size, and its chain
                walk and `fileBytes` return `bytes` ((H1) `NoOne`: no FAT32 entry holds the value 1, see C03);
    (times)     for every slot `(x, j)` of a directory that existed at the start, the ghost `g'` the history computes for the
                slot (`eff`, `ghostRun`, `Spec/AbsFsClock.lean`: `born` = creation time, name, attribute byte when the file
                entered the history — was there, or was created: then `fatRound` of the clock at the create —,
                `modified` = the clock at the last write / truncation / creation through a handle and whether it has been
                stored since) is TRUE of `a` (`GInv`): the file is there under its name with THAT creation time, the
                attribute byte changed at most by the archive bit, and — once stored by a flush / close — the entry
                shows `fatRound` of the clock at the last WRITE and the true length.  Consequences in the words of the
                sentence, about abstract histories alone: `Props.C02Fs.ctime_never_changes`, `created_ctime`,
                `mtime_is_last_write_clock`, `attributes_kept`, `dir_entry_forever`;
    (untouched) a slot `(x, j)` no call of the history touches (`TouchesAt`, `Spec.AbsFs.touched`: the slot a call may
                change) reads in `a` — hence, by (tree), on the fresh mount — as at the start: the entry and the bytes
                of every other file, every other directory entry — "byte-for-byte and entry-for-entry unchanged".
  What the bytes ARE (the byte-array model's writes): (history) + `Props.C02Fs.write_stores_model_bytes`.

HYPOTHESES.
* `VolInvC s gh` (`Props.C10Inv.volInvC_def`: `VolInv` of C03, identical FAT copies, `RawOK`): after a mount
  (`Props.C15Fs.mount_establishes_invariant`, `Props.C10Inv.volInvC_of_quiescent`), kept by every history.
* `s.files = []` at the start: then the abstract state is well formed (`AInv`); for a start with open files `VolInv` does
  not record how a pending creation time relates to the stored one.
* `NoOpenVolume es`: the writer does not call `open_volume` (remounting is what clause (mount) is about).
* `hm`, `hsg`: the medium mounts at the START of the history (then it does at every quiescent point: clause (mounts),
  `Props.C02Final.history_clk_mounts`).
* inside `FreshShows`: the reader's handle generator does not wrap and its tables have room.

STATUS: PARTIAL.
* PROVED: all clauses of the sentence, for remounts at every quiescent point, all histories, all trees, FAT16 / FAT32.
* MISSING (flush without close): a remount while a flushed file is still OPEN.  `Props.C02Fs` needs `files = []` at the
  remount (`remount_same_tree`: the abstract tree of a state with open files is read through their pending records, not
  off the medium).  For that case `Props.C09Main.C09_main_partial` at the crash point `k = 0` gives: the slot holds the 32
  bytes of the flushed entry (name, attribute, times, size) and a fresh manager reads the flushed length and contents —
  but not the (times) / (untouched) clauses over histories.
* (scope) one open volume; fault-free device.
* SOURCE TIE: `VolumeManager::flush_file` / `close_file`, machine-translated from the Rust, equal the model's
  (`Props/C02GenM.lean`).
* FAT time stamps have 2-second resolution: `fatRound` (C18).  The modification time is the clock at the last WRITE, not
  at the flush (`Props.C02Fs.Example.mtime_is_write_clock_not_flush_clock`) — as the sentence says.
-/
import Sdmmc.Props.C02Final

namespace Sdmmc.Props.C02Main
open Sdmmc.Model Sdmmc.Model.Fat Sdmmc.Spec.Volume
open Sdmmc.Spec hiding run step NoFault Coherent
open Sdmmc.Spec.AbsFs (AbsFs Meta CEv runClk NoOpenVolume absRunClk absRunP AInv GInv ghost0 ghostRun TouchesAt)
open Sdmmc.Lemmas.AbsFs (Abs FreshOn)
open Sdmmc.Props.C02Final (FreshShows IndependentShows)

/-- **C02.**  See the header.  (`_partial`: remounts at quiescent points.) -/
theorem C02_main_partial {s : Mgr} {gh : Ghost} {a0 : AbsFs} (hI : VolInvC s gh) (hA : Abs s gh a0) (hs : s.files = [])
    (es : List CEv) (hn : NoOpenVolume es)
    (idx : Nat) (vm : FatVolume) (hm : mountPure (s.dev.disk.get 0) idx s.dev.disk.get = .ok vm) (hsg : SameGeom vm gh.vol)
    (k : Nat) (hq : (runClk s (es.take k)).1.files = []) :
    ∃ (gh' : Ghost) (a : AbsFs) (w : FatVolume),
      -- (history)
      (absRunClk a0 (runClk s (es.take k)).2 a ∧ VolInv (runClk s (es.take k)).1 gh' ∧ SameGeom gh.vol gh'.vol ∧
        Abs (runClk s (es.take k)).1 gh' a) ∧
      -- (mounts)
      (mountPure ((runClk s (es.take k)).1.dev.disk.get 0) idx (runClk s (es.take k)).1.dev.disk.get = .ok w ∧
        SameGeom gh'.vol w) ∧
      -- (tree)
      (∀ t, FreshOn (runClk s (es.take k)).1 t → ∃ gh'' a', (step t (.openVolume idx)).2.result = .ok (.handle t.nextId) ∧
        VolInv (step t (.openVolume idx)).1 gh'' ∧ Abs (step t (.openVolume idx)).1 gh'' a' ∧ a'.ids = a.ids ∧
        ∀ h, h ∈ a.ids → a'.slots h = a.slots h) ∧
      -- (length)
      (∀ x, x ∈ a.ids → ∀ (j : Nat) (m : Meta) (bytes : Bytes), (a.slots x)[j]? = some (.file m bytes) → m.size = bytes.length) ∧
      -- (reader)
      FreshShows (runClk s (es.take k)).1 idx a ∧
      -- (spec)
      IndependentShows (runClk s (es.take k)).1 gh'.vol a ∧
      -- (times)
      (∀ x j, x ∈ a0.ids → ∃ g', ghostRun x j a0 (ghost0 a0 x j) (runClk s (es.take k)).2 a g' ∧ GInv a x j g') ∧
      -- (untouched)
      (∀ x j, x ∈ a0.ids → absRunP (fun b ev => ¬ TouchesAt b x j ev) a0 (runClk s (es.take k)).2 a →
        (a.slots x)[j]? = (a0.slots x)[j]?) := by
  obtain ⟨gh', a, w, h1, h2, h3, h4, h5, h6, h7, h8, h9, h10⟩ := C02Final.c02_final hI hA hs es hn idx vm hm hsg k hq
  have hfiles : a.files = [] := by
    have := h3.files
    rw [hq] at this
    exact List.forall₂_nil_right_iff.1 this
  refine ⟨gh', a, w, ⟨h4, h1, h2, h3⟩, ⟨h7, h8⟩, ?_, ?_, h9, h10, h6, ?_⟩
  · intro t hF
    obtain ⟨gh'', a', r1, r2, _, r4, r5, r6, _⟩ :=
      C02Fs.remount_same_tree h1 h3 hq hF idx w (by rw [hF.disk]; exact h7) h8
    exact ⟨gh'', a', r1, r2, r4, r5, r6⟩
  · intro x hx j m bytes hsl
    exact h5.sizes x hx j m bytes hsl (fun f hf => by rw [hfiles] at hf; cases hf)
  · intro x j hx hu
    exact C02Fs.untouched_slots_unchanged (C02Fs.quiescent_well_formed hI.inv hA hs) hx hu

/-- `FreshShows`, `IndependentShows` (`Props/C02Final.lean`), spelled out. -/
theorem freshShows_def (sk : Mgr) (idx : Nat) (a : AbsFs) : FreshShows sk idx a ↔
    ∀ (t : Mgr), FreshOn sk t →
    ∀ (path : List (List Nat)) (sfns : List Bytes) (fname : List Nat) (fs : Bytes) (x j : Nat) (m : Meta) (bytes : Bytes) (n : Nat),
      Spec.AbsFs.ParsesTo path sfns → Spec.AbsFs.pathDir a.slots 0 sfns = some x → Sfn.createFromStr fname = .ok fs →
      Spec.AbsFs.lookup (a.slots x) fs = some j → (a.slots x)[j]? = some (.file m bytes) →
      t.nextId + path.length + 3 < 4294967296 → path.length + 1 ≤ t.maxDirs → 1 ≤ t.maxFiles →
      ∃ ents, (run t (.openVolume idx :: Spec.AbsFs.readerOps t.nextId (t.nextId + 1) path fname n)).2.map (·.result) =
          .ok (.handle t.nextId) :: (Lemmas.AbsFsTimes.handlesFrom (t.nextId + 1) (path.length + 2) ++
            [.ok (.num m.size), .ok (.bytes (bytes.take n)), .ok (.entries ents)]) ∧
        ents.map Spec.AbsFs.view = Spec.AbsFs.listing (a.slots x) ∧ m ∈ ents.map Spec.AbsFs.view := Iff.rfl

theorem independentShows_def (sk : Mgr) (v : FatVolume) (a : AbsFs) : IndependentShows sk v a ↔
    ∀ (g : Fs.Geom), GeomOf v g → NoOne v sk.dev.disk →
    ∀ (h j : Nat) (m : Meta) (bytes : Bytes), h ∈ a.ids → (a.slots h)[j]? = some (.file m bytes) →
      ∃ ss dcs sl cs, Fs.dirSlots g sk.dev.disk (Lemmas.VolFsck.refOf v h) = .ok (ss, dcs) ∧
        (ss.takeWhile fun x => decide (Fs.firstByte x ≠ 0))[j]? = some sl ∧
        Fs.nameOf sl = m.name ∧ Fs.attrOf sl = m.attr ∧ Fs.sizeOf sl = m.size ∧
        ((Fs.clusterOf g sl = 0 ∧ cs = []) ∨ Fs.chain g sk.dev.disk (Fs.clusterOf g sl) = .ok cs) ∧
        Fs.fileBytes g sk.dev.disk cs (Fs.sizeOf sl) = bytes := Iff.rfl

/-! ### Non-vacuity -/

namespace Example
open Sdmmc.Props.C02Fs.Example Sdmmc.Props.C02Final.Example Sdmmc.Props.C09Hist.Example

/-- The writer `q0` of `Props.C02Fs.Example` (smallest FAT16 volume in partition 0, no open file) and its history `esA`
with a moving clock (`A.TXT` opened for appending, three bytes written, closed): the theorem applies at the end of the
history (prefix 6) — and at every other quiescent prefix.  What a fresh manager then answers, evaluated:
`Props.C02Fs.Example.fresh_reads_evaluated` (603 bytes, modification time = the clock at the write). -/
example : ∃ w0, mountPure (q0.dev.disk.get 0) 0 q0.dev.disk.get = .ok w0 ∧ SameGeom w0 ghA.vol ∧
    (runClk q0 (esA.take 6)).1.files = [] :=
  let ⟨w0, hw0, hs0⟩ := q0_mounts
  ⟨w0, hw0, hs0.symm, esA_quiescent⟩

example (w0 : FatVolume) (hw0 : mountPure (q0.dev.disk.get 0) 0 q0.dev.disk.get = .ok w0) (hs0 : SameGeom w0 ghA.vol) :=
  C02_main_partial q0_invC (Lemmas.AbsFs.abs_absOf0 q1_quiescent.1) q1_quiescent.1 esA q1_quiescent.2.2 0 w0 hw0 hs0 6
    esA_quiescent

end Example

end Sdmmc.Props.C02Main
