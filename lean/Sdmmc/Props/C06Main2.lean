/-
C06 — linking the two layers of `Props/C06Main.lean` (first step; PARTIAL delivery of package B).

`C06Main.C06_main_partial` has a `Raw` layer (the specification listing `C06.listing` over the raw
32-byte slots of the medium: live, not a fragment, decoded at the FAT offsets — name, attributes,
START CLUSTER, size, time stamps) and an `Api` layer (the API call against the byte-array model
`a.slots`).  `api_listing_is_raw_listing` joins them for `iterate_dir`: in every state with the
volume invariant, the entries the API call hands out are, in order and one for one, the entries of
`C06.listing` over the directory's raw slots `Spec.Volume.dirSlots gh.vol disk gh.G dir` — compared
through `view` (name, attributes, size, time stamps).

Proved here: the listing clause, one layer.  `abs_listing_is_raw_listing` (`Lemmas/MainK06.lean`):
what `Abs` says about `a.slots h` IS `C06.listing` of the raw slots.
NOT proved (time): that the start cluster of each API entry equals the decoded one (`view` drops the
cluster; the refinement theorem `C01Fs.listing_is_live_entries_in_order` speaks through `view`);
the same link for lookup (`C07.lookup` / `find_directory_entry`) and hence `Props/C07Main2.lean`.
Hypothesis beyond `C06Main.Api`: `od.dir ∈ dirIds gh.dirs` — the open directory is a directory of
the tree (what `VolInv.openDirs` says of every open directory handle; not re-derived here).
-/
import Sdmmc.Lemmas.MainK06
import Sdmmc.Props.C06Main

namespace Sdmmc.Props.C06Main2
open Sdmmc.Model Sdmmc.Model.Fat
open Sdmmc.Spec.Volume (VolInv Ghost)
open Sdmmc.Spec.AbsFs (AbsFs view OpenDir)
open Sdmmc.Lemmas.AbsFs (Abs)

/-- **`iterate_dir` reports the specification listing of the raw slots**, through `view`. -/
theorem api_listing_is_raw_listing {s : Mgr} {gh : Ghost} {a : AbsFs} (hI : VolInv s gh) (hA : Abs s gh a)
    (d : Nat) (od : OpenDir) (hd : Spec.AbsFs.dirOf a d = .ok od) (hmem : od.dir ∈ Spec.Volume.dirIds gh.dirs) :
    ∃ es, (step s (.list d)).2.result = .ok (.entries es) ∧
      es.map view =
        (C06.listing gh.vol.fatType (Spec.Volume.dirSlots gh.vol s.dev.disk gh.G od.dir)).map view := by
  obtain ⟨es, h1, h2⟩ := C01Fs.listing_is_live_entries_in_order hI hA d hd
  exact ⟨es, h1, h2.trans (Lemmas.MainK06.abs_listing_is_raw_listing hA od.dir hmem)⟩

end Sdmmc.Props.C06Main2
