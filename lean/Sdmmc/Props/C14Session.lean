/-
C14 over SESSIONS — the SD card driver speaks the SPI-mode command protocol correctly over every
sequence of public calls, on every bus.

`Props/C14.lean` proves the protocol clauses per call.  Here they are proved for whole sessions:
any list of calls (`read`, `write`, `num_blocks`, `num_bytes`, `get_card_type`,
`mark_card_uninit`, in any order, continuing after errors), made on ANY bus `B : BusOps σ`
(every card, every timing, every SPI failure), from ANY driver state — in particular the fresh
driver (`cardType = none`), and any CRC mode and retry budget.

Vocabulary (trusted): `Spec/SdSession.lean` — `runCalls` (the session runner), the marked log
`sessionMarks` / `sessionBlocks` (the event log with call boundaries and the outcome of each
`acquire` written into it), `events` (erasing the marks), `identifiedAfter`.  The predicates over
logs are defined below, over the vocabulary of `Props/C14.lean`.

Property theorems only; helper lemmas live in `Sdmmc.Lemmas.SdSess*`.
-/
import Sdmmc.Lemmas.SdSessFinal
import Sdmmc.Props.C14

namespace Sdmmc.Props.C14Session
open Sdmmc.Model Sdmmc.Model.Sd Sdmmc.Gen Sdmmc.Spec.SdSession Sdmmc.Props.C14

variable {σ : Type} (B : BusOps σ)

/-! ## The session log -/

/-- A session only appends to the log and never touches the options. -/
theorem session_log_extends (cs : List Call) (s : St σ) :
    (runCalls B cs s).events = (evsNew s (runCalls B cs s)).reverse ++ s.events ∧
    (runCalls B cs s).useCrc = s.useCrc ∧ (runCalls B cs s).acquireRetries = s.acquireRetries := by
  obtain ⟨evs, h1, h2, h3, _⟩ := Lemmas.Sd.runCalls_extend B cs s
  have : evsNew s (runCalls B cs s) = evs := Lemmas.Sd.evsNew_of_eq h1
  rw [this]
  exact ⟨h1, h2, h3⟩

/-- The marked log is the event log of the session with marks written into it: erasing the
marks gives exactly the events the session added. -/
theorem marks_are_the_log (cs : List Call) (s : St σ) :
    events (sessionMarks B cs s) = evsNew s (runCalls B cs s) :=
  Lemmas.Sd.events_sessionMarks B cs s

/-- The marked log, call by call: one block per call, in order; each block begins with the
`.call` mark of its call and contains no other `.call` mark. -/
theorem blocks_are_calls (cs : List Call) (s : St σ) :
    sessionMarks B cs s = (sessionBlocks B cs s).flatten ∧
    (sessionBlocks B cs s).length = cs.length ∧
    ∀ i (hi : i < cs.length) (hb : i < (sessionBlocks B cs s).length),
      ∃ body, (sessionBlocks B cs s)[i] = Mark.call cs[i] :: body ∧ ∀ c', Mark.call c' ∉ body :=
  ⟨rfl, Lemmas.Sd.session_blocks B cs s⟩

/-! ## Frames, busy, application-command prefix — over the whole session -/

/-- Every command frame of the session is a frame of a 6-bit index and a 32-bit argument. -/
theorem session_frames_wellformed (cs : List Call) (s : St σ) : FramesOK (evsNew s (runCalls B cs s)) :=
  (Lemmas.Sd.session_cmdsOK B cs s).1

/-- No command of the session (CMD0 and CMD12 excepted, as per call) is sent unless the poll
directly before it read 0xFF — also across call boundaries. -/
theorem session_not_while_busy (cs : List Call) (s : St σ) : NotWhileBusy (evsNew s (runCalls B cs s)) :=
  (Lemmas.Sd.session_cmdsOK B cs s).2.1

/-- Every ACMD41 / ACMD23 frame of the session has a CMD55 frame before it with only polls in
between. -/
theorem session_acmd_prefixed (cs : List Call) (s : St σ) : AcmdPrefixed (evsNew s (runCalls B cs s)) :=
  (Lemmas.Sd.session_cmdsOK B cs s).2.2

/-! ## Identification before data -/

/-- The recorded card type is exactly what the marks say: after the session the driver has a
card type iff the last `identified`/`reset` mark of the log (with what was known before the
session in front) is `identified` — i.e. iff, since the last `mark_card_uninit` / failed
`acquire`, an `acquire` returned `Ok`. -/
theorem card_type_iff_identified (cs : List Call) (s : St σ) :
    identifiedAfter (initialMarks s ++ sessionMarks B cs s) = (runCalls B cs s).cardType.isSome :=
  Lemmas.Sd.session_cardType B cs s

/-- Every data command (a frame that is not an identification command) is sent while identified. -/
def DataAfterIdent (L : List Mark) : Prop :=
  ∀ pre f post, L = pre ++ Mark.ev (.cmd f) :: post → cmdIdx f ∉ identCmds → identifiedAfter pre = true

/-- For every driver state: data commands (CMD9, 13, 17, 18, 24, 25, ACMD23 — anything that is
not an identification command) are sent only while the marks say "identified". -/
theorem session_data_while_identified (cs : List Call) (s : St σ) :
    DataAfterIdent (initialMarks s ++ sessionMarks B cs s) :=
  Lemmas.Sd.session_dataAfterIdent B cs s

/-- Every `identified` mark closes a complete identification run: directly before it, from the
`.call` mark of its call on, come the events of one successful `acquire` — identification
commands only, in the prescribed order `IdentOrder` (`0+ 59? 8+ (55 41)+ 58?`), and the trailing
byte that is clocked after them (which was received: below 256). -/
def IdentComplete (u : Bool) (L : List Mark) : Prop :=
  ∀ pre post, L = pre ++ Mark.identified :: post →
    ∃ p0 c body g, pre = p0 ++ Mark.call c :: (body ++ [Event.poll g]).map Mark.ev ∧ g < 256 ∧
      IdentOnly body ∧ IdentOrder u (cmdIdxs body)

theorem session_ident_complete (cs : List Call) (s : St σ) : IdentComplete s.useCrc (sessionMarks B cs s) :=
  Lemmas.Sd.session_identComplete B cs s

/-- `pre` ends — up to marks and events that are not `reset` — with a complete identification
run: a call whose `acquire` put the identification sequence on the bus, in the prescribed
order, and returned `Ok`; no `reset` (`mark_card_uninit`, failed `acquire`) after it. -/
def IdentRunBefore (u : Bool) (pre : List Mark) : Prop :=
  ∃ p0 c body g p1, pre = p0 ++ Mark.call c :: (body ++ [Event.poll g]).map Mark.ev ++ Mark.identified :: p1 ∧
    Mark.reset ∉ p1 ∧ g < 256 ∧ IdentOnly body ∧ IdentOrder u (cmdIdxs body)

/-- For every bus, every driver state and every list of calls: every data command frame in the
log is preceded, since the last `mark_card_uninit` / failed `acquire`, by a complete
identification run in the prescribed order whose `acquire` returned `Ok` — or, only for a driver
that came into the session with a card type recorded, by no reset at all since the session began. -/
theorem session_ident_before_data_general (cs : List Call) (s : St σ) (pre : List Mark) (f : Bytes)
    (post : List Mark) (hL : sessionMarks B cs s = pre ++ Mark.ev (.cmd f) :: post) (hn : cmdIdx f ∉ identCmds) :
    IdentRunBefore s.useCrc pre ∨ (s.cardType.isSome ∧ Mark.reset ∉ pre) :=
  Lemmas.Sd.session_data_after_ident B cs s pre f post hL hn

/-- The fresh driver (`cardType = none`): every data command frame in the log of the session is
preceded, since the last `mark_card_uninit` / failed `acquire`, by a complete identification run
in the prescribed order whose `acquire` returned `Ok`. -/
theorem session_ident_before_data (cs : List Call) (s : St σ) (hs : s.cardType = none) (pre : List Mark)
    (f : Bytes) (post : List Mark) (hL : sessionMarks B cs s = pre ++ Mark.ev (.cmd f) :: post)
    (hn : cmdIdx f ∉ identCmds) : IdentRunBefore s.useCrc pre := by
  rcases session_ident_before_data_general B cs s pre f post hL hn with h | ⟨h, _⟩
  · exact h
  · rw [hs] at h; cases h

/-! ## Multi-block transfers end properly — in every call of the session -/

/-- Polls that all came back with bit 7 set: "no response yet". -/
def Waits (l : List Event) : Prop := ∀ e ∈ l, ∃ g, e = Event.poll g ∧ g / 128 % 2 = 1

/-- `post` — what follows a command frame in its call — begins with the card's answer: polls
with bit 7 set, then a poll that was received (below 256) with bit 7 clear; `tail` is what
follows the answer. -/
def AnsweredThen (post tail : List Event) : Prop :=
  ∃ waits r, post = waits ++ Event.poll r :: tail ∧ Waits waits ∧ r / 128 % 2 = 0 ∧ r < 256

def NoCmdFrames (evs : List Event) : Prop := ∀ f, Event.cmd f ∉ evs

/-- Events without a command frame, the CMD12 frame, then only polls. -/
def StoppedBy12 (tail : List Event) : Prop :=
  ∃ mid post, tail = mid ++ Event.cmd (frame 12 0) :: post ∧ NoCmdFrames mid ∧ AllPolls post

/-- Events without a command frame, the stop token 0xFD, then only polls — or no command frame
and no stop token at all, the call ending on a poll that did not read 0xFF (the busy wait in
front of the stop token failed: card still busy when the write budget ran out, or SPI error). -/
def StoppedByToken (tail : List Event) : Prop :=
  (∃ mid post, tail = mid ++ Event.byte 0xFD :: post ∧ NoCmdFrames mid ∧ AllPolls post) ∨
  (NoCmdFrames tail ∧ ∃ g, tail.getLast? = some (Event.poll g) ∧ g ≠ 255)

/-- `E` = the events of one call.  Every CMD18 frame that the card answered is followed, before
any other command frame, by CMD12; every CMD25 frame that the card answered is followed, with no
command frame after it in the call, by the stop token (or the call ends in a failed busy wait). -/
def MultiStopped (E : List Event) : Prop :=
  ∀ pre f post tail, E = pre ++ Event.cmd f :: post → AnsweredThen post tail →
    (cmdIdx f = 18 → StoppedBy12 tail) ∧ (cmdIdx f = 25 → StoppedByToken tail)

/-- Per call, for every bus and every driver state, whatever the call returned. -/
theorem call_multi_terminated (c : Call) (s : St σ) : MultiStopped (evsNew s (call B c s).2) :=
  Lemmas.Sd.call_multiStopped B c s

/-- In every call of every session — also when the call failed — every answered CMD18 is followed
by CMD12 and every answered CMD25 by the stop token before the next command frame.  (A block of
the marked log is one call, `blocks_are_calls`; the next call's first event is either a poll of
its busy wait or, for CMD0, a command frame — which is why the clause is stated per block.) -/
theorem session_multi_terminated (cs : List Call) (s : St σ) :
    ∀ blk ∈ sessionBlocks B cs s, MultiStopped (events blk) :=
  Lemmas.Sd.session_multiStopped B cs s

/-! ## Non-vacuity (tests) -/

namespace Example

/-- What is kept of a marked log for inspection: command indices and the marks. -/
inductive Item | cmd (idx : Nat) | call | identified | reset
  deriving DecidableEq, Repr

def skeleton (L : List Mark) : List Item :=
  L.filterMap fun m => match m with
    | .ev (.cmd f) => some (.cmd (cmdIdx f))
    | .ev _ => none
    | .call _ => some .call
    | .identified => some .identified
    | .reset => some .reset

/-- A card that is silent after CMD8 — CMD0 answered "idle", then nothing but 0xFF for the whole
response budget of CMD8 and the trailing byte of `acquire` — and that afterwards behaves as a
version-1 card: identification with CRC off (`sd1Answers`), then a single-block read (CMD17
accepted, start token, 512 data bytes, CRC). -/
def silentThenSd1 : List (Option Bytes) :=
  [some [], some [1], some [0xFF], some []] ++ List.replicate (DEFAULT_COMMAND_RETRIES + 1) (some [0xFF]) ++
  [some [0xFF]] ++ sd1Answers ++ [some [0xFF], some [], some [0], some [0xFE], some [], some []]

def start : St (List (Option Bytes)) := { bus := silentThenSd1, useCrc := false, acquireRetries := 2 }

/-- The session of the package: a read on a card that falls silent after CMD8, then a read. -/
def session : List Call := [.read 1 3, .read 1 3]

/-- The first call fails in `acquire` (CMD8 timed out) and leaves no card type. -/
theorem first_call_fails :
    (match (call replayBus (.read 1 3) start).1 with | .err (.TimeoutCommand 8) => true | _ => false) = true ∧
    (call replayBus (.read 1 3) start).2.cardType = none := by
  refine ⟨?_, ?_⟩ <;> decide +kernel

/-- The marked log of the session: the failed identification is closed by `reset`; the second
call identifies the card again from CMD0, and only then sends CMD17. -/
theorem session_skeleton :
    skeleton (sessionMarks replayBus session start) =
      [.call, .cmd 0, .cmd 8, .reset, .call, .cmd 0, .cmd 8, .cmd 55, .cmd 41, .identified, .cmd 17] := by
  decide +kernel

/-- The second call succeeds and the card type is recorded. -/
theorem second_call_reads :
    (match (call replayBus (.read 1 3) (call replayBus (.read 1 3) start).2).1 with
      | .ok (.blocks [b]) => b.length == 512 | _ => false) = true ∧
    (runCalls replayBus session start).cardType = some .SD1 := by
  refine ⟨?_, ?_⟩ <;> decide +kernel

/-- The theorems on this session: the CMD17 frame is preceded by a complete identification run. -/
theorem session_cmd17_after_ident (pre : List Mark) (f : Bytes) (post : List Mark)
    (hL : sessionMarks replayBus session start = pre ++ Mark.ev (.cmd f) :: post) (h17 : cmdIdx f = 17) :
    IdentRunBefore false pre :=
  session_ident_before_data replayBus session start rfl pre f post hL (by rw [h17]; decide)

/-- A multi-block read on an identified card whose data never comes: CMD18 is answered, every
block times out, CMD12 is sent all the same — and the next call of the session starts after it. -/
def stuckRead : St (List (Option Bytes)) :=
  { bus := [some [0xFF], some [], some [0]], cardType := some .SDHC, useCrc := false }

theorem stuck_read_stopped :
    skeleton (sessionMarks replayBus [.read 2 5, .markUninit] stuckRead) = [.call, .cmd 18, .cmd 12, .call, .reset] ∧
    (match (call replayBus (.read 2 5) stuckRead).1 with | .err .TimeoutReadBuffer => true | _ => false) = true := by
  refine ⟨?_, ?_⟩ <;> decide +kernel

/-- A two-block write whose first block the card refuses (data response 0x0B: CRC error): the
stop token 0xFD is sent all the same. -/
def refusedWrite : St (List (Option Bytes)) :=
  { bus := [some [0xFF], some [], some [0],        -- CMD55
            some [0xFF], some [], some [0],        -- ACMD23
            some [0xFF],                           -- wait_not_busy
            some [0xFF], some [], some [0],        -- CMD25
            some [0xFF],                           -- wait_not_busy before the block
            some [], some [], some [], some [0x0B]],  -- token, data, CRC, data response
    cardType := some .SDHC, useCrc := false }

def tokens (evs : List Event) : List Nat :=
  evs.filterMap fun e => match e with
    | .cmd f => some (cmdIdx f)
    | .byte x => some (1000 + x.toNat)
    | _ => none

theorem refused_write_stopped :
    tokens (evsNew refusedWrite (call replayBus (.write [List.replicate 512 0, List.replicate 512 1] 7) refusedWrite).2) =
      [55, 23, 25, 1000 + 0xFC, 1000 + 0xFD] ∧
    (match (call replayBus (.write [List.replicate 512 0, List.replicate 512 1] 7) refusedWrite).1 with
      | .err .WriteError => true | _ => false) = true := by
  refine ⟨?_, ?_⟩ <;> decide +kernel

/-- `AnsweredThen` on the response of that CMD25 (one poll, 0). -/
example : AnsweredThen [Event.poll 0, Event.poll 255] [Event.poll 255] :=
  ⟨[], 0, rfl, by simp [Waits], by decide, by decide⟩

end Example

end Sdmmc.Props.C14Session
