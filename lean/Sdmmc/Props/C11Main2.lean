/-
C11 — HEADLINE THEOREM, SECOND EDITION (PARTIAL; supersedes `Props/C11Main.lean`, which was written from the early
theorems: one call from `VolInvF`, histories with failures in class-A calls only, `Mirror` required).

PROPERTY (verbatim from `properties.jsonl`).
statement:
  "If any block-device read or write fails during an API call, that call returns an error - it never returns
  success, a fabricated answer such as an empty or truncated listing, and never panics or hangs. Afterwards every
  handle can still be used and closed, a read-only call that failed on a transient fault gives the correct answer
  when retried, a failed call never makes a directory hold two entries with the same name, and files not involved in
  the failed call are intact on the medium."
quantifier:
  "for every history, a failure injected at every single device-call index (read or write, with the read buffer
  scribbled on failure), plus random multi-fault sequences, on FAT16 and FAT32 with multi-cluster directories so
  that FAT reads happen during directory walks"

HOW TO READ `C11_main2_partial`.
* The device (`Model/Dev.lean`) carries ONE fault schedule for its whole life: `dev.faults` lists the indices — in
  `dev.calls` numbering, which no call resets — of the device calls (reads and writes alike) that fail; every schedule
  (a single fault at any index, multi-fault sequences) is a value of `faults`, and NO theorem below restricts it.  A failed
  read leaves a scribbled buffer that is never served (the tag is cleared: `Props.C11.cacheRead_fail_tag`).  `dev.failed`
  counts the failed calls and is never read by the model: "a device call failed during the call" is
  `(step s op).1.dev.failed ≠ s.dev.failed`.  A history under faults is `run s ops` from a state whose `dev.faults` is the
  schedule; `Exhausted d`: every scheduled index lies in the past (the transient fault is gone).
* `step s op` — one API call: `.1` the state it leaves, `.2.result : Res Payload` its answer — `ok`, `err e`, `panic`,
  `diverged` (hang) are four distinct constructors —, `.2.writes` its device writes (`Model/Mgr.lean`).  `Clean r`: `ok` or
  `err`.  `clearFaults s`: `s` with nothing scheduled.
* `VolInvS k s gh X` (`Spec/VolumeSlack.lean`) — the invariant of API histories (C03, `Spec/Volume.lean`) with exactly three
  things given up: a schedule may be pending; the medium may carry LOST CHAINS `X` (allocated, referenced by nothing —
  the permitted residue of a failed call); the size stored in the entry of a CLOSED file may exceed what its chain holds by
  up to `k` bytes per cluster (the residue of a failed TRUNCATING open; `k = 0`: no such file).  Everything else of C03's
  invariant is kept, in particular pairwise distinct names in every directory and, for every OPEN file, `FileOK` (its
  record fits its chain).  `VolInvSE` adds `EntriesNotAhead`: no directory entry of an open file is ahead of the file's
  record.  `FaultInvE` (`Spec/VolumeFaultE.lean`): the weak invariant the earlier theorems were stated with; implied.
* `NotDamagedOpen s op` / `NotDamagedRun s ops` (`Spec/VolumeSlack.lean`, read off the medium alone) — THE ONE SIDE CONDITION
  ON THE HISTORY: no call is an `open_file_in_dir` in a mode that keeps the stored size (`ReadOnly`, `ReadWriteAppend`,
  `ReadWriteCreateOrAppend`) naming, in the directory of its handle, a CLOSED file whose entry is DAMAGED (non-empty, its
  chain too short for the size stored).  A damaged entry exists only after a device failure inside a TRUNCATING
  `open_file_in_dir` of that very file: the condition is VOID — holds of every call — as long as `VolInvS 0` holds (clause
  IV), i.e. until such a failure, and again once the file was truncated again, deleted, … .  Every other call is
  unrestricted, in particular truncating the damaged file again and deleting it.
* `retryOp op`: the read-only calls except `get_root_volume_label` (`Props.C11Inv`); `Lemmas.Fault.handles s`: the three
  handle lists.  `LicenceFor`, `NotNamed` (C04: `Props/C04Main.lean`): the licence of the call in the state it is issued
  in; an object (slot `(sb, so)`, chain `cs`) no licence names is "not involved".  `Chain` reads FAT copy 1, as the crate
  does; NOTHING is asked of copy 2 (no `Mirror`).

STANDING HYPOTHESES of II, and where each is discharged.
* `VolInvSE k s gh X` at the start: every state with C03's invariant and no entry ahead (e.g. no modified open file —
  `Props.C11HistE.volInvLE_of_unmodified` —, or any state reached from one: II itself carries it) given ANY schedule: clause
  III.
* `hv`: an `open_volume` is issued only while a volume is open (it is then refused; a mount under a fault schedule is not
  covered).  Names are unrestricted (`Props.C03All.name_ok_all`).
* `NotDamagedRun s ops`: see above; void from `VolInvS 0`: clause IV.

CLAUSES.
 I. EVERY history, from EVERY state, under EVERY schedule (no hypothesis at all):
  (reported)  a call during which a device read or write failed answers `err e`: not `ok` (no fabricated, empty or
              truncated answer), not `panic`, not `diverged`;
  (tables)    a call that did not answer `Ok` (other than `close_file`) leaves exactly the handles it found;
  (cache)     a coherent cache is coherent after every prefix — a scribbled buffer is never served.
 II. EVERY history under EVERY schedule — device calls failing ANYWHERE, in any of the 24 calls, any number of times — from
     `VolInvSE`, with `hv` and `NotDamagedRun`; after EVERY prefix `n` (`AfterPrefix`), `sn` the state reached:
  (clean)     every call so far answered `ok` or `err` — also the calls no fault hit: no panic, no hang;
  (inv)       `VolInvSE k'` for some `k' ≥ k`, hence `FaultInvE`; in particular
  (names)     no directory of the tree holds two entries with the same name on the medium;
  (usable)    every open file's record fits its chain (`FileOK`): the handles the tables hold are handles of the invariant,
              so every later call on them is again a call II speaks about;
  (closeFile) `close_file` of any open file answers `Ok` unless a device call of it fails (then an error), and in either
              case the handle has left the table, the other tables are untouched;
  (handles)   once the schedule is exhausted, closing every file, every directory and the volume answers `Ok` each time;
              the tables are empty, no device call failed, the invariant holds with the same lost chains and slack, and a
              medium that mounted still mounts;
  (retry)     a read-only call (`retryOp`) of which a device call failed, issued again with the fault gone from the state
              it left, answers exactly what it answers without any fault from the state it was first issued in;
  (mounts)    a medium that mounted at the start still mounts;
  and (others) there is ONE LICENCE PER CALL, described (`LicenceFor`) in the state the call is issued in, such that an
              object of the start medium that none of the first `n` licences names has, after the first `n` calls, the same
              slot bytes, is still the chain of its first cluster, and holds the same bytes — whatever failed.
 III. Start states.  IV. The side condition is void without slack.
 V. SEVERAL OPEN VOLUMES (one call; `Props/C11Multi.lean`): a device failure during a call on one volume leaves every other
    open volume's record, open files, partition BYTE FOR BYTE and full medium invariant alone, and the volume worked on
    has no duplicate names.  (From `VolInvNF` + `MirrorN` + `LabelFresh`; histories with several volumes are not composed.)
 (source) the five `BlockCache` methods, machine-translated from blockdevice.rs, are the model's cache primitives —
    including the paths on which the device call fails (`Props.C11GenM`).

STATUS: PARTIAL.  Clause by clause, against the sentence:
* "that call returns an error … never panics or hangs": PROVED IN FULL (I: reported; II: clean for the calls no fault hit).
* "afterwards every handle can still be used and closed": PROVED (II: inv, usable, closeFile, handles) for every history
  satisfying `NotDamagedRun`.  GAP: the handle a size-keeping open of a DAMAGED closed file hands out (its record's size
  exceeds its chain: `Props.C11HistD.Example.damaged_reopen_excluded`, `…_conclusion_fails`; evaluated in
  `Props.C11HistT.Example`: reads crossing the chain end answer `EndOfFile`, an append re-extends the chain, closing
  works; no panic) — what calls on THAT handle do is not proved.
* "a read-only call that failed on a transient fault gives the correct answer when retried": PROVED (II: retry) except
  `get_root_volume_label`, which draws a handle id BEFORE it reads (`Props.C11Inv.Example.label_retry_needs_fresh_ids`:
  needs a stale duplicate id, i.e. a wrap of the handle generator; with fresh ids not proved).
* "a failed call never makes a directory hold two entries with the same name": PROVED (II: names), same side condition.
* "files not involved in the failed call are intact on the medium": PROVED (II: others, mounts) for all 24 calls, failures
  inside `write` and `make_dir_in_dir` (whose clean-up is no prefix of the fault-free run) included, without `Mirror`;
  same side condition.  Several volumes: V, one call.
* Not covered: a mount (`open_volume` with no volume open) under a fault schedule.
-/
import Sdmmc.Lemmas.MainC11D
import Sdmmc.Props.C11HistD
import Sdmmc.Props.C11HistM
import Sdmmc.Props.C11Multi
import Sdmmc.Props.C11GenM
import Sdmmc.Props.C11Main

namespace Sdmmc.Props.C11Main2
open Sdmmc.Model Sdmmc.Model.Fat Sdmmc.Spec.Volume
open Sdmmc.Spec hiding run step NoFault Coherent
open Sdmmc.Props.C11Inv (withFaults Covered retryOp DirsSound)
open Sdmmc.Props.C11Hist (CoveredRun Exhausted)
open Sdmmc.Props.C04Multi (workTarget)
open Sdmmc.Lemmas.VolN (LabelFresh)
open Sdmmc.Lemmas.WriteSetInv (LicenceFor NotNamed)
open Sdmmc.Lemmas.Fault (handles)

/-- Clauses II: after the first `n` calls of `ops` from `s` (ghost `gh`, slack `k`); `sn` is the state they leave. -/
structure AfterPrefix (k : Nat) (s : Mgr) (gh : Ghost) (ops : List Op) (n : Nat) (sn : Mgr) : Prop where
  /-- every call so far answered `ok` or `err` -/
  clean : ∀ o, o ∈ (run s (ops.take n)).2 → Clean o.result
  /-- the invariant, for some slack; distinct names; every open file's record fits its chain -/
  inv : ∃ k' gh' X', k ≤ k' ∧ VolInvSE k' sn gh' X' ∧ FaultInvE sn gh' X' ∧ SameGeom gh.vol gh'.vol ∧
    (∀ h, h ∈ dirIds gh'.dirs → ((entries (dirSlots gh'.vol sn.dev.disk gh'.G h)).map sName).Nodup) ∧
    (∀ f, f ∈ sn.files → FileOK gh'.vol sn.dev.disk f (chainOf gh'.G f.entry.cluster)) ∧
    -- (handles)
    (Exhausted sn.dev →
      ∃ (fs ds vs : List Nat), fs.Perm (sn.files.map (·.rawFile)) ∧ ds.Perm (sn.dirs.map (·.rawDirectory)) ∧
        vs = sn.vols.map (·.rawVolume) ∧
        let closes := fs.map Op.closeFile ++ ds.map Op.closeDir ++ vs.map Op.closeVolume
        (∀ o, o ∈ (run sn closes).2 → o.result = .ok .unit) ∧
        (run sn closes).1.files = [] ∧ (run sn closes).1.dirs = [] ∧ (run sn closes).1.vols = [] ∧
        hasOpenHandles (run sn closes).1 = false ∧
        (run sn closes).1.dev.failed = sn.dev.failed ∧
        (∃ gh2, VolInvS k' (run sn closes).1 gh2 X' ∧ SameGeom gh'.vol gh2.vol) ∧
        ∀ (idx : Nat) (vm : FatVolume), mountPure (sn.dev.disk.get 0) idx sn.dev.disk.get = .ok vm → SameGeom vm gh'.vol →
          ∃ w, mountPure ((run sn closes).1.dev.disk.get 0) idx (run sn closes).1.dev.disk.get = .ok w ∧ SameGeom gh'.vol w)
  /-- `close_file` of any open file, whatever is scheduled -/
  closeFile : ∀ file, file ∈ sn.files.map (·.rawFile) →
    ((step sn (.closeFile file)).2.result = .ok .unit ∨
      ((step sn (.closeFile file)).1.dev.failed ≠ sn.dev.failed ∧ ∃ e, (step sn (.closeFile file)).2.result = .err e)) ∧
    (step sn (.closeFile file)).1.files.length + 1 = sn.files.length ∧
    (step sn (.closeFile file)).1.dirs = sn.dirs ∧
    (step sn (.closeFile file)).1.vols.map (·.rawVolume) = sn.vols.map (·.rawVolume)
  /-- the retry of a failed read-only call, the fault gone -/
  retry : ∀ op, retryOp op = true → sn.vols ≠ [] → (step sn op).1.dev.failed ≠ sn.dev.failed →
    Exhausted (step sn op).1.dev → (step (step sn op).1 op).2.result = (step (clearFaults sn) op).2.result
  /-- a medium that mounted at the start still mounts -/
  mounts : ∀ (idx : Nat) (vm : FatVolume), mountPure (s.dev.disk.get 0) idx s.dev.disk.get = .ok vm → SameGeom vm gh.vol →
    ∃ w, mountPure (sn.dev.disk.get 0) idx sn.dev.disk.get = .ok w ∧ SameGeom gh.vol w

/-- The hypothesis `hv` gives coverage: every name is fine (`Props.C03All.name_ok_all`). -/
theorem coveredRun_of : ∀ (ops : List Op) (s : Mgr),
    (∀ n idx, ops[n]? = some (.openVolume idx) → (run s (ops.take n)).1.vols ≠ []) → CoveredRun s ops
  | [], _, _ => trivial
  | op :: ops, s, h => by
    refine ⟨C11Main.covered_of fun idx e => ?_, coveredRun_of ops _ fun n idx hn => ?_⟩
    · exact h 0 idx (by rw [e]; rfl)
    · have := h (n + 1) idx (by rw [List.getElem?_cons_succ]; exact hn)
      rw [List.take_succ_cons, Lemmas.WriteSetInv.run_cons] at this
      exact this

/-- II after one prefix, from the pieces. -/
theorem afterPrefix_of (ops : List Op) {k : Nat} {s : Mgr} {gh : Ghost} {X : List (List Nat)} (hI : VolInvSE k s gh X)
    (hc : CoveredRun s ops) (hn : NotDamagedRun s ops) (n : Nat) : AfterPrefix k s gh ops n (run s (ops.take n)).1 := by
  obtain ⟨⟨k', gh', X', hle, h1, h2, h3⟩, hcl⟩ := C11HistD.history_under_faults_D_partial ops hI hc hn n
  have hD := Lemmas.VolD.volInvS_iff.1 h1.inv
  have hIs := Lemmas.VolD.volInvS_iff.1 hI.inv
  have hcF := (C11Hist.coveredRun_iff ops s).1 hc
  refine ⟨hcl, ⟨k', gh', X', hle, h1, h2, h3, h1.inv.med.tree.names, fun f hf => (h1.inv.med.fileOK f hf).1, fun hx => ?_⟩,
    fun file hf => Lemmas.VolD.closeFile_ok_or_fault hD hf,
    fun op hop hvol hfail hx => Lemmas.VolD.retry_F hD hvol op (by rw [← C11Inv.retryOp_iff]; exact hop) hfail hx,
    fun idx vm hmt hsg => Lemmas.MainC11D.mounts_D ops hIs hI.entries hcF hn n idx vm hmt hsg⟩
  obtain ⟨fs, ds, vs, p1, p2, p3, hdr⟩ := Lemmas.VolD.drain_exhausted hD hx
  refine ⟨fs, ds, vs, p1, p2, p3, ?_⟩
  intro closes
  obtain ⟨a1, a2, a3, a4, a5, a6, gh2, a7, a8⟩ := hdr
  exact ⟨a1, a2, a3, a4, a5, a6, ⟨gh2, Lemmas.VolD.volInvS_iff.2 a7, a8⟩,
    fun idx vm hmt hsg => Lemmas.MainC11D.closes_mount hD h1.entries fs ds vs idx vm hmt hsg⟩

/-- No open file modified: then no entry is ahead of its record. -/
theorem entries_of_unmodified {s0 : Mgr} {gh : Ghost} (hI : VolInv s0 gh) (hcl : ∀ f, f ∈ s0.files → f.dirty = false) :
    EntriesNotAhead s0 := by
  have h := C11HistB.volInvL_withFaults hI s0.dev.faults
  have e : withFaults s0.dev.faults s0 = s0 := rfl
  rw [e] at h
  exact (C11HistE.volInvLE_of_unmodified h hcl).entries

/-- **C11** (partial).  See the header. -/
theorem C11_main2_partial :
    -- I
    (∀ (ops : List Op) (s : Mgr) (n : Nat) (op : Op), ops[n]? = some op → ∀ sn, (run s (ops.take n)).1 = sn →
      -- (reported)
      ((step sn op).1.dev.failed ≠ sn.dev.failed → ∃ e, (step sn op).2.result = .err e) ∧
      -- (tables)
      ((∀ f, op ≠ .closeFile f) → (∀ p, (step sn op).2.result ≠ .ok p) → handles (step sn op).1 = handles sn) ∧
      -- (cache)
      ((∀ i, s.cache.tag = some i → s.cache.blk = s.dev.disk.get i) →
        ∀ i, sn.cache.tag = some i → sn.cache.blk = sn.dev.disk.get i)) ∧
    -- II
    (∀ (ops : List Op) (k : Nat) (s : Mgr) (gh : Ghost) (X : List (List Nat)), VolInvSE k s gh X →
      (∀ n idx, ops[n]? = some (.openVolume idx) → (run s (ops.take n)).1.vols ≠ []) → NotDamagedRun s ops →
      (∀ n sn, (run s (ops.take n)).1 = sn → AfterPrefix k s gh ops n sn) ∧
      -- (others)
      ∃ Ls : List Licence, Ls.length = ops.length ∧
        (∀ L, L ∈ Ls → ∃ n op k' gh' X', ops[n]? = some op ∧ VolInvS k' (run s (ops.take n)).1 gh' X' ∧
          SameGeom gh.vol gh'.vol ∧
          LicenceFor gh' (run s (ops.take n)).1.files (run s (ops.take n)).1.dirs (run s (ops.take n)).1.dev.disk op L) ∧
        ∀ (n sb so c : Nat) (cs : List Nat), Chain gh.vol s.dev.disk c cs →
          (regionOf gh.vol sb = .root ∨ regionOf gh.vol sb = .data) → so % 32 = 0 →
          (∀ L, L ∈ Ls.take n → NotNamed gh.vol L sb so cs) →
          slice ((run s (ops.take n)).1.dev.disk.get sb) so 32 = slice (s.dev.disk.get sb) so 32 ∧
          Chain gh.vol (run s (ops.take n)).1.dev.disk c cs ∧
          chainBytes gh.vol (run s (ops.take n)).1.dev.disk cs = chainBytes gh.vol s.dev.disk cs) ∧
    -- III
    (∀ (s0 : Mgr) (gh : Ghost), VolInv s0 gh → EntriesNotAhead s0 → ∀ L, VolInvSE 0 (withFaults L s0) gh []) ∧
    (∀ (s0 : Mgr) (gh : Ghost), VolInv s0 gh → (∀ f, f ∈ s0.files → f.dirty = false) → EntriesNotAhead s0) ∧
    -- IV
    (∀ (s : Mgr) (gh : Ghost) (X : List (List Nat)), VolInvS 0 s gh X → ∀ op, NotDamagedOpen s op) ∧
    -- V
    (∀ (s : Mgr) (op : Op) (ghs : List Ghost), VolInvNF s ghs → MirrorN s ghs → LabelFresh s op →
      (∀ (j : Nat) (vj : VolInfo) (ghj : Ghost), s.vols[j]? = some vj → ghs[j]? = some ghj → workTarget s op ≠ some j →
        C11Multi.Kept s (step s op).1 vj ghj ∧
        ((∀ v, op ≠ .openRoot v) → (∀ d, op ≠ .closeDir d) →
          (volDirs (step s op).1 vj.rawVolume).Perm (volDirs s vj.rawVolume))) ∧
      (∀ (i : Nat) (vi : VolInfo) (gh : Ghost), workTarget s op = some i → s.vols[i]? = some vi → ghs[i]? = some gh →
        ∃ G', DirsSound gh.vol (step s op).1.dev.disk { vol := gh.vol, G := G', dirs := gh.dirs })) ∧
    -- (source)
    ((∀ idx, Gen.FunsM.BlockCache_read idx = cacheRead idx) ∧ (∀ idx, Gen.FunsM.BlockCache_read_mut idx = cacheRead idx) ∧
      Gen.FunsM.BlockCache_write_back = writeBack ∧
      (∀ dup, Gen.FunsM.BlockCache_write_back_with_duplicate dup = writeBackWithDuplicate dup) ∧
      (∀ idx, Gen.FunsM.BlockCache_blank_mut idx = blankMut idx)) := by
  refine ⟨fun ops s n op hn sn hsn => ?_, fun ops k s gh X hI hv hn => ?_,
    fun s0 gh hI hE L => C11HistD.volInvSE_withFaults hI hE L,
    fun s0 gh hI hcl => entries_of_unmodified hI hcl,
    fun s gh X hI op => C11HistD.notDamaged_without_slack hI op,
    fun s op ghs hI hm hf => C11Multi.fault_on_one_volume_leaves_others_intact s op ghs hI hm hf,
    C11GenM.read_eq, C11GenM.read_mut_eq, C11GenM.write_back_eq, C11GenM.write_back_with_duplicate_eq, C11GenM.blank_mut_eq⟩
  · subst hsn
    exact ⟨C11Hist.fault_reported_history ops s n op hn, C11.handles_survive_fault _ op,
      fun hcoh => C11Hist.cache_coherent_history ops s hcoh n⟩
  · have hc := coveredRun_of ops s hv
    refine ⟨fun n sn hsn => by subst hsn; exact afterPrefix_of ops hI hc hn n, ?_⟩
    obtain ⟨Ls, h1, h2, h3⟩ := Lemmas.MainC11D.others_D ops (Lemmas.VolD.volInvS_iff.1 hI.inv) hI.entries
      ((C11Hist.coveredRun_iff ops s).1 hc) hn
    refine ⟨Ls, h1, fun L hL => ?_, h3⟩
    obtain ⟨n, op, k', gh', X', a, b, c, d⟩ := h2 L hL
    exact ⟨n, op, k', gh', X', a, Lemmas.VolD.volInvS_iff.2 b, c, d⟩

/-! ### Non-vacuity, and the excluded points -/

namespace Example
open Sdmmc.Lemmas.VolExample
open Sdmmc.Props.C11HistD.Example (opsD schedD opsD_notDamaged)

/-- Every state with the invariant of C03 and no modified open file, given ANY schedule `L`, satisfies the hypothesis of II. -/
example {s0 : Mgr} {gh : Ghost} (hI : VolInv s0 gh) (hcl : ∀ f, f ∈ s0.files → f.dirty = false) (L : List Nat) :
    VolInvSE 0 (withFaults L s0) gh [] :=
  C11_main2_partial.2.2.1 s0 gh hI (C11_main2_partial.2.2.2.1 s0 gh hI hcl) L

theorem opsD_no_mount : ∀ n idx, opsD[n]? = some (.openVolume idx) → (run (withFaults schedD mgr0) (opsD.take n)).1.vols ≠ [] := by
  intro n idx h
  have hm := List.mem_of_getElem? h
  simp [opsD, C11Hist.Example.trunc] at hm

/-- II applies to the history `Props.C11HistD.Example.opsD` on the FAT16 example volume under the schedule `[7, 9, 13]`:
device calls fail inside a truncating open (twice), inside `write`; the history goes on, the damaged file is repaired and
then opened `ReadOnly` (`Props.C11HistD.Example.opsD_failures`, `opsD_invariant`, evaluated). -/
example := C11_main2_partial.2.1 opsD 0 (withFaults schedD mgr0) gh0 []
  (C11HistD.volInvSE_withFaults mgr0_inv C11HistE.Example.mgr0_entries schedD) opsD_no_mount opsD_notDamaged

/-- … and to the history of `Props.C11HistM.Example` (failures inside `delete` between the two FAT copies, inside `write`,
inside `make_dir_in_dir`), whose side condition is void: evaluated there (`opsM_others_intact`). -/
example := C11HistM.Example.opsM_evaluated

/-- The excluded point of II, evaluated: the size-keeping open of the damaged closed file violates `NotDamagedOpen`, and
the conclusion (inv) then fails for every slack (`FileOK` of the new handle). -/
example := C11HistD.Example.damaged_reopen_excluded
example := C11HistD.Example.damaged_reopen_conclusion_fails
/-- … while every call on it that `Props.C11HistT.Example` evaluates behaves (no panic; truncating again, deleting and
appending repair). -/
example := C11HistT.Example.damaged_read
example := C11HistT.Example.damaged_truncate_again_repairs
/-- `label` needs fresh handle ids for the retry. -/
example := C11Inv.Example.label_retry_needs_fresh_ids
/-- V on the two-volume example. -/
example := C11Multi.Example.faulted_mkdir_leaves_first_volume

end Example

end Sdmmc.Props.C11Main2
