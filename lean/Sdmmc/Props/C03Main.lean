/-
C03 — HEADLINE THEOREM.

PROPERTY (verbatim from `properties.jsonl`).
statement:
  "After every API call returns (success or error), the on-disk volume together with the pending state of still-open
  files is structurally sound: every file and directory chain starts in range, is acyclic, ends in an end-of-chain
  mark, never passes through a free, reserved or bad entry, shares no cluster with any other chain, and is long
  enough for the recorded size. Every directory has unique names, sub-directories have correct dot and dot-dot
  entries, and no entry follows the end-of-directory marker."
quantifier:
  "all API histories including failing calls (disk full, name clashes, limit errors), checked after every single
  call, on all geometries including volumes filled to the last cluster and FAT16 root directories filled to the last
  slot"

HOW TO READ `C03_main`.
* `run s ops` runs the history `ops` of API calls from the manager state `s` (`Model/Step.lean`); `(run s (ops.take k)).1` is
  the state after the first `k` calls — whatever they answered: `Ok`, `DiskFull`, `NotEnoughSpace`, name clashes, limit
  errors, refusals.
* `VolInvN s ghs` (`Spec/VolumeN.lean`): the invariant of API histories, one ghost `gh` per open volume: the volume record
  `gh.vol`, the list `gh.G` of ALL cluster chains of the volume and the list `gh.dirs` of its sub-directories `(first
  cluster, parent)`; `MirrorN`: the FAT copies agree.  `proj s i` (`Spec/VolumeN.lean`, `Props.C03Multi.proj_def`): the
  manager as volume record `i` sees it — the same device and cache (`proj_dev`), its own volume record, its own open
  directories and files.  "The pending state of still-open files": `effCluster` / `effSize` — first cluster and size of a
  file entry, the record of an open file sitting at the entry taking precedence over the on-disk fields (`Spec/Volume.lean`).
* `Chain`, `nextOf`, `isFree`, `isBad`, `InRange` (`Spec/Chain.lean`, `Spec/Forest.lean`); `dirSlots`, `objects`, `entries`,
  `sName`, `CleanTail`, `IsDot`, `dirIds`, `chainOf`, `rootHead`, `fileRefs` (`Spec/Volume.lean`, reading guide at its top).

CLAUSES (`Sound t gh`), for EVERY `k` (after every single call), for EVERY open volume (record `i`, ghost `gh`,
`t := proj … i`), in the order of the sentence:
  (chains)  every chain of `gh.G` is non-empty, free of repetitions (acyclic), all its clusters are in range and neither
            free nor bad (a reserved value is not a cluster number in range: `InRange`), each links to the next, and the
            last carries an end-of-chain mark;
  (refs)    the FAT32 root, every sub-directory and every file entry with a cluster (pending state first) designate the
            first cluster of a chain of `gh.G` — so every file and directory chain is one of the chains of (chains), and
            "starts in range";
  (sharing) a cluster occurs in at most one chain, at one position, and no two references name the same chain;
  (sizes)   a file entry without a cluster has size 0; otherwise its chain is long enough for the recorded size;
  (names)   the names of the live short entries of every directory are pairwise distinct;
  (dots)    every sub-directory starts with `.` (its own first cluster) and `..` (its parent's, 0 for the root), and the
            parent is a directory of the tree;
  (tail)    in no directory does an entry follow the end-of-directory marker;
  (open)    every open file's record is consistent with its chain and sits at a live file entry of the tree with its
            name; no two open files sit at the same entry;
  (fsck)    the independent checker `Spec.Fs.fsck`, run on the device with the pending state of the open files, reports no
            problem — given (H1) `NoOne` (no FAT32 entry of a data cluster holds the value 1, which the crate reads as
            end of chain and the checker as reserved; the crate never writes it) and (H2) `DepthOK` (nesting ≤ 63, the
            checker's fuel; holds if the volume has ≤ 63 sub-directories, `Props.C03Inv.depth_ok_of_few_dirs`).  Both are
            needed by the CHECKER, not by clauses (chains)…(open): `Props.C03Inv.Example.fsck_needs_H1`.

HYPOTHESES.
* `VolInvN s ghs`, `MirrorN s ghs` at the start: hold of a fresh manager (`Lemmas.Main.fresh_manager_invariant`, second
  example below), hence — by this very theorem — of every state a covered history reaches from it.
* `CoveredNRun s ops`: about `open_volume` calls that SUCCEED only — fresh volume handle (can fail only after a wrap of the
  32-bit handle generator), partition overlapping no open one, and the mounted record describes a sound volume with
  identical FAT copies (the invariant cannot know what an unmounted partition holds; `Props.C15Fs.mount_establishes_invariant`
  discharges it for any medium satisfying the medium invariant `MedInv`, e.g. one this crate left behind).
No hypothesis on names (`Props.C03All`), on outcomes, on the geometry beyond `WFGeom` (part of the invariant: any blocks per
cluster, one or two FATs, any partition offset), on fill level (volumes filled to the last cluster and FAT16 roots filled
to the last slot included: the calls fail, the invariant stays — `Props.C05Capacity`).

STATUS: PROVED IN FULL.  Device faults are a different property (C11: `Props/C11Inv.lean`); here the device is fault free
(`VolInvN.noFault`).
-/
import Sdmmc.Props.C03Multi
import Sdmmc.Lemmas.MainBase

namespace Sdmmc.Props.C03Main
open Sdmmc.Model Sdmmc.Model.Fat Sdmmc.Spec.Volume
open Sdmmc.Spec hiding run step NoFault Coherent
open Sdmmc.Props.C03Multi (CoveredNRun)

/-- The clauses of the sentence, for one volume: `t` the manager as the volume sees it, `gh` its ghost. -/
structure Sound (t : Mgr) (gh : Ghost) : Prop where
  chains : ∀ cs, cs ∈ gh.G → cs ≠ [] ∧ cs.Nodup ∧
    (∀ c, c ∈ cs → InRange gh.vol c ∧ ¬ isFree gh.vol t.dev.disk c ∧ ¬ isBad gh.vol t.dev.disk c) ∧
    (∀ k x y, cs[k]? = some x → cs[k + 1]? = some y → nextOf gh.vol t.dev.disk x = .ok y) ∧
    (∀ k x, cs[k]? = some x → k + 1 = cs.length → nextOf gh.vol t.dev.disk x = .err .EndOfFile)
  refs : (∀ c, c ∈ rootHead gh.vol → chainOf gh.G c ∈ gh.G ∧ (chainOf gh.G c).head? = some c) ∧
    (∀ h p, (h, p) ∈ gh.dirs → chainOf gh.G h ∈ gh.G ∧ (chainOf gh.G h).head? = some h) ∧
    (∀ h, h ∈ dirIds gh.dirs → ∀ o, o ∈ objects h (dirSlots gh.vol t.dev.disk gh.G h) → isDirE o = false →
      effCluster gh.vol.fatType t.files o ≠ 0 →
      chainOf gh.G (effCluster gh.vol.fatType t.files o) ∈ gh.G ∧
      (chainOf gh.G (effCluster gh.vol.fatType t.files o)).head? = some (effCluster gh.vol.fatType t.files o))
  sharing : (∀ (i j a b : Nat) (cs cs' : List Nat) (c : Nat), gh.G[i]? = some cs → gh.G[j]? = some cs' → cs[a]? = some c →
      cs'[b]? = some c → i = j ∧ a = b) ∧
    (rootHead gh.vol ++ gh.dirs.map Prod.fst ++
      (dirIds gh.dirs).flatMap fun h => fileRefs gh.vol.fatType t.files (objects h (dirSlots gh.vol t.dev.disk gh.G h))).Nodup
  sizes : ∀ h, h ∈ dirIds gh.dirs → ∀ o, o ∈ objects h (dirSlots gh.vol t.dev.disk gh.G h) → isDirE o = false →
    (effCluster gh.vol.fatType t.files o = 0 ∧ effSize t.files o = 0) ∨
    (effCluster gh.vol.fatType t.files o ≠ 0 ∧
      effSize t.files o ≤ (chainOf gh.G (effCluster gh.vol.fatType t.files o)).length * bytesPerCluster gh.vol)
  names : ∀ h, h ∈ dirIds gh.dirs → ((entries (dirSlots gh.vol t.dev.disk gh.G h)).map sName).Nodup
  dots : ∀ h p, (h, p) ∈ gh.dirs → (∃ s0 s1 rest, dirSlots gh.vol t.dev.disk gh.G h = s0 :: s1 :: rest ∧
    IsDot gh.vol.fatType Sfn.thisDir h s0 ∧ IsDot gh.vol.fatType Sfn.parentDir p s1) ∧ p ∈ dirIds gh.dirs
  tail : ∀ h, h ∈ dirIds gh.dirs → CleanTail (dirSlots gh.vol t.dev.disk gh.G h)
  openFiles : (∀ f, f ∈ t.files → FileOK gh.vol t.dev.disk f (chainOf gh.G f.entry.cluster) ∧
      ∃ h, h ∈ dirIds gh.dirs ∧ ∃ o, o ∈ objects h (dirSlots gh.vol t.dev.disk gh.G h) ∧ o.1 = f.entry.entryBlock ∧
        o.2.1 = f.entry.entryOffset ∧ isDirE o = false ∧ sName o = f.entry.name) ∧
    (t.files.map fun f => (f.entry.entryBlock, f.entry.entryOffset)).Nodup
  fsck : ∀ g : Spec.Fs.Geom, GeomOf gh.vol g → NoOne gh.vol t.dev.disk → DepthOK gh.dirs →
    (Spec.Fs.fsck g t.dev.disk (pendingOf t) true).problems = []

/-- The one-volume invariant gives the clauses (`Props.C03Inv`, section "what the invariant says"). -/
theorem sound_of_inv {t : Mgr} {gh : Ghost} (hI : VolInv t gh) : Sound t gh :=
  ⟨fun _ hcs => C03Inv.chains_sound hI hcs, C03Inv.references_sound hI, C03Inv.no_sharing hI,
   fun _ hh _ ho hd => C03Inv.sizes_fit hI hh ho hd, fun _ hh => (C03Inv.names_unique hI hh).1,
   fun _ _ hp => C03Inv.dot_entries hI hp, fun _ hh => C03Inv.clean_tail hI hh, C03Inv.open_files_sound hI,
   fun g hg h1 h2 => C03Inv.fsck_ok _ _ hI g hg h1 h2⟩

/-- `proj s i` is `s` with the tables reduced to volume record `i`: the device is the same. -/
theorem proj_dev (s : Mgr) (i : Nat) : (proj s i).dev = s.dev := by
  unfold proj
  split <;> rfl

/-- **C03.**  See the header. -/
theorem C03_main (ops : List Op) (s : Mgr) (ghs : List Ghost) (hI : VolInvN s ghs) (hm : MirrorN s ghs)
    (hc : CoveredNRun s ops) (k : Nat) :
    ∃ ghs', VolInvN (run s (ops.take k)).1 ghs' ∧ MirrorN (run s (ops.take k)).1 ghs' ∧
      ∀ (i : Nat) (vi : VolInfo) (gh : Ghost), (run s (ops.take k)).1.vols[i]? = some vi → ghs'[i]? = some gh →
        Sound (proj (run s (ops.take k)).1 i) gh := by
  obtain ⟨ghs', hI', hm'⟩ := C03Multi.api_history_invariant_multi_prefix ops s ghs hI hm hc k
  refine ⟨ghs', hI', hm', fun i vi gh hvi hgh => ?_⟩
  have hP : VolInv (proj (run s (ops.take k)).1 i) gh := by
    rw [C03Multi.proj_def hvi]; exact Lemmas.VolN.volInv_proj hI' hvi hgh
  exact sound_of_inv hP

/-! ### Non-vacuity -/

namespace Example
open Sdmmc.Lemmas.VolExample Sdmmc.Lemmas.VolN.Example2
open Sdmmc.Props.C03Multi.Example (two_volumes two_volumes_mirror ops ops_covered)

/-- On the two-volume state of `Props.C03Multi` (FAT16 + FAT32 on one device) and its history `ops` — creates, writes,
a flush, a `mkdir`, closes, a delete, a refused and a successful `close_volume`, a lookup — the theorem applies after
every call. -/
example (k : Nat) := C03_main ops mgr2 ghs2 two_volumes two_volumes_mirror ops_covered k

/-- From a fresh manager: the start hypotheses hold outright. -/
example (s : Mgr) (hf : s.dev.faults = []) (hcc : ∀ i, s.cache.tag = some i → s.cache.blk = s.dev.disk.get i)
    (hl : s.locked = false) (hv : s.vols = []) (hd : s.dirs = []) (hfl : s.files = []) (ops : List Op)
    (hc : CoveredNRun s ops) (k : Nat) :=
  C03_main ops s [] (Lemmas.Main.fresh_manager_invariant s hf hcc hl hv hd hfl).1
    (Lemmas.Main.fresh_manager_invariant s hf hcc hl hv hd hfl).2 hc k

/-- The invariant is not vacuous the other way either: it rejects a cross-linked file (and an entry after the end marker,
duplicate names, a wrong `..` entry: `Props.C03Inv.Example`). -/
example (gh : Ghost) : ¬ VolInv (mgrWith rootCross sub16Blk) gh := C03Inv.Example.rejects_cross_link gh

end Example

end Sdmmc.Props.C03Main
