/-
C01, tie to the source text, manager level: `VolumeManager::read` (volume_mgr.rs), machine-translated
into `Sdmmc.Gen.FunsMgr`, against `Model.read` / `Model.readLoop`.
-/
import Sdmmc.Gen.FunsMgr
import Sdmmc.Model.Mgr
import Sdmmc.Lemmas.GenMgrIO
import Sdmmc.Props.C01GenM
import Sdmmc.Props.C01GenFind

set_option linter.unusedSimpArgs false

namespace Sdmmc.Props.C01GenRead

open Sdmmc Sdmmc.Model Sdmmc.Gen Sdmmc.Lemmas.GenMgr Sdmmc.Lemmas.GenMgrIO
open Sdmmc.Lemmas.FatOps (BlocksOK)
open Sdmmc.Lemmas (FBasic.bind_apply)
open Sdmmc.Props.C01GenFind (find_data_on_disk_eq flat findDataOnDisk_keeps findDataOnDisk_avail)

/-- The file record with its cached cluster position replaced. -/
def withCC (f : FileInfo) (cc : Nat × Nat) : FileInfo := { f with curClusterOff := cc.1, curCluster := cc.2 }

theorem cacheBlk_apply (fs : FS) : cacheBlk fs = (.ok fs.cache.blk, fs) := rfl

theorem buf_step (acc buffer0 blk : List UInt8) (o tc : Nat)
    (h2 : o + tc ≤ blk.length) :
    List.take acc.length (acc ++ List.drop acc.length buffer0) ++ List.drop o (List.take (o + tc) blk) ++
        List.drop (acc.length + tc) (acc ++ List.drop acc.length buffer0) =
      (acc ++ slice blk o tc) ++ List.drop (acc ++ slice blk o tc).length buffer0 ∧
    (acc ++ slice blk o tc).length = acc.length + tc := by
  have hs : List.drop o (List.take (o + tc) blk) = slice blk o tc := by
    unfold slice
    rw [List.drop_take, Nat.add_sub_cancel_left]
  have hl : (slice blk o tc).length = tc := by
    unfold slice
    rw [List.length_take, List.length_drop]
    omega
  constructor
  · rw [hs, List.take_left', List.length_append, hl, List.drop_append, List.drop_drop]
    simp
    rfl
  · rw [List.length_append, hl]

theorem seek_ok (f2 : FileInfo) (tc : Nat) (hsz : f2.entry.size < 4294967296) (h1 : tc ≤ 512)
    (h2 : f2.currentOffset + tc ≤ f2.entry.size) :
    FunsMgr.FileInfo_seek_from_current f2 (if tc % 4294967296 < 2147483648 then ((tc % 4294967296 : Nat) : Int)
        else ((tc % 4294967296 : Nat) : Int) - 4294967296) =
      (.ok (), { f2 with currentOffset := f2.currentOffset + tc }) := by
  rw [C01GenM.seek_from_current_eq f2 _ hsz]
  have e1 : tc % 4294967296 = tc := Nat.mod_eq_of_lt (by omega)
  rw [e1, if_pos (by omega)]
  unfold FileInfo.seekFromCurrent
  simp only []
  rw [if_neg (by omega)]
  have : ((f2.currentOffset : Int) + (tc : Int)).toNat = f2.currentOffset + tc := by omega
  rw [this]

/-- What `read` hands back for the model's bytes `acc`: the caller's buffer with `acc` in front, the count,
and the room that was left. -/
def outR (buffer0 : List UInt8) (x : Res Bytes × Mgr) : Res (List UInt8 × Nat × Nat) × Mgr :=
  (match x.1 with
   | .ok acc => .ok (acc ++ buffer0.drop acc.length, acc.length, buffer0.length - acc.length)
   | .err e => .err e
   | .panic m => .panic m
   | .diverged => .diverged, x.2)

theorem read_loop_eq (i vi so : Nat) (buffer0 : List UInt8) :
    ∀ (fuelG fuelM : Nat) (s0 s : Mgr) (acc : Bytes) (space : Nat) (f : FileInfo) (v : VolInfo),
      s.files[i]? = some f → s.vols[vi]? = some v → f.entry.size < 4294967296 →
      BlocksOK s.dev.disk → s.cache.blk.length = 512 →
      space < fuelG → space < fuelM → acc.length + space = buffer0.length →
      PEq (FunsMgr.VolumeManager_read_loop1 s0 i vi so fuelG (acc ++ buffer0.drop acc.length, acc.length, space) s)
        (outR buffer0 (readLoop i vi so fuelM space acc s)) := by
  intro fuelG
  induction fuelG with
  | zero => intro _ _ _ _ _ _ _ _ _ _ _ _ h; omega
  | succ fuelG ih =>
    intro fuelM s0 s acc space f v hf hv hsz hbk hbl hG hM hlen
    cases fuelM with
    | zero => omega
    | succ fuelM =>
      rw [FunsMgr.VolumeManager_read_loop1, readLoop]
      simp only [bind_apply, get_apply, getFile_ok s i f hf, pure_apply, ite_apply]
      by_cases hc : space = 0 ∨ f.eof = true
      · have hc' : ¬(space > 0 ∧ ¬FunsMgr.FileInfo_eof f = true) := by
          rw [C01GenM.eof_eq]
          rcases hc with h | h
          · omega
          · intro hh; exact hh.2 h
        rw [if_pos hc', if_pos hc]
        obtain rfl : space = buffer0.length - acc.length := by omega
        exact PEq.of_eq rfl
      · have hc' : ¬¬(space > 0 ∧ ¬FunsMgr.FileInfo_eof f = true) := by
          rw [C01GenM.eof_eq]
          intro hh
          apply hc
          by_cases h0 : space = 0
          · exact .inl h0
          · by_cases he : f.eof = true
            · exact .inr he
            · exact (hh ⟨by omega, he⟩).elim
        rw [if_neg hc', if_neg hc, find_data_on_disk_eq, attempt_apply,
          withVol_keep vi _ s v hv (findDataOnDisk_keeps _ _ _ _).vol]
        have hk := findDataOnDisk_keeps f.entry.cluster f.currentOffset (f.curClusterOff, f.curCluster) (fsOf s v)
        rcases hfd : findDataOnDisk f.entry.cluster f.currentOffset (f.curClusterOff, f.curCluster) (fsOf s v) with ⟨r, fs1⟩
        rw [hfd] at hk
        have hf1 : (upd s fs1).files[i]? = some f := hf
        have hv1 : (upd s fs1).vols[vi]? = some v := hv
        cases r with
        | ok p =>
          obtain ⟨cc, r'⟩ := p
          cases r' with
          | ok x =>
            obtain ⟨b, o, a⟩ := x
            simp only [flat, bind_apply, pure_apply, modifyFile_ok _ i _ f hf1]
            generalize hs2 : setF (upd s fs1) i _ = s2
            have hf2 : s2.files[i]? = some (withCC f cc) := by
              rw [← hs2]; exact setF_files_get _ _ _ _ hf1
            have hv2 : s2.vols[vi]? = some v := by rw [← hs2]; exact hv1
            have hfs2 : fsOf s2 v = fs1 := by rw [← hs2]; exact fsOf_upd s v fs1 hk.vol
            have hkr : KeepsF (cacheRead b >>= fun _ => cacheBlk) :=
              KeepsF.bind (KeepsF.cacheRead _) (fun _ => KeepsF.cacheBlk)
            rw [attempt_apply, attempt_apply, cacheOp_run _ (CacheOnly.cacheRead b) _ v,
              withVol_keep vi _ s2 v hv2 (hkr _).vol, FBasic.bind_apply, hfs2]
            have hk3 := KeepsF.cacheRead b fs1
            have hres := cacheRead_result b fs1
            rcases hcr : cacheRead b fs1 with ⟨rb, fs3⟩
            rw [hcr] at hk3 hres
            have hf3 : (upd s2 fs3).files[i]? = some (withCC f cc) := hf2
            have hv3 : (upd s2 fs3).vols[vi]? = some v := hv2
            cases rb with
            | ok u =>
              simp only [bind_apply, pure_apply, cacheOp_run _ CacheOnly.cacheBlk _ v, cacheBlk_apply,
                getFile_ok _ i _ hf3, upd_fsOf]
              have hl : FunsMgr.FileInfo_left (withCC f cc) = f.left := rfl
              have hb3 : (fsOf (upd s2 fs3) v).cache.blk = fs3.cache.blk := rfl
              rw [hl, hb3]
              have hmin1 : min (min a space) f.left ≤ a := Nat.le_trans (Nat.min_le_left _ _) (Nat.min_le_left _ _)
              have hmin2 : min (min a space) f.left ≤ space := Nat.le_trans (Nat.min_le_left _ _) (Nat.min_le_right _ _)
              have hmin3 : min (min a space) f.left ≤ f.left := Nat.min_le_right _ _
              generalize min (min a space) f.left = tc at hmin1 hmin2 hmin3 ⊢
              by_cases h0 : tc = 0
              · rw [if_neg (fun hh => hh h0), ite_apply, if_pos h0]
                exact PEq.of_eq rfl
              · rw [if_pos h0, ite_apply, if_neg h0]
                obtain ⟨ho, ha⟩ := findDataOnDisk_avail hfd
                have hleft : f.left = f.entry.size - f.currentOffset := rfl
                have hseek := seek_ok (withCC f cc) tc hsz (by omega)
                  (by show f.currentOffset + tc ≤ f.entry.size; omega)
                have hblk3 : fs3.cache.blk.length = 512 :=
                  hk3.blk (by rw [hk.disk]; exact hbk) (hk.blk hbk hbl)
                obtain ⟨hbuf, hlen'⟩ := buf_step acc buffer0 fs3.cache.blk o tc (by omega)
                rw [hseek]
                simp only [setFile_apply, bind_apply, pure_apply, modifyFile_ok _ i _ _ hf3]
                rw [hbuf, ← hlen']
                refine ih fuelM _ _ _ _ _ v (setF_files_get _ _ _ _ hf3) hv3 hsz ?_ hblk3 (by omega) (by omega)
                  (by omega)
                show BlocksOK fs3.dev.disk
                rw [hk3.disk, hk.disk]
                exact hbk
            | err e =>
              rcases hres with h | h
              · cases h
              · cases h
                simp only [bind_apply, get_apply, fail_apply, modifyFile_ok _ i _ _ hf3, Res.bind, lift_apply]
                exact PEq.of_eq rfl
            | panic m => rcases hres with h | h <;> cases h
            | diverged => rcases hres with h | h <;> cases h
          | err e =>
            simp only [flat, bind_apply, get_apply, fail_apply, modifyFile_ok _ i _ f hf1, Res.bind, lift_apply]
            exact PEq.of_eq rfl
          | panic m =>
            simp only [flat, bind_apply, get_apply, fail_apply, modifyFile_ok _ i _ f hf1, Res.bind, lift_apply]
            exact PEq.panic m _ _
          | diverged =>
            simp only [flat, bind_apply, get_apply, fail_apply, modifyFile_ok _ i _ f hf1, Res.bind, lift_apply]
            exact PEq.diverged _ _
        | err e => exact PEq.of_eq rfl
        | panic m => exact PEq.of_eq rfl
        | diverged => exact PEq.of_eq rfl

/-! ### `read` -/

/-- What the Rust caller gets for the model's bytes: the count and the buffer with the bytes in front. -/
def outRead (buffer : List UInt8) (x : Res Bytes × Mgr) : Res (Nat × List UInt8) × Mgr :=
  (match x.1 with
   | .ok acc => .ok (acc.length, acc ++ buffer.drop acc.length)
   | .err e => .err e
   | .panic m => .panic m
   | .diverged => .diverged, x.2)

/-- A borrowed `RefCell` (a directory callback is running): `LockError`, nothing changes. -/
theorem read_locked (fuel file : Nat) (buffer : List UInt8) (s : Mgr) (hl : s.locked = true) :
    FunsMgr.VolumeManager_read fuel file buffer s = (.err .LockError, s) := by
  unfold FunsMgr.VolumeManager_read
  simp only [bind_apply, get_apply, ite_apply, hl, if_true, fail_apply]

/-- `read(file, buffer)` is the model's `read file buffer.len()`: the same outcome, the same state (unless the
outcome is a panic), the count and the bytes placed at the front of the buffer.
Hypotheses: the `RefCell` is free (`read_locked` is the other case); `fuel` exceeds the buffer length (every
iteration copies at least one byte); file sizes are `u32` and blocks are `[u8; 512]` (what the Rust types give). -/
theorem read_eq (fuel file : Nat) (buffer : List UInt8) (s : Mgr) (hl : s.locked = false)
    (hfuel : buffer.length < fuel) (hsz : ∀ f ∈ s.files, f.entry.size < 4294967296)
    (hbk : BlocksOK s.dev.disk) (hbl : s.cache.blk.length = 512) :
    PEq (FunsMgr.VolumeManager_read fuel file buffer s) (outRead buffer (Model.read file buffer.length s)) := by
  unfold FunsMgr.VolumeManager_read Model.read
  simp only [bind_apply, get_apply, ite_apply, hl, Bool.false_eq_true, if_false, C08GenM.get_file_by_id_eq,
    C08GenM.get_volume_by_id_eq]
  have hs1 := getFileById_state file s
  rcases hg : getFileById file s with ⟨r, s1⟩
  rw [hg] at hs1
  simp only at hs1
  subst hs1
  cases r with
  | ok i =>
    obtain ⟨f, hf⟩ := getFileById_valid hg
    simp only [getFile_ok _ i f hf]
    have hs2 := getVolumeById_state f.rawVolume s1
    rcases hgv : getVolumeById f.rawVolume s1 with ⟨r2, s2⟩
    rw [hgv] at hs2
    simp only at hs2
    subst hs2
    cases r2 with
    | ok vi =>
      obtain ⟨v, hv⟩ := getVolumeById_valid hgv
      simp only [getFile_ok _ i f hf]
      have h := read_loop_eq i vi f.currentOffset buffer fuel (buffer.length + 1) s2 s2 [] buffer.length f v hf hv
        (hsz f (List.mem_of_getElem? hf)) hbk hbl hfuel (by omega) (by simp)
      simp only [List.length_nil, List.nil_append, List.drop_zero] at h
      rcases hG : FunsMgr.VolumeManager_read_loop1 s2 i vi f.currentOffset fuel (buffer, 0, buffer.length) s2
        with ⟨rg, sg⟩
      rcases hM : readLoop i vi f.currentOffset (buffer.length + 1) buffer.length [] s2 with ⟨rm, sm⟩
      rw [hG, hM] at h
      obtain ⟨h1, h2⟩ := h
      simp only [outR] at h1 h2
      cases rm with
      | ok acc =>
        subst h1
        simp only [bind_apply, get_apply, pure_apply]
        have := h2 (.inl ⟨_, rfl⟩)
        subst this
        exact PEq.of_eq rfl
      | err e =>
        subst h1
        have := h2 (.inr ⟨_, rfl⟩)
        subst this
        exact PEq.of_eq rfl
      | panic m => subst h1; exact PEq.panic m _ _
      | diverged => subst h1; exact PEq.diverged _ _
    | err e => exact PEq.of_eq rfl
    | panic m => exact PEq.of_eq rfl
    | diverged => exact PEq.of_eq rfl
  | err e => exact PEq.of_eq rfl
  | panic m => exact PEq.of_eq rfl
  | diverged => exact PEq.of_eq rfl

end Sdmmc.Props.C01GenRead
