/-
C16 — Both FAT copies stay identical and the FAT32 free-space record stays truthful.

Property theorems only; helper lemmas live in `Sdmmc.Lemmas.Fat*`.
Model: `Sdmmc.Model.Fat.updateFat`, `patchFatBlock`, `allocCluster`, `updateInfoSector`
(mirror /repo/src/fat/volume.rs) over the device / cache model of `Sdmmc.Model.Dev`.

What is proved here: the byte-level FAT lens (set-then-get, frame, FAT32 top-nibble merge),
that *every* FAT update writes the same payload to both copies and keeps them identical, the
free-count bookkeeping of one allocation, the range of the next-free hint, and the layout of
the info-sector write.  Not proved (`info_accounting` over whole histories): that the stored
count tracks the number of free entries through arbitrary histories — that needs the chain
invariant of C03; the correspondence check and the `info_accounting` oracle cover it by testing.
-/
import Sdmmc.Lemmas.FatLens
import Sdmmc.Lemmas.FatOps

namespace Sdmmc.Props.C16
open Sdmmc.Model Sdmmc.Model.Fat Sdmmc.Spec

/-- No device faults (C16 is about fault-free runs; faults are C11's subject). -/
def NoFault (s : FS) : Prop := s.dev.faults = []
/-- The cache, when tagged, holds what the medium holds. -/
def Coherent (s : FS) : Prop := ∀ i, s.cache.tag = some i → s.cache.blk = s.dev.disk.get i
/-- Blocks have their size. -/
def BlocksOK (d : Disk) : Prop := ∀ i, (d.get i).length = 512

/-- FAT copy 2 is block-for-block identical to copy 1 (on the blocks that hold entries of the
volume's clusters). -/
def Mirror (v : FatVolume) (d : Disk) : Prop :=
  ∀ c, c < endCluster v → ∀ b2, fatBlock2 v c = some b2 → d.get b2 = d.get (fatBlock v c)

/-! ### The byte-level FAT lens -/

theorem patch_length (ft : FatType) (blk : Block) (off val : Nat) (hl : blk.length = 512)
    (ho : off + entryWidth ft ≤ 512) : (patchFatBlock ft blk off val).length = 512 :=
  Lemmas.FatLens.patch_length ft blk off val hl ho

/-- FAT16: reading back the patched entry gives the 16-bit code of the value written. -/
theorem patch_get_fat16 (blk : Block) (off val : Nat) (hl : blk.length = 512) (ho : off + 2 ≤ 512) :
    rawFatEntry .fat16 (patchFatBlock .fat16 blk off val) off = fat16Entry val :=
  Lemmas.FatLens.patch_get_fat16 blk off val hl ho

/-- FAT32: the low 28 bits are the value written, the top four bits are those that were there. -/
theorem patch_get_fat32 (blk : Block) (off val : Nat) (hl : blk.length = 512) (ho : off + 4 ≤ 512) :
    rawFatEntry .fat32 (patchFatBlock .fat32 blk off val) off =
      readU32 blk off / 268435456 * 268435456 + fat32Entry val % 268435456 :=
  Lemmas.FatLens.patch_get_fat32 blk off val hl ho

/-- Frame: every byte outside the entry is preserved (so are all other entries of the sector). -/
theorem patch_frame (ft : FatType) (blk : Block) (off val i : Nat) (hl : blk.length = 512)
    (ho : off + entryWidth ft ≤ 512) (hi : i < off ∨ off + entryWidth ft ≤ i) :
    (patchFatBlock ft blk off val).getD i 0 = blk.getD i 0 :=
  Lemmas.FatLens.patch_frame ft blk off val i hl ho hi

theorem patch_get_other (ft : FatType) (blk : Block) (off off' val : Nat) (hl : blk.length = 512)
    (ho : off + entryWidth ft ≤ 512) (hd : off + entryWidth ft ≤ off' ∨ off' + entryWidth ft ≤ off) :
    rawFatEntry ft (patchFatBlock ft blk off val) off' = rawFatEntry ft blk off' :=
  Lemmas.FatLens.patch_get_other ft blk off off' val hl ho hd

/-- What the walk sees after an update: an end-of-chain mark reads as end of file, a link to an
in-range cluster reads as that cluster, a freed entry is free. -/
theorem decode_after_patch (ft : FatType) (blk : Block) (off : Nat) (hl : blk.length = 512)
    (ho : off + entryWidth ft ≤ 512) :
    decodeNext ft (rawFatEntry ft (patchFatBlock ft blk off Gen.CLUSTER_END_OF_FILE) off) = .err .EndOfFile ∧
    (∀ n, 2 ≤ n → n < (match ft with | .fat16 => 0xFFF7 | .fat32 => 0x0FFFFFF7) →
      decodeNext ft (rawFatEntry ft (patchFatBlock ft blk off n) off) = .ok n) ∧
    (match ft with
      | .fat16 => rawFatEntry .fat16 (patchFatBlock .fat16 blk off Gen.CLUSTER_EMPTY) off = 0
      | .fat32 => rawFatEntry .fat32 (patchFatBlock .fat32 blk off Gen.CLUSTER_EMPTY) off % 268435456 = 0) :=
  Lemmas.FatLens.decode_after_patch ft blk off hl ho

/-! ### Every FAT update goes to both copies -/

/-- `update_fat` reads the sector (through the cache), patches one entry and writes the *same*
payload to copy 1 and, when there is one, to copy 2 — in that order, and nothing else. -/
theorem updateFat_writes (s : FS) (c val : Nat) (hn : NoFault s) (hc : Coherent s) :
    let s' := (updateFat c val s).2
    let p := patchFatBlock s.vol.fatType (s.dev.disk.get (fatBlock s.vol c)) (fatEntOffset s.vol c) val
    (updateFat c val s).1 = .ok () ∧ Coherent s' ∧ NoFault s' ∧ s'.vol = s.vol ∧
    (match fatBlock2 s.vol c with
      | none => s'.dev.wlog = (fatBlock s.vol c, p) :: s.dev.wlog ∧ s'.dev.disk = s.dev.disk.set (fatBlock s.vol c) p
      | some b2 => s'.dev.wlog = (b2, p) :: (fatBlock s.vol c, p) :: s.dev.wlog ∧
                   s'.dev.disk = (s.dev.disk.set (fatBlock s.vol c) p).set b2 p) :=
  Lemmas.FatOps.updateFat_writes s c val hn hc

/-- The mirror invariant is preserved by every FAT update (geometry: copy 2 lies after the used
part of copy 1). -/
theorem updateFat_mirror (s : FS) (c val : Nat) (hn : NoFault s) (hc : Coherent s) (hg : WFGeom s.vol)
    (hcl : c < endCluster s.vol) (hm : Mirror s.vol s.dev.disk) :
    Mirror s.vol (updateFat c val s).2.dev.disk :=
  Lemmas.FatOps.updateFat_mirror s c val hn hc hg hcl hm

/-! ### Free-space record -/

/-- One successful allocation decrements the in-memory free count by exactly one (saturating at
zero for a stale record) and leaves "unknown" unknown. -/
theorem alloc_count (s s' : FS) (prev : Option Nat) (zero : Bool) (c : Nat)
    (h : allocCluster prev zero s = (.ok c, s')) :
    s'.vol.freeClustersCount = s.vol.freeClustersCount.map (· - 1) :=
  Lemmas.FatOps.alloc_count s s' prev zero c h

/-- After a successful allocation the next-free hint is unknown or a cluster inside the volume. -/
theorem alloc_hint_in_range (s s' : FS) (prev : Option Nat) (zero : Bool) (c : Nat)
    (hn : NoFault s) (hc : Coherent s) (hh : ∀ n, s.vol.nextFreeCluster = some n → 2 ≤ n)
    (h : allocCluster prev zero s = (.ok c, s')) :
    s'.vol.nextFreeCluster = none ∨ ∃ n, s'.vol.nextFreeCluster = some n ∧ 2 ≤ n ∧ n < endCluster s.vol :=
  Lemmas.FatOps.alloc_hint_in_range s s' prev zero c hn hc hh h

/-- A stale count never changes what an allocation does to the medium or what it returns: the
count is written, never read. -/
theorem alloc_count_noninterference (s : FS) (prev : Option Nat) (zero : Bool) (n : Option Nat) :
    let s2 : FS := { s with vol := { s.vol with freeClustersCount := n } }
    (allocCluster prev zero s2).1 = (allocCluster prev zero s).1 ∧
    (allocCluster prev zero s2).2.dev = (allocCluster prev zero s).2.dev ∧
    (allocCluster prev zero s2).2.cache = (allocCluster prev zero s).2.cache :=
  Lemmas.FatOps.alloc_count_noninterference s prev zero n

/-- The info-sector update touches bytes 488..495 only, writes the in-memory record, and does
nothing at all on FAT16 or when both values are unknown. -/
theorem updateInfoSector_writes (s : FS) (hn : NoFault s) (hc : Coherent s) (hb : BlocksOK s.dev.disk) :
    let s' := (updateInfoSector s).2
    (updateInfoSector s).1 = .ok () ∧
    (s.vol.fatType = .fat16 ∨ (s.vol.freeClustersCount = none ∧ s.vol.nextFreeCluster = none) → s'.dev.wlog = s.dev.wlog) ∧
    (s.vol.fatType = .fat32 → ¬ (s.vol.freeClustersCount = none ∧ s.vol.nextFreeCluster = none) →
      ∃ p, s'.dev.wlog = (s.vol.infoLocation, p) :: s.dev.wlog ∧ p.length = 512 ∧
        (∀ i, i < 488 ∨ 496 ≤ i → p.getD i 0 = (s.dev.disk.get s.vol.infoLocation).getD i 0) ∧
        (∀ n, s.vol.freeClustersCount = some n → n < 4294967296 → readU32 p 488 = n) ∧
        (∀ n, s.vol.nextFreeCluster = some n → n < 4294967296 → readU32 p 492 = n)) :=
  Lemmas.FatOps.updateInfoSector_writes s hn hc hb

end Sdmmc.Props.C16
