/-
C16 at the API level — "both FAT copies stay identical and the FAT32 free-space record stays
truthful", for the calls a user makes: `write`, `flush_file`, `close_file`, `close_volume`, and the
next mount.

Property theorems only; the proofs are in `Sdmmc.Lemmas.Acct*`:
`AcctBase` (the accounting relation, one allocation), `AcctLoop` / `AcctWrite` (`write`),
`AcctIndep` / `AcctOutcome` (what `write` does not read), `AcctInfo` (the info sector, mounting),
`AcctSession` / `AcctClose` / `AcctFinal` / `AcctSpelled` (sessions).
Builds on `Props/C16.lean` (one FAT update, one allocation), `Props/C01Write.lean` (`write` refines
the byte-array model), `Props/C02Reopen.lean` (flush, mount).

STATUS: B1, B2, B3, B4 PROVED (none `_partial`).

What is proved
* `write_accounting` (B1) — `write`, with its refinement hypotheses: the file ends with a chain `k`
  clusters longer, and `Took … k`: both FAT copies still identical, the in-memory count went down
  by `k` (unknown stays unknown, exact stays exact: `took_exact`), the number of free FAT entries
  went down by exactly `k`, the hint is untouched (`k = 0`) or unknown / a data cluster.
* `record_read_back`, `flush_stores_record`, `close_volume_stores_record`,
  `mount_reads_stored_record` (B2) — `flush_file` of a dirty file and `close_volume` store the
  in-memory pair in words 488 / 492 of the FAT32 info sector (`Stores`; nothing on FAT16; an unknown
  field leaves its word alone; no other block but the file's directory block changes), and mounting
  reads it back with the normalisation `normCount` / `normHint`.
* `count_truthful_after_close`, `no_allocation_record_unchanged`,
  `read_only_session_record_unchanged` (B3) — a whole session on a mounted FAT32 volume.
* `write_never_reads_count`, `write_outcome_by_free_space`, `stale_record_harmless` (B4).

Hypotheses the proofs forced, and the excluded points
* `HintOK` (in-memory hint ≥ 2) — mounting establishes it (`normHint`); `Example.hint_zero`
  evaluates a write with the hint 0.
* `RecordFits` (both fields below 2^32) — they are `u32` in the crate; not a restriction.
* `count_truthful_after_close` asks that the directory slot of every open file lies in a directory
  block (`SlotOK`: data area or FAT16 root region) — a slot inside the FAT or the info sector would
  make `flush_file` overwrite them.
* The hint after a session is NOT always a data cluster of the volume: mounting accepts any stored
  hint except `0`, `1`, `0xFFFFFFFF`; a session that allocates nothing writes it back unchanged
  (`no_allocation_record_unchanged`, `Example.hint_out_of_range_written_back`); the first allocation
  replaces it by a data cluster or "unknown" (`Example.stale_hint_repaired`).
-/
import Sdmmc.Lemmas.AcctSpelled
import Sdmmc.Props.C01Write
import Sdmmc.Props.C02Reopen

namespace Sdmmc.Props.C16Api
open Sdmmc.Model Sdmmc.Model.Fat Sdmmc.Spec Sdmmc.Spec.DataPlane
open Sdmmc.Props.C01Read (MgrOK)

/-! ### Vocabulary -/

/-- The hint is unknown or a data cluster of the volume. -/
def HintIn (v : FatVolume) (h : Option Nat) : Prop := h = none ∨ ∃ n, h = some n ∧ 2 ≤ n ∧ n < endCluster v

/-- From `(v, d)` to `(v', d')`, `k` clusters were taken: FAT copy 2 still mirrors copy 1; the
in-memory free count went down by `k` (saturating; unknown stays unknown); the number of free FAT
entries went down by exactly `k`; the next-free hint is untouched if `k = 0` and unknown or a data
cluster of the volume otherwise. -/
structure Took (v v' : FatVolume) (d d' : Disk) (k : Nat) : Prop where
  mirror : Mirror v d → Mirror v d'
  count : v'.freeClustersCount = v.freeClustersCount.map (· - k)
  free : freeCount v d' + k = freeCount v d
  hintSame : k = 0 → v'.nextFreeCluster = v.nextFreeCluster
  hintIn : 0 < k → HintIn v v'.nextFreeCluster

/-- How mounting reads a stored free count: `0xFFFFFFFF` means unknown. -/
def normCount (n : Nat) : Option Nat := if n = 0xFFFFFFFF then none else some n
/-- How mounting reads a stored next-free hint: `0xFFFFFFFF`, `0` and `1` mean unknown. -/
def normHint (n : Nat) : Option Nat := if n = 0xFFFFFFFF ∨ n = 0 ∨ n = 1 then none else some n

/-- Both fields of the record fit the 32-bit words of the info sector. -/
structure RecordFits (v : FatVolume) : Prop where
  count : ∀ n, v.freeClustersCount = some n → n < 4294967296
  hint : ∀ n, v.nextFreeCluster = some n → n < 4294967296

/-- `b'` is the info sector `b` with the record of `v` stored in it: the little-endian word at 488 is
the free count and the word at 492 the next-free hint — each only if known, an unknown field leaves
its word alone — and every other byte is the same. -/
structure Stores (v : FatVolume) (b b' : Block) : Prop where
  len : b'.length = 512
  others : ∀ i, i < 488 ∨ 496 ≤ i → b'.getD i 0 = b.getD i 0
  countSome : ∀ n, v.freeClustersCount = some n → readU32 b' 488 = n
  countNone : v.freeClustersCount = none → readU32 b' 488 = readU32 b 488
  hintSome : ∀ n, v.nextFreeCluster = some n → readU32 b' 492 = n
  hintNone : v.nextFreeCluster = none → readU32 b' 492 = readU32 b 492

/-- The directory slot of an open file: the file belongs to volume `vol`; the slot lies inside its
block, the name has its 11 bytes, and the block is a directory block (data area or FAT16 root
region). -/
structure SlotOK (w : FatVolume) (vol : Nat) (f : FileInfo) : Prop where
  vol : f.rawVolume = vol
  off : f.entry.entryOffset + 32 ≤ 512
  name : f.entry.name.length = 11
  region : regionOf w f.entry.entryBlock = .data ∨ regionOf w f.entry.entryBlock = .root

/-- The calls of the closing phase of a session. -/
def IsCloseOp : Op → Prop
  | .flush _ | .closeFile _ => True
  | _ => False

/-- The call is a `write`. -/
def IsWrite : Op → Prop
  | .write _ _ => True
  | _ => False

instance (op : Op) : Decidable (IsCloseOp op) := by
  cases op <;> unfold IsCloseOp <;> infer_instance
instance (op : Op) : Decidable (IsWrite op) := by
  cases op <;> unfold IsWrite <;> infer_instance

/-- `s` with the free count of the volume in slot `vi` replaced by `n`. -/
def setCount (vi : Nat) (n : Option Nat) (s : Mgr) : Mgr :=
  { s with vols := s.vols.modify vi fun x => { x with vol := { x.vol with freeClustersCount := n } } }

/-- The capacity the file can reach: its chain plus every free cluster of the volume. -/
def reach (v : FatVolume) (d : Disk) (cs : List Nat) : Nat := (cs.length + freeCount v d) * clusterBytesLen v

/-- The answer `write` gives, as a function of the free space. -/
def outcome (v : FatVolume) (d : Disk) (cs : List Nat) (o len : Nat) : Res Unit :=
  if cs = [] ∧ freeCount v d = 0 then .err .NotEnoughSpace
  else if o + len ≤ reach v d cs then .ok () else .err .DiskFull

/-- The number of bytes `write` stores, as a function of the free space. -/
def stored (v : FatVolume) (d : Disk) (cs : List Nat) (o len : Nat) : Nat :=
  if cs = [] ∧ freeCount v d = 0 then 0 else min len (reach v d cs - o)

/-! ### B1. `write` -/

/-- **`write` with its accounting.**  Under the hypotheses of `C01Write.write_refines` (`h` an open,
writable handle in slot `i` with record `f`, consistent with the medium along the chain `cs`; its
volume in slot `vi`; `cs`, `A`, `B` the chains of the volume): in the state `write` leaves, slot `i`
holds a record `f'` consistent with a chain `cs'` (the one `write_refines` speaks of: a consistent
record has one chain) that is `k` clusters longer than `cs`, the volume record `v'` has the same
geometry, and `k` clusters were taken (`Took`). -/
theorem write_accounting (s : Mgr) (h i vi : Nat) (data : Bytes) (f : FileInfo) (v : VolInfo) (cs : List Nat)
    (A B : List (List Nat)) (hs : MgrOK s)
    (hh : s.files.findIdx? (·.rawFile = h) = some i) (hf : s.files[i]? = some f)
    (hv : s.vols.findIdx? (·.rawVolume = f.rawVolume) = some vi) (hvi : s.vols[vi]? = some v)
    (hmode : f.mode ≠ .ReadOnly) (hg : WFGeom v.vol) (hhint : HintOK v.vol)
    (hok : FileOK v.vol s.dev.disk f cs) (hcur : cs = [] → f.curCluster < 2)
    (hown : Owns v.vol s.dev.disk (withChain A cs B)) :
    ∃ f' v' cs' k, (write h data s).2.files[i]? = some f' ∧ (write h data s).2.vols[vi]? = some v' ∧
      FileOK v'.vol (write h data s).2.dev.disk f' cs' ∧ SameGeom v.vol v'.vol ∧ cs'.length = cs.length + k ∧
      Took v.vol v'.vol s.dev.disk (write h data s).2.dev.disk k := by
  obtain ⟨f', v', cs', k, h1, h2, h3, h4, h5, h6, _, _⟩ :=
    Lemmas.Acct.write_acct s h i vi data f v cs A B hs hh hf hv hvi hmode hg hhint hok hcur hown
  exact ⟨f', v', cs', k, h1, h2, h3, h4, h5, ⟨h6.mirror, h6.count, h6.free, h6.hint0, h6.hint⟩⟩

/-- A consistent record has one chain: the `cs'` of `write_accounting` is the `cs'` of
`C01Write.write_refines`. -/
theorem chain_unique {v : FatVolume} {d : Disk} {f : FileInfo} {cs1 cs2 : List Nat}
    (h1 : FileOK v d f cs1) (h2 : FileOK v d f cs2) : cs1 = cs2 :=
  Lemmas.Acct.fileOK_chain_unique h1 h2

/-- Exact stays exact, unknown stays unknown. -/
theorem took_exact {v v' : FatVolume} {d d' : Disk} {k : Nat} (h : Took v v' d d' k) :
    (v.freeClustersCount = some (freeCount v d) → v'.freeClustersCount = some (freeCount v d')) ∧
    (v.freeClustersCount = none → v'.freeClustersCount = none) :=
  Lemmas.Acct.Acct.exact (⟨h.mirror, h.count, h.free, h.hintSame, h.hintIn⟩ : Lemmas.Acct.Acct v v' d d' k)

/-! ### B2. The info sector -/

/-- **What mounting reads from a sector the record was stored in.**  If `b` reads (signatures
intact) as `(fc0, nf0)`, then `b'` reads as: the stored count / hint, normalised, where the field was
known; what `b` read where it was not. -/
theorem record_read_back {v : FatVolume} {b b' : Block} (hst : Stores v b b') (fc0 nf0 : Option Nat)
    (hp : Info.parse b = .ok (fc0, nf0)) :
    ∃ fc nf, Info.parse b' = .ok (fc, nf) ∧
      (∀ n, v.freeClustersCount = some n → fc = normCount n) ∧ (v.freeClustersCount = none → fc = fc0) ∧
      (∀ n, v.nextFreeCluster = some n → nf = normHint n) ∧ (v.nextFreeCluster = none → nf = nf0) :=
  Lemmas.Acct.stores_parse_spelled
    (⟨hst.len, hst.others, hst.countSome, hst.countNone, hst.hintSome, hst.hintNone⟩ : Lemmas.Acct.Stores v b b') fc0 nf0 hp

/-- **`flush_file` stores the record.**  `h` is an open handle (slot `i`, record `f`, dirty) on the
open volume `v` (slot `vi`); the `assert!` on "size without cluster" does not fire; the directory
slot lies inside its block, which is not the info sector.  Then the call succeeds, no table changes,
no block but the directory block and the info sector changes, and the info sector has the record
stored in it (FAT32) or is unchanged (FAT16). -/
theorem flush_stores_record (s : Mgr) (h i vi : Nat) (f : FileInfo) (v : VolInfo)
    (hs : MgrOK s) (hh : s.files.findIdx? (·.rawFile = h) = some i) (hf : s.files[i]? = some f)
    (hv : s.vols.findIdx? (·.rawVolume = f.rawVolume) = some vi) (hvi : s.vols[vi]? = some v)
    (hd : f.dirty = true) (hassert : ¬ (f.entry.size ≠ 0 ∧ f.entry.cluster = 0))
    (ho : f.entry.entryOffset + 32 ≤ 512) (hname : f.entry.name.length = 11)
    (hne : f.entry.entryBlock ≠ v.vol.infoLocation) (hfit : RecordFits v.vol) :
    ∃ s1, flushFile h s = (.ok (), s1) ∧ s1 = { s with dev := s1.dev, cache := s1.cache } ∧ MgrOK s1 ∧
      (∀ b, b ≠ f.entry.entryBlock → b ≠ v.vol.infoLocation → s1.dev.disk.get b = s.dev.disk.get b) ∧
      (v.vol.fatType = .fat32 → Stores v.vol (s.dev.disk.get v.vol.infoLocation) (s1.dev.disk.get v.vol.infoLocation)) ∧
      (v.vol.fatType = .fat16 → s1.dev.disk.get v.vol.infoLocation = s.dev.disk.get v.vol.infoLocation) := by
  obtain ⟨s1, h1, h2, h3, h4, h5, h6⟩ :=
    Lemmas.Acct.flush_stores s h i vi f v hs hh hf hv hvi hd hassert ho hname hne ⟨hfit.count, hfit.hint⟩
  exact ⟨s1, h1, h2, h3, h4,
    fun h32 => ⟨(h5 h32).len, (h5 h32).others, (h5 h32).countSome, (h5 h32).countNone, (h5 h32).hintSome, (h5 h32).hintNone⟩, h6⟩

/-- **`close_volume` stores the record.**  No file and no directory of the volume is open.  Then the
call succeeds, the volume's record leaves the table (`swap_remove`), no block but the info sector
changes, and the info sector has the record stored in it (FAT32); on FAT16 the medium is
untouched. -/
theorem close_volume_stores_record (s : Mgr) (vol vi : Nat) (v : VolInfo) (hs : MgrOK s)
    (hfiles : s.files.any (·.rawVolume = vol) = false) (hdirs : s.dirs.any (·.rawVolume = vol) = false)
    (hv : s.vols.findIdx? (·.rawVolume = vol) = some vi) (hvi : s.vols[vi]? = some v) (hfit : RecordFits v.vol) :
    ∃ s1, closeVolume vol s = (.ok (), s1) ∧
      s1 = { s with dev := s1.dev, cache := s1.cache, vols := swapRemove s.vols vi } ∧ MgrOK s1 ∧
      (∀ b, b ≠ v.vol.infoLocation → s1.dev.disk.get b = s.dev.disk.get b) ∧
      (v.vol.fatType = .fat32 → Stores v.vol (s.dev.disk.get v.vol.infoLocation) (s1.dev.disk.get v.vol.infoLocation)) ∧
      (v.vol.fatType = .fat16 → ∀ j, s1.dev.disk.get j = s.dev.disk.get j) := by
  obtain ⟨s1, h1, h2, h3, h4, h5, h6⟩ :=
    Lemmas.Acct.closeVolume_stores s vol vi v hs hfiles hdirs hv hvi ⟨hfit.count, hfit.hint⟩
  exact ⟨s1, h1, h2, h3, h4,
    fun h32 => ⟨(h5 h32).len, (h5 h32).others, (h5 h32).countSome, (h5 h32).countNone, (h5 h32).hintSome, (h5 h32).hintNone⟩, h6⟩

/-- **Mounting reads the stored record.**  `d` mounts as the FAT32 record `w`; `d'` agrees with `d` on
block 0 and on the boot sector, and its info sector is `d`'s with the record of `v` stored in it.  Then
`d'` mounts as `w` with the pair: the stored count / hint, normalised (`0xFFFFFFFF ↦` unknown; hint
`0`, `1 ↦` unknown), where `v` knew the field; what the first mount read where it did not. -/
theorem mount_reads_stored_record (d d' : Disk) (idx : Nat) (w v : FatVolume)
    (hm : mountPure (d.get 0) idx d.get = .ok w) (h32 : w.fatType = .fat32)
    (h0 : d'.get 0 = d.get 0) (hboot : d'.get w.lbaStart = d.get w.lbaStart)
    (hst : Stores v (d.get w.infoLocation) (d'.get w.infoLocation)) :
    ∃ fc nf, mountPure (d'.get 0) idx d'.get = .ok { w with freeClustersCount := fc, nextFreeCluster := nf } ∧
      (∀ n, v.freeClustersCount = some n → fc = normCount n) ∧ (v.freeClustersCount = none → fc = w.freeClustersCount) ∧
      (∀ n, v.nextFreeCluster = some n → nf = normHint n) ∧ (v.nextFreeCluster = none → nf = w.nextFreeCluster) :=
  Lemmas.Acct.mount_reads_stored_spelled d d' idx w v hm h32 h0 hboot
    ⟨hst.len, hst.others, hst.countSome, hst.countNone, hst.hintSome, hst.hintNone⟩

/-! ### B3. A session -/

/-- **The stored count is truthful after a session.**  `s` has exactly one open volume — FAT32,
its in-memory record `w = theVol s` being what mounting the medium gives (`hm`) — and open files
that satisfy the data-plane invariant of `C01Write` (`DataInv`: consistent with the medium, their
chains and `rest` being the chains of the volume) and whose directory slots lie in directory blocks
(`SlotOK`).  The user makes any data-plane calls `ops1` (`read`, `write`, seeks, observers), then
any `flush_file` / `close_file` calls `ops2`, then `close_volume`, which answers `Ok` (so every file
was closed and no directory is open); `s3` is the final state.  Then there is a number `k` — the
clusters taken — such that:

* mounting the final medium succeeds with a record `w'` of the same geometry; no volume is open;
* the number of free FAT entries went down by exactly `k`; FAT copy 2 still mirrors copy 1;
* the stored count is the mounted count minus `k`: exact if it was exact, unknown if it was unknown;
* the stored hint is the mounted hint if `k = 0`; in any case it is the mounted hint, unknown, or a
  data cluster of the volume. -/
theorem count_truthful_after_close (s : Mgr) (chains rest : List (List Nat)) (idx : Nat) (ops1 ops2 : List Op)
    (hinv : DataInv s chains rest)
    (hm : mountPure (s.dev.disk.get 0) idx s.dev.disk.get = .ok (theVol s)) (h32 : (theVol s).fatType = .fat32)
    (hslots : ∀ f, f ∈ s.files → SlotOK (theVol s) (s.vols.headD default).rawVolume f)
    (h1 : ∀ op, op ∈ ops1 → IsDataOp op) (h2 : ∀ op, op ∈ ops2 → IsCloseOp op) (s3 : Mgr)
    (hs3 : s3 = (step (run (run s ops1).1 ops2).1 (.closeVolume (s.vols.headD default).rawVolume)).1)
    (hok : (step (run (run s ops1).1 ops2).1 (.closeVolume (s.vols.headD default).rawVolume)).2.result = .ok .unit) :
    ∃ k w', mountPure (s3.dev.disk.get 0) idx s3.dev.disk.get = .ok w' ∧ SameGeom (theVol s) w' ∧ s3.vols = [] ∧
      freeCount (theVol s) s3.dev.disk + k = freeCount (theVol s) s.dev.disk ∧
      (Mirror (theVol s) s.dev.disk → Mirror (theVol s) s3.dev.disk) ∧
      w'.freeClustersCount = (theVol s).freeClustersCount.map (· - k) ∧
      ((theVol s).freeClustersCount = some (freeCount (theVol s) s.dev.disk) →
        w'.freeClustersCount = some (freeCount (theVol s) s3.dev.disk)) ∧
      ((theVol s).freeClustersCount = none → w'.freeClustersCount = none) ∧
      (k = 0 → w'.nextFreeCluster = (theVol s).nextFreeCluster) ∧
      (w'.nextFreeCluster = (theVol s).nextFreeCluster ∨ HintIn (theVol s) w'.nextFreeCluster) :=
  Lemmas.Acct.session_spelled s chains rest idx ops1 ops2 hinv hm h32
    (fun f hf => ⟨(hslots f hf).vol, (hslots f hf).off, (hslots f hf).name, (hslots f hf).region⟩) h1
    (fun op hop => by have := h2 op hop; cases op <;> first | exact trivial | exact this) s3 hs3 hok

/-- The history `ops1 ++ ops2 ++ [close_volume]` run in one go is the staged run above. -/
theorem session_is_one_history (s : Mgr) (ops1 ops2 : List Op) (vol : Nat) :
    (run s (ops1 ++ ops2 ++ [.closeVolume vol])).1 = (step (run (run s ops1).1 ops2).1 (.closeVolume vol)).1 := by
  rw [Lemmas.Acct.run_append, Lemmas.Acct.run_append]; rfl

/-- **A session that takes no cluster leaves the record exactly as mounted** — count and hint,
whatever they are: in particular a hint that is no data cluster of the volume (mounting accepts every
stored hint but `0`, `1`, `0xFFFFFFFF`) is written back unchanged.  Same hypotheses; the number of
free FAT entries is the same at the end. -/
theorem no_allocation_record_unchanged (s : Mgr) (chains rest : List (List Nat)) (idx : Nat) (ops1 ops2 : List Op)
    (hinv : DataInv s chains rest)
    (hm : mountPure (s.dev.disk.get 0) idx s.dev.disk.get = .ok (theVol s)) (h32 : (theVol s).fatType = .fat32)
    (hslots : ∀ f, f ∈ s.files → SlotOK (theVol s) (s.vols.headD default).rawVolume f)
    (h1 : ∀ op, op ∈ ops1 → IsDataOp op) (h2 : ∀ op, op ∈ ops2 → IsCloseOp op) (s3 : Mgr)
    (hs3 : s3 = (step (run (run s ops1).1 ops2).1 (.closeVolume (s.vols.headD default).rawVolume)).1)
    (hok : (step (run (run s ops1).1 ops2).1 (.closeVolume (s.vols.headD default).rawVolume)).2.result = .ok .unit)
    (hsame : freeCount (theVol s) s3.dev.disk = freeCount (theVol s) s.dev.disk) :
    mountPure (s3.dev.disk.get 0) idx s3.dev.disk.get = .ok (theVol s) :=
  Lemmas.Acct.session_no_alloc s chains rest idx ops1 ops2 hinv hm h32
    (fun f hf => ⟨(hslots f hf).vol, (hslots f hf).off, (hslots f hf).name, (hslots f hf).region⟩) h1
    (fun op hop => by have := h2 op hop; cases op <;> first | exact trivial | exact this) s3 hs3 hok hsame

/-- **A session without a `write` leaves the record exactly as mounted** and the number of free FAT
entries as it was. -/
theorem read_only_session_record_unchanged (s : Mgr) (chains rest : List (List Nat)) (idx : Nat) (ops1 ops2 : List Op)
    (hinv : DataInv s chains rest)
    (hm : mountPure (s.dev.disk.get 0) idx s.dev.disk.get = .ok (theVol s)) (h32 : (theVol s).fatType = .fat32)
    (hslots : ∀ f, f ∈ s.files → SlotOK (theVol s) (s.vols.headD default).rawVolume f)
    (h1 : ∀ op, op ∈ ops1 → IsDataOp op) (hnw : ∀ op, op ∈ ops1 → ¬ IsWrite op)
    (h2 : ∀ op, op ∈ ops2 → IsCloseOp op) (s3 : Mgr)
    (hs3 : s3 = (step (run (run s ops1).1 ops2).1 (.closeVolume (s.vols.headD default).rawVolume)).1)
    (hok : (step (run (run s ops1).1 ops2).1 (.closeVolume (s.vols.headD default).rawVolume)).2.result = .ok .unit) :
    mountPure (s3.dev.disk.get 0) idx s3.dev.disk.get = .ok (theVol s) ∧
    freeCount (theVol s) s3.dev.disk = freeCount (theVol s) s.dev.disk :=
  Lemmas.Acct.session_read_only s chains rest idx ops1 ops2 hinv hm h32
    (fun f hf => ⟨(hslots f hf).vol, (hslots f hf).off, (hslots f hf).name, (hslots f hf).region⟩) h1
    (fun op hop hw => hnw op hop (by cases op <;> first | exact trivial | exact hw))
    (fun op hop => by have := h2 op hop; cases op <;> first | exact trivial | exact this) s3 hs3 hok

/-! ### B4. A stale record is harmless -/

/-- **The free count is never read by `write`.**  `h` is an open handle whose volume is in slot
`vi`.  Replacing the in-memory free count of that volume by ANY value `n` changes nothing about what
`write` does: the outcome is the same, and the end state is the same up to the free count of slot
`vi` — medium, write log, cache, file table (so: the chain the file ends up with), every other field
of every volume record. -/
theorem write_never_reads_count (s : Mgr) (h i vi : Nat) (data : Bytes) (f : FileInfo) (n : Option Nat)
    (hh : s.files.findIdx? (·.rawFile = h) = some i) (hf : s.files[i]? = some f)
    (hv : s.vols.findIdx? (·.rawVolume = f.rawVolume) = some vi) :
    ∃ n', write h data (setCount vi n s) = ((write h data s).1, setCount vi n' (write h data s).2) :=
  Lemmas.Acct.write_count_indep s h i vi data f n hh hf hv

/-- **The outcome of `write` is a function of the free space.**  Under the hypotheses of
`C01Write.write_refines` (the write staying below `MAX_FILE_SIZE`): the answer is `outcome …` —
never a panic —, and the byte-array view afterwards is the model's `write` of the first `stored …`
bytes: both are functions of the chain length, the number of free FAT entries, the cluster size,
the offset and the amount of data — not of the in-memory count or hint. -/
theorem write_outcome_by_free_space (s : Mgr) (h i vi : Nat) (data : Bytes) (f : FileInfo) (v : VolInfo) (cs : List Nat)
    (A B : List (List Nat)) (hs : MgrOK s)
    (hh : s.files.findIdx? (·.rawFile = h) = some i) (hf : s.files[i]? = some f)
    (hv : s.vols.findIdx? (·.rawVolume = f.rawVolume) = some vi) (hvi : s.vols[vi]? = some v)
    (hmode : f.mode ≠ .ReadOnly) (hg : WFGeom v.vol) (hhint : HintOK v.vol)
    (hok : FileOK v.vol s.dev.disk f cs) (hcur : cs = [] → f.curCluster < 2)
    (hown : Owns v.vol s.dev.disk (withChain A cs B))
    (hmax : f.currentOffset + data.length ≤ Gen.MAX_FILE_SIZE) :
    (write h data s).1 = outcome v.vol s.dev.disk cs f.currentOffset data.length ∧
    ∃ f' v' cs', (write h data s).2.files[i]? = some f' ∧ (write h data s).2.vols[vi]? = some v' ∧
      FileOK v'.vol (write h data s).2.dev.disk f' cs' ∧
      absFile v'.vol (write h data s).2.dev.disk f' cs' =
        (absFile v.vol s.dev.disk f cs).write (data.take (stored v.vol s.dev.disk cs f.currentOffset data.length)) :=
  Lemmas.Acct.write_outcome s h i vi data f v cs A B hs hh hf hv hvi hmode hg hhint hok hcur hown hmax

/-- **A stale or absurd free-space record is harmless.**  Replace the record of the volume written
to by ANY free count `cnt` and ANY next-free hint `hint` that names no reserved entry (what mounting
can produce): `write` answers the same — `outcome …`, a function of the medium — and so stores the
same number of bytes. -/
theorem stale_record_harmless (s : Mgr) (h i vi : Nat) (data : Bytes) (f : FileInfo) (v : VolInfo) (cs : List Nat)
    (A B : List (List Nat)) (hs : MgrOK s)
    (hh : s.files.findIdx? (·.rawFile = h) = some i) (hf : s.files[i]? = some f)
    (hv : s.vols.findIdx? (·.rawVolume = f.rawVolume) = some vi) (hvi : s.vols[vi]? = some v)
    (hmode : f.mode ≠ .ReadOnly) (hg : WFGeom v.vol) (hhint : HintOK v.vol)
    (hok : FileOK v.vol s.dev.disk f cs) (hcur : cs = [] → f.curCluster < 2)
    (hown : Owns v.vol s.dev.disk (withChain A cs B))
    (hmax : f.currentOffset + data.length ≤ Gen.MAX_FILE_SIZE)
    (cnt hint : Option Nat) (hhint2 : ∀ n, hint = some n → 2 ≤ n) :
    let v2 : VolInfo := { v with vol := { v.vol with freeClustersCount := cnt, nextFreeCluster := hint } }
    let s2 : Mgr := { s with vols := s.vols.set vi v2 }
    (write h data s2).1 = (write h data s).1 ∧
    (write h data s2).1 = outcome v.vol s.dev.disk cs f.currentOffset data.length :=
  Lemmas.Acct.write_outcome_record_indep s h i vi data f v cs A B hs hh hf hv hvi hmode hg hhint hok hcur hown hmax cnt hint hhint2

/-! ### Non-vacuity: a FAT32 volume (65525 clusters), evaluated -/

namespace Example
open Sdmmc.Props.C02Reopen.Example32 (vol0 disk file mount_ok)
open Sdmmc.Props.C02Reopen.Example (clk)
open Sdmmc.Lemmas.FBasic (Disk.get_set_ne Disk.get_empty)

/-- The volume of `C02Reopen.Example32`, as mounted: info sector in block 2 (free count 65522, next
free 5), one FAT (blocks 3 …), root directory = cluster 2 (block 515), the file "A.TXT" = clusters
3 → 4 (blocks 516, 517), 600 bytes, its directory slot in block 515. -/
def vinfo0 : VolInfo := { rawVolume := 3, idx := 0, vol := vol0 }
def fileA : FileInfo := { file with dirty := false }
def mgr0 : Mgr :=
  { dev := { disk := disk }, nextId := 8, vols := [vinfo0], dirs := [], files := [fileA],
    maxVols := 1, maxDirs := 4, maxFiles := 4, clock := clk }

theorem blocksOK : BlocksOK disk := by
  have hz : BlocksOK Disk.empty := fun i => by
    rw [Disk.get_empty]; exact Lemmas.FatOps.zeroBlock_length
  refine Lemmas.FatOps.blocksOK_set _ _ _ (Lemmas.FatOps.blocksOK_set _ _ _ (Lemmas.FatOps.blocksOK_set _ _ _
    (Lemmas.FatOps.blocksOK_set _ _ _ (Lemmas.FatOps.blocksOK_set _ _ _ (Lemmas.FatOps.blocksOK_set _ _ _
    (Lemmas.FatOps.blocksOK_set _ _ _ hz ?_) ?_) ?_) ?_) ?_) ?_) ?_
  all_goals decide +kernel

theorem mgrOK : MgrOK mgr0 := ⟨rfl, (fun i h => by cases h), blocksOK, rfl⟩

theorem wfgeom : WFGeom vol0 :=
  ⟨by decide, by decide, fun s h => (by cases h), fun h => (by cases h), fun _ => (by decide), by decide,
   (by show endCluster vol0 ≤ 0x0FFFFFF7; decide)⟩

/-- Every FAT block after the first is blank: the clusters from 128 on are free. -/
theorem far_free (c : Nat) (h1 : 128 ≤ c) (h2 : c < 65527) : isFree vol0 disk c := by
  have hb : fatBlock vol0 c = 1 + (2 + c * 4 / 512) := rfl
  have hget : disk.get (fatBlock vol0 c) = zeroBlock := by
    rw [hb]
    unfold disk
    rw [Disk.get_set_ne _ _ _ _ (by omega), Disk.get_set_ne _ _ _ _ (by omega), Disk.get_set_ne _ _ _ _ (by omega),
      Disk.get_set_ne _ _ _ _ (by omega), Disk.get_set_ne _ _ _ _ (by omega), Disk.get_set_ne _ _ _ _ (by omega),
      Disk.get_set_ne _ _ _ _ (by omega)]
    exact Disk.get_empty _
  show fatEntry vol0 disk c = 0
  unfold fatEntry fatRaw
  rw [hget]
  exact (by decide +kernel : ∀ off, off < 512 → rawFatEntry .fat32 zeroBlock off % 268435456 = 0) _ (Nat.mod_lt _ (by decide))

theorem used_iff : ∀ c, isUsed vol0 disk c ↔ c ∈ [3, 4, 2] := by
  intro c
  by_cases hc : c < 128
  · exact (by decide +kernel : ∀ c, c < 128 → (isUsed vol0 disk c ↔ c ∈ [3, 4, 2])) c hc
  · constructor
    · intro h
      exact absurd (far_free c (by omega) h.1.2) h.2.1
    · intro h; simp at h; omega

theorem owns : Owns vol0 disk [[3, 4], [2]] := by
  refine ⟨?_, by decide, used_iff⟩
  intro cs hcs
  have : cs = [3, 4] ∨ cs = [2] := by simpa using hcs
  rcases this with rfl | rfl
  · exact .link 3 4 [4] (by decide) (by decide +kernel) (by decide) (.last 4 (by decide) (by decide +kernel))
  · exact .last 2 (by decide) (by decide +kernel)

theorem fileOK : FileOK vol0 disk fileA [3, 4] :=
  ⟨.inr (.link 3 4 [4] (by decide) (by decide +kernel) (by decide) (.last 4 (by decide) (by decide +kernel))),
   by decide, by decide, .inr ⟨1, by decide, by decide, by decide⟩⟩

theorem hintOK : HintOK vol0 := fun n h => by cases h; decide

/-- The data-plane invariant holds: the file's chain `[3, 4]`, the root directory's `[2]`. -/
theorem dataInv : DataInv mgr0 [[3, 4]] [[2]] := by
  refine ⟨rfl, (fun i h => by cases h), blocksOK, rfl, ⟨vinfo0, rfl⟩, wfgeom, hintOK, owns, rfl, ?_⟩
  intro j f cs hf hc
  cases j with
  | zero => cases hf; cases hc; exact ⟨rfl, fileOK, fun h => by cases h⟩
  | succ j => cases hf

theorem slots : ∀ f, f ∈ mgr0.files → SlotOK (theVol mgr0) (mgr0.vols.headD default).rawVolume f := by
  intro f hf
  have : f = fileA := by simpa [mgr0] using hf
  subst this
  exact ⟨rfl, by decide, by decide, .inl (by decide)⟩

/-! #### B1: one `write` -/

def data1000 : Bytes := List.replicate 1000 0x11

/-- `write_accounting` applies: 1000 bytes appended at offset 600. -/
theorem write_instance : ∃ f' v' cs' k, (write 7 data1000 mgr0).2.files[0]? = some f' ∧ (write 7 data1000 mgr0).2.vols[0]? = some v' ∧
    FileOK v'.vol (write 7 data1000 mgr0).2.dev.disk f' cs' ∧ SameGeom vol0 v'.vol ∧ cs'.length = 2 + k ∧
    Took vol0 v'.vol disk (write 7 data1000 mgr0).2.dev.disk k :=
  write_accounting mgr0 7 0 0 data1000 fileA vinfo0 [3, 4] [] [[2]] mgrOK rfl rfl rfl rfl (by decide) wfgeom hintOK fileOK
    (fun h => by cases h) owns

/-- The engine, run: the write takes clusters 5 and 6 (`k = 2`): the count goes from 65522 to 65520,
the hint from 5 to 7, the file is 1600 bytes long. -/
theorem write_run : (write 7 data1000 mgr0).2.vols.map (fun v => (v.vol.freeClustersCount, v.vol.nextFreeCluster)) = [(some 65520, some 7)] ∧
    (write 7 data1000 mgr0).2.files.map (fun f => (f.entry.size, f.entry.cluster, f.curCluster)) = [(1600, 3, 6)] ∧
    (write 7 data1000 mgr0).2.dev.wlog.reverse.map (·.1) = [517, 3, 3, 518, 3, 3, 519] := by decide +kernel

/-! #### B3: a session -/

def ops1 : List Op := [.seekStart 7 100, .read 7 50, .seekEnd 7 0, .write 7 data1000, .length 7]
def ops2 : List Op := [.flush 7, .closeFile 7]
def s3 : Mgr := (step (run (run mgr0 ops1).1 ops2).1 (.closeVolume 3)).1

/-- "answered `Ok(())`", decidably. -/
def isUnit : Res Payload → Bool
  | .ok .unit => true
  | _ => false
theorem of_isUnit {r : Res Payload} (h : isUnit r = true) : r = .ok .unit := by
  cases r with
  | ok p => cases p <;> first | rfl | cases h
  | _ => cases h

theorem closed_ok : (step (run (run mgr0 ops1).1 ops2).1 (.closeVolume 3)).2.result = .ok .unit :=
  of_isUnit (by decide +kernel)

/-- The session, run: the write fills cluster 4 (block 517), takes clusters 5 and 6 (two FAT writes
each, block 3) and fills them (518, 519); the flush and the close each write the info sector (block
2) and the directory block (515); `close_volume` writes the info sector, which then holds count
65520 = 65522 − 2 and hint 7; the next mount reads exactly that. -/
theorem session_run :
    ((run mgr0 ops1).2.map fun o => (isUnit o.result, o.writes.map (·.1))) =
      [(true, []), (false, []), (true, []), (true, [517, 3, 3, 518, 3, 3, 519]), (false, [])] ∧
    ((run (run mgr0 ops1).1 ops2).2.map fun o => (isUnit o.result, o.writes.map (·.1))) = [(true, [2, 515]), (true, [2, 515])] ∧
    (step (run (run mgr0 ops1).1 ops2).1 (.closeVolume 3)).2.writes.map (·.1) = [2] ∧
    (readU32 (s3.dev.disk.get 2) 488, readU32 (s3.dev.disk.get 2) 492) = (65520, 7) ∧
    mountPure (s3.dev.disk.get 0) 0 s3.dev.disk.get = .ok { vol0 with freeClustersCount := some 65520, nextFreeCluster := some 7 } := by
  decide +kernel

/-- `count_truthful_after_close` applies to this session, and — with the evaluated mount — says
that exactly 2 FAT entries stopped being free (no enumeration of the 65525 entries involved). -/
theorem session_instance : freeCount vol0 s3.dev.disk + 2 = freeCount vol0 disk := by
  have key := count_truthful_after_close mgr0 [[3, 4]] [[2]] 0 ops1 ops2 dataInv mount_ok rfl slots (by decide +kernel) (by decide +kernel)
  rw [show (mgr0.vols.headD default).rawVolume = 3 from rfl] at key
  obtain ⟨k, w', hmount, _, _, hfree, _, hcount, _⟩ := key s3 rfl closed_ok
  rw [session_run.2.2.2.2] at hmount
  cases hmount
  have : (65520 : Nat) = 65522 - k := by
    have h := hcount
    simp only [theVol, mgr0, vinfo0, vol0, List.headD_cons, Option.map_some, Option.some.injEq] at h
    exact h
  have hk : k = 2 := by omega
  rw [hk] at hfree
  exact hfree

/-! #### B3: a stale hint -/

/-- The same medium with the stored hint `0x00FFFFFF` — no cluster of the volume (they end at 65526),
but not one of the three values mounting maps to "unknown". -/
def infoBlk2 : Block :=
  [0x52, 0x52, 0x61, 0x41] ++ zeros 480 ++ [0x72, 0x72, 0x41, 0x61, 0xF2, 0xFF, 0, 0, 0xFF, 0xFF, 0xFF, 0] ++ zeros 12 ++
    [0, 0, 0x55, 0xAA]
def disk2 : Disk := disk.set 2 infoBlk2
def vol2 : FatVolume := { vol0 with nextFreeCluster := some 16777215 }
def mgr2 : Mgr := { mgr0 with dev := { disk := disk2 }, vols := [{ vinfo0 with vol := vol2 }] }

theorem mount_ok2 : mountPure (disk2.get 0) 0 disk2.get = .ok vol2 := by decide +kernel
theorem hint_out_of_range : endCluster vol2 ≤ 16777215 := by decide

theorem fat_same (c : Nat) : disk2.get (fatBlock vol0 c) = disk.get (fatBlock vol0 c) := by
  have hb : fatBlock vol0 c = 1 + (2 + c * 4 / 512) := rfl
  rw [hb]
  exact Disk.get_set_ne _ _ _ _ (by omega)

theorem dataInv2 : DataInv mgr2 [[3, 4]] [[2]] := by
  have hsg : SameGeom vol0 vol2 := ⟨_, _, rfl⟩
  refine ⟨rfl, (fun i h => by cases h), Lemmas.FatOps.blocksOK_set _ _ _ blocksOK (by decide +kernel), rfl, ⟨_, rfl⟩,
    hsg.wfGeom wfgeom, (fun n h => by cases h; decide),
    Lemmas.WriteRefines.owns_sameGeom hsg (Lemmas.WriteRefines.owns_of_fat_eq (fun c _ => fat_same c) owns), rfl, ?_⟩
  intro j f cs hf hc
  cases j with
  | zero =>
    cases hf; cases hc
    exact ⟨rfl, Lemmas.WriteRefines.sameGeom_fileOK hsg (Lemmas.WriteRefines.fileOK_congr fileOK fun x _ => fat_same x),
      fun h => by cases h⟩
  | succ j => cases hf

theorem slots2 : ∀ f, f ∈ mgr2.files → SlotOK (theVol mgr2) (mgr2.vols.headD default).rawVolume f := by
  intro f hf
  have : f = fileA := by simpa [mgr2, mgr0] using hf
  subst this
  exact ⟨rfl, by decide, by decide, .inl (by decide)⟩

def opsR : List Op := [.seekStart 7 0, .read 7 600, .eof 7]
def s3R : Mgr := (step (run (run mgr2 opsR).1 [.closeFile 7]).1 (.closeVolume 3)).1

/-- **The out-of-range hint is written back.**  A session that only reads: the next mount reads the
same record, hint `0x00FFFFFF` included — by `read_only_session_record_unchanged`, and by running the
engine (the info sector is rewritten by `close_volume`, with the same words). -/
theorem hint_out_of_range_written_back :
    mountPure (s3R.dev.disk.get 0) 0 s3R.dev.disk.get = .ok vol2 ∧ freeCount vol2 s3R.dev.disk = freeCount vol2 disk2 := by
  have key := read_only_session_record_unchanged mgr2 [[3, 4]] [[2]] 0 opsR [.closeFile 7] dataInv2 mount_ok2 rfl slots2
    (by decide +kernel) (by decide +kernel) (by decide +kernel)
  rw [show (mgr2.vols.headD default).rawVolume = 3 from rfl] at key
  exact key s3R rfl (of_isUnit (by decide +kernel))

theorem hint_out_of_range_run :
    (step (run (run mgr2 opsR).1 [.closeFile 7]).1 (.closeVolume 3)).2.writes.map (·.1) = [2] ∧
    (readU32 (s3R.dev.disk.get 2) 488, readU32 (s3R.dev.disk.get 2) 492) = (65522, 16777215) := by decide +kernel

/-- **The first allocation repairs it.**  The session with the write, from the stale hint: the
allocator finds nothing from `0x00FFFFFF` on, searches from cluster 2, takes 5 and 6; the next mount
reads count 65520 and hint 7. -/
theorem stale_hint_repaired :
    mountPure ((step (run (run mgr2 ops1).1 ops2).1 (.closeVolume 3)).1.dev.disk.get 0) 0
        (step (run (run mgr2 ops1).1 ops2).1 (.closeVolume 3)).1.dev.disk.get =
      .ok { vol0 with freeClustersCount := some 65520, nextFreeCluster := some 7 } := by decide +kernel

/-! #### B2: the info sector -/

/-- A dirty file and a record that differs from the stored one. -/
def mgrD : Mgr :=
  { mgr0 with files := [{ fileA with dirty := true }],
              vols := [{ vinfo0 with vol := { vol0 with freeClustersCount := some 65000, nextFreeCluster := none } }] }

/-- `flush_stores_record` applies … -/
theorem flush_instance : ∃ s1, flushFile 7 mgrD = (.ok (), s1) ∧
    Stores { vol0 with freeClustersCount := some 65000, nextFreeCluster := none } (disk.get 2) (s1.dev.disk.get 2) := by
  obtain ⟨s1, h1, _, _, _, h5, _⟩ := flush_stores_record mgrD 7 0 0 { fileA with dirty := true }
    { vinfo0 with vol := { vol0 with freeClustersCount := some 65000, nextFreeCluster := none } }
    ⟨rfl, (fun i h => by cases h), blocksOK, rfl⟩ rfl rfl rfl rfl rfl (by decide) (by decide) (by decide) (by decide)
    ⟨fun n h => by cases h; decide, fun n h => by cases h⟩
  exact ⟨s1, h1, h5 rfl⟩

/-- … and, run: the count word becomes 65000, the hint word (unknown in memory) stays 5; mounting
reads count 65000, hint 5. -/
theorem flush_run :
    (readU32 ((flushFile 7 mgrD).2.dev.disk.get 2) 488, readU32 ((flushFile 7 mgrD).2.dev.disk.get 2) 492) = (65000, 5) ∧
    mountPure ((flushFile 7 mgrD).2.dev.disk.get 0) 0 (flushFile 7 mgrD).2.dev.disk.get =
      .ok { vol0 with freeClustersCount := some 65000, nextFreeCluster := some 5 } := by decide +kernel

/-- FAT16 (`C02Reopen.Example`): the flush writes the directory block only. -/
theorem flush_fat16 : (flushFile 7 Sdmmc.Props.C02Reopen.Example.mgr).2.dev.wlog.map (·.1) = [18] := by decide +kernel

/-- The normalisation. -/
example : normCount 0xFFFFFFFF = none ∧ normCount 0 = some 0 ∧ normHint 0xFFFFFFFF = none ∧ normHint 0 = none ∧
    normHint 1 = none ∧ normHint 2 = some 2 ∧ normHint 16777215 = some 16777215 := by decide

/-! #### B4: a stale record -/

/-- `mgr0` with another record. -/
def mgrH (cnt hint : Option Nat) : Mgr :=
  { mgr0 with vols := [{ vinfo0 with vol := { vol0 with freeClustersCount := cnt, nextFreeCluster := hint } }] }

/-- `stale_record_harmless` applies to any count and any hint ≥ 2 … -/
theorem stale_instance (cnt hint : Option Nat) (hh : ∀ n, hint = some n → 2 ≤ n) :
    (write 7 data1000 (mgrH cnt hint)).1 = (write 7 data1000 mgr0).1 :=
  (stale_record_harmless mgr0 7 0 0 data1000 fileA vinfo0 [3, 4] [] [[2]] mgrOK rfl rfl rfl rfl (by decide) wfgeom hintOK fileOK
    (fun h => by cases h) owns (by decide +kernel) cnt hint hh).1

/-- … and, run: a count of 0 ("volume full"), an unknown record, a hint pointing at the last cluster
and one pointing far outside: the write succeeds every time, the count is decremented by 2
(saturating) when known. -/
theorem stale_run :
    ([mgrH (some 0) (some 5), mgrH none none, mgrH (some 65522) (some 65526), mgrH (some 7) (some 16777215)].map fun m =>
      ((run m [.write 7 data1000]).2.map fun o => isUnit o.result,
       (run m [.write 7 data1000]).1.vols.map fun v => (v.vol.freeClustersCount, v.vol.nextFreeCluster))) =
    [([true], [(some 0, some 7)]), ([true], [(none, some 7)]), ([true], [(some 65520, some 6)]), ([true], [(some 5, some 7)])] := by
  decide +kernel

/-- **The excluded point of `HintOK`.**  An in-memory hint of 0 (mounting never produces it: it reads
0 and 1 as "unknown") on a medium whose reserved FAT entry 0 is blank: the allocator takes "cluster
0" — entry 0 is marked end-of-chain, the file's last cluster 4 is linked to 0, i.e. its entry becomes
0 = free — and the write fails.  With the reserved entries in place (any formatted volume) the same
hint is harmless. -/
def fatBlkZ : Block := [0, 0, 0, 0, 0, 0, 0, 0, 0xFF, 0xFF, 0xFF, 0x0F, 4, 0, 0, 0, 0xFF, 0xFF, 0xFF, 0x0F] ++ zeros 492
def mgrZ : Mgr := { mgrH (some 65522) (some 0) with dev := { disk := disk.set 3 fatBlkZ } }
theorem hint_zero :
    (run mgrZ [.write 7 data1000]).2.map (fun o => isUnit o.result) = [false] ∧
    ((run mgrZ [.write 7 data1000]).1.dev.disk.get 3).take 20 = [0xFF, 0xFF, 0xFF, 0x0F, 0, 0, 0, 0, 0xFF, 0xFF, 0xFF, 0x0F, 4, 0, 0, 0, 0, 0, 0, 0] ∧
    (run (mgrH (some 65522) (some 0)) [.write 7 data1000]).2.map (fun o => isUnit o.result) = [true] ∧
    (run (mgrH (some 65522) (some 0)) [.write 7 data1000]).1.vols.map (fun v => (v.vol.freeClustersCount, v.vol.nextFreeCluster)) =
      [(some 65520, some 7)] := by decide +kernel

end Example

end Sdmmc.Props.C16Api
