/-
C10 — HEADLINE THEOREM, SECOND EDITION (supersedes `Props/C10Main.lean`, whose only gap against the sentence was clause
(5); composed from `Props/C10InvX.lean` — the residue made explicit, crash-then-mount —, `Props/C10Init.lean` — clause (5) at
API level, free clusters arbitrary —, `Props/C10Inv.lean` — mounts, valid FAT entries, the independent checker —, and
`Props/C10Multi.lean` — several open volumes).

PROPERTY (verbatim from `properties.jsonl`).
statement:
  "If the device stops accepting writes after any block write of any operation, the medium mounts, and no live
  directory entry or chain refers to a free, bad or out-of-range cluster, no two chains share a cluster, no chain is
  cyclic, no directory exposes uninitialised cluster contents as entries, and no sub-directory entry lacks its own
  cluster. Space that is allocated but not yet referenced, and a size not yet updated, are the only permitted
  residue."
quantifier:
  "every prefix of the block-write sequence of every mutating operation (create, write and extend, flush, close,
  truncate-open, delete, mkdir, directory growth, volume close) in any history, on all geometries, with previously
  used (non-zero) free clusters so that stale contents are visible; block writes atomic and ordered"

HOW TO READ `C10_main`.
* `ops` is ANY history of API calls from the state `s`; `ops[n]` is issued in the state `(run s (ops.take n)).1` the first
  `n` calls leave (its medium: `d0`, "the medium before the call"); `(step t op).2.writes` are the block writes the call
  `op` issues in state `t`, in order; `crashDisk d ws k` (`Spec/Crash.lean`) is the medium `d` with the first `k` writes of
  `ws` applied — the medium left when the device stops accepting writes after the `k`-th block write of the call (block
  writes atomic and ordered; `k = 0` and `k ≥ ws.length`: the call boundaries).  The theorem speaks of EVERY `n` and EVERY
  `k`, whatever the calls answer, for all 24 constructors of `Op` (create, write and extend, flush, close, truncate-open,
  delete, mkdir, directory growth, volume close included).
* The medium is arbitrary (`Disk`), and the hypothesis on the start state says NOTHING about the contents of the clusters
  that are not in use (clause III: `VolInvCX` survives any change of them): free clusters hold whatever earlier use left in
  them, stale directory entries included (`Props/C10InitExample.lean` evaluates this).
* `CrashPoint v0 d0 dk gh' X'` — one documented field per clause of the sentence, about the crashed MEDIUM `dk` alone (and,
  for (5), the medium `d0` before the call), for a record `gh'` of its tree (`gh'.G`: the cluster chains, `gh'.dirs`: the
  sub-directories) and the LOST CHAINS `X'`:
    `consistent : C10Main.Consistent v0 dk gh'` (`Props/C10Main.lean`) — (refs) the FAT32 root, every sub-directory and every
        file entry with a cluster designate the first cluster of a chain; (chains) every cluster of every chain is in
        range, not free, not bad, linked to the next, the last one carrying an end-of-chain mark — together: "no live
        directory entry or chain refers to a free, bad or out-of-range cluster"; (sharing) "no two chains share a cluster";
        (acyclic) "no chain is cyclic"; (subdirs) "no sub-directory entry lacks its own cluster": it names a sub-directory
        of the record with this parent, heading a chain that starts with correct `.` and `..`; (tail) nothing follows an
        end-of-directory marker; (residue) the chains are exactly the referenced ones and every cluster in use is in a
        chain or lost; (rest) unique names, dot entries;
    `initialised` — (5) "no directory exposes uninitialised cluster contents as entries": EVERY cluster of the chain of
        EVERY directory of the tree was in use on the medium before the call, or is an `InitCluster` of `dk`
        (`Spec/VolumeInit.lean`): blank except for at most its first two slots (the one entry a growing directory got, or
        the dot entries of a new sub-directory).  So a cluster that was FREE before the call and is part of a directory at
        the crash point shows nothing of what it held while it was free.  READING (as `Props/C10Init.lean`, deviation
        reported there): the first disjunct is "in use before the call" — then it was a cluster of a chain of the pre-call
        tree (`Props.C10Init.crash_dir_clusters_initialised_tree`) —, not "a cluster of that very directory before the call";
    `lostChains`, `emptyNoCluster` — "space that is allocated but not yet referenced, and a size not yet updated, are the
        ONLY permitted residue": the chains of the record and the lost chains `X'` are chains (in range, acyclic,
        terminated), pairwise disjoint, and ALL that is in use; no clause bounds a stored size from above, but a file entry
        without a cluster stores size 0;
    `fat` — every FAT entry of a data cluster, lost ones included, is free, bad, end-of-chain or a link in range;
    `fsck` — the independent checker `Spec.Fs.fsck` in its crash variant reports no problem ((H1) `NoOne`, (H2) `DepthOK`:
        as for C03, needed by the CHECKER).
* "the medium mounts": `mountPure` of the crashed medium answers a record of the volume's geometry (same partition), AND
  every fresh manager on the crashed medium mounts (`open_raw_volume`: the handle, no write) into the weak invariant of
  histories under faults `FaultInv` (`Spec/VolumeFault.lean`) with exactly the record `gh'` and the lost chains `X'` — from
  where `Props/C11Main2.lean` / `Props/C10Continue.lean` continue.

HYPOTHESES, and where each is discharged.
* `VolInvCX s gh` (`Props.C10InvX.volInvCX_def`) = the invariant of API histories `VolInv` (C03) ∧ identical FAT copies ∧
  `RawOK` ∧ `RawEmptyOK` (the on-disk entry of an OPEN file names no cluster — and then stores size 0 — or the file's).
  Holds whenever no file is open (clause II, e.g. after a mount: `Props.C15Fs.mount_establishes_invariant`); preserved by
  every covered history (clause II); ignores the free clusters (clause III).  `RawOK` cannot be dropped:
  `Props.C10Inv.Example.rawOK_needed`.
* `CoveredAllRun v0 s ops`: restricts only `open_volume` calls that succeed (`Props.C03All.coveredAllRun_iff_remountRun`).
* `hm`, `hsg` — for "mounts" only: the medium the HISTORY starts from mounts.
* Fault-free device: a crash is the device no longer ACCEPTING writes, not a failing write (C11).

STATUS: FULL for the sentence and its quantifier (one open volume, as `Spec/Volume.lean`), with the reading of (5) stated
above.  BEYOND the quantifier:
* SEVERAL OPEN VOLUMES (clause IV, `Props/C10Multi.lean`): at every crash point EVERY open volume is crash-consistent
  (`CrashInv`, i.e. `Consistent`), has valid FAT entries, mounts, and passes the checker.  NOT proved for several volumes:
  clause (5) and the explicit residue (`CrashInvX`) — the several-volumes crash invariant is the one of `Props/C10Inv`.
* The two FAT copies at a crash point differ in at most one sector (`MirrorBut`): proved for the FAT-level pieces only
  (`Props.C10InvX.mirror_at_crash_points`); not part of the sentence.
-/
import Sdmmc.Props.C10Main
import Sdmmc.Props.C10InvX
import Sdmmc.Props.C10Init
import Sdmmc.Props.C10InitExample
import Sdmmc.Props.C10Multi

namespace Sdmmc.Props.C10Main2
open Sdmmc.Model Sdmmc.Model.Fat Sdmmc.Spec.Volume
open Sdmmc.Spec hiding run step NoFault Coherent
open Sdmmc.Props.C03Inv (CoveredAllRun)
open Sdmmc.Props.C03Multi (CoveredNRun)
open Sdmmc.Props.C01Multi (FreshRun)
open Sdmmc.Lemmas.Mounted (FreshMgr)
open Sdmmc.Lemmas.CrashCont (Mounted)
open Sdmmc.Lemmas.VolCrashD (onDisk)
open Sdmmc.Lemmas.VolNCrash (VolumeSafe)

/-- The clauses of the sentence at one crash point: `dk` the crashed medium, `d0` the medium before the call, `gh'` a
record of the tree of `dk`, `X'` its lost chains.  (See the header.) -/
structure CrashPoint (v0 : FatVolume) (d0 dk : Disk) (gh' : Ghost) (X' : List (List Nat)) : Prop where
  /-- refs, chains, sharing, acyclic, tail, subdirs, residue, rest -/
  consistent : C10Main.Consistent v0 dk gh'
  /-- (5) every directory cluster was in use before the call or is blank up to its first two slots -/
  initialised : ∀ h, h ∈ dirIds gh'.dirs → ∀ c, c ∈ dirClusters v0 gh'.G h → isUsed v0 d0 c ∨ InitCluster v0 dk c
  /-- the lost clusters form chains; the chains of the tree and the lost chains are all that is in use -/
  lostChains : Owns v0 dk (gh'.G ++ X')
  /-- a file entry without a cluster stores size 0 (no other clause constrains a stored size) -/
  emptyNoCluster : EmptyNoCluster v0.fatType gh'.dirs (dirSlots v0 dk gh'.G)
  /-- every FAT entry of a data cluster is free, bad, end-of-chain or a link in range -/
  fat : FatEntriesOK v0 dk
  /-- the independent checker, crash variant -/
  fsck : ∀ g : Spec.Fs.Geom, GeomOf v0 g → NoOne v0 dk → DepthOK gh'.dirs → (Spec.Fs.fsck g dk [] false).problems = []

/-- **C10.**  See the header. -/
theorem C10_main :
    -- I: every crash point of every call of every covered history
    (∀ (v0 : FatVolume) (ops : List Op) (s : Mgr) (gh : Ghost), VolInvCX s gh → SameGeom v0 gh.vol → CoveredAllRun v0 s ops →
      ∀ (n : Nat) (op : Op) (k : Nat), ops[n]? = some op → ∀ d0 dk, d0 = (run s (ops.take n)).1.dev.disk →
        dk = crashDisk d0 (step (run s (ops.take n)).1 op).2.writes k →
        ∃ gh' X', CrashPoint v0 d0 dk gh' X' ∧
          -- "the medium mounts" — and a fresh manager on it starts in `FaultInv`
          ∀ idx vm, mountPure (s.dev.disk.get 0) idx s.dev.disk.get = .ok vm → SameGeom vm v0 →
            ∃ w, mountPure (dk.get 0) idx dk.get = .ok w ∧ SameGeom v0 w ∧
              ∀ t0, FreshMgr t0 → t0.dev.disk = dk → ∃ t1, Mounted t0 idx w t1 ∧ FaultInv t1 { gh' with vol := w } X') ∧
    -- II: the hypothesis — holds when no file is open, is kept by every covered history
    (∀ (s : Mgr) (gh : Ghost), VolInv s gh → Mirror gh.vol s.dev.disk → s.files = [] → VolInvCX s gh) ∧
    (∀ (v0 : FatVolume) (ops : List Op) (s : Mgr) (gh : Ghost), VolInvCX s gh → SameGeom v0 gh.vol → CoveredAllRun v0 s ops →
      ∃ gh', VolInvCX (run s ops).1 gh' ∧ SameGeom v0 gh'.vol) ∧
    -- III: … and says nothing about the clusters that are not in use
    (∀ (s : Mgr) (gh : Ghost), VolInvCX s gh → ∀ d', DirtyOf gh.vol s.dev.disk d' →
      (∀ i, s.cache.tag = some i → d'.get i = s.dev.disk.get i) → VolInvCX (onDisk s d') gh) ∧
    -- IV: several open volumes
    (∀ (ops : List Op) (s : Mgr) (ghs : List Ghost), VolInvNC s ghs → CoveredNRun s ops → FreshRun s ops →
      ∀ (n : Nat) (op : Op) (k : Nat), ops[n]? = some op →
        (∃ ghsn, VolInvNC (run s (ops.take n)).1 ghsn ∧
          ∀ (j : Nat) (vj : VolInfo) (gh : Ghost), (run s (ops.take n)).1.vols[j]? = some vj → ghsn[j]? = some gh →
            VolumeSafe gh (run s (ops.take n)).1.dev.disk
              (crashDisk (run s (ops.take n)).1.dev.disk (step (run s (ops.take n)).1 op).2.writes k)) ∧
        (C16MultiClose.MountsN s → ∀ vj, vj ∈ (run s (ops.take n)).1.vols →
          ∃ w, mountPure ((crashDisk (run s (ops.take n)).1.dev.disk (step (run s (ops.take n)).1 op).2.writes k).get 0) vj.idx
              (crashDisk (run s (ops.take n)).1.dev.disk (step (run s (ops.take n)).1 op).2.writes k).get = .ok w ∧
            SameGeom vj.vol w)) := by
  refine ⟨fun v0 ops s gh hI h0 hc n op k hn d0 dk hd0 hdk => ?_,
    fun s gh hI hm hq => C10InvX.volInvCX_of_quiescent hI hm hq,
    fun v0 ops s gh hI h0 hc => C10InvX.api_history_invariantCX v0 ops s gh hI h0 hc,
    fun s gh hI d' hd hcache => C10Init.invariant_ignores_free_clusters s gh hI d' hd hcache,
    fun ops s ghs hI hc hf n op k hn => ⟨C10Multi.history_crash_invariant_multi ops s ghs hI hc hf n op hn k,
      fun hM vj hvj => C10Multi.history_crash_mounts_multi ops s ghs hI hM hc hf n op hn k vj hvj⟩⟩
  subst hd0; subst hdk
  obtain ⟨gh', X', hX, hD⟩ := C10Init.history_crash_dir_clusters_initialised v0 ops s gh hI h0 hc n op hn k
  obtain ⟨_, hF⟩ := C10Inv.history_crash_invariant v0 ops s gh hI.inv h0 hc n op hn k
  refine ⟨gh', X', ⟨C10Main.consistent_of_crashInv hX.inv, hD, hX.lost, hX.empty, hF,
    fun g hg h1 h2 => C10Inv.crash_fsck_ok v0 _ gh' hX.inv hF g hg h1 h2⟩, fun idx vm hm hsg => ?_⟩
  obtain ⟨w, hw, hsw⟩ := C10Inv.history_crash_mounts_from_start v0 ops s gh hI.inv h0 hc n op hn k idx vm hm hsg
  refine ⟨w, hw, hsw, fun t0 hfr hd => ?_⟩
  rw [← hd] at hw hX
  exact C10Continue.crash_mount_establishes_faultinv hfr hX hw hsw

/-! ### Non-vacuity -/

namespace Example
open Sdmmc.Lemmas.VolExample Sdmmc.Props.C03Inv.Example Sdmmc.Props.C10Init.Example

/-- The history of `Props.C03Inv.Example` on the quiescent FAT16 volume (create `N.TXT`, write 600 bytes, flush, `mkdir D`
in `SUB`, delete `A.TXT`, close): 19 block writes, 25 crash points (evaluated with their lost clusters in
`Props.C10Inv.Example.ops_crash_points_checked`). -/
example (n : Nat) (op : Op) (k : Nat) (hn : ops[n]? = some op) :=
  C10_main.1 vol16 ops mgr1 gh1 mgr1_invCX (SameGeom.refl _) ops_covered_all n op k hn _ _ rfl rfl

/-- The same history from the DIRTY medium: every block of every free cluster holds sixteen stale live entries
(`Props.C10Init.Example.free_clusters_are_dirty`, evaluated); the hypothesis holds by clause III. -/
example (n : Nat) (op : Op) (k : Nat) (ops' : List Op) (hc : CoveredAllRun vol16 mgrD ops') (hn : ops'[n]? = some op) :=
  C10_main.1 vol16 ops' mgrD gh1 mgrD_invCX (SameGeom.refl _) hc n op k hn _ _ rfl rfl

/-- Clause (5), evaluated on the dirty medium: the cluster a new sub-directory gets, and the cluster a full directory grows
by, are `InitCluster`s at the crash point at which they are linked — and a medium on which the stale entries would show is
NOT one (`badDisk_not_initialised`, `stale_entries_would_show`). -/
example := mkdir_cluster_initialised
example := growth_cluster_initialised
example := badDisk_not_initialised
example := stale_entries_would_show

/-- IV on the two-volume example (`Props.C10Multi.Example`). -/
example (n : Nat) (op : Op) (hn : C01Multi.Example.ops2[n]? = some op) (k : Nat) :=
  C10_main.2.2.2.2 C01Multi.Example.ops2 Lemmas.VolN.Example2.mgr2 Lemmas.VolN.Example2.ghs2 C10Multi.Example.two_volumes_crash
    C01Multi.Example.ops2_covered C01Multi.Example.ops2_fresh n op k hn

end Example

end Sdmmc.Props.C10Main2
