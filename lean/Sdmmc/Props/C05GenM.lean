/-
C05 / C16, tie to the source text, effectful level: `FatVolume::find_next_free_cluster`
(fat/volume.rs) — an outer `while` over FAT blocks and an inner `while` over the entries of the cached
block — machine-translated WHOLE into the model's `F` monad with a fuel parameter
(`Sdmmc.Gen.FunsM`), is equal to the model's `findNextFree` (which re-reads through the cache at
every entry) as a function `FS → Res Nat × FS`, for every fuel of at least `(end - start) + 2`.
-/
import Sdmmc.Gen.FunsM
import Sdmmc.Model.Fat
import Sdmmc.Lemmas.FBasic
import Sdmmc.Lemmas.GenBits

set_option linter.unusedSimpArgs false

namespace Sdmmc.Props.C05GenM

open Sdmmc Sdmmc.Model Sdmmc.Model.Fat Sdmmc.Gen Sdmmc.Lemmas.GenBits Sdmmc.Lemmas.FBasic

/-- What the translated function does with the outcome of its outer loop. -/
def post (r : Except Nat Nat) : F Nat :=
  match r with
  | .error x => pure x
  | .ok _ => F.fail .NotEnoughSpace

/-! ### FAT16 -/

section fat16
variable (v : FatVolume) (e : Nat)

/-- The continuation of the inner loop inside the outer loop's body. -/
def K16 (Fo : Nat) (r : Except Nat (Nat × Nat)) : F (Except Nat Nat) :=
  match r with
  | .error x => pure (.error x)
  | .ok st => FunsM.FatVolume_find_next_free_cluster_loop1 v e Fo st.1

theorem L1_succ (F c : Nat) :
    FunsM.FatVolume_find_next_free_cluster_loop1 v e (F + 1) c =
      if c < e then
        (cacheRead (v.lbaStart + (v.fatStart + c * 2 / 512)) >>= fun _ => cacheBlk >>= fun block =>
          FunsM.FatVolume_find_next_free_cluster_loop2 v e block F (c, c * 2 % 512) >>= K16 v e F)
      else pure (.ok c) := rfl

theorem L2_succ (blk : Block) (Fi c off : Nat) :
    FunsM.FatVolume_find_next_free_cluster_loop2 v e blk (Fi + 1) (c, off) =
      if off ≤ 510 ∧ c < e then
        (if readU16 blk off = 0 then pure (.error c)
         else FunsM.FatVolume_find_next_free_cluster_loop2 v e blk Fi (c + 1, off + 2))
      else pure (.ok (c, off)) := rfl

/-- One step of the model's search at a cluster below the end, FAT16. -/
theorem model_step16 (n c : Nat) (s : FS) (hc : c < e) (h16 : s.vol.fatType = .fat16) :
    findNextFreeCluster (n + 1) c e s =
      match cacheRead (fatBlock s.vol c) s with
      | (.ok _, s1) =>
        if readU16 s1.cache.blk (fatEntOffset s.vol c) = 0 then (.ok c, s1) else findNextFreeCluster n (c + 1) e s1
      | (.err er, s1) => (.err er, s1)
      | (.panic m, s1) => (.panic m, s1)
      | (.diverged, s1) => (.diverged, s1) := by
  have hge : ¬ c ≥ e := by omega
  rw [findNextFreeCluster]
  simp only [hge, if_false, bind_apply, getVol_apply]
  rcases cacheRead (fatBlock s.vol c) s with ⟨r, s1⟩
  cases r <;> simp only []
  simp only [cacheBlk, rawFatEntry, h16, pure_apply]
  split <;> rfl

/-- The model's step at a state whose cache already holds the FAT block of `c`. -/
theorem model_hit16 (n c : Nat) (s1 : FS) (hc : c < e) (hv : s1.vol = v) (h16 : v.fatType = .fat16)
    (ht : s1.cache.tag = some (fatBlock v c)) :
    findNextFreeCluster (n + 1) c e s1 =
      if readU16 s1.cache.blk (c * 2 % 512) = 0 then (.ok c, s1) else findNextFreeCluster n (c + 1) e s1 := by
  rw [model_step16 e n c s1 hc (by rw [hv]; exact h16), hv, cacheRead_hit _ s1 ht]
  have : fatEntOffset v c = c * 2 % 512 := by unfold fatEntOffset; rw [h16]; rfl
  simp only [this]

def G16 (fu c : Nat) : F Nat := FunsM.FatVolume_find_next_free_cluster_loop1 v e fu c >>= post
def H16 (Fi Fo : Nat) (blk : Block) (c off : Nat) : Model.F Nat :=
  (FunsM.FatVolume_find_next_free_cluster_loop2 v e blk Fi (c, off) >>= K16 v e Fo) >>= post

theorem fatBlock16 (h16 : v.fatType = .fat16) (c : Nat) : fatBlock v c = v.lbaStart + (v.fatStart + c * 2 / 512) := by
  unfold fatBlock; rw [h16]; rfl

/-- Outer loop (A) and inner loop with its continuation (B) against the model, by induction on the
distance to the end. -/
theorem main16 (h16 : v.fatType = .fat16) : ∀ d c, e - c ≤ d →
    (∀ fu n s, s.vol = v → fu ≥ 1 → (c < e → fu ≥ (e - c) + 2) → n ≥ (e - c) + 1 →
      G16 v e fu c s = findNextFreeCluster n c e s) ∧
    (∀ Fi Fo n s1, s1.vol = v → s1.cache.tag = some (fatBlock v c) → Fi ≥ (e - c) + 1 → Fo ≥ (e - c) + 1 →
      n ≥ (e - c) + 1 → H16 v e Fi Fo s1.cache.blk c (c * 2 % 512) s1 = findNextFreeCluster n c e s1) := by
  intro d
  induction d with
  | zero =>
    intro c hd
    have hge : ¬ c < e := by omega
    have hge' : c ≥ e := by omega
    constructor
    · intro fu n s _ hF _ hn
      obtain ⟨fu', rfl⟩ : ∃ fu', fu = fu' + 1 := ⟨fu - 1, by omega⟩
      obtain ⟨n', rfl⟩ : ∃ n', n = n' + 1 := ⟨n - 1, by omega⟩
      unfold G16
      rw [L1_succ, if_neg hge, findNextFreeCluster]
      simp only [hge', if_true, bind_apply, pure_apply, post, fail_apply]
    · intro Fi Fo n s1 _ _ hFi hFo hn
      obtain ⟨Fi', rfl⟩ : ∃ F', Fi = F' + 1 := ⟨Fi - 1, by omega⟩
      obtain ⟨Fo', rfl⟩ : ∃ F', Fo = F' + 1 := ⟨Fo - 1, by omega⟩
      obtain ⟨n', rfl⟩ : ∃ n', n = n' + 1 := ⟨n - 1, by omega⟩
      unfold H16
      rw [L2_succ, if_neg (fun h => hge h.2), findNextFreeCluster]
      simp only [hge', if_true, bind_apply, pure_apply, K16, L1_succ, if_neg hge, post, fail_apply]
  | succ d ih =>
    intro c hd
    by_cases hc : c < e
    case neg =>
      have hge' : c ≥ e := by omega
      constructor
      · intro fu n s _ hF _ hn
        obtain ⟨fu', rfl⟩ : ∃ fu', fu = fu' + 1 := ⟨fu - 1, by omega⟩
        obtain ⟨n', rfl⟩ : ∃ n', n = n' + 1 := ⟨n - 1, by omega⟩
        unfold G16
        rw [L1_succ, if_neg hc, findNextFreeCluster]
        simp only [hge', if_true, bind_apply, pure_apply, post, fail_apply]
      · intro Fi Fo n s1 _ _ hFi hFo hn
        obtain ⟨Fi', rfl⟩ : ∃ F', Fi = F' + 1 := ⟨Fi - 1, by omega⟩
        obtain ⟨Fo', rfl⟩ : ∃ F', Fo = F' + 1 := ⟨Fo - 1, by omega⟩
        obtain ⟨n', rfl⟩ : ∃ n', n = n' + 1 := ⟨n - 1, by omega⟩
        unfold H16
        rw [L2_succ, if_neg (fun h => hc h.2), findNextFreeCluster]
        simp only [hge', if_true, bind_apply, pure_apply, K16, L1_succ, if_neg hc, post, fail_apply]
    case pos =>
      obtain ⟨ihA, ihB⟩ := ih (c + 1) (by omega)
      have hB : ∀ Fi Fo n s1, s1.vol = v → s1.cache.tag = some (fatBlock v c) → Fi ≥ (e - c) + 1 → Fo ≥ (e - c) + 1 →
          n ≥ (e - c) + 1 → H16 v e Fi Fo s1.cache.blk c (c * 2 % 512) s1 = findNextFreeCluster n c e s1 := by
        intro Fi Fo n s1 hv ht hFi hFo hn
        obtain ⟨Fi', rfl⟩ : ∃ F', Fi = F' + 1 := ⟨Fi - 1, by omega⟩
        obtain ⟨n', rfl⟩ : ∃ n', n = n' + 1 := ⟨n - 1, by omega⟩
        rw [model_hit16 v e n' c s1 hc hv h16 ht]
        unfold H16
        rw [L2_succ, if_pos ⟨by omega, hc⟩]
        by_cases h0 : readU16 s1.cache.blk (c * 2 % 512) = 0
        · rw [if_pos h0, if_pos h0]
          simp only [bind_apply, pure_apply, K16, post]
        · rw [if_neg h0, if_neg h0]
          by_cases hsame : c * 2 % 512 + 2 ≤ 510
          · have e1 : (c + 1) * 2 % 512 = c * 2 % 512 + 2 := by omega
            have e2 : fatBlock v (c + 1) = fatBlock v c := by
              rw [fatBlock16 v h16, fatBlock16 v h16]
              have : (c + 1) * 2 / 512 = c * 2 / 512 := by omega
              rw [this]
            have := ihB Fi' Fo n' s1 hv (by rw [e2]; exact ht) (by omega) (by omega) (by omega)
            rw [e1] at this
            exact this
          · have e1 : c * 2 % 512 + 2 = 512 := by omega
            obtain ⟨Fi'', rfl⟩ : ∃ F', Fi' = F' + 1 := ⟨Fi' - 1, by omega⟩
            rw [e1, L2_succ, if_neg (by omega)]
            have := ihA Fo n' s1 hv (by omega) (by omega) (by omega)
            unfold G16 at this
            rw [← this]
            simp only [bind_apply, pure_apply, K16]
      refine ⟨?_, hB⟩
      intro fu n s hv hF1 hF hn
      obtain ⟨fu', rfl⟩ : ∃ fu', fu = fu' + 1 := ⟨fu - 1, by omega⟩
      obtain ⟨n', rfl⟩ : ∃ n', n = n' + 1 := ⟨n - 1, by omega⟩
      have hF' := hF hc
      rw [model_step16 e n' c s hc (by rw [hv]; exact h16), hv]
      unfold G16
      rw [L1_succ, if_pos hc, ← fatBlock16 v h16]
      rcases hcr : cacheRead (fatBlock v c) s with ⟨r, s1⟩
      cases r with
      | ok u =>
        have hs1 : s1 = (cacheRead (fatBlock v c) s).2 := by rw [hcr]
        have hv1 : s1.vol = v := by rw [hs1, cacheRead_vol]; exact hv
        have ht1 : s1.cache.tag = some (fatBlock v c) := by
          rw [hs1]; exact cacheRead_ok_tag _ _ (by rw [hcr])
        have hb := hB fu' fu' (n' + 1) s1 hv1 ht1 (by omega) (by omega) (by omega)
        rw [model_hit16 v e n' c s1 hc hv1 h16 ht1] at hb
        have : fatEntOffset v c = c * 2 % 512 := by unfold fatEntOffset; rw [h16]; rfl
        simp only [this]
        rw [← hb]
        unfold H16
        simp only [bind_apply, hcr, cacheBlk]
      | err er => simp only [bind_apply, hcr]
      | panic m => simp only [bind_apply, hcr]
      | diverged => simp only [bind_apply, hcr]

end fat16

/-! ### FAT32 -/

section fat32
variable (v : FatVolume) (e : Nat)

/-- The continuation of the inner loop inside the outer loop's body. -/
def K32 (Fo : Nat) (r : Except Nat (Nat × Nat)) : F (Except Nat Nat) :=
  match r with
  | .error x => pure (.error x)
  | .ok st => FunsM.FatVolume_find_next_free_cluster_loop3 v e Fo st.1

theorem L3_succ (F c : Nat) :
    FunsM.FatVolume_find_next_free_cluster_loop3 v e (F + 1) c =
      if c < e then
        (cacheRead (v.lbaStart + (v.fatStart + c * 4 / 512)) >>= fun _ => cacheBlk >>= fun block =>
          FunsM.FatVolume_find_next_free_cluster_loop4 v e block F (c, c * 4 % 512) >>= K32 v e F)
      else pure (.ok c) := rfl

theorem L4_succ (blk : Block) (Fi c off : Nat) :
    FunsM.FatVolume_find_next_free_cluster_loop4 v e blk (Fi + 1) (c, off) =
      if off ≤ 508 ∧ c < e then
        (if readU32 blk off % 268435456 = 0 then pure (.error c)
         else FunsM.FatVolume_find_next_free_cluster_loop4 v e blk Fi (c + 1, off + 4))
      else pure (.ok (c, off)) := by
  have raw : FunsM.FatVolume_find_next_free_cluster_loop4 v e blk (Fi + 1) (c, off) =
      if off ≤ 508 ∧ c < e then
        (if readU32 blk off &&& 268435455 = 0 then pure (.error c)
         else FunsM.FatVolume_find_next_free_cluster_loop4 v e blk Fi (c + 1, off + 4))
      else pure (.ok (c, off)) := rfl
  rw [raw, and_fff_ffff]

/-- One step of the model's search at a cluster below the end, FAT32. -/
theorem model_step32 (n c : Nat) (s : FS) (hc : c < e) (h32 : s.vol.fatType = .fat32) :
    findNextFreeCluster (n + 1) c e s =
      match cacheRead (fatBlock s.vol c) s with
      | (.ok _, s1) =>
        if readU32 s1.cache.blk (fatEntOffset s.vol c) % 268435456 = 0 then (.ok c, s1) else findNextFreeCluster n (c + 1) e s1
      | (.err er, s1) => (.err er, s1)
      | (.panic m, s1) => (.panic m, s1)
      | (.diverged, s1) => (.diverged, s1) := by
  have hge : ¬ c ≥ e := by omega
  rw [findNextFreeCluster]
  simp only [hge, if_false, bind_apply, getVol_apply]
  rcases cacheRead (fatBlock s.vol c) s with ⟨r, s1⟩
  cases r <;> simp only []
  simp only [cacheBlk, rawFatEntry, h32, pure_apply]
  split <;> rfl

/-- The model's step at a state whose cache already holds the FAT block of `c`. -/
theorem model_hit32 (n c : Nat) (s1 : FS) (hc : c < e) (hv : s1.vol = v) (h32 : v.fatType = .fat32)
    (ht : s1.cache.tag = some (fatBlock v c)) :
    findNextFreeCluster (n + 1) c e s1 =
      if readU32 s1.cache.blk (c * 4 % 512) % 268435456 = 0 then (.ok c, s1) else findNextFreeCluster n (c + 1) e s1 := by
  rw [model_step32 e n c s1 hc (by rw [hv]; exact h32), hv, cacheRead_hit _ s1 ht]
  have : fatEntOffset v c = c * 4 % 512 := by unfold fatEntOffset; rw [h32]; rfl
  simp only [this]

def G32 (fu c : Nat) : F Nat := FunsM.FatVolume_find_next_free_cluster_loop3 v e fu c >>= post
def H32 (Fi Fo : Nat) (blk : Block) (c off : Nat) : Model.F Nat :=
  (FunsM.FatVolume_find_next_free_cluster_loop4 v e blk Fi (c, off) >>= K32 v e Fo) >>= post

theorem fatBlock32 (h32 : v.fatType = .fat32) (c : Nat) : fatBlock v c = v.lbaStart + (v.fatStart + c * 4 / 512) := by
  unfold fatBlock; rw [h32]; rfl

/-- Outer loop (A) and inner loop with its continuation (B) against the model, by induction on the
distance to the end. -/
theorem main32 (h32 : v.fatType = .fat32) : ∀ d c, e - c ≤ d →
    (∀ fu n s, s.vol = v → fu ≥ 1 → (c < e → fu ≥ (e - c) + 2) → n ≥ (e - c) + 1 →
      G32 v e fu c s = findNextFreeCluster n c e s) ∧
    (∀ Fi Fo n s1, s1.vol = v → s1.cache.tag = some (fatBlock v c) → Fi ≥ (e - c) + 1 → Fo ≥ (e - c) + 1 →
      n ≥ (e - c) + 1 → H32 v e Fi Fo s1.cache.blk c (c * 4 % 512) s1 = findNextFreeCluster n c e s1) := by
  intro d
  induction d with
  | zero =>
    intro c hd
    have hge : ¬ c < e := by omega
    have hge' : c ≥ e := by omega
    constructor
    · intro fu n s _ hF _ hn
      obtain ⟨fu', rfl⟩ : ∃ fu', fu = fu' + 1 := ⟨fu - 1, by omega⟩
      obtain ⟨n', rfl⟩ : ∃ n', n = n' + 1 := ⟨n - 1, by omega⟩
      unfold G32
      rw [L3_succ, if_neg hge, findNextFreeCluster]
      simp only [hge', if_true, bind_apply, pure_apply, post, fail_apply]
    · intro Fi Fo n s1 _ _ hFi hFo hn
      obtain ⟨Fi', rfl⟩ : ∃ F', Fi = F' + 1 := ⟨Fi - 1, by omega⟩
      obtain ⟨Fo', rfl⟩ : ∃ F', Fo = F' + 1 := ⟨Fo - 1, by omega⟩
      obtain ⟨n', rfl⟩ : ∃ n', n = n' + 1 := ⟨n - 1, by omega⟩
      unfold H32
      rw [L4_succ, if_neg (fun h => hge h.2), findNextFreeCluster]
      simp only [hge', if_true, bind_apply, pure_apply, K32, L3_succ, if_neg hge, post, fail_apply]
  | succ d ih =>
    intro c hd
    by_cases hc : c < e
    case neg =>
      have hge' : c ≥ e := by omega
      constructor
      · intro fu n s _ hF _ hn
        obtain ⟨fu', rfl⟩ : ∃ fu', fu = fu' + 1 := ⟨fu - 1, by omega⟩
        obtain ⟨n', rfl⟩ : ∃ n', n = n' + 1 := ⟨n - 1, by omega⟩
        unfold G32
        rw [L3_succ, if_neg hc, findNextFreeCluster]
        simp only [hge', if_true, bind_apply, pure_apply, post, fail_apply]
      · intro Fi Fo n s1 _ _ hFi hFo hn
        obtain ⟨Fi', rfl⟩ : ∃ F', Fi = F' + 1 := ⟨Fi - 1, by omega⟩
        obtain ⟨Fo', rfl⟩ : ∃ F', Fo = F' + 1 := ⟨Fo - 1, by omega⟩
        obtain ⟨n', rfl⟩ : ∃ n', n = n' + 1 := ⟨n - 1, by omega⟩
        unfold H32
        rw [L4_succ, if_neg (fun h => hc h.2), findNextFreeCluster]
        simp only [hge', if_true, bind_apply, pure_apply, K32, L3_succ, if_neg hc, post, fail_apply]
    case pos =>
      obtain ⟨ihA, ihB⟩ := ih (c + 1) (by omega)
      have hB : ∀ Fi Fo n s1, s1.vol = v → s1.cache.tag = some (fatBlock v c) → Fi ≥ (e - c) + 1 → Fo ≥ (e - c) + 1 →
          n ≥ (e - c) + 1 → H32 v e Fi Fo s1.cache.blk c (c * 4 % 512) s1 = findNextFreeCluster n c e s1 := by
        intro Fi Fo n s1 hv ht hFi hFo hn
        obtain ⟨Fi', rfl⟩ : ∃ F', Fi = F' + 1 := ⟨Fi - 1, by omega⟩
        obtain ⟨n', rfl⟩ : ∃ n', n = n' + 1 := ⟨n - 1, by omega⟩
        rw [model_hit32 v e n' c s1 hc hv h32 ht]
        unfold H32
        rw [L4_succ, if_pos ⟨by omega, hc⟩]
        by_cases h0 : readU32 s1.cache.blk (c * 4 % 512) % 268435456 = 0
        · rw [if_pos h0, if_pos h0]
          simp only [bind_apply, pure_apply, K32, post]
        · rw [if_neg h0, if_neg h0]
          by_cases hsame : c * 4 % 512 + 4 ≤ 508
          · have e1 : (c + 1) * 4 % 512 = c * 4 % 512 + 4 := by omega
            have e2 : fatBlock v (c + 1) = fatBlock v c := by
              rw [fatBlock32 v h32, fatBlock32 v h32]
              have : (c + 1) * 4 / 512 = c * 4 / 512 := by omega
              rw [this]
            have := ihB Fi' Fo n' s1 hv (by rw [e2]; exact ht) (by omega) (by omega) (by omega)
            rw [e1] at this
            exact this
          · have e1 : c * 4 % 512 + 4 = 512 := by omega
            obtain ⟨Fi'', rfl⟩ : ∃ F', Fi' = F' + 1 := ⟨Fi' - 1, by omega⟩
            rw [e1, L4_succ, if_neg (by omega)]
            have := ihA Fo n' s1 hv (by omega) (by omega) (by omega)
            unfold G32 at this
            rw [← this]
            simp only [bind_apply, pure_apply, K32]
      refine ⟨?_, hB⟩
      intro fu n s hv hF1 hF hn
      obtain ⟨fu', rfl⟩ : ∃ fu', fu = fu' + 1 := ⟨fu - 1, by omega⟩
      obtain ⟨n', rfl⟩ : ∃ n', n = n' + 1 := ⟨n - 1, by omega⟩
      have hF' := hF hc
      rw [model_step32 e n' c s hc (by rw [hv]; exact h32), hv]
      unfold G32
      rw [L3_succ, if_pos hc, ← fatBlock32 v h32]
      rcases hcr : cacheRead (fatBlock v c) s with ⟨r, s1⟩
      cases r with
      | ok u =>
        have hs1 : s1 = (cacheRead (fatBlock v c) s).2 := by rw [hcr]
        have hv1 : s1.vol = v := by rw [hs1, cacheRead_vol]; exact hv
        have ht1 : s1.cache.tag = some (fatBlock v c) := by
          rw [hs1]; exact cacheRead_ok_tag _ _ (by rw [hcr])
        have hb := hB fu' fu' (n' + 1) s1 hv1 ht1 (by omega) (by omega) (by omega)
        rw [model_hit32 v e n' c s1 hc hv1 h32 ht1] at hb
        have : fatEntOffset v c = c * 4 % 512 := by unfold fatEntOffset; rw [h32]; rfl
        simp only [this]
        rw [← hb]
        unfold H32
        simp only [bind_apply, hcr, cacheBlk]
      | err er => simp only [bind_apply, hcr]
      | panic m => simp only [bind_apply, hcr]
      | diverged => simp only [bind_apply, hcr]

end fat32

/-- **`find_next_free_cluster` whole.**  For every volume record, every start and end cluster, every
state (cache contents, fault schedule) and every fuel of at least `(end - start) + 2`, the translated
Rust function and the model's `findNextFree` are the same function of the state: same outcome, same
device reads, same cache afterwards.  (With less fuel the translation answers `diverged`; the Rust
loops run at most `end - start` entry steps and `end - start` block steps.) -/
theorem find_next_free_cluster_eq (start endC fuel : Nat) (hf : fuel ≥ (endC - start) + 2) :
    FunsM.FatVolume_find_next_free_cluster fuel start endC = findNextFree start endC := by
  funext s
  unfold FunsM.FatVolume_find_next_free_cluster findNextFree
  simp only [bind_apply, getVol_apply]
  rcases hft : s.vol.fatType
  · exact (main16 s.vol endC hft (endC - start) start (Nat.le_refl _)).1 fuel _ s rfl (by omega) (fun _ => hf)
      (Nat.le_refl _)
  · exact (main32 s.vol endC hft (endC - start) start (Nat.le_refl _)).1 fuel _ s rfl (by omega) (fun _ => hf)
      (Nat.le_refl _)

end Sdmmc.Props.C05GenM
