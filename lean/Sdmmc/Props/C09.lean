/-
C09 — Flushed data survives power loss at any later moment.

Property theorems only; helper lemmas live in `Sdmmc.Lemmas.DirFrames`, `DirEntryIO`, `DirFat`
(on top of `FatOps`, `FatLens`, `DirOps`, `Files`).

THE FULL THEOREM (not proved — partial).  With `g` the geometry, `Spec.Fs` the independent reader,
and `prefixes w` the media obtained by applying a prefix of the block-write sequence `w`:

    theorem c09_flushed_survives (s : Mgr) (ops₁ ops₂ : List Op) (file : Nat)
        (hmount : well-formed mounted volume, no faults, coherent cache, 512-byte blocks, FAT copies identical)
        (hflush : ops₁ ends in a successful `flush file` / `closeFile file`; length L, contents B at that point)
        (hother : no operation of ops₂ writes to, truncates, re-opens for writing or deletes that file) :
        ∀ d ∈ prefixes (all device writes of ops₂, started on (run s ops₁).1.dev.disk),
          Spec.Fs lookup g d (path of file) = some e ∧ L ≤ e.size ∧
          (Spec.Fs.fileBytes g d (chain of e.cluster) e.size).take L = B

THE ARGUMENT is a frame argument.  The PROTECTED positions `P` of a flushed file are: the 32 bytes of
its directory slot (`slotPos`), the bytes of the FAT entries of its chain in both FAT copies (`fatPos`),
and all bytes of its data clusters (`clusterPos`).  A device write "preserves `P`" when every protected
byte is the same before and after (`SameOn P`).  WHAT IS PROVED HERE: every single device write that
an operation on something else can issue preserves `P`, for an arbitrary fault-free coherent state:

* `protected_step` / `protected_steps`: the uniform statement for one raw device write and for a
  sequence of them;
* directory writers — `protected_flush`, `protected_create`, `protected_delete`, and in slot terms
  `slot_write_preserves_other_slots_flush` / `_create` / `_delete`; `create_only_overwrites_free_slot`
  (a live entry is never overwritten); `delete_changes_one_byte` (of a slot that matched the name);
* FAT writers — `protected_fat_update`, `fat_update_preserves_other_entries` (both copies);
  `protected_alloc`, `alloc_never_takes_used` (the cluster handed out was free, so it is on no chain
  whose entries are non-free; blocks of other clusters are untouched);
* data writers — `protected_zero`, `protected_data_write`, `data_write_stays_in_block`.

FINDING (see `Example.copy2_resynchronised`): "`update_fat c v` leaves the raw entry of every
`c' ≠ c` unchanged in BOTH copies" is FALSE without the hypothesis that the copies were identical:
`write_back_with_duplicate` writes the patched sector *of copy 1* over the sector of copy 2, so
any entry of that sector in which copy 2 differed is replaced by copy 1's value.  With identical
copies (`Mirror`, preserved by every FAT update — C16) the statement holds and is what is proved.

NOT PROVED: that every device write of every whole API call on *another* object is one of these
primitives with the side condition discharged (different slot: needs name uniqueness of C03;
different cluster / FAT entry: needs chain disjointness of C03); that `Spec.Fs` reads the protected
positions only; the "at least the flushed length" clause for appends to the same file.  The harness's
crash oracle covers these by cutting generated histories after every block write.
-/
import Sdmmc.Lemmas.DirFrames
import Sdmmc.Lemmas.DirEntryIO
import Sdmmc.Lemmas.DirFat

namespace Sdmmc.Props.C09
open Sdmmc.Model Sdmmc.Model.Fat Sdmmc.Spec

/-! ### Vocabulary -/

def NoFault (s : FS) : Prop := s.dev.faults = []
def Coherent (s : FS) : Prop := ∀ i, s.cache.tag = some i → s.cache.blk = s.dev.disk.get i
def BlocksOK (d : Disk) : Prop := ∀ i, (d.get i).length = 512
def HintOK (v : FatVolume) : Prop := ∀ n, v.nextFreeCluster = some n → 2 ≤ n
/-- FAT copy 2 is block-for-block identical to copy 1. -/
def Mirror (v : FatVolume) (d : Disk) : Prop :=
  ∀ c, c < endCluster v → ∀ b2, fatBlock2 v c = some b2 → d.get b2 = d.get (fatBlock v c)

def rawEntry (v : FatVolume) (d : Disk) (c : Nat) : Nat :=
  rawFatEntry v.fatType (d.get (fatBlock v c)) (fatEntOffset v c)
def rawEntry2 (v : FatVolume) (d : Disk) (c : Nat) : Option Nat :=
  (fatBlock2 v c).map fun b2 => rawFatEntry v.fatType (d.get b2) (fatEntOffset v c)
def entryOnDisk (v : FatVolume) (d : Disk) (c : Nat) : Nat :=
  let raw := rawFatEntry v.fatType (d.get (fatBlock v c)) (fatEntOffset v c)
  match v.fatType with | .fat16 => raw | .fat32 => raw % 268435456
def fatWrites (v : FatVolume) (c : Nat) : List Nat :=
  fatBlock v c :: (match fatBlock2 v c with | some b => [b] | none => [])

/-- The bytes at the (block, byte) positions `P` are the same on `d'` as on `d`. -/
def SameOn (P : Nat → Nat → Prop) (d d' : Disk) : Prop :=
  ∀ b i, P b i → (d'.get b).getD i 0 = (d.get b).getD i 0
/-- No position of `P` is a position of `Q`. -/
def Avoids (P Q : Nat → Nat → Prop) : Prop := ∀ b i, P b i → ¬ Q b i

/-- The 32 bytes of the directory slot at offset `off` of block `b`. -/
def slotPos (b off : Nat) : Nat → Nat → Prop := fun b' i => b' = b ∧ off ≤ i ∧ i < off + 32
/-- The bytes of the FAT entry of cluster `c`, in the first and (if any) the second FAT copy. -/
def fatPos (v : FatVolume) (c : Nat) : Nat → Nat → Prop := fun b i =>
  (b = fatBlock v c ∨ fatBlock2 v c = some b) ∧ fatEntOffset v c ≤ i ∧ i < fatEntOffset v c + entryWidth v.fatType
/-- Every byte of every block of data cluster `c`. -/
def clusterPos (v : FatVolume) (c : Nat) : Nat → Nat → Prop := fun b _ =>
  clusterToBlock v c ≤ b ∧ b < clusterToBlock v c + v.blocksPerCluster

/-! ### The uniform step -/

/-- One device write `(idx, payload)`: if the payload agrees with the old block `idx` on the
protected positions of that block, every protected byte of the medium is the same afterwards. -/
theorem protected_step (P : Nat → Nat → Prop) (d : Disk) (idx : Nat) (payload : Block)
    (h : ∀ i, P idx i → payload.getD i 0 = (d.get idx).getD i 0) : SameOn P d (d.set idx payload) :=
  Lemmas.DirEntryIO.sameOn_set P d idx payload h

/-- A sequence of device writes (oldest first), each agreeing on `P` with the medium it is applied
to: every protected byte is the same after the whole sequence — hence after every prefix of it. -/
theorem protected_steps (P : Nat → Nat → Prop) (ws : List (Nat × Block)) (d : Disk)
    (h : ∀ (pre : List (Nat × Block)) (w : Nat × Block) (post : List (Nat × Block)), ws = pre ++ w :: post →
      ∀ i, P w.1 i → w.2.getD i 0 = ((d.applyWrites pre).get w.1).getD i 0) :
    SameOn P d (d.applyWrites ws) :=
  Lemmas.DirEntryIO.sameOn_applyWrites P ws d h

/-! ### Directory writes -/

/-- Flushing (or truncate-on-open of) another entry `e`: positions outside `e`'s slot are untouched. -/
theorem protected_flush (s : FS) (e : DirEntry) (hn : NoFault s) (hc : Coherent s) (hb : BlocksOK s.dev.disk)
    (ho : e.entryOffset + 32 ≤ 512) (hname : e.name.length = 11)
    (P : Nat → Nat → Prop) (hP : Avoids P (slotPos e.entryBlock e.entryOffset)) :
    SameOn P s.dev.disk (writeEntryToDisk e s).2.dev.disk :=
  Lemmas.DirFrames.writeEntry_sameOn s e hn hc hb ho hname P hP

/-- Another file's slot `(b2, off2)` — in the same or another block — reads the same after entry `e`
was flushed. -/
theorem slot_write_preserves_other_slots_flush (s : FS) (e : DirEntry) (hn : NoFault s) (hc : Coherent s)
    (hb : BlocksOK s.dev.disk) (ho : e.entryOffset + 32 ≤ 512) (hname : e.name.length = 11) (hal : e.entryOffset % 32 = 0)
    (b2 off2 : Nat) (hal2 : off2 % 32 = 0) (hne : b2 ≠ e.entryBlock ∨ off2 ≠ e.entryOffset) :
    slice ((writeEntryToDisk e s).2.dev.disk.get b2) off2 32 = slice (s.dev.disk.get b2) off2 32 :=
  Lemmas.DirFrames.writeEntry_other_slot s e hn hc hb ho hname hal b2 off2 hal2 hne

/-- …after an entry was created somewhere else… -/
theorem slot_write_preserves_other_slots_create (name : Bytes) (att fc : Nat) (now : Timestamp) (n blockIdx : Nat)
    (s s' : FS) (e : DirEntry) (hn : NoFault s) (hc : Coherent s) (hb : BlocksOK s.dev.disk) (hname : name.length = 11)
    (h : writeNewBlocks name att fc now n blockIdx s = (.ok (some e), s'))
    (b2 off2 : Nat) (hal2 : off2 % 32 = 0) (hne : b2 ≠ e.entryBlock ∨ off2 ≠ e.entryOffset) :
    slice (s'.dev.disk.get b2) off2 32 = slice (s.dev.disk.get b2) off2 32 :=
  Lemmas.DirFrames.writeNewBlocks_other_slot name att fc now n blockIdx s s' e hn hc hb hname h b2 off2 hal2 hne

/-- …and after an entry was deleted: the slot that got the mark matched the deleted name, every
other slot reads the same. -/
theorem slot_write_preserves_other_slots_delete (name : Bytes) (n blockIdx : Nat) (s s' : FS) (hn : NoFault s)
    (hc : Coherent s) (h : deleteBlocks name n blockIdx s = (.ok true, s')) :
    ∃ b off, blockIdx ≤ b ∧ b < blockIdx + n ∧ off % 32 = 0 ∧
      OnDisk.matches (slice (s.dev.disk.get b) off 32) name = true ∧
      ∀ b2 off2, off2 % 32 = 0 → (b2 ≠ b ∨ off2 ≠ off) →
        slice (s'.dev.disk.get b2) off2 32 = slice (s.dev.disk.get b2) off2 32 :=
  Lemmas.DirFrames.deleteBlocks_other_slot name n blockIdx s s' hn hc h

/-- Creating an entry overwrites a slot that was NOT live (first byte `0x00` or `0xE5`) — the slot
recorded in the returned entry — and nothing else: any positions that avoid it are untouched
(`protected_create` is the last conjunct). -/
theorem create_only_overwrites_free_slot (name : Bytes) (att fc : Nat) (now : Timestamp) (n blockIdx : Nat) (s s' : FS)
    (e : DirEntry) (hn : NoFault s) (hc : Coherent s) (hb : BlocksOK s.dev.disk) (hname : name.length = 11)
    (h : writeNewBlocks name att fc now n blockIdx s = (.ok (some e), s')) :
    e = DirEntry.new name att fc now e.entryBlock e.entryOffset ∧
    blockIdx ≤ e.entryBlock ∧ e.entryBlock < blockIdx + n ∧ e.entryOffset + 32 ≤ 512 ∧ e.entryOffset % 32 = 0 ∧
    (byteAt (s.dev.disk.get e.entryBlock) e.entryOffset = 0 ∨ byteAt (s.dev.disk.get e.entryBlock) e.entryOffset = 0xE5) ∧
    (∀ b, b ≠ e.entryBlock → s'.dev.disk.get b = s.dev.disk.get b) ∧
    slice (s'.dev.disk.get e.entryBlock) e.entryOffset 32 = e.serialize s.vol.fatType ∧
    BlocksOK s'.dev.disk ∧
    ∀ P : Nat → Nat → Prop, Avoids P (slotPos e.entryBlock e.entryOffset) → SameOn P s.dev.disk s'.dev.disk :=
  Lemmas.DirFrames.writeNewBlocks_sameOn name att fc now n blockIdx s s' e hn hc hb hname h

/-- Deleting changes exactly byte `off` of one block `b`, where the slot at `off` matched the name
being deleted (so it is not the slot of a file with another name) and was not an end marker; every
other byte of the medium is identical (`protected_delete` is the last conjunct). -/
theorem delete_changes_one_byte (name : Bytes) (n blockIdx : Nat) (s s' : FS) (hn : NoFault s) (hc : Coherent s)
    (h : deleteBlocks name n blockIdx s = (.ok true, s')) :
    ∃ b off, blockIdx ≤ b ∧ b < blockIdx + n ∧ off + 32 ≤ 512 ∧ off % 32 = 0 ∧
      OnDisk.matches (slice (s.dev.disk.get b) off 32) name = true ∧ byteAt (s.dev.disk.get b) off ≠ 0 ∧
      s'.dev.disk = s.dev.disk.set b ((s.dev.disk.get b).set off (UInt8.ofNat 0xE5)) ∧
      (∀ b' i, (b' ≠ b ∨ i ≠ off) → (s'.dev.disk.get b').getD i 0 = (s.dev.disk.get b').getD i 0) ∧
      ∀ P : Nat → Nat → Prop, ¬ P b off → SameOn P s.dev.disk s'.dev.disk :=
  Lemmas.DirFrames.deleteBlocks_sameOn name n blockIdx s s' hn hc h

/-! ### FAT writes -/

/-- `update_fat c v` with identical FAT copies: positions that are not bytes of `c`'s entry (in
either copy) are untouched. -/
theorem protected_fat_update (s : FS) (c val : Nat) (hn : NoFault s) (hc : Coherent s)
    (hcl : c < endCluster s.vol) (hb : BlocksOK s.dev.disk) (hm : Mirror s.vol s.dev.disk)
    (P : Nat → Nat → Prop) (hP : Avoids P (fatPos s.vol c)) :
    SameOn P s.dev.disk (updateFat c val s).2.dev.disk :=
  Lemmas.DirFrames.updateFat_sameOn s c val hn hc hcl hb hm P hP

/-- `update_fat c v` leaves the raw entry of every other cluster of the volume unchanged — in copy
1 always, in copy 2 when the copies were identical (and then they still are). -/
theorem fat_update_preserves_other_entries (s : FS) (c val : Nat) (hn : NoFault s) (hc : Coherent s) (hg : WFGeom s.vol)
    (hcl : c < endCluster s.vol) (hb : BlocksOK s.dev.disk) :
    ∃ s', updateFat c val s = (.ok (), s') ∧ Coherent s' ∧ NoFault s' ∧ s'.vol = s.vol ∧ BlocksOK s'.dev.disk ∧
      (∀ c', c' < endCluster s.vol → c' ≠ c → rawEntry s.vol s'.dev.disk c' = rawEntry s.vol s.dev.disk c') ∧
      (Mirror s.vol s.dev.disk → Mirror s.vol s'.dev.disk ∧
        ∀ c', c' < endCluster s.vol → c' ≠ c → rawEntry2 s.vol s'.dev.disk c' = rawEntry2 s.vol s.dev.disk c') ∧
      (∀ i, i ∉ fatWrites s.vol c → s'.dev.disk.get i = s.dev.disk.get i) := by
  obtain ⟨s', h, a1, a2, a3, a4, _, _, _, a8, a9, a10⟩ := Lemmas.DirFat.updateFat_frame s c val hn hc hg hcl hb
  exact ⟨s', h, a1, a2, a3, a4, a8, a9, a10⟩

/-- If the bytes of `c`'s FAT entry are among the protected positions, its raw entry — both
copies — is the same on any medium that preserves them. -/
theorem protected_entry_reads_same (v : FatVolume) (d d' : Disk) (c : Nat) (P : Nat → Nat → Prop)
    (hP : ∀ b i, fatPos v c b i → P b i) (h : SameOn P d d') :
    rawEntry v d' c = rawEntry v d c ∧ rawEntry2 v d' c = rawEntry2 v d c :=
  Lemmas.DirFrames.rawEntry_of_sameOn v d d' c P hP h

/-- A whole allocation (`alloc_cluster(prev, zero)`): positions that are not bytes of the FAT entry
of the new cluster or of the predecessor, and — when the cluster is zeroed — not in the new
cluster's blocks, are untouched. -/
theorem protected_alloc (s s' : FS) (prev : Option Nat) (zero : Bool) (c : Nat) (hn : NoFault s) (hc : Coherent s)
    (hb : BlocksOK s.dev.disk) (hg : WFGeom s.vol) (hh : HintOK s.vol) (hm : Mirror s.vol s.dev.disk)
    (hp : ∀ p, prev = some p → p < endCluster s.vol)
    (h : allocCluster prev zero s = (.ok c, s'))
    (P : Nat → Nat → Prop) (hPc : Avoids P (fatPos s.vol c)) (hPp : ∀ p, prev = some p → Avoids P (fatPos s.vol p))
    (hPz : zero = true → Avoids P (clusterPos s.vol c)) :
    SameOn P s.dev.disk s'.dev.disk :=
  Lemmas.DirFrames.alloc_sameOn s s' prev zero c hn hc hb hg hh hm hp h P hPc hPp hPz

/-- The cluster an allocation returns had a free entry — so it is none of the clusters `c'` whose
entry is non-free, in particular no cluster of a flushed file's chain —, and the data blocks of every
other cluster of the volume are untouched by the allocating call (zeroing included). -/
theorem alloc_never_takes_used (s s' : FS) (prev : Option Nat) (zero : Bool) (c : Nat) (hn : NoFault s) (hc : Coherent s)
    (hb : BlocksOK s.dev.disk) (hg : WFGeom s.vol) (hh : HintOK s.vol)
    (hp : ∀ p, prev = some p → p < endCluster s.vol)
    (h : allocCluster prev zero s = (.ok c, s')) :
    entryOnDisk s.vol s.dev.disk c = 0 ∧
    (∀ c', entryOnDisk s.vol s.dev.disk c' ≠ 0 → c' ≠ c) ∧
    (∀ c' j, 2 ≤ c' → c' < endCluster s.vol → c' ≠ c → j < s.vol.blocksPerCluster →
      s'.dev.disk.get (clusterToBlock s.vol c' + j) = s.dev.disk.get (clusterToBlock s.vol c' + j)) := by
  obtain ⟨_, _, hfree⟩ := Lemmas.FatOps.alloc_in_range_and_free s s' prev zero c hn hc hh h
  exact ⟨hfree, fun c' hne e => hne (by rw [e]; exact hfree),
    fun c' j h2 hE hne hj => Lemmas.DirFrames.alloc_other_cluster_blocks s s' prev zero c hn hc hb hg hh hp h c' j h2 hE hne hj⟩

/-! ### Data writes -/

/-- Zeroing a run of blocks: positions in other blocks are untouched. -/
theorem protected_zero (s : FS) (n first : Nat) (hn : NoFault s) (P : Nat → Nat → Prop)
    (hP : ∀ b i, P b i → ¬ (first ≤ b ∧ b < first + n)) :
    SameOn P s.dev.disk (zeroBlocks n first s).2.dev.disk :=
  Lemmas.DirFrames.zeroBlocks_sameOn s n first hn P hP

/-- The block write of `write` (`writeBlockPart blk off data whole`): it succeeds, writes block
`blk` only, and preserves any positions `P` whose members in block `blk` — if any — lie outside the
written range of a read-modify-write. -/
theorem protected_data_write (blockIdx off : Nat) (data : Bytes) (whole : Bool) (s : FS)
    (hn : NoFault s) (hc : Coherent s) (P : Nat → Nat → Prop)
    (hP : ∀ i, P blockIdx i → whole = false ∧ off + data.length ≤ (s.dev.disk.get blockIdx).length ∧
      (i < off ∨ off + data.length ≤ i)) :
    (writeBlockPart blockIdx off data whole s).1 = .ok () ∧
    (∀ b, b ≠ blockIdx → (writeBlockPart blockIdx off data whole s).2.dev.disk.get b = s.dev.disk.get b) ∧
    SameOn P s.dev.disk (writeBlockPart blockIdx off data whole s).2.dev.disk :=
  Lemmas.DirFrames.writeBlockPart_sameOn blockIdx off data whole s hn hc P hP

/-- A write into a block of file A's cluster `cA` never touches a block of file B's cluster `cB`
when the clusters differ. -/
theorem data_write_stays_in_block (v : FatVolume) (hg : WFGeom v) (cA jA off : Nat) (data : Bytes) (whole : Bool)
    (s : FS) (hn : NoFault s) (hc : Coherent s) (hA2 : 2 ≤ cA) (hAE : cA < endCluster v) (hjA : jA < v.blocksPerCluster)
    (cB jB : Nat) (hB2 : 2 ≤ cB) (hBE : cB < endCluster v) (hjB : jB < v.blocksPerCluster) (hne : cB ≠ cA) :
    (writeBlockPart (clusterToBlock v cA + jA) off data whole s).1 = .ok () ∧
    (writeBlockPart (clusterToBlock v cA + jA) off data whole s).2.dev.disk.get (clusterToBlock v cB + jB) =
      s.dev.disk.get (clusterToBlock v cB + jB) :=
  Lemmas.DirFrames.writeBlockPart_other_cluster v hg cA jA off data whole s hn hc hA2 hAE hjA cB jB hB2 hBE hjB hne

/-! ### Non-vacuity and the finding (tests, labelled as tests) -/

namespace Example

/-- A 20-cluster FAT16 volume with two FAT copies (sectors 1 and 3), one block per cluster. -/
def vol : FatVolume :=
  { lbaStart := 0, numBlocks := 200, name := [], blocksPerCluster := 1, firstDataBlock := 10, fatStart := 1,
    secondFatStart := some 3, freeClustersCount := none, nextFreeCluster := none, clusterCount := 20,
    fatType := .fat16, rootEntriesCount := 16, firstRootDirBlock := 9, infoLocation := 0, firstRootDirCluster := 0 }
/-- Copy 1: clusters 2 and 3 free. -/
def fat1 : Block := [0xF8, 0xFF, 0xFF, 0xFF, 0, 0, 0, 0] ++ zeros 504
/-- Copy 2 differs from copy 1 at cluster 3 (reads 9). -/
def fat2 : Block := [0xF8, 0xFF, 0xFF, 0xFF, 0, 0, 9, 0] ++ zeros 504
/-- A state whose two FAT copies are NOT identical. -/
def stBad : FS := { dev := { disk := (Disk.empty.set 1 fat1).set 3 fat2 }, cache := {}, vol := vol }
/-- A state whose two FAT copies are identical. -/
def stGood : FS := { dev := { disk := (Disk.empty.set 1 fat1).set 3 fat1 }, cache := {}, vol := vol }

example : NoFault stBad ∧ NoFault stGood := ⟨rfl, rfl⟩
example : Coherent stBad := by intro i h; cases h

/-- FINDING: without identical copies, updating cluster 2 changes the copy-2 entry of cluster 3
(from 9 to copy 1's value 0) … -/
theorem copy2_resynchronised :
    rawEntry2 vol stBad.dev.disk 3 = some 9 ∧
    rawEntry2 vol (updateFat 2 Gen.CLUSTER_END_OF_FILE stBad).2.dev.disk 3 = some 0 := by decide +kernel

/-- … while copy 1's entry of cluster 3 is untouched, as it is in both copies when they agree. -/
example : rawEntry vol (updateFat 2 Gen.CLUSTER_END_OF_FILE stBad).2.dev.disk 3 = rawEntry vol stBad.dev.disk 3 ∧
    rawEntry2 vol (updateFat 2 Gen.CLUSTER_END_OF_FILE stGood).2.dev.disk 3 = rawEntry2 vol stGood.dev.disk 3 ∧
    rawEntry vol (updateFat 2 Gen.CLUSTER_END_OF_FILE stGood).2.dev.disk 2 = 0xFFFF := by decide +kernel

/-- Two different slot-aligned slots are disjoint sets of positions; a slot avoids itself never. -/
example : Avoids (slotPos 9 32) (slotPos 9 0) := by
  rintro b i ⟨_, h2, _⟩ ⟨_, _, h6⟩; omega
example : ¬ Avoids (slotPos 9 32) (slotPos 9 32) := fun h => h 9 32 ⟨rfl, by omega, by omega⟩ ⟨rfl, by omega, by omega⟩

/-- A data write to block 10 (cluster 2) leaves block 11 (cluster 3) alone. -/
example : (writeBlockPart 10 0 [1, 2, 3] false stGood).2.dev.disk.get 11 = stGood.dev.disk.get 11 := by decide +kernel

end Example

end Sdmmc.Props.C09
