/-
C04 — HEADLINE THEOREM.

PROPERTY (verbatim from `properties.jsonl`).
statement:
  "Every block the library writes lies inside the partition of the volume being operated on and inside the region
  appropriate to its purpose; the master boot record, boot sector, other partitions and blocks past the last cluster
  are never written. Within the data area a call only changes bytes of the file range it was asked to write, of
  clusters it newly allocated, or of the directory slot it owns; within the FAT only entries of chains it extends,
  truncates or frees; all other bytes of every rewritten block are preserved."
quantifier:
  "every block write issued during any history, on single- and multi-partition devices, including the states where
  the volume has no free cluster left and where the last FAT sector has unused slack entries"

HOW TO READ `C04_main`.
* `run s ops` runs the history `ops` from the manager state `s` (`Model/Mgr.lean`); `sk = (run s (ops.take k)).1` is the state
  the `k`-th call `op = ops[k]` is issued in; `(step sk op).2.writes` are the device writes `(block number, 512-byte
  payload)` of that call, oldest first — they ARE the writes of the `k`-th output of the history (first conjunct) —, and
  `(step sk op).1` the state it leaves.  Every block write of every history is such a `w`.
* `VolInvN`, `MirrorN`, `volFiles`, `volDirs` (`Spec/VolumeN.lean`): the invariant of API histories with several open
  volumes on one device (single- and multi-partition devices alike), one ghost `gh` per open volume (`gh.vol` its
  record, `gh.G` ALL its cluster chains); identical FAT copies; the open files / directories of one volume.
* `workTarget sk op` (`Props.C04Multi`): the index of the volume record "being operated on": the record named through the
  call's directory / file / volume handle (`Spec.Volume.target`; for `close_volume v` the record carrying `v`); `none`
  for `open_volume`, `open_root_dir`, `close_dir`, `has_open_handles` and calls whose handle names no open record.
* `InPartition v b`: `v.lbaStart ≤ b < v.lbaStart + v.numBlocks` (`Spec/DataPlane.lean`).  `regionOf v b` (`Spec/Geom.lean`)
  classifies a block: `outside` the partition, the `boot` sector `lbaStart`, the FAT32 `info` sector, `reserved`, `fat`
  (both copies), the FAT16 `root` directory, `data` (the blocks of clusters `2 … endCluster - 1`), `tail` (past the last
  cluster).
* `Licence`, `Licensed`, `AllLicensed` (`Spec/WriteSet.lean`, nothing but definitions): a licence names what a call may
  change — `fatClusters` (clusters whose FAT ENTRIES may change), `dataClusters` (clusters whose blocks may change),
  `slots` (32-byte directory slots `(block, offset)`), `info` (bytes 488 … 495 of the FAT32 info sector), `files` (byte
  ranges `(chain, lo, hi)` of a file).  `AllLicensed v d L ws`: every write of `ws`, judged against the medium the
  earlier ones produced from `d`, is a 512-byte payload for (a) a FAT block in which only bytes of licensed entries
  differ from the medium (FAT32: the top four bits of every entry kept), (b) a block of a licensed data cluster, (c) a
  directory block in which only bytes of licensed slots differ, (d) the info sector with only bytes 488 … 495
  differing, or (e) a block of a cluster of a licensed file in which only bytes holding licensed positions differ.
  `Covers v L b i` (`Props.C04Hist.covers_def`): byte `i` of block `b` is one of those bytes.
* `LicenceFor gh files dirs d op L` (`Lemmas/WriteSetInv.lean`, an inductive relation with one constructor per kind of
  outcome; described in the header of `Props/C04Hist.lean`): `L` is the licence of `op`, read off the state BEFORE the
  call: `nothing` (empty: read-only calls, refused calls, `NotFound`, …); `write` — the FAT entries of the LAST cluster
  of the file's chain and of the appended clusters (in NO chain before), the bytes `[offset, offset + k)` of the file
  (`k ≤ |data|` stored); `flush` / `closeFile` — the slot of the written-to file (+ info); `closeVolume` — info;
  `delete` / `truncate` — the slot of THAT closed file and the FAT entries of ITS chain; `createSlot` — one FREE aligned
  slot of a block of the directory; `createGrow` — the FAT entries of the directory's last cluster and of a FREE
  cluster `c`, the blocks of `c`; `mkdirSlot` / `mkdirGrow` / `mkdirFull` — the FREE cluster of the new directory (entry,
  blocks) + as for create.

CLAUSES (`WritesOK sk ghs op`), for the `k`-th call of ANY history, in the order of the sentence:
  (inside)  every write goes to a block of the partition of the volume being operated on, in its FAT region, FAT16 root
            region, data region, or to its info sector;
  (never)   no write goes to block 0 (the master boot record), to the boot sector of any open volume, to a reserved block
            or a block past the last cluster of any open volume, or into the partition of an open volume other than
            the one operated on; and (others) every block of the partition of every OTHER open volume is the same after
            the call;
  (licence) the call has a licence `L`, described by `LicenceFor` from the ghost of ITS volume, the open files /
            directories of ITS volume and the medium before the call — within the data area: the file range it was
            asked to write, FREE clusters it newly allocated, the directory slot it owns; within the FAT: entries of the
            chain it extends, truncates or frees —; every write is licensed by it (`AllLicensed`); the licensed FAT
            clusters are clusters of the volume (`< endCluster`: never a slack entry of the last FAT sector), licensed
            slots are aligned slots of directory blocks, licensed file chains consist of data clusters; the medium after
            the call is the medium before with exactly these writes applied; and (frame) EVERY BYTE THE LICENCE DOES NOT
            COVER IS THE SAME AFTER THE CALL — all other bytes of every rewritten block are preserved;
  (nothing) a call that operates on no volume record writes nothing.
and, tying the block addressing to the source text:
  (source)  `FatVolume::cluster_to_block`, `update_fat` (the only writer of FAT blocks, both copies) and
            `update_info_sector`, MACHINE-TRANSLATED whole from fat/volume.rs (`Gen/FunsM.lean`), are the model's
            functions (`Props.C04GenM`).

HYPOTHESES.
* `VolInvN s ghs`, `MirrorN s ghs` at the start: hold of a fresh manager (`Lemmas.Main.fresh_manager_invariant`, second
  example below); preserved by every covered history (`Props.C03Multi.api_history_invariant_multi`).  Both are needed:
  with FAT copies that differ `update_fat` copies the whole block of copy 1 over copy 2 and changes an unrelated entry
  there (`Props.C04Api.Example.mirror_needed`); on a corrupt FAT whose directory chain leaves the volume the walk writes
  outside the partition (`Props.C04Api.Example32.corrupt_dir_chain_escapes`) — the model, like the Rust, follows the chain.
* `CoveredNRun s ops`: about `open_volume` calls that SUCCEED only (fresh handle, partition overlapping no open one, the
  mounted record sound with identical FAT copies: `Props.C15Fs.mount_establishes_invariant`).
No hypothesis on fill level (no free cluster left: the licence is `nothing` or a licensed prefix, `Props.C05Capacity`), on
names, on the geometry beyond `WFGeom` (part of the invariant).

STATUS: PROVED IN FULL.  Deviations, all towards a stronger or more explicit statement: for `write` NO cluster is
licensed wholesale, not even the newly allocated ones (every data write is of kind (e) for `[offset, offset + k)`);
"other partitions" is proved for the partitions of OPEN volumes (`VolInvN.parts`: pairwise disjoint) and, for all others,
follows from (inside) whenever the partition table is sound (partitions of the MBR do not overlap — the MBR is not part
of the invariant).  Device faults are C11 (`VolInvN.noFault`).
-/
import Sdmmc.Lemmas.MainC04
import Sdmmc.Lemmas.MainBase
import Sdmmc.Props.C04GenM

namespace Sdmmc.Props.C04Main
open Sdmmc.Model Sdmmc.Model.Fat Sdmmc.Spec.Volume
open Sdmmc.Spec hiding run step NoFault Coherent
open Sdmmc.Props.C03Multi (CoveredNRun)
open Sdmmc.Props.C04Multi (workTarget)
open Sdmmc.Lemmas.WriteSetInv (LicenceFor Covers)

/-- The clauses of the sentence for ONE call `op` issued in the state `sk` (ghosts `ghs`). -/
structure WritesOK (sk : Mgr) (ghs : List Ghost) (op : Op) : Prop where
  inside : ∀ w, w ∈ (step sk op).2.writes → ∃ (i : Nat) (vi : VolInfo), workTarget sk op = some i ∧ sk.vols[i]? = some vi ∧
    InPartition vi.vol w.1 ∧
    (regionOf vi.vol w.1 = .fat ∨ regionOf vi.vol w.1 = .root ∨ regionOf vi.vol w.1 = .data ∨ regionOf vi.vol w.1 = .info)
  never : ∀ w, w ∈ (step sk op).2.writes → w.1 ≠ 0 ∧ ∀ (j : Nat) (vj : VolInfo), sk.vols[j]? = some vj →
    w.1 ≠ vj.vol.lbaStart ∧ regionOf vj.vol w.1 ≠ .boot ∧ regionOf vj.vol w.1 ≠ .reserved ∧ regionOf vj.vol w.1 ≠ .tail ∧
    (workTarget sk op ≠ some j → ¬ InPartition vj.vol w.1)
  others : ∀ (j : Nat) (vj : VolInfo), sk.vols[j]? = some vj → workTarget sk op ≠ some j →
    ∀ b, InPartition vj.vol b → (step sk op).1.dev.disk.get b = sk.dev.disk.get b
  licence : ∀ (i : Nat) (vi : VolInfo) (gh : Ghost), workTarget sk op = some i → sk.vols[i]? = some vi → ghs[i]? = some gh →
    ∃ L, LicenceFor gh (volFiles sk vi.rawVolume) (volDirs sk vi.rawVolume) sk.dev.disk op L ∧
      AllLicensed gh.vol sk.dev.disk L (step sk op).2.writes ∧
      ((∀ c, c ∈ L.fatClusters → c < endCluster gh.vol) ∧
        (∀ p, p ∈ L.slots → p.2 % 32 = 0 ∧ (regionOf gh.vol p.1 = .root ∨ regionOf gh.vol p.1 = .data)) ∧
        (∀ r, r ∈ L.files → ∀ c, c ∈ r.1 → InRange gh.vol c)) ∧
      (∀ b, (step sk op).1.dev.disk.get b = (sk.dev.disk.applyWrites (step sk op).2.writes).get b) ∧
      -- (frame)
      ∀ b i, ¬ Covers gh.vol L b i → ((step sk op).1.dev.disk.get b).getD i 0 = (sk.dev.disk.get b).getD i 0
  nothing : workTarget sk op = none → (step sk op).2.writes = [] ∧ (step sk op).1.dev.disk = sk.dev.disk

/-- A block of region `fat`, `root`, `data` or `info` is not the boot sector, not reserved, not past the last cluster. -/
theorem good_region {v : FatVolume} {b : Nat}
    (h : regionOf v b = .fat ∨ regionOf v b = .root ∨ regionOf v b = .data ∨ regionOf v b = .info) :
    regionOf v b ≠ .boot ∧ regionOf v b ≠ .reserved ∧ regionOf v b ≠ .tail := by
  rcases h with h | h | h | h <;> rw [h] <;> exact ⟨nofun, nofun, nofun⟩

/-- A block outside a partition is in none of its regions. -/
theorem outside_region {v : FatVolume} {b : Nat} (h : ¬ InPartition v b) : regionOf v b = .outside := by
  unfold regionOf
  rw [if_pos]
  unfold InPartition at h
  omega

/-- Every call of a manager satisfying the multi-volume invariant (identical FAT copies) satisfies the clauses. -/
theorem writesOK_of_inv {sk : Mgr} {ghs : List Ghost} (hI : VolInvN sk ghs) (hm : MirrorN sk ghs) (op : Op) :
    WritesOK sk ghs op where
  inside := fun w hw => by
    obtain ⟨i, vi, h1, h2, h3, _, h5⟩ := C04Multi.step_stays_in_volume sk op ghs hI hm w hw
    exact ⟨i, vi, h1, h2, h3, h5⟩
  never := fun w hw => by
    obtain ⟨i, vi, h1, h2, h3, h4, h5⟩ := C04Multi.step_stays_in_volume sk op ghs hI hm w hw
    refine ⟨h4, fun j vj hvj => ?_⟩
    by_cases hj : workTarget sk op = some j
    · have hij : i = j := Option.some.inj (h1.symm.trans hj)
      subst hij
      have hv : vj = vi := Option.some.inj (hvj.symm.trans h2)
      subst hv
      obtain ⟨g1, g2, g3⟩ := good_region h5
      refine ⟨fun e => g1 ?_, g1, g2, g3, fun h => absurd hj h⟩
      unfold regionOf
      rw [if_neg (by unfold InPartition at h3; omega), if_pos e]
    · have hout := Lemmas.MainC04.write_not_in_other hI hm op w hw hvj hj
      have hr := outside_region hout
      refine ⟨fun e => hout ?_, by rw [hr]; nofun, by rw [hr]; nofun, by rw [hr]; nofun, fun _ => hout⟩
      exact e ▸ Lemmas.MainC04.boot_in_partition (Lemmas.MainC04.vol_geom hI hvj)
  others := fun j vj hvj hnt b hb => Lemmas.MainC04.others_unchanged hI hm op hvj hnt b hb
  licence := fun i vi gh hwt hvi hgh => by
    obtain ⟨L, h1, h2, h3⟩ := C04Multi.step_licensed_work sk op ghs hI hm hwt hvi hgh
    have hwf := Lemmas.MainC04.licence_wf hI hvi hgh h1
    refine ⟨L, h1, h2, ⟨hwf.fatRange, hwf.slots, hwf.files⟩, h3, fun b i hn => ?_⟩
    rw [h3 b]
    exact Lemmas.WriteSetInv.allLicensed_frame hn _ _ h2
  nothing := fun h => C04Multi.unaddressed_writes_nothing sk op ghs hI h

/-- **C04.**  See the header. -/
theorem C04_main :
    (∀ (ops : List Op) (s : Mgr) (ghs : List Ghost), VolInvN s ghs → MirrorN s ghs → CoveredNRun s ops →
      ∀ (k : Nat) (op : Op), ops[k]? = some op → ∀ sk, (run s (ops.take k)).1 = sk →
        (run s ops).2[k]? = some (step sk op).2 ∧
        ∃ ghs', VolInvN sk ghs' ∧ MirrorN sk ghs' ∧ WritesOK sk ghs' op) ∧
    -- (source)
    (Gen.FunsM.FatVolume_cluster_to_block = clusterToBlock ∧
      (∀ cluster newValue, Gen.FunsM.FatVolume_update_fat cluster newValue = updateFat cluster newValue) ∧
      Gen.FunsM.FatVolume_update_info_sector = updateInfoSector) := by
  refine ⟨fun ops s ghs hI hm hc k op hop sk hsk => ?_,
    C04GenM.cluster_to_block_eq, C04GenM.update_fat_eq, C04GenM.update_info_sector_eq⟩
  subst hsk
  have hk : k < ops.length := (List.getElem?_eq_some_iff.1 hop).1
  have hop' : ops[k] = op := (List.getElem?_eq_some_iff.1 hop).2
  obtain ⟨ghs', hI', hm'⟩ := C03Multi.api_history_invariant_multi_prefix ops s ghs hI hm hc k
  refine ⟨?_, ghs', hI', hm', writesOK_of_inv hI' hm' op⟩
  rw [← hop']
  exact C04Multi.run_getElem s ops k hk

/-! ### Non-vacuity -/

namespace Example
open Sdmmc.Lemmas.VolExample Sdmmc.Lemmas.VolN.Example2
open Sdmmc.Props.C03Multi.Example (two_volumes two_volumes_mirror ops ops_covered)

/-- On the two-partition medium of `Props.C03Multi` (a FAT16 volume in blocks 0 … 39, a FAT32 volume in blocks 40 … 79,
both open) and its 14-call history `ops`, the theorem applies to every call. -/
example (k : Nat) (op : Op) (hop : ops[k]? = some op) :=
  C04_main.1 ops mgr2 ghs2 two_volumes two_volumes_mirror ops_covered k op hop _ rfl

/-- From a fresh manager: the start hypotheses hold outright. -/
example (s : Mgr) (hf : s.dev.faults = []) (hcc : ∀ i, s.cache.tag = some i → s.cache.blk = s.dev.disk.get i)
    (hl : s.locked = false) (hv : s.vols = []) (hd : s.dirs = []) (hfl : s.files = []) (ops : List Op)
    (hc : CoveredNRun s ops) (k : Nat) (op : Op) (hop : ops[k]? = some op) :=
  C04_main.1 ops s [] (Lemmas.Main.fresh_manager_invariant s hf hcc hl hv hd hfl).1
    (Lemmas.Main.fresh_manager_invariant s hf hcc hl hv hd hfl).2 hc k op hop _ rfl

/-- Evaluated (TEST, `Props.C04Multi.Example`): the volume record each of the 14 calls works on and the blocks it writes —
calls on record 0 write blocks 1 … 39 only, calls on record 1 blocks 41 … 79 only, a call on no record nothing. -/
example := C04Multi.Example.ops_targets_and_blocks
example := C04Multi.Example.ops_blocks_in_partitions

/-- The two hypotheses that are not bookkeeping, at their excluded points (`Props.C04Api.Example.mirror_needed`: FAT copies
that differ; `Props.C04Api.Example32.corrupt_dir_chain_escapes`: a directory chain that leaves the volume). -/
example := @C04Api.Example.mirror_needed
example := @C04Api.Example32.corrupt_dir_chain_escapes

end Example

end Sdmmc.Props.C04Main
