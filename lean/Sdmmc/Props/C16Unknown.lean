/-
C16 — "a count marked unknown stays unknown", through ALL 24 calls and every history.

C16: "… after a flush or volume close the stored free-cluster count has changed by exactly the change in the number of
free FAT entries since mount (so a count that was correct stays correct and ONE MARKED UNKNOWN STAYS UNKNOWN) …".

`Props.C16Hist` has this for FAT-engine operations, `Props.C16Api` for `write`; `Props.C16Main` lists it as missing for
histories of all calls.  Here it is proved for every call and every history, for one and for several open volumes.

HOW.  No look at the code of the calls is needed.  `Props.C16Hist2.step_accounting` says: every call keeps `Bal δ` — the
in-memory count, WHEN KNOWN, plus `δ` is the number of free FAT entries — for EVERY offset `δ` in the range `DeltaOK`.  An
unknown count is in balance with every offset; `0` and `-1` are both in range (`Lemmas.CountUnknown.deltaOK_neg_one`); so
after the call the record is in balance with offsets `0` and `-1` — were its count known, it would equal the number of free
entries and that number plus one.  (`Lemmas/CountUnknown.lean`.)

WHAT IS PROVED.
* `unknown_stays_unknown_step`, **`unknown_stays_unknown_history`** (one open volume: `VolInvM`, `CoveredRun` — the
  hypotheses of `Props.C16Hist2`): if the count of every open volume is unknown, it is unknown after every call / after
  every prefix of every history.  All 24 constructors of `Op`, whatever the calls answer.
* `unknown_stays_unknown_step_multi` (several open volumes, `Props.C16Multi.VolInvCN`): a call keeps the count of the open
  volume with handle `h` unknown; `unknown_stays_unknown_history_multi`: every history without `open_volume` does, after
  every prefix (a history with mounts: apply the step theorem call by call — a mount may hand out the handle `h` again
  after volume `h` was closed and the 32-bit handle generator wrapped; the theorem cannot know what that mount reads).
* **`unknown_count_never_stored`** (FAT32): along such a history the COUNT WORD of the info sector (bytes 488 … 491) is,
  whenever a call has returned, the word at the start — `flush_file`, `close_file` and `close_volume` store the hint but
  never a count (`Props.C16Info.step_info`: they patch the sector with `infoPatch`, which leaves the word of an unknown
  value alone).  In particular a stored `0xFFFFFFFF` — what makes mounting read "unknown" (`normCount_unknown`) — stays
  `0xFFFFFFFF` (`stored_unknown_stays`): the next mount reads "unknown" again.
  FINDING (behaviour, not a defect of the statement): the word that stays is WHATEVER was stored.  If the in-memory count is
  unknown for another reason than a stored `0xFFFFFFFF` (in the crate: never — `Info.parse` maps exactly `0xFFFFFFFF` to
  `None`; in the model any state may be given), a stale stored count survives every flush: `Props.C16Info.Example.opsN_run`
  (stored 15, 14 clusters free at the end).
-/
import Sdmmc.Lemmas.CountUnknown
import Sdmmc.Props.C16Info

namespace Sdmmc.Props.C16Unknown
open Sdmmc.Model Sdmmc.Model.Fat Sdmmc.Spec.Volume
open Sdmmc.Spec hiding run step NoFault Coherent
open Sdmmc.Props.C03Inv (Covered CoveredRun)
open Sdmmc.Props.C04Hist (VolInvM)
open Sdmmc.Props.C16Multi (VolInvCN CoveredCN isMount)
open Sdmmc.Lemmas.CountUnknown (UnknownAt)

theorem unknownAt_def (h : Nat) (s : Mgr) :
    UnknownAt h s ↔ ∀ w, w ∈ s.vols → w.rawVolume = h → w.vol.freeClustersCount = none := Iff.rfl

/-- How mounting reads a stored count: exactly `0xFFFFFFFF` is "unknown". -/
theorem normCount_unknown (n : Nat) : C16Api.normCount n = none ↔ n = 0xFFFFFFFF := by
  unfold C16Api.normCount
  split <;> simp_all

/-! ### One open volume -/

/-- **One call.**  Every covered call — all 24 constructors of `Op`, whatever it answers — leaves every count unknown that
was unknown. -/
theorem unknown_stays_unknown_step {s : Mgr} {gh : Ghost} (hI : VolInvM s gh) (op : Op) (hc : Covered s op)
    (hu : ∀ vi, vi ∈ s.vols → vi.vol.freeClustersCount = none) :
    ∀ vi, vi ∈ (step s op).1.vols → vi.vol.freeClustersCount = none :=
  Lemmas.CountUnknown.step_unknown hI op hc hu

/-- **Every history**, after every prefix. -/
theorem unknown_stays_unknown_history (ops : List Op) {s : Mgr} {gh : Ghost} (hI : VolInvM s gh) (hc : CoveredRun s ops)
    (hu : ∀ vi, vi ∈ s.vols → vi.vol.freeClustersCount = none) (k : Nat) :
    ∀ vi, vi ∈ (run s (ops.take k)).1.vols → vi.vol.freeClustersCount = none :=
  Lemmas.CountUnknown.history_unknown ops hI hc hu k

/-- **What flush / close / close_volume store while the count is unknown: no count.**  Along every covered history from a
FAT32 state whose count is unknown, the count word of the info sector is the one at the start, after every prefix. -/
theorem unknown_count_never_stored (ops : List Op) {s : Mgr} {gh : Ghost} (hI : VolInvM s gh) (hc : CoveredRun s ops)
    (h32 : gh.vol.fatType = .fat32) (hu : ∀ vi, vi ∈ s.vols → vi.vol.freeClustersCount = none) (k : Nat) :
    (∀ vi, vi ∈ (run s (ops.take k)).1.vols → vi.vol.freeClustersCount = none) ∧
    readU32 ((run s (ops.take k)).1.dev.disk.get gh.vol.infoLocation) 488 =
      readU32 (s.dev.disk.get gh.vol.infoLocation) 488 :=
  ⟨unknown_stays_unknown_history ops hI hc hu k,
   C16Info.history_count_word_kept ops s gh hI hc h32 (fun j => unknown_stays_unknown_history ops hI hc hu j) k⟩

/-- A stored `0xFFFFFFFF` stays `0xFFFFFFFF`: whatever is flushed or closed, the next mount reads the count as unknown. -/
theorem stored_unknown_stays (ops : List Op) {s : Mgr} {gh : Ghost} (hI : VolInvM s gh) (hc : CoveredRun s ops)
    (h32 : gh.vol.fatType = .fat32) (hu : ∀ vi, vi ∈ s.vols → vi.vol.freeClustersCount = none)
    (hst : readU32 (s.dev.disk.get gh.vol.infoLocation) 488 = 0xFFFFFFFF) (k : Nat) :
    C16Api.normCount (readU32 ((run s (ops.take k)).1.dev.disk.get gh.vol.infoLocation) 488) = none := by
  rw [(unknown_count_never_stored ops hI hc h32 hu k).2, hst]
  exact (normCount_unknown _).2 rfl

/-! ### Several open volumes -/

/-- **One call, several open volumes**: the open volume with handle `h` keeps its count unknown. -/
theorem unknown_stays_unknown_step_multi {s : Mgr} {ghs : List Ghost} {δ : Nat → Int} (hI : VolInvCN s ghs δ) (op : Op)
    (hc : CoveredCN δ s op) {h : Nat} (hopen : h ∈ s.vols.map (·.rawVolume)) (hu : UnknownAt h s) :
    UnknownAt h (step s op).1 :=
  Lemmas.CountUnknown.step_unknown_multi hI op hc hopen hu

/-- **Every history without `open_volume`, several open volumes**, after every prefix. -/
theorem unknown_stays_unknown_history_multi (ops : List Op) {s : Mgr} {ghs : List Ghost} {δ : Nat → Int}
    (hI : VolInvCN s ghs δ) (hnm : (ops.all fun op => !isMount op) = true) {h : Nat} (hu : UnknownAt h s) (k : Nat) :
    UnknownAt h (run s (ops.take k)).1 :=
  Lemmas.CountUnknown.history_unknown_multi ops hI hnm hu k

/-! ### Non-vacuity -/

namespace Example
open Sdmmc.Lemmas.VolExample Sdmmc.Lemmas.VolN.Example2
open Sdmmc.Props.C16Info.Example (mgrN ghN mgrN_inv mirrorN opsN opsN_covered)

/-- The FAT32 example volume mounted with the count unknown, and the history create / write 1200 bytes / flush / close /
delete / close both directories / close the volume: the theorem applies (no evaluation) … -/
example (k : Nat) := unknown_count_never_stored opsN (s := mgrN) (gh := ghN) ⟨mgrN_inv, mirrorN⟩ opsN_covered rfl
  (fun vi hvi => by rw [List.mem_singleton.1 hvi]; rfl) k

/-- … and agrees with the evaluation of `Props.C16Info.Example` (`opsN_unknown`, `opsN_run`: the info sector is written
three times, the count word never). -/
example := C16Info.Example.opsN_run

/-- Two open volumes (`Props.C16Multi.Example`): the FAT16 volume (handle 1) carries no count — unknown by nature — and
keeps it that way through the 14-call history on both volumes. -/
example (k : Nat) := unknown_stays_unknown_history_multi C03Multi.Example.ops C16Multi.Example.invCN2 (by decide) (h := 1)
  (fun w hw e => by
    have : w = { rawVolume := 1, idx := 0, vol := vol16 } ∨ w = { rawVolume := 5, idx := 1, vol := vol32b } := by
      simpa [mgr2] using hw
    rcases this with rfl | rfl
    · rfl
    · cases e) k

end Example

end Sdmmc.Props.C16Unknown
