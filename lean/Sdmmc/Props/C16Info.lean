/-
C16 — the FAT32 info sector (the STORED free-space record) over ALL calls.

`Props.C16Hist2` carries the IN-MEMORY record through every call; `Props.C16Api` says what `flush_file` /
`close_volume` store, under data-plane hypotheses about the file's directory slot.  Here the stored record — bytes
488..491 (free count) and 492..495 (next-free hint) of the info sector `gh.vol.infoLocation` — is followed through every
one of the 24 API calls, on top of the volume invariant `VolInv` of C03 only.  Proofs: `Sdmmc.Lemmas.InfoStep`.

`infoPatch v b` (`Lemmas.FatOps`) is what `update_info_sector` makes of the info block `b`: a KNOWN count is spliced in at
488, a KNOWN hint at 492, an unknown value leaves its word alone (`infoPatch_none`: both unknown — the identity).

What is proved (FAT32; `VolInv s gh`; for the theorems about arbitrary calls also `Mirror gh.vol s.dev.disk` and
`NameCovered op`, the hypotheses of `C04Hist.step_licensed`):
* `step_info` (T1) — EVERY call, whatever it answers: the info sector afterwards is the one before, or `infoPatch vi.vol`
  of it, `vi` the one open volume before the call.
* `count_word_kept`, `hint_word_kept` (T2a) — a call issued while the in-memory count (hint) is unknown leaves the
  stored count (hint) word alone: "a count marked unknown stays unknown" ON THE MEDIUM.
* `flush_stores`, `closeFile_stores`, `closeVolume_stores` (T2b) — `flush` / `close_file` of a dirty file and an
  accepted `close_volume` answer `Ok(())` and store the in-memory record (`Stores`, if `RecordFits`) — WITHOUT the
  data-plane hypotheses of `C16Api.flush_stores_record`: they are discharged from `VolInv`.
* `count_fits_of_balance`, `recordFits_of_balance`, `flush_stores_balanced` — the count half of `RecordFits` follows from
  the accounting invariant `VolInvC` (`Bal δ` + `DeltaOK`: `n = free − δ ≤ endCluster − δ ≤ u32::MAX`); the hint half
  (`n < 2^32`) stays a hypothesis: the hint is a `u32` in the crate, which the model's `Nat` does not know.
* `history_count_word_kept`, `history_hint_word_kept` (T3) — along every covered history during which the in-memory
  count (hint) is unknown in every state, the stored count (hint) word is the one at the start, after every prefix.

What is NOT proved here: that an unknown in-memory count stays unknown through all 24 calls — it is the hypothesis `hunk`
of `history_count_word_kept` (discharged by evaluation in the example).
-/
import Sdmmc.Lemmas.InfoStep
import Sdmmc.Lemmas.MainK16
import Sdmmc.Props.C16Hist2

namespace Sdmmc.Props.C16Info
open Sdmmc.Model Sdmmc.Model.Fat Sdmmc.Spec.Volume
open Sdmmc.Spec hiding run step NoFault Coherent
open Sdmmc.Props.C03Inv (Covered CoveredRun)
open Sdmmc.Props.C04Hist (VolInvM)
open Sdmmc.Props.C16Hist2 (Bal DeltaOK VolInvC)
open Sdmmc.Props.C16Api (Stores RecordFits)
open Sdmmc.Lemmas.FatOps (infoPatch)
open Sdmmc.Lemmas.WriteSetInv (NameCovered)

/-! ### Vocabulary -/

theorem infoPatch_def (v : FatVolume) (b : Block) :
    infoPatch v b =
      (match v.nextFreeCluster with
       | some c => splice (match v.freeClustersCount with | some n => splice b 488 (leU32 n) | none => b) 492 (leU32 c)
       | none => (match v.freeClustersCount with | some n => splice b 488 (leU32 n) | none => b)) := rfl

/-- Nothing known: `update_info_sector` writes nothing, and `infoPatch` is the identity. -/
theorem infoPatch_none (v : FatVolume) (b : Block) (hc : v.freeClustersCount = none) (hh : v.nextFreeCluster = none) :
    infoPatch v b = b := Lemmas.InfoStep.infoPatch_none v b hc hh

/-- The patched sector has the record stored in it — if both fields fit their 32-bit words. -/
theorem stores_infoPatch (v : FatVolume) (b : Block) (hl : b.length = 512) (hfit : RecordFits v) :
    Stores v b (infoPatch v b) := by
  have h := Lemmas.Acct.stores_patch v b hl ⟨hfit.count, hfit.hint⟩
  exact ⟨h.len, h.others, h.countSome, h.countNone, h.hintSome, h.hintNone⟩

/-! ### T1. Every call -/

/-- **`step_info`: what ANY API call does to the FAT32 info sector.**  All 24 operations, every outcome: the call leaves
the sector as it was, or it leaves `infoPatch vi.vol` of it, `vi` being the one open volume BEFORE the call (only a
`flush_file` / `close_file` of a dirty file and a `close_volume` that is not refused do the latter). -/
theorem step_info {s : Mgr} {gh : Ghost} (hI : VolInv s gh) (hm : Mirror gh.vol s.dev.disk) (op : Op) (hc : NameCovered op)
    (h32 : gh.vol.fatType = .fat32) :
    (step s op).1.dev.disk.get gh.vol.infoLocation = s.dev.disk.get gh.vol.infoLocation ∨
    ∃ vi, s.vols = [vi] ∧ vi.vol = gh.vol ∧
      (step s op).1.dev.disk.get gh.vol.infoLocation = infoPatch vi.vol (s.dev.disk.get gh.vol.infoLocation) :=
  Lemmas.InfoStep.step_info hI hm op hc h32

/-- The same from the hypotheses of the history theorems (`VolInvM`, `Covered`). -/
theorem step_info_covered {s : Mgr} {gh : Ghost} (hI : VolInvM s gh) (op : Op) (hc : Covered s op)
    (h32 : gh.vol.fatType = .fat32) :
    (step s op).1.dev.disk.get gh.vol.infoLocation = s.dev.disk.get gh.vol.infoLocation ∨
    ∃ vi, s.vols = [vi] ∧ vi.vol = gh.vol ∧
      (step s op).1.dev.disk.get gh.vol.infoLocation = infoPatch vi.vol (s.dev.disk.get gh.vol.infoLocation) :=
  step_info hI.1 hI.2 op (C04Hist.nameCovered_of_covered hc) h32

/-! ### T2(a). Unknown in memory: the stored word is left alone -/

/-- **A call issued while the in-memory free count is unknown leaves the stored count word (offset 488) alone.** -/
theorem count_word_kept {s : Mgr} {gh : Ghost} (hI : VolInv s gh) (hm : Mirror gh.vol s.dev.disk) (op : Op)
    (hc : NameCovered op) (h32 : gh.vol.fatType = .fat32) (hunk : ∀ vi, vi ∈ s.vols → vi.vol.freeClustersCount = none) :
    readU32 ((step s op).1.dev.disk.get gh.vol.infoLocation) 488 = readU32 (s.dev.disk.get gh.vol.infoLocation) 488 :=
  Lemmas.InfoStep.count_word_kept hI hm op hc h32 hunk

/-- **A call issued while the in-memory next-free hint is unknown leaves the stored hint word (offset 492) alone.** -/
theorem hint_word_kept {s : Mgr} {gh : Ghost} (hI : VolInv s gh) (hm : Mirror gh.vol s.dev.disk) (op : Op)
    (hc : NameCovered op) (h32 : gh.vol.fatType = .fat32) (hunk : ∀ vi, vi ∈ s.vols → vi.vol.nextFreeCluster = none) :
    readU32 ((step s op).1.dev.disk.get gh.vol.infoLocation) 492 = readU32 (s.dev.disk.get gh.vol.infoLocation) 492 :=
  Lemmas.InfoStep.hint_word_kept hI hm op hc h32 hunk

/-! ### T2(b). `flush`, `close_file`, `close_volume` store the record -/

/-- **`flush` stores the record** — under the volume invariant alone.  `h` is an open handle (slot `i`, record `f`, written
to since the last flush); `vi` is the open volume.  Then the call answers `Ok(())`, the volume table is unchanged, the
info sector afterwards is `infoPatch vi.vol` of the one before — which is the one before if neither count nor hint is
known — and, if both fields fit 32 bits, it has the record stored in it (`Stores`).  Of the two halves of `RecordFits`
the count half is needed for `Stores.countSome` and follows from the accounting invariant (`count_fits_of_balance`);
the hint half is needed for `Stores.hintSome` and is a `u32` in the crate (see `flush_stores_balanced`). -/
theorem flush_stores {s : Mgr} {gh : Ghost} (hI : VolInv s gh) (h32 : gh.vol.fatType = .fat32) {h i : Nat} {f : FileInfo}
    {vi : VolInfo} (hidx : s.files.findIdx? (·.rawFile = h) = some i) (hfi : s.files[i]? = some f) (hd : f.dirty = true)
    (hv : s.vols = [vi]) :
    (step s (.flush h)).2.result = .ok .unit ∧ vi.vol = gh.vol ∧ (step s (.flush h)).1.vols = [vi] ∧
    (step s (.flush h)).1.dev.disk.get gh.vol.infoLocation = infoPatch vi.vol (s.dev.disk.get gh.vol.infoLocation) ∧
    (vi.vol.freeClustersCount = none → vi.vol.nextFreeCluster = none →
      (step s (.flush h)).1.dev.disk.get gh.vol.infoLocation = s.dev.disk.get gh.vol.infoLocation) ∧
    (RecordFits vi.vol →
      Stores vi.vol (s.dev.disk.get gh.vol.infoLocation) ((step s (.flush h)).1.dev.disk.get gh.vol.infoLocation)) := by
  obtain ⟨h1, h2, h3, h4⟩ := Lemmas.InfoStep.step_flush hI h32 hidx hfi hd hv
  refine ⟨h1, h2, h3, h4, fun hc hh => ?_, fun hfit => ?_⟩
  · rw [h4, infoPatch_none _ _ hc hh]
  · rw [h4]; exact stores_infoPatch _ _ (hI.med.blocksOK _) hfit

/-- **`close_file` stores the record**: the same (it flushes, then forgets the file). -/
theorem closeFile_stores {s : Mgr} {gh : Ghost} (hI : VolInv s gh) (h32 : gh.vol.fatType = .fat32) {h i : Nat} {f : FileInfo}
    {vi : VolInfo} (hidx : s.files.findIdx? (·.rawFile = h) = some i) (hfi : s.files[i]? = some f) (hd : f.dirty = true)
    (hv : s.vols = [vi]) :
    (step s (.closeFile h)).2.result = .ok .unit ∧ vi.vol = gh.vol ∧ (step s (.closeFile h)).1.vols = [vi] ∧
    (step s (.closeFile h)).1.dev.disk.get gh.vol.infoLocation = infoPatch vi.vol (s.dev.disk.get gh.vol.infoLocation) ∧
    (vi.vol.freeClustersCount = none → vi.vol.nextFreeCluster = none →
      (step s (.closeFile h)).1.dev.disk.get gh.vol.infoLocation = s.dev.disk.get gh.vol.infoLocation) ∧
    (RecordFits vi.vol →
      Stores vi.vol (s.dev.disk.get gh.vol.infoLocation) ((step s (.closeFile h)).1.dev.disk.get gh.vol.infoLocation)) := by
  obtain ⟨h1, h2, h3, h4⟩ := Lemmas.InfoStep.step_closeFile hI h32 hidx hfi hd hv
  refine ⟨h1, h2, h3, h4, fun hc hh => ?_, fun hfit => ?_⟩
  · rw [h4, infoPatch_none _ _ hc hh]
  · rw [h4]; exact stores_infoPatch _ _ (hI.med.blocksOK _) hfit

/-- **`close_volume` stores the record**, when it answers `Ok(())`: `v` was the handle of the one open volume `vi`, no
volume is open afterwards, and the info sector is `infoPatch vi.vol` of the one before. -/
theorem closeVolume_stores {s : Mgr} {gh : Ghost} (hI : VolInv s gh) (h32 : gh.vol.fatType = .fat32) (v : Nat)
    (hok : (step s (.closeVolume v)).2.result = .ok .unit) :
    ∃ vi, s.vols = [vi] ∧ vi.vol = gh.vol ∧ vi.rawVolume = v ∧ (step s (.closeVolume v)).1.vols = [] ∧
      (step s (.closeVolume v)).1.dev.disk.get gh.vol.infoLocation = infoPatch vi.vol (s.dev.disk.get gh.vol.infoLocation) ∧
      (vi.vol.freeClustersCount = none → vi.vol.nextFreeCluster = none →
        (step s (.closeVolume v)).1.dev.disk.get gh.vol.infoLocation = s.dev.disk.get gh.vol.infoLocation) ∧
      (RecordFits vi.vol →
        Stores vi.vol (s.dev.disk.get gh.vol.infoLocation)
          ((step s (.closeVolume v)).1.dev.disk.get gh.vol.infoLocation)) := by
  rcases Lemmas.InfoStep.step_closeVolume hI h32 v with ⟨⟨e, he⟩, _⟩ | ⟨vi, hv, hvol, hraw, _, hvols, hinf⟩
  · rw [he] at hok; cases hok
  · refine ⟨vi, hv, hvol, hraw, hvols, hinf, fun hc hh => ?_, fun hfit => ?_⟩
    · rw [hinf, infoPatch_none _ _ hc hh]
    · rw [hinf]; exact stores_infoPatch _ _ (hI.med.blocksOK _) hfit

/-- A refused `close_volume` (any error) changes neither the medium nor the volume table. -/
theorem closeVolume_refused {s : Mgr} {gh : Ghost} (hI : VolInv s gh) (h32 : gh.vol.fatType = .fat32) (v : Nat)
    (hno : (step s (.closeVolume v)).2.result ≠ .ok .unit) :
    (step s (.closeVolume v)).1.dev.disk = s.dev.disk ∧ (step s (.closeVolume v)).1.vols = s.vols := by
  rcases Lemmas.InfoStep.step_closeVolume hI h32 v with ⟨_, h1, h2⟩ | ⟨_, _, _, _, hok, _⟩
  · exact ⟨h1, h2⟩
  · exact absurd hok hno

/-! ### The count half of `RecordFits` -/

/-- **A count in balance fits its word**: `n + δ = free ≤ endCluster` and `endCluster − δ ≤ u32::MAX` give `n ≤ u32::MAX`. -/
theorem count_fits_of_balance {v : FatVolume} {d : Disk} {δ : Int} (hb : Bal δ v d) (hd : DeltaOK v δ) :
    ∀ n, v.freeClustersCount = some n → n < 4294967296 := by
  intro n hn
  have h1 := hb n hn
  have h2 : (freeCount v d : Int) ≤ (endCluster v : Int) := by exact_mod_cast Lemmas.ForestCount.freeCount_le v d
  have h3 := hd.2
  have h4 : (U32_MAX : Int) = 4294967295 := rfl
  omega

/-- Under the accounting invariant only the hint half of `RecordFits` remains to be assumed. -/
theorem recordFits_of_balance {s : Mgr} {gh : Ghost} {δ : Int} (hI : VolInvC s gh δ) {vi : VolInfo} (hvi : vi ∈ s.vols)
    (hh : ∀ n, vi.vol.nextFreeCluster = some n → n < 4294967296) : RecordFits vi.vol := by
  refine ⟨?_, hh⟩
  have hvol : vi.vol = gh.vol := by
    rcases hI.inv.1.vols with h0 | ⟨vi', hv, hvol⟩
    · rw [h0] at hvi; cases hvi
    · rw [hv] at hvi; rw [List.mem_singleton.1 hvi]; exact hvol
  exact count_fits_of_balance (hI.count vi hvi) (by rw [hvol]; exact hI.delta)

/-- **`flush` under the accounting invariant**: `Ok(())`, and the in-memory record is stored — the only hypothesis about
the record being that the hint, if known, fits 32 bits. -/
theorem flush_stores_balanced {s : Mgr} {gh : Ghost} {δ : Int} (hI : VolInvC s gh δ) (h32 : gh.vol.fatType = .fat32)
    {h i : Nat} {f : FileInfo} {vi : VolInfo} (hidx : s.files.findIdx? (·.rawFile = h) = some i) (hfi : s.files[i]? = some f)
    (hd : f.dirty = true) (hv : s.vols = [vi]) (hh : ∀ n, vi.vol.nextFreeCluster = some n → n < 4294967296) :
    (step s (.flush h)).2.result = .ok .unit ∧
    Stores vi.vol (s.dev.disk.get gh.vol.infoLocation) ((step s (.flush h)).1.dev.disk.get gh.vol.infoLocation) := by
  obtain ⟨h1, _, _, _, _, h6⟩ := flush_stores hI.inv.1 h32 hidx hfi hd hv
  exact ⟨h1, h6 (recordFits_of_balance hI (by rw [hv]; exact List.mem_singleton.2 rfl) hh)⟩

/-! ### T3. Histories -/

theorem sameGeom_infoLocation {v w : FatVolume} (h : SameGeom v w) : w.infoLocation = v.infoLocation := by
  obtain ⟨a, b, e⟩ := h; rw [e]

/-- Whole histories: if the in-memory count is unknown in the state every call is issued in, the stored count word at the
end is the one at the start. -/
theorem run_count_word_kept : ∀ (ops : List Op) (s : Mgr) (gh : Ghost), VolInvM s gh → CoveredRun s ops →
    gh.vol.fatType = .fat32 →
    (∀ k, ∀ vi, vi ∈ (run s (ops.take k)).1.vols → vi.vol.freeClustersCount = none) →
    readU32 ((run s ops).1.dev.disk.get gh.vol.infoLocation) 488 = readU32 (s.dev.disk.get gh.vol.infoLocation) 488
  | [], _, _, _, _, _, _ => rfl
  | op :: ops, s, gh, hI, hc, h32, hunk => by
    obtain ⟨gh1, hI1, hsg⟩ :=
      C04Hist.step_invariantM gh.vol s op gh hI (SameGeom.refl _) (C03Inv.coveredAll_of_covered gh.vol hc.1)
    have ih := run_count_word_kept ops (step s op).1 gh1 hI1 hc.2 (by rw [hsg.fatType]; exact h32) (fun k => hunk (k + 1))
    rw [sameGeom_infoLocation hsg] at ih
    have h0 := count_word_kept hI.1 hI.2 op (C04Hist.nameCovered_of_covered hc.1) h32 (hunk 0)
    exact ih.trans h0

/-- The same for the hint word. -/
theorem run_hint_word_kept : ∀ (ops : List Op) (s : Mgr) (gh : Ghost), VolInvM s gh → CoveredRun s ops →
    gh.vol.fatType = .fat32 →
    (∀ k, ∀ vi, vi ∈ (run s (ops.take k)).1.vols → vi.vol.nextFreeCluster = none) →
    readU32 ((run s ops).1.dev.disk.get gh.vol.infoLocation) 492 = readU32 (s.dev.disk.get gh.vol.infoLocation) 492
  | [], _, _, _, _, _, _ => rfl
  | op :: ops, s, gh, hI, hc, h32, hunk => by
    obtain ⟨gh1, hI1, hsg⟩ :=
      C04Hist.step_invariantM gh.vol s op gh hI (SameGeom.refl _) (C03Inv.coveredAll_of_covered gh.vol hc.1)
    have ih := run_hint_word_kept ops (step s op).1 gh1 hI1 hc.2 (by rw [hsg.fatType]; exact h32) (fun k => hunk (k + 1))
    rw [sameGeom_infoLocation hsg] at ih
    have h0 := hint_word_kept hI.1 hI.2 op (C04Hist.nameCovered_of_covered hc.1) h32 (hunk 0)
    exact ih.trans h0

/-- **`history_count_word_kept`.**  Along every covered history of API calls (all 24 operations) during which the
in-memory free count is unknown in every state (`hunk` — assumed here: "unknown stays unknown" in memory is proved
elsewhere), the count word of the info sector is, whenever a call has returned, the one at the start: no flush, no close
ever overwrites a stored count with anything while the count is unknown. -/
theorem history_count_word_kept (ops : List Op) (s : Mgr) (gh : Ghost) (hI : VolInvM s gh) (hc : CoveredRun s ops)
    (h32 : gh.vol.fatType = .fat32)
    (hunk : ∀ k, ∀ vi, vi ∈ (run s (ops.take k)).1.vols → vi.vol.freeClustersCount = none) (k : Nat) :
    readU32 ((run s (ops.take k)).1.dev.disk.get gh.vol.infoLocation) 488 =
      readU32 (s.dev.disk.get gh.vol.infoLocation) 488 := by
  refine run_count_word_kept (ops.take k) s gh hI (Lemmas.MainK16.coveredRun_take ops s hc k) h32 fun j => ?_
  rw [List.take_take]
  exact hunk (min j k)

/-- **`history_hint_word_kept`**: the same for the next-free hint and the word at 492. -/
theorem history_hint_word_kept (ops : List Op) (s : Mgr) (gh : Ghost) (hI : VolInvM s gh) (hc : CoveredRun s ops)
    (h32 : gh.vol.fatType = .fat32)
    (hunk : ∀ k, ∀ vi, vi ∈ (run s (ops.take k)).1.vols → vi.vol.nextFreeCluster = none) (k : Nat) :
    readU32 ((run s (ops.take k)).1.dev.disk.get gh.vol.infoLocation) 492 =
      readU32 (s.dev.disk.get gh.vol.infoLocation) 492 := by
  refine run_hint_word_kept (ops.take k) s gh hI (Lemmas.MainK16.coveredRun_take ops s hc k) h32 fun j => ?_
  rw [List.take_take]
  exact hunk (min j k)

/-! ### Non-vacuity: the FAT32 volume of `Lemmas.VolExample` -/

namespace Example
open Sdmmc.Lemmas.VolExample
open Sdmmc.Props.C16Hist2.Example (invC32 mirror32 ops32 ops32_covered)
open Sdmmc.Props.C03Inv.Example (nameOK_of_eval)

/-- `step_info` applies to the example state and any call. -/
example (op : Op) (hc : NameCovered op) :
    (step mgr32 op).1.dev.disk.get 1 = mgr32.dev.disk.get 1 ∨
    ∃ vi, mgr32.vols = [vi] ∧ vi.vol = vol32 ∧ (step mgr32 op).1.dev.disk.get 1 = infoPatch vi.vol (mgr32.dev.disk.get 1) :=
  step_info mgr32_inv mirror32 op hc rfl

/-- The state after `create N.TXT; write 1200 bytes` (3 clusters taken: the in-memory count is 12, the hint 10; the info
sector still says 15 and 7). -/
def s2 : Mgr := (run mgr32 (ops32.take 2)).1

theorem s2_facts : s2.files.findIdx? (·.rawFile = 10) = some 0 ∧ (s2.files[0]?).map (·.dirty) = some true ∧
    s2.vols.map (fun v => (v.vol.freeClustersCount, v.vol.nextFreeCluster)) = [(some 12, some 10)] ∧
    (readU32 (s2.dev.disk.get 1) 488, readU32 (s2.dev.disk.get 1) 492) = (15, 7) := by decide +kernel

/-- `flush_stores_balanced` applies to the flush of the written file: the hypotheses are discharged by the history theorem
(`VolInvC`) and by evaluating the tables … -/
theorem flush_instance : (step s2 (.flush 10)).2.result = .ok .unit ∧
    ∃ vi, s2.vols = [vi] ∧ Stores vi.vol (s2.dev.disk.get 1) ((step s2 (.flush 10)).1.dev.disk.get 1) := by
  obtain ⟨gh', hI', hsg, _⟩ := C16Hist2.history_accounting (ops32.take 2) mgr32 gh32 0 invC32
    (Lemmas.MainK16.coveredRun_take ops32 mgr32 ops32_covered 2)
  have hI2 : VolInvC s2 gh' 0 := hI'
  have h32 : gh'.vol.fatType = .fat32 := by rw [hsg.fatType]; rfl
  have hloc : gh'.vol.infoLocation = 1 := by rw [sameGeom_infoLocation hsg]; rfl
  obtain ⟨e1, e2, e3, _⟩ := s2_facts
  cases hf : s2.files[0]? with
  | none => rw [hf] at e2; cases e2
  | some f =>
    rw [hf] at e2
    have hd : f.dirty = true := by simpa using e2
    rcases hI2.inv.1.vols with h0 | ⟨vi, hv, _⟩
    · rw [h0] at e3; cases e3
    · have hh : ∀ n, vi.vol.nextFreeCluster = some n → n < 4294967296 := by
        intro n hn
        rw [hv] at e3
        simp only [List.map_cons, List.map_nil, List.cons.injEq, Prod.mk.injEq, and_true] at e3
        rw [e3.2] at hn
        cases hn; decide
      have := flush_stores_balanced hI2 h32 e1 hf hd hv hh
      rw [hloc] at this
      exact ⟨this.1, vi, hv, this.2⟩

/-- … and, run: the flush writes the info sector (block 1) and the directory block (4); count word 12, hint word 10. -/
theorem flush_run : (step s2 (.flush 10)).2.writes.map (·.1) = [1, 4] ∧
    (readU32 ((step s2 (.flush 10)).1.dev.disk.get 1) 488, readU32 ((step s2 (.flush 10)).1.dev.disk.get 1) 492) =
      (12, 10) := by
  decide +kernel

/-! #### An unknown count -/

/-- The same medium (the info sector says: 15 free) mounted with the count unknown — what mounting gives when the stored
count is `0xFFFFFFFF`, or what a user of the crate sees after an `Option::None`. -/
def volN : FatVolume := { vol32 with freeClustersCount := none }
def mgrN : Mgr := { mgr32 with vols := [{ rawVolume := 1, idx := 0, vol := volN }] }
def ghN : Ghost := { gh32 with vol := volN }

theorem mgrN_inv : VolInv mgrN ghN := Lemmas.VolCheck.checkVolInv_sound mgrN ghN (by decide +kernel)
theorem mirrorN : Mirror volN mgrN.dev.disk := C04Hist.Example.mirror_of_check _ _ (by decide +kernel)

/-- create `N.TXT`, write 1200 bytes (3 clusters), flush, close, delete `F.TXT` (2 clusters back), close both directory
handles, close the volume. -/
def opsN : List Op :=
  [.openFile 2 [78, 46, 84, 88, 84] .ReadWriteCreate, .write 10 (List.replicate 1200 7), .flush 10, .closeFile 10,
   .delete 2 [70, 46, 84, 88, 84], .closeDir 2, .closeDir 3, .closeVolume 1]

theorem opsN_covered : CoveredRun mgrN opsN := by
  refine ⟨?_, trivial, trivial, trivial, ?_, trivial, trivial, trivial, trivial⟩
  · exact nameOK_of_eval (sfn0 := [78, 32, 32, 32, 32, 32, 32, 32, 84, 88, 84]) (by decide +kernel) (by decide)
  · exact nameOK_of_eval (sfn0 := [70, 32, 32, 32, 32, 32, 32, 32, 84, 88, 84]) (by decide +kernel) (by decide)

/-- The count is unknown in every state of the history (evaluated). -/
theorem opsN_unknown : ∀ k, ∀ vi, vi ∈ (run mgrN (opsN.take k)).1.vols → vi.vol.freeClustersCount = none := by
  have key : ∀ k, k < 9 → (run mgrN (opsN.take k)).1.vols.all (fun vi => vi.vol.freeClustersCount.isNone) = true := by
    decide +kernel
  intro k vi hvi
  have hk : ∃ j, j < 9 ∧ opsN.take k = opsN.take j := by
    by_cases h : k < 9
    · exact ⟨k, h, rfl⟩
    · exact ⟨8, by decide, by rw [List.take_of_length_le (by show 8 ≤ k; omega)]; rfl⟩
  obtain ⟨j, hj, e⟩ := hk
  rw [e] at hvi
  have := List.all_eq_true.1 (key j hj) vi hvi
  exact Option.isNone_iff_eq_none.1 this

/-- **`history_count_word_kept` applies**: the stored count word is 15 after every prefix of the history … -/
theorem opsN_count_word (k : Nat) : readU32 ((run mgrN (opsN.take k)).1.dev.disk.get 1) 488 = 15 := by
  have := history_count_word_kept opsN mgrN ghN ⟨mgrN_inv, mirrorN⟩ opsN_covered rfl opsN_unknown k
  exact this.trans (by decide +kernel)

/-- … and, run: every call answers `Ok`; the flush, the close of the file and the close of the volume write the info
sector (block 1): the hint word goes 7 → 10 → 4 (the cluster `delete` freed first), the count word stays 15 although 14
clusters are free at the end. -/
theorem opsN_run :
    (run mgrN opsN).2.map (fun o => ((match o.result with | .ok _ => true | _ => false), o.writes.map (·.1))) =
      [(true, [4]), (true, [2, 3, 9, 2, 3, 2, 3, 10, 2, 3, 2, 3, 11]), (true, [1, 4]), (true, [1, 4]),
       (true, [4, 2, 3, 2, 3, 2, 3]), (true, []), (true, []), (true, [1])] ∧
    (List.range 9).map (fun k => (readU32 ((run mgrN (opsN.take k)).1.dev.disk.get 1) 488,
      readU32 ((run mgrN (opsN.take k)).1.dev.disk.get 1) 492)) =
      [(15, 7), (15, 7), (15, 7), (15, 10), (15, 10), (15, 10), (15, 10), (15, 10), (15, 4)] ∧
    freeCount vol32 (run mgrN opsN).1.dev.disk = 14 := by decide +kernel

end Example

end Sdmmc.Props.C16Info
