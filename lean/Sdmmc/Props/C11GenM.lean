/-
C11, tie to the source text: the methods of `BlockCache` (blockdevice.rs) — `read`, `read_mut`,
`write_back`, `write_back_with_duplicate`, `blank_mut` — machine-translated whole into the model's
`F` monad (`Sdmmc.Gen.FunsM`, device read / write as the only primitives) are EQUAL to the
hand-written cache primitives of `Model/Dev.lean`, as functions `FS → Res Unit × FS`: same outcome,
same device calls, same cache tag and block in every state, including the states in which the device
call fails.
-/
import Sdmmc.Gen.FunsM
import Sdmmc.Model.Dev

set_option linter.unusedSimpArgs false

namespace Sdmmc.Props.C11GenM

open Sdmmc Sdmmc.Model Sdmmc.Gen

theorem bind_apply {α β : Type} (m : F α) (f : α → F β) (s : FS) :
    (m >>= f) s = match m s with
      | (.ok a, s') => f a s'
      | (.err e, s') => (.err e, s')
      | (.panic msg, s') => (.panic msg, s')
      | (.diverged, s') => (.diverged, s') := rfl

theorem pure_apply {α : Type} (a : α) (s : FS) : (pure a : F α) s = (.ok a, s) := rfl

/-- `BlockCache::read`: on a tag hit nothing happens; otherwise the tag is dropped, the device is
read into the cache block, and only a successful read sets the tag. -/
theorem read_eq (idx : Nat) : FunsM.BlockCache_read idx = cacheRead idx := by
  funext s
  unfold FunsM.BlockCache_read cacheRead
  by_cases h : s.cache.tag = some idx
  · simp only [bind_apply, pure_apply, FunsM.getCache, h, ne_eq, not_true_eq_false, if_false, if_true]
  · by_cases hf : s.dev.calls ∈ s.dev.faults
    · simp [bind_apply, pure_apply, FunsM.getCache, FunsM.setTag, devRead, h, hf]
    · simp [bind_apply, pure_apply, FunsM.getCache, FunsM.setTag, devRead, h, hf]

/-- `BlockCache::read_mut` is the same function. -/
theorem read_mut_eq (idx : Nat) : FunsM.BlockCache_read_mut idx = cacheRead idx := read_eq idx

/-- `BlockCache::write_back`: panics without a tag; a failed device write drops the tag. -/
theorem write_back_eq : FunsM.BlockCache_write_back = writeBack := by
  funext s
  unfold FunsM.BlockCache_write_back writeBack
  rcases ht : s.cache.tag with _ | idx
  · simp [bind_apply, FunsM.getCache, ht, F.panic]
  · by_cases hf : s.dev.calls ∈ s.dev.faults
    · simp [bind_apply, pure_apply, FunsM.getCache, FunsM.setTag, FunsM.isOk, F.attempt, F.lift, devWrite, ht, hf]
    · simp [bind_apply, pure_apply, FunsM.getCache, FunsM.setTag, FunsM.isOk, F.attempt, F.lift, devWrite, ht, hf]

/-- `BlockCache::write_back_with_duplicate`: the second write happens only after a successful first
one; a failure of either drops the tag. -/
theorem write_back_with_duplicate_eq (dup : Nat) :
    FunsM.BlockCache_write_back_with_duplicate dup = writeBackWithDuplicate dup := by
  funext s
  unfold FunsM.BlockCache_write_back_with_duplicate writeBackWithDuplicate
  rcases ht : s.cache.tag with _ | idx
  · simp [bind_apply, FunsM.getCache, ht, F.panic]
  · by_cases hf : s.dev.calls ∈ s.dev.faults
    · simp [bind_apply, pure_apply, FunsM.getCache, FunsM.setTag, FunsM.isOk, F.attempt, F.lift, devWrite, ht, hf]
    · by_cases hf2 : s.dev.calls + 1 ∈ s.dev.faults
      · simp [bind_apply, pure_apply, FunsM.getCache, FunsM.setTag, FunsM.isOk, F.attempt, F.lift, devWrite, ht, hf, hf2]
      · simp [bind_apply, pure_apply, FunsM.getCache, FunsM.setTag, FunsM.isOk, F.attempt, F.lift, devWrite, ht, hf, hf2]

/-- `BlockCache::blank_mut`. -/
theorem blank_mut_eq (idx : Nat) : FunsM.BlockCache_blank_mut idx = blankMut idx := by
  funext s
  rfl

end Sdmmc.Props.C11GenM
