/-
C18 (and C17), tie to the source text: the machine translations of `Timestamp::from_fat`,
`Timestamp::serialize_to_fat` (filesystem/timestamp.rs) and `ShortFileName::csum`
(filesystem/filename.rs) in `Sdmmc.Gen.Funs` are equal to the hand-written model, for all inputs.
`Gen/Funs.lean` is regenerated from the crate on every run of tools/extract.py, so an edit of
one of these Rust functions changes the left-hand sides below and the equality stops checking.
-/
import Sdmmc.Gen.Funs
import Sdmmc.Model.Timestamp
import Sdmmc.Model.Name
import Sdmmc.Lemmas.GenBits

namespace Sdmmc.Props.C18Gen

open Sdmmc Sdmmc.Model Sdmmc.Lemmas.GenBits
open Sdmmc.Gen (Funs.Timestamp_from_fat Funs.Timestamp_serialize_to_fat Funs.ShortFileName_csum)

/-- The generated `Timestamp` structure read as the model's. -/
def toModel (t : Gen.Funs.Timestamp) : Model.Timestamp :=
  { year_since_1970 := t.year_since_1970, zero_indexed_month := t.zero_indexed_month,
    zero_indexed_day := t.zero_indexed_day, hours := t.hours, minutes := t.minutes, seconds := t.seconds }

/-- `Timestamp::from_fat` as translated from the source equals the model, for ALL `date`, `time`
(no width hypothesis is needed: both sides are the same function on every natural number). -/
theorem from_fat_eq (date time : Nat) :
    toModel (Gen.Funs.Timestamp_from_fat date time) = Model.Timestamp.fromFat date time := by
  unfold Gen.Funs.Timestamp_from_fat Model.Timestamp.fromFat toModel
  simp only [shr, shl, and_15, and_31, and_63]
  have e1 : date / 2 ^ 5 % 16 % 256 = date / 32 % 16 := by omega
  have e2 : date % 32 % 256 = date % 32 := by omega
  have e3 : time / 2 ^ 11 % 32 % 256 = time / 2048 % 32 := by omega
  have e4 : time / 2 ^ 5 % 64 % 256 = time / 32 % 64 := by omega
  have e5 : time * 2 ^ 1 % 65536 % 64 % 256 = time * 2 % 65536 % 64 := by omega
  have e6 : date / 2 ^ 9 = date / 512 := by omega
  rw [e1, e2, e3, e4, e5, e6]

/-- The generated side condition of `from_fat` holds for every `u16` date: the `u16` sum
`1980 + (date >> 9)` stays below 2108, `year - 1970` and the two `- 1` never underflow.  So
`from_fat` cannot panic. -/
theorem from_fat_ok (date time : Nat) (hd : date < 65536) : Gen.Funs.Timestamp_from_fat_ok date time := by
  unfold Gen.Funs.Timestamp_from_fat_ok
  simp only [shr, and_15, and_31, Nat.reducePow]
  refine ⟨by omega, by omega, ?_, ?_⟩
  · split
    · trivial
    · omega
  · split
    · trivial
    · omega

/-- Evaluated: 2024-02-29 13:37:58 (`date = 0x585D`, `time = 0x6CBD`). -/
example : Gen.Funs.Timestamp_from_fat 0x585D 0x6CBD =
    { year_since_1970 := 54, zero_indexed_month := 1, zero_indexed_day := 28, hours := 13, minutes := 37, seconds := 58 } := by
  decide

private theorem hoursWord : ∀ h, h < 256 → ((h <<< 11) % 65536) &&& 63488 = h * 2048 % 65536 / 2048 * 2 ^ 11 := by
  decide +kernel
private theorem minutesWord : ∀ m, m < 256 → ((m <<< 5) % 65536) &&& 2016 = m * 32 % 65536 / 32 % 64 * 2 ^ 5 := by
  decide +kernel
private theorem yearWord : ∀ y, y < 256 → (((y - 10) <<< 9) % 65536) &&& 65024 = (y - 10) * 512 % 65536 / 512 * 2 ^ 9 := by
  decide +kernel
private theorem monthWord : ∀ m, m < 256 → (((m + 1) <<< 5) % 65536) &&& 480 = (m + 1) * 32 % 65536 / 32 % 16 * 2 ^ 5 := by
  decide +kernel

/-- The time word: `|` of the three disjoint bit ranges is the model's sum. -/
theorem time_word (t : Model.Timestamp) (hh : t.hours < 256) (hm : t.minutes < 256) :
    ((((t.hours <<< 11) % 65536) &&& 63488) ||| (((t.minutes <<< 5) % 65536) &&& 2016)) |||
        ((t.seconds / 2) &&& 31) = Model.Timestamp.fatTime t := by
  unfold Model.Timestamp.fatTime
  rw [hoursWord _ hh, minutesWord _ hm, and_31, Nat.or_assoc,
    or_eq_add _ _ 5 (Nat.mod_lt _ (by decide)), or_eq_add _ _ 11 (by omega)]
  simp only []
  omega

/-- The date word. -/
theorem date_word (t : Model.Timestamp) (hy : t.year_since_1970 < 256) (hmo : t.zero_indexed_month < 256) :
    ((if t.year_since_1970 < 10 then 0 else (((t.year_since_1970 - 10) <<< 9) % 65536) &&& 65024) |||
        ((((t.zero_indexed_month + 1) <<< 5) % 65536) &&& 480)) ||| ((t.zero_indexed_day + 1) &&& 31) =
      Model.Timestamp.fatDate t := by
  unfold Model.Timestamp.fatDate
  have hY : (if t.year_since_1970 < 10 then 0 else (((t.year_since_1970 - 10) <<< 9) % 65536) &&& 65024) =
      (if t.year_since_1970 < 10 then 0 else (t.year_since_1970 - 10) * 512 % 65536 / 512) * 2 ^ 9 := by
    split
    · rfl
    · exact yearWord _ hy
  rw [hY, monthWord _ hmo, and_31, Nat.or_assoc,
    or_eq_add _ _ 5 (Nat.mod_lt _ (by decide)), or_eq_add _ _ 9 (by omega)]
  simp only []
  split <;> omega

/-- `Timestamp::serialize_to_fat` as translated from the source equals the model's
`serializeToFat`, for all timestamps whose fields are `u8` values (`hours`, `minutes`,
`year_since_1970`, `zero_indexed_month` below 256, as the Rust field types give them; the other two
fields are unconstrained). -/
theorem serialize_to_fat_eq (t : Model.Timestamp)
    (hy : t.year_since_1970 < 256) (hmo : t.zero_indexed_month < 256)
    (hh : t.hours < 256) (hm : t.minutes < 256) :
    Gen.Funs.Timestamp_serialize_to_fat t.year_since_1970 t.zero_indexed_month t.zero_indexed_day
        t.hours t.minutes t.seconds = Model.Timestamp.serializeToFat t := by
  have ht := time_word t hh hm
  have hd := date_word t hy hmo
  unfold Gen.Funs.Timestamp_serialize_to_fat Model.Timestamp.serializeToFat
  simp only [ht, hd]
  rfl

/-- The generated side condition of `serialize_to_fat` is exactly the domain documented at the
model's `fatDate`: the two `u8` additions `zero_indexed_month + 1`, `zero_indexed_day + 1` must not
overflow.  Excluded point, evaluated: month 255 (`Timestamp_serialize_to_fat_ok 0 255 0 0 0 0` is false;
the Rust panics in debug and wraps to month 0 in release, where the exact value here gives month 16 & 15 = 0 too). -/
theorem serialize_to_fat_ok_iff (y mo d h mi s : Nat) :
    Gen.Funs.Timestamp_serialize_to_fat_ok y mo d h mi s ↔ mo < 255 ∧ d < 255 := by
  unfold Gen.Funs.Timestamp_serialize_to_fat_ok
  simp only []
  constructor
  · rintro ⟨_, h1, h2⟩
    omega
  · rintro ⟨h1, h2⟩
    refine ⟨?_, by omega, by omega⟩
    split
    · trivial
    · omega

example : ¬ Gen.Funs.Timestamp_serialize_to_fat_ok 0 255 0 0 0 0 := by
  rw [serialize_to_fat_ok_iff]; omega

/-- Evaluated on 2024-02-29 13:37:58. -/
example : Gen.Funs.Timestamp_serialize_to_fat 54 1 28 13 37 58 = [0xBD, 0x6C, 0x5D, 0x58] := by decide

/-- `ShortFileName::csum` (the LFN checksum of the eleven name bytes; C17/C18) as translated from
the source equals the model's `Sfn.csum`, for every byte list. -/
theorem csum_eq (contents : Bytes) :
    Gen.Funs.ShortFileName_csum contents = Model.Sfn.csum contents := by
  unfold Gen.Funs.ShortFileName_csum Model.Sfn.csum
  have step : ∀ (r : Nat) (b : UInt8), r < 256 →
      (((r >>> 1) ||| (r <<< 7)) % 256 + b.toNat) % 256 = ((r / 2 + (r % 2) * 128) + b.toNat) % 256 := by
    intro r b hr
    have : ∀ r, r < 256 → ((r >>> 1) ||| (r <<< 7)) % 256 = r / 2 + (r % 2) * 128 := by decide +kernel
    rw [this r hr]
  suffices h : ∀ (l : Bytes) (r : Nat), r < 256 →
      List.foldl (fun (result : Nat) (b : UInt8) => (((result >>> 1) ||| (result <<< 7)) % 256 + b.toNat) % 256) r l =
      List.foldl (fun r b => ((r / 2 + (r % 2) * 128) + b.toNat) % 256) r l from h contents 0 (by decide)
  intro l
  induction l with
  | nil => intro r _; rfl
  | cons b l ih =>
    intro r hr
    simp only [List.foldl_cons]
    rw [step r b hr]
    exact ih _ (Nat.mod_lt _ (by decide))

/-- Evaluated: the checksum of `"FOO     TXT"`. -/
example : Gen.Funs.ShortFileName_csum [0x46, 0x4F, 0x4F, 0x20, 0x20, 0x20, 0x20, 0x20, 0x54, 0x58, 0x54] = 101 := by decide

end Sdmmc.Props.C18Gen
