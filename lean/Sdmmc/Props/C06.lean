/-
C06 — Directory listing and lookup report exactly the live entries.

Property theorems only; helper lemmas live in `Sdmmc.Lemmas.Listing` (and `Sdmmc.Lemmas.ListingF`
for the cache/device primitives).
Model: `Sdmmc.Model.Fat` (`slotsOf`, `iterateBlockSlots`, `iterateBlocks`, `iterateWalk`,
`iterateRaw`, `findInSlots`, `findBlocks`, `findWalk`, `findDirectoryEntry`, `firstFreeSlot`,
`deleteInSlots`) and `Sdmmc.Model` (`iterateDir`, `openDir`).
Spec: stated here, from the FAT specification ("FAT Directory Structure"): a directory is a
sequence of 32-byte slots; a slot whose first byte is 0x00 ends the directory, a slot whose first
byte is 0xE5 is deleted, a slot whose attribute byte has its four low bits set is a long-name
fragment; the fields of a short entry sit at fixed offsets.

What is proved
 * per block (`slotsOf_spec`, `iterate_block_spec`, `find_block_spec`, `find_iff_listed_block`,
   `first_free_slot_spec`, `delete_slot_spec`): exact results for every 512-byte block;
 * per run of consecutive blocks — one cluster, or the FAT16 fixed root (`iterate_blocks_spec`,
   `find_blocks_spec`, `find_blocks_iff_listed`, `iterate_fat16_root_spec`, `find_fat16_root_spec`);
 * per directory stored in a cluster chain `cs` (`iterate_chain_spec`, `find_chain_spec`,
   `find_chain_iff_listed`), under the hypothesis `DirChain` that `cs` *is* the directory's chain
   in the FAT on the medium (each cluster links to the next, the last is end-of-chain) — that the
   chain of every reachable directory is such a list is the volume invariant of C03, not proved here;
 * the manager level: `iterate_dir_hides_lfn`, `iterate_dir_listing`, `open_dir_dot`,
   `open_dir_follows_entry`.
All F-level statements are for runs without injected device faults and with a coherent cache
(`NoFault`, `Coherent`); they also give the frame: no device write, medium and volume record
unchanged, both hypotheses preserved.

Findings (the model mirrors the code as it is; each has an evaluated `example` below)
 * F1 (known: "0xE5-first-byte names"): lookup compares the 11 name bytes of *deleted* slots too,
   so a name whose first byte is 0xE5 finds a deleted slot.  Theorems relating lookup and listing
   carry `name.head? ≠ some 0xE5`.
 * F2 (new here): `find_directory_entry` (and `delete_directory_entry`) stop at the end marker only
   *within a block*: `find_entry_in_block` answers `NotFound` and the caller goes on with the next
   block / cluster.  With stale bytes after the end marker in a later block, lookup finds an
   entry no listing shows.  Theorems relating lookup and listing over more than one block carry
   `CleanTail` (everything after the first end marker is zero — what the FAT specification
   promises, and what this crate maintains: new directory clusters are zeroed, delete writes 0xE5).
 * F3 (deviation from the specification's mask): the crate tests `attr & 0x0F == 0x0F` for a
   long-name fragment; the specification's test is `attr & 0x3F == 0x0F`.  A short entry with
   attribute 0x1F/0x2F/0x3F (not a valid combination) is hidden from listing and lookup.
   `isFragment` below is the crate's test.
-/
import Sdmmc.Lemmas.Listing

namespace Sdmmc.Props.C06
open Sdmmc.Model Sdmmc.Model.Fat

/-! ### Specification -/

/-- A directory slot: the block it lives in, its byte offset in that block, its 32 raw bytes. -/
abbrev Slot := Nat × Nat × Bytes

/-- `DIR_Name[0]`. -/
def firstByte (d : Bytes) : Nat := byteAt d 0

/-- The 16 slots of the 512-byte block `blk` stored at block number `b`, in on-disk order:
slot `i` is bytes `32*i .. 32*i+31`. -/
def blockSlots (b : Nat) (blk : Block) : List Slot :=
  (List.range 16).map fun i => (b, 32 * i, (blk.drop (32 * i)).take 32)

/-- The slots of the blocks `b .. b+n-1` of the medium, in on-disk order. -/
def dirSlots (disk : Disk) (b n : Nat) : List Slot :=
  (List.range n).flatMap fun j => blockSlots (b + j) (disk.get (b + j))

/-- The slots before the end marker (first slot whose first byte is 0x00). -/
def beforeEnd (ss : List Slot) : List Slot := ss.takeWhile fun s => decide (firstByte s.2.2 ≠ 0)

/-- The live slots: before the end marker and not deleted (first byte 0xE5).  Long-name
fragments are still included. -/
def live (ss : List Slot) : List Slot := (beforeEnd ss).filter fun s => decide (firstByte s.2.2 ≠ 0xE5)

/-- Is there an end marker among the slots? -/
def endSeen (ss : List Slot) : Bool := ss.any fun s => decide (firstByte s.2.2 = 0)

/-- Long-name fragment: the four low attribute bits all set (the crate's test, see F3). -/
def isFragment (d : Bytes) : Bool := decide (byteAt d 11 % 16 = 15)

/-- The short entry stored in a slot, field by field at the FAT offsets: name 0..10, attributes
11, creation time 14 / date 16, start cluster high half 20 (FAT32 only) and low half 26, write
time 22 / date 24, size 28; all little-endian.  A directory entry with start cluster 0 designates
the root directory (this is how `..` of a first-level directory is stored).  The date/time words
are decoded by `Timestamp.fromFat`, whose agreement with the FAT bit layout is C18. -/
def decode (ft : FatType) (s : Slot) : DirEntry :=
  let d := s.2.2
  let attr := byteAt d 11
  let raw := match ft with
    | .fat32 => readU16 d 20 * 65536 + readU16 d 26
    | .fat16 => readU16 d 26
  { name := d.take 11
    mtime := Timestamp.fromFat (readU16 d 24) (readU16 d 22)
    ctime := Timestamp.fromFat (readU16 d 16) (readU16 d 14)
    attributes := attr
    cluster := if raw = 0 ∧ attr / 16 % 2 = 1 then 0xFFFFFFFC else raw
    size := readU32 d 28
    entryBlock := s.1
    entryOffset := s.2.1 }

/-- What a directory listing must report for the slot sequence `ss`: the live slots that are not
long-name fragments, decoded, in on-disk order. -/
def listing (ft : FatType) (ss : List Slot) : List DirEntry :=
  ((live ss).filter fun s => !isFragment s.2.2).map (decode ft)

/-- What a name lookup compares a slot with: not a long-name fragment, and the 11 name bytes equal. -/
def nameHit (name : Bytes) (s : Slot) : Bool := !isFragment s.2.2 && decide (s.2.2.take 11 = name)

/-- A slot a new entry may be written to: end marker or deleted. -/
def isFree (s : Slot) : Bool := decide (firstByte s.2.2 = 0 ∨ firstByte s.2.2 = 0xE5)

/-- Everything after the first end marker is zero. -/
def CleanTail (ss : List Slot) : Prop :=
  ∀ t ∈ ss.dropWhile (fun s => decide (firstByte s.2.2 ≠ 0)), firstByte t.2.2 = 0

def NoFault (s : FS) : Prop := s.dev.faults = []
def Coherent (s : FS) : Prop := ∀ i, s.cache.tag = some i → s.cache.blk = s.dev.disk.get i

/-! ### One block -/

/-- The model's view of a block is the specification's: 16 slots, slot `i` at offset `32*i`
holding bytes `32*i .. 32*i+31` of the block. -/
theorem slotsOf_spec (blk : Block) (hl : blk.length = 512) :
    slotsOf blk = (List.range 16).map (fun i => (32 * i, (blk.drop (32 * i)).take 32)) ∧
    ∀ i, i < 16 → ((blk.drop (32 * i)).take 32).length = 32 ∧
      ∀ k, k < 32 → ((blk.drop (32 * i)).take 32).getD k 0 = blk.getD (32 * i + k) 0 :=
  Lemmas.Listing.slotsOf_spec blk hl

/-- The model's slot list of a block is `blockSlots` without the block number. -/
theorem slotsOf_blockSlots (b : Nat) (blk : Block) :
    slotsOf blk = (blockSlots b blk).map fun s => (s.2.1, s.2.2) :=
  Lemmas.Listing.slotsOf_eq b blk

/-- Scanning one block yields exactly its live slots, in order, each decoded with its block
number and offset (long-name fragments still included at this level) together with its raw
bytes; the flag says whether the block contains an end marker.  No deleted slot, nothing at or
after the end marker. -/
theorem iterate_block_spec (ft : FatType) (b : Nat) (blk : Block) :
    iterateBlockSlots ft b (slotsOf blk) =
      ((live (blockSlots b blk)).map fun s => (decode ft s, s.2.2), endSeen (blockSlots b blk)) :=
  Lemmas.Listing.iterate_block_spec ft b blk

/-- Lookup in one block returns the decoding of the first slot before the block's end marker
that is not a long-name fragment and whose 11 name bytes equal `name`; `none` if there is none. -/
theorem find_block_spec (ft : FatType) (b : Nat) (name : Bytes) (blk : Block) :
    findInSlots ft b name (slotsOf blk) =
      ((beforeEnd (blockSlots b blk)).find? (nameHit name)).map (decode ft) :=
  Lemmas.Listing.find_block_spec ft b name blk

/-- For every name whose first byte is not 0xE5: lookup in a block finds `e` iff `e` is the first
entry of the block's listing with that name (see F1 for names starting with 0xE5). -/
theorem find_iff_listed_block (ft : FatType) (b : Nat) (name : Bytes) (blk : Block)
    (hname : name.head? ≠ some 0xE5) :
    findInSlots ft b name (slotsOf blk) = (listing ft (blockSlots b blk)).find? (fun e => decide (e.name = name)) :=
  Lemmas.Listing.find_iff_listed_block ft b name blk hname

/-- The slot `create` writes a new entry to: the first slot of the block that is an end marker or
deleted.  All slots before it are live — a new entry never overwrites a live slot and never
leaves a hole (a deleted or end slot) before itself. -/
theorem first_free_slot_spec (b : Nat) (blk : Block) (off : Nat) :
    firstFreeSlot (slotsOf blk) = some off ↔
      ∃ pre s post, blockSlots b blk = pre ++ s :: post ∧ s.2.1 = off ∧
        (firstByte s.2.2 = 0 ∨ firstByte s.2.2 = 0xE5) ∧
        ∀ p ∈ pre, firstByte p.2.2 ≠ 0 ∧ firstByte p.2.2 ≠ 0xE5 :=
  Lemmas.Listing.first_free_slot_spec b blk off

/-- The same as a function: the offset of the first free slot. -/
theorem first_free_slot_find (b : Nat) (blk : Block) :
    firstFreeSlot (slotsOf blk) = ((blockSlots b blk).find? isFree).map (·.2.1) :=
  Lemmas.Listing.first_free_slot_find b blk

/-- The slot `delete` marks: the first slot before the end marker that lookup would return. -/
theorem delete_slot_spec (b : Nat) (name : Bytes) (blk : Block) :
    deleteInSlots name (slotsOf blk) = ((beforeEnd (blockSlots b blk)).find? (nameHit name)).map (·.2.1) :=
  Lemmas.Listing.delete_slot_spec b name blk

/-! ### A run of consecutive blocks (one cluster; the FAT16 fixed root) -/

/-- Listing the blocks `b .. b+n-1`: the live slots of their concatenation up to the first end
marker, decoded, in on-disk order, and the flag "an end marker was seen" (which stops the walk).
Nothing is written; medium and volume record are unchanged. -/
theorem iterate_blocks_spec (n b : Nat) (s : FS) (hn : NoFault s) (hc : Coherent s) :
    ∃ s', iterateBlocks n b s =
        (.ok ((live (dirSlots s.dev.disk b n)).map (fun x => (decode s.vol.fatType x, x.2.2)),
              endSeen (dirSlots s.dev.disk b n)), s') ∧
      s'.dev.disk = s.dev.disk ∧ s'.dev.wlog = s.dev.wlog ∧ s'.vol = s.vol ∧ NoFault s' ∧ Coherent s' :=
  Lemmas.Listing.iterate_blocks_spec n b s hn hc

/-- What lookup does over a run of blocks: the per-block lookup of the first block with a hit.
It does not stop at a block that contains the end marker (F2). -/
def lookupBlocks (ft : FatType) (disk : Disk) (name : Bytes) (b n : Nat) : Option DirEntry :=
  (List.range n).findSome? fun j =>
    ((beforeEnd (blockSlots (b + j) (disk.get (b + j)))).find? (nameHit name)).map (decode ft)

theorem find_blocks_spec (name : Bytes) (n b : Nat) (s : FS) (hn : NoFault s) (hc : Coherent s) :
    ∃ s', findBlocks name n b s = (.ok (lookupBlocks s.vol.fatType s.dev.disk name b n), s') ∧
      s'.dev.disk = s.dev.disk ∧ s'.dev.wlog = s.dev.wlog ∧ s'.vol = s.vol ∧ NoFault s' ∧ Coherent s' :=
  Lemmas.Listing.find_blocks_spec name n b s hn hc

/-- With a clean tail and a name not starting with 0xE5, lookup over a run of blocks finds exactly
the first entry of the run's listing with that name — in particular it fails exactly for the
names the listing does not contain. -/
theorem find_blocks_iff_listed (ft : FatType) (disk : Disk) (name : Bytes) (n b : Nat)
    (hname : name.head? ≠ some 0xE5) (hclean : CleanTail (dirSlots disk b n)) :
    lookupBlocks ft disk name b n = (listing ft (dirSlots disk b n)).find? (fun e => decide (e.name = name)) :=
  Lemmas.Listing.find_blocks_iff_listed ft disk name n b hname hclean

/-- The FAT16 root directory (a fixed region of `ceil(root_entries * 32 / 512)` blocks): the raw
listing is that of the region's blocks. -/
theorem iterate_fat16_root_spec (s : FS) (hn : NoFault s) (hc : Coherent s) (h16 : s.vol.fatType = .fat16) :
    ∃ s', iterateRaw 0xFFFFFFFC s =
        (.ok ((live (dirSlots s.dev.disk (s.vol.lbaStart + s.vol.firstRootDirBlock)
                (blockCountFromBytes (s.vol.rootEntriesCount * 32)))).map
              (fun x => (decode .fat16 x, x.2.2))), s') ∧
      s'.dev.disk = s.dev.disk ∧ s'.dev.wlog = s.dev.wlog ∧ s'.vol = s.vol ∧ NoFault s' ∧ Coherent s' :=
  Lemmas.Listing.iterate_fat16_root_spec s hn hc h16

/-- Lookup in the FAT16 root directory: the entry found over the region's blocks, else `NotFound`. -/
theorem find_fat16_root_spec (name : Bytes) (s : FS) (hn : NoFault s) (hc : Coherent s)
    (h16 : s.vol.fatType = .fat16) :
    ∃ s', Fat.findDirectoryEntry 0xFFFFFFFC name s =
        ((lookupBlocks .fat16 s.dev.disk name (s.vol.lbaStart + s.vol.firstRootDirBlock)
                  (blockCountFromBytes (s.vol.rootEntriesCount * 32))).elim (.err .NotFound) .ok, s') ∧
      s'.dev.disk = s.dev.disk ∧ s'.dev.wlog = s.dev.wlog ∧ s'.vol = s.vol ∧ NoFault s' ∧ Coherent s' :=
  Lemmas.Listing.find_fat16_root_spec name s hn hc h16

/-! ### A directory stored in a cluster chain -/

/-- The FAT link of cluster `c` as a function of the medium. -/
def fatNext (v : FatVolume) (disk : Disk) (c : Nat) : Res Nat :=
  if c > U32_MAX / 4 then .panic "next_cluster called on invalid cluster"
  else decodeNext v.fatType (rawFatEntry v.fatType (disk.get (fatBlock v c)) (fatEntOffset v c))

/-- `next_cluster` reads exactly that link. -/
theorem nextCluster_spec (c : Nat) (s : FS) (hn : NoFault s) (hc : Coherent s) :
    ∃ s', nextCluster c s = (fatNext s.vol s.dev.disk c, s') ∧
      s'.dev.disk = s.dev.disk ∧ s'.dev.wlog = s.dev.wlog ∧ s'.vol = s.vol ∧ NoFault s' ∧ Coherent s' :=
  Lemmas.Listing.nextCluster_spec c s hn hc

/-- `cs` is a directory's cluster chain on the medium: each cluster links to the next, the last
one is marked end-of-chain. -/
def DirChain (v : FatVolume) (disk : Disk) (cs : List Nat) : Prop :=
  (∀ i, i + 1 < cs.length → fatNext v disk (cs.getD i 0) = .ok (cs.getD (i + 1) 0)) ∧
  fatNext v disk (cs.getLast?.getD 0) = .err .EndOfFile

/-- The slots of a chained directory: cluster after cluster, block after block. -/
def chainSlots (v : FatVolume) (disk : Disk) (cs : List Nat) : List Slot :=
  cs.flatMap fun c => dirSlots disk (clusterToBlock v c) v.blocksPerCluster

/-- The cluster the walk of a directory handle starts with (the root marker of a FAT32 volume
stands for the root's start cluster of the boot sector). -/
def startCluster (v : FatVolume) (dirCluster : Nat) : Nat :=
  match v.fatType with
  | .fat16 => dirCluster
  | .fat32 => if dirCluster = 0xFFFFFFFC then v.firstRootDirCluster else dirCluster

/-- Listing a chained directory (every FAT32 directory, every FAT16 sub-directory), whatever the
number and placement of its clusters: the live slots of the chain, in order, up to the first end
marker; nothing after it, nothing twice.  Nothing is written. -/
theorem iterate_chain_spec (s : FS) (dirCluster : Nat) (cs : List Nat) (hn : NoFault s) (hc : Coherent s)
    (hkind : ¬ (s.vol.fatType = .fat16 ∧ dirCluster = 0xFFFFFFFC))
    (hch : DirChain s.vol s.dev.disk (startCluster s.vol dirCluster :: cs))
    (hlen : cs.length ≤ s.vol.clusterCount + 2) :
    ∃ s', iterateRaw dirCluster s =
        (.ok ((live (chainSlots s.vol s.dev.disk (startCluster s.vol dirCluster :: cs))).map
              (fun x => (decode s.vol.fatType x, x.2.2))), s') ∧
      s'.dev.disk = s.dev.disk ∧ s'.dev.wlog = s.dev.wlog ∧ s'.vol = s.vol ∧ NoFault s' ∧ Coherent s' :=
  Lemmas.Listing.iterate_chain_spec s dirCluster cs hn hc hkind hch hlen

/-- What lookup does over a chain: the block-run lookup of the first cluster with a hit. -/
def lookupChain (v : FatVolume) (disk : Disk) (name : Bytes) (cs : List Nat) : Option DirEntry :=
  cs.findSome? fun c => lookupBlocks v.fatType disk name (clusterToBlock v c) v.blocksPerCluster

theorem find_chain_spec (s : FS) (dirCluster : Nat) (name : Bytes) (cs : List Nat) (hn : NoFault s) (hc : Coherent s)
    (hkind : ¬ (s.vol.fatType = .fat16 ∧ dirCluster = 0xFFFFFFFC))
    (hch : DirChain s.vol s.dev.disk (startCluster s.vol dirCluster :: cs))
    (hlen : cs.length ≤ s.vol.clusterCount + 2) :
    ∃ s', Fat.findDirectoryEntry dirCluster name s =
        ((lookupChain s.vol s.dev.disk name (startCluster s.vol dirCluster :: cs)).elim (.err .NotFound) .ok, s') ∧
      s'.dev.disk = s.dev.disk ∧ s'.dev.wlog = s.dev.wlog ∧ s'.vol = s.vol ∧ NoFault s' ∧ Coherent s' :=
  Lemmas.Listing.find_chain_spec s dirCluster name cs hn hc hkind hch hlen

/-- With a clean tail and a name not starting with 0xE5, lookup in a chained directory finds
exactly the first entry of the directory's listing with that name, `.` and `..` included (they
are ordinary slots). -/
theorem find_chain_iff_listed (v : FatVolume) (disk : Disk) (name : Bytes) (cs : List Nat)
    (hname : name.head? ≠ some 0xE5) (hclean : CleanTail (chainSlots v disk cs)) :
    lookupChain v disk name cs =
      (listing v.fatType (chainSlots v disk cs)).find? (fun e => decide (e.name = name)) :=
  Lemmas.Listing.find_chain_iff_listed v disk name cs hname hclean

/-! ### The manager level -/

/-- `iterate_dir` hands the callback what the walk returned minus the long-name fragments. -/
theorem iterate_dir_hides_lfn (directory dirIdx volIdx : Nat) (d : DirInfo) (s s' : Mgr)
    (es : List (DirEntry × Bytes))
    (h1 : getDirById directory s = (.ok dirIdx, s)) (h2 : getDir dirIdx s = (.ok d, s))
    (h3 : getVolumeById d.rawVolume s = (.ok volIdx, s))
    (h4 : withVol volIdx (Fat.iterateRaw d.cluster) s = (.ok es, s')) :
    iterateDir directory s = (.ok ((es.map (·.1)).filter fun e => !Attr.isLfn e.attributes), s') :=
  Lemmas.Listing.iterate_dir_hides_lfn directory dirIdx volIdx d s s' es h1 h2 h3 h4

/-- … which, for the walk results characterised above, is the specification's `listing`. -/
theorem iterate_dir_listing (ft : FatType) (ss : List Slot) :
    ((((live ss).map fun x => (decode ft x, x.2.2)).map (·.1)).filter fun e => !Attr.isLfn e.attributes)
      = listing ft ss :=
  Lemmas.Listing.listing_of_raw ft ss

/-- `open_dir(parent, ".")` does no lookup: the new handle designates the parent's own cluster. -/
theorem open_dir_dot (parentDir parentIdx volIdx : Nat) (name : List Nat) (parent : DirInfo) (vi : VolInfo)
    (s : Mgr) (hroom : s.dirs.length < s.maxDirs)
    (h1 : getDirById parentDir s = (.ok parentIdx, s)) (h2 : getDir parentIdx s = (.ok parent, s))
    (h3 : getVolumeById parent.rawVolume s = (.ok volIdx, s))
    (h4 : Sfn.createFromStr name = .ok Sfn.thisDir) (h5 : getVolInfo volIdx s = (.ok vi, s)) :
    openDir parentDir name s = (.ok s.nextId, { s with
      nextId := (s.nextId + 1) % 4294967296
      dirs := s.dirs ++ [{ rawDirectory := s.nextId, rawVolume := vi.rawVolume, cluster := parent.cluster }] }) :=
  Lemmas.Listing.open_dir_dot parentDir parentIdx volIdx name parent vi s hroom h1 h2 h3 h4 h5

/-- `open_dir(parent, name)` for any other name succeeds exactly when the lookup of `name` in the
parent succeeds with a directory entry, and the new handle designates the cluster stored in that
entry (`decode`: start cluster 0 of a directory entry, as in `..` of a first-level directory, is
the root).  A file gives `OpenedFileAsDir`; a failed lookup is returned as is. -/
theorem open_dir_follows_entry (parentDir parentIdx volIdx : Nat) (name : List Nat) (sfn : Bytes)
    (parent : DirInfo) (vi : VolInfo) (s s' : Mgr) (r : Res DirEntry) (hroom : s.dirs.length < s.maxDirs)
    (h1 : getDirById parentDir s = (.ok parentIdx, s)) (h2 : getDir parentIdx s = (.ok parent, s))
    (h3 : getVolumeById parent.rawVolume s = (.ok volIdx, s))
    (h4 : Sfn.createFromStr name = .ok sfn) (hne : sfn ≠ Sfn.thisDir) (h5 : getVolInfo volIdx s = (.ok vi, s))
    (h6 : withVol volIdx (Fat.findDirectoryEntry parent.cluster sfn) s = (r, s')) :
    openDir parentDir name s =
      match r with
      | .ok e =>
        if Attr.isDirectory e.attributes then
          (.ok s'.nextId, { s' with
            nextId := (s'.nextId + 1) % 4294967296
            dirs := s'.dirs ++ [{ rawDirectory := s'.nextId, rawVolume := vi.rawVolume, cluster := e.cluster }] })
        else (.err .OpenedFileAsDir, s')
      | .err e => (.err e, s')
      | .panic m => (.panic m, s')
      | .diverged => (.diverged, s') :=
  Lemmas.Listing.open_dir_follows_entry parentDir parentIdx volIdx name sfn parent vi s s' r hroom h1 h2 h3 h4 hne h5 h6

/-! ### Non-vacuity and findings (tests, evaluated by the kernel)

A directory block with, in this order: a long-name fragment, the live file `FOO.TXT` (cluster 5,
100 bytes), a deleted slot, the live directory entry `..` with start cluster 0, an end marker,
and — after the end marker — stale bytes that look like a live entry `GHOST.BIN`. -/
namespace Example

def mk (name : Bytes) (attr lo size : UInt8) : Bytes :=
  name ++ [attr] ++ zeros 14 ++ [lo, 0] ++ [size, 0, 0, 0]
def frag : Bytes := mk [0x41, 0x66, 0x00, 0x6F, 0x00, 0x6F, 0x00, 0x2E, 0x00, 0x74, 0x00] 0x0F 0 0
def foo : Bytes := mk [0x46, 0x4F, 0x4F, 0x20, 0x20, 0x20, 0x20, 0x20, 0x54, 0x58, 0x54] 0x20 5 100
def gone : Bytes := mk [0xE5, 0x4C, 0x44, 0x20, 0x20, 0x20, 0x20, 0x20, 0x54, 0x58, 0x54] 0x20 9 7
def dotdot : Bytes := mk [0x2E, 0x2E, 0x20, 0x20, 0x20, 0x20, 0x20, 0x20, 0x20, 0x20, 0x20] 0x10 0 0
def ghost : Bytes := mk [0x47, 0x48, 0x4F, 0x53, 0x54, 0x20, 0x20, 0x20, 0x42, 0x49, 0x4E] 0x20 8 1
def blk : Block := frag ++ foo ++ gone ++ dotdot ++ zeros 32 ++ ghost ++ zeros 320

example : blk.length = 512 := by decide +kernel

/-- The raw scan keeps the fragment, drops the deleted slot, stops at the end marker. -/
example : (iterateBlockSlots .fat16 7 (slotsOf blk)).1.map (fun e => (e.1.attributes, e.1.entryOffset)) =
    [(0x0F, 0), (0x20, 32), (0x10, 96)] ∧ (iterateBlockSlots .fat16 7 (slotsOf blk)).2 = true := by decide

/-- The listing: `FOO.TXT` and `..` (start cluster 0 read as the root), with their stored fields. -/
example : (listing .fat16 (blockSlots 7 blk)).map (fun e => (e.name, e.attributes, e.cluster, e.size, e.entryBlock, e.entryOffset)) =
    [(foo.take 11, 0x20, 5, 100, 7, 32), (dotdot.take 11, 0x10, 0xFFFFFFFC, 0, 7, 96)] := by decide

/-- Lookup finds the listed names … -/
example : (findInSlots .fat16 7 (foo.take 11) (slotsOf blk)).map (·.entryOffset) = some 32 := by decide
example : (findInSlots .fat16 7 (dotdot.take 11) (slotsOf blk)).map (·.cluster) = some 0xFFFFFFFC := by decide
/-- … not the fragment, not what lies after the end marker. -/
example : findInSlots .fat16 7 (frag.take 11) (slotsOf blk) = none := by decide
example : findInSlots .fat16 7 (ghost.take 11) (slotsOf blk) = none := by decide

/-- F1: a name starting with 0xE5 finds the deleted slot, which the listing does not contain. -/
example : (findInSlots .fat16 7 (gone.take 11) (slotsOf blk)).map (·.entryOffset) = some 64 ∧
    (listing .fat16 (blockSlots 7 blk)).find? (fun e => decide (e.name = gone.take 11)) = none := by decide

/-- Create reuses the deleted slot at offset 64 (the first free one); delete of `FOO.TXT` marks offset 32. -/
example : firstFreeSlot (slotsOf blk) = some 64 := by decide
example : deleteInSlots (foo.take 11) (slotsOf blk) = some 32 := by decide

/-- F2: a two-block directory whose first block is empty (end marker in slot 0) and whose second
block holds stale bytes: the listing is empty, lookup finds `GHOST.BIN` in block 1. -/
def twoBlocks : Disk := (Disk.empty.set 0 zeroBlock).set 1 (ghost ++ zeros 480)
example : listing .fat16 (dirSlots twoBlocks 0 2) = [] ∧
    (lookupBlocks .fat16 twoBlocks (ghost.take 11) 0 2).map (·.entryBlock) = some 1 := by decide
example : ¬ CleanTail (dirSlots twoBlocks 0 2) := by
  intro h
  have := h (1, 0, ghost ++ zeros 480 |>.take 32) (by decide)
  revert this
  decide

/-- F3: attribute 0x2F (archive + the four low bits) is treated as a fragment although
`attr & 0x3F ≠ 0x0F`. -/
example : isFragment (mk (foo.take 11) 0x2F 5 100) = true ∧ (0x2F % 64 ≠ 0x0F) := by decide

example : NoFault { dev := { disk := twoBlocks }, cache := {}, vol := default } := rfl
example : Coherent { dev := { disk := twoBlocks }, cache := {}, vol := default } := by
  intro i h; cases h

end Example

end Sdmmc.Props.C06
