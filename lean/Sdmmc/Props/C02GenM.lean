/-
C02, tie to the source text, manager level: `flush_file` and `close_file` (volume_mgr.rs),
machine-translated WHOLE into the model's `M` monad (`Sdmmc.Gen.FunsMgr`), against `Model/Mgr.lean`.
-/
import Sdmmc.Gen.FunsMgr
import Sdmmc.Model.Mgr
import Sdmmc.Lemmas.GenMgr
import Sdmmc.Props.C08GenM
import Sdmmc.Props.C01GenM

set_option linter.unusedSimpArgs false

namespace Sdmmc.Props.C02GenM

open Sdmmc Sdmmc.Model Sdmmc.Gen Sdmmc.Lemmas.GenMgr Sdmmc.Lemmas.DirMgr
open Sdmmc.Props.C08GenM (get_file_by_id_eq get_volume_by_id_eq)
open Sdmmc.Props.C01GenM (getFile_ok getFile_none)

theorem getFileById_state (file : Nat) (s : Mgr) : (getFileById file s).2 = s := by
  unfold getFileById; split <;> rfl
theorem getVolumeById_state (raw : Nat) (s : Mgr) : (getVolumeById raw s).2 = s := by
  unfold getVolumeById; split <;> rfl

/-- **`flush_file` whole**, unlocked: nothing for a clean file; for a dirty one the info sector, then the
directory entry (the table element is read again after every call, as the Rust does).  Stated for
tables in which a file with a length has a cluster: otherwise both sides panic on the `assert!`, with
different texts (the Rust's message is the source text of the condition,
`data.open_files[file_id].entry.cluster.0 != 0`; the model abbreviates it). -/
theorem flush_file_eq (file : Nat) (s : Mgr) (hl : s.locked = false)
    (hok : ∀ f ∈ s.files, f.entry.size ≠ 0 → f.entry.cluster ≠ 0) :
    FunsMgr.VolumeManager_flush_file file s = flushFile file s := by
  unfold FunsMgr.VolumeManager_flush_file flushFile
  simp only [bind_apply, get_apply, get_file_by_id_eq, get_volume_by_id_eq, hl, ite_apply, Bool.false_eq_true, if_false]
  have hs1 := getFileById_state file s
  rcases hg : getFileById file s with ⟨r, s1⟩
  rw [hg] at hs1; simp only at hs1; subst hs1
  cases r <;> simp only []
  rename_i i
  rcases hf : s1.files[i]? with _ | f
  · rw [getFile_none s1 i hf]
  · rw [getFile_ok s1 i f hf]
    simp only []
    have hmem : f ∈ s1.files := List.mem_of_getElem? hf
    cases hd : f.dirty
    · simp only [Bool.false_eq_true, if_false, ite_apply, pure_apply, bind_apply]
    · simp only [if_true, ite_apply, bind_apply, getFile_ok s1 i f hf]
      have hs2 := getVolumeById_state f.rawVolume s1
      rcases hv : getVolumeById f.rawVolume s1 with ⟨r2, s2⟩
      rw [hv] at hs2; simp only at hs2; subst hs2
      cases r2 <;> simp only []
      rename_i vi
      have hfiles := withVol_files vi Fat.updateInfoSector s2
      rcases hw : withVol vi Fat.updateInfoSector s2 with ⟨r3, s3⟩
      rw [hw] at hfiles; simp only at hfiles
      cases r3 <;> simp only [get_apply, bind_apply]
      have hf3 : s3.files[i]? = some f := by rw [hfiles]; exact hf
      simp only [getFile_ok s3 i f hf3, ite_apply]
      by_cases hsz : f.entry.size ≠ 0
      · have hcl := hok f hmem hsz
        have hcl' : ¬ (f.entry.size ≠ 0 ∧ f.entry.cluster = 0) := fun h => hcl h.2
        simp only [hsz, hcl, hcl', if_true, if_false, ne_eq, not_false_eq_true, pure_apply, bind_apply,
          getFile_ok s3 i f hf3, not_true_eq_false]
        rcases withVol vi (Fat.writeEntryToDisk f.entry) s3 with ⟨r4, s4⟩
        cases r4 <;> simp [get_apply, bind_apply, pure_apply, hsz, hcl']
      · have hcl' : ¬ (f.entry.size ≠ 0 ∧ f.entry.cluster = 0) := fun h => hsz h.1
        simp only [hsz, hcl', if_false, pure_apply, bind_apply, getFile_ok s3 i f hf3]
        rcases withVol vi (Fat.writeEntryToDisk f.entry) s3 with ⟨r4, s4⟩
        cases r4 <;> simp [get_apply, bind_apply, pure_apply, hsz, hcl']

theorem flush_file_locked (file : Nat) (s : Mgr) (hl : s.locked = true) :
    FunsMgr.VolumeManager_flush_file file s = (.err .LockError, s) := by
  unfold FunsMgr.VolumeManager_flush_file
  simp only [bind_apply, get_apply, hl, ite_apply, if_true, fail_apply]

/-- **`close_file` whole**, unlocked: flush (its outcome kept aside), drop the file from the table
whatever the flush did, then report the flush's outcome. -/
theorem close_file_eq (file : Nat) (s : Mgr) (hl : s.locked = false)
    (hok : ∀ f ∈ s.files, f.entry.size ≠ 0 → f.entry.cluster ≠ 0) :
    FunsMgr.VolumeManager_close_file file s = closeFile file s := by
  unfold FunsMgr.VolumeManager_close_file closeFile
  simp only [bind_apply, get_apply, attempt_apply, flush_file_eq file s hl hok, get_file_by_id_eq]
  have hl2 : (flushFile file s).2.locked = false := by rw [flushFile_keeps file s]; exact hl
  rcases hfl : flushFile file s with ⟨r, s1⟩
  rw [hfl] at hl2
  dsimp only at hl2 ⊢
  rw [hl2]
  simp only [Bool.false_eq_true, if_false, bind_apply]
  rcases getFileById file s1 with ⟨r2, s2⟩
  cases r2 <;> simp [modify_apply, bind_apply, get_apply, lift_apply]

theorem close_file_locked (file : Nat) (s : Mgr) (hl : s.locked = true) :
    FunsMgr.VolumeManager_close_file file s = (.err .LockError, s) := by
  unfold FunsMgr.VolumeManager_close_file
  simp only [bind_apply, get_apply, attempt_apply, flush_file_locked file s hl, hl, ite_apply, if_true, fail_apply]

end Sdmmc.Props.C02GenM
