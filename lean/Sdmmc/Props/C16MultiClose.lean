/-
C16 with SEVERAL OPEN VOLUMES, the closing half — "after a volume close the stored free-cluster count has changed by
exactly the change in the number of free FAT entries since mount": `close_volume` of ONE volume of a device with several
open volumes, then the next mount of its partition.

`Props.C16Multi` carries the balance of every open volume through every call (`VolInvCN`, `step_accounting_multi`,
`history_accounting_multi`) but stops before the close; `Props.C16Hist2.count_truthful_after_close_all` has the close and
the remount for ONE open volume.  Property theorems only; the proofs are in `Sdmmc.Lemmas.VolNRemount` (`close_volume` and
the mount afterwards, proved directly on the manager with several volumes from `Acct.closeVolume_spec` /
`Acct.mount_after_info`) and `Sdmmc.Lemmas.VolNMounts` (every open partition still mounts).

WHAT IS PROVED.

* `MountsN s` — every open partition mounts on the present medium with the geometry of its volume record.  It is an
  INVARIANT: `step_mounts_multi` (every call — all 23 constructors of `Op`, whatever it answers — keeps it),
  `history_mounts_multi`.  This replaces the one-volume "the medium mounts at the start, and no call changes what mounting
  reads along the history": volumes opened DURING the history are covered too, because a successful `open_volume` IS
  `mountPure` of the present medium (`Lemmas.VolN.openRawVolume_ok_mount`).
  `step_keeps_mount_blocks_multi`: no call changes block 0, the boot sector of an open partition, or its information
  sector outside the two record words (`Lemmas.AcctAll.MountSame`), for EVERY open volume — the multi-volume form of
  `Props.C16Hist2.step_keeps_mount_blocks`.
* `closed_record_exists`, `closed_record_unique` — a `close_volume v` that answers `Ok` closes an open record carrying
  `v`, and there is only one such record.
* `close_volume_multi` — ONE state `s` with `VolInvCN s ghs δ`, `close_volume v` answers `Ok`, no mount hypothesis: the
  record `vi` carrying `v` leaves the table (`swapRemove`; the records left are exactly those with another handle); the
  invariant `VolInvCN` holds afterwards with the SAME offsets (every OTHER volume is still in balance); no FAT block of any
  volume changed; and IF `vi` is FAT32, its hint fits 32 bits and the medium of `s` mounts as partition `idx` with the
  geometry of `vi`, THEN so does the medium afterwards, and the count the mount reads is the in-memory count at the close
  (`0xFFFFFFFF` read as unknown), in balance with the offset `δ v`; when the in-memory count was unknown, the mount reads
  what it read before.
* **`count_truthful_after_close_multi`** — the C16 sentence.  `VolInvCN s ghs δ` and `MountsN s` at the start, ANY covered
  history `ops`, then `close_volume v` answering `Ok` in `sN`; `vi` the record of `sN` carrying `v`.  All of the above, with
  the mount hypothesis DERIVED (partition `vi.idx`), and `MountsN` afterwards for the volumes that stay open.
* `exact_after_close_multi` — `δ = 0` in plain words: if at the start every known count is the number of free FAT entries,
  then a count `n` known at the close is the number of free FAT entries of the partition, the next mount of the partition
  reads `some n`, and `n` is the number of free FAT entries of the mounted record on the final medium.

HYPOTHESES.  `VolInvCN` (`Props.C16Multi`); `CoveredCNRun δ` (about `open_volume` only); `MountsN s` at the start (the
analogue of `hm` / `hsg0` of the one-volume theorem; it holds in particular when no volume is open, and after every
successful `open_volume`); FAT32 and the 32-bit fit of the in-memory hint of the closed record (a `u32` in the crate; the
model's `Nat` does not know), as in the one-volume theorem.  Nothing is assumed about the other volumes.

NOT PROVED / LIMITS.  A FAT32 volume that MOUNTS has 65525 clusters or more, and the kernel evaluation of the checker
over that many FAT entries runs out of heartbeats (`Props.C15Fs`), so no example state here has a MOUNTABLE open FAT32
volume; the same limit applies to the example of `Props.C16Hist2`.  Examples:
* `Example` (the two-volume state `mgr2` of `Props.C16Multi.Example`, FAT32 volume of 20 clusters) instantiates
  `close_volume_multi` for the 13th call `close_volume 5` of the history `ops`: record gone, the other volume in balance, no
  FAT block changed; the remount clause is hypothetical there (`MountsN mgr2` is not available), what the close wrote is
  evaluated instead (`close5_evaluated`: the information sector stores 12 = the number of free FAT entries).
* `ExampleMount` (the smallest FAT16 medium, fresh manager) discharges ALL hypotheses of
  `count_truthful_after_close_multi`, with the volume mounted DURING the history (`open_volume 0; close_volume 0`):
  `CoveredCN` for the mount, `MountsN` with an open volume.  FAT16: the clause about the stored count is vacuous.
-/
import Sdmmc.Lemmas.VolNRemount
import Sdmmc.Lemmas.VolNMounts
import Sdmmc.Props.C16Multi
import Sdmmc.Props.C15Fs

namespace Sdmmc.Props.C16MultiClose
open Sdmmc.Model Sdmmc.Model.Fat Sdmmc.Spec.Volume
open Sdmmc.Spec hiding run step NoFault Coherent
open Sdmmc.Props.C03Multi (CoveredN CoveredNRun)
open Sdmmc.Props.C16Hist2 (Bal DeltaOK)
open Sdmmc.Props.C16Multi (VolInvCN CountOKN DeltaOKN CoveredCN CoveredCNRun)
open Sdmmc.Props.C16Api (normCount)
open Sdmmc.Lemmas.VolN (LabelFresh)
open Sdmmc.Lemmas.AcctAll (MountSame)

/-! ### Every open partition still mounts -/

/-- Every open partition mounts on the present medium, with the geometry of its volume record (`SameGeom`: equal up to
the free count and the next-free hint). -/
def MountsN (s : Mgr) : Prop :=
  ∀ vi, vi ∈ s.vols → ∃ w, mountPure (s.dev.disk.get 0) vi.idx s.dev.disk.get = .ok w ∧ SameGeom w vi.vol

theorem mountsN_iff (s : Mgr) : MountsN s ↔ Lemmas.VolN.MountsN s := Iff.rfl

/-- With no volume open there is nothing to mount. -/
theorem mountsN_nil (s : Mgr) (h : s.vols = []) : MountsN s := by
  intro vi hvi
  rw [h] at hvi; cases hvi

/-- The one-volume fact for the projection of an addressed call, in the form the lemmas take it. -/
theorem mountSame_proj {s : Mgr} {ghs : List Ghost} (hI : VolInvN s ghs) (hm : MirrorN s ghs) (op : Op) {i : Nat}
    {vi : VolInfo} {gh : Ghost} (ht : target s op = some i) (hvi : s.vols[i]? = some vi) (hgh : ghs[i]? = some gh) :
    MountSame gh.vol s.dev.disk (step (proj s i) op).1.dev.disk := by
  have hP : VolInv (proj s i) gh := by rw [C03Multi.proj_def hvi]; exact Lemmas.VolN.volInv_proj hI hvi hgh
  have hPm : Mirror gh.vol (proj s i).dev.disk := by
    rw [C03Multi.proj_def hvi]; exact hm gh (List.mem_of_getElem? hgh)
  have hMS := Lemmas.AcctAll.step_mountSame hP hPm op
    (C04Hist.nameCovered_of_coveredAll (C03Multi.coveredAll_proj ht gh.vol (proj s i)))
  have hpd : (proj s i).dev = s.dev := by rw [C03Multi.proj_def hvi]; rfl
  rw [hpd] at hMS
  exact hMS

/-- **`step_keeps_mount_blocks_multi`.**  No API call — all 23 constructors of `Op`, whatever it answers — changes what
the mount of ANY open partition reads: block 0, the boot sector of the partition, its information sector outside bytes
488 … 495 (`close_volume` and `flush` write those two words only). -/
theorem step_keeps_mount_blocks_multi (s : Mgr) (op : Op) (ghs : List Ghost) (hI : VolInvN s ghs) (hm : MirrorN s ghs)
    (vj : VolInfo) (hvj : vj ∈ s.vols) : MountSame vj.vol s.dev.disk (step s op).1.dev.disk := by
  obtain ⟨j, hj⟩ : ∃ j : Nat, s.vols[j]? = some vj := List.getElem?_of_mem hvj
  by_cases hro : Lemmas.Fault.readOnlyOp op = true
  · rw [(Lemmas.Fault.step_readonly_nowrite s op hro).1]
    exact Lemmas.AcctAll.MountSame.refl _ _
  cases ht : target s op with
  | some i =>
    obtain ⟨vi, hvi⟩ := C03Multi.target_lt ht
    have hilt : i < ghs.length := by rw [hI.len]; exact (List.getElem?_eq_some_iff.1 hvi).1
    obtain ⟨gh, hgh⟩ : ∃ gh, ghs[i]? = some gh := ⟨_, List.getElem?_eq_getElem hilt⟩
    obtain ⟨gh', hL, _, _⟩ := C03Multi.lifted_of_target hI hm op ht hvi hgh
      (by cases op <;> trivial)
    exact Lemmas.VolN.mountSame_targeted hI hvi hgh hL (mountSame_proj hI hm op ht hvi hgh) hj
  | none =>
    exact (Lemmas.VolN.untargeted_frame hI op ht (fun idx e => hro (by rw [e]; rfl))).2 j vj hj

/-- **`step_mounts_multi`.**  Every covered API call keeps `MountsN`: the records that stay keep their partition index and
geometry and nothing their mount reads changes; the record a successful `open_volume` appends is what `mountPure` of the
present medium computes.  (`CoveredN` is used for `open_volume` only: a medium whose blocks have 512 bytes.) -/
theorem step_mounts_multi (s : Mgr) (op : Op) (ghs : List Ghost) (hI : VolInvN s ghs) (hm : MirrorN s ghs)
    (hc : CoveredN s op) (hM : MountsN s) : MountsN (step s op).1 := by
  by_cases hl : ∃ v, op = .label v
  · obtain ⟨v, rfl⟩ := hl
    exact Lemmas.VolN.mountsN_label hI.unlocked v hM
  · cases ht : target s op with
    | some i =>
      obtain ⟨vi, hvi⟩ := C03Multi.target_lt ht
      have hilt : i < ghs.length := by rw [hI.len]; exact (List.getElem?_eq_some_iff.1 hvi).1
      obtain ⟨gh, hgh⟩ : ∃ gh, ghs[i]? = some gh := ⟨_, List.getElem?_eq_getElem hilt⟩
      obtain ⟨gh', hL, _, _⟩ := C03Multi.lifted_of_target hI hm op ht hvi hgh
        (by cases op <;> first | trivial | exact absurd ⟨_, rfl⟩ hl)
      exact Lemmas.VolN.mountsN_targeted hI hvi hgh hL (mountSame_proj hI hm op ht hvi hgh) hM
    | none =>
      refine Lemmas.VolN.mountsN_untargeted hI op ht hM ?_
      intro idx e hd s' hr vi hlast
      subst e
      obtain ⟨_, _, gh, _, hMed, _⟩ := hc hd s' hr vi hlast
      exact hMed.blocksOK

/-- **`history_mounts_multi`.**  Every covered history keeps `MountsN`. -/
theorem history_mounts_multi (ops : List Op) (s : Mgr) (ghs : List Ghost) (hI : VolInvN s ghs) (hm : MirrorN s ghs)
    (hc : CoveredNRun s ops) (hM : MountsN s) : MountsN (run s ops).1 := by
  induction ops generalizing s ghs with
  | nil => exact hM
  | cons op ops ih =>
    obtain ⟨ghs1, h1, m1⟩ := C03Multi.api_step_invariant_multi s op ghs hI hm hc.1
    have := ih (step s op).1 ghs1 h1 m1 hc.2 (step_mounts_multi s op ghs hI hm hc.1 hM)
    unfold run
    exact this

/-! ### The record that is closed -/

/-- `close_volume v` answered `Ok`: the model's `close_volume` ran to its end. -/
theorem closeVolume_ok_of_step {s : Mgr} (hl : s.locked = false) {v : Nat}
    (hok : (step s (.closeVolume v)).2.result = .ok .unit) :
    (closeVolume v (Lemmas.MHoare.resetLogs s)).1 = .ok () ∧
    (step s (.closeVolume v)).1 = (closeVolume v (Lemmas.MHoare.resetLogs s)).2 := by
  rw [Lemmas.MHoare.step_unlocked s _ hl] at hok ⊢
  simp only at hok ⊢
  refine ⟨?_, Lemmas.VolApi.seq_state _ _ _⟩
  have : ((closeVolume v >>= fun _ => (pure Payload.unit : M Payload)) (Lemmas.MHoare.resetLogs s)).1 = .ok .unit := hok
  rw [Lemmas.MHoare.bind_def] at this
  rcases hcv : closeVolume v (Lemmas.MHoare.resetLogs s) with ⟨r, s'⟩
  rw [hcv] at this
  cases r <;> first | rfl | cases this

/-- Handles of open volumes are distinct: at most one record carries `v`. -/
theorem closed_record_unique {s : Mgr} {ghs : List Ghost} (hI : VolInvN s ghs) {vi vj : VolInfo} (hvi : vi ∈ s.vols)
    (hvj : vj ∈ s.vols) (h : vi.rawVolume = vj.rawVolume) : vi = vj := by
  obtain ⟨i, hi⟩ : ∃ i : Nat, s.vols[i]? = some vi := List.getElem?_of_mem hvi
  obtain ⟨j, hj⟩ : ∃ j : Nat, s.vols[j]? = some vj := List.getElem?_of_mem hvj
  have hij : i = j := Lemmas.VolN.index_of_handle hI.handles hi hj h
  subst hij
  exact Option.some.inj (hi.symm.trans hj)

/-! ### `close_volume` in one state -/

/-- **`close_volume_multi`.**  `s` satisfies `VolInvCN` with offsets `δ`; `close_volume v` answers `Ok`; `s3` is the state
afterwards.  Then the record `vi` carrying `v` (at index `k`) has left the volume table — the records of `s3` are exactly
the records of `s` with another handle, in `swap_remove` order —, `VolInvCN` holds in `s3` with the SAME offsets (every
other open volume is still in balance), no FAT block of any volume of `s` changed, and IF `vi` is FAT32, its in-memory hint
fits 32 bits, and the medium of `s` mounts as partition `idx` with the geometry of `vi.vol` (as `w0`), THEN the medium of
`s3` mounts as partition `idx` with the same geometry (as `w'`); the count `w'` carries is the in-memory count at the
close, `0xFFFFFFFF` read as unknown; if that count was known, `w'` is in balance with the offset `δ v` on the final medium;
if it was unknown, `w'` carries what `w0` carried. -/
theorem close_volume_multi (s : Mgr) (ghs : List Ghost) (δ : Nat → Int) (hI : VolInvCN s ghs δ) (v : Nat) (s3 : Mgr)
    (hs3 : s3 = (step s (.closeVolume v)).1) (hok : (step s (.closeVolume v)).2.result = .ok .unit) :
    ∃ (k : Nat) (vi : VolInfo), s.vols[k]? = some vi ∧ vi.rawVolume = v ∧ s3.vols = swapRemove s.vols k ∧
      (∀ w, w ∈ s3.vols ↔ w ∈ s.vols ∧ w.rawVolume ≠ v) ∧
      (∃ ghs', VolInvCN s3 ghs' δ) ∧
      (∀ w, w ∈ s.vols → ∀ b, IsFatBlock w.vol b → s3.dev.disk.get b = s.dev.disk.get b) ∧
      (vi.vol.fatType = .fat32 → (∀ n, vi.vol.nextFreeCluster = some n → n < 4294967296) →
        ∀ (idx : Nat) (w0 : FatVolume), mountPure (s.dev.disk.get 0) idx s.dev.disk.get = .ok w0 → SameGeom w0 vi.vol →
        ∃ w', mountPure (s3.dev.disk.get 0) idx s3.dev.disk.get = .ok w' ∧ SameGeom vi.vol w' ∧
          (∀ n, vi.vol.freeClustersCount = some n → w'.freeClustersCount = normCount n) ∧
          (vi.vol.freeClustersCount ≠ none → Bal (δ v) w' s3.dev.disk) ∧
          (vi.vol.freeClustersCount = none → w'.freeClustersCount = w0.freeClustersCount)) := by
  have hstep := C16Multi.step_accounting_multi s (.closeVolume v) ghs δ hI ⟨trivial, trivial⟩
  obtain ⟨hokc, hstate⟩ := closeVolume_ok_of_step hI.inv.unlocked hok
  rw [← hs3] at hstep
  rw [hstate] at hs3
  subst hs3
  have hI0 := Lemmas.VolN.volInvN_resetLogs hI.inv
  obtain ⟨k, vi, hvi, hraw, hvols, hfat, hmnt⟩ := Lemmas.VolN.close_remountN (δ := δ) hI0 hI.count hI.delta v hokc
  refine ⟨k, vi, hvi, hraw, hvols, ?_, hstep, hfat, hmnt⟩
  intro w
  have := Lemmas.VolN.mem_swapRemove_vols hI0 hvi w
  rw [hraw] at this
  rw [hvols]
  exact this

/-- A `close_volume v` that answers `Ok` closes an open record carrying `v`. -/
theorem closed_record_exists (s : Mgr) (ghs : List Ghost) (δ : Nat → Int) (hI : VolInvCN s ghs δ) (v : Nat)
    (hok : (step s (.closeVolume v)).2.result = .ok .unit) : ∃ vi, vi ∈ s.vols ∧ vi.rawVolume = v := by
  obtain ⟨k, vi, hvi, hraw, _⟩ := close_volume_multi s ghs δ hI v _ rfl hok
  exact ⟨vi, List.mem_of_getElem? hvi, hraw⟩

/-! ### After a history -/

/-- **`count_truthful_after_close_multi`** — the C16 sentence with several open volumes.  `s` satisfies `VolInvCN` with
offsets `δ`, and every open partition of `s` mounts with the geometry of its record (`MountsN s`).  The user makes ANY
covered history `ops` — calls on all volumes, `open_volume` and `close_volume` of other volumes included —, reaching `sN`,
then `close_volume v`, which answers `Ok`, reaching `s3`.  Let `vi` be the record of `sN` carrying the handle `v`
(`closed_record_exists`, `closed_record_unique`).  Then
* `vi` has left the volume table; the records of `s3` are exactly the records of `sN` with another handle;
* `VolInvCN s3 ghs' δ` for some ghosts: every OTHER open volume is still in balance with ITS offset, its FAT copies agree;
  every partition still open still mounts (`MountsN s3`);
* no FAT block of any volume of `sN` changed;
* if `vi` is FAT32 and its in-memory hint fits 32 bits: the medium of `sN` mounts as partition `vi.idx` (as `w0`) and so does
  the medium of `s3` (as `w'`), both with the geometry of `vi.vol`; the count `w'` carries is the in-memory count at the
  close (`0xFFFFFFFF` read as unknown), and if it was known it is in balance with the SAME offset `δ v`:
  `count + δ v` is the number of free FAT entries of the partition on the final medium — exact if `δ v = 0`
  (`exact_after_close_multi`); if it was unknown, `w'` carries what `w0` carried. -/
theorem count_truthful_after_close_multi (s : Mgr) (ghs : List Ghost) (δ : Nat → Int) (hI : VolInvCN s ghs δ)
    (hM : MountsN s) (ops : List Op) (hc : CoveredCNRun δ s ops) (v : Nat) (sN s3 : Mgr) (hsN : sN = (run s ops).1)
    (hs3 : s3 = (step sN (.closeVolume v)).1) (hok : (step sN (.closeVolume v)).2.result = .ok .unit)
    (vi : VolInfo) (hvi : vi ∈ sN.vols) (hv : vi.rawVolume = v) :
    (∃ k : Nat, sN.vols[k]? = some vi ∧ s3.vols = swapRemove sN.vols k) ∧
    (∀ w, w ∈ s3.vols ↔ w ∈ sN.vols ∧ w.rawVolume ≠ v) ∧
    (∃ ghs', VolInvCN s3 ghs' δ) ∧ MountsN s3 ∧
    (∀ w, w ∈ sN.vols → ∀ b, IsFatBlock w.vol b → s3.dev.disk.get b = sN.dev.disk.get b) ∧
    (vi.vol.fatType = .fat32 → (∀ n, vi.vol.nextFreeCluster = some n → n < 4294967296) →
      ∃ w0 w', mountPure (sN.dev.disk.get 0) vi.idx sN.dev.disk.get = .ok w0 ∧ SameGeom w0 vi.vol ∧
        mountPure (s3.dev.disk.get 0) vi.idx s3.dev.disk.get = .ok w' ∧ SameGeom vi.vol w' ∧
        (∀ n, vi.vol.freeClustersCount = some n → w'.freeClustersCount = normCount n) ∧
        (vi.vol.freeClustersCount ≠ none → Bal (δ v) w' s3.dev.disk) ∧
        (vi.vol.freeClustersCount = none → w'.freeClustersCount = w0.freeClustersCount)) := by
  subst hsN
  obtain ⟨ghsN, hN⟩ := C16Multi.history_accounting_multi ops s ghs δ hI hc
  have hMN := history_mounts_multi ops s ghs hI.inv hI.mirror (C16Multi.coveredNRun_of_coveredCNRun hc) hM
  obtain ⟨k, vi', hk, hraw, hvols, hmemiff, hinv3, hfat, hmnt⟩ := close_volume_multi _ ghsN δ hN v s3 hs3 hok
  have hvv : vi' = vi :=
    closed_record_unique hN.inv (List.mem_of_getElem? hk) hvi (by rw [hv, hraw])
  subst hvv
  refine ⟨⟨k, hk, hvols⟩, hmemiff, hinv3, ?_, hfat, ?_⟩
  · rw [hs3]
    exact step_mounts_multi _ _ ghsN hN.inv hN.mirror trivial hMN
  · intro h32 hfit
    obtain ⟨w0, hm0, hsg0⟩ := hMN vi' hvi
    obtain ⟨w', h1, h2, h3, h4, h5⟩ := hmnt h32 hfit vi'.idx w0 hm0 hsg0
    exact ⟨w0, w', hm0, hsg0, h1, h2, h3, h4, h5⟩

/-- **`exact_after_close_multi`** — `δ = 0`, in plain words.  At the start every known in-memory free count of an open
volume IS the number of free FAT entries of that volume, every open partition mounts, and every volume mounted on the way
is exact when mounted (`CoveredCNRun (fun _ => 0)`, cf. `Props.C16Multi.mountInBalance_zero`).  After ANY covered history,
`close_volume v` answers `Ok`; the record `vi` carrying `v` is FAT32, its hint fits 32 bits, and its in-memory count is
known: `some n`.  Then `n` is the number of free FAT entries of the partition at the close; the next mount of partition
`vi.idx` succeeds with the geometry of `vi.vol` and READS `some n`; and `n` is the number of free FAT entries of the
mounted record on the final medium. -/
theorem exact_after_close_multi (s : Mgr) (ghs : List Ghost) (hI : VolInvN s ghs) (hm : MirrorN s ghs)
    (hex : ∀ vi, vi ∈ s.vols → ∀ n, vi.vol.freeClustersCount = some n → n = freeCount vi.vol s.dev.disk)
    (hM : MountsN s) (ops : List Op) (hc : CoveredCNRun (fun _ => 0) s ops) (v : Nat) (sN s3 : Mgr)
    (hsN : sN = (run s ops).1) (hs3 : s3 = (step sN (.closeVolume v)).1)
    (hok : (step sN (.closeVolume v)).2.result = .ok .unit) (vi : VolInfo) (hvi : vi ∈ sN.vols) (hv : vi.rawVolume = v)
    (h32 : vi.vol.fatType = .fat32) (hfit : ∀ n, vi.vol.nextFreeCluster = some n → n < 4294967296) (n : Nat)
    (hn : vi.vol.freeClustersCount = some n) :
    n = freeCount vi.vol sN.dev.disk ∧
    ∃ w', mountPure (s3.dev.disk.get 0) vi.idx s3.dev.disk.get = .ok w' ∧ SameGeom vi.vol w' ∧
      w'.freeClustersCount = some n ∧ n = freeCount w' s3.dev.disk := by
  have h0 : VolInvCN s ghs (fun _ => 0) :=
    ⟨hI, hm, fun vi hvi => (C16Hist2.bal_zero _ _).2 (hex vi hvi),
     fun vi hvi => C16Hist2.deltaOK_zero _ (Lemmas.VolN.wf_of_mem hI hvi).choose_spec.2⟩
  obtain ⟨_, _, _, _, _, hmnt⟩ := count_truthful_after_close_multi s ghs _ h0 hM ops hc v sN s3 hsN hs3 hok vi hvi hv
  obtain ⟨w0, w', _, _, hm', hsg', hcnt, hbal, _⟩ := hmnt h32 hfit
  obtain ⟨ghsN, hN⟩ := C16Multi.history_accounting_multi ops s ghs _ h0 hc
  rw [← hsN] at hN
  have hnN : n = freeCount vi.vol sN.dev.disk := (C16Hist2.bal_zero _ _).1 (hN.count vi hvi) n hn
  have hle := Lemmas.ForestCount.freeCount_le vi.vol sN.dev.disk
  have hend := Lemmas.Acct.endCluster_bound32 (Lemmas.VolN.wf_of_mem hN.inv hvi).choose_spec.2 h32
  have hw : w'.freeClustersCount = some n := by
    rw [hcnt n hn]
    unfold normCount
    rw [if_neg (by omega)]
  refine ⟨hnN, w', hm', hsg', hw, ?_⟩
  exact (C16Hist2.bal_zero _ _).1 (hbal (by rw [hn]; exact fun h => by cases h)) n hw

/-! ### Non-vacuity and evaluation (tests, labelled as tests)

The two-volume medium of `Props.C16Multi.Example`: a FAT16 volume (handle 1) and a FAT32 volume (handle 5, 20 clusters), the
history `ops` of `Props.C03Multi.Example`, whose first 12 calls leave both volumes open with no file or directory of
volume 5 open; the 13th call is `close_volume 5`. -/

namespace Example
open Sdmmc.Lemmas.VolExample Sdmmc.Lemmas.VolN.Example2
open Sdmmc.Props.C03Multi.Example (ops)
open Sdmmc.Props.C16Multi.Example (invCN2 ops_coveredC)

/-- The state in which `close_volume 5` is issued, and the state it leaves. -/
def sN : Mgr := (run mgr2 (ops.take 12)).1
def s3 : Mgr := (step sN (.closeVolume 5)).1

/-- Evaluated (TEST): `close_volume 5` answers `Ok` in `sN`. -/
theorem close5_ok : (step sN (.closeVolume 5)).2.result = .ok .unit :=
  C16Api.Example.of_isUnit (by decide +kernel)

/-- The invariant holds where the close is issued (`history_accounting_multi`). -/
theorem sN_inv : ∃ ghs', VolInvCN sN ghs' (fun _ => 0) :=
  C16Multi.history_accounting_multi _ mgr2 ghs2 _ invCN2 (C16Multi.coveredCNRun_take ops_coveredC 12)

/-- `close_volume_multi` applies: a record carrying handle 5 leaves the table, the FAT16 volume stays in balance (and
sound, with agreeing FAT copies), no FAT block changed; the remount clause is hypothetical on this medium (see the file
header). -/
theorem close5 : ∃ (k : Nat) (vi : VolInfo), sN.vols[k]? = some vi ∧ vi.rawVolume = 5 ∧ s3.vols = swapRemove sN.vols k ∧
    (∀ w, w ∈ s3.vols ↔ w ∈ sN.vols ∧ w.rawVolume ≠ 5) ∧ (∃ ghs', VolInvCN s3 ghs' (fun _ => 0)) ∧
    (∀ w, w ∈ sN.vols → ∀ b, IsFatBlock w.vol b → s3.dev.disk.get b = sN.dev.disk.get b) := by
  obtain ⟨ghs', h⟩ := sN_inv
  obtain ⟨k, vi, h1, h2, h3, h4, h5, h6, _⟩ := close_volume_multi sN ghs' _ h 5 s3 rfl close5_ok
  exact ⟨k, vi, h1, h2, h3, h4, h5, h6⟩

/-- Evaluated (TEST): the record closed is the FAT32 record (index 1, partition 1, count `some 12`, a hint that fits);
afterwards the FAT16 record is alone; the information sector of the closed partition (block 41) stores 12, the number of
free FAT entries of the partition before and after the close. -/
theorem close5_evaluated :
    sN.vols.map (fun w => (w.rawVolume, w.idx, w.vol.fatType, w.vol.freeClustersCount)) =
      [(1, 0, .fat16, none), (5, 1, .fat32, some 12)] ∧
    (sN.vols.all fun w => match w.vol.nextFreeCluster with | some n => decide (n < 4294967296) | none => true) = true ∧
    s3.vols.map (fun w => (w.rawVolume, w.idx)) = [(1, 0)] ∧
    readU32 (s3.dev.disk.get 41) 488 = 12 ∧ freeCount vol32b sN.dev.disk = 12 ∧ freeCount vol32b s3.dev.disk = 12 := by
  decide +kernel

/-- With no volume open `MountsN` holds, so `count_truthful_after_close_multi` applies to every history that starts by
mounting: the state `sLie` of `Props.C16Multi.Example` (no volume open, a mountable FAT32 medium). -/
theorem mountsN_fresh : MountsN C16Multi.Example.sLie := mountsN_nil _ rfl

end Example

/-! #### A volume mounted DURING the history

The smallest FAT16 medium (`Props.C02Reopen.Example.disk1`: an MBR, partition 0 from block 1, 4085 clusters; checked sound
in `Props.C15Fs.Example16`) under a fresh manager: no volume is open, `VolInvCN` and `MountsN` hold trivially; the history
`[open_volume 0]` is COVERED (`CoveredCN`: the record the mount appends is `vol0`, sound, with nothing to balance), so
`MountsN` holds afterwards — now with an open volume —, and `count_truthful_after_close_multi` applies to
`open_volume 0; close_volume 0` with all its hypotheses discharged.  The volume is FAT16: the clause about the stored count
is hypothetical here too (a FAT32 volume that mounts has 65525 clusters or more). -/

namespace ExampleMount
open Sdmmc.Props.C02Reopen.Example (disk1 vol0 fresh)
open Sdmmc.Props.C15Fs.Example16 (ghM invM)

theorem fresh_inv (δ : Nat → Int) : VolInvCN fresh [] δ where
  inv :=
    { noFault := rfl, coherent := fun i h => (by cases h), unlocked := rfl, len := rfl
      vols := fun i vi gh h => (by cases h), handles := List.nodup_nil, indices := List.nodup_nil
      parts := fun i j vi vj h => (by cases h), med := fun i vi gh h => (by cases h), fileVols := fun f h => (by cases h)
      openDirs := fun di h => (by cases h), inertDirs := fun di h => (by cases h) }
  mirror := fun gh h => (by cases h)
  count := fun vi h => (by cases h)
  delta := fun vi h => (by cases h)

theorem fresh_mounts : MountsN fresh := mountsN_nil _ rfl

/-- Evaluated (TEST): the medium mounts as `vol0`. -/
theorem mount1 : mountPure (disk1.get 0) 0 disk1.get = .ok vol0 := by decide +kernel

/-- The record a successful `open_volume 0` appends is `vol0` under the handle handed out. -/
theorem open0_record (h : Nat) (s' : Mgr) (hr : openRawVolume 0 (Lemmas.MHoare.resetLogs fresh) = (.ok h, s')) (vi : VolInfo)
    (hlast : s'.vols.getLast? = some vi) : vi = { rawVolume := h, idx := 0, vol := vol0 } := by
  have hblk : ∀ i, (disk1.get i).length = 512 := invM.med.blocksOK
  obtain ⟨v, hm, hvols, _⟩ := Lemmas.VolN.openRawVolume_ok_mount (s := Lemmas.MHoare.resetLogs fresh)
    ⟨rfl, (fun i h => by cases h), hblk, rfl⟩ 0 h s' hr
  have hm' : mountPure (disk1.get 0) 0 disk1.get = .ok v := hm
  have hv : v = vol0 := by
    rw [mount1] at hm'
    exact (Res.ok.inj hm').symm
  rw [hvols, List.getLast?_concat, hv] at hlast
  exact (Option.some.inj hlast).symm

/-- `open_volume 0` is covered in the fresh state. -/
theorem open0_covered : CoveredCN (fun _ => 0) fresh (.openVolume 0) := by
  refine C16Multi.mountInBalance_zero fresh 0 ?_ ?_
  · intro h s' hr vi hlast
    rw [open0_record h s' hr vi hlast]
    exact ⟨(fun hmem => by cases hmem), (fun w hw => by cases hw),
      ghM, rfl, invM.med, (fun c _ b2 hb => by cases hb)⟩
  · intro h s' hr vi hlast n hn
    rw [open0_record h s' hr vi hlast] at hn
    cases hn

def sN : Mgr := (run fresh [.openVolume 0]).1
def s3 : Mgr := (step sN (.closeVolume 0)).1

/-- After the mount `MountsN` holds — with an open volume (`history_mounts_multi`). -/
theorem sN_mounts : MountsN sN :=
  history_mounts_multi [.openVolume 0] fresh [] (fresh_inv (fun _ => 0)).inv (fresh_inv (fun _ => 0)).mirror
    ⟨open0_covered.1, trivial⟩ fresh_mounts

/-- Evaluated (TEST): the mount hands out handle 0 and appends the record of partition 0; `close_volume 0` answers `Ok`. -/
theorem sN_evaluated : sN.vols.map (fun w => (w.rawVolume, w.idx, w.vol.fatType)) = [(0, 0, .fat16)] ∧
    s3.vols.map (fun w => w.rawVolume) = [] := by decide +kernel

theorem close0_ok : (step sN (.closeVolume 0)).2.result = .ok .unit :=
  C16Api.Example.of_isUnit (by decide +kernel)

/-- `count_truthful_after_close_multi`, instantiated with every hypothesis discharged. -/
theorem close0 (vi : VolInfo) (hvi : vi ∈ sN.vols) (hv : vi.rawVolume = 0) :
    (∀ w, w ∈ s3.vols ↔ w ∈ sN.vols ∧ w.rawVolume ≠ 0) ∧ (∃ ghs', VolInvCN s3 ghs' (fun _ => 0)) ∧ MountsN s3 :=
  let ⟨_, h2, h3, h4, _⟩ := count_truthful_after_close_multi fresh [] _ (fresh_inv _) fresh_mounts [.openVolume 0]
    ⟨open0_covered, trivial⟩ 0 sN s3 rfl rfl close0_ok vi hvi hv
  ⟨h2, h3, h4⟩

end ExampleMount

end Sdmmc.Props.C16MultiClose
