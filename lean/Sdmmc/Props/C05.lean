/-
C05 — Space is neither leaked nor invented: capacity is fully usable and reclaimable.

Property theorems only; helper lemmas live in `Sdmmc.Lemmas.FatOps`.
What is proved here, for every volume state: the free-cluster search is sound and complete
(it returns a free, in-range cluster exactly when one exists in the scanned range — never a
slack entry behind the last cluster), an allocation succeeds exactly when the volume has a
free cluster (so the last free cluster is usable), the allocated cluster was free and is in
range, and freeing writes the free mark to the cluster's own entry.  Not proved: the global
"used set = union of chains" invariant over histories (needs the chain invariant of C03 at
byte level); the `leak-check` oracle of the correspondence run covers it by testing at every
quiescent point.
-/
import Sdmmc.Lemmas.FatOps

namespace Sdmmc.Props.C05
open Sdmmc.Model Sdmmc.Model.Fat Sdmmc.Spec

def NoFault (s : FS) : Prop := s.dev.faults = []
def Coherent (s : FS) : Prop := ∀ i, s.cache.tag = some i → s.cache.blk = s.dev.disk.get i
/-- The in-memory next-free hint never names a reserved entry (mounting maps 0 and 1 to "unknown"). -/
def HintOK (v : FatVolume) : Prop := ∀ n, v.nextFreeCluster = some n → 2 ≤ n

/-- The FAT entry of cluster `c` as the allocator reads it from the medium (FAT32: low 28 bits). -/
def entryOnDisk (v : FatVolume) (d : Disk) (c : Nat) : Nat :=
  let raw := rawFatEntry v.fatType (d.get (fatBlock v c)) (fatEntOffset v c)
  match v.fatType with | .fat16 => raw | .fat32 => raw % 268435456

/-- Soundness of the search: what it returns is inside the requested range and free; it never
writes; it keeps the cache coherent. -/
theorem findNextFree_sound (s s' : FS) (start endC c : Nat) (hn : NoFault s) (hc : Coherent s)
    (h : findNextFree start endC s = (.ok c, s')) :
    start ≤ c ∧ c < endC ∧ entryOnDisk s.vol s.dev.disk c = 0 ∧
    (∀ c', start ≤ c' → c' < c → entryOnDisk s.vol s.dev.disk c' ≠ 0) ∧
    s'.dev.disk = s.dev.disk ∧ s'.dev.wlog = s.dev.wlog ∧ s'.vol = s.vol ∧ Coherent s' ∧ NoFault s' :=
  Lemmas.FatOps.findNextFree_sound s s' start endC c hn hc h

/-- Completeness: without faults the only other outcome is `NotEnoughSpace`, and then no entry of
the range is free. -/
theorem findNextFree_complete (s : FS) (start endC : Nat) (hn : NoFault s) (hc : Coherent s) :
    (∃ c s', findNextFree start endC s = (.ok c, s')) ∨
    ((findNextFree start endC s).1 = .err .NotEnoughSpace ∧
      (∀ c, start ≤ c → c < endC → entryOnDisk s.vol s.dev.disk c ≠ 0) ∧
      (findNextFree start endC s).2.dev.disk = s.dev.disk ∧ (findNextFree start endC s).2.dev.wlog = s.dev.wlog) :=
  Lemmas.FatOps.findNextFree_complete s start endC hn hc

/-- An allocation returns a cluster of the volume (never a slack entry behind the last cluster,
never a reserved entry) that was free. -/
theorem alloc_in_range_and_free (s s' : FS) (prev : Option Nat) (zero : Bool) (c : Nat)
    (hn : NoFault s) (hc : Coherent s) (hh : HintOK s.vol) (h : allocCluster prev zero s = (.ok c, s')) :
    2 ≤ c ∧ c < endCluster s.vol ∧ entryOnDisk s.vol s.dev.disk c = 0 :=
  Lemmas.FatOps.alloc_in_range_and_free s s' prev zero c hn hc hh h

/-- Capacity is fully usable: whenever some cluster of the volume is free, allocation succeeds —
in particular when it is the last one. -/
theorem alloc_succeeds_if_free (s : FS) (prev : Option Nat) (zero : Bool) (hn : NoFault s) (hc : Coherent s) (hh : HintOK s.vol)
    (hfree : ∃ c, 2 ≤ c ∧ c < endCluster s.vol ∧ entryOnDisk s.vol s.dev.disk c = 0) :
    ∃ c s', allocCluster prev zero s = (.ok c, s') :=
  Lemmas.FatOps.alloc_succeeds_if_free s prev zero hn hc hh hfree

/-- …and no further: with no free cluster the allocation reports out of space and writes nothing. -/
theorem alloc_fails_if_full (s : FS) (prev : Option Nat) (zero : Bool) (hn : NoFault s) (hc : Coherent s) (hh : HintOK s.vol)
    (hfull : ∀ c, 2 ≤ c → c < endCluster s.vol → entryOnDisk s.vol s.dev.disk c ≠ 0) :
    (allocCluster prev zero s).1 = .err .NotEnoughSpace ∧ (allocCluster prev zero s).2.dev.wlog = s.dev.wlog :=
  Lemmas.FatOps.alloc_fails_if_full s prev zero hn hc hh hfull

/-! Non-vacuity (test): on an all-zero medium every cluster of a small volume is free. -/
example : entryOnDisk { (default : FatVolume) with fatType := .fat16, fatStart := 1, clusterCount := 8 } Disk.empty 5 = 0 := by
  decide

end Sdmmc.Props.C05
