/-
C15, tie to the source text, manager level: `open_raw_volume` (volume_mgr.rs) — the table guards, the
partition-table part (signature, entry `0..3`, status byte, type / start / length), the accepted partition
types, `parse_volume` and the new table entry — machine-translated WHOLE into the model's `M` monad
(`Sdmmc.Gen.FunsMgr`), against `Model/Mgr.lean`.  `fat::parse_volume` itself is a BINDING at this level
(`FunsMgr.parseVolume`: the model's sequence of reads and parsers); its arithmetic is tied by
`Props/C15Gen.lean` / `C15GenLayout.lean`.
-/
import Sdmmc.Gen.FunsMgr
import Sdmmc.Model.Mgr
import Sdmmc.Lemmas.GenMgr
import Sdmmc.Lemmas.GenBits
import Sdmmc.Props.C08GenM

set_option linter.unusedSimpArgs false

namespace Sdmmc.Props.C15GenM

open Sdmmc Sdmmc.Model Sdmmc.Gen Sdmmc.Lemmas.GenMgr Sdmmc.Lemmas.DirMgr Sdmmc.Lemmas.GenBits
open Sdmmc.Props.C08GenM (generate_eq)

/-- A block read through the manager's cache outside any volume (the model's local `rd`). -/
def rdM (idx : Nat) : M Block := FunsMgr.cacheOp (cacheRead idx >>= fun _ => cacheBlk)

theorem openRawVolume_form (volumeIdx : Nat) : openRawVolume volumeIdx =
  (M.get >>= fun s => if s.vols.length ≥ s.maxVols then M.fail .TooManyOpenVolumes else
    if s.vols.any (·.idx = volumeIdx) then M.fail .VolumeAlreadyOpen else
    rdM 0 >>= fun mbr => M.lift (parsePartition mbr volumeIdx) >>= fun x =>
    if !supportedPartitionType x.1 then M.fail (.FormatError "Partition type not supported") else
    rdM x.2.1 >>= fun bpb => M.lift (parseVolumeBpb bpb x.2.1 x.2.2) >>= fun v =>
    (match v.fatType with
      | .fat16 => pure v
      | .fat32 => rdM v.infoLocation >>= fun info => M.lift (parseVolumeInfo v info) : M FatVolume) >>= fun v =>
    generate >>= fun id =>
    (M.modify fun s => { s with vols := s.vols ++ [{ rawVolume := id, idx := volumeIdx, vol := v }] }) >>= fun _ => pure id) := rfl

theorem parseVolume_form (lba nb : Nat) : FunsMgr.parseVolume lba nb =
    (rdM lba >>= fun bpb => M.lift (parseVolumeBpb bpb lba nb) >>= fun v =>
    (match v.fatType with
      | .fat16 => pure v
      | .fat32 => rdM v.infoLocation >>= fun info => M.lift (parseVolumeInfo v info) : M FatVolume)) := rfl


theorem rd_bind {β : Type} (idx : Nat) (k : Block → M β) :
    (FunsMgr.cacheOp (cacheRead idx) >>= fun _ => FunsMgr.cacheOp cacheBlk >>= k) = rdM idx >>= k := by
  funext s
  simp only [bind_apply, rdM, FunsMgr.cacheOp, Lemmas.FBasic.bind_apply]
  rcases cacheRead idx { dev := s.dev, cache := s.cache, vol := default } with ⟨r, fs⟩
  cases r <;> rfl

theorem rdM_keeps (idx : Nat) (s : Mgr) :
    (rdM idx s).2.vols = s.vols ∧ (rdM idx s).2.maxVols = s.maxVols ∧ (rdM idx s).2.nextId = s.nextId := ⟨rfl, rfl, rfl⟩

def GenTail (volumeIdx : Nat) (a : Nat × Nat × Nat) : M Nat :=
  M.get >>= fun _ => M.get >>= fun _ =>
  if (a.1 = 11 ∨ a.1 = 12 ∨ a.1 = 14 ∨ a.1 = 6 ∨ a.1 = 4) then
    FunsMgr.parseVolume a.2.1 a.2.2 >>= fun volume => M.get >>= fun _ => generate >>= fun id =>
      (M.get >>= fun s => if s.vols.length ≥ s.maxVols then M.panic "called `Result::unwrap()` on an `Err` value"
        else M.modify fun s => { s with vols := s.vols ++ [{ rawVolume := id, idx := volumeIdx, vol := volume }] }) >>= fun _ =>
      M.get >>= fun _ => pure id
  else M.fail (.FormatError "Partition type not supported")

def ModelTail (volumeIdx : Nat) (x : Nat × Nat × Nat) : M Nat :=
  if !supportedPartitionType x.1 then M.fail (.FormatError "Partition type not supported") else
    rdM x.2.1 >>= fun bpb => M.lift (parseVolumeBpb bpb x.2.1 x.2.2) >>= fun v =>
    (match v.fatType with
      | .fat16 => pure v
      | .fat32 => rdM v.infoLocation >>= fun info => M.lift (parseVolumeInfo v info) : M FatVolume) >>= fun v =>
    generate >>= fun id =>
    (M.modify fun s => { s with vols := s.vols ++ [{ rawVolume := id, idx := volumeIdx, vol := v }] }) >>= fun _ => pure id

theorem supported_iff (t : Nat) : (t = 11 ∨ t = 12 ∨ t = 14 ∨ t = 6 ∨ t = 4) ↔ supportedPartitionType t = true := by
  have h : supportedPartitionType t =
      (decide (t = 11) || decide (t = 12) || decide (t = 14) || decide (t = 6) || decide (t = 4)) := rfl
  rw [h]
  constructor
  · rintro (h | h | h | h | h) <;> subst h <;> rfl
  · intro h
    simp only [Bool.or_eq_true, decide_eq_true_eq] at h
    omega

theorem rdM_vols (idx : Nat) (s : Mgr) : (rdM idx s).2.vols = s.vols ∧ (rdM idx s).2.maxVols = s.maxVols := ⟨rfl, rfl⟩

theorem tail_eq (volumeIdx : Nat) (a : Nat × Nat × Nat) (s1 : Mgr) (hroom : ¬ s1.vols.length ≥ s1.maxVols) :
    GenTail volumeIdx a s1 = ModelTail volumeIdx a s1 := by
  unfold GenTail ModelTail
  simp only [bind_apply, get_apply, ite_apply, parseVolume_form]
  by_cases hsup : supportedPartitionType a.1 = true
  · have h1 := (supported_iff a.1).mpr hsup
    simp only [h1, hsup, if_true, Bool.not_true, Bool.false_eq_true, if_false, bind_apply]
    obtain ⟨hv1, hm1⟩ := rdM_vols a.2.1 s1
    rcases hr : rdM a.2.1 s1 with ⟨r, s2⟩
    rw [hr] at hv1 hm1; simp only at hv1 hm1
    cases r <;> simp only [lift_apply]
    rename_i bpb
    cases hpv : parseVolumeBpb bpb a.2.1 a.2.2 <;> simp only []
    rename_i v
    cases hft : v.fatType
    · simp only [pure_apply, get_apply, generate, bind_apply, ite_apply]
      have : ¬ s2.vols.length ≥ s2.maxVols := by rw [hv1, hm1]; exact hroom
      simp only [this, if_false, modify_apply, pure_apply]
    · simp only [bind_apply]
      obtain ⟨hv2, hm2⟩ := rdM_vols v.infoLocation s2
      rcases hr2 : rdM v.infoLocation s2 with ⟨r2, s3⟩
      rw [hr2] at hv2 hm2; simp only at hv2 hm2
      cases r2 <;> simp only [lift_apply]
      rename_i info
      cases parseVolumeInfo v info <;> simp only [pure_apply, get_apply, generate, bind_apply, ite_apply]
      have : ¬ s3.vols.length ≥ s3.maxVols := by rw [hv2, hm2, hv1, hm1]; exact hroom
      simp only [this, if_false, modify_apply, pure_apply]
  · have h1 : ¬ (a.1 = 11 ∨ a.1 = 12 ∨ a.1 = 14 ∨ a.1 = 6 ∨ a.1 = 4) := fun h => hsup ((supported_iff a.1).mp h)
    have h2 : supportedPartitionType a.1 = false := by cases h : supportedPartitionType a.1 <;> simp_all
    simp only [h1, h2, if_false, Bool.not_false, if_true, fail_apply]

def GenStage (volume_idx : Nat) (block : Block) : M (Nat × Nat × Nat) :=
  M.get >>= fun _ =>
  (if ((FunsMgr.rdByte block 510 + 256 * FunsMgr.rdByte block 511) ≠ 43605)
    then (M.fail (Err.FormatError "Invalid MBR signature")) else (pure ())) >>= fun _ =>
  (if volume_idx = 0 then (pure (List.drop 446 (List.take 462 block)))
    else if volume_idx = 1 then (pure (List.drop 462 (List.take 478 block)))
    else if volume_idx = 2 then (pure (List.drop 478 (List.take 494 block)))
    else if volume_idx = 3 then (pure (List.drop 494 (List.take 510 block)))
    else (M.fail Err.NoSuchVolume)) >>= fun partition =>
  (if (((FunsMgr.rdByte partition 0) &&& 127) ≠ 0)
    then (M.fail (Err.FormatError "Invalid partition status")) else (pure ())) >>= fun _ =>
  pure ((FunsMgr.rdByte partition 4),
    (FunsMgr.rdByte partition 8 + 256 * FunsMgr.rdByte partition 9 + 65536 * FunsMgr.rdByte partition 10 + 16777216 * FunsMgr.rdByte partition 11),
    (FunsMgr.rdByte partition 12 + 256 * FunsMgr.rdByte partition 13 + 65536 * FunsMgr.rdByte partition 14 + 16777216 * FunsMgr.rdByte partition 15))

/-- The translation, factored (checked by unfolding: an edit of the Rust breaks this `rfl`). -/
theorem gen_form (volumeIdx : Nat) : FunsMgr.VolumeManager_open_raw_volume volumeIdx =
    (M.get >>= fun _ => M.get >>= fun s =>
      if s.locked = true then M.fail Err.LockError else
      (if s.vols.length ≥ s.maxVols then M.fail Err.TooManyOpenVolumes else pure ()) >>= fun _ =>
      match FunsMgr.forFirst s.vols 0 (fun _ v => if v.idx = volumeIdx then some (M.fail Err.VolumeAlreadyOpen) else none) with
      | some t => t
      | none => ((FunsMgr.cacheOp (cacheRead 0) >>= fun _ => FunsMgr.cacheOp cacheBlk >>= fun block => GenStage volumeIdx block)
          >>= GenTail volumeIdx)) := rfl

theorem model_form (volumeIdx : Nat) : openRawVolume volumeIdx =
  (M.get >>= fun s => if s.vols.length ≥ s.maxVols then M.fail .TooManyOpenVolumes else
    if s.vols.any (·.idx = volumeIdx) then M.fail .VolumeAlreadyOpen else
    rdM 0 >>= fun mbr => M.lift (parsePartition mbr volumeIdx) >>= ModelTail volumeIdx) := rfl

/-- The partition-table part: signature, the entry for the index (or `NoSuchVolume`), the status byte,
then type / start / length. -/
theorem stage_eq (volumeIdx : Nat) (mbr : Block) : GenStage volumeIdx mbr = M.lift (parsePartition mbr volumeIdx) := by
  funext s1
  unfold GenStage parsePartition
  simp only [bind_apply, get_apply, ite_apply, pure_apply, fail_apply, lift_apply]
  have e16 : FunsMgr.rdByte mbr 510 + 256 * FunsMgr.rdByte mbr 511 = readU16 mbr MBR_FOOTER_START := rfl
  rw [e16, show MBR_FOOTER_VALUE = 43605 from rfl]
  by_cases hfoot : readU16 mbr MBR_FOOTER_START = 43605
  case neg => simp only [hfoot, ne_eq, not_false_eq_true, if_true]
  simp only [hfoot, ne_eq, not_true_eq_false, if_false]
  have hsl : ∀ a b, a + 16 = b → List.drop a (List.take b mbr) = slice mbr a 16 := by
    intro a b hab
    unfold slice
    rw [List.drop_take]
    congr 1
    omega
  have hst : ∀ p : Bytes, FunsMgr.rdByte p 0 &&& 127 = byteAt p MBR_PARTITION_INFO_STATUS_INDEX % 128 := fun p => and_127 _
  simp only [hst, show MBR_PARTITION_INFO_LENGTH = 16 from rfl, hsl 446 462 rfl, hsl 462 478 rfl, hsl 478 494 rfl,
    hsl 494 510 rfl]
  simp only [show MBR_PARTITION1_START = 446 from rfl, show MBR_PARTITION2_START = 462 from rfl,
    show MBR_PARTITION3_START = 478 from rfl, show MBR_PARTITION4_START = 494 from rfl]
  have fin : ∀ start : Nat,
      (byteAt (slice mbr start 16) MBR_PARTITION_INFO_TYPE_INDEX,
        readU32 (slice mbr start 16) MBR_PARTITION_INFO_LBA_START_INDEX,
        readU32 (slice mbr start 16) MBR_PARTITION_INFO_NUM_BLOCKS_INDEX) =
      (FunsMgr.rdByte (slice mbr start 16) 4,
        FunsMgr.rdByte (slice mbr start 16) 8 + 256 * FunsMgr.rdByte (slice mbr start 16) 9 +
            65536 * FunsMgr.rdByte (slice mbr start 16) 10 + 16777216 * FunsMgr.rdByte (slice mbr start 16) 11,
        FunsMgr.rdByte (slice mbr start 16) 12 + 256 * FunsMgr.rdByte (slice mbr start 16) 13 +
            65536 * FunsMgr.rdByte (slice mbr start 16) 14 + 16777216 * FunsMgr.rdByte (slice mbr start 16) 15) :=
    fun _ => rfl
  by_cases h0 : volumeIdx = 0
  · simp only [h0, if_true, fin]
    by_cases hs : byteAt (slice mbr 446 16) MBR_PARTITION_INFO_STATUS_INDEX % 128 = 0
    · simp only [hs, not_true_eq_false, if_false]
    · simp only [hs, not_false_eq_true, if_true]
  by_cases h1 : volumeIdx = 1
  · simp only [h1, if_true, if_false, Nat.succ_ne_zero, fin]
    by_cases hs : byteAt (slice mbr 462 16) MBR_PARTITION_INFO_STATUS_INDEX % 128 = 0
    · simp only [hs, not_true_eq_false, if_false]
    · simp only [hs, not_false_eq_true, if_true]
  by_cases h2 : volumeIdx = 2
  · simp only [h2, if_true, if_false, Nat.succ_ne_zero, Nat.reduceEqDiff, fin]
    by_cases hs : byteAt (slice mbr 478 16) MBR_PARTITION_INFO_STATUS_INDEX % 128 = 0
    · simp only [hs, not_true_eq_false, if_false]
    · simp only [hs, not_false_eq_true, if_true]
  by_cases h3 : volumeIdx = 3
  · simp only [h3, if_true, if_false, Nat.succ_ne_zero, Nat.reduceEqDiff, fin]
    by_cases hs : byteAt (slice mbr 494 16) MBR_PARTITION_INFO_STATUS_INDEX % 128 = 0
    · simp only [hs, not_true_eq_false, if_false]
    · simp only [hs, not_false_eq_true, if_true]
  simp only [h0, h1, h2, h3, if_false]

/-- **`open_raw_volume` whole**, unlocked. -/
theorem open_raw_volume_eq (volumeIdx : Nat) (s : Mgr) (hl : s.locked = false) :
    FunsMgr.VolumeManager_open_raw_volume volumeIdx s = openRawVolume volumeIdx s := by
  rw [gen_form, model_form]
  simp only [rd_bind, stage_eq]
  simp only [bind_apply, get_apply, hl, ite_apply, Bool.false_eq_true, if_false]
  by_cases hfull : s.vols.length ≥ s.maxVols
  · simp only [hfull, if_true, fail_apply]
  simp only [hfull, if_false, pure_apply]
  rw [forFirst_any (fun v : VolInfo => v.idx = volumeIdx) (M.fail Err.VolumeAlreadyOpen : M Nat)]
  by_cases hany : (s.vols.any fun v => decide (v.idx = volumeIdx)) = true
  · simp only [hany, if_true, fail_apply]
  simp only [hany, Bool.false_eq_true, if_false, bind_apply]
  obtain ⟨hk1, hk2⟩ := rdM_vols 0 s
  rcases hrd : rdM 0 s with ⟨r, s1⟩
  rw [hrd] at hk1 hk2; simp only at hk1 hk2
  cases r <;> simp only []
  rename_i mbr
  have hroom : ¬ s1.vols.length ≥ s1.maxVols := by rw [hk1, hk2]; exact hfull
  simp only [lift_apply]
  cases parsePartition mbr volumeIdx <;> simp only []
  exact tail_eq volumeIdx _ s1 hroom

theorem open_raw_volume_locked (volumeIdx : Nat) (s : Mgr) (hl : s.locked = true) :
    FunsMgr.VolumeManager_open_raw_volume volumeIdx s = (.err .LockError, s) := by
  rw [gen_form]
  simp only [bind_apply, get_apply, hl, ite_apply, if_true, fail_apply]

end Sdmmc.Props.C15GenM
