/-
C13, tie to the source text (monadic level): the waits and their retry budgets (`Delay::new*`, `Delay::delay`,
`wait_not_busy`, the token wait of `read_data`), the SPI wrappers with their error mapping (`read_byte`, `write_byte`,
`transfer_bytes`, `write_bytes`: an SPI error becomes `Error::Transport`), `read_data` (token wait, the 0xFF pre-fill,
the CRC compare), `write_data` (token, block, CRC bytes, the data-response mask) and the failure handling of `acquire`
(the trailing byte, `result.and(..)`, `card_type = None` on any failure), `check_init`, `mark_card_uninit` — as
machine-translated from sdcard/mod.rs into `Sdmmc.Gen.FunsSd` (tools/translate_sd.py) — are EQUAL to the hand-written
model `Model/Sd.lean`, as functions `St σ → SRes α × St σ`, for EVERY bus `B`, every state and every argument.
-/
import Sdmmc.Lemmas.GenSd2
import Sdmmc.Lemmas.GenSd6

namespace Sdmmc.Props.C13GenM
open Sdmmc.Model Sdmmc.Model.Sd Sdmmc.Gen
open Sdmmc.Lemmas

variable {σ : Type} (B : BusOps σ)

/-! ### `Delay` -/

theorem delay_new_eq (n : Nat) : FunsSd.Delay_new n = n := rfl
theorem delay_new_read_eq : FunsSd.Delay_new_read = DEFAULT_READ_RETRIES := rfl
theorem delay_new_write_eq : FunsSd.Delay_new_write = DEFAULT_WRITE_RETRIES := rfl
theorem delay_new_command_eq : FunsSd.Delay_new_command = DEFAULT_COMMAND_RETRIES := rfl

/-- **`Delay::delay`** with no retry left: the error it was given, and no `delay_us`. -/
theorem delay_exhausted_eq (e : SdErr) : FunsSd.Delay_delay B 0 e = S.fail e := GenSd.delay_zero B e

/-- **`Delay::delay`** with `n + 1` retries left: one `delay_us(10)`, `n` retries left (the `-= 1` cannot underflow). -/
theorem delay_tick_eq (n : Nat) (e : SdErr) :
    FunsSd.Delay_delay B (n + 1) e = (delayTick B >>= fun _ => pure n) := GenSd.delay_succ B n e

/-! ### The SPI wrappers: an SPI error is `Transport` -/

theorem read_byte_eq : FunsSd.read_byte B = readByte B := GenSd.read_byte_eq B
theorem write_byte_eq (x : Nat) : FunsSd.write_byte B x = writeByte B (UInt8.ofNat x) := GenSd.write_byte_eq B x
/-- `write_bytes` of a command frame / of a data block or its CRC (the two differ in the ghost event only). -/
theorem write_bytes_cmd_eq (out : Bytes) :
    FunsSd.write_bytes B .cmd out = (xferEv B (.cmd out) >>= fun _ => pure ()) := GenSd.write_bytes_cmd_eq B out
theorem write_bytes_data_eq (out : Bytes) :
    FunsSd.write_bytes B .dataOut out = (xferEv B (.dataOut out) >>= fun _ => pure ()) := GenSd.write_bytes_data_eq B out
/-- `transfer_bytes` of a buffer of `n` bytes `0xFF` (what `buffer.fill(0xFF)` / `[0xFF; n]` leave): the bytes that
came back. -/
theorem transfer_bytes_eq (n : Nat) :
    FunsSd.transfer_bytes B (List.replicate n 0xFF) = xferEv B (.dataIn n) := GenSd.transfer_bytes_eq B n

/-! ### The waits -/

/-- **`wait_not_busy(delay)`** equals the model's `waitNotBusy` with the retries of `delay`. -/
theorem wait_not_busy_eq (n : Nat) : FunsSd.wait_not_busy B n = waitNotBusy B n := GenSd.wait_not_busy_eq B n

/-- The token wait of `read_data`. -/
theorem token_loop_eq (n : Nat) : FunsSd.read_data_loop1 B (n + 1) n = waitToken B n := GenSd.token_loop B n

/-! ### Data blocks -/

/-- **`read_data(buffer)`**: the function hands back the new contents of `buffer`. -/
theorem read_data_eq (buffer : Bytes) : FunsSd.read_data B buffer = readData B buffer.length := GenSd.read_data_eq B buffer

/-- **`write_data(token, buffer)`**. -/
theorem write_data_eq (token : Nat) (buffer : Bytes) : FunsSd.write_data B token buffer = writeData B token buffer :=
  GenSd.write_data_eq B token buffer

/-! ### `acquire`: what happens around the closure -/

/-- **`acquire`**: the closure, ONE more `read_byte`, `result.and(trailing.map(|_| ()))`, and `card_type = None`
whenever that is an error. -/
theorem acquire_eq : FunsSd.acquire B = acquire B := GenSd.acquire_eq B

theorem check_init_eq : FunsSd.check_init B = checkInit B := GenSd.check_init_eq B

/-- `SdCard::mark_card_uninit` is the model's `Call.markUninit`. -/
theorem mark_card_uninit_eq :
    FunsSd.mark_card_uninit B = fun s => (.ok (), { s with cardType := none }) := GenSd.mark_card_uninit_eq B

namespace Example
/-- A bus that answers every transaction with `0xFF` bytes (a card that is never busy and never answers). -/
def idleBus : BusOps Nat := { xfer := fun n bs => (n + 1, some (bs.map fun _ => 0xFF)), delay := fun n => n }
/-- A bus whose SPI transactions fail. -/
def deadBus : BusOps Nat := { xfer := fun n _ => (n + 1, none), delay := fun n => n }

/-- Evaluated: `wait_not_busy` on the idle bus returns after one poll; on the dead bus it is `Transport`; the token
wait with a budget of 2 on the idle bus times out after three polls and two delays. -/
example : GenSd.isOk ((FunsSd.wait_not_busy idleBus 5) { bus := 0 }).1 = true ∧
    GenSd.errOf ((FunsSd.wait_not_busy deadBus 5) { bus := 0 }).1 = some SdErr.Transport ∧
    GenSd.errOf ((FunsSd.read_data_loop1 idleBus 3 2) { bus := 0 }).1 = some SdErr.TimeoutReadBuffer ∧
    ((FunsSd.read_data_loop1 idleBus 3 2) { bus := 0 }).2.delays = 2 := by decide +kernel
end Example

end Sdmmc.Props.C13GenM
