/-
C05, second sentence, without glue — "… and a fill / delete / refill cycle can be repeated
indefinitely", on top of the volume invariant of C03 (`Sdmmc.Spec.Volume.VolInv`).

`Props.C05Capacity.fill_delete_refill` needed three pieces of glue (what a create leaves; that the
lookup after the close finds the flushed entry; that the delete answers `Ok`).  Here all three are
THEOREMS about states satisfying `VolInv`, and the cycle theorem has no glue hypothesis left.

Property theorems only; the proofs are in `Sdmmc.Lemmas.Cycle*`:
`CycleNew` (`write_new_directory_entry`, saying which of its outcomes happened, with the accounting),
`CycleCreate` (`create_counts`), `CycleWrite` / `CycleFill` (`write` with the ghost explicit),
`CycleClose` (`close_x`), `CycleDelete` (`delete_succeeds`), `CycleTrunc` (`truncate_reclaims`),
`CycleRound` (`round`, `rounds`); accounting vocabulary `Lemmas.Acct.Acct` (clusters taken,
= `Props.C16Api.Took`) and `Lemmas.AcctAll.Gave` (clusters given back).
Vocabulary: `Sdmmc.Spec.Volume` (`VolInv`, `Ghost`, `dirSlots`, `entries`, `objects`, `sName`, …),
`Lemmas.VolWalk.isFreeSlot` (first byte 0x00 or 0xE5), `Lemmas.VolMed.dirHead` / `isFixedRoot`,
`Lemmas.Cycle.Created`, `Quiet`, `roundState`, `roundsState`, `RoundAnswers` (all spelled out below in
the doc comments of the theorems that use them).

STATUS: all PROVED, none `_partial`.  What remains as hypotheses, exactly:
* the hypotheses of `VolInv` itself (fault-free device, one open volume, `maxVols = 1`);
* `sfn.head? ≠ some 0xE5` — deviation (a) of the crate, as in `Props.C03Inv` (`NameOK`);
* for the cycle: the start state is QUIESCENT (no open file; `0 < maxFiles`), the directory handle is
  open, the directory holds no entry `NAME` and HAS A FREE SLOT (so that creating does not make the
  directory grow — `create_counts` says what happens otherwise: the directory takes one cluster and
  keeps it, i.e. the capacity of later rounds is `F - 1`), `1 ≤ F` and `F * cb ≤ MAX_FILE_SIZE`.
* `truncate_reclaims`: a truncation KEEPS the first cluster of the file; it gives back
  `(chain length) - 1` clusters.
-/
import Sdmmc.Lemmas.CycleRound
import Sdmmc.Lemmas.CycleTrunc
import Sdmmc.Lemmas.VolExample
import Sdmmc.Props.C01Read

namespace Sdmmc.Props.C05Cycle
open Sdmmc.Model Sdmmc.Model.Fat Sdmmc.Spec.Volume
open Sdmmc.Spec hiding run step NoFault Coherent
open Sdmmc.Lemmas.VolWalk (isFreeSlot)
open Sdmmc.Lemmas.VolMed (dirHead isFixedRoot)
open Sdmmc.Lemmas.Acct (Acct)
open Sdmmc.Lemmas.AcctAll (Gave)
open Sdmmc.Lemmas.Cycle (Created Quiet roundState roundsState RoundAnswers)
open Sdmmc.Lemmas.Capacity (writeMany)

/-! ### 1. Create, with the accounting -/

/-- **`create_counts`.**  `s` satisfies the volume invariant; the directory handle resolves (record `d`),
its volume is open, the file table has room; the name has the short form `sfn` (not starting with 0xE5) and
the directory holds no entry of that name.  Then `open_file_in_dir(.., ReadWriteCreate)`
* answers `NotEnoughSpace` — the directory has no free slot (and cannot grow: FAT16 root, or no free
  cluster) — with the medium, the chains and the tables as before; or
* answers the handle `s.nextId`; the new record is the last of the file table; the invariant holds for the
  chain list `G1` and the same sub-directories; the new entry is the object `o` of the directory, a plain
  file named `sfn` without cluster (`Created`); and
  - either the directory had a free slot: the entry went into its FIRST free slot, `G1 = gh.G`, every
    other directory has the slot list it had, nothing was taken (`Acct … 0`: same number of free clusters,
    same in-memory count, same hint);
  - or it had none, is chained, and grew by one cluster `c` that belonged to no chain: its chain is the
    old one followed by `c`, every other chain is as before, exactly one cluster was taken (`Acct … 1`). -/
theorem create_counts {s : Mgr} {gh : Ghost} (hI : VolInv s gh) (directory di : Nat) (name : List Nat) (d : DirInfo) (sfn : Bytes)
    (hroom : s.files.length < s.maxFiles)
    (hdi : s.dirs.findIdx? (·.rawDirectory = directory) = some di) (hd : s.dirs[di]? = some d)
    (hvo : ∃ volIdx, s.vols.findIdx? (·.rawVolume = d.rawVolume) = some volIdx)
    (hsfn : Sfn.createFromStr name = .ok sfn) (hne5 : sfn.head? ≠ some 0xE5)
    (hfresh : sfn ∉ (entries (dirSlots gh.vol s.dev.disk gh.G (dirIdOf d.cluster))).map sName) :
    ∃ r s', openFileInDir directory name .ReadWriteCreate s = (r, s') ∧
      ((r = .err .NotEnoughSpace ∧ VolInv s' gh ∧ s'.dev.disk = s.dev.disk ∧ s'.files = s.files ∧ s'.dirs = s.dirs ∧
          (dirSlots gh.vol s.dev.disk gh.G (dirIdOf d.cluster)).find? isFreeSlot = none) ∨
       (∃ e G1 vi' pre post o, r = .ok s.nextId ∧ Created s s' gh d sfn e G1 vi' pre post o ∧
          (((∃ old, (dirSlots gh.vol s.dev.disk gh.G (dirIdOf d.cluster)).find? isFreeSlot = some old ∧
                 old.1 = o.1 ∧ old.2.1 = o.2.1 ∧ dirSlots gh.vol s.dev.disk gh.G (dirIdOf d.cluster) = pre ++ old :: post) ∧
               G1 = gh.G ∧
               (∀ x, x ∈ dirIds gh.dirs → x ≠ dirIdOf d.cluster →
                 dirSlots vi'.vol s'.dev.disk G1 x = dirSlots gh.vol s.dev.disk gh.G x) ∧
               Acct gh.vol vi'.vol s.dev.disk s'.dev.disk 0) ∨
            ((dirSlots gh.vol s.dev.disk gh.G (dirIdOf d.cluster)).find? isFreeSlot = none ∧
               ¬ isFixedRoot gh.vol (dirIdOf d.cluster) ∧
               ∃ c, chainOf G1 (dirHead gh.vol (dirIdOf d.cluster)) = chainOf gh.G (dirHead gh.vol (dirIdOf d.cluster)) ++ [c] ∧
                 (∀ x, x ≠ dirHead gh.vol (dirIdOf d.cluster) → chainOf G1 x = chainOf gh.G x) ∧
                 (∀ cs, cs ∈ gh.G → c ∉ cs) ∧
                 Acct gh.vol vi'.vol s.dev.disk s'.dev.disk 1)))) :=
  Lemmas.Cycle.create_counts hI directory di name d sfn hroom hdi hd hvo hsfn hne5 hfresh

/-! ### 2. Writes and the close, with the ghost -/

/-- **Any sequence of writes to one writable file keeps the invariant, with the ghost explicit**: the chain
list is the old one with the chain `cs` of the file replaced by its extension `cs'` (`withChain A cs' B`);
same sub-directories; every directory has the slot list it had; the record stays at its slot. -/
theorem writes_keep_invariant (h i : Nat) (A B : List (List Nat)) (bs : List Bytes) (s : Mgr) (gh : Ghost) (f : FileInfo)
    (cs : List Nat) (hI : VolInv s gh) (hidx : s.files.findIdx? (·.rawFile = h) = some i) (hf : s.files[i]? = some f)
    (hmode : f.mode ≠ .ReadOnly) (hcs : chainOf gh.G f.entry.cluster = cs) (hG : gh.G = withChain A cs B) :
    ∃ f' v' cs', (writeMany h bs s).2.files[i]? = some f' ∧ (writeMany h bs s).2.vols = [v'] ∧
      VolInv (writeMany h bs s).2 { vol := v'.vol, G := withChain A cs' B, dirs := gh.dirs } ∧
      SameGeom gh.vol v'.vol ∧ chainOf (withChain A cs' B) f'.entry.cluster = cs' ∧
      (∀ x, x ∈ dirIds gh.dirs →
        dirSlots v'.vol (writeMany h bs s).2.dev.disk (withChain A cs' B) x = dirSlots gh.vol s.dev.disk gh.G x) ∧
      Lemmas.VolTree.fkey f' = Lemmas.VolTree.fkey f ∧ (writeMany h bs s).2.files = s.files.set i f' :=
  Lemmas.Cycle.fill_inv h i A B bs s gh f cs hI hidx hf hmode hcs hG

/-- **After `close_file` the name resolves to the flushed entry.**  `file` is an open handle (slot `i`,
record `f`) whose directory slot is a slot of directory `h0`.  After `close_file` the invariant holds for a
ghost with the same chains and sub-directories, and directory `h0` has a CLOSED plain-file object `o` at the
position the record named, carrying the record's name, first cluster and size — by the uniqueness of names
(`VolInv`) it is what a lookup of that name in `h0` finds (`Props.C03Inv.engine_lookup`). -/
theorem close_resolves {s : Mgr} {gh : Ghost} (hI : VolInv s gh) {file i : Nat} {f : FileInfo}
    (hidx : s.files.findIdx? (·.rawFile = file) = some i) (hf : s.files[i]? = some f)
    {h0 : Nat} (hh0 : h0 ∈ dirIds gh.dirs)
    (hhome : Lemmas.VolTree.fkey f ∈ (dirSlots gh.vol s.dev.disk gh.G h0).map Lemmas.VolTree.spos) :
    ∃ gh', VolInv (closeFile file s).2 gh' ∧ SameGeom gh.vol gh'.vol ∧ gh'.dirs = gh.dirs ∧ gh'.G = gh.G ∧
      (closeFile file s).2.files = swapRemove s.files i ∧
      ∃ o, o ∈ objects h0 (dirSlots gh'.vol (closeFile file s).2.dev.disk gh'.G h0) ∧
        Lemmas.VolTree.spos o = Lemmas.VolTree.fkey f ∧ isDirE o = false ∧
        sName o = f.entry.name ∧ sCluster gh'.vol.fatType o = f.entry.cluster ∧ sSize o = f.entry.size ∧
        pendOf (closeFile file s).2.files o = none :=
  Lemmas.Cycle.close_x hI hidx hf hh0 hhome

/-! ### 3. Delete succeeds -/

/-- **`delete_succeeds`.**  `s` satisfies the volume invariant; the directory handle resolves, its volume is
open, the name has the short form `sfn` (not starting with 0xE5); `o` is a plain-file object of the directory
with that name that no open file sits at.  Then `delete_file_in_dir` answers `Ok`; the tables are the same
except the volume record (bookkeeping fields); the invariant holds for the chain list `G'` — the old one
(`k = 0`: the entry had no cluster) or the old one without the chain of the entry (`k` = its length) —;
`k` clusters were given back (`Gave`: free clusters `+ k`, in-memory count `+ k` saturating); the
directory's slot list is the old one with the slot of `o` marked `0xE5`, every other directory's is the same. -/
theorem delete_succeeds {s : Mgr} {gh : Ghost} (hI : VolInv s gh) (directory di : Nat) (name : List Nat) (d : DirInfo)
    (sfn : Bytes) (hdi : s.dirs.findIdx? (·.rawDirectory = directory) = some di) (hd : s.dirs[di]? = some d)
    (hvo : ∃ volIdx, s.vols.findIdx? (·.rawVolume = d.rawVolume) = some volIdx)
    (hsfn : Sfn.createFromStr name = .ok sfn) (hne5 : sfn.head? ≠ some 0xE5) {o : Slot}
    (ho : o ∈ objects (dirIdOf d.cluster) (dirSlots gh.vol s.dev.disk gh.G (dirIdOf d.cluster)))
    (hod : isDirE o = false) (hsn : sName o = sfn) (hfree : pendOf s.files o = none) :
    ∃ s' vi' G' k pre post, deleteFileInDir directory name s = (.ok (), s') ∧
      s'.files = s.files ∧ s'.dirs = s.dirs ∧ s'.nextId = s.nextId ∧ s'.maxFiles = s.maxFiles ∧ s'.vols = [vi'] ∧
      vi'.rawVolume = d.rawVolume ∧ SameGeom gh.vol vi'.vol ∧
      VolInv s' { vol := vi'.vol, G := G', dirs := gh.dirs } ∧
      Gave gh.vol vi'.vol s.dev.disk s'.dev.disk k ∧
      ((sCluster gh.vol.fatType o = 0 ∧ G' = gh.G ∧ k = 0) ∨
       (∃ A B tail, gh.G = A ++ (sCluster gh.vol.fatType o :: tail) :: B ∧ G' = A ++ B ∧ k = tail.length + 1)) ∧
      dirSlots gh.vol s.dev.disk gh.G (dirIdOf d.cluster) = pre ++ o :: post ∧ (∀ t, t ∈ pre → first t ≠ 0) ∧
      dirSlots vi'.vol s'.dev.disk G' (dirIdOf d.cluster) = pre ++ (o.1, o.2.1, o.2.2.set 0 (UInt8.ofNat 0xE5)) :: post ∧
      (∀ x, x ∈ dirIds gh.dirs → x ≠ dirIdOf d.cluster → dirSlots vi'.vol s'.dev.disk G' x = dirSlots gh.vol s.dev.disk gh.G x) :=
  Lemmas.Cycle.delete_succeeds hI directory di name d sfn hdi hd hvo hsfn hne5 ho hod hsn hfree

/-! ### 4. Truncation through the API -/

/-- **`truncate_reclaims`.**  As above, `o` not read-only, the file table has room.  Then
`open_file_in_dir(.., ReadWriteTruncate)` answers the handle `s.nextId`, the invariant holds again, and the
clusters of the file's chain BEHIND ITS FIRST ONE — `(chain length) - 1` of them, none if the file had no
cluster — were given back. -/
theorem truncate_reclaims {s : Mgr} {gh : Ghost} (hI : VolInv s gh) (directory di : Nat) (name : List Nat) (d : DirInfo)
    (sfn : Bytes) (hroom : s.files.length < s.maxFiles)
    (hdi : s.dirs.findIdx? (·.rawDirectory = directory) = some di) (hd : s.dirs[di]? = some d)
    (hvo : ∃ volIdx, s.vols.findIdx? (·.rawVolume = d.rawVolume) = some volIdx)
    (hsfn : Sfn.createFromStr name = .ok sfn) (hne5 : sfn.head? ≠ some 0xE5) {o : Slot}
    (ho : o ∈ objects (dirIdOf d.cluster) (dirSlots gh.vol s.dev.disk gh.G (dirIdOf d.cluster)))
    (hod : isDirE o = false) (hsn : sName o = sfn) (hfree : pendOf s.files o = none)
    (hro : Attr.isReadOnly (sAttr o) = false) :
    ∃ s' gh', openFileInDir directory name .ReadWriteTruncate s = (.ok s.nextId, s') ∧
      VolInv s' gh' ∧ SameGeom gh.vol gh'.vol ∧
      Gave gh.vol gh'.vol s.dev.disk s'.dev.disk ((chainOf gh.G (sCluster gh.vol.fatType o)).length - 1) :=
  Lemmas.Cycle.truncate_reclaims hI directory di name d sfn hroom hdi hd hvo hsfn hne5 ho hod hsn hfree hro

/-! ### 5. The cycle

`Quiet s gh directory di d sfn F` — a quiescent point: `VolInv s gh`; no file is open and `0 < maxFiles`; the
directory handle `directory` resolves (slot `di`, record `d`) and its volume is open; the directory holds no
entry named `sfn` and has a free slot (first byte 0x00 or 0xE5); `freeCount gh.vol s.dev.disk = F`.

`roundState directory name bs s` — the state after: create `name` (handle `s.nextId`), `write` each buffer of
`bs`, `close_file`, `delete_file_in_dir`.  `roundsState … bss n s` — after `n` such rounds, round `j` writing
`bss j`.  `RoundAnswers directory name bs cap s` — the answers of one round from `s`: the create answers the
handle `s.nextId`; every write answers `Ok`; every further non-empty write (within `MAX_FILE_SIZE`) answers
`DiskFull`; the close and the delete answer `Ok`. -/

/-- **One round, no glue.**  From a quiescent point with `F ≥ 1` free clusters, `F * cb ≤ MAX_FILE_SIZE`, and
buffers of `F * cb` bytes in all: the create answers the handle `s.nextId`; every write answers `Ok`, after
which no cluster is free and every further non-empty write answers `DiskFull`; the close and the delete answer
`Ok`; and the state afterwards is a quiescent point again — same chains, same sub-directories, `F` free
clusters. -/
theorem fill_delete_refill_round {s : Mgr} {gh : Ghost} {directory di : Nat} {d : DirInfo} {sfn : Bytes} {F : Nat}
    (hq : Quiet s gh directory di d sfn F) (name : List Nat) (hsfn : Sfn.createFromStr name = .ok sfn)
    (hne5 : sfn.head? ≠ some 0xE5) (hF : 1 ≤ F) (hcap : F * clusterBytesLen gh.vol ≤ Gen.MAX_FILE_SIZE)
    (bs : List Bytes) (htotal : bs.flatten.length = F * clusterBytesLen gh.vol) :
    ∃ s0 s1 s2 s3 gh3, openFileInDir directory name .ReadWriteCreate s = (.ok s.nextId, s0) ∧
      writeMany s.nextId bs s0 = (bs.map fun _ => .ok (), s1) ∧
      (∃ v1, s1.vols = [v1] ∧ freeCount v1.vol s1.dev.disk = 0) ∧
      (∀ data : Bytes, data ≠ [] → F * clusterBytesLen gh.vol + data.length ≤ Gen.MAX_FILE_SIZE →
        (Model.write s.nextId data s1).1 = .err .DiskFull) ∧
      closeFile s.nextId s1 = (.ok (), s2) ∧
      deleteFileInDir directory name s2 = (.ok (), s3) ∧
      Quiet s3 gh3 directory di d sfn F ∧ gh3.G = gh.G ∧ gh3.dirs = gh.dirs ∧ SameGeom gh.vol gh3.vol ∧
      s3.nextId = (s.nextId + 1) % 4294967296 ∧ s3.dirs = s.dirs ∧ s3.maxFiles = s.maxFiles :=
  Lemmas.Cycle.round hq name hsfn hne5 hF hcap bs htotal

/-- **`fill_delete_refill_inv` — any number of rounds, no glue hypothesis.**  From a quiescent point with
`F ≥ 1` free clusters (`F * cb ≤ MAX_FILE_SIZE`): after ANY number `n` of rounds — each creating `NAME`,
writing buffers of `F * cb` bytes in all (any number of calls of any sizes), closing, deleting `NAME` — the
state is a quiescent point with the same chains, the same sub-directories and `F` free clusters; and round
`n + 1` gets the answers of `RoundAnswers`: create `Ok`, every write `Ok` — it again accepts exactly
`F * cb` bytes —, every further write `DiskFull`, close `Ok`, delete `Ok`. -/
theorem fill_delete_refill_inv {s : Mgr} {gh : Ghost} {directory di : Nat} {d : DirInfo} {sfn : Bytes} {F : Nat}
    (hq : Quiet s gh directory di d sfn F) (name : List Nat) (hsfn : Sfn.createFromStr name = .ok sfn)
    (hne5 : sfn.head? ≠ some 0xE5) (hF : 1 ≤ F) (hcap : F * clusterBytesLen gh.vol ≤ Gen.MAX_FILE_SIZE)
    (bss : Nat → List Bytes) (htotal : ∀ j, (bss j).flatten.length = F * clusterBytesLen gh.vol) (n : Nat) :
    (∃ ghn, Quiet (roundsState directory name bss n s) ghn directory di d sfn F ∧ ghn.G = gh.G ∧ ghn.dirs = gh.dirs ∧
      SameGeom gh.vol ghn.vol) ∧
    RoundAnswers directory name (bss n) (F * clusterBytesLen gh.vol) (roundsState directory name bss n s) :=
  Lemmas.Cycle.rounds hq name hsfn hne5 hF hcap bss htotal n

/-! ### Non-vacuity: the FAT16 volume of `Lemmas.VolExample`

`mgr1`: 20 clusters of one block; chains `[2, 3]` (A.TXT), `[4]` (SUB), `[5]` (SUB/B.BIN); cluster 7 bad; 15
clusters free; the root directory open as handle 2, SUB as handle 3; no file open. -/

namespace Example
open Sdmmc.Lemmas.VolExample

/-- "N.TXT" and its 8.3 form. -/
def nameN : List Nat := [0x4E, 0x2E, 0x54, 0x58, 0x54]
def sfnN : Bytes := [0x4E, 0x20, 0x20, 0x20, 0x20, 0x20, 0x20, 0x20, 0x54, 0x58, 0x54]
def rootInfo : DirInfo := { rawDirectory := 2, rawVolume := 1, cluster := Gen.CLUSTER_ROOT_DIR }
def subInfo : DirInfo := { rawDirectory := 3, rawVolume := 1, cluster := 4 }

theorem sfn_ok : Sfn.createFromStr nameN = .ok sfnN := by decide +kernel

/-- `mgr1` is a quiescent point for the root directory (handle 2), the name "N.TXT", 15 free clusters … -/
theorem quiet_root : Quiet mgr1 gh1 2 0 rootInfo sfnN 15 where
  inv := mgr1_inv
  noFiles := rfl
  room := by decide
  hdi := by decide
  hd := rfl
  hvo := ⟨0, by decide⟩
  fresh := by decide +kernel
  slot := by
    have h : ((dirSlots gh1.vol mgr1.dev.disk gh1.G (dirIdOf rootInfo.cluster)).find? isFreeSlot).isSome = true := by
      decide +kernel
    obtain ⟨t, ht⟩ := Option.isSome_iff_exists.1 h
    exact ⟨t, List.mem_of_find?_eq_some ht, List.find?_some ht⟩
  free := by decide +kernel

/-- … and for the sub-directory SUB (handle 3), a chained directory. -/
theorem quiet_sub : Quiet mgr1 gh1 3 1 subInfo sfnN 15 where
  inv := mgr1_inv
  noFiles := rfl
  room := by decide
  hdi := by decide
  hd := rfl
  hvo := ⟨0, by decide⟩
  fresh := by decide +kernel
  slot := by
    have h : ((dirSlots gh1.vol mgr1.dev.disk gh1.G (dirIdOf subInfo.cluster)).find? isFreeSlot).isSome = true := by
      decide +kernel
    obtain ⟨t, ht⟩ := Option.isSome_iff_exists.1 h
    exact ⟨t, List.mem_of_find?_eq_some ht, List.find?_some ht⟩
  free := by decide +kernel

/-- `15 * 512` bytes in two calls. -/
def bufs : List Bytes := [List.replicate 5000 0x55, List.replicate 2680 0x66]

/-- **The cycle theorem, instantiated**: for EVERY `n`, after `n` rounds in the root directory the volume has
its chains `[[2, 3], [4], [5]]` and 15 free clusters, and the next round is answered `Ok … Ok`. -/
theorem cycle_root (n : Nat) :
    (∃ ghn, Quiet (roundsState 2 nameN (fun _ => bufs) n mgr1) ghn 2 0 rootInfo sfnN 15 ∧ ghn.G = [[2, 3], [4], [5]]) ∧
    RoundAnswers 2 nameN bufs (15 * 512) (roundsState 2 nameN (fun _ => bufs) n mgr1) := by
  obtain ⟨⟨ghn, h1, h2, _⟩, h3⟩ := fill_delete_refill_inv quiet_root nameN sfn_ok (by decide) (by decide) (by decide)
    (fun _ => bufs) (fun _ => by decide +kernel) n
  exact ⟨⟨ghn, h1, h2⟩, h3⟩

/-- The same in the chained sub-directory. -/
theorem cycle_sub (n : Nat) :
    (∃ ghn, Quiet (roundsState 3 nameN (fun _ => bufs) n mgr1) ghn 3 1 subInfo sfnN 15 ∧ ghn.G = [[2, 3], [4], [5]]) ∧
    RoundAnswers 3 nameN bufs (15 * 512) (roundsState 3 nameN (fun _ => bufs) n mgr1) := by
  obtain ⟨⟨ghn, h1, h2, _⟩, h3⟩ := fill_delete_refill_inv quiet_sub nameN sfn_ok (by decide) (by decide) (by decide)
    (fun _ => bufs) (fun _ => by decide +kernel) n
  exact ⟨⟨ghn, h1, h2⟩, h3⟩

/-- The engine, run, for two rounds: handles 10 and 11; all writes `Ok`; one byte more: `DiskFull`; 0 free
clusters when full, 15 after each round; the FAT after two rounds is byte for byte the FAT of the start. -/
theorem run_two_rounds : ∀ s1, roundState 2 nameN bufs mgr1 = s1 → ∀ s2, roundState 2 nameN bufs s1 = s2 →
    (openFileInDir 2 nameN .ReadWriteCreate mgr1).1 = .ok 10 ∧
    (writeMany 10 bufs (openFileInDir 2 nameN .ReadWriteCreate mgr1).2).1 = [.ok (), .ok ()] ∧
    (Model.write 10 [1] (writeMany 10 bufs (openFileInDir 2 nameN .ReadWriteCreate mgr1).2).2).1 = .err .DiskFull ∧
    freeCount vol16 (writeMany 10 bufs (openFileInDir 2 nameN .ReadWriteCreate mgr1).2).2.dev.disk = 0 ∧
    freeCount vol16 s1.dev.disk = 15 ∧
    (openFileInDir 2 nameN .ReadWriteCreate s1).1 = .ok 11 ∧
    (writeMany 11 bufs (openFileInDir 2 nameN .ReadWriteCreate s1).2).1 = [.ok (), .ok ()] ∧
    freeCount vol16 s2.dev.disk = 15 ∧ s2.dev.disk.get 1 = mgr1.dev.disk.get 1 ∧ s2.dev.disk.get 2 = mgr1.dev.disk.get 2 := by
  intro s1 h1 s2 h2; subst h1; subst h2; decide +kernel

end Example

end Sdmmc.Props.C05Cycle
