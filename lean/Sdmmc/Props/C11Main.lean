/-
C11 — HEADLINE THEOREM (PARTIAL).

PROPERTY (verbatim from `properties.jsonl`).
statement:
  "If any block-device read or write fails during an API call, that call returns an error - it never returns
  success, a fabricated answer such as an empty or truncated listing, and never panics or hangs. Afterwards every
  handle can still be used and closed, a read-only call that failed on a transient fault gives the correct answer
  when retried, a failed call never makes a directory hold two entries with the same name, and files not involved in
  the failed call are intact on the medium."
quantifier:
  "for every history, a failure injected at every single device-call index (read or write, with the read buffer
  scribbled on failure), plus random multi-fault sequences, on FAT16 and FAT32 with multi-cluster directories so
  that FAT reads happen during directory walks"

HOW TO READ `C11_main_partial`.
* The device (`Model/Dev.lean`) carries ONE fault schedule for its whole life: `dev.faults` lists the indices — in
  `dev.calls` numbering, which no call resets — of the device calls (reads and writes alike) that fail; every schedule
  (single fault at any index, multi-fault sequences) is a value of `faults`.  A failed read leaves a scribbled buffer that
  is never served (the tag is cleared: `Props.C11.cacheRead_fail_tag`).  `dev.failed` counts the failed calls and is
  never read by the model: "a device call failed during the call" is `(step s op).1.dev.failed ≠ s.dev.failed`
  (`Props.C11.failed_monotone`).  A history under faults is `run s ops` from a state whose `dev.faults` is the schedule.
* `step s op` — one API call: `.1` the state it leaves, `.2.result : Res Payload` its answer — `ok`, `err e`, `panic`,
  `diverged` (hang) are four distinct constructors —, `.2.writes` its device writes (`Model/Mgr.lean`).
* `clearFaults s` — `s` with nothing scheduled; `VolInvF s gh` := `VolInv (clearFaults s) gh`: the invariant of API
  histories (C03, `Spec/Volume.lean`) up to the pending schedule (`Spec/VolumeFault.lean`); `Clean r`: `ok` or `err`.
* `DirsSound v d gh` (`Props.C11Inv.dirsSound_def`): on the medium `d` every directory of the tree `gh.dirs` has its
  cluster chain, no entry after the end marker, PAIRWISE DISTINCT NAMES of its live short entries, and (sub-directory)
  its dot entries.  `C11Inv.FaultInv s gh` (`Props.C11Inv.faultInv_def`): lock open, at most one volume with the ghost's
  geometry, `DirsSound` on the medium, every directory handle designates a directory of the tree, the cache coherent.
* `retryOp op`: the read-only calls except `get_root_volume_label`; `prefixOp op`: all calls except `mkdir`, `read`,
  `write`, `open_volume`, `label`; `classA op`: all calls except `open_file_in_dir`, `write`, `close_file`,
  `delete_file_in_dir`, `make_dir_in_dir` (`Props.C11Inv`, `Props.C11Hist`); `Lemmas.Fault.readOnlyOp`
  (`Props.C11.readOnlyOp_def`); `Lemmas.Fault.handles s` = the three handle lists (`Props.C11.handles_def`).
* `LicenceFor`, `AllLicensed`, `NotNamed` (C04: `Props/C04Main.lean`, `Props.C04Hist.notNamed_def`): the licence of the
  FAULT-FREE call; an object (slot `(sb, so)`, chain `cs`) the licence does not name is "not involved in the call".
* `CoveredRun s ops`, `FailsOnlyIn classA s ops`, `Exhausted d` (`Props.C11Hist`): every call covered in the state it is
  issued in; device failures fall in class-A calls only (fault-free calls of every kind interleave freely); every
  scheduled index lies in the past.

CLAUSES.
 I. EVERY history, from EVERY state, under EVERY schedule (no hypothesis at all):
  (reported)  a call during which a device read or write failed answers `err e`: not `ok` (so no fabricated, empty or
              truncated answer), not `panic`, not `diverged`;
  (tables)    a call that did not answer `Ok` (other than `close_file`) leaves exactly the handles it found in the three
              tables; (cache) a coherent cache is coherent after every prefix — a scribbled buffer is never served.
 II. ONE call `op` — any of the 24, whatever device call of it fails — from any state satisfying the invariant up to its
     pending schedule (`VolInvF s gh`; e.g. the state before the FIRST failing call of any history):
  (names)     the directories are sound on the medium the call leaves: no directory holds two entries of a name;
  (survives)  `C11Inv.FaultInv` holds of the state the call leaves;
  (closing)   from that state `close_dir` and `close_volume` answer `ok`/`err`, never panic or hang; so does `close_file`
              PROVIDED no open file's record says "size ≠ 0, cluster = 0" (`FileSane`);
  (retry)     a read-only call (`retryOp`) of which a device call failed, issued again with the fault gone from the state
              it left, answers exactly what it answers without any fault from the state it was first issued in;
  (others)    files not involved are intact on the medium: for a `prefixOp` call (FAT copies identical) the writes are
              licensed by the licence of the fault-free call and every object it does not name has the same slot bytes,
              chain and chain bytes; for `write` every chain other than the written file's and the FAT16 root are as
              they were; a read-only call leaves the medium alone.
 III. Histories whose device failures fall in class-A calls (from `VolInvF`, identical FAT copies), after EVERY prefix:
  (clean)     every call so far answered `ok` or `err`; (inv) `VolInvF`, identical FAT copies — in particular (names);
  (handles)   once the schedule is exhausted, closing every file, directory and the volume answers `Ok` each time, the
              tables are empty, no device call failed, the invariant holds, the medium still mounts;
  (mounts)    a medium that mounted at the start still mounts; (retry) as in II, along the history;
  (others)    one licence per call (`LicenceFor` in the state it is issued in): an object none of the first `k` licences
              names is intact after the first `k` calls.
 (source) the five `BlockCache` methods, machine-translated from blockdevice.rs, are the model's cache primitives —
     including the paths on which the device call fails (`Props.C11GenM`).

STATUS: PARTIAL.  Clause by clause, against the sentence:
* "that call returns an error … never panics or hangs": PROVED IN FULL (I: reported).  "never panics" for calls that hit
  no fault: III (clean), class A only.
* "afterwards every handle can still be used and closed": PROVED that the handles stay in the tables (I), that closing never
  panics (II, `close_file` modulo `FileSane`: true under `VolInvF` — `Props.C11Inv.fileSane_under_invariant` —, NOT proved
  of the state a failed class-B call leaves; excluded point `Props.C11Inv.Example.insane_record_panics`) and that everything
  closes with `Ok` in class-A histories (III).  MISSING: `Ok` after a failure inside `open_file_in_dir`, `write`,
  `close_file`, `delete_file_in_dir`, `make_dir_in_dir` (class B).
* "a read-only call that failed on a transient fault gives the correct answer when retried": PROVED (II, III) except
  `get_root_volume_label`: it draws a handle id BEFORE it reads, and `VolInv` does not say ids are fresh; evaluated
  counterexample `Props.C11Inv.Example.label_retry_needs_fresh_ids` (needs a stale duplicate id, i.e. a wrap of the handle
  generator: `Props.C08`); with fresh ids not proved.
* "a failed call never makes a directory hold two entries with the same name": PROVED for the failed call itself, from
  the invariant (II: names, all 24 calls incl. `make_dir_in_dir`'s clean-up); over histories only class A (III).  MISSING:
  histories that CONTINUE after a class-B failure — `VolInvF` is then false (`Props.C11Hist.Example.
  classB_failure_breaks_volInvF`: lost chains, a size above its chain); the weak invariant `Spec.Volume.FaultInv`
  (`Spec/VolumeFault.lean`) that should carry (names) through is stated, holds in every evaluated residue, but its
  preservation by every call is NOT proved (target `history_under_faults`, header of `Props/C11Hist.lean`).
* "files not involved in the failed call are intact on the medium": PROVED for every call except `make_dir_in_dir`, whose
  clean-up after a failure is not a prefix of the fault-free run (II: others); histories: class A.
* Several open volumes: not done for faults (one open volume, `maxVols = 1`, as `Spec/Volume.lean`).
HYPOTHESES of II / III: `VolInvF` (holds of every fault-free reachable state given ANY schedule:
`Props.C11Hist.volInvF_withFaults`, first example below; kept by class-A histories: III); an `open_volume` is covered only
while a volume is open (it is then refused; a mount under a fault schedule is not covered); names are unrestricted
(`Props.C03All.name_ok_all`); `Mirror` as in C04.
-/
import Sdmmc.Lemmas.MainC11
import Sdmmc.Props.C11GenM
import Sdmmc.Props.C03All

namespace Sdmmc.Props.C11Main
open Sdmmc.Model Sdmmc.Model.Fat Sdmmc.Spec.Volume
open Sdmmc.Spec hiding run step NoFault Coherent
open Sdmmc.Props.C11Inv (Covered NamesOK retryOp prefixOp DirsSound FileSane ownChain)
open Sdmmc.Props.C11Hist (CoveredRun FailsOnlyIn classA Exhausted)
open Sdmmc.Lemmas.WriteSetInv (LicenceFor NotNamed)
open Sdmmc.Lemmas.Fault (handles readOnlyOp)

/-- Clauses II: one call `op` from the state `s` (ghost `gh`), whatever is scheduled. -/
structure OneCall (s : Mgr) (gh : Ghost) (op : Op) : Prop where
  names : ∃ G', DirsSound gh.vol (step s op).1.dev.disk { vol := gh.vol, G := G', dirs := gh.dirs }
  survives : ∃ gh', SameGeom gh.vol gh'.vol ∧ C11Inv.FaultInv (step s op).1 gh'
  closing : (∀ d, Clean (closeDir d (step s op).1).1 ∧ (closeDir d (step s op).1).2.dev = (step s op).1.dev) ∧
    (∀ v, Clean (closeVolume v (step s op).1).1) ∧
    ((∀ x, x ∈ (step s op).1.files → FileSane x) → ∀ f, Clean (closeFile f (step s op).1).1)
  retry : retryOp op = true → s.vols ≠ [] → (step s op).1.dev.failed ≠ s.dev.failed →
    (step (clearFaults (step s op).1) op).2.result = (step (clearFaults s) op).2.result
  othersPrefix : prefixOp op = true → Mirror gh.vol s.dev.disk →
    ∃ Lic, LicenceFor gh s.files s.dirs s.dev.disk op Lic ∧ AllLicensed gh.vol s.dev.disk Lic (step s op).2.writes ∧
      ∀ (sb so c : Nat) (cs : List Nat), Chain gh.vol s.dev.disk c cs →
        (regionOf gh.vol sb = .root ∨ regionOf gh.vol sb = .data) → so % 32 = 0 → NotNamed gh.vol Lic sb so cs →
        slice ((step s op).1.dev.disk.get sb) so 32 = slice (s.dev.disk.get sb) so 32 ∧
        Chain gh.vol (step s op).1.dev.disk c cs ∧
        chainBytes gh.vol (step s op).1.dev.disk cs = chainBytes gh.vol s.dev.disk cs
  othersWrite : ∀ h data, op = .write h data →
    (∀ X, X ∈ gh.G → X ≠ ownChain s gh h →
      Chain gh.vol (step s op).1.dev.disk (X.headD 0) X ∧
      chainBytes gh.vol (step s op).1.dev.disk X = chainBytes gh.vol s.dev.disk X) ∧
    (∀ b, regionOf gh.vol b = .root → (step s op).1.dev.disk.get b = s.dev.disk.get b)
  othersReadOnly : readOnlyOp op = true → (step s op).1.dev.disk = s.dev.disk ∧ (step s op).2.writes = []

/-- Clauses III: after the first `k` calls of `ops` from `s` (ghost `gh`); `sk` is the state they leave. -/
structure AfterPrefix (s : Mgr) (gh : Ghost) (ops : List Op) (k : Nat) (sk : Mgr) : Prop where
  clean : ∀ o, o ∈ (run s (ops.take k)).2 → Clean o.result
  inv : ∃ gh', VolInvF sk gh' ∧ Mirror gh'.vol sk.dev.disk ∧ SameGeom gh.vol gh'.vol ∧
    -- (names)
    (∀ h, h ∈ dirIds gh'.dirs → ((entries (dirSlots gh'.vol sk.dev.disk gh'.G h)).map sName).Nodup) ∧
    -- (handles)
    (Exhausted sk.dev →
      ∃ (fs ds vs : List Nat), fs.Perm (sk.files.map (·.rawFile)) ∧ ds.Perm (sk.dirs.map (·.rawDirectory)) ∧
        vs = sk.vols.map (·.rawVolume) ∧
        let closes := fs.map Op.closeFile ++ ds.map Op.closeDir ++ vs.map Op.closeVolume
        (∀ o, o ∈ (run sk closes).2 → o.result = .ok .unit) ∧
        (run sk closes).1.files = [] ∧ (run sk closes).1.dirs = [] ∧ (run sk closes).1.vols = [] ∧
        hasOpenHandles (run sk closes).1 = false ∧
        (run sk closes).1.dev.failed = sk.dev.failed ∧
        (∃ gh2, VolInvF (run sk closes).1 gh2 ∧ SameGeom gh'.vol gh2.vol) ∧
        ∀ (idx : Nat) (vm : FatVolume), mountPure (sk.dev.disk.get 0) idx sk.dev.disk.get = .ok vm → SameGeom vm gh'.vol →
          ∃ w, mountPure ((run sk closes).1.dev.disk.get 0) idx (run sk closes).1.dev.disk.get = .ok w ∧ SameGeom gh'.vol w)
  mounts : ∀ (idx : Nat) (vm : FatVolume), mountPure (s.dev.disk.get 0) idx s.dev.disk.get = .ok vm → SameGeom vm gh.vol →
    ∃ w, mountPure (sk.dev.disk.get 0) idx sk.dev.disk.get = .ok w ∧ SameGeom gh.vol w
  retry : ∀ op, retryOp op = true → sk.vols ≠ [] → (step sk op).1.dev.failed ≠ sk.dev.failed →
    Exhausted (step sk op).1.dev → (step (step sk op).1 op).2.result = (step (clearFaults sk) op).2.result

/-- Every name is fine (`Props.C03All.name_ok_all`): only `open_volume` restricts `Covered`. -/
theorem covered_of {s : Mgr} {op : Op} (h : ∀ idx, op = .openVolume idx → s.vols ≠ []) : Covered s op := by
  cases op <;> first | exact h _ rfl | exact C03All.name_ok_all _ | exact trivial

/-- II from the invariant up to the schedule. -/
theorem oneCall_of_inv {s : Mgr} {gh : Ghost} (hI : VolInvF s gh) (op : Op) (hc : ∀ idx, op = .openVolume idx → s.vols ≠ []) :
    OneCall s gh op where
  names := Lemmas.MainC11.names_F hI op (Lemmas.MainC11.namesOK_of_covered (covered_of hc))
  survives := Lemmas.MainC11.survives_F hI op (covered_of hc)
  closing :=
    let h := C11Inv.handles_usable_after_fault_partial (step s op).1
    ⟨fun d => ⟨(h.1 d).1, (h.1 d).2.1⟩, h.2.1, h.2.2⟩
  retry := fun hop hvol hfail => Lemmas.MainC11.retry_F hI hvol op hop hfail
  othersPrefix := fun hop hm =>
    Lemmas.MainC11.others_F hI hm op hop (Lemmas.MainC11.namesOK_of_covered (covered_of hc))
  othersWrite := fun h data e => by subst e; exact Lemmas.MainC11.others_write_F hI h data
  othersReadOnly := fun h => C11.readonly_ops_write_nothing s op h

/-- **C11** (partial).  See the header. -/
theorem C11_main_partial :
    -- I
    (∀ (ops : List Op) (s : Mgr) (k : Nat) (op : Op), ops[k]? = some op → ∀ sk, (run s (ops.take k)).1 = sk →
      -- (reported)
      ((step sk op).1.dev.failed ≠ sk.dev.failed → ∃ e, (step sk op).2.result = .err e) ∧
      -- (tables)
      ((∀ f, op ≠ .closeFile f) → (∀ p, (step sk op).2.result ≠ .ok p) → handles (step sk op).1 = handles sk) ∧
      -- (cache)
      ((∀ i, s.cache.tag = some i → s.cache.blk = s.dev.disk.get i) →
        ∀ i, sk.cache.tag = some i → sk.cache.blk = sk.dev.disk.get i)) ∧
    -- II
    (∀ (s : Mgr) (gh : Ghost), VolInvF s gh → ∀ op, (∀ idx, op = .openVolume idx → s.vols ≠ []) → OneCall s gh op) ∧
    -- III
    (∀ (ops : List Op) (s : Mgr) (gh : Ghost), VolInvF s gh → Mirror gh.vol s.dev.disk → CoveredRun s ops →
      FailsOnlyIn classA s ops →
      (∀ k sk, (run s (ops.take k)).1 = sk → AfterPrefix s gh ops k sk) ∧
      -- (others)
      ∃ Ls : List Licence, Ls.length = ops.length ∧
        (∀ L, L ∈ Ls → ∃ k op gh', ops[k]? = some op ∧ VolInvF (run s (ops.take k)).1 gh' ∧ SameGeom gh.vol gh'.vol ∧
          LicenceFor gh' (run s (ops.take k)).1.files (run s (ops.take k)).1.dirs (run s (ops.take k)).1.dev.disk op L) ∧
        ∀ (k sb so c : Nat) (cs : List Nat), Chain gh.vol s.dev.disk c cs →
          (regionOf gh.vol sb = .root ∨ regionOf gh.vol sb = .data) → so % 32 = 0 →
          (∀ L, L ∈ Ls.take k → NotNamed gh.vol L sb so cs) →
          slice ((run s (ops.take k)).1.dev.disk.get sb) so 32 = slice (s.dev.disk.get sb) so 32 ∧
          Chain gh.vol (run s (ops.take k)).1.dev.disk c cs ∧
          chainBytes gh.vol (run s (ops.take k)).1.dev.disk cs = chainBytes gh.vol s.dev.disk cs) ∧
    -- (source)
    ((∀ idx, Gen.FunsM.BlockCache_read idx = cacheRead idx) ∧ (∀ idx, Gen.FunsM.BlockCache_read_mut idx = cacheRead idx) ∧
      Gen.FunsM.BlockCache_write_back = writeBack ∧
      (∀ dup, Gen.FunsM.BlockCache_write_back_with_duplicate dup = writeBackWithDuplicate dup) ∧
      (∀ idx, Gen.FunsM.BlockCache_blank_mut idx = blankMut idx)) := by
  refine ⟨fun ops s k op hk sk hsk => ?_, fun s gh hI op hc => oneCall_of_inv hI op hc,
    fun ops s gh hI hm hc hf => ⟨fun k sk hsk => ?_, C11Hist.others_intact_history ops hI hm hc hf⟩,
    C11GenM.read_eq, C11GenM.read_mut_eq, C11GenM.write_back_eq, C11GenM.write_back_with_duplicate_eq, C11GenM.blank_mut_eq⟩
  · subst hsk
    exact ⟨C11Hist.fault_reported_history ops s k op hk, C11.handles_survive_fault _ op,
      fun hcoh => C11Hist.cache_coherent_history ops s hcoh k⟩
  · subst hsk
    obtain ⟨_, hclean⟩ := C11Hist.history_under_faults_partial ops hI hc hf k
    obtain ⟨gh', hI', hm', hg'⟩ := Lemmas.MainC11.prefix_inv_mirror ops hI hm hc hf k
    exact ⟨hclean, ⟨gh', hI', hm', hg', hI'.med.tree.names, fun hx => C11Hist.handles_usable_after_faults hI' hm' hx⟩,
      fun idx vm hmt hsg => C11Hist.medium_mounts_history ops hI hm hc hf k idx vm hmt hsg,
      fun op hop hvol hfail hx => C11Hist.retry_when_exhausted hI' hvol op hop hfail hx⟩

/-! ### Non-vacuity, and the excluded points -/

namespace Example
open Sdmmc.Lemmas.VolExample

/-- Every state with the invariant of C03, given ANY schedule `L`, satisfies the hypothesis of II and III. -/
example {s0 : Mgr} {gh : Ghost} (hI : VolInv s0 gh) (L : List Nat) : VolInvF (C11Inv.withFaults L s0) gh :=
  C11Hist.volInvF_withFaults hI L

/-- II applies to the quiescent FAT16 example state `mgr1` under every schedule `L` and every call that is no `open_volume` … -/
example (L : List Nat) (op : Op) (h : ∀ idx, op ≠ .openVolume idx) :=
  C11_main_partial.2.1 (C11Inv.withFaults L mgr1) gh1 (C11Hist.volInvF_withFaults mgr1_inv L) op
    (fun idx e => absurd e (h idx))

/-- … e.g. (evaluated, `Props.C11Inv.Example`) the create whose directory-block write fails: `DeviceError`, nothing on the
medium, cache untagged, the next `find` answers `NotFound`; `mkdir` at every fault position. -/
example := C11Inv.Example.faulted_create
example := C11Inv.Example.no_stale_cache_after_failed_create
example := C11Inv.Example.faulted_mkdir_writes

/-- III applies to the history `Props.C11Hist.Example.ops` under the schedule `[0, 2]` (failures in class-A calls). -/
example := C11_main_partial.2.2.1 C11Hist.Example.ops (C11Inv.withFaults C11Hist.Example.sched mgr0) gh0
  (C11Hist.volInvF_withFaults mgr0_inv _)

/-- Excluded points, each evaluated: `label` needs fresh handle ids for the retry; an insane record makes `close_file`
panic; a class-B failure breaks `VolInvF` (lost chain after a failed delete, size above its chain after a failed
truncate). -/
example := C11Inv.Example.label_retry_needs_fresh_ids
example := C11Inv.Example.insane_record_panics
example := C11Hist.Example.classB_failure_breaks_volInvF
example := C11Hist.Example.lost_chain_after_failed_delete
example := C11Hist.Example.size_exceeds_chain_after_failed_truncate

end Example

end Sdmmc.Props.C11Main
