/-
C08, wrapper side — what the RAII wrappers `File` / `Directory` / `Volume` do to the handle tables:
`close`, `Drop`, `Directory::change_dir`.

Property theorems only; the proofs are in `Sdmmc.Lemmas.WrapIo` (close / drop) and
`Sdmmc.Lemmas.WrapDir` (`change_dir`).
Model: `Sdmmc.Model.Wrap` (`File.close` / `File.drop`, `Directory.close` / `Directory.drop` /
`Directory.changeDir`, `Volume.close` / `Volume.drop`, the combinators `call`, `expect`, `ignoreErr`).
Specification vocabulary: `Sdmmc.Spec.Wrap.swallow` (what `_ = result` keeps of a result).

STATUS: PROVED (no theorem below is `_partial`).

What is stated, in words:
* `close` IS the raw close; `Drop` is the raw close with `Err` turned into `Ok(())` — same state
  (`drop_closes`).  A destructor therefore cannot report: a failed flush of a dirty file is lost
  (`drop_file_open`: the slot is removed whatever the flush answered, and the medium is what the
  flush left; `Example.drop_dirty_on_faulted_device`: `Ok(())`, handle gone, a device failure
  counted, NOTHING of the new length on the medium — where `close` answers `DeviceError`);
  dropping a `Volume` that is still in use leaves it open and says `Ok(())`
  (`drop_volume_in_use`); a destructor that runs while the manager is borrowed leaks its handle
  (`drop_while_borrowed`).
* `change_dir` answers exactly what `open_dir` answers — the `.unwrap()` on `close_dir` NEVER fires
  (`change_dir_answer`).  In particular a stale handle is `BadHandle` (or `TooManyOpenDirs`, which is
  checked first), not a panic (`change_dir_stale`): `open_dir` looks the old handle up before
  `close_dir` gets to, and does not remove it.
* success ⇒ same table size, the new entry sits in the slot of the old one, the new handle is the
  answer of `open_dir` (`change_dir_success`).
* a full directory table ⇒ `TooManyOpenDirs` and nothing changed, although the call would not have
  changed the number of open directories (`change_dir_full`) — with `MAX_DIRS` directories open no
  `Directory` can `change_dir` at all.
-/
import Sdmmc.Props.C01Write
import Sdmmc.Lemmas.WrapStep

namespace Sdmmc.Props.C08Wrap
open Sdmmc.Model Sdmmc.Model.Wrap Sdmmc.Spec.Wrap

/-! ### 1. `close` and `Drop` -/

/-- `File::close` / `Directory::close` / `Volume::close` are the raw calls. -/
theorem close_is_raw (s : Mgr) (x : Nat) (hl : s.locked = false) :
    File.close x s = closeFile x s ∧ Directory.close x s = closeDir x s ∧ Volume.close x s = closeVolume x s :=
  ⟨Lemmas.Wrap.file_close_eq s x hl, Lemmas.Wrap.dir_close_eq s x hl, Lemmas.Wrap.volume_close_eq s x hl⟩

/-- **Dropping a wrapper leaves the state of the corresponding raw close, whatever its outcome**;
the answer is `Ok(())` unless the close panicked or diverged (`swallow`). -/
theorem drop_closes (s : Mgr) (x : Nat) (hl : s.locked = false) :
    File.drop x s = (swallow (closeFile x s).1, (closeFile x s).2) ∧
    Directory.drop x s = (swallow (closeDir x s).1, (closeDir x s).2) ∧
    Volume.drop x s = (swallow (closeVolume x s).1, (closeVolume x s).2) :=
  ⟨Lemmas.Wrap.file_drop_eq s x hl, Lemmas.Wrap.dir_drop_eq s x hl, Lemmas.Wrap.volume_drop_eq s x hl⟩

/-- Dropping a `Directory` always answers `Ok(())` (`close_dir` cannot panic). -/
theorem drop_dir_ok (s : Mgr) (d : Nat) : (Directory.drop d s).1 = .ok () :=
  Lemmas.Wrap.dir_drop_ok s d

/-- Dropping an open `File` (slot `i`): the flush runs; whatever it answered — a device error
included — the answer is `Ok(())` (a panic of the flush stays a panic), the slot is swap-removed, and
everything else, the medium included, is what the flush left. -/
theorem drop_file_open (s : Mgr) (h i : Nat) (hl : s.locked = false)
    (hh : s.files.findIdx? (·.rawFile = h) = some i) :
    File.drop h s = (swallow (flushFile h s).1, { (flushFile h s).2 with files := swapRemove s.files i }) ∧
    File.close h s = ((flushFile h s).1, { (flushFile h s).2 with files := swapRemove s.files i }) := by
  refine ⟨Lemmas.Wrap.file_drop_open hl hh, ?_⟩
  rw [Lemmas.Wrap.file_close_eq s h hl, Lemmas.Wrap.closeFile_open_at hh]

/-- … and for a file that is not dirty the flush is nothing: the slot goes, nothing else happens. -/
theorem drop_file_clean (s : Mgr) (h i : Nat) (f : FileInfo) (hl : s.locked = false)
    (hh : s.files.findIdx? (·.rawFile = h) = some i) (hf : s.files[i]? = some f) (hd : f.dirty = false) :
    File.drop h s = (.ok (), { s with files := swapRemove s.files i }) := by
  rw [Lemmas.Wrap.file_drop_open hl hh, Lemmas.Wrap.flushFile_clean hh hf hd]
  rfl

/-- Dropping a `Volume` that still has an open file or directory: `VolumeStillInUse` is swallowed —
`Ok(())`, nothing changed, the volume stays open. -/
theorem drop_volume_in_use (s : Mgr) (v : Nat) (hl : s.locked = false)
    (hu : s.files.any (·.rawVolume = v) = true ∨ s.dirs.any (·.rawVolume = v) = true) :
    Volume.close v s = (.err .VolumeStillInUse, s) ∧ Volume.drop v s = (.ok (), s) := by
  obtain ⟨h1, h2⟩ := Lemmas.Wrap.volume_drop_in_use s v hl hu
  exact ⟨by rw [Lemmas.Wrap.volume_close_eq s v hl]; exact h1, h2⟩

/-- A destructor running while the manager is borrowed (inside a directory-iteration callback):
`LockError` is swallowed — `Ok(())`, nothing changed, the handle stays open. -/
theorem drop_while_borrowed (s : Mgr) (x : Nat) (hl : s.locked = true) :
    File.drop x s = (.ok (), s) ∧ Directory.drop x s = (.ok (), s) ∧ Volume.drop x s = (.ok (), s) :=
  Lemmas.Wrap.drop_locked s x hl

/-! ### 2. `Directory::change_dir` -/

/-- **The answer of `change_dir` is the answer of `open_dir`, in every state**: the `.unwrap()` on
`close_dir(old)` never fires; the only panics are those of `open_dir` itself. -/
theorem change_dir_answer (s : Mgr) (d : Nat) (name : List Nat) (hl : s.locked = false) :
    (Directory.changeDir d name s).1 = (openDir d name s).1 :=
  Lemmas.Wrap.changeDir_result hl

/-- When `open_dir` does not succeed, `change_dir` stops there: the state is `open_dir`'s. -/
theorem change_dir_failure (s : Mgr) (d : Nat) (name : List Nat) (hl : s.locked = false)
    (hno : ∀ a, (openDir d name s).1 ≠ .ok a) :
    Directory.changeDir d name s = (openDir d name s) := by
  obtain ⟨h2, h1⟩ := Lemmas.Wrap.changeDir_not_ok hl hno
  exact Prod.ext (h1 _ rfl) h2

/-- **Success**: `open_dir(d, name) = Ok(d')` with state `s1` (whose directory table is the old one
plus one entry `x` with handle `d'`).  Then `change_dir` answers `d'`, and its state is `s1` with the
directory table being the OLD table with slot `i` — the slot of `d` — replaced by `x`: same size,
`d` gone, `d'` in its place, every other slot untouched. -/
theorem change_dir_success (s s1 : Mgr) (d d' : Nat) (name : List Nat) (hl : s.locked = false)
    (ho : openDir d name s = (.ok d', s1)) :
    ∃ i p x, s.dirs.findIdx? (·.rawDirectory = d) = some i ∧ s.dirs[i]? = some p ∧ x.rawDirectory = d' ∧
      s1.dirs = s.dirs ++ [x] ∧
      Directory.changeDir d name s = (.ok d', { s1 with dirs := s.dirs.set i x }) ∧
      (s.dirs.set i x).length = s.dirs.length :=
  let ⟨i, p, x, h1, h2, h3, h4, h5⟩ := Lemmas.Wrap.changeDir_ok hl ho
  ⟨i, p, x, h1, h2, h3, h4, h5, List.length_set⟩

/-- **Full table**: `TooManyOpenDirs`, nothing changed — whatever the handle and the name, although a
successful `change_dir` does not change the number of open directories. -/
theorem change_dir_full (s : Mgr) (d : Nat) (name : List Nat) (hl : s.locked = false)
    (hfull : s.dirs.length ≥ s.maxDirs) : Directory.changeDir d name s = (.err .TooManyOpenDirs, s) :=
  Lemmas.Wrap.changeDir_full hl hfull

/-- **Stale handle** (free slot available): `BadHandle`, nothing changed — not a panic. -/
theorem change_dir_stale (s : Mgr) (d : Nat) (name : List Nat) (hl : s.locked = false)
    (hroom : s.dirs.length < s.maxDirs) (hb : d ∉ s.dirs.map (·.rawDirectory)) :
    Directory.changeDir d name s = (.err .BadHandle, s) :=
  Lemmas.Wrap.changeDir_stale hl hroom hb

/-- With the manager borrowed: `LockError`, nothing changed. -/
theorem change_dir_borrowed (s : Mgr) (d : Nat) (name : List Nat) (hl : s.locked = true) :
    Directory.changeDir d name s = (.err .LockError, s) :=
  Lemmas.Wrap.changeDir_locked hl

/-! ### Non-vacuity (tests, evaluated by the kernel)

The FAT16 example volume of `Sdmmc.Props.C01Read` / `C01Write`, with a root directory block holding
one entry — the subdirectory `SUB` (cluster 6) — and two open root-directory handles, 4 and 3. -/
namespace Example
open Sdmmc.Props.C01Read.Example Sdmmc.Props.C01Write.Example Sdmmc.Gen

def subName : Bytes := [83, 85, 66, 32, 32, 32, 32, 32, 32, 32, 32]
def subEntry : DirEntry :=
  { name := subName, mtime := default, ctime := default, attributes := 0x10, cluster := 6, size := 0, entryBlock := 9, entryOffset := 0 }
def rootBlk : Block := subEntry.serialize .fat16 ++ zeros 480
def rootD : DirInfo := { rawDirectory := 4, rawVolume := 0, cluster := CLUSTER_ROOT_DIR }
def mgrD : Mgr :=
  { mgrW with dev := { disk := disk.set 9 rootBlk }, dirs := [rootD, { rootD with rawDirectory := 3 }], maxDirs := 3 }

/-- The directory table as (handle, cluster) pairs. -/
def dirTable (s : Mgr) : List (Nat × Nat) := s.dirs.map fun d => (d.rawDirectory, d.cluster)

/-- `change_dir("SUB")` on handle 4 with one slot free: `Ok`, new handle 5 (the counter), in slot 0
where 4 was; slot 1 untouched; the root directory block was read. -/
example : (Directory.changeDir 4 [83, 85, 66] mgrD).1 = .ok 5 ∧
    dirTable (Directory.changeDir 4 [83, 85, 66] mgrD).2 = [(5, 6), (3, CLUSTER_ROOT_DIR)] ∧
    (wstep mgrD (.changeDir 4 [83, 85, 66])).2.reads = [9] := by
  refine ⟨?_, ?_, ?_⟩ <;> decide +kernel

/-- `change_dir(".")`: the same directory under a new handle. -/
example : (Directory.changeDir 4 [46] mgrD).1 = .ok 5 ∧
    dirTable (Directory.changeDir 4 [46] mgrD).2 = [(5, CLUSTER_ROOT_DIR), (3, CLUSTER_ROOT_DIR)] := by
  refine ⟨?_, ?_⟩ <;> decide +kernel

/-- The same call with the table full (`MAX_DIRS = 2`, two directories open): `TooManyOpenDirs`,
table as before — also for a stale handle; with room, a stale handle is `BadHandle`; a name that does
not exist is `NotFound` and the old handle stays. -/
example : ∀ s, s = { mgrD with maxDirs := 2 } →
    (Directory.changeDir 4 [83, 85, 66] s).1 = .err .TooManyOpenDirs ∧
    dirTable (Directory.changeDir 4 [83, 85, 66] s).2 = [(4, CLUSTER_ROOT_DIR), (3, CLUSTER_ROOT_DIR)] ∧
    (Directory.changeDir 9 [83, 85, 66] s).1 = .err .TooManyOpenDirs ∧
    (Directory.changeDir 9 [83, 85, 66] mgrD).1 = .err .BadHandle ∧
    (Directory.changeDir 4 [65] mgrD).1 = .err .NotFound ∧
    dirTable (Directory.changeDir 4 [65] mgrD).2 = [(4, CLUSTER_ROOT_DIR), (3, CLUSTER_ROOT_DIR)] := by
  intro s hs; subst hs
  refine ⟨?_, ?_, ?_, ?_, ?_, ?_⟩ <;> decide +kernel

/-- The hypothesis of `change_dir_success` is satisfiable. -/
example : (openDir 4 [83, 85, 66] mgrD).1 = .ok 5 := by decide +kernel

/-- Dropping / closing directories: a stale handle is `Ok(())` for `drop`, `BadHandle` for `close`. -/
example : (Directory.drop 4 mgrD).1 = .ok () ∧ dirTable (Directory.drop 4 mgrD).2 = [(3, CLUSTER_ROOT_DIR)] ∧
    (Directory.drop 9 mgrD).1 = .ok () ∧ (Directory.close 9 mgrD).1 = .err .BadHandle := by
  refine ⟨?_, ?_, ?_, ?_⟩ <;> decide +kernel

/-- Dropping the volume while files and directories are open: `Ok(())`, still open; `close` says
`VolumeStillInUse`.  With nothing open on it: closed. -/
example : (Volume.drop 0 mgrD).1 = .ok () ∧ (Volume.drop 0 mgrD).2.vols.length = 1 ∧
    (Volume.close 0 mgrD).1 = .err .VolumeStillInUse ∧
    (Volume.drop 0 { mgr with files := [] }).1 = .ok () ∧ (Volume.drop 0 { mgr with files := [] }).2.vols.length = 0 := by
  refine ⟨?_, ?_, ?_, ?_, ?_⟩ <;> decide +kernel

/-- The state after 700 bytes were written to file 1 (dirty, length 1700 in memory only) … -/
def s1 : Mgr := (write 1 data700 mgrW).2
/-- … on a device whose next call fails. -/
def s1f : Mgr := { s1 with dev := { s1.dev with faults := [s1.dev.calls] } }

/-- **Dropping a dirty file on a faulted device.**  On the healthy device the drop writes the
directory entry (block 9: length 1700 = `A4 06 00 00` at bytes 28..31 of the entry).  On the
faulted device: `close` answers `DeviceError`; `drop` answers `Ok(())`; in both cases the handle is
gone, one device failure was counted, no block was written (the write log is the one of the `write`
call), and the entry on the medium is untouched — the new length exists nowhere any more. -/
theorem drop_dirty_on_faulted_device :
    (File.drop 1 s1).1 = .ok () ∧
    ((File.drop 1 s1).2.dev.wlog.map (·.1)) = 9 :: (s1.dev.wlog.map (·.1)) ∧
    (((File.drop 1 s1).2.dev.disk.get 9).drop 60).take 4 = [0xA4, 0x06, 0, 0] ∧
    (File.close 1 s1f).1 = .err .DeviceError ∧
    (File.drop 1 s1f).1 = .ok () ∧
    (File.drop 1 s1f).2.files.map (·.rawFile) = [3, 2] ∧
    (File.close 1 s1f).2.files.map (·.rawFile) = [3, 2] ∧
    (File.drop 1 s1f).2.dev.failed = 1 ∧
    (File.drop 1 s1f).2.dev.wlog.map (·.1) = s1.dev.wlog.map (·.1) ∧
    (File.drop 1 s1f).2.dev.disk.m.toList = s1.dev.disk.m.toList ∧
    (((File.drop 1 s1f).2.dev.disk.get 9).drop 60).take 4 = [0, 0, 0, 0] := by
  refine ⟨?_, ?_, ?_, ?_, ?_, ?_, ?_, ?_, ?_, ?_, ?_⟩ <;> decide +kernel

/-- With the manager borrowed a drop leaks: handle 1 still open. -/
example : ∀ s, s = { mgrW with locked := true } →
    (File.drop 1 s).1 = .ok () ∧ (File.drop 1 s).2.files.map (·.rawFile) = [1, 2, 3] := by
  intro s hs; subst hs
  refine ⟨?_, ?_⟩ <;> decide +kernel

end Example

end Sdmmc.Props.C08Wrap
