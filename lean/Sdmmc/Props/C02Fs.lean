/-
C02 over arbitrary histories — "Once a file has been flushed or closed, a completely fresh mount of the raw
block device shows that file under its name with exactly the flushed length and contents, the directory / file
attribute, a creation time that never changes after creation and a modification time equal to the clock value
at the last write.  Every file and directory that the history did not touch is byte-for-byte and entry-for-entry
unchanged."

Property theorems only; the proofs are in `Sdmmc.Lemmas.AbsFsTimes*` (the abstract file system alone) and
`Sdmmc.Lemmas.AbsFsRemount*` (the manager: remount, reader, independent reader).
Trusted statement: `Spec/AbsFs.lean` (the abstract file system), `Spec/AbsFsClock.lean` (events with a moving
clock `Ev` / `absRunClk` / `absRunP`, the well-formedness `AInv`, the per-slot ghost `SlotG` / `eff` / `ghostRun` /
`GInv`, the event classes `WritesAt` / `StoresAt` / `CreatesAt` / `TruncatesAt` / `RemovesAt` / `TouchesAt`),
`Spec/ClockRun.lean` (`CEv`, `runClk`, `NoOpenVolume`, the reader `pathDir` / `readerOps` / `ParsesTo`), `Spec/Volume.lean`
(`VolInv`), `Lemmas/AbsFsBase.lean` (`Abs`), `Lemmas/AbsFsRemount.lean` (`FreshOn`), `Spec/Fs.lean` (the
independent reader).

STATUS: PROVED (no theorem below is `_partial`).

HOW THE SENTENCE IS COVERED.
1. The abstract file system alone, histories with a moving clock (`Model.step` never changes `s.clock`; the
   environment does, between calls: an event is a call with its answer or a `tick`):
   `ctime_never_changes`, `created_ctime`, `mtime_is_last_write_clock` (with `size_is_flushed_length` as its last
   conjunct), `contents_change_only_by_modification`, `write_stores_model_bytes`, `attributes_kept` (files: at most the
   archive bit; sub-directory entries: nothing, ever — `dir_entry_forever`), `untouched_slots_unchanged`; all from
   ONE invariant, `slot_ghost_invariant`: the ghost of a slot — a function of the history — is true after it.
   They need the abstract state to be well formed (`AInv`), which every history keeps (`well_formed_forever`) and
   every abstract counterpart of a state without open files has (`quiescent_well_formed`).
2. The manager: `history_refines_clk` (histories with clock movements are abstract histories with the same
   answers — no hypothesis on names any more), `history_ghost` (1 and 2 composed), `remount_same_tree` (the
   abstract tree is a function of the medium: a fresh manager that mounts it sees the same directories),
   `fresh_mount_shows_flushed` (the reader: open the volume, the root, the directories of the path, the file;
   length, bytes, listing are those of the slot).
3. `independent_reader_agrees`: the executable reference reader `Spec.Fs` sees the same entry and the same bytes.

HYPOTHESES, stated plainly.
* no device faults, single volume: inherited from `VolInv`.
* `history_refines_clk` / `history_ghost`: no `open_volume` in the history (the one call with a hypothesis in
  `Props.C01Fs`; remounting is `remount_same_tree`); the start state has no open file (then `AInv` holds; for a
  start state with open files `AInv a0` would have to be assumed: the invariant `VolInv` does not record how an open
  file's pending creation time relates to the stored one).
* `remount_same_tree` / `fresh_mount_shows_flushed`: the state the fresh manager starts from has no open FILE (open
  directory handles of the old manager do not matter); the medium mounts to a record with the geometry of the
  volume (`mountPure`, C15 — along histories: `Props.C10Inv.history_mounts`); the fresh manager has `maxVols = 1`,
  no scheduled fault, a coherent (e.g. empty) cache; its handle generator does not wrap during the reader's calls.
* `independent_reader_agrees`: (H1) of `Props.C03Inv.fsck_ok` — no FAT32 entry of a data cluster is `1`.
* the modification time a flush stores is the clock at the last WRITE (or truncation / creation) through a handle,
  not at the flush: `Example.mtime_is_write_clock_not_flush_clock` evaluates this.
-/
import Sdmmc.Lemmas.AbsFsRemount8
import Sdmmc.Props.C01Fs
import Sdmmc.Props.C09HistEx

namespace Sdmmc.Props.C02Fs
open Sdmmc.Model Sdmmc.Model.Fat Sdmmc.Spec.Volume
open Sdmmc.Spec hiding run step NoFault Coherent
open Sdmmc.Spec.AbsFs (AbsFs Meta view storedMeta fatRound OpenFile OpenDir absStep absRun Ev CEv evStep absRunClk absRunP
  callEvs runClk NoOpenVolume AInv Rounded SlotG GInv eff ghost0 ghostRun WritesAt StoresAt CreatesAt TruncatesAt RemovesAt
  TouchesAt pathDir readerOps ParsesTo lookup listing)
open Sdmmc.Lemmas.AbsFs (Abs FreshOn)
open Sdmmc.Lemmas.AbsFsTimes (ModifiesAt handlesFrom)

/-! ### 0. Time stamps at FAT resolution -/

/-- Rounding to FAT resolution twice is rounding once. -/
theorem fat_round_idempotent (t : Timestamp) : fatRound (fatRound t) = fatRound t :=
  Lemmas.AbsFsTimes.fatRound_idem t

/-- What is decoded from FAT date / time words is at FAT resolution (also for the tolerated zero month / day). -/
theorem decoded_times_rounded (date time : Nat) (hd : date < 65536) (ht : time < 65536) :
    Rounded (Timestamp.fromFat date time) :=
  Lemmas.AbsFsTimes.fromFat_rounded date time hd ht

/-! ### 1. The abstract file system alone -/

/-- A history without ticks is a history. -/
theorem histories_without_ticks {ops : List Op} {rs : List (Res Payload)} {a a' : AbsFs} (h : absRun a ops rs a') :
    absRunClk a (callEvs ops rs) a' :=
  Lemmas.AbsFsTimes.absRun_clk h

/-- **Every history keeps the abstract state well formed.** -/
theorem well_formed_forever {es : List Ev} {a a' : AbsFs} (hA : AInv a) (h : absRunClk a es a') : AInv a' :=
  Lemmas.AbsFsTimes.ainv_run hA h

/-- **The ghost of a slot stays true**: for a slot `(x, j)` of a directory that exists, the ghost computed along
the history (`ghostRun`, by `eff`) satisfies `GInv` at the end: the file is there under its name with its
creation time and its attribute byte up to the archive bit (`born`); every dirty record at the slot carries the
clock of the last modification (`pending`); once stored, the directory entry shows that clock at FAT resolution
and the true length (`stored`). -/
theorem slot_ghost_invariant {x j : Nat} {es : List Ev} {a a' : AbsFs} {g g' : SlotG} (hA : AInv a) (hx : x ∈ a.ids)
    (hG : GInv a x j g) (h : ghostRun x j a g es a' g') : GInv a' x j g' :=
  (Lemmas.AbsFsTimes.ginv_run hA hx hG h).1

/-- The start ghost is true, and every history has its ghost. -/
theorem ghost_exists (x j : Nat) {es : List Ev} {a a' : AbsFs} (h : absRunClk a es a') :
    GInv a x j (ghost0 a x j) ∧ ∃ g', ghostRun x j a (ghost0 a x j) es a' g' :=
  ⟨Lemmas.AbsFsTimes.ginv_ghost0 a x j, Lemmas.AbsFsTimes.ghostRun_exists x j _ h⟩

/-- **The creation time never changes**: a file in slot `(x, j)` shows, after ANY history in which no object is
created in or removed from that slot, the creation time (and the name) it showed before; its attribute byte
changed at most by the archive bit. -/
theorem ctime_never_changes {x j : Nat} {es : List Ev} {a a' : AbsFs} {m : Meta} {bytes : Bytes} (hA : AInv a)
    (hx : x ∈ a.ids) (hs : (a.slots x)[j]? = some (.file m bytes))
    (h : absRunP (fun a ev => ¬ CreatesAt a x j ev ∧ ¬ RemovesAt a x j ev) a es a') :
    ∃ m' bytes', (a'.slots x)[j]? = some (.file m' bytes') ∧ m'.ctime = m.ctime ∧ m'.name = m.name ∧
      (m'.attr = m.attr ∨ m'.attr = Attr.setArchive m.attr) :=
  Lemmas.AbsFsTimes.born_run hA hx hs h

/-- **A file created during the history** (event `ev`, while the clock read `a.clock`) shows `fatRound a.clock`
as creation time for as long as it is not deleted. -/
theorem created_ctime {x j : Nat} {a a1 a2 : AbsFs} {ev : Ev} {es : List Ev} (hA : AInv a) (hx : x ∈ a.ids)
    (hC : CreatesAt a x j ev) (hstep : evStep a ev a1)
    (hrun : absRunP (fun a ev => ¬ CreatesAt a x j ev ∧ ¬ RemovesAt a x j ev) a1 es a2) :
    ∃ m bytes, (a2.slots x)[j]? = some (.file m bytes) ∧ m.ctime = fatRound a.clock ∧
      (m.attr = 0 ∨ m.attr = Attr.setArchive 0) :=
  Lemmas.AbsFsTimes.created_run hA hx hC hstep hrun

/-- **The stored modification time is the clock at the last write; the stored size is the true length**
(`size_is_flushed_length`).  A write through a handle at slot `(x, j)` happens while the clock reads `aW.clock`;
then any history without modification of that slot (no further write, truncation, creation, removal there — other
flushes, opens, reads, anything on other slots, ticks are allowed); then a `flush_file` / `close_file` that stores;
then again any history without modification of the slot.  At the end the directory entry in the slot shows
`fatRound aW.clock` and the length of the file's bytes. -/
theorem mtime_is_last_write_clock {x j : Nat} {aW a1 a2 a3 a4 : AbsFs} {evW evF : Ev} {es1 es2 : List Ev}
    (hA : AInv aW) (hx : x ∈ aW.ids) (hW : WritesAt aW x j evW) (hstepW : evStep aW evW a1)
    (hrun1 : absRunP (fun a ev => ¬ ModifiesAt a x j ev) a1 es1 a2)
    (hF : StoresAt a2 x j evF) (hstepF : evStep a2 evF a3)
    (hrun2 : absRunP (fun a ev => ¬ ModifiesAt a x j ev) a3 es2 a4) :
    ∃ m bytes, (a4.slots x)[j]? = some (.file m bytes) ∧ m.mtime = fatRound aW.clock ∧ m.size = bytes.length :=
  Lemmas.AbsFsTimes.stored_after_write hA hx hW hstepW hrun1 hF hstepF hrun2

/-- `ModifiesAt` spelled out. -/
theorem modifiesAt_def (a : AbsFs) (x j : Nat) (ev : Ev) :
    ModifiesAt a x j ev ↔ WritesAt a x j ev ∨ CreatesAt a x j ev ∨ TruncatesAt a x j ev ∨ RemovesAt a x j ev := Iff.rfl

/-- **The contents change only through a modification**: flushing, closing, opening, reading, seeking, ticks and
every call on another slot leave the bytes of the file alone. -/
theorem contents_change_only_by_modification {x j : Nat} {bytes : Bytes} {es : List Ev} {a a' : AbsFs} {m : Meta}
    (hA : AInv a) (hx : x ∈ a.ids) (hs : (a.slots x)[j]? = some (.file m bytes))
    (h : absRunP (fun a ev => ¬ ModifiesAt a x j ev) a es a') : ∃ m', (a'.slots x)[j]? = some (.file m' bytes) :=
  Lemmas.AbsFsTimes.bytes_run hA hx hs h

/-- What a write leaves in the slot: the byte-array model's write of the stored prefix (all of the data when the
call answered `Ok`) at the handle's position. -/
theorem write_stores_model_bytes {a a' : AbsFs} {x j hd : Nat} {data : Bytes} {r : Res Payload}
    (hW : WritesAt a x j (.call (.write hd data) r)) (h : evStep a (.call (.write hd data) r) a') (hl : a.locked = false) :
    ∃ i f m bytes k, Spec.AbsFs.fileOf a hd = some (i, f) ∧ (f.dir, f.idx) = (x, j) ∧
      (a.slots x)[j]? = some (.file m bytes) ∧ k ≤ data.length ∧ (r = .ok .unit → k = data.length) ∧
      (a'.slots x)[j]? = some (.file m ((⟨bytes, f.pos⟩ : ByteFile).write (data.take k)).bytes) :=
  Lemmas.AbsFsTimes.write_bytes hW h hl

/-- **A sub-directory entry never changes** — name, directory attribute, time stamps, the directory it names —
through ANY history. -/
theorem dir_entry_forever {x j : Nat} {m : Meta} {t : Nat} {es : List Ev} {a a' : AbsFs} (hA : AInv a) (hx : x ∈ a.ids)
    (hs : (a.slots x)[j]? = some (.dir m t)) (h : absRunClk a es a') : (a'.slots x)[j]? = some (.dir m t) :=
  Lemmas.AbsFsTimes.dir_slot_forever hA hx hs h

/-- **Attributes are kept**: a file's attribute byte changes at most by the archive bit (set by a write) as long
as the file is not deleted; a directory made by `make_dir_in_dir` has the directory attribute (`ATTR_DIRECTORY`,
in `Spec.AbsFs.mkdirS`) and keeps its whole entry for ever (`dir_entry_forever`). -/
theorem attributes_kept {x j : Nat} {es : List Ev} {a a' : AbsFs} {m : Meta} {bytes : Bytes} (hA : AInv a)
    (hx : x ∈ a.ids) (hs : (a.slots x)[j]? = some (.file m bytes))
    (h : absRunP (fun a ev => ¬ CreatesAt a x j ev ∧ ¬ RemovesAt a x j ev) a es a') :
    ∃ m' bytes', (a'.slots x)[j]? = some (.file m' bytes') ∧ (m'.attr = m.attr ∨ m'.attr = Attr.setArchive m.attr) := by
  obtain ⟨m', b', h1, _, _, h4⟩ := ctime_never_changes hA hx hs h
  exact ⟨m', b', h1, h4⟩

/-- **Everything the history does not touch is unchanged**: a slot `(x, j)` of an existing directory that no
call of the history touches (`Spec.AbsFs.touched`) reads after the history as before — the bytes and the stored
entry of every other file, every other directory entry. -/
theorem untouched_slots_unchanged {x j : Nat} {es : List Ev} {a a' : AbsFs} (hA : AInv a) (hx : x ∈ a.ids)
    (h : absRunP (fun a ev => ¬ TouchesAt a x j ev) a es a') : (a'.slots x)[j]? = (a.slots x)[j]? :=
  Lemmas.AbsFsTimes.untouched_run hA hx h

/-! ### 2. The manager -/

/-- **The abstract counterpart of a state without open files is well formed.** -/
theorem quiescent_well_formed {s : Mgr} {gh : Ghost} {a : AbsFs} (hI : VolInv s gh) (hA : Abs s gh a) (hs : s.files = []) :
    AInv a :=
  Lemmas.AbsFs.ainv_of_abs hI hA hs

/-- **Histories with a moving clock are abstract histories with the same answers.**  No hypothesis on the names
(with the 0x05 substitution every name is covered); the only excluded call is `open_volume`. -/
theorem history_refines_clk (es : List CEv) {s : Mgr} {gh : Ghost} {a : AbsFs} (hI : VolInv s gh) (hA : Abs s gh a)
    (hn : NoOpenVolume es) :
    ∃ gh' a', VolInv (runClk s es).1 gh' ∧ SameGeom gh.vol gh'.vol ∧ Abs (runClk s es).1 gh' a' ∧
      absRunClk a (runClk s es).2 a' :=
  Lemmas.AbsFs.fs_history_refines_clk es hI hA hn

/-- **1 and 2 composed.**  From a state with the invariant, an abstract counterpart and no open file, run any
history.  The final state has the invariant and a well-formed abstract counterpart `a` reached by the abstract
history with the SAME answers, and for every slot of a directory that existed at the start the ghost the history
computes is true of `a`. -/
theorem history_ghost (es : List CEv) {s : Mgr} {gh : Ghost} {a0 : AbsFs} (hI : VolInv s gh) (hA : Abs s gh a0)
    (hs : s.files = []) (hn : NoOpenVolume es) :
    ∃ gh' a, VolInv (runClk s es).1 gh' ∧ SameGeom gh.vol gh'.vol ∧ Abs (runClk s es).1 gh' a ∧
      absRunClk a0 (runClk s es).2 a ∧ AInv a0 ∧ AInv a ∧
      ∀ x j, x ∈ a0.ids → ∃ g', ghostRun x j a0 (ghost0 a0 x j) (runClk s es).2 a g' ∧ GInv a x j g' ∧ x ∈ a.ids :=
  Lemmas.AbsFs.history_ghost es hI hA hs hn

/-- `FreshOn s t`, spelled out: a manager with empty tables on the medium of `s`. -/
theorem freshOn_def (s t : Mgr) : FreshOn s t ↔
    t.dev.disk = s.dev.disk ∧ t.dev.faults = [] ∧ (∀ i, t.cache.tag = some i → t.cache.blk = t.dev.disk.get i) ∧
    t.locked = false ∧ t.maxVols = 1 ∧ t.vols = [] ∧ t.dirs = [] ∧ t.files = [] :=
  ⟨fun h => ⟨h.disk, h.noFault, h.coherent, h.unlocked, h.maxVols, h.vols, h.dirs, h.files⟩,
   fun ⟨h1, h2, h3, h4, h5, h6, h7, h8⟩ => ⟨h1, h2, h3, h4, h5, h6, h7, h8⟩⟩

/-- **Remount: the same tree.**  `s` has the invariant, an abstract counterpart `a`, and no open file; `t` is a
fresh manager on the medium of `s` (`s` itself after `close_volume` is one; so is a manager made from nothing);
the medium mounts (partition `idx`) to a record with the geometry of the volume.  Then `open_volume idx` on `t`
answers the next handle, the invariant and the abstraction hold again, and the abstract directories — numbers and
contents: every entry, every file's bytes — are those of `a`. -/
theorem remount_same_tree {s t : Mgr} {gh : Ghost} {a : AbsFs} (hI : VolInv s gh) (hA : Abs s gh a) (hs : s.files = [])
    (hF : FreshOn s t) (idx : Nat) (w : FatVolume) (hm : mountPure (t.dev.disk.get 0) idx t.dev.disk.get = .ok w)
    (hsg : SameGeom gh.vol w) :
    ∃ gh' a', (step t (.openVolume idx)).2.result = .ok (.handle t.nextId) ∧
      VolInv (step t (.openVolume idx)).1 gh' ∧ SameGeom gh.vol gh'.vol ∧ Abs (step t (.openVolume idx)).1 gh' a' ∧
      a'.ids = a.ids ∧ (∀ h, h ∈ a.ids → a'.slots h = a.slots h) ∧
      a'.vols = [(t.nextId, idx)] ∧ a'.dirs = [] ∧ a'.files = [] ∧ a'.nextId = (t.nextId + 1) % 4294967296 ∧
      a'.maxDirs = t.maxDirs ∧ a'.maxFiles = t.maxFiles ∧ a'.clock = t.clock ∧ a'.locked = false :=
  Lemmas.AbsFs.remount_same_tree hI hA hs hF idx w hm hsg

/-- **A fresh mount shows the flushed file.**  In the abstract tree `a` of `s` the path of directory names leads
from the root to directory `x`, where the file name is found at slot `j`: a file with stored entry `m` and bytes
`bytes`.  A fresh manager on the medium of `s` calls `open_volume`, `open_root_dir`, `open_dir` along the path,
`open_file_in_dir … ReadOnly`, `file_length`, `read n`, `iterate_dir`.  The answers are: the handles in order; the
stored size `m.size`; the first `n` bytes of `bytes`; a listing showing exactly the entries of directory `x` of
`a` — `m`, with its time stamps and attribute byte, among them.  (By `history_ghost`, `m` and `bytes` are what the
ghost of the writer's history says: `GInv`.) -/
theorem fresh_mount_shows_flushed {s t : Mgr} {gh : Ghost} {a : AbsFs} (hI : VolInv s gh) (hA : Abs s gh a)
    (hs : s.files = []) (hF : FreshOn s t) (idx : Nat) (w : FatVolume)
    (hm : mountPure (t.dev.disk.get 0) idx t.dev.disk.get = .ok w) (hsg : SameGeom gh.vol w)
    {path : List (List Nat)} {sfns : List Bytes} {fname : List Nat} {fs : Bytes} {x j : Nat} {m : Meta} {bytes : Bytes} (n : Nat)
    (hps : ParsesTo path sfns) (hp : pathDir a.slots 0 sfns = some x)
    (hfs : Sfn.createFromStr fname = .ok fs) (hlk : lookup (a.slots x) fs = some j)
    (hsl : (a.slots x)[j]? = some (.file m bytes))
    (hn : t.nextId + path.length + 3 < 4294967296) (hmd : path.length + 1 ≤ t.maxDirs) (hmf : 1 ≤ t.maxFiles) :
    ∃ es, (run t (.openVolume idx :: readerOps t.nextId (t.nextId + 1) path fname n)).2.map (·.result) =
        .ok (.handle t.nextId) :: (handlesFrom (t.nextId + 1) (path.length + 2) ++
          [.ok (.num m.size), .ok (.bytes (bytes.take n)), .ok (.entries es)]) ∧
      es.map view = listing (a.slots x) ∧ m ∈ es.map view :=
  Lemmas.AbsFs.fresh_reader hI hA hs hF idx w hm hsg n hps hp hfs hlk hsl hn hmd hmf

/-- The handles a run of successful opens hands out. -/
theorem handlesFrom_def (k len : Nat) : handlesFrom k len = (List.range len).map fun i => .ok (.handle (k + i)) := rfl

/-! ### 3. The independent reader -/

/-- **The independent reader agrees.**  `Spec.Fs` is the executable reference reader (it shares no code with the
model).  For a state without open files, its abstract tree `a`, and any file slot `(h, j)` of it: the reader's
directory walk of directory `h` (`refOf`: the fixed root, or the chain of the directory's first cluster) succeeds,
has at index `j` before the end marker a slot with the name, attribute byte and size of the abstract entry, and
`Fs.chain` of its first cluster (none for an empty file) followed by `Fs.fileBytes` returns the slot's bytes.
(H1) `NoOne`: as in `Props.C03Inv.fsck_ok`. -/
theorem independent_reader_agrees {s : Mgr} {gh : Ghost} {a : AbsFs} (hI : VolInv s gh) (hA : Abs s gh a) (hs : s.files = [])
    (g : Fs.Geom) (hg : GeomOf gh.vol g) (h1 : NoOne gh.vol s.dev.disk) {h j : Nat} {m : Meta} {bytes : Bytes}
    (hh : h ∈ a.ids) (hsl : (a.slots h)[j]? = some (.file m bytes)) :
    ∃ ss dcs sl cs, Fs.dirSlots g s.dev.disk (Lemmas.VolFsck.refOf gh.vol h) = .ok (ss, dcs) ∧
      (ss.takeWhile fun x => decide (Fs.firstByte x ≠ 0))[j]? = some sl ∧
      Fs.nameOf sl = m.name ∧ Fs.attrOf sl = m.attr ∧ Fs.sizeOf sl = m.size ∧
      ((Fs.clusterOf g sl = 0 ∧ cs = []) ∨ Fs.chain g s.dev.disk (Fs.clusterOf g sl) = .ok cs) ∧
      Fs.fileBytes g s.dev.disk cs (Fs.sizeOf sl) = bytes :=
  Lemmas.AbsFs.independent_reader_agrees hI hA hs g hg h1 hh hsl

/-- The reader's name for the root directory is the checker's. -/
theorem root_ref {v : FatVolume} {g : Fs.Geom} (hg : GeomOf v g) : Fs.rootRef g = Lemmas.VolFsck.refOf v 0 :=
  Lemmas.VolFsck.rootRef_eq hg

/-! ### Non-vacuity (tests, evaluated by the kernel) -/

namespace Example
open Sdmmc.Lemmas.VolExample Sdmmc.Props.C01Fs.Example

/-! #### On `VolExample.mgr1`: a history with a moving clock

The quiescent FAT16 medium of `Props.C03Inv` / `Props.C01Fs` (handles 2 and 3: the open root / `SUB`; new handles
start at 10).  The clock reads 01:01:01 when `N.TXT` is created (it takes the deleted slot 3 of the root), 02:02:03
when 600 bytes are written, 03:03:05 at the flush, 04:04:07 at the close. -/

def c1 : Timestamp := ⟨55, 0, 0, 1, 1, 1⟩
def c2 : Timestamp := ⟨55, 0, 0, 2, 2, 3⟩
def c3 : Timestamp := ⟨55, 0, 0, 3, 3, 5⟩
def c4 : Timestamp := ⟨55, 0, 0, 4, 4, 7⟩
def nN : List Nat := [78, 46, 84, 88, 84]
def esN : List CEv :=
  [.tick c1, .call (.openFile 2 nN .ReadWriteCreate), .tick c2, .call (.write 10 (List.replicate 600 7)), .tick c3,
   .call (.flush 10), .call (.find 2 nN), .tick c4, .call (.closeFile 10), .call (.find 2 nN),
   .call (.find 2 [65, 46, 84, 88, 84])]

/-- The hypotheses of `history_ghost` hold of `mgr1` and this history. -/
theorem esN_ok : mgr1.files = [] ∧ NoOpenVolume esN := ⟨rfl, trivial⟩

/-- `history_ghost` applies: invariant, abstraction, well-formedness and the ghost of every slot after the history. -/
theorem esN_ghost : ∃ gh' a, VolInv (runClk mgr1 esN).1 gh' ∧ Abs (runClk mgr1 esN).1 gh' a ∧
    absRunClk a1 (runClk mgr1 esN).2 a ∧ AInv a ∧
    ∀ x j, x ∈ a1.ids → ∃ g', ghostRun x j a1 (ghost0 a1 x j) (runClk mgr1 esN).2 a g' ∧ GInv a x j g' := by
  obtain ⟨gh', a, h1, _, h3, h4, _, h6, h7⟩ := history_ghost esN mgr1_inv a1_abs esN_ok.1 esN_ok.2
  exact ⟨gh', a, h1, h3, h4, h6, fun x j hx => let ⟨g', hg, hG, _⟩ := h7 x j hx; ⟨g', hg, hG⟩⟩

/-- What a call answered, in short: for an entry its size, the hours and seconds of its creation and modification
times, its attribute byte. -/
def shortEv : Ev → List Nat
  | .tick _ => []
  | .call _ (.ok (.entry e)) => [e.size, e.ctime.hours, e.ctime.seconds, e.mtime.hours, e.mtime.seconds, e.attributes]
  | .call _ (.ok (.handle h)) => [h]
  | .call _ (.ok _) => [1]
  | .call _ _ => [0]

/-- **Evaluated**: after the flush (and again after the close) the entry of `N.TXT` shows size 600, creation time
01:01:00 (`fatRound` of the clock at the create), modification time 02:02:02 — `fatRound` of the clock at the WRITE,
neither the clock at the flush (03:03:05) nor at the close (04:04:07) —, the archive bit; the untouched `A.TXT`
still shows 700 bytes and its old time stamps. -/
theorem mtime_is_write_clock_not_flush_clock : (runClk mgr1 esN).2.map shortEv =
    [[], [10], [], [1], [], [1], [600, 1, 0, 2, 2, 32], [], [1], [600, 1, 0, 2, 2, 32], [700, 0, 0, 0, 0, 32]] := by
  decide +kernel

example : fatRound c1 = ⟨55, 0, 0, 1, 1, 0⟩ ∧ fatRound c2 = ⟨55, 0, 0, 2, 2, 2⟩ ∧ fatRound (fatRound c2) = fatRound c2 := by
  decide +kernel

/-- The start state is well formed (`quiescent_well_formed` applies), and its ghost for the slot of `A.TXT` (root,
slot 2) records the stored creation time, name and attribute byte. -/
example : AInv a1 := quiescent_well_formed mgr1_inv a1_abs rfl
example : (ghost0 a1 0 2).born.map (fun p => (p.2.1, p.2.2)) = some (nA, 32) ∧ (ghost0 a1 0 3).born = none := by
  decide +kernel

/-! #### A medium that mounts: history, fresh manager, reader

The smallest FAT16 volume in partition 0 of a medium (`Props.C02Reopen.Example`), after its file `A.TXT` (600 bytes:
512 × AA, 88 × BB) was closed: `q0`, no open file, the root directory still open (handle 5).  History: the clock
moves, `A.TXT` is opened for appending, the clock moves, three bytes are written, the clock moves, the file is
closed.  Then a manager made from nothing on that medium mounts and reads. -/

open Sdmmc.Props.C02Reopen.Example Sdmmc.Props.C09Hist.Example

def q0 : Mgr := (step mgr (.closeFile 7)).1
theorem q0_inv : VolInv q0 ghA := Lemmas.VolCheck.checkVolInv_sound q0 ghA (by decide +kernel)

def k2 : Timestamp := ⟨55, 8, 1, 12, 0, 2⟩
def k3 : Timestamp := ⟨55, 8, 1, 12, 7, 3⟩
def k4 : Timestamp := ⟨55, 8, 1, 12, 9, 9⟩
def esA : List CEv :=
  [.tick k2, .call (.openFile 5 nameStr .ReadWriteAppend), .tick k3, .call (.write 8 [1, 2, 3]), .tick k4, .call (.closeFile 8)]

/-- The writer's final state. -/
def q1 : Mgr := (runClk q0 esA).1

theorem q1_quiescent : q0.files = [] ∧ q1.files = [] ∧ NoOpenVolume esA := by
  refine ⟨?_, ?_, trivial⟩ <;> decide +kernel

/-- `history_ghost` applies to the writer's history. -/
example : ∃ gh' a, VolInv q1 gh' ∧ Abs q1 gh' a ∧ AInv a :=
  let ⟨gh', a, h1, _, h3, _, _, h6, _⟩ := history_ghost esA q0_inv (Lemmas.AbsFs.abs_absOf0 q1_quiescent.1) q1_quiescent.1
    q1_quiescent.2.2
  ⟨gh', a, h1, h3, h6⟩

/-- The medium the writer leaves, written out: the root directory block with the new entry (size 603, modification
time `fatRound k3`), the last cluster with the three bytes behind the 88 old ones. -/
def entryQ : DirEntry :=
  { name := nameA, mtime := fatRound k3, ctime := t0, attributes := 0x20, cluster := 2, size := 603, entryBlock := 18, entryOffset := 0 }
def dirBlkQ : Block := entryQ.serialize .fat16 ++ zeros 480
def blkBQ : Block := List.replicate 88 0xBB ++ [1, 2, 3] ++ List.replicate 421 0xBB
def diskQ : Disk := (((((Disk.empty.set 0 mbrBlk).set 1 bpbBlk).set 2 fatBlk).set 18 dirBlkQ).set 19 blkA).set 20 blkBQ

/-- **Evaluated**: that IS the writer's medium, block for block. -/
theorem writer_medium : q1.dev.disk.m.toList = diskQ.m.toList := by decide +kernel

/-- The writer's final state with its medium written out (same tables: the volume, the open root directory). -/
def sQ : Mgr :=
  { dev := { disk := diskQ }, nextId := 9, vols := [vinfo], dirs := mgr.dirs, files := [], maxVols := 1, maxDirs := 4,
    maxFiles := 4, clock := k4 }

/-- Its invariant, with an explicit ghost (the same chains: the three bytes fit the last cluster), by the decidable check. -/
theorem sQ_inv : VolInv sQ ghA := Lemmas.VolCheck.checkVolInv_sound sQ ghA (by decide +kernel)

/-- Its abstract tree, as a function. -/
def aQ : AbsFs := Lemmas.AbsFs.absOf0 sQ ghA
theorem aQ_abs : Abs sQ ghA aQ := Lemmas.AbsFs.abs_absOf0 rfl

/-- The file slot of the root directory: entry and bytes. -/
def detail : Spec.AbsFs.Slot → Option (Meta × Bytes)
  | .file m b => some (m, b)
  | _ => none

def mQ : Meta := ⟨nameA, 0x20, t0, fatRound k3, 603⟩
def bQ : Bytes := B ++ [1, 2, 3]

theorem aQ_slot : (aQ.slots 0)[0]? = some (.file mQ bQ) := by
  have h : ((aQ.slots 0)[0]?).bind detail = some (mQ, bQ) := by decide +kernel
  cases hs : (aQ.slots 0)[0]? with
  | none => rw [hs] at h; cases h
  | some sl =>
    rw [hs] at h
    cases sl with
    | file m b =>
      have h' : some (m, b) = some (mQ, bQ) := h
      injection h' with h'
      injection h' with e1 e2
      rw [e1, e2]
    | deleted => cases h
    | frag r => cases h
    | dir m t => cases h

/-- A manager made from nothing on the writer's medium: handle generator at 100, room for one directory and one file. -/
def freshQ : Mgr := { dev := { disk := diskQ }, nextId := 100, maxVols := 1, maxDirs := 1, maxFiles := 1 }

theorem fresh_on : FreshOn sQ freshQ :=
  ⟨rfl, rfl, (fun _ h => by cases h), rfl, rfl, rfl, rfl, rfl⟩

theorem fresh_mounts : mountPure (freshQ.dev.disk.get 0) 0 freshQ.dev.disk.get = .ok vol0 := by decide +kernel

/-- **`fresh_mount_shows_flushed` applies**: the fresh manager's `open_volume`, `open_root_dir`,
`open_file_in_dir "A.TXT" ReadOnly`, `file_length`, `read 1000`, `iterate_dir` answer the handles 100, 101, 102, the
length 603, the 603 bytes, and a listing that shows the entry with creation time `t0` (unchanged) and modification
time `fatRound k3` — the clock at the write. -/
theorem fresh_reads : ∃ es, (run freshQ (.openVolume 0 :: readerOps 100 101 [] nameStr 1000)).2.map (·.result) =
      [.ok (.handle 100), .ok (.handle 101), .ok (.handle 102), .ok (.num 603), .ok (.bytes bQ), .ok (.entries es)] ∧
    mQ ∈ es.map Spec.AbsFs.view := by
  obtain ⟨es, h1, _, h3⟩ := fresh_mount_shows_flushed (path := []) (sfns := []) (fname := nameStr) (fs := nameA) (x := 0) (j := 0)
    (m := mQ) (bytes := bQ) sQ_inv aQ_abs rfl fresh_on 0 vol0 fresh_mounts
    (show SameGeom vol vol0 from ⟨_, _, rfl⟩) 1000 trivial rfl (by decide) (by decide +kernel) aQ_slot (by decide) (by decide) (by decide)
  refine ⟨es, ?_, h3⟩
  have h1' : (run freshQ (.openVolume 0 :: readerOps 100 101 [] nameStr 1000)).2.map (·.result) = _ := h1
  rw [h1']
  have : bQ.take 1000 = bQ := by decide +kernel
  rw [this]
  rfl

/-- … and so the engine does, run (the listing's one entry: size, hours / minutes / seconds of the modification time). -/
theorem fresh_reads_evaluated :
    (run freshQ (.openVolume 0 :: readerOps 100 101 [] nameStr 1000)).2.map (fun o => match o.result with
      | .ok (.handle h) => [h]
      | .ok (.num n) => [n]
      | .ok (.bytes b) => [b.length]
      | .ok (.entries es) => es.flatMap fun e => [e.size, e.mtime.hours, e.mtime.minutes, e.mtime.seconds]
      | _ => []) = [[100], [101], [102], [603], [603], [603, 12, 7, 2]] := by decide +kernel

/-- **The independent reader on the same medium** (`independent_reader_agrees` applies: FAT16, so (H1) is void): the
entry at index 0 of the root directory and the 603 bytes. -/
example : ∃ ss dcs sl cs, Fs.dirSlots (geomOfVol vol) diskQ (Lemmas.VolFsck.refOf vol 0) = .ok (ss, dcs) ∧
    (ss.takeWhile fun x => decide (Fs.firstByte x ≠ 0))[0]? = some sl ∧ Fs.nameOf sl = nameA ∧ Fs.sizeOf sl = 603 ∧
    Fs.fileBytes (geomOfVol vol) diskQ cs (Fs.sizeOf sl) = bQ := by
  obtain ⟨ss, dcs, sl, cs, h1, h2, h3, _, h5, _, h7⟩ := independent_reader_agrees sQ_inv aQ_abs rfl
    (geomOfVol vol) (Lemmas.VolFsck.geomOf_geomOfVol vol) (fun h => by cases h) (h := 0) (j := 0)
    (by show (0 : Nat) ∈ dirIds ghA.dirs; exact List.mem_cons_self) aQ_slot
  exact ⟨ss, dcs, sl, cs, h1, h2, h3, h5, h7⟩

end Example

end Sdmmc.Props.C02Fs
