/-
C04 — Every device write stays inside the volume and inside what the call may change.

Property theorems only; helper lemmas live in `Sdmmc.Lemmas.FatLens` (arithmetic of regions)
and `Sdmmc.Lemmas.FatOps` (which blocks each primitive writes, and with what).
What is proved: under the geometry hypothesis `WFGeom` (established by mounting, C15), the
block of every FAT entry of a cluster of the volume lies in the FAT region, every block of a
data cluster lies in the data region, these never coincide with the boot sector, the info
sector, block 0 or anything outside the partition; each primitive writes only the blocks it
names; a partial-block file write preserves every byte outside the written range; a
directory-slot write preserves every other slot.  Not proved: the composition over whole API
calls (needs the chain invariant of C03 to know that every cluster the calls touch is in
range); the `region` oracle of the correspondence run checks every write of every call.
-/
import Sdmmc.Lemmas.FatLens
import Sdmmc.Lemmas.FatOps

namespace Sdmmc.Props.C04
open Sdmmc.Model Sdmmc.Model.Fat Sdmmc.Spec

def NoFault (s : FS) : Prop := s.dev.faults = []
def Coherent (s : FS) : Prop := ∀ i, s.cache.tag = some i → s.cache.blk = s.dev.disk.get i

/-- FAT entries of the volume's clusters live in the FAT region (both copies). -/
theorem fat_blocks_in_fat_region (v : FatVolume) (hg : WFGeom v) (c : Nat) (hc : c < endCluster v) :
    regionOf v (fatBlock v c) = .fat ∧ ∀ b2, fatBlock2 v c = some b2 → regionOf v b2 = .fat :=
  Lemmas.FatLens.fat_blocks_in_fat_region v hg c hc

/-- Blocks of data clusters live in the data region: inside the partition, not the boot sector,
not block 0, not the info sector, not a FAT, not the FAT16 root, not beyond the last cluster. -/
theorem cluster_blocks_in_data_region (v : FatVolume) (hg : WFGeom v) (c j : Nat) (hc2 : 2 ≤ c)
    (hc : c < endCluster v) (hj : j < v.blocksPerCluster) :
    regionOf v (clusterToBlock v c + j) = .data :=
  Lemmas.FatLens.cluster_blocks_in_data_region v hg c j hc2 hc hj

/-- Distinct clusters have disjoint blocks.  The clusters must be ordinary ones: the reserved id
`CLUSTER_ROOT_DIR` is an alias (`clusterToBlock` maps it to the FAT32 root's first cluster / the
FAT16 fixed root), so without `hr`/`hr'` the statement is false — e.g. on FAT32
`clusterToBlock v CLUSTER_ROOT_DIR = clusterToBlock v v.firstRootDirCluster`.  Every cluster below
`endCluster v` satisfies the hypothesis (`Lemmas.FatLens.lt_end_ne_root`). -/
theorem cluster_blocks_disjoint (v : FatVolume) (hg : WFGeom v) (c c' j j' : Nat) (hc2 : 2 ≤ c) (hc2' : 2 ≤ c')
    (hr : c ≠ Gen.CLUSTER_ROOT_DIR) (hr' : c' ≠ Gen.CLUSTER_ROOT_DIR)
    (hj : j < v.blocksPerCluster) (hj' : j' < v.blocksPerCluster)
    (h : clusterToBlock v c + j = clusterToBlock v c' + j') : c = c' ∧ j = j' :=
  Lemmas.FatLens.cluster_blocks_disjoint v hg c c' j j' hc2 hc2' hr hr' hj hj' h

/-- The regions are what they say: a block classified `fat`, `root`, `data` or `info` is inside the
partition and is neither block 0 … nor the boot sector. -/
theorem region_inside_partition (v : FatVolume) (idx : Nat) (h : regionOf v idx ∈ [Region.fat, .root, .data, .info]) :
    v.lbaStart < idx ∧ idx < v.lbaStart + v.numBlocks :=
  Lemmas.FatLens.region_inside_partition v idx h

/-- The FAT16 root directory blocks are in the root region. -/
theorem root_blocks_in_root_region (v : FatVolume) (hg : WFGeom v) (h16 : v.fatType = .fat16) (i : Nat)
    (hi : i < blockCountFromBytes (v.rootEntriesCount * Gen.DIRENT_LEN)) :
    regionOf v (v.lbaStart + v.firstRootDirBlock + i) = .root :=
  Lemmas.FatLens.root_blocks_in_root_region v hg h16 i hi

/-- The info sector is the info region. -/
theorem info_block_in_info_region (v : FatVolume) (hg : WFGeom v) (h32 : v.fatType = .fat32) (hn : v.fatStart ≤ v.numBlocks) :
    regionOf v v.infoLocation = .info :=
  Lemmas.FatLens.info_block_in_info_region v hg h32 hn

/-- `splice` (the model of `block[a..b].copy_from_slice(..)`) changes exactly the written range. -/
theorem splice_frame (b src : Bytes) (off i : Nat) (h : off + src.length ≤ b.length) :
    (splice b off src).length = b.length ∧
    (i < off ∨ off + src.length ≤ i → (splice b off src).getD i 0 = b.getD i 0) ∧
    (off ≤ i → i < off + src.length → (splice b off src).getD i 0 = src.getD (i - off) 0) :=
  Lemmas.FatLens.splice_frame b src off i h

/-- Zeroing a cluster writes exactly its blocks, in order, all zero, and nothing else. -/
theorem zeroBlocks_writes (s : FS) (n first : Nat) (hn : NoFault s) (hc : Coherent s) :
    (zeroBlocks n first s).1 = .ok () ∧
    (zeroBlocks n first s).2.dev.wlog = ((List.range n).map fun i => (first + i, zeroBlock)).reverse ++ s.dev.wlog ∧
    NoFault (zeroBlocks n first s).2 ∧ Coherent (zeroBlocks n first s).2 ∧ (zeroBlocks n first s).2.vol = s.vol :=
  Lemmas.FatOps.zeroBlocks_writes s n first hn hc

/-- Writing a directory entry writes one block — the entry's — and changes only the 32 bytes of
its slot. -/
theorem writeEntryToDisk_writes (s : FS) (e : DirEntry) (hn : NoFault s) (hc : Coherent s)
    (hl : (s.dev.disk.get e.entryBlock).length = 512) (ho : e.entryOffset + 32 ≤ 512) (hname : e.name.length = 11) :
    let s' := (writeEntryToDisk e s).2
    (writeEntryToDisk e s).1 = .ok () ∧ Coherent s' ∧ NoFault s' ∧ s'.vol = s.vol ∧
    ∃ p, s'.dev.wlog = (e.entryBlock, p) :: s.dev.wlog ∧ s'.dev.disk = s.dev.disk.set e.entryBlock p ∧ p.length = 512 ∧
      (∀ i, i < e.entryOffset ∨ e.entryOffset + 32 ≤ i → p.getD i 0 = (s.dev.disk.get e.entryBlock).getD i 0) ∧
      slice p e.entryOffset 32 = e.serialize s.vol.fatType :=
  Lemmas.FatOps.writeEntryToDisk_writes s e hn hc hl ho hname

end Sdmmc.Props.C04
