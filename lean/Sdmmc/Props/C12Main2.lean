/-
C12 — headline theorem, second version: sessions WITH `mark_card_uninit`, from ARBITRARY card
memory, run with the session runner that continues after errors.

Property C12, `statement` (verbatim):
  "For every supported card kind (version 1 and version 2 standard capacity, high capacity), with
  data CRC enabled or disabled, a block read returns the 512 bytes the card stores at that block
  number, a block write stores exactly the given bytes at that block number and nowhere else, and
  a multi-block transfer is equivalent to the same single-block transfers in order. The reported
  capacity in blocks and bytes equals the capacity encoded in the card's specific-data register
  for its register layout, and the card kind is identified correctly."
`quantifier.text` (verbatim):
  "all card kinds x CRC on/off x capacities, all block numbers and transfer lengths (1..n
  blocks), all payloads, and all legal card timings (response delay 0-8 bytes, data-token delay,
  busy periods of any length below the driver's timeouts), over any sequence of reads and writes"

`C12_main` supersedes `C12Main.C12_main_partial` on its gaps (a) and the "empty memory" start:

* the session runner is `Spec.SdSession.runCallsA` (`Spec/SdSessionAns.lean`): every call is made
  whatever the previous one returned; the answers are `List (SRes Answer)`;
* a session is ANY list of `Legal` calls (`Props/C12Session.lean`) INTERLEAVED WITH
  `mark_card_uninit` AT ARBITRARY POINTS (`LegalU`): after each `mark_card_uninit` the next call
  re-identifies the card — also a card that is still signalling busy (CMD0 is sent without waiting
  and ends the busy state: `Lemmas.MainK12.acquire_correct_busy`);
* the card starts with ARBITRARY memory contents: `StartCard` — a conforming card (`Spec.Card`)
  between commands, every block 512 bytes long — freshly powered OR left by an earlier session, in
  any protocol state (idle / initialised / CRC mode / busy);
* the oracle is the abstract device `absRun kind csd st₀` (`Props/C12Session.lean`; `absCall_*` in
  `Props/C12Main.lean`) started from the card's own memory `st₀ = getBlock s.bus`: every read
  returns what the card stores, every write stores exactly the blocks and nothing else, capacity
  and kind are the register's and the card's, `mark_card_uninit` answers `()`.

Clauses: `answers` (the whole session), `every_step` (after every prefix), `multi_eq_singles`
(every multi-block call replaced by the single-block calls in order: same blocks read, same
capacity / kind answers, same memory afterwards), all with no violation recorded by the card.

Standing hypotheses (discharged in the example): conforming card `StartCard`; fresh driver
(`cardType = none`; both CRC modes, any `acquire_retries`); Legal card timing (`ncr`, `initPolls ≤
DEFAULT_COMMAND_RETRIES`, `nac ≤ DEFAULT_READ_RETRIES`, `busy ≤ DEFAULT_WRITE_RETRIES`, `stopGap ≤ 1`);
every call `LegalU`; and the busy hypothesis (b).

(b) THE BUSY HYPOTHESIS, precisely: `busy ≤ DEFAULT_COMMAND_RETRIES ∨ MultiReadsLastU calls` —
every multi-block read is the last call or is directly followed by `mark_card_uninit` (weaker than
`C12Main`'s `MultiReadsLast`: re-identification copes with any busy time).  It is an artefact of
`Spec.Card` having ONE parameter `busy` for the programming time (waited for with the write
budget, 50000) AND for the R1b busy signal after CMD12 (which the driver does not wait for; the
next command meets it with the command budget, 10000).  `Spec/Card2.lean` separates the two
(`progBusy`, `stopBusy`) without touching `Spec/Card.lean`; it IS `Spec.Card` when both are equal
(`card2_is_card`).  The hypothesis is NECESSARY on `Spec.Card` — `busy_hypothesis_necessary`: on
every conforming card with `busy > DEFAULT_COMMAND_RETRIES` a multi-block read succeeds and the
single-block read after it returns `TimeoutWaitNotBusy` — and it is only about that one parameter:
evaluated below (`Example.busy_hypothesis_evaluated`), `busy = 10001`: with `mark_card_uninit`
between the two reads both succeed; on `Card2` with `progBusy = 10001`, `stopBusy = 3` both succeed.  The session theorem itself is NOT re-proved for `Card2` (that would mean
redoing the card-simulation lemmas `Lemmas/SdCardSim2*.lean` for a second card): for a card whose
R1b busy time fits the command budget the first alternative of the hypothesis holds anyway.

(c) (d) (e) THE REGISTER CONDITIONS in `Legal .numBlocks` / `Legal .numBytes` are NECESSARY —
properties of the register format, not gaps of the proof (`register_conditions_necessary`):
(c) `READ_BL_LEN < 9`: the byte capacity is not a multiple of 512 (register with `READ_BL_LEN = 6`:
256 bytes, 0 blocks); (d) version-2 `C_SIZE = 0x3FFFFF`: `(C_SIZE+1)·1024 = 2^32` blocks does not
fit the driver's `u32` (it answers `2^32 − 1`); (e) a version-1 CARD with a version-2 register:
the driver picks the layout by card kind for SD1 (256 instead of 4096 blocks for `csdV2 3`).

Full / partial: FULL up to (b), which is stated, explained and evaluated above.
-/
import Sdmmc.Lemmas.MainK12Glue
import Sdmmc.Lemmas.MainK12Card2
import Sdmmc.Lemmas.MainK12Busy
import Sdmmc.Props.C12Main

namespace Sdmmc.Props.C12Main2
open Sdmmc.Model Sdmmc.Model.Sd Sdmmc.Gen Sdmmc.Spec.SdSession
open Sdmmc.Spec.Card (Card Card2 Kind getBlock zeros512 capacityOfCsd)
open Sdmmc.Props.C12 (cardBus)
open Sdmmc.Props.C12Session
open Sdmmc.Lemmas.MainK12 (StartCard)

/-- A call of the sessions covered: `mark_card_uninit`, or a `Legal` call. -/
def LegalU (kind : Kind) (csd : List UInt8) (c : Call) : Prop := c = .markUninit ∨ Legal kind csd c

/-- Every multi-block read is the last call of the session or is directly followed by `mark_card_uninit`. -/
def MultiReadsLastU : List Call → Prop
  | [] => True
  | c :: cs => (isMultiRead c = true → cs = [] ∨ ∃ cs', cs = .markUninit :: cs') ∧ MultiReadsLastU cs

theorem startCard_def (c : Card) : StartCard c ↔
    (c.cmdBuf = [] ∧ c.phase = .ready ∧ c.streaming = none ∧ c.out = [] ∧ c.capacity = capacityOfCsd c.csd ∧
      c.violations = [] ∧ ∀ j, (getBlock c j).length = 512) :=
  ⟨fun h => ⟨h.1, h.2, h.3, h.4, h.5, h.6, h.7⟩, fun ⟨a, b, c, d, e, f, g⟩ => ⟨a, b, c, d, e, f, g⟩⟩

theorem legalU_iff (kind : Kind) (csd : List UInt8) (c : Call) :
    LegalU kind csd c ↔ Lemmas.MainK12.LegalU kind csd c := by
  unfold LegalU Lemmas.MainK12.LegalU
  rw [Lemmas.MainK12.legal_iff]

theorem multiReadsLastU_iff (calls : List Call) : MultiReadsLastU calls ↔ Lemmas.MainK12.MultiReadsLastU calls := by
  induction calls with
  | nil => exact Iff.rfl
  | cons c cs ih => simp only [MultiReadsLastU, Lemmas.MainK12.MultiReadsLastU, Lemmas.MainK12.isMultiRead_eq, ih]

/-- What one session satisfies. -/
def Correct (s : St Card) (calls : List Call) : Prop :=
  ∃ s', runCallsA cardBus calls s = ((absRun s.bus.kind s.bus.csd (getBlock s.bus) calls).1.map SRes.ok, s') ∧
    (∀ j, getBlock s'.bus j = (absRun s.bus.kind s.bus.csd (getBlock s.bus) calls).2 j) ∧
    s'.bus.violations = [] ∧ s'.useCrc = s.useCrc

structure Clauses (s : St Card) (calls : List Call) : Prop where
  /-- every call answers `Ok` with the abstract device's answer; afterwards the card's memory is
  the abstract store; no violation; CRC mode as configured -/
  answers : Correct s calls
  /-- … and so after every prefix of the session -/
  every_step : ∀ k, Correct s (calls.take k)
  /-- a multi-block transfer is equivalent to the same single-block transfers in order -/
  multi_eq_singles : Correct s (expandAll calls) ∧
    blocksOf (absRun s.bus.kind s.bus.csd (getBlock s.bus) calls).1 =
      blocksOf (absRun s.bus.kind s.bus.csd (getBlock s.bus) (expandAll calls)).1 ∧
    infoOf (absRun s.bus.kind s.bus.csd (getBlock s.bus) calls).1 =
      infoOf (absRun s.bus.kind s.bus.csd (getBlock s.bus) (expandAll calls)).1 ∧
    (absRun s.bus.kind s.bus.csd (getBlock s.bus) calls).2 =
      (absRun s.bus.kind s.bus.csd (getBlock s.bus) (expandAll calls)).2

theorem correct_of (s : St Card) (hS : StartCard s.bus) (hct : s.cardType = none)
    (hncr : s.bus.ncr ≤ DEFAULT_COMMAND_RETRIES) (hnac : s.bus.nac ≤ DEFAULT_READ_RETRIES)
    (hbusy : s.bus.busy ≤ DEFAULT_WRITE_RETRIES) (hpolls : s.bus.initPolls ≤ DEFAULT_COMMAND_RETRIES)
    (hgap : s.bus.stopGap ≤ 1) (calls : List Call) (hleg : ∀ c ∈ calls, Lemmas.MainK12.LegalU s.bus.kind s.bus.csd c)
    (hbr : s.bus.busy ≤ DEFAULT_COMMAND_RETRIES ∨ Lemmas.MainK12.MultiReadsLastU calls) : Correct s calls := by
  obtain ⟨s', h, hm, hv, hu⟩ := Lemmas.MainK12.session_from_start s hS hct hncr hnac hbusy hpolls hgap calls hleg hbr
  unfold Correct
  rw [Lemmas.MainK12.absRun_eq]
  exact ⟨s', h, hm, hv, hu⟩

theorem C12_main (s : St Card) (hS : StartCard s.bus) (hct : s.cardType = none)
    (hncr : s.bus.ncr ≤ DEFAULT_COMMAND_RETRIES) (hnac : s.bus.nac ≤ DEFAULT_READ_RETRIES)
    (hbusy : s.bus.busy ≤ DEFAULT_WRITE_RETRIES) (hpolls : s.bus.initPolls ≤ DEFAULT_COMMAND_RETRIES)
    (hgap : s.bus.stopGap ≤ 1) (calls : List Call) (hlegal : ∀ c ∈ calls, LegalU s.bus.kind s.bus.csd c)
    (hbr : s.bus.busy ≤ DEFAULT_COMMAND_RETRIES ∨ MultiReadsLastU calls) : Clauses s calls := by
  have hleg : ∀ c ∈ calls, Lemmas.MainK12.LegalU s.bus.kind s.bus.csd c := fun c hc => (legalU_iff ..).1 (hlegal c hc)
  have hbr' : s.bus.busy ≤ DEFAULT_COMMAND_RETRIES ∨ Lemmas.MainK12.MultiReadsLastU calls :=
    hbr.imp id (multiReadsLastU_iff calls).1
  refine ⟨correct_of s hS hct hncr hnac hbusy hpolls hgap calls hleg hbr', fun k => ?_, ?_, ?_⟩
  · exact correct_of s hS hct hncr hnac hbusy hpolls hgap (calls.take k)
      (fun c hc => hleg c (List.mem_of_mem_take hc)) (hbr'.imp id (Lemmas.MainK12.multiReadsLastU_take calls k))
  · rw [Lemmas.MainK12.expandAll_eq]
    have hx := Lemmas.MainK12.legalU_expandAll s.bus.kind s.bus.csd calls hleg
    exact correct_of s hS hct hncr hnac hbusy hpolls hgap _ (fun c hc => (hx c hc).1)
      (Or.inr (Lemmas.MainK12.multiReadsLastU_of_none _ fun c hc => (hx c hc).2))
  · obtain ⟨e1, e2, e3⟩ := Lemmas.SdSession.absRun_expandAll s.bus.kind s.bus.csd calls (getBlock s.bus)
    rw [Lemmas.MainK12.expandAll_eq, Lemmas.MainK12.absRun_eq, Lemmas.MainK12.absRun_eq]
    exact ⟨e2.symm, e3.symm, e1.symm⟩

/-! ### (b) the busy hypothesis -/

/-- `Spec.Card2` driven as an SPI bus. -/
def cardBus2 : BusOps Card2 where
  xfer := fun c out => let (c', ys) := Card2.run c out; (c', some ys)
  delay := id

/-- With both busy parameters equal, `Card2` is `Spec.Card`: same card afterwards, same bytes back. -/
theorem card2_is_card (c : Card2) (h1 : c.progBusy = c.card.busy) (h2 : c.stopBusy = c.card.busy) (xs : List UInt8) :
    (Card2.run c xs).1.card = (Spec.Card.run c.card xs).1 ∧ (Card2.run c xs).2 = (Spec.Card.run c.card xs).2 :=
  Lemmas.MainK12.card2_run_coincides xs c h1 h2

/-- **The busy hypothesis is necessary** on `Spec.Card`: an identified driver on a conforming card whose
`busy` exceeds the command budget — a multi-block read succeeds, returning the stored blocks, and the
single-block read that follows returns `TimeoutWaitNotBusy`. -/
theorem busy_hypothesis_necessary (s : St Card) (hS : C12EndToEnd.Settled s.bus)
    (hbl : s.bus.busyLeft ≤ DEFAULT_COMMAND_RETRIES) (hncr : s.bus.ncr ≤ DEFAULT_COMMAND_RETRIES)
    (hnac : s.bus.nac ≤ DEFAULT_READ_RETRIES) (n idx : Nat) (hn : n ≠ 1)
    (hadr : C12EndToEnd.Addressable s.cardType s.bus.kind idx) (hidx : idx < s.bus.capacity)
    (hcap : idx + n ≤ s.bus.capacity)
    (hlen : ∀ j, idx ≤ j → j ≤ idx + n → j < s.bus.capacity → (getBlock s.bus j).length = 512)
    (hslow : DEFAULT_COMMAND_RETRIES < s.bus.busy) (j : Nat) (hadrj : C12EndToEnd.Addressable s.cardType s.bus.kind j) :
    ∃ s1 s2, call cardBus (.read n idx) s = (.ok (.blocks ((List.range' idx n).map (getBlock s.bus))), s1) ∧
      call cardBus (.read 1 j) s1 = (.err .TimeoutWaitNotBusy, s2) :=
  Lemmas.MainK12.call_after_multi_read_times_out s hS hbl hncr hnac n idx hn hadr hidx hcap hlen hslow j hadrj

/-! ### (c) (d) (e) the register conditions are necessary -/

/-- A version-1 register with `READ_BL_LEN = 6`, `C_SIZE = 0`, `C_SIZE_MULT = 0`. -/
def csdBl6 : List UInt8 := (Spec.Card.csdV1 0 0).set 5 0x56

theorem register_conditions_necessary :
    -- (c) READ_BL_LEN < 9: 256 bytes, 0 whole blocks
    (byteAt csdBl6 0 / 64 = 0 ∧ byteAt csdBl6 5 % 16 = 6 ∧
      Csd.v1CapacityBytes csdBl6 = 256 ∧ 512 * capacityOfCsd csdBl6 = 0) ∧
    -- (d) version 2, C_SIZE = 0x3FFFFF: 2^32 blocks do not fit a u32
    (Csd.v2DeviceSize (Spec.Card.csdV2 0x3FFFFF) = 0x3FFFFF ∧
      Csd.v2CapacityBlocks (Spec.Card.csdV2 0x3FFFFF) = 4294967295 ∧
      capacityOfCsd (Spec.Card.csdV2 0x3FFFFF) = 4294967296) ∧
    -- (e) a version-2 register read with the version-1 formula (what the driver does for an SD1 card)
    (Csd.v1CapacityBlocks (Spec.Card.csdV2 3) = 256 ∧ capacityOfCsd (Spec.Card.csdV2 3) = 4096) := by
  refine ⟨⟨?_, ?_, ?_, ?_⟩, ⟨?_, ?_, ?_⟩, ⟨?_, ?_⟩⟩ <;> decide +kernel

namespace Example

def demoBlock (x : UInt8) : Bytes := List.replicate 512 x

/-- A session with `mark_card_uninit` in the middle and directly after a multi-block read. -/
def session : List Call :=
  [.write [demoBlock 1, demoBlock 2] 10, .markUninit, .read 2 10, .markUninit, .numBlocks, .read 1 11, .cardType]

/-- A high-capacity card (4096 blocks) whose memory is NOT empty (block 11 holds 0x77…), slow to
program (`busy = 20000`, above the command budget), in the protocol state an earlier session left
it in: initialised, CRC checking on. -/
def usedCard : Card :=
  { Spec.Card.mk .SDHC (Spec.Card.csdV2 3) 8 100 20000 1000 1 with
    mem := (∅ : Spec.Card.Mem).insert 11 (demoBlock 0x77), initialised := true, idle := false, spiMode := true, crcOn := true }

theorem usedCard_start : StartCard usedCard := by
  refine ⟨rfl, rfl, rfl, rfl, by decide +kernel, rfl, fun j => ?_⟩
  show ((((∅ : Spec.Card.Mem).insert 11 (demoBlock 0x77)).getD j zeros512)).length = 512
  rw [Std.TreeMap.getD_insert]
  split
  · exact List.length_replicate ..
  · rw [Std.TreeMap.getD_emptyc]; exact List.length_replicate ..

theorem session_legal : ∀ c ∈ session, LegalU .SDHC (Spec.Card.csdV2 3) c := by
  have hcap : capacityOfCsd (Spec.Card.csdV2 3) = 4096 := by decide
  have hb : ∀ x : UInt8, (demoBlock x).length = 512 := fun x => List.length_replicate ..
  intro c hc
  simp only [session, List.mem_cons, List.not_mem_nil, or_false] at hc
  rcases hc with rfl | rfl | rfl | rfl | rfl | rfl | rfl
  · refine Or.inr ⟨by omega, by simp only [List.length_cons, List.length_nil]; omega, by decide,
      by simp only [List.length_cons, List.length_nil]; decide, ?_⟩
    intro b hb'; simp only [List.mem_cons, List.not_mem_nil, or_false] at hb'
    rcases hb' with rfl | rfl <;> exact hb _
  · exact Or.inl rfl
  · exact Or.inr ⟨by omega, by omega, by decide, by decide⟩
  · exact Or.inl rfl
  · exact Or.inr ⟨by decide, (fun h => by cases h), (fun _ => by decide)⟩
  · exact Or.inr ⟨by omega, by omega, by decide, by decide⟩
  · exact Or.inr trivial

/-- All standing hypotheses discharged; `busy = 20000 > DEFAULT_COMMAND_RETRIES`, so the second
alternative of the busy hypothesis is used: the multi-block read is followed by `mark_card_uninit`. -/
example (s : St Card) (hbus : s.bus = usedCard) (hct : s.cardType = none) : Clauses s session := by
  have e : ∀ c ∈ session, LegalU s.bus.kind s.bus.csd c := by rw [hbus]; exact session_legal
  exact C12_main s (by rw [hbus]; exact usedCard_start) hct (by rw [hbus]; decide) (by rw [hbus]; decide)
    (by rw [hbus]; decide) (by rw [hbus]; decide) (by rw [hbus]; decide) session e
    (Or.inr ⟨(fun h => absurd h (by decide)), (fun h => absurd h (by decide)), (fun _ => Or.inr ⟨_, rfl⟩),
      (fun h => absurd h (by decide)), (fun h => absurd h (by decide)), (fun h => absurd h (by decide)),
      (fun h => absurd h (by decide)), trivial⟩)

def summary : Answer → List Nat
  | .blocks bs => bs.map fun b => (b.getD 0 0).toNat
  | .unit => [1000]
  | .num n => [2000, n]
  | .ctype _ => [3000]

/-- What the abstract device answers there (first byte of each block read): the blocks written are
read back after re-identification; block 11 was overwritten. -/
example : (absRun .SDHC (Spec.Card.csdV2 3) (getBlock usedCard) session).1.map summary =
    [[1000], [1000], [1, 2], [1000], [2000, 4096], [2], [3000]] := by
  decide +kernel

/-- (b), evaluated on `busy = 10001` (legal for writes, one above the command budget): with
`mark_card_uninit` between a multi-block read and the next read both succeed on `Spec.Card`; on `Card2`
with `progBusy = 10001`, `stopBusy = 3` both succeed without it.  (Without either, the second read
times out: `busy_hypothesis_necessary`.) -/
def slow : Card := Spec.Card.mk .SDHC (Spec.Card.csdV2 3) 1 1 10001 1

def outcome : SRes Answer → Nat
  | .ok (.blocks bs) => bs.length
  | .ok _ => 100
  | .err .TimeoutWaitNotBusy => 200
  | _ => 300

theorem busy_hypothesis_evaluated :
    (runCallsA cardBus [.read 2 0, .markUninit, .read 1 0] { bus := slow }).1.map outcome = [2, 100, 1] ∧
    (runCallsA cardBus2 [.read 2 0, .read 1 0] { bus := { card := slow, progBusy := 10001, stopBusy := 3 } }).1.map outcome =
      [2, 1] := by
  refine ⟨?_, ?_⟩ <;> decide +kernel

end Example

end Sdmmc.Props.C12Main2
