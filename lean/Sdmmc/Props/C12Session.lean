/-
C12 / C14, whole sessions — the driver model run against the specification card
`Sdmmc.Spec.Card` from power-up through ANY list of public calls.

C12 asks that reads return what the card stores and writes store exactly what was given "over
any sequence of reads and writes"; C14 that everything the driver puts on the bus is a legal
SPI-mode conversation.  Here both are judged by the specification card itself: the card's memory
is compared with an abstract block store after every call, and the card's own list of protocol
`violations` stays empty through the whole session.

Property theorems only; proofs in `Sdmmc.Lemmas.SdSession*` (on top of `SdCardSim2*`).

Hypotheses of `session_correct`, precisely.
* Card: freshly powered `Spec.Card.mk kind csd ncr nac busy initPolls gap`, any kind, any register.
* Timing: `ncr ≤ DEFAULT_COMMAND_RETRIES`, `initPolls ≤ DEFAULT_COMMAND_RETRIES`,
  `nac ≤ DEFAULT_READ_RETRIES`, `busy ≤ DEFAULT_WRITE_RETRIES`, `gap ≤ 1` (N_BR: bytes of 0xFF
  between the stop token of a multiple-block write and the busy signal), and
  `busy ≤ DEFAULT_COMMAND_RETRIES ∨ MultiReadsLast calls`: a multiple-block read leaves the card
  busy for `busy` bytes (CMD12 is answered R1b and the driver does not wait), and the next command
  waits with the command budget only — so either the card's busy time fits that budget, or no
  call follows a multiple-block read.  Excluded point, evaluated on the model: `busy = 10001`,
  session `[read 2 0, read 1 0]`: the second call returns `TimeoutWaitNotBusy` (`busy = 10000`: fine).
* Driver: `cardType = none`; any `useCrc`, any `acquireRetries`.
* Calls: every call `Legal`: block ranges inside the card and inside what the driver can address
  for the card's kind (`addrLimit`), 512-byte blocks; the capacity calls need a 16-byte register
  on which the driver's formulas are the specification's (as in `C12.numBlocks_matches_spec`);
  `markUninit` is not covered (it is not a bus operation; a session with it is a sequence of
  sessions, but re-identification of a card that is still busy is not proved).

Outside `Legal` (see `session_read_out_of_range` for reads; for writes evaluated on the model,
not proved, because what happens depends on the data):
* a single-block write at or beyond the capacity: the card answers CMD24 with "parameter error",
  the driver does not look at R1 and sends token, data and CRC to a card that is not receiving:
  every byte is judged on its own — "stray byte" violations — and any data bytes that look like a
  command frame are EXECUTED as commands when the card does not check CRC-7 (512 bytes
  `i ↦ 3 + i`: 435 violations, 20 commands executed; a block beginning with the six bytes of
  `frame 24 5`, 0xFF 0xFF 0xFE: the card ends up receiving a data block for block 5).  `write`
  returns `WriteError`.
* a multiple-block write running over the end of the card is now covered by a theorem
  (`session_write_out_of_range`): the blocks inside are stored, the first one outside gets the
  data response "write error", the driver still sends the stop sequence and returns `WriteError`;
  no violation, the session can go on.  (Before the second repair of the driver the error skipped
  the stop token: the card was left inside the multiple-block write, `phase = recvToken`, and the
  next command frame was a violation, "command frame while the card waits for a data token".)
-/
import Sdmmc.Props.C12EndToEnd
import Sdmmc.Lemmas.SdSessionRange

namespace Sdmmc.Props.C12Session
open Sdmmc.Model Sdmmc.Model.Sd Sdmmc.Gen
open Sdmmc.Spec.Card (Card Kind getBlock zeros512 capacityOfCsd)
open Sdmmc.Props.C12 (cardBus)
open Sdmmc.Props.C12EndToEnd (typeOfKind Settled)

/-! ## The abstract device -/

/-- The abstract block store: what every block number holds. -/
abbrev Store := Nat → Bytes

/-- The store after `blocks` were written to consecutive block numbers from `idx` on. -/
def writeStore (st : Store) (idx : Nat) (blocks : List Bytes) : Store :=
  fun j => if idx ≤ j ∧ j < idx + blocks.length then blocks.getD (j - idx) zeros512 else st j

/-- The abstract meaning of one call: its answer and the store afterwards.  `read n idx` returns
blocks `idx … idx+n-1`, `write blocks idx` overwrites `idx … idx+len-1`, the capacity calls return
the capacity encoded in the register, `card_type` the card's kind. -/
def absCall (kind : Kind) (csd : List UInt8) (st : Store) : Call → Answer × Store
  | .read n idx => (.blocks ((List.range' idx n).map st), st)
  | .write blocks idx => (.unit, writeStore st idx blocks)
  | .numBlocks => (.num (capacityOfCsd csd), st)
  | .numBytes => (.num (512 * capacityOfCsd csd), st)
  | .cardType => (.ctype (some (typeOfKind kind)), st)
  | .markUninit => (.unit, st)

/-- The abstract meaning of a list of calls: the answers in order, and the final store. -/
def absRun (kind : Kind) (csd : List UInt8) : Store → List Call → List Answer × Store
  | st, [] => ([], st)
  | st, c :: cs => ((absCall kind csd st c).1 :: (absRun kind csd (absCall kind csd st c).2 cs).1,
                    (absRun kind csd (absCall kind csd st c).2 cs).2)

/-- An empty card reads as zeros. -/
def emptyStore : Store := fun _ => zeros512

/-- The calls of a session through the driver, one after the other (stopping at the first failure). -/
def runSession {σ : Type} (B : BusOps σ) : List Call → S σ (List Answer)
  | [] => pure []
  | c :: cs => do
    let a ← call B c
    let as ← runSession B cs
    pure (a :: as)

/-! ## Which sessions -/

/-- How far the driver can address a card of the given kind: 2^32 blocks by block number
(high capacity), 2^32 bytes = 2^23 blocks by byte address (standard capacity). -/
def addrLimit : Kind → Nat
  | .SDHC => 4294967296
  | _ => 8388608

/-- A call the session theorems cover. -/
def Legal (kind : Kind) (csd : List UInt8) : Call → Prop
  | .read n idx => idx < capacityOfCsd csd ∧ idx + n ≤ capacityOfCsd csd ∧ idx < addrLimit kind ∧
      idx + n ≤ addrLimit kind
  | .write blocks idx => idx < capacityOfCsd csd ∧ idx + blocks.length ≤ capacityOfCsd csd ∧
      idx < addrLimit kind ∧ idx + blocks.length ≤ addrLimit kind ∧ ∀ b ∈ blocks, b.length = 512
  | .numBlocks => csd.length = 16 ∧ (kind = .SD1 → byteAt csd 0 / 64 = 0) ∧
      (byteAt csd 0 / 64 ≠ 0 → Csd.v2DeviceSize csd < 0x3FFFFF)
  | .numBytes => csd.length = 16 ∧ (kind = .SD1 → byteAt csd 0 / 64 = 0) ∧
      (byteAt csd 0 / 64 = 0 → 9 ≤ byteAt csd 5 % 16)
  | .cardType => True
  | .markUninit => False

/-- A multiple-block read (any block count other than one). -/
def isMultiRead : Call → Bool
  | .read n _ => n != 1
  | _ => false

/-- Every multiple-block read of the session is its last call. -/
def MultiReadsLast : List Call → Prop
  | [] => True
  | c :: cs => (isMultiRead c = true → cs = []) ∧ MultiReadsLast cs

/-- What holds between the calls of a session: the driver knows the card's kind; the card is
settled, still the same card, checks CRCs exactly when the driver uses them, holds the abstract
store, and has recorded no violation. -/
def SessionState (kind : Kind) (csd : List UInt8) (ncr nac busy gap : Nat) (st : Store) (s : St Card) : Prop :=
  s.cardType = some (typeOfKind kind) ∧ Settled s.bus ∧ s.bus.kind = kind ∧
  s.bus.capacity = capacityOfCsd csd ∧ s.bus.csd = csd ∧ s.bus.ncr = ncr ∧ s.bus.nac = nac ∧ s.bus.busy = busy ∧
  s.bus.stopGap = gap ∧
  s.bus.crcOn = s.useCrc ∧ (∀ j, getBlock s.bus j = st j) ∧ s.bus.violations = []


/-! Glue to the lemma files (same definitions there). -/

private theorem typeOfKind_eq (k : Kind) : typeOfKind k = Lemmas.SdCardSim2.typeOfKind k := by cases k <;> rfl
private theorem writeStore_eq : @writeStore = @Lemmas.SdSession.writeStore := rfl
private theorem absCall_eq (kind : Kind) (csd : List UInt8) (st : Store) (c : Call) :
    absCall kind csd st c = Lemmas.SdSession.absCall kind csd st c := by
  cases c <;> simp only [absCall, Lemmas.SdSession.absCall, typeOfKind_eq, writeStore_eq]
private theorem absRun_eq (kind : Kind) (csd : List UInt8) (st : Store) (calls : List Call) :
    absRun kind csd st calls = Lemmas.SdSession.absRun kind csd st calls := by
  induction calls generalizing st with
  | nil => rfl
  | cons c cs ih => simp only [absRun, Lemmas.SdSession.absRun, absCall_eq, ih]
private theorem runSession_eq {σ : Type} (B : BusOps σ) (calls : List Call) :
    runSession B calls = Lemmas.SdSession.runSession B calls := by
  induction calls with
  | nil => rfl
  | cons c cs ih => simp only [runSession, Lemmas.SdSession.runSession, ih]
private theorem addrLimit_eq (k : Kind) : addrLimit k = Lemmas.SdSession.addrLimit k := by cases k <;> rfl
private theorem legal_iff (kind : Kind) (csd : List UInt8) (c : Call) :
    Legal kind csd c ↔ Lemmas.SdSession.Legal kind csd c := by
  cases c <;> simp only [Legal, Lemmas.SdSession.Legal, addrLimit_eq]
private theorem isMultiRead_eq (c : Call) : isMultiRead c = Lemmas.SdSession.isMultiRead c := by cases c <;> rfl
private theorem multiReadsLast_iff (calls : List Call) :
    MultiReadsLast calls ↔ Lemmas.SdSession.MultiReadsLast calls := by
  induction calls with
  | nil => exact Iff.rfl
  | cons c cs ih => simp only [MultiReadsLast, Lemmas.SdSession.MultiReadsLast, isMultiRead_eq, ih]
private theorem sessionState_iff (kind : Kind) (csd : List UInt8) (ncr nac busy gap : Nat) (st : Store) (s : St Card) :
    SessionState kind csd ncr nac busy gap st s ↔ Lemmas.SdSession.SessInv kind csd ncr nac busy gap st s := by
  constructor
  · rintro ⟨h1, ⟨a, b, c, d, e, f⟩, h3, h4, h5, h6, h7, h8, hg, h9, h10, h11⟩
    exact ⟨⟨a, b, c, d, e, f⟩, h3, h4, h5, h6, h7, h8, hg, h9, by rw [← typeOfKind_eq]; exact h1, h10, h11⟩
  · rintro ⟨⟨a, b, c, d, e, f⟩, h3, h4, h5, h6, h7, h8, hg, h9, h1, h10, h11⟩
    exact ⟨by rw [typeOfKind_eq]; exact h1, ⟨a, b, c, d, e, f⟩, h3, h4, h5, h6, h7, h8, hg, h9, h10, h11⟩

/-! ## Every session -/

/-- Over any sequence of reads, writes, capacity and card-type calls, from power-up: every call
returns `Ok` with exactly the abstract device's answer; afterwards the card's memory is the
abstract store; and the card has recorded no protocol violation in the whole session — everything
the driver sent, identification included, was a legal SPI-mode conversation in the card's
judgement.  For a card that takes no or one byte to signal busy after the stop token (`gap ≤ 1`).
(For the state after every single call, see `session_every_step`.) -/
theorem session_correct (kind : Kind) (csd : List UInt8) (ncr nac busy initPolls gap : Nat)
    (hncr : ncr ≤ DEFAULT_COMMAND_RETRIES) (hnac : nac ≤ DEFAULT_READ_RETRIES)
    (hbusy : busy ≤ DEFAULT_WRITE_RETRIES) (hpolls : initPolls ≤ DEFAULT_COMMAND_RETRIES) (hgap : gap ≤ 1)
    (s : St Card) (hbus : s.bus = Spec.Card.mk kind csd ncr nac busy initPolls gap) (hct : s.cardType = none)
    (calls : List Call) (hlegal : ∀ c ∈ calls, Legal kind csd c)
    (hbr : busy ≤ DEFAULT_COMMAND_RETRIES ∨ MultiReadsLast calls) :
    ∃ s', runSession cardBus calls s = (.ok (absRun kind csd emptyStore calls).1, s') ∧
      (∀ j, getBlock s'.bus j = (absRun kind csd emptyStore calls).2 j) ∧
      s'.bus.violations = [] ∧ s'.useCrc = s.useCrc ∧
      (calls ≠ [] → SessionState kind csd ncr nac busy gap (absRun kind csd emptyStore calls).2 s') := by
  obtain ⟨s', h, hm, hv, hu, hI⟩ := Lemmas.SdSession.session_fresh kind csd ncr nac busy initPolls gap hncr hnac
    hbusy hpolls hgap s hbus hct calls (fun c hc => (legal_iff kind csd c).1 (hlegal c hc))
    (hbr.imp id (multiReadsLast_iff calls).1)
  rw [runSession_eq, absRun_eq]
  exact ⟨s', h, hm, hv, hu, fun hne => (sessionState_iff ..).2 (hI hne)⟩

/-- … and that holds after every call of the session, not only at its end: cut the session
anywhere (`calls = pre ++ post`, `pre` non-empty); the driver runs `pre`, reaches a state in which
the card's memory is the abstract store after `pre`, no violation is recorded and the session
invariant holds; and from there it runs `post`. -/
theorem session_every_step (kind : Kind) (csd : List UInt8) (ncr nac busy initPolls gap : Nat)
    (hncr : ncr ≤ DEFAULT_COMMAND_RETRIES) (hnac : nac ≤ DEFAULT_READ_RETRIES)
    (hbusy : busy ≤ DEFAULT_WRITE_RETRIES) (hpolls : initPolls ≤ DEFAULT_COMMAND_RETRIES) (hgap : gap ≤ 1)
    (s : St Card) (hbus : s.bus = Spec.Card.mk kind csd ncr nac busy initPolls gap) (hct : s.cardType = none)
    (pre post : List Call) (hpre : pre ≠ []) (hlegal : ∀ c ∈ pre ++ post, Legal kind csd c)
    (hbr : busy ≤ DEFAULT_COMMAND_RETRIES ∨ MultiReadsLast (pre ++ post)) :
    ∃ s₁ s₂, runSession cardBus pre s = (.ok (absRun kind csd emptyStore pre).1, s₁) ∧
      SessionState kind csd ncr nac busy gap (absRun kind csd emptyStore pre).2 s₁ ∧
      runSession cardBus post s₁ = (.ok (absRun kind csd (absRun kind csd emptyStore pre).2 post).1, s₂) ∧
      runSession cardBus (pre ++ post) s = (.ok (absRun kind csd emptyStore (pre ++ post)).1, s₂) := by
  have hpreMRL : ∀ (a b : List Call), MultiReadsLast (a ++ b) → MultiReadsLast a := by
    intro a b
    induction a with
    | nil => intro _; trivial
    | cons c cs ih =>
      intro h
      refine ⟨fun hm => ?_, ih h.2⟩
      have := h.1 hm
      exact List.append_eq_nil_iff.mp this |>.1
  obtain ⟨s₁, h1, _, _, _, hI1⟩ := session_correct kind csd ncr nac busy initPolls gap hncr hnac hbusy hpolls hgap
    s hbus hct pre (fun c hc => hlegal c (List.mem_append_left _ hc)) (hbr.imp id (hpreMRL pre post))
  obtain ⟨s₂, h2, _⟩ := session_correct kind csd ncr nac busy initPolls gap hncr hnac hbusy hpolls hgap s hbus hct
    (pre ++ post) hlegal hbr
  have happ := Lemmas.SdSession.runSession_append cardBus pre post s s₁ _ (by rw [← runSession_eq]; exact h1)
  rw [← runSession_eq, h2, ← runSession_eq] at happ
  have habs := Lemmas.SdSession.absRun_append kind csd emptyStore pre post
  rw [← absRun_eq, ← absRun_eq, ← absRun_eq] at habs
  refine ⟨s₁, s₂, h1, hI1 hpre, ?_, h2⟩
  rcases hpost : runSession cardBus post s₁ with ⟨r, s₃⟩
  rw [hpost] at happ
  cases r with
  | err e => simp at happ
  | panic p => simp at happ
  | ok bs =>
    simp only [Prod.mk.injEq, SRes.ok.injEq] at happ
    obtain ⟨hbs, rfl⟩ := happ
    rw [habs] at hbs
    simp only at hbs
    rw [List.append_cancel_left hbs]

/-- The first call of a session performs the identification: on the uninitialised driver
`check_init` is `acquire`, which succeeds and establishes the session state for the empty store. -/
theorem first_call_identifies (kind : Kind) (csd : List UInt8) (ncr nac busy initPolls gap : Nat)
    (hncr : ncr ≤ DEFAULT_COMMAND_RETRIES) (hpolls : initPolls ≤ DEFAULT_COMMAND_RETRIES)
    (s : St Card) (hbus : s.bus = Spec.Card.mk kind csd ncr nac busy initPolls gap) (hct : s.cardType = none) :
    checkInit cardBus s = acquire cardBus s ∧
    ∃ s₀, acquire cardBus s = (.ok (), s₀) ∧ SessionState kind csd ncr nac busy gap emptyStore s₀ ∧
      s₀.bus.busyLeft = 0 := by
  refine ⟨?_, ?_⟩
  · unfold checkInit
    rw [Lemmas.Sd.bind_ok (Lemmas.Sd.get_apply s)]
    simp only [hct, Option.isNone_none, if_true]
  · obtain ⟨s₀, h, hI, hb, _⟩ := Lemmas.SdSession.acquire_inv kind csd ncr nac busy initPolls gap hncr hpolls s hbus
    exact ⟨s₀, h, (sessionState_iff ..).2 hI, hb⟩

/-- … and later calls do not repeat it: in every state between the calls of a session
(`SessionState`; for any bus, in every state with a known card type) `check_init` returns at once
without touching the bus — the state, event log included, is unchanged — so the call is just its
operation. -/
theorem later_calls_skip_identification {σ : Type} (B : BusOps σ) (s : St σ) (ct : CardType)
    (h : s.cardType = some ct) : checkInit B s = (.ok (), s) :=
  Lemmas.SdSession.checkInit_identified B s ct h

/-! ## Reads that do not fit into the card -/

/-- A read of `n ≥ 1` blocks with `idx + n` beyond the capacity, between the calls of a session:
the card refuses CMD17/CMD18 with "parameter error" when the start is beyond the end (the driver
does not look at R1), or streams the blocks up to its end and then nothing; either way the
driver's wait for a data token runs out and the call returns `TimeoutReadBuffer` (after CMD12, for
a multiple-block read).  The card's memory is unchanged, NO violation is recorded, and the session
state still holds: the session can go on (the card is busy for `busy` bytes if CMD12 was sent). -/
theorem session_read_out_of_range (kind : Kind) (csd : List UInt8) (ncr nac busy gap : Nat)
    (hncr : ncr ≤ DEFAULT_COMMAND_RETRIES) (hnac : nac ≤ DEFAULT_READ_RETRIES)
    (st : Store) (hst : ∀ j, (st j).length = 512) (s : St Card)
    (hS : SessionState kind csd ncr nac busy gap st s) (hbl : s.bus.busyLeft ≤ DEFAULT_COMMAND_RETRIES)
    (n idx : Nat) (hn : n ≠ 0) (hadr : idx < addrLimit kind) (hoor : capacityOfCsd csd < idx + n) :
    ∃ s', call cardBus (.read n idx) s = (.err .TimeoutReadBuffer, s') ∧
      SessionState kind csd ncr nac busy gap st s' ∧ s'.bus.busyLeft = (if n = 1 then 0 else busy) := by
  have hI := (sessionState_iff ..).1 hS
  obtain ⟨s', h, hI', hb, _⟩ := Lemmas.SdSession.callOp_read_oor kind csd ncr nac busy gap hncr hnac st hst s hI hbl
    n idx hn (by rw [← addrLimit_eq]; exact hadr) hoor
  refine ⟨s', ?_, (sessionState_iff ..).2 hI', hb⟩
  rw [Lemmas.SdSession.call_identified cardBus _ (by intro h; cases h) s _ hI.ct]
  exact h

/-- A multiple-block write that starts inside the card and runs over its end, between the calls of
a session: the call returns `WriteError`; the blocks that fit are stored — the card's memory is the
abstract store with exactly those blocks written — the stop sequence has been sent (the card is
settled again, not waiting for data blocks, and not busy), NO violation is recorded, and the
session state holds: the session can go on. -/
theorem session_write_out_of_range (kind : Kind) (csd : List UInt8) (ncr nac busy gap : Nat)
    (hncr : ncr ≤ DEFAULT_COMMAND_RETRIES) (hbusy : busy ≤ DEFAULT_WRITE_RETRIES) (hgap : gap ≤ 1)
    (st : Store) (s : St Card)
    (hS : SessionState kind csd ncr nac busy gap st s) (hbl : s.bus.busyLeft ≤ DEFAULT_COMMAND_RETRIES)
    (blocks : List Bytes) (idx : Nat) (hn : blocks.length ≠ 1) (hadr : idx < addrLimit kind)
    (hidx : idx < capacityOfCsd csd) (hoor : capacityOfCsd csd < idx + blocks.length)
    (hlen : ∀ b ∈ blocks, b.length = 512) :
    ∃ s', call cardBus (.write blocks idx) s = (.err .WriteError, s') ∧
      SessionState kind csd ncr nac busy gap (writeStore st idx (blocks.take (capacityOfCsd csd - idx))) s' ∧
      s'.bus.busyLeft = 0 := by
  have hI := (sessionState_iff ..).1 hS
  obtain ⟨s', h, hI', hb, _⟩ := Lemmas.SdSession.callOp_write_oor kind csd ncr nac busy gap hncr hbusy hgap st s hI hbl
    blocks idx hn (by rw [← addrLimit_eq]; exact hadr) hidx hoor hlen
  refine ⟨s', ?_, (sessionState_iff ..).2 hI', hb⟩
  rw [Lemmas.SdSession.call_identified cardBus _ (by intro h; cases h) s _ hI.ct]
  exact h

/-! ## Multi-block calls against single-block calls -/

/-- `n` single-block reads of consecutive blocks. -/
def readCalls : Nat → Nat → List Call
  | 0, _ => []
  | n + 1, idx => .read 1 idx :: readCalls n (idx + 1)

/-- Single-block writes of the given blocks to consecutive block numbers. -/
def writeCalls : List Bytes → Nat → List Call
  | [], _ => []
  | b :: rest, idx => .write [b] idx :: writeCalls rest (idx + 1)

/-- A session with every read and write replaced by the corresponding single-block calls in order. -/
def expandAll (calls : List Call) : List Call :=
  calls.flatMap fun c => match c with
    | .read n idx => readCalls n idx
    | .write blocks idx => writeCalls blocks idx
    | c => [c]

/-- All blocks read in a session, in order. -/
def blocksOf (as : List Answer) : List Bytes :=
  as.flatMap fun a => match a with
    | .blocks bs => bs
    | _ => []

/-- The capacity and card-type answers of a session, in order. -/
def infoOf (as : List Answer) : List Answer :=
  as.filter fun a => match a with
    | .num _ => true
    | .ctype _ => true
    | _ => false

private theorem readCalls_eq (n idx : Nat) : readCalls n idx = Lemmas.SdSession.readCalls n idx := by
  induction n generalizing idx with
  | zero => rfl
  | succ n ih => simp only [readCalls, Lemmas.SdSession.readCalls, ih]
private theorem writeCalls_eq (blocks : List Bytes) (idx : Nat) :
    writeCalls blocks idx = Lemmas.SdSession.writeCalls blocks idx := by
  induction blocks generalizing idx with
  | nil => rfl
  | cons b rest ih => simp only [writeCalls, Lemmas.SdSession.writeCalls, ih]
private theorem expandAll_eq (calls : List Call) : expandAll calls = Lemmas.SdSession.expandAll calls := by
  unfold expandAll Lemmas.SdSession.expandAll
  congr 1
  funext c
  cases c <;> simp only [Lemmas.SdSession.expand, readCalls_eq, writeCalls_eq]
private theorem blocksOf_eq : @blocksOf = @Lemmas.SdSession.blocksOf := rfl
private theorem infoOf_eq : @infoOf = @Lemmas.SdSession.infoOf := rfl

/-- Replacing every multiple-block call of a session by the corresponding single-block calls
gives the same answers — the same blocks read, in the same order, and the same capacity and
card-type answers — and the same final card memory; neither session records a violation.  (The
expanded session needs no hypothesis about `busy` beyond the write budget: it contains no
multiple-block read.) -/
theorem session_multi_eq_singles (kind : Kind) (csd : List UInt8) (ncr nac busy initPolls gap : Nat)
    (hncr : ncr ≤ DEFAULT_COMMAND_RETRIES) (hnac : nac ≤ DEFAULT_READ_RETRIES)
    (hbusy : busy ≤ DEFAULT_WRITE_RETRIES) (hpolls : initPolls ≤ DEFAULT_COMMAND_RETRIES) (hgap : gap ≤ 1)
    (s : St Card) (hbus : s.bus = Spec.Card.mk kind csd ncr nac busy initPolls gap) (hct : s.cardType = none)
    (calls : List Call) (hlegal : ∀ c ∈ calls, Legal kind csd c)
    (hbr : busy ≤ DEFAULT_COMMAND_RETRIES ∨ MultiReadsLast calls) :
    ∃ as₁ s₁ as₂ s₂, runSession cardBus calls s = (.ok as₁, s₁) ∧
      runSession cardBus (expandAll calls) s = (.ok as₂, s₂) ∧
      blocksOf as₁ = blocksOf as₂ ∧ infoOf as₁ = infoOf as₂ ∧
      (∀ j, getBlock s₁.bus j = getBlock s₂.bus j) ∧ s₁.bus.violations = [] ∧ s₂.bus.violations = [] := by
  have hleg' := Lemmas.SdSession.legal_expandAll kind csd calls (fun c hc => (legal_iff kind csd c).1 (hlegal c hc))
  obtain ⟨s₁, h1, m1, v1, _⟩ := session_correct kind csd ncr nac busy initPolls gap hncr hnac hbusy hpolls hgap s hbus hct
    calls hlegal hbr
  obtain ⟨s₂, h2, m2, v2, _⟩ := session_correct kind csd ncr nac busy initPolls gap hncr hnac hbusy hpolls hgap s hbus hct
    (expandAll calls) (fun c hc => (legal_iff kind csd c).2 (by rw [expandAll_eq] at hc; exact (hleg' c hc).1))
    (Or.inr ((multiReadsLast_iff _).2 (by
      rw [expandAll_eq]; exact Lemmas.SdSession.multiReadsLast_of_none _ (fun c hc => (hleg' c hc).2))))
  obtain ⟨e1, e2, e3⟩ := Lemmas.SdSession.absRun_expandAll kind csd calls emptyStore
  rw [← expandAll_eq, ← absRun_eq, ← absRun_eq] at e1 e2 e3
  refine ⟨_, s₁, _, s₂, h1, h2, ?_, ?_, fun j => by rw [m1, m2, e1], v1, v2⟩
  · rw [blocksOf_eq]; exact e2.symm
  · rw [infoOf_eq]; exact e3.symm

/-! ## Non-vacuity (tests) -/

def demoBlock (x : UInt8) : Bytes := List.replicate 512 x

/-- A session with every kind of call, a multiple-block read in the middle. -/
def demoSession : List Call :=
  [.write [demoBlock 1, demoBlock 2, demoBlock 3] 10, .read 2 11, .numBlocks, .write [demoBlock 9] 11,
   .cardType, .read 1 11, .numBytes, .read 3 4093]

theorem demoSession_legal (kind : Kind) (hk : kind ≠ .SD1) : ∀ c ∈ demoSession, Legal kind (Spec.Card.csdV2 3) c := by
  have hb : ∀ x : UInt8, (demoBlock x).length = 512 := fun x => List.length_replicate ..
  have hcap : capacityOfCsd (Spec.Card.csdV2 3) = 4096 := by decide
  have hlim : 4096 ≤ addrLimit kind := by cases kind <;> decide
  intro c hc
  simp only [demoSession, List.mem_cons, List.not_mem_nil, or_false] at hc
  rcases hc with rfl | rfl | rfl | rfl | rfl | rfl | rfl | rfl
  · refine ⟨by omega, by simp only [List.length_cons, List.length_nil]; omega, by omega,
      by simp only [List.length_cons, List.length_nil]; omega, ?_⟩
    intro b hb'; simp only [List.mem_cons, List.not_mem_nil, or_false] at hb'
    rcases hb' with rfl | rfl | rfl <;> exact hb _
  · exact ⟨by omega, by omega, by omega, by omega⟩
  · exact ⟨by decide, fun h => absurd h hk, fun _ => by decide⟩
  · refine ⟨by omega, by simp only [List.length_cons, List.length_nil]; omega, by omega,
      by simp only [List.length_cons, List.length_nil]; omega, ?_⟩
    intro b hb'; rw [List.mem_singleton.mp hb']; exact hb _
  · trivial
  · exact ⟨by omega, by omega, by omega, by omega⟩
  · exact ⟨by decide, fun h => absurd h hk, fun h => absurd h (by decide)⟩
  · exact ⟨by omega, by omega, by omega, by omega⟩

/-- The abstract answers of the demo session (read back what was written, overwritten block
included; the last read runs up to the last block of the card). -/
example : (absRun .SDHC (Spec.Card.csdV2 3) emptyStore demoSession).1 =
    [.unit, .blocks [demoBlock 2, demoBlock 3], .num 4096, .unit, .ctype (some .SDHC), .blocks [demoBlock 9],
     .num 2097152, .blocks [zeros512, zeros512, zeros512]] := by
  rfl

/-- The demo session on a freshly powered high-capacity card (slowest legal response, 1000
ACMD41 polls), any CRC mode, any `acquire_retries`: the driver returns exactly these answers, and
the card has recorded no violation. -/
example (s : St Card) (hbus : s.bus = Spec.Card.mk .SDHC (Spec.Card.csdV2 3) 8 100 3 1000) (hct : s.cardType = none) :
    ∃ s', runSession cardBus demoSession s =
      (.ok [.unit, .blocks [demoBlock 2, demoBlock 3], .num 4096, .unit, .ctype (some .SDHC), .blocks [demoBlock 9],
        .num 2097152, .blocks [zeros512, zeros512, zeros512]], s') ∧ s'.bus.violations = [] := by
  obtain ⟨s', h, _, hv, _⟩ := session_correct .SDHC (Spec.Card.csdV2 3) 8 100 3 1000 0 (by decide) (by decide)
    (by decide) (by decide) (by decide) s hbus hct demoSession (demoSession_legal .SDHC (by decide))
    (Or.inl (by decide))
  exact ⟨s', h, hv⟩

/-- A slow version-1 card (busy for 20000 bytes after programming and after CMD12: more than the
command budget) that takes one byte to signal busy after a stop (`stopGap = 1`): a session whose
only multiple-block read is its last call. -/
def slowSession : List Call :=
  [.write [demoBlock 1] 5, .write [demoBlock 2, demoBlock 3] 6, .read 1 6, .numBlocks, .read 2 5]

example (s : St Card) (hbus : s.bus = Spec.Card.mk .SD1 (Spec.Card.csdV1 4095 7) 8 100 20000 0 1)
    (hct : s.cardType = none) :
    ∃ s', runSession cardBus slowSession s =
      (.ok [.unit, .unit, .blocks [demoBlock 2], .num 2097152, .blocks [demoBlock 1, demoBlock 2]], s') ∧
      s'.bus.violations = [] := by
  have hb : ∀ x : UInt8, (demoBlock x).length = 512 := fun x => List.length_replicate ..
  have hcap : capacityOfCsd (Spec.Card.csdV1 4095 7) = 2097152 := by decide
  have hleg : ∀ c ∈ slowSession, Legal .SD1 (Spec.Card.csdV1 4095 7) c := by
    intro c hc
    simp only [slowSession, List.mem_cons, List.not_mem_nil, or_false] at hc
    rcases hc with rfl | rfl | rfl | rfl | rfl
    · refine ⟨by omega, by simp only [List.length_cons, List.length_nil]; omega, by decide, by decide, ?_⟩
      intro b hb'; rw [List.mem_singleton.mp hb']; exact hb _
    · refine ⟨by omega, by simp only [List.length_cons, List.length_nil]; omega, by decide, by decide, ?_⟩
      intro b hb'; simp only [List.mem_cons, List.not_mem_nil, or_false] at hb'
      rcases hb' with rfl | rfl <;> exact hb _
    · exact ⟨by omega, by omega, by decide, by decide⟩
    · exact ⟨by decide, fun _ => by decide, fun h => absurd (by decide) h⟩
    · exact ⟨by omega, by omega, by decide, by decide⟩
  obtain ⟨s', h, _, hv, _⟩ := session_correct .SD1 (Spec.Card.csdV1 4095 7) 8 100 20000 0 1 (by decide) (by decide)
    (by decide) (by decide) (by decide) s hbus hct slowSession hleg
    (Or.inr ⟨fun h => (by cases h), fun h => (by cases h), fun h => (by cases h), fun h => (by cases h),
      fun _ => rfl, trivial⟩)
  exact ⟨s', h, hv⟩

end Sdmmc.Props.C12Session
