/-
C11 over HISTORIES UNDER FAULTS, ARBITRARY PLACEMENT — continuation of `Props/C11Hist.lean`: device failures may now fall
INSIDE the calls that allocate, free or create: `write`, `delete_file_in_dir`, `make_dir_in_dir`, `open_file_in_dir` in a
non-truncating mode (creation and directory growth included), `close_file` — at ANY device call of them.

Property theorems only.  Vocabulary: `Spec/Volume.lean`, `Spec/VolumeFault.lean` (`VolInvF`, `FaultInv`, `Clean`,
`clearFaults`), `Spec/VolumeLost.lean` (`VolInvL`, `EntryNotAhead`), `Props/C11Inv.lean`, `Props/C11Hist.lean`
(`CoveredRun`, `Exhausted`).  Proofs: `Lemmas/VolX*.lean`, `Lemmas/AbsX*.lean` (the API layer of C03 and the refinement of
C01 restated from the invariant with lost chains), `Lemmas/FaultX*.lean`.

THE INVARIANT.  `VolInvL s gh X` — `VolInv` up to the fault schedule and up to LOST CHAINS `X`: of `VolInv` exactly two
clauses are given up, `noFault` and "no leak" (`Owns` holds of `gh.G ++ X`).  It lies between the two invariants of
`Props/C11Hist`: `VolInvF s gh ↔ VolInvL s gh []` (`volInvL_nil`), `VolInvL s gh X → FaultInv s gh X`
(`faultInv_of_volInvL`).  Unlike `FaultInv` it keeps `TreeOK.sizes` with the true cluster size and `FileOK.size_fits`:
residues (3)/(4) of `FaultInv` arise only from a failed TRUNCATING open, which stays excluded below.

WHERE A DEVICE CALL MAY FAIL (`MayFail s op`, the call `op` being issued in `s`):
* in every call of `classB`: all calls of `classA` of `Props/C11Hist` (read-only calls, `flush_file`, `close_volume`; the
  nine calls that never touch the device), `write`, `delete_file_in_dir`, `make_dir_in_dir`, and `open_file_in_dir` in the
  modes `ReadOnly`, `ReadWriteAppend`, `ReadWriteCreate`, `ReadWriteCreateOrAppend`;
* in `close_file(file)` when `EntryNotAhead s file`: the 32-byte entry of the file on the medium names no cluster and size
  0, or the record's first cluster and at most the record's size.  (`close_file` of an UNMODIFIED file makes no device
  call at all: `close_unmodified_never_fails`.  For a modified file the condition says that the record was only written
  to since the entry was last stored — and nothing in the API shrinks a record: a truncating open stores the entry
  itself.  We have NOT proved that it holds in every reachable state; it is a hypothesis at the failing call, evaluated
  in `Example.opsB_mayFail`; `Example.stale_entry_breaks_sizes` shows, on a hand-made state violating it, that it is what
  the proof needs.)
NOT covered — the ONE remaining restriction on the placement: a device failure inside `open_file_in_dir` in a TRUNCATING
mode (`ReadWriteTruncate`, `ReadWriteCreateOrTruncate`).  `VolInvL` really fails afterwards
(`Props.C11Hist.Example.size_exceeds_chain_after_failed_truncate`: the entry keeps its size over the cut chain); only the
weak `FaultInv` can hold there, and from it the theory of `read`/`write` (which rests on `size_fits`) would have to be
redone.

WHAT IS PROVED (every history, every start state with `VolInvL`, every schedule, `Covered` calls as in C03):
* `call_under_faults` — ONE call: `VolInvL` again (new ghost of the same geometry, new lost chains) and the call answers
  `Ok` or an error; `write_under_any_fault`, `delete_under_any_fault`, `mkdir_under_any_fault`, `open_under_any_fault`,
  `close_under_any_fault`: the five calls, with no hypothesis on the schedule.
* `history_under_faults_B_partial` — after EVERY prefix: `VolInvL` (hence `FaultInv`) for a ghost of the same geometry and
  some lost chains; no call panicked or hung.  TARGET `history_under_faults`: the same without `hf`.
* `names_unique_history_B_partial` — after every prefix every directory has pairwise distinct names on the medium.
* (`fault_reported_history`, `cache_coherent_history`, `schedule_is_shared` of `Props/C11Hist` need no hypothesis.)
* `close_file_under_faults_L`, `handles_usable_after_faults_L` — from `VolInvL` (ANY lost chains): `close_file` answers
  `Ok` unless one of its device calls fails; with the schedule exhausted, closing files, directories and the volume
  answers `Ok` throughout, empties the tables, and keeps `VolInvL` with THE SAME lost chains.
* `retry_when_exhausted_L`, `retry_history_B_partial` — the retry of a failed read-only call, the schedule exhausted,
  answers what the call answers without any fault.
NOT redone here: `others_intact_history` / `medium_mounts_history` for failures in `classB` calls: the licence theory of
C04 they rest on assumes identical FAT copies, and a failure between the two writes of a FAT update leaves copy 2
behind (`Example.fat_copies_differ`).  The single-call theorem `Props.C11Inv.others_intact_after_fault` still applies to
the first failing call.

`make_dir_in_dir` DESERVES A REMARK.  Its clean-up (`free_cluster_chain(new)` after `write_new_directory_entry` failed)
is sound only because a `write_new_directory_entry` that reports an error HAS NOT WRITTEN THE ENTRY — otherwise the
clean-up would free a cluster a directory entry names.  This is proved (`Lemmas/FaultXStrictNew.writeNew_sw`: the writes
of a run in which a device call failed are a PROPER prefix of the fault-free writes, the last of which is the entry); it
holds because the entry is the LAST device call of the function.  `Example.failed_mkdir_residues` evaluates all seven
placements.

NO RESIDUE BREAKING A CLAUSE OF C11 WAS FOUND: in every evaluated failed run (also of the excluded call) names stay
distinct, uninvolved files are intact, every handle can be closed once the schedule is exhausted, and a failed device
call is reported.
-/
import Sdmmc.Spec.VolumeLost
import Sdmmc.Lemmas.FaultXSpec
import Sdmmc.Lemmas.FaultXCloseClean
import Sdmmc.Props.C11Hist

namespace Sdmmc.Props.C11HistB
open Sdmmc.Model Sdmmc.Model.Fat Sdmmc.Spec.Volume
open Sdmmc.Spec hiding run step NoFault Coherent
open Sdmmc.Props.C11Inv (withFaults Covered retryOp NameOK)
open Sdmmc.Props.C11Hist (CoveredRun Exhausted)

/-! ### Vocabulary -/

/-- The modes of `open_file_in_dir` that never cut a chain. -/
def nonTruncating : Mode → Bool
  | .ReadWriteTruncate | .ReadWriteCreateOrTruncate => false
  | _ => true

/-- The calls in which a device failure is covered unconditionally: all but `close_file` and a truncating
`open_file_in_dir`. -/
def classB : Op → Bool
  | .closeFile _ => false
  | .openFile _ _ mode => nonTruncating mode
  | _ => true

/-- May a device call fail during `op`, issued in `s`? -/
def MayFail (s : Mgr) (op : Op) : Prop :=
  classB op = true ∨ ∃ file, op = .closeFile file ∧ EntryNotAhead s file

/-- Along the history a device call fails only where `P` allows (calls of every kind may occur). -/
def FailsOnlyWhen (P : Mgr → Op → Prop) : Mgr → List Op → Prop
  | _, [] => True
  | s, op :: ops => ((step s op).1.dev.failed ≠ s.dev.failed → P s op) ∧ FailsOnlyWhen P (step s op).1 ops

theorem nonTruncating_iff (m : Mode) : nonTruncating m = Lemmas.FaultX.nonTruncating m := by cases m <;> rfl

theorem classB_iff (op : Op) : classB op = Lemmas.FaultX.classB op := by
  cases op <;> first | rfl | exact nonTruncating_iff _

theorem mayFail_iff (s : Mgr) (op : Op) : MayFail s op ↔ Lemmas.FaultX.MayFail s op := by
  unfold MayFail Lemmas.FaultX.MayFail
  rw [classB_iff]
  exact Iff.rfl

theorem failsOnlyWhen_iff : ∀ (ops : List Op) (s : Mgr),
    FailsOnlyWhen MayFail s ops ↔ Lemmas.FaultX.FailsOnlyWhen Lemmas.FaultX.MayFail s ops
  | [], _ => Iff.rfl
  | op :: ops, s => and_congr (by rw [mayFail_iff]) (failsOnlyWhen_iff ops _)

/-- Every call of `classA` (`Props/C11Hist`) is in `classB`. -/
theorem classA_le_classB (op : Op) (h : C11Hist.classA op = true) : classB op = true := by
  cases op <;> first | rfl | cases h

/-- `VolInvL`, spelled out. -/
theorem volInvL_def (s : Mgr) (gh : Ghost) (X : List (List Nat)) :
    VolInvL s gh X ↔
      (∀ i, s.cache.tag = some i → s.cache.blk = s.dev.disk.get i) ∧ s.locked = false ∧ s.maxVols = 1 ∧
      (s.vols = [] ∨ ∃ vi, s.vols = [vi] ∧ vi.vol = gh.vol) ∧
      (BlocksOK s.dev.disk ∧ WFGeom gh.vol ∧ HintOK gh.vol ∧ Owns gh.vol s.dev.disk (gh.G ++ X) ∧
        TreeOK gh.vol.fatType (clusterBytesLen gh.vol) (rootHead gh.vol) gh.G gh.dirs (dirSlots gh.vol s.dev.disk gh.G) s.files ∧
        ∀ f, f ∈ s.files → FileOK gh.vol s.dev.disk f (chainOf gh.G f.entry.cluster) ∧
          (chainOf gh.G f.entry.cluster = [] → f.curCluster < 2)) ∧
      (∀ f, f ∈ s.files → ∃ vi, s.vols = [vi] ∧ f.rawVolume = vi.rawVolume) ∧
      (∀ di, di ∈ s.dirs → ValidDir gh.dirs di.cluster) :=
  ⟨fun h => ⟨h.coherent, h.unlocked, h.maxVols, h.vols,
      ⟨h.med.blocksOK, h.med.geom, h.med.hint, h.med.owns, h.med.tree, h.med.fileOK⟩, h.fileVols, h.openDirs⟩,
   fun h => ⟨h.1, h.2.1, h.2.2.1, h.2.2.2.1,
      ⟨h.2.2.2.2.1.1, h.2.2.2.2.1.2.1, h.2.2.2.2.1.2.2.1, h.2.2.2.2.1.2.2.2.1, h.2.2.2.2.1.2.2.2.2.1, h.2.2.2.2.1.2.2.2.2.2⟩,
      h.2.2.2.2.2.1, h.2.2.2.2.2.2⟩⟩

/-- Without lost chains `VolInvL` is the strong invariant of `Props/C11Hist`. -/
theorem volInvL_nil (s : Mgr) (gh : Ghost) : VolInvL s gh [] ↔ VolInvF s gh := Lemmas.FaultX.volInvL_nil

/-- `VolInvL` implies the weak invariant, with the same lost chains. -/
theorem faultInv_of_volInvL {s : Mgr} {gh : Ghost} {X : List (List Nat)} (h : VolInvL s gh X) : FaultInv s gh X :=
  Lemmas.FaultX.faultInv_of_volInvX (Lemmas.FaultX.volInvL_iff.1 h)

/-- A state with the invariant, given any schedule, satisfies `VolInvL` without lost chains. -/
theorem volInvL_withFaults {s0 : Mgr} {gh : Ghost} (hI : VolInv s0 gh) (L : List Nat) : VolInvL (withFaults L s0) gh [] :=
  (volInvL_nil _ _).2 (C11Hist.volInvF_withFaults hI L)

/-! ### 1. One call, any placement -/

/-- **`call_under_faults`.**  From `VolInvL`, ONE covered call under whatever is scheduled, a device call failing at most
where `MayFail` allows: `VolInvL` holds again — for a ghost of the same geometry and some lost chains —, and the call
answers `Ok` or an error. -/
theorem call_under_faults {s : Mgr} {gh : Ghost} {X : List (List Nat)} (hI : VolInvL s gh X) (op : Op) (hc : Covered s op)
    (hf : (step s op).1.dev.failed ≠ s.dev.failed → MayFail s op) :
    (∃ gh' X', VolInvL (step s op).1 gh' X' ∧ SameGeom gh.vol gh'.vol) ∧ Clean (step s op).2.result := by
  obtain ⟨h1, h2⟩ := Lemmas.FaultX.step_inv_FB (Lemmas.FaultX.invF_iff.2 ⟨gh, X, hI, SameGeom.refl _⟩) op
    ((C11Inv.covered_iff s op).1 hc) (fun h => (mayFail_iff s op).1 (hf h))
  exact ⟨Lemmas.FaultX.invF_iff.1 h1, h2⟩

/-- **`write` keeps `VolInvL` whatever device call of it fails** (the cluster it was about to link may be lost). -/
theorem write_under_any_fault {s : Mgr} {gh : Ghost} {X : List (List Nat)} (hI : VolInvL s gh X) (file : Nat) (data : Bytes) :
    (∃ gh' X', VolInvL (step s (.write file data)).1 gh' X' ∧ SameGeom gh.vol gh'.vol) ∧
    Clean (step s (.write file data)).2.result :=
  call_under_faults hI _ trivial fun _ => .inl rfl

/-- **`delete_file_in_dir` keeps `VolInvL` whatever device call of it fails** (what is left of the chain is lost). -/
theorem delete_under_any_fault {s : Mgr} {gh : Ghost} {X : List (List Nat)} (hI : VolInvL s gh X) (d : Nat) (name : List Nat)
    (hname : NameOK name) :
    (∃ gh' X', VolInvL (step s (.delete d name)).1 gh' X' ∧ SameGeom gh.vol gh'.vol) ∧
    Clean (step s (.delete d name)).2.result :=
  call_under_faults hI _ hname fun _ => .inl rfl

/-- **`make_dir_in_dir` keeps `VolInvL` whatever device call of it fails**: the new cluster is the new directory, or free
again (the clean-up), or a chain nothing refers to. -/
theorem mkdir_under_any_fault {s : Mgr} {gh : Ghost} {X : List (List Nat)} (hI : VolInvL s gh X) (d : Nat) (name : List Nat)
    (hname : NameOK name) :
    (∃ gh' X', VolInvL (step s (.mkdir d name)).1 gh' X' ∧ SameGeom gh.vol gh'.vol) ∧
    Clean (step s (.mkdir d name)).2.result :=
  call_under_faults hI _ hname fun _ => .inl rfl

/-- **`open_file_in_dir` in a non-truncating mode keeps `VolInvL` whatever device call of it fails** — creation included,
also when the directory has to grow (the cluster about to be linked to the directory may be lost). -/
theorem open_under_any_fault {s : Mgr} {gh : Ghost} {X : List (List Nat)} (hI : VolInvL s gh X) (d : Nat) (name : List Nat)
    (mode : Mode) (hmode : nonTruncating mode = true) (hname : NameOK name) :
    (∃ gh' X', VolInvL (step s (.openFile d name mode)).1 gh' X' ∧ SameGeom gh.vol gh'.vol) ∧
    Clean (step s (.openFile d name mode)).2.result :=
  call_under_faults hI _ hname fun _ => .inl hmode

/-- **`close_file` keeps `VolInvL` whatever device call of it fails**, when the entry of the file on the medium is not
ahead of its record: the handle is gone; a chain the record owned and the entry on the medium does not name is lost. -/
theorem close_under_any_fault {s : Mgr} {gh : Ghost} {X : List (List Nat)} (hI : VolInvL s gh X) (file : Nat)
    (hraw : EntryNotAhead s file) :
    (∃ gh' X', VolInvL (step s (.closeFile file)).1 gh' X' ∧ SameGeom gh.vol gh'.vol) ∧
    Clean (step s (.closeFile file)).2.result :=
  call_under_faults hI _ trivial fun _ => .inr ⟨file, rfl, hraw⟩

/-- **`close_file` of an unmodified file makes no device call**: none can fail, the medium is untouched. -/
theorem close_unmodified_never_fails (s : Mgr) (file : Nat) (h : ∀ f, f ∈ s.files → f.rawFile = file → f.dirty = false) :
    (step s (.closeFile file)).1.dev.failed = s.dev.failed ∧ (step s (.closeFile file)).1.dev.disk = s.dev.disk :=
  Lemmas.FaultX.step_closeFile_clean file s h

/-! ### 2. Histories -/

/-- **`history_under_faults_B_partial`** (TARGET `history_under_faults`: the same without `hf`).  After EVERY prefix of a
covered history run under ANY schedule whose failures fall where `MayFail` allows: `VolInvL` — hence `FaultInv` — holds
for a ghost of the same geometry and some lost chains, and every call so far answered `Ok` or an error. -/
theorem history_under_faults_B_partial (ops : List Op) {s : Mgr} {gh : Ghost} {X : List (List Nat)} (hI : VolInvL s gh X)
    (hc : CoveredRun s ops) (hf : FailsOnlyWhen MayFail s ops) (k : Nat) :
    (∃ gh' X', VolInvL (run s (ops.take k)).1 gh' X' ∧ FaultInv (run s (ops.take k)).1 gh' X' ∧ SameGeom gh.vol gh'.vol) ∧
    ∀ o, o ∈ (run s (ops.take k)).2 → Clean o.result := by
  obtain ⟨h1, h2⟩ := Lemmas.FaultX.history_inv_B ops (Lemmas.FaultX.invF_iff.2 ⟨gh, X, hI, SameGeom.refl _⟩)
    ((C11Hist.coveredRun_iff ops s).1 hc) ((failsOnlyWhen_iff ops s).1 hf) k
  obtain ⟨gh', X', h3, h4⟩ := Lemmas.FaultX.invF_iff.1 h1
  exact ⟨⟨gh', X', h3, faultInv_of_volInvL h3, h4⟩, h2⟩

/-- The same from a state with the invariant and an ARBITRARY schedule `L` for the whole history. -/
theorem history_under_faults_B_from_invariant (ops : List Op) {s0 : Mgr} {gh : Ghost} (hI : VolInv s0 gh) (L : List Nat)
    (hc : CoveredRun (withFaults L s0) ops) (hf : FailsOnlyWhen MayFail (withFaults L s0) ops) (k : Nat) :
    (∃ gh' X', VolInvL (run (withFaults L s0) (ops.take k)).1 gh' X' ∧ FaultInv (run (withFaults L s0) (ops.take k)).1 gh' X' ∧
      SameGeom gh.vol gh'.vol) ∧
    ∀ o, o ∈ (run (withFaults L s0) (ops.take k)).2 → Clean o.result :=
  history_under_faults_B_partial ops (volInvL_withFaults hI L) hc hf k

/-- **`names_unique_history_B_partial`** (same hypotheses).  After every prefix, every directory of the tree holds
pairwise distinct names on the medium. -/
theorem names_unique_history_B_partial (ops : List Op) {s : Mgr} {gh : Ghost} {X : List (List Nat)} (hI : VolInvL s gh X)
    (hc : CoveredRun s ops) (hf : FailsOnlyWhen MayFail s ops) (k : Nat) :
    ∃ gh' : Ghost, SameGeom gh.vol gh'.vol ∧ ∀ h, h ∈ dirIds gh'.dirs →
      ((entries (dirSlots gh'.vol (run s (ops.take k)).1.dev.disk gh'.G h)).map sName).Nodup := by
  obtain ⟨⟨gh', X', h1, _, h2⟩, _⟩ := history_under_faults_B_partial ops hI hc hf k
  exact ⟨gh', h2, h1.med.tree.names⟩

/-! ### 3. Handles stay usable -/

/-- **`close_file_under_faults_L`.**  From `VolInvL` (any lost chains), whatever is scheduled: `close_file` of an open
file answers `Ok` unless a device call of it fails — then an error —; in either case one handle has left the table, the
directory and volume handles are untouched. -/
theorem close_file_under_faults_L {s : Mgr} {gh : Ghost} {X : List (List Nat)} (hI : VolInvL s gh X) {file : Nat}
    (hf : file ∈ s.files.map (·.rawFile)) :
    ((step s (.closeFile file)).2.result = .ok .unit ∨
      ((step s (.closeFile file)).1.dev.failed ≠ s.dev.failed ∧ ∃ e, (step s (.closeFile file)).2.result = .err e)) ∧
    (step s (.closeFile file)).1.files.length + 1 = s.files.length ∧
    (step s (.closeFile file)).1.dirs = s.dirs ∧
    (step s (.closeFile file)).1.vols.map (·.rawVolume) = s.vols.map (·.rawVolume) :=
  Lemmas.FaultX.closeFile_ok_or_fault (Lemmas.FaultX.volInvL_iff.1 hI) hf

/-- **`handles_usable_after_faults_L`.**  From `VolInvL` — whatever chains were lost before — with the schedule EXHAUSTED:
close the files (in some order of the table), then the directories, then the volume.  Every call answers `Ok`; afterwards
all three tables are empty, `has_open_handles` is `false`, no device call failed, and `VolInvL` holds with THE SAME lost
chains. -/
theorem handles_usable_after_faults_L {s : Mgr} {gh : Ghost} {X : List (List Nat)} (hI : VolInvL s gh X)
    (hx : Exhausted s.dev) :
    ∃ (fs ds vs : List Nat), fs.Perm (s.files.map (·.rawFile)) ∧ ds.Perm (s.dirs.map (·.rawDirectory)) ∧
      vs = s.vols.map (·.rawVolume) ∧
      let ops := fs.map Op.closeFile ++ ds.map Op.closeDir ++ vs.map Op.closeVolume
      (∀ o, o ∈ (run s ops).2 → o.result = .ok .unit) ∧
      (run s ops).1.files = [] ∧ (run s ops).1.dirs = [] ∧ (run s ops).1.vols = [] ∧
      hasOpenHandles (run s ops).1 = false ∧
      (run s ops).1.dev.failed = s.dev.failed ∧
      ∃ gh', VolInvL (run s ops).1 gh' X ∧ SameGeom gh.vol gh'.vol := by
  obtain ⟨fs, ds, vs, h1, h2, h3, h⟩ := Lemmas.FaultX.drain_exhausted (Lemmas.FaultX.volInvL_iff.1 hI) hx
  refine ⟨fs, ds, vs, h1, h2, h3, ?_⟩
  intro ops
  obtain ⟨a1, a2, a3, a4, a5, a6, gh', a7, a8⟩ := h
  exact ⟨a1, a2, a3, a4, a5, a6, gh', Lemmas.FaultX.volInvL_iff.2 a7, a8⟩

/-! ### 4. Retry -/

/-- **Retry, one call**, from `VolInvL` (a volume open): a read-only call `op` (`retryOp`) during which a device call
failed, issued AGAIN from the state the failed call left — the schedule exhausted there — answers exactly what `op`
answers WITHOUT ANY FAULT from the state it was first issued in. -/
theorem retry_when_exhausted_L {s : Mgr} {gh : Ghost} {X : List (List Nat)} (hI : VolInvL s gh X) (hvol : s.vols ≠ [])
    (op : Op) (hop : retryOp op = true) (hfail : (step s op).1.dev.failed ≠ s.dev.failed)
    (hx : Exhausted (step s op).1.dev) :
    (step (step s op).1 op).2.result = (step (clearFaults s) op).2.result :=
  Lemmas.FaultX.retry_F (Lemmas.FaultX.volInvL_iff.1 hI) hvol op (by rw [← C11Inv.retryOp_iff]; exact hop) hfail hx

/-- **`retry_history_B_partial`.**  In a history as above, the read-only call at position `k` fails; the schedule is
exhausted in the state it leaves.  The retry answers what the call answers in the fault-free continuation from the same
state. -/
theorem retry_history_B_partial (ops : List Op) {s : Mgr} {gh : Ghost} {X : List (List Nat)} (hI : VolInvL s gh X)
    (hc : CoveredRun s ops) (hf : FailsOnlyWhen MayFail s ops) (k : Nat) (op : Op) (hop : retryOp op = true)
    (hvol : (run s (ops.take k)).1.vols ≠ [])
    (hfail : (step (run s (ops.take k)).1 op).1.dev.failed ≠ (run s (ops.take k)).1.dev.failed)
    (hx : Exhausted (step (run s (ops.take k)).1 op).1.dev) :
    (step (step (run s (ops.take k)).1 op).1 op).2.result = (step (clearFaults (run s (ops.take k)).1) op).2.result := by
  obtain ⟨⟨gh', X', h1, _, _⟩, _⟩ := history_under_faults_B_partial ops hI hc hf k
  exact retry_when_exhausted_L h1 hvol op hop hfail hx

/-! ### Non-vacuity, residues, excluded points (evaluated) -/

namespace Example
open Sdmmc.Lemmas.VolExample Sdmmc.Lemmas.VolCheck
open Sdmmc.Lemmas.FaultHist (checkFaultInv checkFaultInv_sound)
open Sdmmc.Props.C11Hist.Example (ghOf isDeviceError isOk nameA)

instance (s : Mgr) (file : Nat) : Decidable (EntryNotAhead s file) := by
  unfold EntryNotAhead; infer_instance

theorem nameOK_of_eval {name : List Nat} {sfn0 : Bytes} (h : Sfn.createFromStr name = .ok sfn0)
    (h5 : sfn0.head? ≠ some 0xE5) : NameOK name := by
  intro sfn hs
  rw [h] at hs
  cases hs
  exact h5

def nameN : List Nat := [78, 46, 84, 88, 84]
theorem ok_A : NameOK nameA := nameOK_of_eval (sfn0 := [65, 32, 32, 32, 32, 32, 32, 32, 84, 88, 84]) (by decide +kernel) (by decide)
theorem ok_N : NameOK nameN := nameOK_of_eval (sfn0 := [78, 32, 32, 32, 32, 32, 32, 32, 84, 88, 84]) (by decide +kernel) (by decide)
theorem ok_D : NameOK [68] := nameOK_of_eval (sfn0 := [68, 32, 32, 32, 32, 32, 32, 32, 32, 32, 32]) (by decide +kernel) (by decide)
theorem ok_F : NameOK [70] := nameOK_of_eval (sfn0 := [70, 32, 32, 32, 32, 32, 32, 32, 32, 32, 32]) (by decide +kernel) (by decide)

/-! #### A history with faults INSIDE `write`, `delete_file_in_dir`, `close_file` -/

/-- On the example volume with `E.DAT` open and modified (`mgr0`): `write` of 600 bytes to it (needs a second cluster:
the device call that links it, call 5, FAILS — the new cluster 8 is lost); `delete A.TXT` (call 10, a FAT write after the
entry was marked deleted, FAILS — the clusters 2 and 3 are lost); `close_file` of `E.DAT` (call 12, the write of its entry,
FAILS — its cluster 6 is lost); create `N.TXT` (succeeds); `write` to it (call 17 FAILS after its first cluster 9 was
allocated); `close_file` of it (call 19 FAILS — cluster 9 is lost); `make_dir_in_dir D` (succeeds, cluster 10);
`make_dir_in_dir F` (call 30, the write of the dot block of its new cluster 11, FAILS — cluster 11 is lost). -/
def opsB : List Op :=
  [.write 4 (List.replicate 600 7), .delete 2 nameA, .closeFile 4, .openFile 2 nameN .ReadWriteCreate,
   .write 10 (List.replicate 10 1), .closeFile 10, .mkdir 2 [68], .mkdir 2 [70]]
def schedB : List Nat := [5, 10, 12, 17, 19, 30]

theorem opsB_results :
    (run (withFaults schedB mgr0) opsB).2.map (fun o => isOk o.result) = [false, false, false, true, false, false, true, false] ∧
    (run (withFaults schedB mgr0) opsB).1.dev.failed = 6 ∧
    (run (withFaults schedB mgr0) opsB).1.files = [] := by decide +kernel

theorem opsB_covered : CoveredRun (withFaults schedB mgr0) opsB :=
  ⟨trivial, ok_A, trivial, ok_N, trivial, trivial, ok_D, ok_F, trivial⟩

/-- Every failure of this history falls where `MayFail` allows: four in `classB` calls, two in a `close_file` whose
entry on the medium is not ahead of the record (evaluated). -/
theorem opsB_mayFail : FailsOnlyWhen MayFail (withFaults schedB mgr0) opsB := by
  refine ⟨fun _ => .inl rfl, fun _ => .inl rfl, fun _ => .inr ⟨4, rfl, ?_⟩, fun _ => .inl rfl, fun _ => .inl rfl,
    fun _ => .inr ⟨10, rfl, ?_⟩, fun h => ?_, fun _ => .inl rfl, trivial⟩
  · decide +kernel
  · decide +kernel
  · exact absurd (by decide +kernel) h

/-- The theorems at this history: `VolInvL` after every prefix. -/
theorem opsB_invariant (k : Nat) :
    ∃ gh' X', VolInvL (run (withFaults schedB mgr0) (opsB.take k)).1 gh' X' ∧ SameGeom vol16 gh'.vol :=
  let ⟨⟨gh', X', h1, _, h2⟩, _⟩ := history_under_faults_B_from_invariant opsB mgr0_inv schedB opsB_covered opsB_mayFail k
  ⟨gh', X', h1, h2⟩

/-- What it looks like at the end (evaluated): the chains of `SUB`, `B.BIN` and the new directory `D`; SIX lost chains;
all handles of files gone, the two directory handles still there. -/
theorem opsB_final :
    let s := (run (withFaults schedB mgr0) opsB).1
    checkFaultInv s { vol := (s.vols.headD default).vol, G := [[4], [5], [10]], dirs := [(4, 0), (10, 0)] }
      [[2], [3], [6], [8], [9], [11]] 512 = true ∧
    s.dirs.map (·.rawDirectory) = [2, 3] := by decide +kernel

/-! #### The FAT copies may differ after a failure in a `classB` call -/

/-- `delete A.TXT` on the quiescent volume, device call 4 (the write of FAT copy 2 after copy 1) fails: the copies
differ.  (Why `others_intact_history` / `medium_mounts_history`, which assume identical copies, are not redone here.) -/
theorem fat_copies_differ :
    let s := (step (withFaults [4] mgr1) (.delete 2 nameA)).1
    isDeviceError (step (withFaults [4] mgr1) (.delete 2 nameA)).2.result = true ∧
    (s.dev.disk.get 1 == s.dev.disk.get 2) = false := by decide +kernel

/-! #### The hypothesis `EntryNotAhead` of a failing `close_file` -/

/-- `mgr0` with the entry of `E.DAT` on the medium changed BY HAND to "cluster 6, 900 bytes" (the record says 5 bytes):
a state no call sequence is known to reach. -/
def mgrStale : Mgr :=
  { mgr0 with dev := { mgr0.dev with disk := mgr0.dev.disk.set 6 (splice (mgr0.dev.disk.get 6) 122 [6, 0, 0x84, 0x03, 0, 0]) } }

/-- **Excluded point of `close_under_any_fault`.**  `mgrStale` satisfies `VolInv` (the record of an open modified file
takes precedence over its entry), but not `EntryNotAhead`; a `close_file` whose entry write fails leaves the entry
"900 bytes" over a one-cluster chain: `VolInv` fails in `tree.sizes` (`FaultInv` holds). -/
theorem stale_entry_breaks_sizes :
    checkVolInv mgrStale gh0 = true ∧ decide (EntryNotAhead mgrStale 4) = false ∧ decide (EntryNotAhead mgr0 4) = true ∧
    (let s := (step (withFaults [1] mgrStale) (.closeFile 4)).1
     isDeviceError (step (withFaults [1] mgrStale) (.closeFile 4)).2.result = true ∧
     explainVolInv (clearFaults s) (ghOf s [[2, 3], [4], [5], [6]]) = ["tree.sizes"] ∧
     checkFaultInv s (ghOf s [[2, 3], [4], [5], [6]]) [] 4294967296 = true) := by decide +kernel

/-! #### `make_dir_in_dir`, every placement -/

def mk : Op := .mkdir 2 [68]

/-- **A failed `make_dir_in_dir`** on the quiescent volume, for each of its seven device calls failing: always
`DeviceError`; when the failure falls while the new cluster 6 is being prepared (calls 3, 4) the cluster is lost
(`FaultInv` with `X = [[6]]`); when it falls in the write of the new entry or later (calls 5, 6) the clean-up has freed
the cluster again, and before the allocation (calls 0–2) nothing happened: `VolInv` holds.  (What
`mkdir_under_any_fault` proves in general, evaluated.) -/
theorem failed_mkdir_residues :
    (List.range 7).map (fun k =>
      let s := (step (withFaults [k] mgr1) mk).1
      (isDeviceError (step (withFaults [k] mgr1) mk).2.result,
       checkFaultInv s (ghOf s [[2, 3], [4], [5]]) [[6]] 512,
       checkVolInv (clearFaults s) (ghOf s [[2, 3], [4], [5]]))) =
    [(true, false, true), (true, false, true), (true, false, true), (true, true, false), (true, true, false),
     (true, false, true), (true, false, true)] := by decide +kernel

end Example

end Sdmmc.Props.C11HistB
