/-
C01, tie to the source text, manager level (position and length): `FileInfo::{eof, length, left,
seek_from_start, seek_from_end, seek_from_current, update_length}` (filesystem/files.rs) and the
`VolumeManager` methods `file_eof`, `file_length`, `file_offset`, `file_seek_from_start / current / end`
(volume_mgr.rs), machine-translated into `Sdmmc.Gen.FunsMgr`, against `Model/Mgr.lean`.
-/
import Sdmmc.Gen.FunsMgr
import Sdmmc.Model.Mgr
import Sdmmc.Lemmas.GenMgr
import Sdmmc.Props.C08GenM

set_option linter.unusedSimpArgs false

namespace Sdmmc.Props.C01GenM

open Sdmmc Sdmmc.Model Sdmmc.Gen Sdmmc.Lemmas.GenMgr
open Sdmmc.Props.C08GenM (get_file_by_id_eq)

/-! ### `FileInfo` -/

theorem eof_eq (f : FileInfo) : FunsMgr.FileInfo_eof f = f.eof := rfl
theorem length_eq (f : FileInfo) : FunsMgr.FileInfo_length f = f.length := rfl
theorem update_length_eq (f : FileInfo) (n : Nat) : (FunsMgr.FileInfo_update_length f n).2 = f.updateLength n := rfl

/-- `seek_from_start`: the record changes exactly when the model's does; otherwise `InvalidOffset`. -/
theorem seek_from_start_eq (f : FileInfo) (offset : Nat) :
    FunsMgr.FileInfo_seek_from_start f offset =
      match f.seekFromStart offset with
      | some f' => (.ok (), f')
      | none => (.error "InvalidOffset", f) := by
  unfold FunsMgr.FileInfo_seek_from_start FileInfo.seekFromStart
  split <;> rfl

theorem seek_from_end_eq (f : FileInfo) (offset : Nat) :
    FunsMgr.FileInfo_seek_from_end f offset =
      match f.seekFromEnd offset with
      | some f' => (.ok (), f')
      | none => (.error "InvalidOffset", f) := by
  unfold FunsMgr.FileInfo_seek_from_end FileInfo.seekFromEnd
  split <;> rfl

/-- `seek_from_current` (`i64` arithmetic, `as u32` at the end) for a file whose size is a `u32`. -/
theorem seek_from_current_eq (f : FileInfo) (offset : Int) (hsize : f.entry.size < 4294967296) :
    FunsMgr.FileInfo_seek_from_current f offset =
      match f.seekFromCurrent offset with
      | some f' => (.ok (), f')
      | none => (.error "InvalidOffset", f) := by
  unfold FunsMgr.FileInfo_seek_from_current FileInfo.seekFromCurrent
  simp only []
  by_cases h : ((f.currentOffset : Int) + offset < 0 ∨ (f.currentOffset : Int) + offset > (f.entry.size : Int))
  · simp only [h, if_true]
  · simp only [h, if_false]
    have h1 : ((f.currentOffset : Int) + offset) % 4294967296 = (f.currentOffset : Int) + offset := by
      apply Int.emod_eq_of_lt <;> omega
    rw [h1]

/-! ### The manager's methods -/

theorem files_set_self (s : Mgr) (i : Nat) (f : FileInfo) (h : s.files[i]? = some f) :
    ({ s with files := s.files.set i f } : Mgr) = s := by
  have : s.files.set i f = s.files := by
    apply List.ext_getElem?
    intro j
    by_cases hj : i = j
    · subst hj
      rw [List.getElem?_set_self' , h]
      simp
    · rw [List.getElem?_set_ne hj]
  rw [this]

theorem getFile_ok (s : Mgr) (i : Nat) (f : FileInfo) (h : s.files[i]? = some f) : getFile i s = (.ok f, s) := by
  unfold getFile; rw [h]

theorem getFile_none (s : Mgr) (i : Nat) (h : s.files[i]? = none) :
    getFile i s = (.panic "file index out of range", s) := by
  unfold getFile; rw [h]

theorem file_eof_eq (file : Nat) (s : Mgr) :
    FunsMgr.VolumeManager_file_eof file s = if s.locked then (.err .LockError, s) else fileEof file s := by
  unfold FunsMgr.VolumeManager_file_eof fileEof
  simp only [bind_apply, get_apply, get_file_by_id_eq]
  cases hl : s.locked <;> simp only [ite_apply, Bool.false_eq_true, if_false, if_true, fail_apply, bind_apply, eof_eq]

theorem file_length_eq (file : Nat) (s : Mgr) :
    FunsMgr.VolumeManager_file_length file s = if s.locked then (.err .LockError, s) else fileLength file s := by
  unfold FunsMgr.VolumeManager_file_length fileLength
  simp only [bind_apply, get_apply, get_file_by_id_eq]
  cases hl : s.locked <;> simp only [ite_apply, Bool.false_eq_true, if_false, if_true, fail_apply, bind_apply, length_eq]

theorem file_offset_eq (file : Nat) (s : Mgr) :
    FunsMgr.VolumeManager_file_offset file s = if s.locked then (.err .LockError, s) else fileOffset file s := by
  unfold FunsMgr.VolumeManager_file_offset fileOffset
  simp only [bind_apply, get_apply, get_file_by_id_eq]
  cases hl : s.locked <;> simp only [ite_apply, Bool.false_eq_true, if_false, if_true, fail_apply, bind_apply]

/-- The read - call - write back of a seek on a table element, against the model's `setFile` on success. -/
theorem seek_elem {s1 : Mgr} (i : Nat) (g : FileInfo → (Except String Unit × FileInfo))
    (m : FileInfo → Option FileInfo)
    (hg : ∀ f, (∃ f', m f = some f' ∧ g f = (.ok (), f')) ∨ (m f = none ∧ g f = (.error "InvalidOffset", f))) :
    (((getFile i) >>= fun t =>
        let r := g t; ((setFile i r.2) >>= fun _ =>
          match r.1 with
          | Except.ok x => (pure x : M Unit)
          | Except.error _ => M.fail Err.InvalidOffset)) >>= fun _ => (M.get >>= fun _ => (pure () : M Unit))) s1 =
    ((getFile i) >>= fun f => match m f with
      | some f' => setFile i f'
      | none => M.fail Err.InvalidOffset) s1 := by
  simp only [bind_apply]
  rcases hf : s1.files[i]? with _ | f
  · rw [getFile_none s1 i hf]
  · rw [getFile_ok s1 i f hf]
    simp only []
    rcases hg f with ⟨f', h1, h2⟩ | ⟨h1, h2⟩
    · rw [h1, h2]
      simp only [setFile, modify_apply, bind_apply, pure_apply, get_apply]
    · rw [h1, h2]
      simp only [setFile, modify_apply, bind_apply, fail_apply, files_set_self s1 i f hf]

theorem file_seek_from_start_eq (file offset : Nat) (s : Mgr) :
    FunsMgr.VolumeManager_file_seek_from_start file offset s =
      if s.locked then (.err .LockError, s) else fileSeekFromStart file offset s := by
  unfold FunsMgr.VolumeManager_file_seek_from_start fileSeekFromStart
  simp only [bind_apply, get_apply, get_file_by_id_eq]
  cases hl : s.locked
  · simp only [ite_apply, Bool.false_eq_true, if_false, bind_apply]
    rcases getFileById file s with ⟨r, s1⟩
    cases r <;> simp only []
    refine seek_elem _ (fun f => FunsMgr.FileInfo_seek_from_start f offset) (fun f => f.seekFromStart offset) ?_
    intro f
    rw [seek_from_start_eq]
    cases f.seekFromStart offset with
    | none => exact .inr ⟨rfl, rfl⟩
    | some f' => exact .inl ⟨f', rfl, rfl⟩
  · simp only [ite_apply, if_true, fail_apply]

theorem file_seek_from_end_eq (file offset : Nat) (s : Mgr) :
    FunsMgr.VolumeManager_file_seek_from_end file offset s =
      if s.locked then (.err .LockError, s) else fileSeekFromEnd file offset s := by
  unfold FunsMgr.VolumeManager_file_seek_from_end fileSeekFromEnd
  simp only [bind_apply, get_apply, get_file_by_id_eq]
  cases hl : s.locked
  · simp only [ite_apply, Bool.false_eq_true, if_false, bind_apply]
    rcases getFileById file s with ⟨r, s1⟩
    cases r <;> simp only []
    refine seek_elem _ (fun f => FunsMgr.FileInfo_seek_from_end f offset) (fun f => f.seekFromEnd offset) ?_
    intro f
    rw [seek_from_end_eq]
    cases f.seekFromEnd offset with
    | none => exact .inr ⟨rfl, rfl⟩
    | some f' => exact .inl ⟨f', rfl, rfl⟩
  · simp only [ite_apply, if_true, fail_apply]

/-- `file_seek_from_current`, for tables whose files have `u32` sizes (as the Rust type gives them). -/
theorem file_seek_from_current_eq (file : Nat) (offset : Int) (s : Mgr)
    (hsz : ∀ f ∈ s.files, f.entry.size < 4294967296) :
    FunsMgr.VolumeManager_file_seek_from_current file offset s =
      if s.locked then (.err .LockError, s) else fileSeekFromCurrent file offset s := by
  unfold FunsMgr.VolumeManager_file_seek_from_current fileSeekFromCurrent
  simp only [bind_apply, get_apply, get_file_by_id_eq]
  cases hl : s.locked
  · simp only [ite_apply, Bool.false_eq_true, if_false, bind_apply]
    have hs1 : (getFileById file s).2 = s := by
      unfold getFileById; split <;> rfl
    rcases hg : getFileById file s with ⟨r, s1⟩
    rw [hg] at hs1
    simp only at hs1
    subst hs1
    cases r <;> simp only []
    rename_i i
    rcases hf : s1.files[i]? with _ | f
    · rw [getFile_none s1 i hf]
    · rw [getFile_ok s1 i f hf]
      simp only []
      have hmem : f ∈ s1.files := List.mem_of_getElem? hf
      rw [seek_from_current_eq f offset (hsz f hmem)]
      cases f.seekFromCurrent offset with
      | none => simp only [setFile, modify_apply, bind_apply, fail_apply, files_set_self s1 i f hf]
      | some f' => simp only [setFile, modify_apply, bind_apply, pure_apply, get_apply]
  · simp only [ite_apply, if_true, fail_apply]

end Sdmmc.Props.C01GenM
