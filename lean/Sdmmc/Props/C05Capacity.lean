/-
C05, second sentence — "A volume accepts data up to its nominal capacity and no further: a write
that does not fit reports an out-of-space error, everything reported as written is readable, and a
fill / delete / refill cycle can be repeated indefinitely."

Property theorems only; the proofs are in `Sdmmc.Lemmas.Capacity*`:
`CapacityLocate` / `CapacityLoop` / `CapacityWrite` (the loop of `write` again, this time counting
the clusters it appends and the free clusters it consumes), `CapacityFill` (one call classified by
the free space; read-back), `CapacitySeq` (sequences of calls), `CapacityReclaim` (delete,
truncate), `CapacityCycle` (close, the round, any number of rounds).
Specification vocabulary: `Sdmmc.Spec.Chain` (`Chain`, `FileOK`, `absFile`, `ByteFile`,
`clusterBytesLen`), `Sdmmc.Spec.Forest` (`Owns`, `isFree`, `freeCount`, `SameGeom`, `HintOK`,
`Ready`), `Sdmmc.Spec.DataPlane` (`withChain`, `Full`), `Sdmmc.Spec.Geom` (`WFGeom`, `regionOf`).
Model: `Sdmmc.Model.write`, `read`, `fileSeekFromStart`, `closeFile`, `deleteFileInDir`,
`Fat.truncateClusterChain`, `Fat.findDirectoryEntry`.

STATUS
* PROVED, every state satisfying the hypotheses of `Props.C01Write.write_refines` (bundled here as
  `Writable`) and `offset + data.length ≤ MAX_FILE_SIZE`:
  `clusters_needed`, `write_succeeds_if_space`, `write_fails_iff_no_space` (with read-back),
  `fill_within_capacity`, `fill_past_capacity`, `fill_to_capacity`.
* PROVED, conditional on the call answering `Ok` (it refuses directories and open files; that a
  lookup that succeeds is followed by a delete that succeeds is not proved):
  `delete_reclaims`, `delete_empty_file`.
* PROVED at the FAT-engine level only (the call `open_file_in_dir(.., ReadWriteTruncate)` around it
  is not covered): `truncate_chain_reclaims`.  A truncation KEEPS the first cluster: it gives back
  `cs.length - 1` clusters, not `cs.length`.
* PROVED with explicit glue (`Fresh`: what `ReadWriteCreate` leaves; `DeleteGlue`: after the close
  the lookup finds the flushed entry and the delete answers `Ok`): `fill_delete_refill_once`,
  `fill_delete_refill`.  `close_keeps_fat` (no glue) is the close step.  `Example` runs the whole
  round, create included, on a concrete medium and shows that the glue holds there.

Hypothesis beyond `Writable`: `offset + data.length ≤ MAX_FILE_SIZE` (`hmax`).  The excluded point is
`Props.C01Write.write_refines_unbounded`: a write that would pass `MAX_FILE_SIZE` is cut there and
answers `DiskFull` although the volume need not be full — so without `hmax` "out of space ⇔ too few
free clusters" is false.

What the statements say that one might not expect (all are facts of the model = of the Rust):
* an empty file written with ZERO bytes gets a cluster (`needed … = max (max n 1) …`), and on a volume
  without a free cluster such a write answers `NotEnoughSpace` (`Example.zero_write_on_full`) — so
  `fill_to_capacity` needs `1 ≤ F`;
* the out-of-space answer is `DiskFull` except when the file owns no cluster and none is free:
  then it is `NotEnoughSpace`, and nothing is stored;
* when a write does not fit, ALL free clusters are appended to the file and filled to the last
  byte: `offset + k = (cs.length + free) * cb`; the volume is full afterwards.
-/
import Sdmmc.Props.C01Write
import Sdmmc.Lemmas.CapacityCycle

namespace Sdmmc.Props.C05Capacity
open Sdmmc.Model Sdmmc.Model.Fat Sdmmc.Spec
open Sdmmc.Props.C01Read (MgrOK BlocksOK)

/-! ### Vocabulary -/

/-- `⌈a / b⌉`. -/
def ceilDiv (a b : Nat) : Nat := (a + b - 1) / b

/-- The clusters a file that has `n0` clusters needs to hold `total` bytes, `cb` bytes per cluster:
never fewer than it has, at least one (the model gives a file its first cluster before it looks at
the buffer), and enough for the bytes. -/
def needed (n0 total cb : Nat) : Nat := max (max n0 1) (ceilDiv total cb)

/-- The hypotheses of `Props.C01Write.write_refines`, bundled: `h` is an open, writable file
(slot `i`, record `f`) of an open volume (slot `vi`, record `v`); the manager is fault-free,
coherent, unlocked; the geometry is sane, the next-free hint names no reserved entry; the record is
consistent with the medium (chain `cs`); an empty file's cursor names no cluster; `cs` together with
`A` and `B` are exactly the chains of the volume. -/
structure Writable (s : Mgr) (h i vi : Nat) (f : FileInfo) (v : VolInfo) (cs : List Nat) (A B : List (List Nat)) : Prop where
  ok : MgrOK s
  handle : s.files.findIdx? (·.rawFile = h) = some i
  file : s.files[i]? = some f
  volume : s.vols.findIdx? (·.rawVolume = f.rawVolume) = some vi
  vol : s.vols[vi]? = some v
  mode : f.mode ≠ .ReadOnly
  geom : WFGeom v.vol
  hint : HintOK v.vol
  fileOK : FileOK v.vol s.dev.disk f cs
  cursor : cs = [] → f.curCluster < 2
  owns : Owns v.vol s.dev.disk (withChain A cs B)

/-- `write h b` for each buffer of the list, in order (an error does not stop the sequence): the
answers and the final state. -/
def writeMany (h : Nat) : List Bytes → Mgr → List (Res Unit) × Mgr
  | [], s => ([], s)
  | b :: bs, s => ((write h b s).1 :: (writeMany h bs (write h b s).2).1, (writeMany h bs (write h b s).2).2)

/-- Bytes per cluster and free clusters of a `Writable` state, for short. -/
abbrev cbOf (v : VolInfo) : Nat := clusterBytesLen v.vol
abbrev freeOf (s : Mgr) (v : VolInfo) : Nat := freeCount v.vol s.dev.disk

theorem Writable.toLemmas {s h i vi f v cs A B} (w : Writable s h i vi f v cs A B) :
    Lemmas.Capacity.WReady s h i vi f v cs A B :=
  ⟨w.ok, w.handle, w.file, w.volume, w.vol, w.mode, w.geom, w.hint, w.fileOK, w.cursor, w.owns⟩
theorem Writable.ofLemmas {s h i vi f v cs A B} (w : Lemmas.Capacity.WReady s h i vi f v cs A B) :
    Writable s h i vi f v cs A B :=
  ⟨w.ok, w.hh, w.hf, w.hv, w.hvi, w.mode, w.geom, w.hint, w.fileOK, w.cur, w.owns⟩
theorem writeMany_eq (h : Nat) : ∀ (bs : List Bytes) (s : Mgr), Lemmas.Capacity.writeMany h bs s = writeMany h bs s
  | [], _ => rfl
  | b :: bs, s => by
    show (_ :: (Lemmas.Capacity.writeMany h bs _).1, (Lemmas.Capacity.writeMany h bs _).2) = _
    rw [writeMany_eq h bs]; rfl
theorem writeMany_append (h : Nat) (d : Bytes) : ∀ (bs : List Bytes) (s : Mgr),
    writeMany h (bs ++ [d]) s = ((writeMany h bs s).1 ++ [(write h d (writeMany h bs s).2).1], (write h d (writeMany h bs s).2).2)
  | [], _ => rfl
  | b :: bs, s => by
    show (_ :: (writeMany h (bs ++ [d]) _).1, (writeMany h (bs ++ [d]) _).2) = _
    rw [writeMany_append h d bs]; rfl

/-! ### 1, 2. One call -/

/-- **Clusters needed.**  After a write that answers `Ok`, the chain of the file has exactly
`max (max cs.length 1) ⌈(offset + data.length) / cb⌉` clusters (and the old chain is a prefix of it).
An empty file written with zero bytes gets one cluster. -/
theorem clusters_needed (s : Mgr) (h i vi : Nat) (data : Bytes) (f : FileInfo) (v : VolInfo) (cs : List Nat)
    (A B : List (List Nat)) (w : Writable s h i vi f v cs A B)
    (hmax : f.currentOffset + data.length ≤ Gen.MAX_FILE_SIZE) :
    ∃ s' f' v' cs', (write h data s).2 = s' ∧ Writable s' h i vi f' v' cs' A B ∧ cs <+: cs' ∧
      ((write h data s).1 = .ok () → cs'.length = needed cs.length (f.currentOffset + data.length) (cbOf v)) := by
  obtain ⟨k, r, s', f', v', cs', hrun, hr', _, hpre, _, _, _, hcase⟩ :=
    Lemmas.Capacity.write_step s h i vi data f v cs A B w.toLemmas hmax
  refine ⟨s', f', v', cs', by rw [hrun], .ofLemmas hr', hpre, fun hok => ?_⟩
  rw [hrun] at hok
  rcases hcase with ⟨_, _, _, hlen, _⟩ | ⟨_, hres, _⟩
  · exact hlen
  · rcases hres with ⟨e, _⟩ | ⟨e, _⟩ <;> (rw [e] at hok; cases hok)

/-- **Enough space ⇒ `Ok`.**  If the volume has at least `needed - cs.length` free clusters, the
write answers `Ok` and stores everything (the byte-array view is the model's `write`); the chain has
exactly `needed` clusters afterwards, and exactly the appended ones have left the free clusters. -/
theorem write_succeeds_if_space (s : Mgr) (h i vi : Nat) (data : Bytes) (f : FileInfo) (v : VolInfo) (cs : List Nat)
    (A B : List (List Nat)) (w : Writable s h i vi f v cs A B)
    (hmax : f.currentOffset + data.length ≤ Gen.MAX_FILE_SIZE)
    (hspace : needed cs.length (f.currentOffset + data.length) (cbOf v) - cs.length ≤ freeOf s v) :
    ∃ s' f' v' cs', write h data s = (.ok (), s') ∧ Writable s' h i vi f' v' cs' A B ∧ cs <+: cs' ∧
      cs'.length = needed cs.length (f.currentOffset + data.length) (cbOf v) ∧
      cs'.length - cs.length ≤ freeOf s v ∧ freeOf s' v' = freeOf s v - (cs'.length - cs.length) ∧
      absFile v'.vol s'.dev.disk f' cs' = (absFile v.vol s.dev.disk f cs).write data := by
  obtain ⟨k, r, s', f', v', cs', hrun, hr', _, hpre, habs, _, _, hcase⟩ :=
    Lemmas.Capacity.write_step s h i vi data f v cs A B w.toLemmas hmax
  rcases hcase with ⟨_, hr, hk, hlen, hfc⟩ | ⟨hlt, _⟩
  · subst hr; subst hk
    rw [List.take_length] at habs
    exact ⟨s', f', v', cs', hrun, .ofLemmas hr', hpre, hlen, by show _ ≤ freeCount _ _; omega,
      by show freeCount _ _ = freeCount _ _ - _; omega, habs⟩
  · exact absurd hspace (by show ¬ _ ≤ freeCount _ _; exact Nat.not_le.2 hlt)

/-- **Out of space ⇔ too few free clusters**, and what happens then.  `write h data` stores the first
`k` bytes of `data` (the byte-array view afterwards is the model's `write` of `data.take k`), and
* it answers `Ok` iff `needed - cs.length ≤ free`, an out-of-space error (`DiskFull` or
  `NotEnoughSpace`) iff `free < needed - cs.length`; there is no other answer;
* in the second case ALL `free` clusters have been appended to the chain, the volume is full
  (`freeCount = 0`, `Full`), the bytes stored are exactly those that fit:
  `offset + k = (cs.length + free) * cb`; the answer is `NotEnoughSpace` exactly when the file had no
  cluster and the volume none to give (then `k = 0`);
* **everything reported as written is readable**: seeking to any `p` inside the file and reading `n`
  bytes answers the model's bytes `(bytes.drop p).take n`, `bytes` being the old contents with
  `data.take k` written at the old offset. -/
theorem write_fails_iff_no_space (s : Mgr) (h i vi : Nat) (data : Bytes) (f : FileInfo) (v : VolInfo) (cs : List Nat)
    (A B : List (List Nat)) (w : Writable s h i vi f v cs A B)
    (hmax : f.currentOffset + data.length ≤ Gen.MAX_FILE_SIZE) :
    ∃ k r s' f' v' cs', write h data s = (r, s') ∧ k ≤ data.length ∧ Writable s' h i vi f' v' cs' A B ∧ cs <+: cs' ∧
      absFile v'.vol s'.dev.disk f' cs' = (absFile v.vol s.dev.disk f cs).write (data.take k) ∧
      (r = .ok () ↔ needed cs.length (f.currentOffset + data.length) (cbOf v) - cs.length ≤ freeOf s v) ∧
      ((r = .err .DiskFull ∨ r = .err .NotEnoughSpace) ↔
        freeOf s v < needed cs.length (f.currentOffset + data.length) (cbOf v) - cs.length) ∧
      (r = .ok () → k = data.length) ∧
      (freeOf s v < needed cs.length (f.currentOffset + data.length) (cbOf v) - cs.length →
        cs'.length = cs.length + freeOf s v ∧ freeOf s' v' = 0 ∧ Full v'.vol s'.dev.disk ∧
        f.currentOffset + k = (cs.length + freeOf s v) * cbOf v ∧
        (r = .err .NotEnoughSpace ↔ cs.length + freeOf s v = 0)) ∧
      ∀ p n, p ≤ ((absFile v.vol s.dev.disk f cs).write (data.take k)).bytes.length →
        ∃ s2 s3, fileSeekFromStart h p s' = (.ok (), s2) ∧
          read h n s2 = (.ok ((((absFile v.vol s.dev.disk f cs).write (data.take k)).bytes.drop p).take n), s3) := by
  obtain ⟨k, r, s', f', v', cs', hrun, hr', _, hpre, habs, _, _, hcase⟩ :=
    Lemmas.Capacity.write_step s h i vi data f v cs A B w.toLemmas hmax
  have hback : ∀ p n, p ≤ ((absFile v.vol s.dev.disk f cs).write (data.take k)).bytes.length →
      ∃ s2 s3, fileSeekFromStart h p s' = (.ok (), s2) ∧
        read h n s2 = (.ok ((((absFile v.vol s.dev.disk f cs).write (data.take k)).bytes.drop p).take n), s3) := by
    intro p n hp
    rw [← habs] at hp ⊢
    exact Lemmas.Capacity.ready_readback s' h i vi f' v' cs' A B hr' p n hp
  rcases hcase with ⟨hfit, hr, hk, _, _⟩ | ⟨hlt, hres, hk, hlen, hz, hoff⟩
  · refine ⟨k, r, s', f', v', cs', hrun, by omega, .ofLemmas hr', hpre, habs, ⟨fun _ => hfit, fun _ => hr⟩, ?_, fun _ => hk,
      fun hlt => absurd hfit (Nat.not_le.2 hlt), hback⟩
    constructor
    · rintro (e | e) <;> (rw [hr] at e; cases e)
    · intro hlt; exact absurd hfit (Nat.not_le.2 hlt)
  · have hkle : k ≤ data.length := by split at hk <;> omega
    have hnotok : r ≠ .ok () := by rcases hres with ⟨e, _⟩ | ⟨e, _⟩ <;> (rw [e]; intro c; cases c)
    refine ⟨k, r, s', f', v', cs', hrun, hkle, .ofLemmas hr', hpre, habs,
      ⟨fun e => absurd e hnotok, fun hfit => absurd hfit (Nat.not_le.2 hlt)⟩,
      ⟨fun _ => hlt, fun _ => hres.imp (·.1) (·.1)⟩, fun e => absurd e hnotok, fun _ => ⟨hlen, hz, ?_, hoff, ?_⟩, hback⟩
    · exact (Lemmas.Capacity.full_iff_freeCount_zero _ _).2 hz
    · rcases hres with ⟨e, hne⟩ | ⟨e, _, hnil⟩
      · constructor
        · intro e'; rw [e] at e'; cases e'
        · intro h0
          have : cs'.length = 0 := by rw [hlen]; exact h0
          exact absurd (List.length_eq_zero_iff.1 this) hne
      · exact ⟨fun _ => by rw [← hlen, hnil]; rfl, fun _ => e⟩

/-! ### 3. Filling -/

/-- **Within capacity.**  A file positioned at its end (`offset = size`), `cs.length` clusters, on a
volume with `free` free clusters, at least one cluster in all.  Buffers, of any number and sizes,
whose total length keeps `offset + total` within `(cs.length + free) * cb` are ALL accepted: every
call answers `Ok`; the file is the old bytes followed by the buffers; clusters are conserved. -/
theorem fill_within_capacity (s : Mgr) (h i vi : Nat) (bs : List Bytes) (f : FileInfo) (v : VolInfo) (cs : List Nat)
    (A B : List (List Nat)) (w : Writable s h i vi f v cs A B) (hend : f.currentOffset = f.entry.size)
    (hone : 1 ≤ cs.length + freeOf s v)
    (hcap : f.currentOffset + bs.flatten.length ≤ (cs.length + freeOf s v) * cbOf v)
    (hmax : f.currentOffset + bs.flatten.length ≤ Gen.MAX_FILE_SIZE) :
    ∃ s' f' v' cs', writeMany h bs s = (bs.map fun _ => .ok (), s') ∧ Writable s' h i vi f' v' cs' A B ∧
      cs <+: cs' ∧ f'.currentOffset = f.currentOffset + bs.flatten.length ∧ f'.entry.size = f'.currentOffset ∧
      (absFile v'.vol s'.dev.disk f' cs').bytes = (absFile v.vol s.dev.disk f cs).bytes ++ bs.flatten ∧
      cs'.length + freeOf s' v' = cs.length + freeOf s v ∧
      (bs ≠ [] → cs'.length = needed cs.length (f.currentOffset + bs.flatten.length) (cbOf v)) := by
  obtain ⟨s', f', v', cs', hrun, hr', _, hpre, hoff, hsize, hbytes, hsum, hlen, _⟩ :=
    Lemmas.Capacity.fill_ok h i vi A B bs s f v cs w.toLemmas hend hone hcap hmax
  exact ⟨s', f', v', cs', by rw [← writeMany_eq]; exact hrun, .ofLemmas hr', hpre, hoff, by rw [hsize, hoff], hbytes, hsum, hlen⟩

/-- **Past capacity.**  In the same situation, a buffer that does not fit any more: the call answers
`DiskFull`; exactly the `(cs.length + free) * cb - offset` bytes that still fit are stored (the file is
the old bytes followed by that prefix of the buffer); the chain has taken all free clusters and none is
left. -/
theorem fill_past_capacity (s : Mgr) (h i vi : Nat) (data : Bytes) (f : FileInfo) (v : VolInfo) (cs : List Nat)
    (A B : List (List Nat)) (w : Writable s h i vi f v cs A B) (hend : f.currentOffset = f.entry.size)
    (hone : 1 ≤ cs.length + freeOf s v)
    (hover : (cs.length + freeOf s v) * cbOf v < f.currentOffset + data.length)
    (hmax : f.currentOffset + data.length ≤ Gen.MAX_FILE_SIZE) :
    ∃ k s' f' v' cs', write h data s = (.err .DiskFull, s') ∧ Writable s' h i vi f' v' cs' A B ∧ cs <+: cs' ∧
      f.currentOffset + k = (cs.length + freeOf s v) * cbOf v ∧ k < data.length ∧
      f'.currentOffset = f.currentOffset + k ∧ f'.entry.size = f'.currentOffset ∧
      (absFile v'.vol s'.dev.disk f' cs').bytes = (absFile v.vol s.dev.disk f cs).bytes ++ data.take k ∧
      cs'.length = cs.length + freeOf s v ∧ freeOf s' v' = 0 := by
  obtain ⟨k, s', f', v', cs', hrun, hr', _, hpre, hk, hlt, hoff, hsize, hbytes, hlen, hz⟩ :=
    Lemmas.Capacity.fill_over s h i vi data f v cs A B w.toLemmas hend hone hover hmax
  exact ⟨k, s', f', v', cs', hrun, .ofLemmas hr', hpre, hk, hlt, hoff, by rw [hsize, hoff], hbytes, hlen, hz⟩

/-- **Fill to capacity.**  An empty file (no cluster, size 0) on a volume with `F ≥ 1` free clusters
accepts exactly `F * cb` bytes, in any number of `write` calls of any sizes:
* buffers of total length `≤ F * cb` are all answered `Ok` and the file holds their concatenation;
* if the last buffer of a sequence is the first to pass `F * cb`, the calls before it answer `Ok`, it
  answers `DiskFull`, the file holds exactly the first `F * cb` bytes of the concatenation, its chain
  has `F` clusters and no cluster of the volume is free. -/
theorem fill_to_capacity (s : Mgr) (h i vi : Nat) (f : FileInfo) (v : VolInfo) (A B : List (List Nat))
    (w : Writable s h i vi f v [] A B) (hF : 1 ≤ freeOf s v) (hmaxF : freeOf s v * cbOf v ≤ Gen.MAX_FILE_SIZE) :
    (∀ bs : List Bytes, bs.flatten.length ≤ freeOf s v * cbOf v →
      ∃ s' f' v' cs', writeMany h bs s = (bs.map fun _ => .ok (), s') ∧ Writable s' h i vi f' v' cs' A B ∧
        (absFile v'.vol s'.dev.disk f' cs').bytes = bs.flatten ∧ cs'.length + freeOf s' v' = freeOf s v) ∧
    (∀ (bs : List Bytes) (data : Bytes), bs.flatten.length ≤ freeOf s v * cbOf v →
      freeOf s v * cbOf v < bs.flatten.length + data.length → bs.flatten.length + data.length ≤ Gen.MAX_FILE_SIZE →
      ∃ s' f' v' cs', writeMany h (bs ++ [data]) s = ((bs.map fun _ => .ok ()) ++ [.err .DiskFull], s') ∧
        Writable s' h i vi f' v' cs' A B ∧
        (absFile v'.vol s'.dev.disk f' cs').bytes = (bs.flatten ++ data).take (freeOf s v * cbOf v) ∧
        cs'.length = freeOf s v ∧ freeOf s' v' = 0) := by
  have hsize : f.entry.size = 0 := by have := w.fileOK.size_fits; simpa using this
  have hoff : f.currentOffset = 0 := by have := w.fileOK.pos_le; omega
  have hbytes0 : (absFile v.vol s.dev.disk f []).bytes = [] := by
    show fileContent v.vol s.dev.disk [] f.entry.size = []
    unfold fileContent chainBytes; simp
  have hfill : ∀ bs : List Bytes, bs.flatten.length ≤ freeOf s v * cbOf v →
      ∃ s' f' v' cs', writeMany h bs s = (bs.map fun _ => .ok (), s') ∧ Writable s' h i vi f' v' cs' A B ∧
        f'.currentOffset = bs.flatten.length ∧ f'.entry.size = f'.currentOffset ∧
        (absFile v'.vol s'.dev.disk f' cs').bytes = bs.flatten ∧ cs'.length + freeOf s' v' = freeOf s v ∧
        cbOf v' = cbOf v := by
    intro bs hbs
    have hbm : f.currentOffset + bs.flatten.length ≤ Gen.MAX_FILE_SIZE := by
      have : bs.flatten.length ≤ Gen.MAX_FILE_SIZE := Nat.le_trans hbs hmaxF
      omega
    obtain ⟨s', f', v', cs', hrun, hr', hsg, _, hoff', hsize', hb', hsum, _⟩ :=
      Lemmas.Capacity.fill_ok h i vi A B bs s f v [] w.toLemmas (by rw [hoff, hsize]) (by simpa using hF)
        (by rw [hoff]; simpa using hbs) hbm
    exact ⟨s', f', v', cs', by rw [← writeMany_eq]; exact hrun, .ofLemmas hr', by rw [hoff', hoff]; omega,
      by rw [hsize', hoff'], by rw [hb', hbytes0]; rfl, by simpa using hsum, Lemmas.WriteRefines.sameGeom_clusterBytesLen hsg⟩
  refine ⟨fun bs hbs => ?_, fun bs data hbs hover hmax => ?_⟩
  · obtain ⟨s', f', v', cs', h1, h2, _, _, h5, h6, _⟩ := hfill bs hbs
    exact ⟨s', f', v', cs', h1, h2, h5, h6⟩
  · obtain ⟨s1, f1, v1, cs1, hrun1, hw1, hoff1, hsize1, hb1, hsum1, hcb1⟩ := hfill bs hbs
    have hcap1 : (cs1.length + freeOf s1 v1) * cbOf v1 = freeOf s v * cbOf v := by rw [hsum1, hcb1]
    obtain ⟨k, s', f', v', cs', hrun', hw', _, hk, _, _, _, hb', hlen', hz'⟩ :=
      fill_past_capacity s1 h i vi data f1 v1 cs1 A B hw1 hsize1.symm (by rw [hsum1]; exact hF)
        (by rw [hcap1, hoff1]; exact hover) (by rw [hoff1]; exact hmax)
    refine ⟨s', f', v', cs', ?_, hw', ?_, by rw [hlen', hsum1], hz'⟩
    · rw [writeMany_append, hrun1]; simp only; rw [hrun']
    · rw [hb', hb1]
      rw [hcap1, hoff1] at hk
      rw [← hk, List.take_length_add_append]

/-! ### 4. Giving clusters back -/

/-- **Delete reclaims the chain.**  The directory handle, its volume `v` (slot `vi`) and the name
resolve; the lookup finds the entry `e`; `A ++ [e.cluster :: tail] ++ B` are exactly the chains of the
volume (so `e.cluster :: tail` is the chain of the file).  IF `delete_file_in_dir` answers `Ok` (it
refuses directories and open files), then: the tables are as before except the volume record, which
differs in its two bookkeeping fields at most; `A ++ B` are exactly the chains of the volume; every
cluster of the deleted chain is free (so `Props.C05.alloc_succeeds_if_free` hands it out again); the
number of free clusters has grown by the length of the chain; no block outside the FAT differs except
the one directory block that got the deleted mark. -/
theorem delete_reclaims (s sF : Mgr) (directory di vi : Nat) (name : List Nat) (sfn : Bytes) (d : DirInfo) (v : VolInfo)
    (e : DirEntry) (A B : List (List Nat)) (tail : List Nat)
    (hs : MgrOK s) (hdi : s.dirs.findIdx? (·.rawDirectory = directory) = some di) (hd : s.dirs[di]? = some d)
    (hv : s.vols.findIdx? (·.rawVolume = d.rawVolume) = some vi) (hvi : s.vols[vi]? = some v)
    (hsfn : Sfn.createFromStr name = .ok sfn) (hg : WFGeom v.vol) (hh : HintOK v.vol)
    (hown : Owns v.vol s.dev.disk (A ++ [e.cluster :: tail] ++ B))
    (hfind : (Fat.findDirectoryEntry d.cluster sfn { dev := s.dev, cache := s.cache, vol := v.vol }).1 = .ok e)
    (hrun : deleteFileInDir directory name s = (.ok (), sF)) :
    ∃ v', sF.vols = s.vols.set vi v' ∧ v'.rawVolume = v.rawVolume ∧ SameGeom v.vol v'.vol ∧ HintOK v'.vol ∧
      MgrOK sF ∧ sF.files = s.files ∧ sF.dirs = s.dirs ∧
      Owns v'.vol sF.dev.disk (A ++ B) ∧
      (∀ c, c ∈ e.cluster :: tail → isFree v'.vol sF.dev.disk c) ∧
      freeCount v'.vol sF.dev.disk = freeCount v.vol s.dev.disk + (e.cluster :: tail).length ∧
      ∃ b, regionOf v.vol b ≠ .fat ∧ ∀ i, regionOf v.vol i ≠ .fat → i ≠ b → sF.dev.disk.get i = s.dev.disk.get i :=
  Lemmas.Capacity.delete_reclaims s sF directory di vi name sfn d v e A B tail hs hdi hd hv hvi hsfn hg hh hown hfind hrun

/-- Deleting a file that owns no cluster (`e.cluster < 2`) leaves the FAT alone: same chains, same
number of free clusters. -/
theorem delete_empty_file (s sF : Mgr) (directory di vi : Nat) (name : List Nat) (sfn : Bytes) (d : DirInfo) (v : VolInfo)
    (e : DirEntry) (G : List (List Nat))
    (hs : MgrOK s) (hdi : s.dirs.findIdx? (·.rawDirectory = directory) = some di) (hd : s.dirs[di]? = some d)
    (hv : s.vols.findIdx? (·.rawVolume = d.rawVolume) = some vi) (hvi : s.vols[vi]? = some v)
    (hsfn : Sfn.createFromStr name = .ok sfn) (hg : WFGeom v.vol)
    (hown : Owns v.vol s.dev.disk G) (hempty : e.cluster < 2)
    (hfind : (Fat.findDirectoryEntry d.cluster sfn { dev := s.dev, cache := s.cache, vol := v.vol }).1 = .ok e)
    (hrun : deleteFileInDir directory name s = (.ok (), sF)) :
    sF.vols = s.vols ∧ MgrOK sF ∧ sF.files = s.files ∧ sF.dirs = s.dirs ∧
      Owns v.vol sF.dev.disk G ∧ freeCount v.vol sF.dev.disk = freeCount v.vol s.dev.disk :=
  Lemmas.Capacity.delete_empty s sF directory di vi name sfn d v e G hs hdi hd hv hvi hsfn hg hown hempty hfind hrun

/-- **Truncation reclaims the tail** — FAT-engine level: `truncate_cluster_chain(c)`, the call
`open_file_in_dir(.., ReadWriteTruncate)` issues on the first cluster `c` of an existing file.  Of the
chain `c :: tail` the first cluster STAYS (as a one-cluster chain); every cluster of `tail` is free
afterwards and the number of free clusters has grown by `tail.length`. -/
theorem truncate_chain_reclaims (s : FS) (A B : List (List Nat)) (c : Nat) (tail : List Nat) (hr : Ready s)
    (ho : Owns s.vol s.dev.disk (A ++ [c :: tail] ++ B)) :
    ∃ s', truncateClusterChain c s = (.ok (), s') ∧ Ready s' ∧ SameGeom s.vol s'.vol ∧
      Owns s'.vol s'.dev.disk (A ++ [[c]] ++ B) ∧
      (∀ y, y ∈ tail → isFree s'.vol s'.dev.disk y) ∧
      freeCount s'.vol s'.dev.disk = freeCount s.vol s.dev.disk + tail.length :=
  Lemmas.Capacity.truncate_chain_reclaims s A B c tail hr ho

/-! ### 5. Fill, delete, refill -/

/-- **Closing keeps the FAT.**  A `Writable`, dirty file whose directory slot lies inside its block,
carries an 11-byte name and is not in a FAT block: `close_file` answers `Ok`, drops the record, leaves
the volume and directory tables alone; the chains of the volume and the number of free clusters are
unchanged. -/
theorem close_keeps_fat (s : Mgr) (h i vi : Nat) (f : FileInfo) (v : VolInfo) (cs : List Nat) (A B : List (List Nat))
    (w : Writable s h i vi f v cs A B) (hd : f.dirty = true) (ho : f.entry.entryOffset + 32 ≤ 512)
    (hname : f.entry.name.length = 11) (hreg : regionOf v.vol f.entry.entryBlock ≠ .fat) :
    ∃ s', closeFile h s = (.ok (), s') ∧ MgrOK s' ∧ s'.vols = s.vols ∧ s'.dirs = s.dirs ∧
      s'.files = swapRemove s.files i ∧
      Owns v.vol s'.dev.disk (withChain A cs B) ∧ freeCount v.vol s'.dev.disk = freeCount v.vol s.dev.disk :=
  Lemmas.Capacity.close_keeps_fat s h i vi f v cs A B w.toLemmas hd ho hname hreg

/-- The invariant between rounds: the manager is fault-free, coherent and unlocked; slot `vi` holds a
volume with sane geometry; the chains `G` are exactly the chains of the volume; `F` clusters are free. -/
def VolInv (vi : Nat) (G : List (List Nat)) (F : Nat) (s : Mgr) : Prop :=
  MgrOK s ∧ ∃ v, s.vols[vi]? = some v ∧ WFGeom v.vol ∧ HintOK v.vol ∧ Owns v.vol s.dev.disk G ∧
    freeCount v.vol s.dev.disk = F

/-- GLUE 1 — the state a successful `open_file_in_dir(.., ReadWriteCreate)` leaves when the directory
had a free slot (so that its own chain did not grow): handle `h` (slot `i`) is a writable file on the
volume in slot `vi` that owns no cluster (offset and size 0); all the chains of the volume are `G`, `F`
clusters are free, `F * cb ≤ MAX_FILE_SIZE`; the file's directory slot lies inside its block, carries
an 11-byte name, and is not in a FAT block.  (`Example.fresh` shows the state; `Example.create_gives_fresh`
that the call produces it.) -/
def Fresh (vi : Nat) (G : List (List Nat)) (F : Nat) (h i : Nat) (s : Mgr) : Prop :=
  ∃ f v, Writable s h i vi f v [] G [] ∧ f.currentOffset = 0 ∧ f.entry.size = 0 ∧
    freeCount v.vol s.dev.disk = F ∧ F * clusterBytesLen v.vol ≤ Gen.MAX_FILE_SIZE ∧
    f.entry.entryOffset + 32 ≤ 512 ∧ f.entry.name.length = 11 ∧ regionOf v.vol f.entry.entryBlock ≠ .fat

/-- GLUE 2 — after the file has been filled (state `s1`) and closed (state `s2`): `directory` / `name`
resolve to the volume slot `vi`; the lookup of the name finds an entry whose first cluster is the one
the closed record carried (what `flush_file` wrote into the slot; `Props.C02Reopen.reopen_reads_flushed`
proves this under its first-hit hypotheses); and `delete_file_in_dir` answers `Ok`. -/
def DeleteGlue (vi i : Nat) (directory : Nat) (name : List Nat) (s1 s2 : Mgr) : Prop :=
  ∃ di d sfn, s2.dirs.findIdx? (·.rawDirectory = directory) = some di ∧ s2.dirs[di]? = some d ∧
    s2.vols.findIdx? (·.rawVolume = d.rawVolume) = some vi ∧ Sfn.createFromStr name = .ok sfn ∧
    (∀ v2 f1, s2.vols[vi]? = some v2 → s1.files[i]? = some f1 →
      ∃ e, (Fat.findDirectoryEntry d.cluster sfn { dev := s2.dev, cache := s2.cache, vol := v2.vol }).1 = .ok e ∧
        e.cluster = f1.entry.cluster) ∧
    (deleteFileInDir directory name s2).1 = .ok ()

/-- The state after one round from `s0`: fill with `bs`, close, delete. -/
def afterRound (h directory : Nat) (name : List Nat) (bs : List Bytes) (s0 : Mgr) : Mgr :=
  (deleteFileInDir directory name (closeFile h (writeMany h bs s0).2).2).2

theorem Fresh.toLemmas {vi G F h i s} (x : Fresh vi G F h i s) : Lemmas.Capacity.Fresh vi G F h i s := by
  obtain ⟨f, v, w, rest⟩ := x
  exact ⟨f, v, w.toLemmas, rest⟩

/-- **One round.**  From a `Fresh` state with `F ≥ 1` free clusters: buffers of `F * cb` bytes in all
are all accepted; then the file's chain has `F` clusters, the file holds the buffers, no cluster is
free, and every further non-empty write answers `DiskFull` and stores nothing; `close_file` answers
`Ok`; and — under `DeleteGlue` — after `delete_file_in_dir` the chains of the volume are `G` again and
`F` clusters are free again. -/
theorem fill_delete_refill_once (vi : Nat) (G : List (List Nat)) (F h i directory : Nat) (name : List Nat) (s0 : Mgr)
    (bs : List Bytes) (hfresh : Fresh vi G F h i s0) (hF : 1 ≤ F)
    (htotal : ∀ v, s0.vols[vi]? = some v → bs.flatten.length = F * clusterBytesLen v.vol)
    (hglue : DeleteGlue vi i directory name (writeMany h bs s0).2 (closeFile h (writeMany h bs s0).2).2) :
    (writeMany h bs s0).1 = bs.map (fun _ => .ok ()) ∧
    (∃ f1 v1 cs1, Writable (writeMany h bs s0).2 h i vi f1 v1 cs1 G [] ∧ cs1.length = F ∧
       freeCount v1.vol (writeMany h bs s0).2.dev.disk = 0 ∧
       (absFile v1.vol (writeMany h bs s0).2.dev.disk f1 cs1).bytes = bs.flatten ∧
       ∀ data : Bytes, data ≠ [] → f1.currentOffset + data.length ≤ Gen.MAX_FILE_SIZE →
         ∃ s', write h data (writeMany h bs s0).2 = (.err .DiskFull, s') ∧
           ∃ f' v', Writable s' h i vi f' v' cs1 G [] ∧ (absFile v'.vol s'.dev.disk f' cs1).bytes = bs.flatten) ∧
    (closeFile h (writeMany h bs s0).2).1 = .ok () ∧
    VolInv vi G F (afterRound h directory name bs s0) := by
  unfold afterRound
  rw [← writeMany_eq] at hglue ⊢
  obtain ⟨h1, ⟨f1, v1, cs1, hw1, hl1, hz1, hb1, hmore⟩, h3, h4⟩ :=
    Lemmas.Capacity.cycle_once vi G F h i directory name s0 bs hfresh.toLemmas hF htotal hglue
  refine ⟨h1, ⟨f1, v1, cs1, .ofLemmas hw1, hl1, hz1, hb1, fun data hd hm => ?_⟩, h3, h4⟩
  obtain ⟨s', hr, f', v', hw', hb'⟩ := hmore data hd hm
  exact ⟨s', hr, f', v', .ofLemmas hw', hb'⟩

/-- `n` rounds.  Between rounds a new file is created; that call is not modelled here: `create s h i s0`
is any relation (see `fill_delete_refill`). -/
inductive Rounds (vi : Nat) (create : Mgr → Nat → Nat → Mgr → Prop) (F : Nat) : Nat → Mgr → Mgr → Prop
  | zero (s : Mgr) : Rounds vi create F 0 s s
  | succ (n : Nat) (s sn s0 : Mgr) (h i directory : Nat) (name : List Nat) (bs : List Bytes) :
      Rounds vi create F n s sn → create sn h i s0 →
      (∀ v, s0.vols[vi]? = some v → bs.flatten.length = F * clusterBytesLen v.vol) →
      DeleteGlue vi i directory name (writeMany h bs s0).2 (closeFile h (writeMany h bs s0).2).2 →
      Rounds vi create F (n + 1) s (afterRound h directory name bs s0)

/-- **Fill / delete / refill, indefinitely.**  If creating a file keeps the invariant (hypothesis
`hcreate`: from a state satisfying `VolInv vi G F` the create leads to a `Fresh` state with the same `G`
and `F` — true of `open_file_in_dir` when the directory has a free slot, e.g. the one the previous
round's delete marked), then after ANY number of rounds — create, fill to capacity (`F * cb` bytes, all
accepted), close, delete — the chains of the volume are `G` and `F` clusters are free, as at the start;
so the next round again accepts exactly `F * cb` bytes (`fill_delete_refill_once`). -/
theorem fill_delete_refill (vi : Nat) (G : List (List Nat)) (F : Nat) (create : Mgr → Nat → Nat → Mgr → Prop) (hF : 1 ≤ F)
    (hcreate : ∀ s h i s0, VolInv vi G F s → create s h i s0 → Fresh vi G F h i s0) :
    ∀ (n : Nat) (s sE : Mgr), VolInv vi G F s → Rounds vi create F n s sE → VolInv vi G F sE := by
  intro n s sE hinv hc
  induction hc with
  | zero s => exact hinv
  | succ n s sn s0 h i directory name bs _ hcr htot hglue ih =>
    exact (fill_delete_refill_once vi G F h i directory name s0 bs (hcreate sn h i s0 (ih hinv) hcr) hF htot hglue).2.2.2

/-! ### Non-vacuity: a concrete medium

The medium of `Props.C01Write.Example`, read through the volume record `volS` with 6 clusters (2 … 7),
one block per cluster: clusters 5, 2, 7 (one file) and 3 (another) are used, 4 and 6 are free — room
for `2 * 512` bytes.  The root directory (block 9) is empty. -/

namespace Example
open Sdmmc.Props.C01Read.Example Sdmmc.Props.C01Write.Example

def vinfoS : VolInfo := { vinfo with vol := volS }
def rootDir : DirInfo := { rawDirectory := 4, rawVolume := 0, cluster := 0xFFFFFFFC }
/-- "A.TXT" and its 8.3 form. -/
def nameA : List Nat := [0x41, 0x2E, 0x54, 0x58, 0x54]
def sfnA : Bytes := [0x41, 0x20, 0x20, 0x20, 0x20, 0x20, 0x20, 0x20, 0x54, 0x58, 0x54]
def entryA : DirEntry := DirEntry.new sfnA 0 0 default 9 0
def fileA : FileInfo :=
  { rawFile := 5, rawVolume := 0, curClusterOff := 0, curCluster := 0, currentOffset := 0, mode := .ReadWriteCreate,
    entry := entryA, dirty := false }
/-- Before the create: the two files of `C01Write.Example` open, the root directory open as handle 4. -/
def mgr0 : Mgr := { mgrS with dirs := [rootDir], files := [fileW, file2W] }
/-- The medium after the create: the new entry in slot 0 of the root directory. -/
def diskF : Disk := disk.set 9 (entryA.serialize .fat16 ++ zeros 480)
/-- What the create leaves (up to the cache and the device's bookkeeping). -/
def mgrF : Mgr := { mgr0 with dev := { disk := diskF }, nextId := 6, files := [fileW, file2W, fileA] }

/-- A file table / volume table, made comparable. -/
def fsummary (s : Mgr) : List (List Nat × Bool × Bool × Bytes) :=
  s.files.map fun f => ([f.rawFile, f.rawVolume, f.curClusterOff, f.curCluster, f.currentOffset, f.entry.attributes,
    f.entry.cluster, f.entry.size, f.entry.entryBlock, f.entry.entryOffset], f.dirty, decide (f.mode = .ReadWriteCreate),
    f.entry.name)
def vsummary (s : Mgr) :=
  s.vols.map fun v => (v.rawVolume, v.vol.clusterCount, v.vol.freeClustersCount, v.vol.nextFreeCluster)

/-- `open_file_in_dir(root, "A.TXT", ReadWriteCreate)` on `mgr0` answers handle 5 and leaves the tables
and the medium of `mgrF`. -/
theorem create_gives_fresh :
    (openFileInDir 4 nameA .ReadWriteCreate mgr0).1 = .ok 5 ∧
    fsummary (openFileInDir 4 nameA .ReadWriteCreate mgr0).2 = fsummary mgrF ∧
    vsummary (openFileInDir 4 nameA .ReadWriteCreate mgr0).2 = vsummary mgrF ∧
    (openFileInDir 4 nameA .ReadWriteCreate mgr0).2.dirs = mgrF.dirs ∧
    (openFileInDir 4 nameA .ReadWriteCreate mgr0).2.nextId = mgrF.nextId ∧
    (openFileInDir 4 nameA .ReadWriteCreate mgr0).2.dev.disk.m.toList = mgrF.dev.disk.m.toList ∧
    (openFileInDir 4 nameA .ReadWriteCreate mgr0).2.dev.faults = [] ∧
    (openFileInDir 4 nameA .ReadWriteCreate mgr0).2.locked = false := by decide +kernel

theorem blocksOKF : Spec.BlocksOK diskF :=
  Lemmas.FatOps.blocksOK_set disk 9 (entryA.serialize .fat16 ++ zeros 480) blocksOK (by decide +kernel)
theorem mgrOKF : MgrOK mgrF := ⟨rfl, fun i h => (by cases h), blocksOKF, rfl⟩
theorem mgrOKS : MgrOK mgrS := ⟨rfl, fun i h => (by cases h), blocksOK, rfl⟩

theorem wfgeomS : WFGeom volS :=
  ⟨by decide, by decide, fun s h => (by cases h), fun _ => (by decide), fun h => (by cases h), by decide,
   (by show endCluster volS ≤ 0xFFF7; decide)⟩
theorem hintOKS : HintOK volS := fun n h => by cases h

theorem used_iff (d : Disk) (h : ∀ c, c < 8 → (isUsed volS d c ↔ c ∈ [5, 2, 7, 3])) : ∀ c, isUsed volS d c ↔ c ∈ [5, 2, 7, 3] := by
  intro c
  by_cases hc : c < 8
  · exact h c hc
  · constructor
    · intro hu; exact absurd hu.1.2 hc
    · intro hm; simp at hm; omega

theorem chainsS (d : Disk) (h1 : Chain volS d 5 [5, 2, 7]) (h2 : Chain volS d 3 [3])
    (hu : ∀ c, c < 8 → (isUsed volS d c ↔ c ∈ [5, 2, 7, 3])) : Owns volS d [[5, 2, 7], [3]] := by
  refine ⟨?_, by decide, used_iff d hu⟩
  intro cs hcs
  have : cs = [5, 2, 7] ∨ cs = [3] := by simpa using hcs
  rcases this with rfl | rfl
  · exact h1
  · exact h2

theorem ownsS : Owns volS disk [[5, 2, 7], [3]] :=
  chainsS disk
    (.link 5 2 [2, 7] ⟨by decide, by decide⟩ (by decide +kernel) (by decide)
      (.link 2 7 [7] ⟨by decide, by decide⟩ (by decide +kernel) (by decide) (.last 7 ⟨by decide, by decide⟩ (by decide +kernel))))
    (.last 3 ⟨by decide, by decide⟩ (by decide +kernel)) (by decide +kernel)

theorem ownsF : Owns volS diskF [[5, 2, 7], [3]] :=
  chainsS diskF
    (.link 5 2 [2, 7] ⟨by decide, by decide⟩ (by decide +kernel) (by decide)
      (.link 2 7 [7] ⟨by decide, by decide⟩ (by decide +kernel) (by decide) (.last 7 ⟨by decide, by decide⟩ (by decide +kernel))))
    (.last 3 ⟨by decide, by decide⟩ (by decide +kernel)) (by decide +kernel)

/-- The three-cluster file of `mgrS` (offset 1000 of 1300 bytes) is `Writable`; 2 clusters are free. -/
theorem writableS : Writable mgrS 1 0 0 fileW vinfoS [5, 2, 7] [] [[3]] where
  ok := mgrOKS
  handle := by decide
  file := rfl
  volume := by decide
  vol := rfl
  mode := by decide
  geom := wfgeomS
  hint := hintOKS
  fileOK := ⟨.inr (ownsS.1 [5, 2, 7] (by simp)), by decide, by decide, .inr ⟨2, by decide, by decide, by decide⟩⟩
  cursor := fun h => by cases h
  owns := ownsS
theorem freeS : freeOf mgrS vinfoS = 2 := by decide +kernel

/-- `write_fails_iff_no_space` applies to it; with 2000 bytes at offset 1000 it is the out-of-space case
(`needed = 6`, 3 clusters owned, 2 free) … -/
example : needed 3 (1000 + 2000) 512 = 6 ∧ freeOf mgrS vinfoS < needed 3 (1000 + 2000) 512 - 3 := by decide +kernel
example := write_fails_iff_no_space mgrS 1 0 0 (List.replicate 2000 0x11) fileW vinfoS [5, 2, 7] [] [[3]] writableS
  (by decide +kernel)
/-- … and the engine, run, says what the theorem says: `DiskFull`, offset and size `(3 + 2) * 512`. -/
example : (write 1 (List.replicate 2000 0x11) mgrS).1 = .err .DiskFull ∧
    (write 1 (List.replicate 2000 0x11) mgrS).2.files.map (fun f => (f.currentOffset, f.entry.size)) =
      [(2560, 2560), (0, 10), (0, 0)] ∧
    freeCount volS (write 1 (List.replicate 2000 0x11) mgrS).2.dev.disk = 0 := by decide +kernel
/-- With 1024 bytes it is the `Ok` case (`needed = 4`, one cluster appended, one left free). -/
example : needed 3 (1000 + 1024) 512 - 3 ≤ freeOf mgrS vinfoS := by decide +kernel
example : (write 1 (List.replicate 1024 0x11) mgrS).1 = .ok () ∧
    freeCount volS (write 1 (List.replicate 1024 0x11) mgrS).2.dev.disk = 1 := by decide +kernel

/-- **The excluded point of `fill_to_capacity`** (`1 ≤ F`): on a volume without a free cluster, a write
of ZERO bytes to an empty file that owns no cluster does not answer `Ok` but `NotEnoughSpace`. -/
theorem zero_write_on_full : ∀ s1, (write 1 (List.replicate 2000 0x11) mgrS).2 = s1 →
    freeCount volS s1.dev.disk = 0 ∧ (write 3 [] s1).1 = .err .NotEnoughSpace := by
  intro s1 h1; subst h1; decide +kernel

/-- `mgrF` is a `Fresh` state: handle 5 (slot 2) is an empty file, chains `[[5, 2, 7], [3]]`, 2 free
clusters. -/
theorem writableF : Writable mgrF 5 2 0 fileA vinfoS [] [[5, 2, 7], [3]] [] where
  ok := mgrOKF
  handle := by decide
  file := rfl
  volume := by decide
  vol := rfl
  mode := by decide
  geom := wfgeomS
  hint := hintOKS
  fileOK := ⟨.inl ⟨by decide, rfl, rfl⟩, by decide, by decide, .inl rfl⟩
  cursor := fun _ => by decide
  owns := ownsF
theorem fresh : Fresh 0 [[5, 2, 7], [3]] 2 5 2 mgrF :=
  ⟨fileA, vinfoS, writableF, rfl, rfl, by decide +kernel, by decide, by decide, by decide, by decide⟩

/-- Two buffers, `600 + 424 = 2 * 512` bytes. -/
def bufs : List Bytes := [List.replicate 600 0x11, List.replicate 424 0x22]

/-- The first cluster a lookup answers. -/
def okCluster : Res DirEntry → Option Nat
  | .ok e => some e.cluster
  | _ => none
theorem okCluster_some {r : Res DirEntry} {c : Nat} (h : okCluster r = some c) : ∃ e, r = .ok e ∧ e.cluster = c := by
  cases r with
  | ok e => exact ⟨e, rfl, Option.some.inj h⟩
  | err _ => cases h
  | panic _ => cases h
  | diverged => cases h

/-- The lookup clause of `DeleteGlue`, as a computation. -/
def lookupAgrees (s1 s2 : Mgr) : Bool :=
  match s2.vols[0]?, s1.files[2]? with
  | some v2, some f1 =>
    okCluster (Fat.findDirectoryEntry rootDir.cluster sfnA { dev := s2.dev, cache := s2.cache, vol := v2.vol }).1
      == some f1.entry.cluster
  | _, _ => false

/-- The glue holds on the example: after filling and closing, root / "A.TXT" resolve, the lookup finds
the flushed entry (first cluster 4), the delete answers `Ok`. -/
theorem glue : DeleteGlue 0 2 4 nameA (writeMany 5 bufs mgrF).2 (closeFile 5 (writeMany 5 bufs mgrF).2).2 := by
  refine ⟨0, rootDir, sfnA, by decide +kernel, by decide +kernel, by decide +kernel, by decide +kernel, ?_, by decide +kernel⟩
  intro v2 f1 hv hf
  have key : lookupAgrees (writeMany 5 bufs mgrF).2 (closeFile 5 (writeMany 5 bufs mgrF).2).2 = true := by decide +kernel
  unfold lookupAgrees at key
  rw [hv, hf] at key
  exact okCluster_some (by simpa using key)

/-- **The round theorem, instantiated**: all its hypotheses hold of `mgrF`. -/
theorem round :
    (writeMany 5 bufs mgrF).1 = [.ok (), .ok ()] ∧
    (closeFile 5 (writeMany 5 bufs mgrF).2).1 = .ok () ∧
    VolInv 0 [[5, 2, 7], [3]] 2 (afterRound 5 4 nameA bufs mgrF) := by
  have h := fill_delete_refill_once 0 [[5, 2, 7], [3]] 2 5 2 4 nameA mgrF bufs fresh (by decide)
    (fun v hv => by cases hv; decide +kernel) glue
  exact ⟨h.1, h.2.2.1, h.2.2.2⟩

/-- The engine, run, from the state BEFORE the create (so the create is part of the run): handle 5;
`Ok`, `Ok`; one byte more: `DiskFull`; close `Ok`; delete `Ok`.  The filled file reads back the 1024
bytes.  Afterwards the FAT is byte for byte the FAT of the start, 2 clusters are free (0 in between),
and slot 0 of the root directory carries the deleted mark. -/
theorem run_round : ∀ s0, (openFileInDir 4 nameA .ReadWriteCreate mgr0).2 = s0 →
    ∀ s1, (writeMany 5 bufs s0).2 = s1 → ∀ s2, (closeFile 5 s1).2 = s2 → ∀ sE, (deleteFileInDir 4 nameA s2).2 = sE →
    (writeMany 5 bufs s0).1 = [.ok (), .ok ()] ∧ (write 5 [1] s1).1 = .err .DiskFull ∧
    (read 5 2000 (fileSeekFromStart 5 0 s1).2).1 = .ok (List.replicate 600 0x11 ++ List.replicate 424 0x22) ∧
    (closeFile 5 s1).1 = .ok () ∧ (deleteFileInDir 4 nameA s2).1 = .ok () ∧
    freeCount volS mgr0.dev.disk = 2 ∧ freeCount volS s1.dev.disk = 0 ∧ freeCount volS sE.dev.disk = 2 ∧
    sE.dev.disk.get 1 = mgr0.dev.disk.get 1 ∧ (sE.dev.disk.get 9).take 11 = 0xE5 :: sfnA.tail ∧
    fsummary sE = fsummary mgr0 ∧ sE.dirs = mgr0.dirs := by
  intro s0 h0 s1 h1 s2 h2 sE hE; subst h0; subst h1; subst h2; subst hE; decide +kernel

/-- … and the next round: the create reuses the deleted slot (so the directory does not grow), and the
new file again accepts exactly `2 * 512` bytes. -/
theorem run_second_round : ∀ sE, afterRound 5 4 nameA bufs (openFileInDir 4 nameA .ReadWriteCreate mgr0).2 = sE →
    ∀ s0', (openFileInDir 4 nameA .ReadWriteCreate sE).2 = s0' → ∀ s1', (writeMany 6 bufs s0').2 = s1' →
    (openFileInDir 4 nameA .ReadWriteCreate sE).1 = .ok 6 ∧
    s0'.files.map (fun f => (f.rawFile, f.entry.entryBlock, f.entry.entryOffset, f.entry.cluster, f.entry.size)) =
      [(1, 9, 32, 5, 1300), (2, 9, 64, 3, 10), (6, 9, 0, 0, 0)] ∧
    (writeMany 6 bufs s0').1 = [.ok (), .ok ()] ∧ (write 6 [1] s1').1 = .err .DiskFull ∧
    freeCount volS s1'.dev.disk = 0 := by
  intro sE hE s0' h0 s1' h1; subst hE; subst h0; subst h1; decide +kernel

end Example

end Sdmmc.Props.C05Capacity
