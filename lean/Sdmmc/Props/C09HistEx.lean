/-
C09 over whole histories — non-vacuity: the theorems of `Props/C09Hist.lean` on the medium of `Props.C02Reopen.Example`
(smallest FAT16 volume, `A.TXT` open through handle 7 with 600 unflushed bytes), evaluated by the kernel where something
is evaluated.
-/
import Sdmmc.Props.C09Hist

namespace Sdmmc.Props.C09Hist
open Sdmmc.Model Sdmmc.Model.Fat Sdmmc.Spec.Volume
open Sdmmc.Spec hiding run step NoFault Coherent
open Sdmmc.Props.C03Inv (Covered CoveredAll CoveredAllRun)
open Sdmmc.Props.C04Hist (VolInvM)
open Sdmmc.Lemmas.WriteSetInv (LicenceFor RunLicensed Covers NotNamed)
open Sdmmc.Lemmas.Survive (HistCrash FlushedOn Kept Obj Targets Untouched Modifies NeverOpened NeverNames slotOf PathOn Spells openPath)
open Sdmmc.Lemmas.ReadRefines (MgrOK)
open Sdmmc.Lemmas.VolTree (fkey spos)

/-! ### Non-vacuity -/

namespace Example
open Sdmmc.Props.C02Reopen.Example

/-- The state of `Props.C02Reopen.Example`: the smallest FAT16 volume in partition 0 of a medium, the file `A.TXT` of the
root directory open (handle 7) and dirty — 600 bytes in clusters 2 → 3 while the medium still holds the entry of the
empty file.  Ghost: one chain, no sub-directory. -/
def ghA : Ghost := { vol := vol, G := [[2, 3]], dirs := [] }

theorem invA : VolInv mgr ghA := Lemmas.VolCheck.checkVolInv_sound mgr ghA (by decide +kernel)

theorem mirrorA (d : Disk) : Mirror vol d := fun c _ b2 h => by
  have : (none : Option Nat) = some b2 := h
  cases this

theorem invMA : VolInvM mgr ghA := ⟨invA, mirrorA _⟩

/-- The state the close leaves. -/
@[irreducible] def s1 : Mgr := (step mgr (.closeFile 7)).1

theorem s1_def : s1 = (step mgr (.closeFile 7)).1 := by unfold s1; rfl

theorem close_ok : (step mgr (.closeFile 7)).2.result = .ok .unit ∧ FlushedOn vol s1.dev.disk entry [2, 3] ∧
    ∀ n, fileContent vol s1.dev.disk [2, 3] n = fileContent vol disk [2, 3] n :=
  by rw [s1_def]; exact close_establishes mgr ghA invA 7 0 file handle_found rfl rfl

theorem inv1 : ∃ gh1, VolInvM s1 gh1 ∧ SameGeom vol gh1.vol :=
  by rw [s1_def]; exact C04Hist.step_invariantM vol mgr (.closeFile 7) ghA invMA (SameGeom.refl _) trivial

theorem mount1 : mountPure (s1.dev.disk.get 0) 0 s1.dev.disk.get = .ok vol0 := by decide +kernel

/-- Calls after the close that can only have the empty licence: a lookup, a listing, a query through the handle that is
no longer open, opening the root directory again. -/
def after : List Op := [.find 5 nameStr, .list 5, .length 7, .openRoot 3, .hasOpen]

theorem after_covered : CoveredAllRun vol s1 after :=
  C03Inv.coveredAllRun_of_coveredRun vol (by refine ⟨trivial, trivial, trivial, trivial, trivial, trivial⟩)

theorem content_B : fileContent vol disk [2, 3] entry.size = B := by decide +kernel

theorem storableA : Lemmas.Reopen.Storable vol.fatType entry := ⟨by decide, by decide, by decide, (by show entry.cluster < 65536; decide), by decide⟩

/-- **The property on the example.**  After the successful close of `A.TXT`, at EVERY crash point of the history `after`
the medium shows the flushed entry and the 600 flushed bytes `B`; and after every call of it a fresh manager mounts
partition 0, opens the root directory, opens "A.TXT" and reads `B`. -/
example : ∃ Ls, RunLicensed vol s1 after Ls ∧ (∀ L, L ∈ Ls → NotNamed vol L 18 0 [2, 3]) ∧
    (∀ dk, HistCrash s1 after dk →
      Lemmas.Listing.decode .fat16 (18, 0, slice (dk.get 18) 0 32) = Lemmas.Reopen.stored entry ∧
      Chain vol dk 2 [2, 3] ∧ fileContent vol dk [2, 3] 600 = B) ∧
    ∀ (j : Nat) (t0 : Mgr), MgrOK t0 → t0.dev.disk = (run s1 (after.take j)).1.dev.disk → t0.vols = [] → t0.dirs = [] →
      t0.files = [] → 0 < t0.maxVols → 0 < t0.maxDirs → 0 < t0.maxFiles → t0.nextId + 2 < 4294967296 →
      ∃ t1 t2 t3, openRawVolume 0 t0 = (.ok t0.nextId, t1) ∧ openRootDir t0.nextId t1 = (.ok (t0.nextId + 1), t2) ∧
        openFileInDir (t0.nextId + 1) nameStr .ReadOnly t2 = (.ok (t0.nextId + 2), t3) ∧
        fileLength (t0.nextId + 2) t3 = (.ok 600, t3) ∧
        ∀ n, ∃ t4, read (t0.nextId + 2) n t3 = (.ok (B.take n), t4) := by
  obtain ⟨gh1, hI1, hg1⟩ := inv1
  obtain ⟨Ls, hR, himp⟩ := flushed_file_survives_partial vol s1 gh1 hI1 hg1 after after_covered entry [2, 3] close_ok.2.1
    storableA (.inl (by decide)) (by decide) (by decide)
  have hnn : ∀ L, L ∈ Ls → NotNamed vol L entry.entryBlock entry.entryOffset [2, 3] := by
    intro L hL
    obtain ⟨k, op, gh', hk, _, _, hl⟩ := Lemmas.WriteSetInv.runLicensed_nth hR L hL
    generalize (run s1 (after.take k)).1 = t at hl
    have hnone : L = Licence.none := by
      match k, hk with
      | 0, hk => cases hk; cases hl; rfl
      | 1, hk => cases hk; cases hl; rfl
      | 2, hk => cases hk; cases hl; rfl
      | 3, hk => cases hk; cases hl; rfl
      | 4, hk => cases hk; cases hl; rfl
      | k + 5, hk => cases hk
    rw [hnone]
    exact ⟨(fun _ _ h => nomatch h), (fun _ h => nomatch h), (fun _ h => nomatch h), (fun _ h => nomatch h)⟩
  obtain ⟨ha, hbc⟩ := himp hnn
  have hB : fileContent vol s1.dev.disk [2, 3] 600 = B := by rw [close_ok.2.2 600]; exact content_B
  refine ⟨Ls, hR, hnn, fun dk hk => ?_, fun j t0 a1 a2 a3 a4 a5 a6 a7 a8 a9 => ?_⟩
  · obtain ⟨_, _, hdec, hch, _, hfc⟩ := ha dk hk
    refine ⟨hdec, ?_, by rw [hfc 600]; exact hB⟩
    rcases hch with ⟨h2, _⟩ | hch
    · exact absurd h2 (by decide)
    · exact hch
  · obtain ⟨_, hrd⟩ := hbc rfl (by decide) (by decide) (by decide) (by decide) (by decide) (by decide) (by decide) (by decide)
      0 vol0 mount1 ⟨_, _, (sameGeom : vol = _)⟩ j
    obtain ⟨t1, t2, t3, g1, g2, g3, _, _, g6, g7⟩ := hrd t0 nameStr a1 a2 a3 a4 a5 a6 a7 a8 a9 (by decide)
    refine ⟨t1, t2, t3, g1, g2, g3, g6, fun n => ?_⟩
    obtain ⟨t4, hr, _, _⟩ := g7 n
    exact ⟨t4, by rw [← hB]; exact hr⟩

/-- The state of the example satisfies `VolInvC`: the on-disk slot of the open file names no cluster yet. -/
theorem invCA : VolInvC mgr ghA := by
  refine ⟨invA, mirrorA _, ?_⟩
  intro f hf
  have hf' : f = file := List.mem_singleton.1 hf
  subst hf'
  left
  decide +kernel

/-- The open file sits in the root directory (the ghost has no other directory). -/
theorem rootA : ∃ o, o ∈ objects 0 (dirSlots ghA.vol mgr.dev.disk ghA.G 0) ∧ spos o = fkey file := by
  obtain ⟨h, hh, o, ho, h1, h2, _⟩ := invA.med.tree.fileSlots file List.mem_cons_self
  have h0 : h = 0 := by
    have : h ∈ [0] := hh
    exact List.mem_singleton.1 this
  subst h0
  exact ⟨o, ho, Prod.ext h1 h2⟩

/-- A history after the close that writes a lot — it creates, fills and deletes another file, makes a directory, and
reads `A.TXT` again through a read-only handle — but contains no `open_file_in_dir` of "A.TXT" in a writing mode and
no `delete_file_in_dir` of it. -/
def payload : Bytes := List.replicate 2000 0x55

def busy : List Op :=
  [.openFile 5 [0x42, 0x2E, 0x54, 0x58, 0x54] .ReadWriteCreate, .write 8 payload, .closeFile 8,
   .mkdir 5 [0x44], .openFile 5 nameStr .ReadOnly, .read 9 100, .closeFile 9, .delete 5 [0x42, 0x2E, 0x54, 0x58, 0x54],
   .closeVolume 3]

theorem busy_names : NeverNames file.entry.name busy := by
  refine ⟨.inr (by decide), ⟨.inl rfl, by decide, trivial⟩⟩

theorem busy_covered : CoveredAllRun vol mgr (.closeFile 7 :: busy) :=
  (C03All.coveredAllRun_iff_remountRun vol mgr _).2 (C03All.remountRun_of_no_openVolume vol mgr _ (by
    intro op hop i e
    subst e
    simp [busy] at hop))

/-- **The property on the example, full form**: `A.TXT` (600 bytes `B`) is closed; then, whatever `busy` does, at EVERY
crash point of it — after any number of its block writes — a fresh manager mounts partition 0, opens the root directory,
opens "A.TXT", is told 600 bytes and reads `B`. -/
example : (step mgr (.closeFile 7)).2.result = .ok .unit ∧
    ∀ dk, HistCrash (step mgr (.closeFile 7)).1 busy dk →
      ∀ (t0 : Mgr), MgrOK t0 → t0.dev.disk = dk → t0.vols = [] → t0.dirs = [] → t0.files = [] →
        0 < t0.maxVols → 0 < t0.maxDirs → 0 < t0.maxFiles → t0.nextId + 2 < 4294967296 →
        ∃ t1 t2 t3, openRawVolume 0 t0 = (.ok t0.nextId, t1) ∧ openRootDir t0.nextId t1 = (.ok (t0.nextId + 1), t2) ∧
          openFileInDir (t0.nextId + 1) nameStr .ReadOnly t2 = (.ok (t0.nextId + 2), t3) ∧
          fileLength (t0.nextId + 2) t3 = (.ok 600, t3) ∧
          ∀ n, ∃ t4, read (t0.nextId + 2) n t3 = (.ok (B.take n), t4) := by
  obtain ⟨hres, hall⟩ := closed_file_survives vol mgr ghA invCA (SameGeom.refl _) 7 0 file handle_found rfl rfl 0 [] rootA
    (.nil 0 (Lemmas.VolTree.zero_mem_dirIds _)) (fun _ hy => nomatch hy) busy
    busy_covered busy_names 0 vol0 mount_ok ⟨_, _, (sameGeom : vol = _)⟩
  refine ⟨hres, fun dk hk t0 a1 a2 a3 a4 a5 a6 a7 a8 a9 => ?_⟩
  obtain ⟨_, hrd⟩ := hall dk hk
  obtain ⟨t1, t2, dh, t3, t4, g1, g2, g3, g4, _, _, g6, g7⟩ := hrd t0 [] nameStr a1 a2 a3 a4 a5 a6 a7 a8 a9 trivial (by decide)
  have e3 : (Res.ok (t0.nextId + 1), t2) = (Res.ok dh, t3) := g3
  injection e3 with e31 e32
  injection e31 with e31
  subst e31 e32
  refine ⟨t1, t2, t4, g1, g2, g4, g6, fun n => ?_⟩
  obtain ⟨t5, hr, _, _⟩ := g7 n
  refine ⟨t5, ?_⟩
  have hB : fileContent vol mgr.dev.disk (chainOf ghA.G file.entry.cluster) file.entry.size = B := content_B
  rw [← hB]; exact hr

/-- **The `flush_file` case on the example**, the handle left open: `A.TXT` is flushed through handle 7; afterwards the
handle is read, flushed AGAIN, another file is created, and the handle is closed (which stores the entry once more).  At
EVERY crash point of these calls a fresh manager reads `B`. -/
def afterFlush : List Op :=
  [.read 7 10, .flush 7, .openFile 5 [0x42, 0x2E, 0x54, 0x58, 0x54] .ReadWriteCreate, .seekStart 7 0, .closeFile 7]

theorem afterFlush_untouched (s : Mgr) : Untouched 0 file.entry.name (18, 0) s afterFlush := by
  refine ⟨fun h => h.elim, ?_⟩
  refine ⟨fun h => h.elim, ?_⟩
  refine ⟨fun h => ?_, ?_⟩
  · rcases h.1 with e | e <;> cases e
  refine ⟨fun h => h.elim, ?_⟩
  exact ⟨fun h => h.elim, trivial⟩

example : (step mgr (.flush 7)).2.result = .ok .unit ∧
    ∀ dk, HistCrash (step mgr (.flush 7)).1 afterFlush dk →
      ∀ (t0 : Mgr), MgrOK t0 → t0.dev.disk = dk → t0.vols = [] → t0.dirs = [] → t0.files = [] →
        0 < t0.maxVols → 0 < t0.maxDirs → 0 < t0.maxFiles → t0.nextId + 2 < 4294967296 →
        ∃ t1 t2 t3, openRawVolume 0 t0 = (.ok t0.nextId, t1) ∧ openRootDir t0.nextId t1 = (.ok (t0.nextId + 1), t2) ∧
          openFileInDir (t0.nextId + 1) nameStr .ReadOnly t2 = (.ok (t0.nextId + 2), t3) ∧
          fileLength (t0.nextId + 2) t3 = (.ok 600, t3) ∧
          ∀ n, ∃ t4, read (t0.nextId + 2) n t3 = (.ok (B.take n), t4) := by
  have hcov : CoveredAllRun vol mgr (.flush 7 :: afterFlush) :=
    (C03All.coveredAllRun_iff_remountRun vol mgr _).2 (C03All.remountRun_of_no_openVolume vol mgr _ (by
      intro op hop i e
      subst e
      simp [afterFlush] at hop))
  obtain ⟨hres, hall⟩ := flushed_open_file_survives vol mgr ghA invCA (SameGeom.refl _) 7 0 file handle_found rfl rfl
    (by decide) 0 [] rootA (.nil 0 (Lemmas.VolTree.zero_mem_dirIds _)) (fun _ hy => nomatch hy) afterFlush hcov
    (afterFlush_untouched _) 0 vol0 mount_ok ⟨_, _, (sameGeom : vol = _)⟩
  refine ⟨hres, fun dk hk t0 a1 a2 a3 a4 a5 a6 a7 a8 a9 => ?_⟩
  obtain ⟨_, hrd⟩ := hall dk hk
  obtain ⟨t1, t2, dh, t3, t4, g1, g2, g3, g4, _, _, g6, g7⟩ := hrd t0 [] nameStr a1 a2 a3 a4 a5 a6 a7 a8 a9 trivial (by decide)
  have e3 : (Res.ok (t0.nextId + 1), t2) = (Res.ok dh, t3) := g3
  injection e3 with e31 e32
  injection e31 with e31
  subst e31 e32
  refine ⟨t1, t2, t4, g1, g2, g4, g6, fun n => ?_⟩
  obtain ⟨t5, hr, _, _⟩ := g7 n
  refine ⟨t5, ?_⟩
  have hB : fileContent vol mgr.dev.disk (chainOf ghA.G file.entry.cluster) file.entry.size = B := content_B
  rw [← hB]; exact hr

/-- The criterion is needed: a history that truncates the file is excluded by it — `NeverNames` fails. -/
example : ¬ NeverNames file.entry.name [.openFile 5 nameStr .ReadWriteTruncate] := by
  intro h
  rcases h.1 with e | e
  · cases e
  · exact e (by decide)

/-- The excluded point, evaluated: re-opening `A.TXT` with `ReadWriteTruncate` after the close (three block writes)
leaves an entry of size 0 in the slot — the file IS modified, the criterion is needed (and says so: the call targets the
file). -/
example : (Lemmas.Listing.decode .fat16
      (18, 0, slice (((step s1 (.openFile 5 nameStr .ReadWriteTruncate)).1.dev.disk).get 18) 0 32)).size = 0 ∧
    (step s1 (.openFile 5 nameStr .ReadWriteTruncate)).2.writes.length = 3 := by
  rw [s1_def]; decide +kernel

example (s : Mgr) (hd : ∃ dir, dir ∈ s.dirs ∧ dir.rawDirectory = 5 ∧ dirIdOf dir.cluster = 0) :
    Targets s 0 file.entry.name (18, 0) (.openFile 5 nameStr .ReadWriteTruncate) :=
  ⟨.inl rfl, by decide, hd⟩

/-- A call that does write — creating `B.TXT` in the same directory: at both crash points of its single block write
the slot of `A.TXT` holds the flushed entry (evaluated). -/
example : ∀ k, k ≤ 1 → slice ((crashDisk s1.dev.disk (step s1 (.openFile 5 [0x42, 0x2E, 0x54, 0x58, 0x54] .ReadWriteCreate)).2.writes k).get 18)
    0 32 = entry.serialize .fat16 := by decide +kernel

end Example

/-! ### A file of a sub-directory -/

namespace ExampleSub
open Sdmmc.Lemmas.VolExample

/-- The medium of `Props.C10Inv.Example.open_file`: `E.DAT` of the sub-directory `SUB` (cluster 4) open through handle 4,
5 bytes written to cluster 6, not yet flushed.  The entry of `SUB` in the root directory: slot 4 of block 3. -/
def ySub : Slot := (3, 128, (root16Blk.drop 128).take 32)

theorem path_SUB : PathOn gh0.vol.fatType gh0.dirs (dirSlots gh0.vol mgr0.dev.disk gh0.G) 0 [ySub] 4 :=
  .cons 0 ySub [] 4 (Lemmas.VolTree.zero_mem_dirIds _) (by decide +kernel) (by decide +kernel)
    (by
      have e : sCluster gh0.vol.fatType ySub = 4 := by decide +kernel
      rw [e]
      exact .nil 4 (by decide))

theorem names_SUB : ∀ y, y ∈ [ySub] → sName y ≠ Sfn.thisDir ∧ sName y ≠ Sfn.parentDir := by
  intro y hy
  rw [List.mem_singleton.1 hy]
  decide +kernel

theorem in_SUB : ∃ o, o ∈ objects 4 (dirSlots gh0.vol mgr0.dev.disk gh0.G 4) ∧ spos o = fkey fileE :=
  ⟨(6, 96, (sub16Blk.drop 96).take 32), by decide +kernel, rfl⟩

/-- A history after the close: `B.BIN` of the same sub-directory is deleted, a directory is made in `SUB`, `E.DAT` is
opened again for reading. -/
def later : List Op :=
  [.delete 3 [66, 46, 66, 73, 78], .mkdir 3 [68], .openFile 3 [69, 46, 68, 65, 84] .ReadOnly, .read 10 5]

theorem later_names : NeverNames fileE.entry.name later := ⟨by decide, .inl rfl, trivial⟩

theorem later_covered : CoveredAllRun vol16 mgr0 (.closeFile 4 :: later) :=
  (C03All.coveredAllRun_iff_remountRun vol16 mgr0 _).2 (C03All.remountRun_of_no_openVolume vol16 mgr0 _ (by
    intro op hop i e
    subst e
    simp [later] at hop))

/-- **`E.DAT` of `SUB` is closed**: the close answers `Ok`; whatever `later` does, at EVERY crash point the slot of `E.DAT`
holds the flushed entry (5 bytes, cluster 6), and — on any partition index the medium mounts as — a fresh manager opens
the root directory, opens `SUB` by any spelling of its name, opens `E.DAT` and reads the 5 bytes.  (This hand-built
medium has no partition table; the mounting hypothesis is discharged on the medium of `Example` above.) -/
example : (step mgr0 (.closeFile 4)).2.result = .ok .unit ∧
    ∀ (idx : Nat) (vm : FatVolume), mountPure (mgr0.dev.disk.get 0) idx mgr0.dev.disk.get = .ok vm → SameGeom vm vol16 →
      ∀ dk, HistCrash (step mgr0 (.closeFile 4)).1 later dk →
        ReadsBack vol16 fileE.entry (chainOf gh0.G fileE.entry.cluster) [ySub] mgr0.dev.disk idx dk := by
  have hidx : mgr0.files.findIdx? (·.rawFile = 4) = some 0 := by decide
  refine ⟨(close_establishes_kept vol16 mgr0 gh0 C10Inv.Example.open_file (SameGeom.refl _) 4 0 fileE hidx rfl rfl).1, ?_⟩
  · intro idx vm hm hsg
    exact (closed_file_survives vol16 mgr0 gh0 C10Inv.Example.open_file (SameGeom.refl _) 4 0 fileE hidx rfl rfl 4 [ySub] in_SUB
      path_SUB names_SUB later later_covered later_names idx vm hm hsg).2

end ExampleSub

end Sdmmc.Props.C09Hist
