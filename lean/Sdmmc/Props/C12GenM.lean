/-
C12, tie to the source text (monadic level): `SdCardInner::read` (single block: CMD17; several: CMD18, the loop that
stops at the first failed block, CMD12 ALWAYS, `result?; stopped?`; the address scaling with its overflow), `write`
(single: CMD24, the data block, the busy wait, the CMD13 status check and its second byte; several: ACMD23 with the
block count, CMD25, the loop with `WRITE_MULTIPLE_TOKEN`, the stop sequence — busy wait, `STOP_TRAN_TOKEN`, the skipped
byte, the second busy wait — attempted also after a refused block), `read_csd`, `num_blocks`, `num_bytes` — as
machine-translated from sdcard/mod.rs into `Sdmmc.Gen.FunsSd` (tools/translate_sd.py) — are EQUAL to the hand-written
model `Model/Sd.lean`, as functions `St σ → SRes α × St σ`, for EVERY bus `B`, every state, every block index and every
list of blocks.

`read` hands back the new contents of its `&mut [Block]` argument; the one hypothesis is the type of `Block::contents`
(`[u8; 512]`): every block is 512 bytes long.  `read_csd` returns the crate's `enum Csd`; the model returns the register
and which layout it has (`GenSd.toCsd` maps one to the other).
-/
import Sdmmc.Lemmas.GenSd4

namespace Sdmmc.Props.C12GenM
open Sdmmc.Model Sdmmc.Model.Sd Sdmmc.Gen
open Sdmmc.Lemmas

variable {σ : Type} (B : BusOps σ)

/-- The block loop of a multiple-block read: it stops at the first block that fails, and is the model's `readBlocks`
under whatever follows (`K`: what follows does not look at the blocks once the outcome is an error). -/
theorem read_loop_eq {β : Type} (todo i : Nat) (blocks : List Bytes) (hlen : i + todo ≤ blocks.length)
    (h512 : ∀ j, i ≤ j → j < i + todo → (FunsSd.getBlock blocks j).length = 512)
    (K : List Bytes → SRes Unit → S σ β) (hK : ∀ bl bl' (r : SRes Unit), SRes.isErr r = true → K bl r = K bl' r) :
    (FunsSd.read_loop1 B todo i blocks (.ok ()) >>= fun p => K p.1 p.2) =
      S.attempt (readBlocks B todo) >>= fun r => match r with
        | .ok bs => K (blocks.take i ++ bs ++ blocks.drop (i + todo)) (.ok ())
        | .err e => K blocks (.err e)
        | .panic p => K blocks (.panic p) := GenSd.read_loop B todo i blocks hlen h512 K hK

/-- **`read(blocks, start_block_idx)`** equals the model's `read blocks.len() start_block_idx`. -/
theorem read_eq (blocks : List Bytes) (idx : Nat) (h512 : ∀ b, b ∈ blocks → b.length = 512) :
    FunsSd.read B blocks idx = Model.Sd.read B blocks.length idx := GenSd.read_eq B blocks idx h512

/-- The block loop of a multiple-block write. -/
theorem write_loop_eq (todo i : Nat) (blocks : List Bytes) (hlen : i + todo ≤ blocks.length) :
    FunsSd.write_loop1 B blocks todo i (.ok ()) = S.attempt (writeBlocks B ((blocks.drop i).take todo)) :=
  GenSd.write_loop B todo i blocks hlen

/-- **`write(blocks, start_block_idx)`** equals the model's `write`. -/
theorem write_eq (blocks : List Bytes) (idx : Nat) : FunsSd.write B blocks idx = Model.Sd.write B blocks idx :=
  GenSd.write_eq B blocks idx

/-- `CsdV2::csd_ver` (a `define_field!` row, expanded from the macro text). -/
theorem csd_ver_eq (d : Bytes) : FunsSd.CsdV2_csd_ver d = Csd.v2CsdVer d := GenSd.csd_ver_eq d

/-- **`read_csd`**: CMD9, a 16-byte data block; a version-2 card with `csd_ver() == 0` has a version-1 register. -/
theorem read_csd_eq : FunsSd.read_csd B = readCsd B >>= fun p => pure (GenSd.toCsd p) := GenSd.read_csd_eq B

theorem num_blocks_eq : FunsSd.num_blocks B = numBlocks B := GenSd.num_blocks_eq B
theorem num_bytes_eq : FunsSd.num_bytes B = numBytes B := GenSd.num_bytes_eq B

namespace Example
/-- A bus whose SPI transactions fail. -/
def deadBus : BusOps Nat := { xfer := fun n _ => (n + 1, none), delay := fun n => n }

/-- Evaluated: without a card type `read` / `write` answer `CardNotFound` and touch nothing; on an SDHC card with a dead
bus a two-block read fails with `Transport` on the first command, a byte-addressed card with a block index that
overflows `u32` panics (the hypothesis of `read_eq` holds for these blocks). -/
example : GenSd.errOf ((FunsSd.read deadBus [List.replicate 512 0, List.replicate 512 0] 7) { bus := 0 }).1 = some SdErr.CardNotFound ∧
    ((FunsSd.read deadBus [List.replicate 512 0, List.replicate 512 0] 7) { bus := 0 }).2.events = [] ∧
    GenSd.errOf ((FunsSd.write deadBus [List.replicate 512 0] 7) { bus := 0, cardType := some .SDHC }).1 = some SdErr.Transport ∧
    GenSd.panicOf ((FunsSd.read deadBus [List.replicate 512 0] 8388608) { bus := 0, cardType := some .SD1 }).1 =
      some "attempt to multiply with overflow" := by decide +kernel
end Example

end Sdmmc.Props.C12GenM
