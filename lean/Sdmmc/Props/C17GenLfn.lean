/-
C17, tie to the source text, FAT level: the local `SeqState::update` and `FatVolume::iterate_dir_lfn`
(fat/volume.rs), machine-translated into `Sdmmc.Gen.FunsDir`, against `Model.SeqState.update`, `Model.lfnFold`
(`Model/Mgr.lean`) over the entries of `Model.Fat.iterateRaw`.

`seq_update_eq` is unconditional.  `iterate_dir_lfn_eq_partial` holds for every fuel above
`chainFuel v + (blocks per step) + 2` when the model's `iterateRaw` does not answer `diverged` (see
`Props/C06GenM.lean`).  The long-name buffer the translation hands back next to the result is not compared: the
model keeps it inside `lfnFold`.
-/
import Sdmmc.Gen.FunsDir
import Sdmmc.Model.Mgr
import Sdmmc.Lemmas.GenMgrIO
import Sdmmc.Props.C06GenIter

set_option linter.unusedSimpArgs false

namespace Sdmmc.Props.C17GenLfn

open Sdmmc Sdmmc.Model Sdmmc.Model.Fat Sdmmc.Gen Sdmmc.Lemmas.GenMgrIO
open Sdmmc.Lemmas.FBasic
open Sdmmc.Props.C06GenIter (Call iterate_fat16_eq_partial iterate_fat32_eq_partial)

/-! ### `SeqState::update` -/

/-- `LfnBuffer::push` answers or panics (`Vec was full!?`). -/
theorem push_cases (b : Lfn.Buf) (frag : List Nat) :
    (∃ b', Lfn.push b frag = .ok b') ∨ (∃ m, Lfn.push b frag = .panic m) := by
  unfold Lfn.push
  simp only []
  split
  · exact .inr ⟨_, rfl⟩
  · exact .inl ⟨_, rfl⟩

/-- How the translation reports the model's `update`: the buffer first, a panic as a panic. -/
def updOut (x : Res (SeqState × Lfn.Buf)) (fs : FS) : Res (Lfn.Buf × Res SeqState) × FS :=
  match x with
  | .ok (st, b) => (.ok (b, .ok st), fs)
  | .err e => (.err e, fs)
  | .panic m => (.panic m, fs)
  | .diverged => (.diverged, fs)

/-- One use of `push` inside `update`, both sides. -/
theorem push_step (b b0 : Lfn.Buf) (frag : List Nat) (st : SeqState) (fs : FS) :
    ((F.attempt (F.lift (Lfn.push b frag))) >>= fun r =>
      (match r with
       | Res.ok b' => pure (b', Res.ok st)
       | Res.err e => pure (b0, Res.err e)
       | Res.panic m => F.panic m
       | Res.diverged => F.diverge : F (Lfn.Buf × Res SeqState))) fs =
    updOut (Lfn.push b frag >>= fun b' => pure (st, b')) fs := by
  simp only [bind_apply, attempt_apply, lift_apply]
  rcases push_cases b frag with ⟨b', h⟩ | ⟨m, h⟩ <;> rw [h] <;> rfl

theorem updOut_pure (st : SeqState) (b : Lfn.Buf) (fs : FS) :
    updOut (pure (st, b)) fs = (pure (b, Res.ok st) : F (Lfn.Buf × Res SeqState)) fs := rfl

theorem seq_update_eq (st : SeqState) (buf : Lfn.Buf) (start : Bool) (sequence csum : Nat) (frag : List Nat) (fs : FS) :
    FunsDir.SeqState_update st buf start sequence csum frag fs =
      updOut (SeqState.update st buf start sequence csum frag) fs := by
  unfold FunsDir.SeqState_update SeqState.update
  cases start <;> cases st <;>
    simp only [Bool.false_eq_true, false_and, if_false, true_and, Bool.not_false, Bool.not_true, and_true,
      ite_apply, if_true, and_self, Bool.true_eq_false, and_assoc]
  case false.Waiting => split <;> rfl
  case false.Complete => split <;> rfl
  case false.Remaining c n =>
    by_cases h1 : sequence = 1
    · subst h1
      by_cases h2 : n = 1 <;> by_cases h3 : c = csum <;>
        simp only [h2, h3, if_true, if_false, and_true, and_false, true_and, false_and, and_self, ge_iff_le,
          Nat.le_refl, show (1 : Nat) < 19 from by decide]
      all_goals first | rfl | exact push_step _ _ _ _ _ | (simp; done)
    · by_cases h2 : n = sequence <;> by_cases h3 : c = csum <;>
        by_cases h4 : sequence < 19 <;> by_cases h5 : sequence ≥ 1 <;>
        simp only [h1, h2, h3, h4, h5, if_true, if_false, and_true, and_false, true_and, false_and, and_self]
      all_goals first | rfl | exact push_step _ _ _ _ _ | omega
  all_goals
    by_cases h1 : sequence = 1 <;> by_cases h2 : sequence ≥ 2 ∧ sequence < 20 <;>
      simp only [h1, h2, if_true, if_false]
  all_goals first | rfl | exact push_step _ _ _ _ _

/-! ### The closure of `iterate_dir_lfn`, run over the entries -/

abbrev LCall := DirEntry × Option (List UInt8)

/-- The closure (a copy of the generated text: both branches of `iterate_dir_lfn` hand this function to
`forEachCall`; `fold_eq` is used through definitional equality, so an edit of the closure breaks it). -/
def lfnStep : (List LCall × Lfn.Buf × SeqState) → Call → F (List LCall × Lfn.Buf × SeqState) :=
  fun _t134 _t133 => (let calls := _t134.1; let lfn_buffer := _t134.2.1; let seq_state := _t134.2.2; (let de := _t133.1; let odde := _t133.2; ((match (OnDisk.lfnContents odde) with
    | some _t135 => (((FunsDir.SeqState_update seq_state lfn_buffer _t135.1 _t135.2.1 _t135.2.2.1 _t135.2.2.2) >>= fun _t155 =>
      (let lfn_buffer := _t155.1; (match _t155.2 with
        | Res.ok _t152 => (pure (_t152, lfn_buffer))
        | Res.err _t153 => F.fail _t153
        | Res.panic _t154 => F.panic _t154
        | Res.diverged => F.diverge))) >>= fun _t156 =>
     (let seq_state := _t156.1; (let lfn_buffer := _t156.2; (pure (calls, lfn_buffer, seq_state)))))
    | none => ((match seq_state with
      | SeqState.Complete csum => (let calls := if (csum = (Sfn.csum de.name))
       then (let calls := (calls ++ [(de, (some (Lfn.asStr lfn_buffer)))]); calls)
       else (let calls := (calls ++ [(de, none)]); calls); (let seq_state := SeqState.Waiting; (pure (calls, seq_state))))
      | _ => (let calls := (calls ++ [(de, none)]); (let seq_state := SeqState.Waiting; (pure (calls, seq_state))))) >>= fun _t157 =>
     (let calls := _t157.1; let seq_state := _t157.2; (pure (calls, lfn_buffer, seq_state))))) >>= fun _t158 =>
   (let calls := _t158.1; let lfn_buffer := _t158.2.1; let seq_state := _t158.2.2; (pure (calls, lfn_buffer, seq_state))))))

/-- The answer of the fold for the model's `lfnFold`. -/
def foldOut (calls : List LCall) (x : Res (List LCall)) (b : Lfn.Buf) (st : SeqState) (fs : FS) :
    Res (List LCall × Lfn.Buf × SeqState) × FS :=
  match x with
  | .ok l => (.ok (calls ++ l, b, st), fs)
  | .err e => (.err e, fs)
  | .panic m => (.panic m, fs)
  | .diverged => (.diverged, fs)

theorem fold_eq : ∀ (es : List Call) (calls : List LCall) (buf : Lfn.Buf) (st : SeqState) (fs : FS),
    ∃ b' st', FunsDir.forEachCall es (calls, buf, st) lfnStep fs = foldOut calls (lfnFold st buf es) b' st' fs
  | [], calls, buf, st, fs => ⟨buf, st, by simp [FunsDir.forEachCall, lfnFold, foldOut, pure_apply]⟩
  | (de, raw) :: es, calls, buf, st, fs => by
    rw [FunsDir.forEachCall]
    simp only [bind_apply, lfnStep]
    cases hlc : OnDisk.lfnContents raw with
    | some c =>
      obtain ⟨start, seqno, csum, frag⟩ := c
      have hm : lfnFold st buf ((de, raw) :: es) =
          (SeqState.update st buf start seqno csum frag >>= fun p => lfnFold p.1 p.2 es) := by
        cases st <;> simp only [lfnFold, hlc] <;> rfl
      rw [hm]
      simp only [bind_apply, seq_update_eq]
      cases hu : SeqState.update st buf start seqno csum frag with
      | ok p =>
        obtain ⟨st', b'⟩ := p
        simp only [updOut, pure_apply, bind_apply]
        obtain ⟨b2, st2, h⟩ := fold_eq es calls b' st' fs
        exact ⟨b2, st2, h⟩
      | err e => exact ⟨buf, st, rfl⟩
      | panic m => exact ⟨buf, st, rfl⟩
      | diverged => exact ⟨buf, st, rfl⟩
    | none =>
      have key : ∀ (name : Option Bytes), ∃ b' st',
          FunsDir.forEachCall es (calls ++ [(de, name)], buf, SeqState.Waiting) lfnStep fs =
            foldOut calls (lfnFold .Waiting buf es >>= fun tl => pure ((de, name) :: tl)) b' st' fs := by
        intro name
        obtain ⟨b2, st2, h⟩ := fold_eq es (calls ++ [(de, name)]) buf .Waiting fs
        refine ⟨b2, st2, ?_⟩
        rw [h]
        cases lfnFold SeqState.Waiting buf es <;> simp [foldOut, List.append_assoc]
      cases st with
      | Waiting => simp only [lfnFold, hlc, bind_apply, pure_apply]; exact key none
      | Remaining c n => simp only [lfnFold, hlc, bind_apply, pure_apply]; exact key none
      | Complete c =>
        by_cases hc : c = Sfn.csum de.name
        · subst hc
          simp only [lfnFold, hlc, bind_apply, pure_apply, ↓reduceIte]
          exact key (some (Lfn.asStr buf))
        · simp only [lfnFold, hlc, bind_apply, pure_apply, if_neg hc]
          exact key none

/-! ### `iterate_dir_lfn` -/

/-- The result without the long-name buffer that travels with it. -/
def resOf {α : Type} (x : Res (Lfn.Buf × Res α) × FS) : Res α × FS :=
  match x with
  | (.ok (_, r), fs) => (r, fs)
  | (.err e, fs) => (.err e, fs)
  | (.panic m, fs) => (.panic m, fs)
  | (.diverged, fs) => (.diverged, fs)

/-- The model's fold with the calls already made in front. -/
def foldRes (calls : List LCall) (x : Res (List LCall)) : Res (List LCall) :=
  match x with
  | .ok l => .ok (calls ++ l)
  | .err e => .err e
  | .panic m => .panic m
  | .diverged => .diverged

/-- `iterate_dir_lfn(lfn_buffer, dir, func)`: `func` is called with the entries of `iterateRaw` and the long names
that `lfnFold` puts together, in order.  For every fuel above `chainFuel v + (blocks per step) + 2`, when the
model's `iterateRaw` does not answer `diverged`. -/
theorem iterate_dir_lfn_eq_partial (fuel : Nat) (buf : Lfn.Buf) (dir : DirInfo) (calls : List LCall) (fs : FS)
    (hfuel : fuel ≥ chainFuel fs.vol + (dirWalkStart fs.vol dir.cluster).dirSize + 2)
    (hnd : (iterateRaw dir.cluster fs).1 ≠ .diverged) :
    resOf (FunsDir.FatVolume_iterate_dir_lfn fuel buf dir calls fs) =
      (iterateRaw dir.cluster >>= fun es => F.lift (foldRes calls (lfnFold .Waiting buf es))) fs := by
  unfold FunsDir.FatVolume_iterate_dir_lfn
  simp only [bind_apply, getVol_apply]
  -- both branches run the same closure over the calls of the inner function
  have main : ∀ (inner : F (List Call)), inner fs = (iterateRaw dir.cluster >>= fun es => pure ([] ++ es)) fs →
      resOf (((F.attempt inner) >>= fun r =>
        (match r with
         | Res.ok cl => ((FunsDir.forEachCall cl (calls, buf, SeqState.Waiting) lfnStep) >>= fun t =>
            (let calls := t.1; let lfn_buffer := t.2.1; let seq_state := t.2.2;
              (pure (lfn_buffer, Res.ok calls) : F (Lfn.Buf × Res (List LCall)))))
         | Res.err e => (pure (buf, Res.err e))
         | Res.panic m => F.panic m
         | Res.diverged => F.diverge)) fs) =
      (iterateRaw dir.cluster >>= fun es => F.lift (foldRes calls (lfnFold .Waiting buf es))) fs := by
    intro inner hin
    simp only [bind_apply, attempt_apply, hin, List.nil_append]
    rcases iterateRaw dir.cluster fs with ⟨r, fs1⟩
    cases r with
    | ok es =>
      simp only [pure_apply, bind_apply]
      obtain ⟨b', st', h⟩ := fold_eq es calls buf .Waiting fs1
      rw [h]
      cases lfnFold SeqState.Waiting buf es <;> rfl
    | err e => rfl
    | panic m => rfl
    | diverged => rfl
  cases hft : fs.vol.fatType with
  | fat16 => exact main _ (iterate_fat16_eq_partial fuel dir [] fs hft hfuel hnd)
  | fat32 => exact main _ (iterate_fat32_eq_partial fuel dir [] fs hft hfuel hnd)

end Sdmmc.Props.C17GenLfn
