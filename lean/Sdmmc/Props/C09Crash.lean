/-
C09 (crash-prefix form, FAT-engine level and data plane) — "Once flush or close of a file has
returned success, cutting power after any later block write — during any subsequent operation on other
files, directories or the volume — … shows that file with … exactly the flushed contents, until the
file itself is next modified, truncated or deleted."

Property theorems only.  Vocabulary: `Sdmmc.Spec.Crash` (`newWrites`, `crashDisk`, `opIndex`,
`opZero`, `InCluster`, `Untouched`), `Sdmmc.Spec.Chain` (`Chain`, `chainBytes`), `Sdmmc.Spec.Forest`.
Proofs: `Sdmmc.Lemmas.Crash{Base,Fat,Alloc,Step,Hist,Data}`.

WHAT IS PROVED (every volume, medium, state satisfying `Exact`, operation, and EVERY prefix of the
device writes — not only the end state):

* `crash_preserves_other_chains`: for every chain `X = G[j]` of the client's record other than the one
  the operation works on, at every crash point `X` is still the `Chain` of its first cluster and its
  data bytes (`chainBytes`: all blocks of all its clusters) are exactly what they were before the call.
  `crash_other_entries`: the FAT entries (copy 1) of its clusters are bit-identical.
* `crash_nonfat_blocks`: a block outside the FAT regions differs from before the call, at a crash
  point, only if the operation blanks the cluster it allocates, and then it is a block of a cluster
  that was FREE before the call; `crash_nonfat_blocks_nozero`: without blanking no block outside the
  FAT changes at any crash point.
* `crash_history_preserves_chain`: over every history none of whose operations works on the chain `X`,
  at every prefix of the concatenated device writes of the history, `X` is intact with its original
  bytes, and it is still in the record at the end.  INDEX SHIFTS: `free i` removes entry `i` of the
  record (`eraseIdx`), so a chain behind it changes its index.  The hypothesis `Untouched X st ops`
  therefore identifies the chain by its clusters (no operation's index points at `X` at the moment the
  operation runs), not by a fixed index; chains of a sound record are pairwise different.
* Data plane (stretch): `data_write_crash` — the block write of `write` (`writeBlockPart`, one device
  write into a block of the file's own cluster `cA`) leaves, at every crash point, all FAT blocks, all
  chains, and the bytes of every chain not containing `cA` unchanged.  `write_entry_crash` — one
  directory-slot write (`write_entry_to_disk`): one device write, every other block and every other
  slot of the block unchanged.  `flush_crash`,
  `flush_crash_chains` — the body of `flush_file` (info sector, then the 32-byte directory slot; at
  most two device writes): at every crash point every other block, every other slot of the directory
  block (all bytes outside the slot), all FAT blocks, all chains, and the bytes of every chain outside
  the directory's own cluster are unchanged.  So `flush` never endangers other files.

  `extend_write_crash` — the two together: the device writes of one extending iteration of `write`
  (`allocCluster (some last) false`, then `writeBlockPart` into the new cluster) leave every other chain
  of the record and its bytes intact at every crash point.

NOT PROVED HERE: the manager-level composition (that every device write of an API call on another
file is one of these engine / data-plane steps with the side conditions discharged — name uniqueness
and chain disjointness of C03), and that the independent reader `Spec.Fs` reads only the chain, its
bytes and the slot.  `Model.writeLoop` itself (manager monad: `withVol`, the read-only
`find_data_on_disk` walks between the two F-level calls, the file-table updates) is not lifted here.
-/
import Sdmmc.Lemmas.CrashWrite

namespace Sdmmc.Props.C09Crash
open Sdmmc.Model Sdmmc.Model.Fat Sdmmc.Spec

/-! ### One engine operation, every crash point -/

/-- Other files' chains and data bytes are intact at every crash point. -/
theorem crash_preserves_other_chains (st : FS × List (List Nat)) (op : FatOp) (h : Exact st) (j : Nat) (X : List Nat)
    (hj : st.2[j]? = some X) (hne : opIndex op ≠ some j) (k : Nat) :
    Chain st.1.vol (crashDisk st.1.dev.disk (newWrites st.1 (step st op).1) k) (X.headD 0) X ∧
    chainBytes st.1.vol (crashDisk st.1.dev.disk (newWrites st.1 (step st op).1) k) X = chainBytes st.1.vol st.1.dev.disk X :=
  Lemmas.CrashHist.stepCrash_chain h.1.geom h.2 ((Lemmas.CrashHist.step_crash st op h).spec k) hj hne

/-- The FAT entries of other chains' clusters are bit-identical at every crash point. -/
theorem crash_other_entries (st : FS × List (List Nat)) (op : FatOp) (h : Exact st) (j : Nat) (X : List Nat)
    (hj : st.2[j]? = some X) (hne : opIndex op ≠ some j) (k : Nat) (x : Nat) (hx : x ∈ X) :
    fatRaw st.1.vol (crashDisk st.1.dev.disk (newWrites st.1 (step st op).1) k) x = fatRaw st.1.vol st.1.dev.disk x :=
  ((Lemmas.CrashHist.step_crash st op h).spec k).others j X hj hne x hx

/-- A block outside the FAT that differs at a crash point is a block of a previously FREE cluster being
blanked. -/
theorem crash_nonfat_blocks (st : FS × List (List Nat)) (op : FatOp) (h : Exact st) (k : Nat) (i : Nat)
    (hi : regionOf st.1.vol i ≠ .fat)
    (hd : (crashDisk st.1.dev.disk (newWrites st.1 (step st op).1) k).get i ≠ st.1.dev.disk.get i) :
    opZero op = true ∧ ∃ c, InRange st.1.vol c ∧ isFree st.1.vol st.1.dev.disk c ∧ InCluster st.1.vol c i :=
  ((Lemmas.CrashHist.step_crash st op h).spec k).blocks i hi hd

/-- Without blanking, no block outside the FAT changes at any crash point. -/
theorem crash_nonfat_blocks_nozero (st : FS × List (List Nat)) (op : FatOp) (h : Exact st) (hz : opZero op = false) (k : Nat)
    (i : Nat) (hi : regionOf st.1.vol i ≠ .fat) :
    (crashDisk st.1.dev.disk (newWrites st.1 (step st op).1) k).get i = st.1.dev.disk.get i := by
  refine Classical.byContradiction fun hd => ?_
  have := (crash_nonfat_blocks st op h k i hi hd).1
  rw [hz] at this
  cases this

/-! ### Histories -/

/-- A chain no operation of the history works on keeps its structure and its bytes at every crash
point of the whole history, and is still in the record at the end. -/
theorem crash_history_preserves_chain (st : FS × List (List Nat)) (ops : List FatOp) (h : Exact st) (X : List Nat)
    (hX : X ∈ st.2) (hu : Untouched X st ops) :
    (∀ k, Chain st.1.vol (crashDisk st.1.dev.disk (newWrites st.1 (run st ops).1) k) (X.headD 0) X ∧
      chainBytes st.1.vol (crashDisk st.1.dev.disk (newWrites st.1 (run st ops).1) k) X = chainBytes st.1.vol st.1.dev.disk X) ∧
    X ∈ (run st ops).2 :=
  ⟨fun k => (Lemmas.CrashHist.run_crash_chain X ops st h hX hu).1.spec k,
   (Lemmas.CrashHist.run_crash_chain X ops st h hX hu).2⟩

/-! ### Data plane (stretch) -/

/-- The block write of `write` into block `jA` of the file's cluster `cA`: it succeeds, and at every
crash point all FAT blocks, all chains, and the bytes of every chain not containing `cA` are as before. -/
theorem data_write_crash (v : FatVolume) (hg : WFGeom v) (cA jA off : Nat) (data : Bytes) (whole : Bool)
    (s : FS) (hn : NoFault s) (hc : Coherent s) (hA2 : 2 ≤ cA) (hAE : cA < endCluster v) (hjA : jA < v.blocksPerCluster) :
    ∃ s', writeBlockPart (clusterToBlock v cA + jA) off data whole s = (.ok (), s') ∧
      ∀ k,
        (∀ i, regionOf v i = .fat → (crashDisk s.dev.disk (newWrites s s') k).get i = s.dev.disk.get i) ∧
        (∀ c X, Chain v s.dev.disk c X → Chain v (crashDisk s.dev.disk (newWrites s s') k) c X) ∧
        (∀ c X, Chain v s.dev.disk c X → cA ∉ X →
          chainBytes v (crashDisk s.dev.disk (newWrites s s') k) X = chainBytes v s.dev.disk X) := by
  obtain ⟨s', h, hcr⟩ := Lemmas.CrashData.writeBlockPart_crash_chains v hg cA jA off data whole s hn hc hA2 hAE hjA
  exact ⟨s', h, fun k => hcr.spec k⟩

/-- The device writes of one EXTENDING iteration of `write` (F level: `Lemmas.CrashWrite.extendWriteF` =
`alloc_cluster(Some(last), false)`, then the block write into block `jA` of the new cluster): at every
crash point of the two calls together — blank-free allocation: mark, link; then the data block — every
other chain `X = G[j]` of the record is still a chain and holds exactly the bytes it held before. -/
theorem extend_write_crash (s : FS) (G : List (List Nat)) (h : Exact (s, G)) (i : Nat) (cs : List Nat) (p : Nat)
    (hG : G[i]? = some cs) (hl : cs.getLast? = some p) (jA off : Nat) (data : Bytes) (whole : Bool)
    (hjA : jA < s.vol.blocksPerCluster) (j : Nat) (X : List Nat) (hj : G[j]? = some X) (hji : j ≠ i) (k : Nat) :
    Chain s.vol (crashDisk s.dev.disk (newWrites s (Lemmas.CrashWrite.extendWriteF p jA off data whole s).2) k) (X.headD 0) X ∧
    chainBytes s.vol (crashDisk s.dev.disk (newWrites s (Lemmas.CrashWrite.extendWriteF p jA off data whole s).2) k) X =
      chainBytes s.vol s.dev.disk X :=
  (Lemmas.CrashWrite.extendWrite_crash s G h i cs p hG hl jA off data whole hjA j X hj hji).spec k

/-- One directory-slot write (`write_entry_to_disk`): one device write; at both crash points every
other block, and every other slot of the directory block (all bytes outside the 32 bytes of the slot),
is unchanged — in particular all FAT blocks and all data blocks of all files. -/
theorem write_entry_crash (s : FS) (e : DirEntry) (hn : NoFault s) (hc : Coherent s) (hb : BlocksOK s.dev.disk)
    (ho : e.entryOffset + 32 ≤ 512) (hname : e.name.length = 11) :
    ∃ s', writeEntryToDisk e s = (.ok (), s') ∧ (newWrites s s').length = 1 ∧
      ∀ k,
        (∀ i, i ≠ e.entryBlock → (crashDisk s.dev.disk (newWrites s s') k).get i = s.dev.disk.get i) ∧
        (∀ b, b < e.entryOffset ∨ e.entryOffset + 32 ≤ b →
          ((crashDisk s.dev.disk (newWrites s s') k).get e.entryBlock).getD b 0 = (s.dev.disk.get e.entryBlock).getD b 0) := by
  obtain ⟨s', h, hlen, hcr⟩ := Lemmas.CrashData.writeEntry_crash s e hn hc hb ho hname
  exact ⟨s', h, hlen, fun k => hcr.spec k⟩

/-- `flush_file`'s writes (`Lemmas.DirEntryIO.flushF e` = `updateInfoSector` then `writeEntryToDisk e`):
at most two device writes; at every crash point every block other than the directory block of the
slot and (FAT32) the info sector is unchanged, and — when these two are different blocks — inside
the directory block all bytes outside the 32 bytes of the slot (every other slot), inside the info
sector all bytes outside 488 … 495. -/
theorem flush_crash (s : FS) (e : DirEntry) (hn : NoFault s) (hc : Coherent s) (hb : BlocksOK s.dev.disk)
    (ho : e.entryOffset + 32 ≤ 512) (hname : e.name.length = 11) :
    ∃ s', Lemmas.DirEntryIO.flushF e s = (.ok (), s') ∧ (newWrites s s').length ≤ 2 ∧
      ∀ k,
        (∀ i, i ≠ e.entryBlock → (s.vol.fatType = .fat32 → i ≠ s.vol.infoLocation) →
          (crashDisk s.dev.disk (newWrites s s') k).get i = s.dev.disk.get i) ∧
        (e.entryBlock ≠ s.vol.infoLocation → ∀ b, b < e.entryOffset ∨ e.entryOffset + 32 ≤ b →
          ((crashDisk s.dev.disk (newWrites s s') k).get e.entryBlock).getD b 0 = (s.dev.disk.get e.entryBlock).getD b 0) ∧
        (e.entryBlock ≠ s.vol.infoLocation → ∀ b, b < 488 ∨ 496 ≤ b →
          ((crashDisk s.dev.disk (newWrites s s') k).get s.vol.infoLocation).getD b 0 =
            (s.dev.disk.get s.vol.infoLocation).getD b 0) := by
  obtain ⟨s', h, hlen, hcr⟩ := Lemmas.CrashData.flushF_crash s e hn hc hb ho hname
  exact ⟨s', h, hlen, fun k => hcr.spec k⟩

/-- Flushing a file whose slot lies in the fixed root directory (`dc = none`) or in block `j` of the
directory cluster `c` (`dc = some c`): at every crash point all FAT blocks and all chains are intact,
and so are the bytes of every chain that does not contain the directory's cluster — every other
file's data. -/
theorem flush_crash_chains (s : FS) (e : DirEntry) (hn : NoFault s) (hc : Coherent s) (hb : BlocksOK s.dev.disk)
    (ho : e.entryOffset + 32 ≤ 512) (hname : e.name.length = 11) (hg : WFGeom s.vol)
    (hI : s.vol.fatType = .fat32 → regionOf s.vol s.vol.infoLocation = .info)
    (dc : Option Nat)
    (hE : match dc with
      | none => regionOf s.vol e.entryBlock = .root
      | some c => InRange s.vol c ∧ ∃ j, j < s.vol.blocksPerCluster ∧ e.entryBlock = clusterToBlock s.vol c + j) :
    ∃ s', Lemmas.DirEntryIO.flushF e s = (.ok (), s') ∧
      ∀ k,
        (∀ i, regionOf s.vol i = .fat → (crashDisk s.dev.disk (newWrites s s') k).get i = s.dev.disk.get i) ∧
        (∀ c X, Chain s.vol s.dev.disk c X → Chain s.vol (crashDisk s.dev.disk (newWrites s s') k) c X) ∧
        (∀ c X, Chain s.vol s.dev.disk c X → (∀ x, dc = some x → x ∉ X) →
          chainBytes s.vol (crashDisk s.dev.disk (newWrites s s') k) X = chainBytes s.vol s.dev.disk X) := by
  obtain ⟨s', h, hcr⟩ := Lemmas.CrashData.flushF_crash_chains s e hn hc hb ho hname hg hI dc hE
  exact ⟨s', h, fun k => hcr.spec k⟩

/-- On a FAT32 volume whose FAT lies inside the partition the info sector is in the info region (the
hypothesis `hI` of `flush_crash_chains`). -/
theorem info_region (v : FatVolume) (hg : WFGeom v) (hn : v.fatStart ≤ v.numBlocks) :
    v.fatType = .fat32 → regionOf v v.infoLocation = .info :=
  fun h32 => Lemmas.FatLens.info_block_in_info_region v hg h32 hn

/-! ### Non-vacuity (tests, labelled as tests) -/

namespace Example

/-- The 20-cluster FAT16 volume of `Props/C10Crash.lean` (FAT copies in sectors 1 and 3, data from
block 10, one block per cluster). -/
def vol : FatVolume :=
  { lbaStart := 0, numBlocks := 200, name := [], blocksPerCluster := 1, firstDataBlock := 10, fatStart := 1,
    secondFatStart := some 3, freeClustersCount := some 14, nextFreeCluster := none, clusterCount := 20,
    fatType := .fat16, rootEntriesCount := 16, firstRootDirBlock := 9, infoLocation := 0, firstRootDirCluster := 0 }
/-- FAT: chain `2 → 3 → 4`, chain `5 → 6`, cluster 7 bad, clusters 8 … 21 free. -/
def fatBlk : Block := [0xF8, 0xFF, 0xFF, 0xFF, 3, 0, 4, 0, 0xFF, 0xFF, 6, 0, 0xFF, 0xFF, 0xF7, 0xFF] ++ zeros 496
/-- File data: cluster 5 (block 13) holds `0x11…`, cluster 6 (block 14) holds `0x22…`. -/
def dataA : Block := List.replicate 512 0x11
def dataB : Block := List.replicate 512 0x22
def st : FS :=
  { dev := { disk := (((Disk.empty.set 1 fatBlk).set 3 fatBlk).set 13 dataA).set 14 dataB }, cache := {}, vol := vol }
def G0 : List (List Nat) := [[2, 3, 4], [5, 6]]

theorem st_ready : Ready st where
  noFault := rfl
  coherent := by intro i h; cases h
  blocksOK := by
    intro i
    show (((((Disk.empty.set 1 fatBlk).set 3 fatBlk).set 13 dataA).set 14 dataB).get i).length = 512
    rw [Lemmas.FBasic.Disk.get_set, Lemmas.FBasic.Disk.get_set, Lemmas.FBasic.Disk.get_set, Lemmas.FBasic.Disk.get_set,
      Lemmas.FBasic.Disk.get_empty]
    split
    · decide +kernel
    · split
      · decide +kernel
      · split
        · decide +kernel
        · split
          · decide +kernel
          · exact Lemmas.FatOps.zeroBlock_length
  geom :=
    { bpc_pos := by decide
      fat_after_boot := by decide
      second_after_first := by intro s h; cases h; decide
      root16 := by intro _; decide
      root32 := by intro h; exact absurd h (by decide)
      data_fits := by decide
      count_bound := by show endCluster vol ≤ 0xFFF7; decide }
  hint := by intro n h; cases h

theorem st_owns : Owns st.vol st.dev.disk G0 := by
  refine ⟨?_, by decide, ?_⟩
  · intro cs hcs
    have : cs = [2, 3, 4] ∨ cs = [5, 6] := by simpa [G0] using hcs
    rcases this with rfl | rfl
    · exact Lemmas.CrashBase.chainOK_sound _ _ _ (by decide +kernel)
    · exact Lemmas.CrashBase.chainOK_sound _ _ _ (by decide +kernel)
  · intro c
    by_cases hc : c < 22
    · have h : ∀ c, c < 22 → (isUsed st.vol st.dev.disk c ↔ c ∈ G0.flatten) := by decide +kernel
      exact h c hc
    · constructor
      · intro hu; exact absurd hu.1.2 hc
      · intro hm
        have : c = 2 ∨ c = 3 ∨ c = 4 ∨ c = 5 ∨ c = 6 := by simpa [G0] using hm
        omega

theorem st_exact : Exact (st, G0) := ⟨st_ready, st_owns⟩

/-- A history on chain 0 and on new chains only: extend chain 0 (blanking the new cluster), start a
new chain, cut chain 0 behind its first cluster, delete chain 0 — after which the flushed file `[5, 6]`
has moved from index 1 to index 0 —, and start another chain. -/
def ops : List FatOp := [.extend 0 true, .newChain false, .truncate 0 0, .free 0, .newChain true]

theorem ops_untouched : Untouched [5, 6] (st, G0) ops := by decide +kernel

/-- The record at the end: the file is still there, at another index. -/
theorem final_record : (run (st, G0) ops).2 = [[5, 6], [9], [2]] := by decide +kernel

/-- 20 device writes, 21 crash media; the theorem applies to each. -/
theorem history_writes : (newWrites st (run (st, G0) ops).1).length = 20 := by decide +kernel

example : ∀ k, Chain vol (crashDisk st.dev.disk (newWrites st (run (st, G0) ops).1) k) 5 [5, 6] ∧
    chainBytes vol (crashDisk st.dev.disk (newWrites st (run (st, G0) ops).1) k) [5, 6] = dataA ++ dataB := by
  intro k
  obtain ⟨h1, h2⟩ := (crash_history_preserves_chain (st, G0) ops st_exact [5, 6] (by decide) ops_untouched).1 k
  refine ⟨h1, h2.trans ?_⟩
  decide +kernel

/-- Checked by evaluation too: on each of the 21 crash media the chain `5 → 6` is a chain and its bytes
are the flushed bytes. -/
theorem history_checked :
    (crashDisks st.dev.disk (newWrites st (run (st, G0) ops).1)).all (fun dk =>
      chainOK vol dk [5, 6] && decide (chainBytes vol dk [5, 6] = dataA ++ dataB)) = true := by
  decide +kernel

/-- SHARPNESS of `Untouched`: an operation on the chain itself does change it (its last cluster is no
longer its last). -/
example : chainOK vol (step (st, G0) (.extend 1 false)).1.dev.disk [5, 6] = false := by decide +kernel

/-- The data plane: overwriting bytes 3 … 5 of block 13 (cluster 5) leaves chain `2 → 3 → 4` and its
bytes alone at both crash points, and the FAT sectors too. -/
example : ∀ k, Chain vol (crashDisk st.dev.disk (newWrites st (writeBlockPart 13 3 [1, 2, 3] false st).2) k) 2 [2, 3, 4] ∧
    chainBytes vol (crashDisk st.dev.disk (newWrites st (writeBlockPart 13 3 [1, 2, 3] false st).2) k) [2, 3, 4] =
      chainBytes vol st.dev.disk [2, 3, 4] := by
  intro k
  obtain ⟨s', h, hk⟩ := data_write_crash vol st_ready.geom 5 0 3 [1, 2, 3] false st st_ready.noFault st_ready.coherent
    (by decide) (by decide) (by decide)
  have e : (writeBlockPart 13 3 [1, 2, 3] false st).2 = s' := by
    have : writeBlockPart (clusterToBlock vol 5 + 0) 3 [1, 2, 3] false st = writeBlockPart 13 3 [1, 2, 3] false st := rfl
    rw [← this, h]
  rw [e]
  have hch : Chain vol st.dev.disk 2 [2, 3, 4] := st_owns.1 [2, 3, 4] (by decide)
  exact ⟨(hk k).2.1 2 [2, 3, 4] hch, (hk k).2.2 2 [2, 3, 4] hch (by decide)⟩

end Example

end Sdmmc.Props.C09Crash
