/-
C11 over HISTORIES UNDER FAULTS WITH SEVERAL OPEN VOLUMES.

`Props/C11Multi.lean` proves the one-call clauses for a manager with several open volumes on one device (one cache, ONE fault
schedule) from `VolInvNF` — nothing given up but "no fault scheduled" —, `MirrorN` and `LabelFresh`; it does not survive a
failure inside a mutating call (lost chains, copy 2 behind).  Here the invariant of histories under faults is lifted through
the projection, and histories are proved.

* `VolInvNS s ghs` (`Spec/VolumeNSlack.lean`): the table clauses of `VolInvN`; per open volume `MedSlack k X` with lost chains and
  slack OF ITS OWN and the open files of that volume; `EntriesNotAheadN`.  `projection_satisfies_volInvSE`: every projection
  satisfies `VolInvSE`.  `volInvNS_of_volInvN`: every state with `VolInvN` and no entry ahead, given ANY schedule, satisfies it.
* (1) `step_multi_under_faults` — ONE call under any schedule, WHATEVER device call of it fails: `VolInvNS` again, the ghosts
  keeping their geometry; the answer of a call addressed to a volume is `Ok` or an error; no block outside the partition of the
  addressed volume changes (none at all if the call is addressed to no volume), every other volume record stays at its
  index.  NO `Mirror` anywhere (the frame comes from the copy-1 licences, `Lemmas/MultiS.staysIn_D`).
* (2) `history_under_faults_multi_partial` — every history satisfying `MultiRunOK`, any schedule: after every prefix `VolInvNS`;
  in every directory of every open volume the names are pairwise distinct; every open file of every volume fits its chain
  (`FileOK`); every addressed call answered `Ok` or an error.
* (3) `fault_on_one_volume_history_partial` — a volume NO call of the history is addressed to keeps its record and its
  partition BYTE FOR BYTE after every prefix — whatever device calls fail in the calls addressed to the other volumes (so every
  slot, chain — through either FAT copy — and byte of that volume is as it was).

WHAT `MultiRunOK` ASKS of each call in the state it is issued in: it is neither `open_volume` nor `close_volume` (why `_partial`
for (2): a mount under a fault schedule is covered nowhere; `close_volume` under faults needs `Lemmas/VolNFault3.closeVolume_F`
restated for `VolInvNS` — not done); `LabelFreshOp` (the label quirk of `Props.C03Multi`); `NotDamagedOpen` on the projection it
is addressed to (void unless a truncation on THAT volume failed earlier).  Names are unrestricted.
WHY `_partial` for (3) (TARGET: an object of volume `j` that no call ADDRESSED TO `j` names is intact): only histories with NO
call addressed to `j` are covered; for calls addressed to `j` the one-volume licences (`Props.C11HistM`, `Lemmas/DLicXRun`) apply
to the projection, but chaining them across calls addressed to other volumes in between (the medium of `proj · j` changes
outside partition `j` only — harmless, not assembled) is not done.
-/
import Sdmmc.Spec.VolumeNSlack
import Sdmmc.Lemmas.MultiS3
import Sdmmc.Props.C11Multi
import Sdmmc.Props.C11HistD

namespace Sdmmc.Props.C11MultiHist
open Sdmmc.Model Sdmmc.Model.Fat Sdmmc.Spec.Volume
open Sdmmc.Spec hiding run step NoFault Coherent
open Sdmmc.Props.C11Inv (withFaults)
open Sdmmc.Lemmas.MultiS (SameG)

/-! ### Vocabulary -/

theorem labelFreshOp_iff (s : Mgr) (op : Op) : LabelFreshOp s op ↔ Lemmas.VolN.LabelFresh s op := by cases op <;> exact Iff.rfl

theorem covered_of_noMount {s : Mgr} {op : Op} (h : ∀ i, op ≠ .openVolume i) : Lemmas.FaultInv.FCovered s op := by
  cases op <;> first | exact absurd rfl (h _) | exact C03All.name_ok_all _ | exact trivial

theorem stepOK_of {s : Mgr} {op : Op} (h : MultiCallOK s op) : Lemmas.MultiS.StepOK s op :=
  ⟨h.1, h.2.1, (labelFreshOp_iff s op).1 h.2.2.1, covered_of_noMount h.1, fun i vi ht hvi => by
    rw [← Lemmas.VolN.proj_eq_projH hvi]; exact h.2.2.2 i ht⟩

theorem runOK_of : ∀ (ops : List Op) (s : Mgr), MultiRunOK s ops → Lemmas.MultiS.RunOK s ops
  | [], _, _ => trivial
  | op :: ops, s, h => ⟨stepOK_of h.1, runOK_of ops _ h.2⟩

theorem notAddressed_of : ∀ (ops : List Op) (s : Mgr) (j : Nat), NotAddressedRun j s ops → Lemmas.MultiS.NotAddressed j s ops
  | [], _, _, _ => trivial
  | op :: ops, s, j, h => ⟨h.1, notAddressed_of ops _ j h.2⟩

/-- `SameG`, unfolded: as many ghosts, index by index the same geometry. -/
theorem sameG_def (ghs ghs' : List Ghost) : SameG ghs ghs' ↔
    ghs'.length = ghs.length ∧ ∀ (j : Nat) (g g' : Ghost), ghs[j]? = some g → ghs'[j]? = some g' → SameGeom g.vol g'.vol := Iff.rfl

/-! ### The invariant -/

/-- **Every projection satisfies the one-volume invariant of histories under faults.** -/
theorem projection_satisfies_volInvSE {s : Mgr} {ghs : List Ghost} (hI : VolInvNS s ghs) {i : Nat} {vi : VolInfo} {gh : Ghost}
    (hvi : s.vols[i]? = some vi) (hgh : ghs[i]? = some gh) : ∃ k X, VolInvSE k (proj s i) gh X := by
  obtain ⟨⟨k, X, hD⟩, hR⟩ := Lemmas.MultiS.volInvD_projH hI hvi hgh
  rw [Lemmas.VolN.proj_eq_projH hvi]
  exact ⟨k, X, Lemmas.VolD.volInvS_iff.2 hD, hR⟩

/-- **Start states**: the invariant of several open volumes (C03Multi) with no entry ahead, given ANY schedule. -/
theorem volInvNS_of_volInvN {s0 : Mgr} {ghs : List Ghost} (hI : VolInvN s0 ghs) (hE : EntriesNotAheadN s0) (L : List Nat) :
    VolInvNS (withFaults L s0) ghs :=
  ⟨hI.coherent, hI.unlocked, hI.len, hI.vols, hI.handles, hI.indices, hI.parts,
    fun i vi gh hvi hgh =>
      let hM := hI.med i vi gh hvi hgh
      ⟨0, [], hM.blocksOK, hM.geom, hM.hint, by rw [List.append_nil]; exact hM.owns, by rw [Nat.add_zero]; exact hM.tree, hM.fileOK⟩,
    hE, hI.fileVols, hI.openDirs, hI.inertDirs⟩

/-- With no file open no entry is ahead. -/
theorem entriesNotAheadN_of_no_files {s : Mgr} (h : s.files = []) : EntriesNotAheadN s :=
  fun _ _ f hf _ => by rw [h] at hf; cases hf

/-! ### (1) One call -/

/-- **`step_multi_under_faults`.**  See the header. -/
theorem step_multi_under_faults {s : Mgr} {ghs : List Ghost} (hI : VolInvNS s ghs) (op : Op) (hok : MultiCallOK s op) :
    (∃ ghs', VolInvNS (step s op).1 ghs' ∧ SameG ghs ghs') ∧
    (∀ i, target s op = some i → Clean (step s op).2.result) ∧
    (∀ j vj, s.vols[j]? = some vj → target s op ≠ some j →
      (∃ vj', (step s op).1.vols[j]? = some vj' ∧ vj'.vol = vj.vol) ∧
      ∀ b, InPartition vj.vol b → (step s op).1.dev.disk.get b = s.dev.disk.get b) :=
  Lemmas.MultiS.step_multi hI op (stepOK_of hok)

/-! ### (2) Histories -/

/-- **`history_under_faults_multi_partial`** (TARGET: also `open_volume` / `close_volume` in the history).  See the header. -/
theorem history_under_faults_multi_partial (ops : List Op) {s : Mgr} {ghs : List Ghost} (hI : VolInvNS s ghs)
    (hok : MultiRunOK s ops) (n : Nat) :
    (∃ ghs', VolInvNS (run s (ops.take n)).1 ghs' ∧ SameG ghs ghs' ∧
      -- names: no directory of any open volume holds two entries with the same name
      (∀ (i : Nat) (vi : VolInfo) (gh : Ghost), (run s (ops.take n)).1.vols[i]? = some vi → ghs'[i]? = some gh →
        ∀ h, h ∈ dirIds gh.dirs → ((entries (dirSlots gh.vol (run s (ops.take n)).1.dev.disk gh.G h)).map sName).Nodup) ∧
      -- every open file of every volume fits its chain
      (∀ (i : Nat) (vi : VolInfo) (gh : Ghost), (run s (ops.take n)).1.vols[i]? = some vi → ghs'[i]? = some gh →
        ∀ f, f ∈ volFiles (run s (ops.take n)).1 vi.rawVolume →
          FileOK gh.vol (run s (ops.take n)).1.dev.disk f (chainOf gh.G f.entry.cluster))) ∧
    -- every addressed call answered `Ok` or an error
    (∀ op i, ops[n]? = some op → target (run s (ops.take n)).1 op = some i →
      Clean (step (run s (ops.take n)).1 op).2.result) := by
  obtain ⟨ghs', h1, h2⟩ := Lemmas.MultiS.history_multi ops hI (runOK_of ops s hok) n
  refine ⟨⟨ghs', h1, h2, fun i vi gh hvi hgh => ?_, fun i vi gh hvi hgh f hf => ?_⟩,
    fun op i hop ht => Lemmas.MultiS.history_multi_clean ops hI (runOK_of ops s hok) n op i hop ht⟩
  · obtain ⟨k, X, hM⟩ := h1.med i vi gh hvi hgh
    exact hM.tree.names
  · obtain ⟨k, X, hM⟩ := h1.med i vi gh hvi hgh
    exact (hM.fileOK f hf).1

/-! ### (3) A volume no call is addressed to -/

/-- **`fault_on_one_volume_history_partial`** (TARGET: see the header).  Volume record `j` of the start state; no call of the
history is addressed to it.  After every prefix — whatever device calls failed in the calls addressed to the other
volumes —: its record is still at index `j`, and its partition is the same BYTE FOR BYTE. -/
theorem fault_on_one_volume_history_partial (ops : List Op) {s : Mgr} {ghs : List Ghost} (hI : VolInvNS s ghs)
    (hok : MultiRunOK s ops) (j : Nat) (vj : VolInfo) (hvj : s.vols[j]? = some vj) (hna : NotAddressedRun j s ops) (n : Nat) :
    (∃ vj', (run s (ops.take n)).1.vols[j]? = some vj' ∧ vj'.vol = vj.vol) ∧
    SamePartition vj.vol s.dev.disk (run s (ops.take n)).1.dev.disk :=
  Lemmas.MultiS.partition_untouched ops hI (runOK_of ops s hok) j vj hvj (notAddressed_of ops s j hna) n

/-! ### Non-vacuity (evaluated, and the theorems instantiated) -/

namespace Example
open Sdmmc.Lemmas.VolExample Sdmmc.Lemmas.VolN.Example2
open Sdmmc.Props.C03Multi.Example (two_volumes)
open Sdmmc.Props.C11Multi.Example (mkd)
open Sdmmc.Props.C11Inv.Example (isDeviceError)

/-- The two-volume example state of `Props.C03Multi` (FAT16 volume: record 0, handle 1, blocks 0 … 39; FAT32 volume: record 1,
handle 5, blocks 40 … 79; no file open), given ANY schedule, satisfies `VolInvNS`. -/
theorem two_volumes_NS (L : List Nat) : VolInvNS (withFaults L mgr2) ghs2 :=
  volInvNS_of_volInvN two_volumes (entriesNotAheadN_of_no_files rfl) L

/-- On the FAT32 volume (directory handle 7): `make_dir_in_dir D` — device call 5 FAILS, the clean-up runs —, `iterate_dir`,
`make_dir_in_dir D` again, `open_root_dir`, `find`; in between `has_open_handles`. -/
def opsN : List Op := [mkd, .list 7, .hasOpen, mkd, .openRoot 5, .find 7 [68]]

theorem opsN_ok (L : List Nat) : MultiRunOK (withFaults L mgr2) opsN := by
  refine ⟨?_, ?_, ?_, ?_, ?_, ?_, trivial⟩ <;>
    exact ⟨fun i h => (by cases h), fun v h => (by cases h), trivial, fun _ _ => trivial⟩

/-- No call of it is addressed to the FAT16 volume (record 0), under the schedule `[5]` (evaluated). -/
theorem opsN_not_addressed : NotAddressedRun 0 (withFaults [5] mgr2) opsN := by
  refine ⟨?_, ?_, ?_, ?_, ?_, ?_, trivial⟩ <;> decide +kernel

/-- The theorems, instantiated: `VolInvNS` after every prefix under EVERY schedule; and under the schedule `[5]` the FAT16
volume keeps its partition byte for byte. -/
example (L : List Nat) (n : Nat) := history_under_faults_multi_partial opsN (two_volumes_NS L) (opsN_ok L) n
example (n : Nat) := fault_on_one_volume_history_partial opsN (two_volumes_NS [5]) (opsN_ok [5]) 0
  { rawVolume := 1, idx := 0, vol := vol16 } rfl opsN_not_addressed n

/-- Evaluated: the first `make_dir_in_dir` answers `DeviceError`, everything else `Ok`; one device call failed. -/
theorem opsN_evaluated :
    (run (withFaults [5] mgr2) opsN).2.map (fun o => isDeviceError o.result) = [true, false, false, false, false, false] ∧
    (run (withFaults [5] mgr2) opsN).1.dev.failed = 1 := by decide +kernel

end Example

end Sdmmc.Props.C11MultiHist
