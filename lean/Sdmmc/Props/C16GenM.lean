/-
C16 / C05, tie to the source text, effectful level: the chain walkers of fat/volume.rs —
`truncate_cluster_chain` (with its `loop`) and `free_cluster_chain` — machine-translated WHOLE into the
model's `F` monad (`Sdmmc.Gen.FunsM`, fuel-indexed loop), are equal to the hand-written model
(`Model/Fat.lean`, also fuel-indexed) as functions of the state: same FAT writes in the same order,
same saturating bookkeeping of `free_clusters_count` and `next_free_cluster`.
-/
import Sdmmc.Gen.FunsM
import Sdmmc.Model.Fat
import Sdmmc.Lemmas.FBasic
import Sdmmc.Lemmas.FatOps
import Sdmmc.Props.C04GenM
import Sdmmc.Props.C05GenM

set_option linter.unusedSimpArgs false

namespace Sdmmc.Props.C16GenM

open Sdmmc Sdmmc.Model Sdmmc.Model.Fat Sdmmc.Gen Sdmmc.Lemmas.FBasic Sdmmc.Lemmas.FatOps
open Sdmmc.Props.C04GenM (next_cluster_eq update_fat_eq cluster_to_block_eq)
open Sdmmc.Props.C05GenM (find_next_free_cluster_eq)

theorem satInc_eq (k : Nat) : min (k + 1) 4294967295 = satInc k := by
  unfold satInc U32_MAX
  split <;> omega

/-- The model's bump of `free_clusters_count` when the count is unknown: nothing changes. -/
theorem bump_none (s : FS) (h : s.vol.freeClustersCount = none) :
    (F.modifyVol fun v => { v with freeClustersCount := v.freeClustersCount.map satInc }) s = (.ok (), s) := by
  simp only [modifyVol_apply, h, Option.map]
  rcases s with ⟨dev, cache, vol⟩
  simp only at h
  rcases vol with ⟨a1, a2, a3, a4, a5, a6, a7, a8, a9, a10, a11, a12, a13, a14, a15⟩
  simp only at h
  subst h
  rfl

/-- ... and when it is known: `n.saturating_add(1)`. -/
theorem bump_some (s : FS) (k : Nat) (h : s.vol.freeClustersCount = some k) :
    (F.modifyVol fun v => { v with freeClustersCount := v.freeClustersCount.map satInc }) s =
      (.ok (), { s with vol := { s.vol with freeClustersCount := some (min (k + 1) 4294967295) } }) := by
  simp only [modifyVol_apply, h, Option.map, satInc_eq]

/-- The `loop` of `truncate_cluster_chain`, fuel for fuel. -/
theorem truncate_loop_eq : ∀ (fuel : Nat) (v0 : FatVolume) (next : Nat),
    (FunsM.FatVolume_truncate_cluster_chain_loop1 v0 fuel next >>= fun _ => (pure () : F Unit)) =
      truncateLoop fuel next := by
  intro fuel
  induction fuel with
  | zero => intro v0 next; funext s; rfl
  | succ fuel ih =>
    intro v0 next
    funext s
    rw [FunsM.FatVolume_truncate_cluster_chain_loop1, truncateLoop]
    simp only [bind_apply, getVol_apply, attempt_apply, next_cluster_eq, update_fat_eq,
      show CLUSTER_EMPTY = 0 from rfl]
    have hv1 : (nextCluster next s).2.vol = s.vol := nextCluster_vol next s
    rcases hn : nextCluster next s with ⟨r, s1⟩
    rw [hn] at hv1
    simp only at hv1
    cases r with
    | ok n =>
      simp only [bind_apply, getVol_apply]
      rcases hu : updateFat next 0 s1 with ⟨r2, s2⟩
      cases r2 with
      | ok u =>
        simp only []
        rcases hfc : s2.vol.freeClustersCount with _ | k
        · rw [bump_none s2 hfc]
          simp only [pure_apply]
          have := congrFun (ih s2.vol n) s2
          simp only [bind_apply] at this
          exact this
        · rw [bump_some s2 k hfc]
          simp only [bind_apply, modifyVol_apply, getVol_apply, pure_apply]
          have := congrFun (ih { s2.vol with freeClustersCount := some (min (k + 1) 4294967295) } n)
            { s2 with vol := { s2.vol with freeClustersCount := some (min (k + 1) 4294967295) } }
          simp only [bind_apply] at this
          exact this
      | err er => simp only []
      | panic m => simp only []
      | diverged => simp only []
    | err er =>
      have hv2 : (updateFat next 0 s1).2.vol = s1.vol := updateFat_vol next 0 s1
      cases er
      case EndOfFile =>
        simp only [bind_apply, getVol_apply]
        rcases hu : updateFat next 0 s1 with ⟨r2, s2⟩
        rw [hu] at hv2
        simp only at hv2
        cases r2 with
        | ok u =>
          simp only []
          have hvs : s.vol = s2.vol := by rw [hv2, hv1]
          rw [hvs]
          rcases hfc : s2.vol.freeClustersCount with _ | k
          · rw [bump_none s2 hfc]
            simp only [pure_apply]
          · rw [bump_some s2 k hfc]
            simp only [bind_apply, modifyVol_apply, getVol_apply, pure_apply]
        | err er => simp only []
        | panic m => simp only []
        | diverged => simp only []
      all_goals simp only [fail_apply, lift_apply, Res.bind]
    | panic m => simp only [panic_apply, lift_apply, Res.bind]
    | diverged => simp only [diverge_apply, lift_apply, Res.bind]

theorem vol_eta_nf (s : FS) (x : Option Nat) (h : s.vol.nextFreeCluster = x) :
    ({ s with vol := { s.vol with nextFreeCluster := x } } : FS) = s := by
  rcases s with ⟨dev, cache, vol⟩
  rcases vol with ⟨a1, a2, a3, a4, a5, a6, a7, a8, a9, a10, a11, a12, a13, a14, a15⟩
  simp only at h
  subst h
  rfl

/-- The tail of `truncate_cluster_chain` after the first link has been read. -/
theorem truncate_tail (fuel cluster next : Nat) (v0 : FatVolume) (s : FS) (hf : fuel = chainFuel s.vol) :
    ((FunsM.FatVolume_update_fat cluster 4294967295) >>= fun _ =>
      ((FunsM.FatVolume_truncate_cluster_chain_loop1 v0 fuel next) >>= fun _ =>
        (F.getVol >>= fun _ => (pure () : F Unit)))) s =
    (updateFat cluster CLUSTER_END_OF_FILE >>= fun _ => F.getVol >>= fun v => truncateLoop (chainFuel v) next) s := by
  simp only [bind_apply, update_fat_eq, show CLUSTER_END_OF_FILE = 4294967295 from rfl, getVol_apply]
  have hv : (updateFat cluster 4294967295 s).2.vol = s.vol := updateFat_vol _ _ s
  rcases hu : updateFat cluster 4294967295 s with ⟨r, s1⟩
  rw [hu] at hv
  simp only at hv
  cases r with
  | ok u =>
    simp only []
    have := congrFun (truncate_loop_eq fuel v0 next) s1
    simp only [bind_apply] at this
    rw [hv, ← hf, ← this]
  | err er => simp only []
  | panic m => simp only []
  | diverged => simp only []

/-- **`truncate_cluster_chain` whole**, with the fuel the model uses (`cluster_count + 3`). -/
theorem truncate_cluster_chain_eq (cluster : Nat) (s : FS) :
    FunsM.FatVolume_truncate_cluster_chain (chainFuel s.vol) cluster s = truncateClusterChain cluster s := by
  unfold FunsM.FatVolume_truncate_cluster_chain truncateClusterChain
  rw [show RESERVED_ENTRIES = 2 from rfl]
  simp only [bind_apply, getVol_apply]
  by_cases hc : cluster < 2
  · simp only [hc, if_true, pure_apply]
  simp only [hc, if_false, bind_apply, attempt_apply, next_cluster_eq]
  have hv1 : (nextCluster cluster s).2.vol = s.vol := nextCluster_vol cluster s
  rcases hn : nextCluster cluster s with ⟨r, s1⟩
  rw [hn] at hv1
  simp only at hv1
  cases r with
  | ok next =>
    simp only []
    rw [← hv1]
    rcases hnf : s1.vol.nextFreeCluster with _ | nf
    · simp only [bind_apply, modifyVol_apply, getVol_apply, pure_apply, hnf]
      exact truncate_tail _ cluster next _ _ (by unfold chainFuel; rfl)
    · by_cases hgt : nf > next
      · simp only [bind_apply, modifyVol_apply, getVol_apply, pure_apply, hnf, hgt, if_true]
        exact truncate_tail _ cluster next _ _ (by unfold chainFuel; rfl)
      · simp only [bind_apply, modifyVol_apply, getVol_apply, pure_apply, hnf, hgt, if_false]
        rw [vol_eta_nf s1 (some nf) hnf]
        exact truncate_tail _ cluster next _ _ rfl
  | err er =>
    cases er
    case EndOfFile => simp only [pure_apply]
    all_goals simp only [fail_apply, lift_apply, Res.bind]
  | panic m => simp only [panic_apply, lift_apply, Res.bind]
  | diverged => simp only [diverge_apply, lift_apply, Res.bind]

/-- **`free_cluster_chain` whole**, with the fuel the model uses. -/
theorem free_cluster_chain_eq (cluster : Nat) (s : FS) :
    FunsM.FatVolume_free_cluster_chain (chainFuel s.vol) cluster s = freeClusterChain cluster s := by
  unfold FunsM.FatVolume_free_cluster_chain freeClusterChain
  rw [show RESERVED_ENTRIES = 2 from rfl, show CLUSTER_EMPTY = 0 from rfl]
  simp only [bind_apply, getVol_apply]
  by_cases hc : cluster < 2
  · simp only [hc, if_true, pure_apply]
  simp only [hc, if_false, bind_apply, truncate_cluster_chain_eq, update_fat_eq, getVol_apply]
  rcases truncateClusterChain cluster s with ⟨r, s1⟩
  cases r with
  | ok u =>
    simp only []
    have hv2 : (updateFat cluster 0 s1).2.vol = s1.vol := updateFat_vol _ _ s1
    rcases hu : updateFat cluster 0 s1 with ⟨r2, s2⟩
    rw [hu] at hv2
    simp only at hv2
    cases r2 with
    | ok u2 =>
      simp only []
      rw [← hv2]
      rcases s2 with ⟨dev, cache, vol⟩
      rcases vol with ⟨a1, a2, a3, a4, a5, a6, a7, fcc, nf, a10, a11, a12, a13, a14, a15⟩
      rcases fcc with _ | k <;> rcases nf with _ | n
      · simp only [bind_apply, modifyVol_apply, getVol_apply, pure_apply, Option.map]
      · by_cases hle : n ≤ cluster
        · simp only [bind_apply, modifyVol_apply, getVol_apply, pure_apply, Option.map, hle, if_true]
        · simp only [bind_apply, modifyVol_apply, getVol_apply, pure_apply, Option.map, hle, if_false]
      · simp only [bind_apply, modifyVol_apply, getVol_apply, pure_apply, Option.map, satInc_eq]
      · by_cases hle : n ≤ cluster
        · simp only [bind_apply, modifyVol_apply, getVol_apply, pure_apply, Option.map, satInc_eq, hle, if_true]
        · simp only [bind_apply, modifyVol_apply, getVol_apply, pure_apply, Option.map, satInc_eq, hle, if_false]
    | err er => simp only []
    | panic m => simp only []
    | diverged => simp only []
  | err er => simp only []
  | panic m => simp only []
  | diverged => simp only []

/-! ### `alloc_cluster` -/

/-- With `fuel ≥ end + 2` the search is the model's search whatever the start cluster is. -/
theorem find_eq_big (fuel endC : Nat) (hf : fuel ≥ endC + 2) (start : Nat) :
    FunsM.FatVolume_find_next_free_cluster fuel start endC = findNextFree start endC :=
  find_next_free_cluster_eq start endC fuel (by omega)

/-- The zeroing `for block_idx in start.range(num_blocks)` loop (iterator `BlockIter`) against the
model's `zeroBlocks`, for fuel above the number of blocks. -/
theorem zero_loop_eq : ∀ (n first fuel : Nat) (v0 : FatVolume), fuel ≥ n + 1 →
    (FunsM.FatVolume_alloc_cluster_loop1 v0 fuel { inclusive_end := first + n, current := first } >>= fun _ =>
      (pure () : F Unit)) = zeroBlocks n first := by
  intro n
  induction n with
  | zero =>
    intro first fuel v0 hf
    obtain ⟨fuel', rfl⟩ : ∃ f', fuel = f' + 1 := ⟨fuel - 1, by omega⟩
    funext s
    rw [FunsM.FatVolume_alloc_cluster_loop1]
    simp only [FunsM.BlockIter_next, Nat.add_zero, ge_iff_le, Nat.le_refl, if_true, zeroBlocks, bind_apply, pure_apply]
  | succ n ih =>
    intro first fuel v0 hf
    obtain ⟨fuel', rfl⟩ : ∃ f', fuel = f' + 1 := ⟨fuel - 1, by omega⟩
    funext s
    rw [FunsM.FatVolume_alloc_cluster_loop1]
    have hlt : ¬ first ≥ first + (n + 1) := by omega
    simp only [FunsM.BlockIter_next, hlt, if_false, zeroBlocks, bind_apply, pure_apply, FunsM.BlockIdx_add, cacheBlk]
    have h2 : first + (n + 1) = first + 1 + n := by omega
    rw [h2]
    rcases blankMut first s with ⟨r, s1⟩
    cases r <;> simp only []
    rcases writeBack s1 with ⟨r2, s2⟩
    cases r2 <;> simp only []
    have := congrFun (ih (first + 1) fuel' v0 (by omega)) s2
    simp only [bind_apply] at this
    exact this

theorem bind_congr' {α β : Type} {m1 m2 : F α} {k1 k2 : α → F β} (hm : m1 = m2) (hk : ∀ a, k1 a = k2 a) :
    m1 >>= k1 = m2 >>= k2 := by
  subst hm
  have : k1 = k2 := funext hk
  rw [this]

theorem pure_bind' {α β : Type} (a : α) (k : α → F β) : (pure a >>= k) = k a := by funext s; rfl

theorem bind_assoc' {α β γ : Type} (m : F α) (f : α → F β) (g : β → F γ) :
    (m >>= f) >>= g = m >>= fun a => f a >>= g := by
  funext s
  simp only [bind_apply]
  rcases m s with ⟨r, s1⟩
  cases r <;> rfl

theorem bind_pure_unit (m : F Unit) : (m >>= fun _ => (pure () : F Unit)) = m := by
  funext s
  simp only [bind_apply]
  rcases m s with ⟨r, s1⟩
  cases r <;> rfl

/-- First search of `alloc_cluster` with its retry from cluster 2. -/
theorem stage3 {β : Type} (A A2 : F Nat) (c : Prop) [Decidable c] (K1 K2 : Nat → F β) (h : ∀ n, K1 n = K2 n) :
    ((F.attempt A >>= fun r => (match r with
        | Res.ok x => pure x
        | Res.err Err.NotEnoughSpace => (if c then (A2 >>= fun t => pure t) else F.fail Err.NotEnoughSpace)
        | Res.err e => F.fail e
        | Res.panic m => F.panic m
        | Res.diverged => F.diverge : F Nat)) >>= K1) =
    (F.attempt A >>= fun r => (match r with
        | .ok x => pure x
        | .err .NotEnoughSpace => if c then A2 else F.fail .NotEnoughSpace
        | other => F.lift other : F Nat) >>= K2) := by
  have hk : K1 = K2 := funext h
  subst hk
  funext s
  simp only [bind_apply, attempt_apply]
  rcases A s with ⟨r, s1⟩
  cases r with
  | ok x => rfl
  | err er =>
    cases er
    case NotEnoughSpace =>
      by_cases hc : c
      · simp only [hc, if_true, bind_apply]
        rcases A2 s1 with ⟨r2, s2⟩
        cases r2 <;> rfl
      · simp only [hc, if_false]
    all_goals rfl
  | panic m => rfl
  | diverged => rfl

/-- Second search of `alloc_cluster` (the new hint), where running out of space is not an error. -/
theorem stage6 {β : Type} (A A2 : F Nat) (c : Prop) [Decidable c] (K1 K2 : Option Nat → F β) (h : ∀ n, K1 n = K2 n) :
    ((F.attempt A >>= fun r => (match r with
        | Res.ok x => pure (some x)
        | Res.err Err.NotEnoughSpace =>
          (if c then (F.attempt A2 >>= fun r3 => (match r3 with
              | Res.ok x => pure (some x)
              | Res.err Err.NotEnoughSpace => pure none
              | Res.err e => F.fail e
              | Res.panic m => F.panic m
              | Res.diverged => F.diverge : F (Option Nat)))
           else pure none)
        | Res.err e => F.fail e
        | Res.panic m => F.panic m
        | Res.diverged => F.diverge : F (Option Nat))) >>= K1) =
    (F.attempt A >>= fun r => (match r with
        | .ok x => pure (some x)
        | .err .NotEnoughSpace =>
          if c then (F.attempt A2 >>= fun r3 => (match r3 with
              | .ok x => pure (some x)
              | .err .NotEnoughSpace => pure none
              | other => F.lift (other.bind fun _ => .ok none) : F (Option Nat)))
          else pure none
        | other => F.lift (other.bind fun _ => .ok none) : F (Option Nat)) >>= K2) := by
  have hk : K1 = K2 := funext h
  subst hk
  funext s
  simp only [bind_apply, attempt_apply]
  rcases A s with ⟨r, s1⟩
  cases r with
  | ok x => rfl
  | err er =>
    cases er
    case NotEnoughSpace =>
      by_cases hc : c
      · simp only [hc, if_true, bind_apply, attempt_apply]
        rcases A2 s1 with ⟨r2, s2⟩
        cases r2 with
        | ok x => rfl
        | err er2 => cases er2 <;> rfl
        | panic m => rfl
        | diverged => rfl
      · simp only [hc, if_false]
    all_goals rfl
  | panic m => rfl
  | diverged => rfl

/-- The bookkeeping at the end of `alloc_cluster`: the new hint, then `saturating_sub(1)` on the count. -/
theorem alloc_final (t : Option Nat) (new : Nat) :
    ((F.modifyVol fun v => { v with nextFreeCluster := t }) >>= fun _ =>
      (F.getVol >>= fun v =>
        ((match v.freeClustersCount with
          | some k => ((F.modifyVol fun v => { v with freeClustersCount := some (k - 1) }) >>= fun _ =>
              (F.getVol >>= fun _ => (pure () : F Unit)))
          | none => (pure () : F Unit)) >>= fun _ =>
        (F.getVol >>= fun _ => (pure new : F Nat))))) =
    ((F.modifyVol fun v => { v with nextFreeCluster := t, freeClustersCount := v.freeClustersCount.map (· - 1) }) >>= fun _ =>
      (pure new : F Nat)) := by
  funext s
  rcases s with ⟨dev, cache, vol⟩
  rcases vol with ⟨a1, a2, a3, a4, a5, a6, a7, fcc, nf, a10, a11, a12, a13, a14, a15⟩
  rcases fcc with _ | k
  · simp only [bind_apply, modifyVol_apply, getVol_apply, pure_apply, Option.map]
  · simp only [bind_apply, modifyVol_apply, getVol_apply, pure_apply, Option.map]

/-- **`alloc_cluster` whole.**  For every state, every `prev_cluster`, both values of `zero`, and every
fuel of at least `cluster_count + 4` and `blocks_per_cluster + 1`, the translated Rust function and the
model's `allocCluster` are the same function of the state: the same searches (with the same retries
from cluster 2), the same zeroing writes, the same two FAT updates in the same order, the same new
hint and the same saturating decrement of the free count. -/
theorem alloc_cluster_eq (prev : Option Nat) (zero : Bool) (fuel : Nat) (s : FS)
    (hf : fuel ≥ s.vol.clusterCount + 4) (hz : fuel ≥ s.vol.blocksPerCluster + 1) :
    FunsM.FatVolume_alloc_cluster fuel prev zero s = allocCluster prev zero s := by
  unfold FunsM.FatVolume_alloc_cluster allocCluster
  rw [bind_apply, bind_apply, getVol_apply]
  simp only []
  refine congrFun ?_ s
  generalize s.vol = v at hf hz
  rw [show RESERVED_ENTRIES = 2 from rfl, show CLUSTER_END_OF_FILE = 4294967295 from rfl]
  simp only [endCluster, show RESERVED_ENTRIES = 2 from rfl, find_eq_big fuel (v.clusterCount + 2) (by omega),
    update_fat_eq, cluster_to_block_eq]
  have hzl : ∀ first, (FunsM.FatVolume_alloc_cluster_loop1 v fuel (FunsM.BlockIdx_range first v.blocksPerCluster) >>= fun _ =>
      (pure () : F Unit)) = zeroBlocks v.blocksPerCluster first := fun first => zero_loop_eq _ first fuel v hz
  -- the start cluster
  have hstart : ∀ (β : Type) (K : Nat → F β),
      ((match v.nextFreeCluster with
        | some cluster => if cluster < v.clusterCount + 2 then pure cluster else pure 2
        | none => pure 2 : F Nat) >>= K) =
      K (match v.nextFreeCluster with
        | some c => if c < v.clusterCount + 2 then c else 2
        | none => 2) := by
    intro β K
    rcases v.nextFreeCluster with _ | c
    · exact pure_bind' _ _
    · by_cases hlt : c < v.clusterCount + 2
      · simp only [hlt, if_true]; exact pure_bind' _ _
      · simp only [hlt, if_false]; exact pure_bind' _ _
  refine (hstart _ _).trans ?_
  refine stage3 _ _ _ _ _ (fun new => ?_)
  cases zero <;> cases prev
  all_goals simp only [Bool.false_eq_true, if_false, if_true, pure_bind', hzl, bind_pure_unit]
  all_goals
    repeat (first
      | exact stage6 _ _ _ _ _ (fun t => alloc_final t new)
      | refine bind_congr' rfl (fun _ => ?_))

end Sdmmc.Props.C16GenM
