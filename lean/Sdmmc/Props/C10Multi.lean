/-
C10 with SEVERAL OPEN VOLUMES — crash consistency at every block write of every call, for EVERY open volume of one device.

C10: "If the device stops accepting writes after any block write of any operation, the medium mounts, and no live
directory entry or chain refers to a free, bad or out-of-range cluster, no two chains share a cluster, no chain is cyclic,
no directory exposes uninitialised cluster contents as entries, and no sub-directory entry lacks its own cluster.  Space
that is allocated but not yet referenced, and a size not yet updated, are the only permitted residue."

`Props.C10Inv` proves this for a manager with ONE open volume (`VolInvC`, `CrashInv`, `api_crash_invariant`,
`history_crash_invariant`, `crash_mounts`, `crash_fsck_ok`).  Here: a manager with ANY NUMBER of open volumes on one device
(one block cache, one handle generator, global table limits).  Property theorems only; vocabulary `Spec/VolumeNCrash.lean`
(`RawOKN`, `VolInvNC`), `Spec/VolumeN.lean` (`VolInvN`, `MirrorN`, `proj`, `target`), `Spec/VolumeCrash.lean` (`CrashInv`,
`FatEntriesOK`), `Spec/Crash.lean` (`crashDisk`); proofs `Sdmmc.Lemmas.VolNCrash`, `VolNCrash2`, `VolNCrash3`, `VolNCrash4`.

WHAT IS PROVED (all 24 constructors of `Op`, every outcome, every crash point, every open volume).
* `VolInvNC s ghs` = `VolInvN` (C03 for several volumes) + `MirrorN` (identical FAT copies, per volume) + `RawOKN` (`RawOK` of
  `Props.C10Inv` per volume: the on-disk slot of every open file names no cluster or the file's).  `api_step_invariant_crash_multi`,
  `api_history_invariant_crash_multi`: it is kept by every call and every history.  `volInvNC_of_no_open_file`: a state of
  C03Multi without open files satisfies it.  `projection_satisfies_volInvC`: every projection satisfies the one-volume `VolInvC`.
* `VolumeSafe gh d dk` (`volumeSafe_def`): for the volume with ghost `gh`, the medium `dk` is crash-consistent
  (`∃ gh', CrashInv gh.vol dk gh'` — clause by clause: `Props.C10Main.consistent_of_crashInv`), all its FAT entries are valid,
  and it mounts (same partition index, same geometry) if `d` does.
* **`api_crash_invariant_multi`**: from `VolInvNC`, at EVERY prefix `k` of the block writes of ANY call, EVERY open volume is
  `VolumeSafe` on the crashed medium.  The volume the call works on: the call's writes ARE the writes of the call on the
  projection (`Props.C03Multi.step_proj`), where `Props.C10Inv` applies.  Every other open volume: the call writes no FAT,
  directory or data block of it (its partition is untouched; `close_volume` writes one info sector), and between calls its
  structure is crash-consistent because of `RawOKN`.
* **`history_crash_invariant_multi`**: the same at every crash point inside any call of any history, with the invariant of
  the state the call is issued in; `crash_fsck_multi`: the independent checker (crash variant) finds no problem on any
  open volume's partition ((H1) `NoOne`, (H2) `DepthOK` as in `Props.C10Inv.crash_fsck_ok`).

HYPOTHESES.  `VolInvNC` at the start (every fresh manager: `fresh_manager`); `CoveredNRun` (about `open_volume` calls that
succeed only: fresh handle, disjoint partition, sound volume — `Props.C03Multi`); `FreshRun` (about `get_root_volume_label`
only: the handle of its temporary directory is unused — as in `Props.C01Multi`; needed because the label call is simulated
on the projection).  Fault-free device.

* **`history_crash_mounts_multi`** ("the medium mounts", from the start of the history): `MountsN s` (`Props.C16MultiClose`) —
  every partition open in `s` mounts with the geometry of its record; vacuous for a fresh manager — is kept by every history
  (`Props.C16MultiClose.history_mounts_multi`; a volume opened on the way mounts because `open_volume` IS a mount); hence at
  every crash point of every call every open volume's partition mounts, with the geometry of its record.
-/
import Sdmmc.Lemmas.VolNCrash4
import Sdmmc.Lemmas.MainBase
import Sdmmc.Props.C16MultiClose

namespace Sdmmc.Props.C10Multi
open Sdmmc.Model Sdmmc.Model.Fat Sdmmc.Spec.Volume
open Sdmmc.Spec hiding run step NoFault Coherent
open Sdmmc.Props.C03Multi (CoveredN CoveredNRun)
open Sdmmc.Props.C01Multi (FreshRun)
open Sdmmc.Lemmas.VolN (LabelFresh)
open Sdmmc.Lemmas.VolNCrash (VolumeSafe)

/-! ### Vocabulary -/

theorem rawOKN_def (s : Mgr) : RawOKN s ↔ ∀ f, f ∈ s.files → ∀ vi, vi ∈ s.vols → f.rawVolume = vi.rawVolume →
    sCluster vi.vol.fatType (slotAt s.dev.disk f.entry.entryBlock f.entry.entryOffset) = 0 ∨
    sCluster vi.vol.fatType (slotAt s.dev.disk f.entry.entryBlock f.entry.entryOffset) = f.entry.cluster :=
  Lemmas.VolNCrash.rawOKN_iff s

theorem volInvNC_def (s : Mgr) (ghs : List Ghost) : VolInvNC s ghs ↔ VolInvN s ghs ∧ MirrorN s ghs ∧ RawOKN s :=
  ⟨fun h => ⟨h.inv, h.mirror, h.raw⟩, fun h => ⟨h.1, h.2.1, h.2.2⟩⟩

theorem volumeSafe_def (gh : Ghost) (d dk : Disk) : VolumeSafe gh d dk ↔
    (∃ gh', CrashInv gh.vol dk gh') ∧ FatEntriesOK gh.vol dk ∧
    ∀ idx vm, mountPure (d.get 0) idx d.get = .ok vm → SameGeom vm gh.vol →
      ∃ w, mountPure (dk.get 0) idx dk.get = .ok w ∧ SameGeom gh.vol w := Iff.rfl

/-- A state of C03Multi in which no file is open satisfies `VolInvNC`. -/
theorem volInvNC_of_no_open_file {s : Mgr} {ghs : List Ghost} (hI : VolInvN s ghs) (hm : MirrorN s ghs) (hq : s.files = []) :
    VolInvNC s ghs :=
  ⟨hI, hm, (rawOKN_def s).2 fun f hf => by rw [hq] at hf; cases hf⟩

/-- A fresh manager (no volume open yet) satisfies it. -/
theorem fresh_manager (s : Mgr) (hf : s.dev.faults = []) (hc : ∀ i, s.cache.tag = some i → s.cache.blk = s.dev.disk.get i)
    (hl : s.locked = false) (hv : s.vols = []) (hd : s.dirs = []) (hfl : s.files = []) : VolInvNC s [] :=
  volInvNC_of_no_open_file (Lemmas.Main.fresh_manager_invariant s hf hc hl hv hd hfl).1
    (Lemmas.Main.fresh_manager_invariant s hf hc hl hv hd hfl).2 hfl

/-- Every projection of a `VolInvNC` state satisfies the one-volume crash invariant of `Props.C10Inv`. -/
theorem projection_satisfies_volInvC {s : Mgr} {ghs : List Ghost} (hI : VolInvNC s ghs) {i : Nat} {vi : VolInfo} {gh : Ghost}
    (hvi : s.vols[i]? = some vi) (hgh : ghs[i]? = some gh) : VolInvC (proj s i) gh :=
  Lemmas.VolNCrash.volInvC_proj hI hvi hgh

/-! ### The invariant between calls -/

/-- **Every call keeps `VolInvNC`.** -/
theorem api_step_invariant_crash_multi (s : Mgr) (op : Op) (ghs : List Ghost) (hI : VolInvNC s ghs) (hc : CoveredN s op)
    (hf : LabelFresh s op) : ∃ ghs', VolInvNC (step s op).1 ghs' :=
  Lemmas.VolNCrash.step_invariantNC hI op hc hf

/-- **Every history keeps `VolInvNC`**, after every call. -/
theorem api_history_invariant_crash_multi (ops : List Op) (s : Mgr) (ghs : List Ghost) (hI : VolInvNC s ghs)
    (hc : CoveredNRun s ops) (hf : FreshRun s ops) (k : Nat) : ∃ ghs', VolInvNC (run s (ops.take k)).1 ghs' :=
  Lemmas.VolNCrash.history_invariantNC (ops.take k) hI (C03Multi.coveredNRun_take hc k)
    (Lemmas.VolNCrash.freshRun_take ops s hf k)

/-! ### Crash points -/

/-- **`api_crash_invariant_multi`.**  At every prefix `k` of the block writes of any call, every open volume (record `j`,
ghost `gh`) is crash-consistent on the crashed medium, has valid FAT entries, and mounts if the medium before the call
mounts. -/
theorem api_crash_invariant_multi (s : Mgr) (op : Op) (ghs : List Ghost) (hI : VolInvNC s ghs) (hf : LabelFresh s op) (k : Nat)
    (j : Nat) (vj : VolInfo) (gh : Ghost) (hvj : s.vols[j]? = some vj) (hgh : ghs[j]? = some gh) :
    VolumeSafe gh s.dev.disk (crashDisk s.dev.disk (step s op).2.writes k) :=
  Lemmas.VolNCrash.step_crash_multi hI op hf k hvj hgh

/-- **`history_crash_invariant_multi`.**  At every crash point inside ANY call of ANY history (the `n`-th call, issued in
the state `sn` the first `n` calls leave; any prefix `k` of its block writes): `sn` satisfies `VolInvNC` for some ghosts, and
EVERY volume open in `sn` is `VolumeSafe` on the crashed medium. -/
theorem history_crash_invariant_multi (ops : List Op) (s : Mgr) (ghs : List Ghost) (hI : VolInvNC s ghs)
    (hc : CoveredNRun s ops) (hf : FreshRun s ops) (n : Nat) (op : Op) (hn : ops[n]? = some op) (k : Nat) :
    ∃ ghsn, VolInvNC (run s (ops.take n)).1 ghsn ∧
      ∀ (j : Nat) (vj : VolInfo) (gh : Ghost), (run s (ops.take n)).1.vols[j]? = some vj → ghsn[j]? = some gh →
        VolumeSafe gh (run s (ops.take n)).1.dev.disk
          (crashDisk (run s (ops.take n)).1.dev.disk (step (run s (ops.take n)).1 op).2.writes k) := by
  obtain ⟨ghsn, hIn⟩ := api_history_invariant_crash_multi ops s ghs hI hc hf n
  exact ⟨ghsn, hIn, fun j vj gh hvj hgh =>
    Lemmas.VolNCrash.step_crash_multi hIn op (Lemmas.VolNCrash.freshRun_get ops s hf n op hn) k hvj hgh⟩

/-- **"The medium mounts"**, given only that every partition open at the START of the history mounts (`MountsN s`): at every
crash point inside any call of any history, every volume open in the state the call is issued in still mounts — same
partition index, the geometry of its record. -/
theorem history_crash_mounts_multi (ops : List Op) (s : Mgr) (ghs : List Ghost) (hI : VolInvNC s ghs)
    (hM : C16MultiClose.MountsN s) (hc : CoveredNRun s ops) (hf : FreshRun s ops) (n : Nat) (op : Op) (hn : ops[n]? = some op)
    (k : Nat) (vj : VolInfo) (hvj : vj ∈ (run s (ops.take n)).1.vols) :
    ∃ w, mountPure ((crashDisk (run s (ops.take n)).1.dev.disk (step (run s (ops.take n)).1 op).2.writes k).get 0) vj.idx
        (crashDisk (run s (ops.take n)).1.dev.disk (step (run s (ops.take n)).1 op).2.writes k).get = .ok w ∧
      SameGeom vj.vol w := by
  obtain ⟨ghsn, hIn, hsafe⟩ := history_crash_invariant_multi ops s ghs hI hc hf n op hn k
  have hMn := C16MultiClose.history_mounts_multi (ops.take n) s ghs hI.inv hI.mirror (C03Multi.coveredNRun_take hc n) hM
  obtain ⟨w0, hw0, hs0⟩ := hMn vj hvj
  obtain ⟨j, hj⟩ := List.getElem?_of_mem hvj
  have hjlt : j < ghsn.length := by rw [hIn.inv.len]; exact (List.getElem?_eq_some_iff.1 hj).1
  obtain ⟨gh, hgh⟩ : ∃ g, ghsn[j]? = some g := ⟨_, List.getElem?_eq_getElem hjlt⟩
  have hvol := hIn.inv.vols j vj gh hj hgh
  obtain ⟨w, hw, hsw⟩ := (hsafe j vj gh hj hgh).2.2 vj.idx w0 hw0 (by rw [← hvol]; exact hs0)
  exact ⟨w, hw, by rw [hvol]; exact hsw⟩

/-- **The independent checker** (crash variant) reports no problem on the partition of any open volume at any crash point:
`g` the checker's geometry of the volume record (block numbers absolute), (H1) `NoOne`, (H2) `DepthOK` as in
`Props.C10Inv.crash_fsck_ok`. -/
theorem crash_fsck_multi {gh : Ghost} {d dk : Disk} (h : VolumeSafe gh d dk) (g : Spec.Fs.Geom) (hg : GeomOf gh.vol g)
    (h1 : NoOne gh.vol dk) (h2 : ∀ gh', CrashInv gh.vol dk gh' → DepthOK gh'.dirs) :
    (Spec.Fs.fsck g dk [] false).problems = [] := by
  obtain ⟨⟨gh', hC⟩, hF, _⟩ := h
  exact C10Inv.crash_fsck_ok gh.vol dk gh' hC hF g hg h1 (h2 gh' hC)

/-! ### Non-vacuity -/

namespace Example
open Sdmmc.Lemmas.VolExample Sdmmc.Lemmas.VolN.Example2
open Sdmmc.Props.C03Multi.Example (two_volumes two_volumes_mirror)
open Sdmmc.Props.C01Multi.Example (ops2 ops2_covered ops2_fresh)

/-- The two-volume state of `Props.C03Multi` (a FAT16 volume in blocks 0 … 39, a FAT32 volume in blocks 40 … 79, both open,
no file open) satisfies `VolInvNC`. -/
theorem two_volumes_crash : VolInvNC mgr2 ghs2 := volInvNC_of_no_open_file two_volumes two_volumes_mirror rfl

/-- The interleaved history `ops2` of `Props.C01Multi` (reads on the FAT16 volume while a file of the FAT32 volume is
appended to, a directory is made, a file is created, written, closed and deleted): at every crash point of every call BOTH
volumes are crash-consistent. -/
example (n : Nat) (op : Op) (hn : ops2[n]? = some op) (k : Nat) :=
  history_crash_invariant_multi ops2 mgr2 ghs2 two_volumes_crash ops2_covered ops2_fresh n op hn k

end Example

end Sdmmc.Props.C10Multi
