/-
C04 over HISTORIES of API calls — the uniform form of `Props/C04Api.lean` (its item 10), now that the volume
invariant of C03 (`Props/C03Inv.lean`: `VolInv s gh`, preserved by every history) discharges the per-call
hypotheses.

C04: "Every block the library writes lies inside the partition of the volume being operated on and inside the
region appropriate to its purpose; the master boot record, boot sector, other partitions and blocks past the last
cluster are never written.  Within the data area a call only changes bytes of the file range it was asked to
write, of clusters it newly allocated, or of the directory slot it owns; within the FAT only entries of chains it
extends, truncates or frees; all other bytes of every rewritten block are preserved."

Property theorems only; proofs in `Sdmmc.Lemmas.WriteSetInv` (`WriteSetInv`: file and volume handles;
`WriteSetInvDir`: `delete`, `openFile`, `mkdir`; `WriteSetInvHist`: `step`, histories, the frame;
`WriteSetInvWf`: well-formed licences, unnamed objects).  Vocabulary: `Sdmmc.Spec.WriteSet` (`Licence`,
`Licensed`, `AllLicensed`; read the header of `Props/C04Api.lean`), `Sdmmc.Spec.Volume` (`VolInv`, `Ghost`,
`dirSlots`, `objects`, `chainOf`), `Props.C03Inv` (`Covered`, `CoveredAll`, `CoveredAllRun`).

WHAT IS PROVED (STATUS: PROVED, no theorem is `_partial`; all 24 constructors of `Op`, every outcome).
* `VolInvM s gh` = `VolInv s gh` ∧ the FAT copies of the volume are identical (`Mirror`).  It is preserved by every
  covered call (`step_invariantM`) and history (`history_invariantM`).
* `step_licensed`: under `VolInvM` every covered call has a licence `L` with `LicenceFor gh s.files s.dirs
  s.dev.disk op L` — the licence described from the ghost, the open files and directories and the medium BEFORE
  the call — and every write `step` reports is licensed by it (`AllLicensed`, each write judged against the
  medium the earlier ones produced).  `LicenceFor` (an inductive relation, because the licence depends on the
  outcome) has one constructor per kind of outcome:
    `nothing`      any call that writes nothing: the 16 read-only operations, every refused call, `NotFound`, opening
                   an existing file for reading or appending, a clean `flush`/`closeFile`, `NotEnoughSpace` without
                   allocation — licence `Licence.none`;
    `write`        the open file `f` with handle `h`: `writeLicence cs cs' f.currentOffset k`, `cs = chainOf gh.G
                   f.entry.cluster` the file's chain, `cs'` the grown chain (`cs <+: cs'`, all data clusters), `k ≤
                   data.length` bytes stored: FAT entries of the last cluster of `cs` and of `cs'.drop cs.length`, the
                   bytes `[offset, offset + k)` of the file; the handle is not read-only, and the appended clusters
                   `cs'.drop cs.length` were in NO chain of `gh.G` before the call;
    `flush`, `closeFile`   `flushLicence gh.vol f.entry`: the slot of `f` (+ info sector on FAT32), `f` WRITTEN TO
                   (`f.dirty`; a clean flush / close is `nothing`);
    `closeVolume`  `infoLicence gh.vol`;
    `delete`, `truncate`   `o` the file object of the handle's directory with the name's short form: the slot of `o`,
                   the FAT entries of `chainOf gh.G (sCluster … o)` — the chain of THAT file; `o` is CLOSED (no open
                   file sits at it: both calls refuse an open file);
    `createSlot`   one aligned slot of a block of the directory, which was FREE before the call (first byte 0x00 or
                   0xE5: `WriteSet.FreeAt`);
    `createGrow`   the FAT entries of the directory's last cluster and of a FREE cluster `c`, the blocks of `c`;
    `mkdirSlot`, `mkdirGrow`, `mkdirFull`   the FREE cluster `cn` (FAT entry, blocks) + as for create (a FREE slot; a
                   FREE cluster the parent grows by).
  (The facts in capitals were added for the syntactic criterion of `Props/C09Hist.notNamed_of_syntactic`.)
* `history_licensed`: every call of every covered history is licensed (`RunLicensed v0 s ops Ls`, `Ls` the licences,
  one per call; `runLicensed_cons_iff` spells the relation out).
* `history_never_leaves_volume`: **no API history ever writes block 0, the boot sector, a reserved block other
  than the info sector, a block of another partition, or a block past the last cluster**: every write of every
  call goes to a block of the FAT, FAT16-root, data or info region of the volume.
* `history_frame`: a byte that no licence of the history covers (`Covers`) is the same after the history.
* `history_untouched_objects`: an object (slot `(sb, so)`, chain `cs`) that no call of the history names
  (`NotNamed`: its clusters are in no licence's `fatClusters` / `dataClusters` / file chains, its slot is not a
  licensed slot, its slot's block lies in no licensed cluster, no licensed slot lies in its clusters) has the
  same 32 slot bytes, the same chain and the same chain bytes after the history.  `history_untouched_objects'` states
  the hypothesis without the list of licences: whatever licence `LicenceFor` allows for the k-th call in the state it
  is issued in does not name the object (`Example`: a history of calls that can only have the empty licence).

HYPOTHESES, stated plainly: those of `Props.C03Inv` (fault-free device, one open volume, names whose short form
starts with 0xE5 excluded in `openFile`/`delete`/`mkdir`/`openDir`, an `openVolume` issued while no volume is open
mounts a record with the geometry of `v0`) plus `Mirror gh.vol s.dev.disk` in the start state.  Without `Mirror`
the statement is false (`Props.C04Api.Example.mirror_needed`); without the invariant a corrupt directory chain
leads outside the partition (`Props.C04Api.Example32.corrupt_dir_chain_escapes`).
-/
import Sdmmc.Lemmas.WriteSetInvWf
import Sdmmc.Props.C03Inv
import Sdmmc.Props.C04Api

namespace Sdmmc.Props.C04Hist
open Sdmmc.Model Sdmmc.Model.Fat Sdmmc.Spec.Volume
open Sdmmc.Spec hiding run step NoFault Coherent
open Sdmmc.Props.C03Inv (NameOK Covered CoveredRun CoveredAll CoveredAllRun)
open Sdmmc.Lemmas.WriteSetInv (LicenceFor RunLicensed Covers Spares NotNamed LicWF NameCovered StepLicensed)

/-! ### The invariant with identical FAT copies -/

/-- `VolInv` together with "the FAT copies agree". -/
abbrev VolInvM (s : Mgr) (gh : Ghost) : Prop := Lemmas.WriteSetInv.VolInvM s gh

theorem volInvM_def (s : Mgr) (gh : Ghost) : VolInvM s gh ↔ VolInv s gh ∧ Mirror gh.vol s.dev.disk := Iff.rfl

theorem nameCovered_of_covered {s : Mgr} {op : Op} (h : Covered s op) : NameCovered op := by
  cases op <;> first | exact h | exact trivial

theorem nameCovered_of_coveredAll {v0 : FatVolume} {s : Mgr} {op : Op} (h : CoveredAll v0 s op) : NameCovered op := by
  cases op <;> first | exact h | exact trivial

/-! ### One call -/

/-- **`step_licensed`.**  Under the invariant every covered call — all 24 operations, whatever they answer — has
a licence `L`, described by `LicenceFor` from the state BEFORE the call, such that every device write the call
issues is licensed by `L` (`AllLicensed`: each write judged against the medium the earlier writes of the call
produced), the medium afterwards is the medium before with exactly these writes applied, and the FAT copies
still agree. -/
theorem step_licensed (s : Mgr) (gh : Ghost) (op : Op) (hI : VolInvM s gh) (hc : Covered s op) :
    ∃ L, LicenceFor gh s.files s.dirs s.dev.disk op L ∧ AllLicensed gh.vol s.dev.disk L (step s op).2.writes ∧
      (∀ i, (step s op).1.dev.disk.get i = (s.dev.disk.applyWrites (step s op).2.writes).get i) ∧
      Mirror gh.vol (step s op).1.dev.disk := by
  obtain ⟨L, h⟩ := Lemmas.WriteSetInv.step_callOK hI.1 hI.2 op (nameCovered_of_covered hc)
  exact ⟨L, h.lic, h.all, h.disk, h.mirror⟩

/-- The same for `CoveredAll` (an `openVolume` while no volume is open writes nothing either). -/
theorem step_licensed_all (v0 : FatVolume) (s : Mgr) (gh : Ghost) (op : Op) (hI : VolInvM s gh) (hc : CoveredAll v0 s op) :
    ∃ L, LicenceFor gh s.files s.dirs s.dev.disk op L ∧ AllLicensed gh.vol s.dev.disk L (step s op).2.writes ∧
      (∀ i, (step s op).1.dev.disk.get i = (s.dev.disk.applyWrites (step s op).2.writes).get i) ∧
      Mirror gh.vol (step s op).1.dev.disk := by
  obtain ⟨L, h⟩ := Lemmas.WriteSetInv.step_callOK hI.1 hI.2 op (nameCovered_of_coveredAll hc)
  exact ⟨L, h.lic, h.all, h.disk, h.mirror⟩

/-- Consequence for one call: every write stays in the volume and in a region of its purpose. -/
theorem step_never_leaves_volume (s : Mgr) (gh : Ghost) (op : Op) (hI : VolInvM s gh) (hc : Covered s op)
    (w : Nat × Block) (hw : w ∈ (step s op).2.writes) :
    (regionOf gh.vol w.1 = .fat ∨ regionOf gh.vol w.1 = .root ∨ regionOf gh.vol w.1 = .data ∨ regionOf gh.vol w.1 = .info) ∧
    InPartition gh.vol w.1 ∧ gh.vol.lbaStart < w.1 ∧ w.1 ≠ 0 := by
  obtain ⟨L, _, ha, _, _⟩ := step_licensed s gh op hI hc
  exact Lemmas.WriteSet.allLicensed_in_region gh.vol hI.1.med.geom L _ _ ha w hw

/-- **`VolInvM` is preserved by every covered call.** -/
theorem step_invariantM (v0 : FatVolume) (s : Mgr) (op : Op) (gh : Ghost) (hI : VolInvM s gh) (h0 : SameGeom v0 gh.vol)
    (hc : CoveredAll v0 s op) : ∃ gh', VolInvM (step s op).1 gh' ∧ SameGeom v0 gh'.vol := by
  obtain ⟨gh', hI', hg'⟩ := C03Inv.api_step_invariant_all v0 s op gh hI.1 h0 hc
  obtain ⟨L, h⟩ := Lemmas.WriteSetInv.step_callOK hI.1 hI.2 op (nameCovered_of_coveredAll hc)
  exact ⟨gh', ⟨hI', ((h0.symm.trans hg').mirror _).2 h.mirror⟩, hg'⟩

/-! ### Histories -/

/-- What `RunLicensed v0 s (op :: ops) (L :: Ls)` says: some ghost of `s` with the geometry of `v0` satisfies the
invariant, `L` is a licence of the call `op` in that state, every write of the call is licensed by `L`, the medium
afterwards is the medium before with these writes applied — and the rest of the history is licensed from the state
the call leaves. -/
theorem runLicensed_cons_iff (v0 : FatVolume) (s : Mgr) (op : Op) (ops : List Op) (L : Licence) (Ls : List Licence) :
    RunLicensed v0 s (op :: ops) (L :: Ls) ↔
      (∃ gh, VolInv s gh ∧ SameGeom v0 gh.vol ∧ LicenceFor gh s.files s.dirs s.dev.disk op L ∧
        AllLicensed v0 s.dev.disk L (step s op).2.writes ∧
        ∀ i, (step s op).1.dev.disk.get i = (s.dev.disk.applyWrites (step s op).2.writes).get i) ∧
      RunLicensed v0 (step s op).1 ops Ls := by
  constructor
  · intro h
    cases h with
    | cons _ _ _ _ _ gh hI hg hl ha hd rest => exact ⟨⟨gh, hI, hg, hl, ha, hd⟩, rest⟩
  · rintro ⟨⟨gh, hI, hg, hl, ha, hd⟩, rest⟩
    exact .cons s op ops L Ls gh hI hg hl ha hd rest

theorem runLicensed_nil_iff (v0 : FatVolume) (s : Mgr) (Ls : List Licence) : RunLicensed v0 s [] Ls ↔ Ls = [] := by
  constructor
  · intro h; cases h; rfl
  · rintro rfl; exact .nil s

/-- **`history_licensed`.**  Every call of every covered history is licensed by its licence, and the invariant
(with identical FAT copies) holds at the end. -/
theorem history_licensed (v0 : FatVolume) (ops : List Op) (s : Mgr) (gh : Ghost) (hI : VolInvM s gh) (h0 : SameGeom v0 gh.vol)
    (hc : CoveredAllRun v0 s ops) :
    ∃ Ls, RunLicensed v0 s ops Ls ∧ ∃ gh', VolInvM (run s ops).1 gh' ∧ SameGeom v0 gh'.vol := by
  induction ops generalizing s gh with
  | nil => exact ⟨[], .nil s, gh, hI, h0⟩
  | cons op ops ih =>
    obtain ⟨L, hL⟩ := Lemmas.WriteSetInv.step_callOK hI.1 hI.2 op (nameCovered_of_coveredAll hc.1)
    obtain ⟨gh1, hI1, hg1⟩ := step_invariantM v0 s op gh hI h0 hc.1
    obtain ⟨Ls, hR, gh2, hI2, hg2⟩ := ih (step s op).1 gh1 hI1 hg1 hc.2
    exact ⟨L :: Ls, RunLicensed.of_step hI.1 h0 hL hR, gh2, by unfold run; exact hI2, hg2⟩

/-- `VolInvM` along histories. -/
theorem history_invariantM (v0 : FatVolume) (ops : List Op) (s : Mgr) (gh : Ghost) (hI : VolInvM s gh) (h0 : SameGeom v0 gh.vol)
    (hc : CoveredAllRun v0 s ops) : ∃ gh', VolInvM (run s ops).1 gh' ∧ SameGeom v0 gh'.vol :=
  (history_licensed v0 ops s gh hI h0 hc).choose_spec.2

/-- **`history_never_leaves_volume`.**  No API history ever writes block 0, the boot sector, a reserved block
other than the info sector, a block of another partition, or a block past the last cluster: every write `w` of
every call of the history (`o` ranges over the outputs of the calls) goes to a block of the FAT region, the FAT16
root region, the data region or — the info sector — the info region of the volume; such a block lies strictly
behind the boot sector `lbaStart` and inside the partition. -/
theorem history_never_leaves_volume (v0 : FatVolume) (ops : List Op) (s : Mgr) (gh : Ghost) (hI : VolInvM s gh)
    (h0 : SameGeom v0 gh.vol) (hc : CoveredAllRun v0 s ops) (o : Out) (ho : o ∈ (run s ops).2) (w : Nat × Block)
    (hw : w ∈ o.writes) :
    (regionOf v0 w.1 = .fat ∨ regionOf v0 w.1 = .root ∨ regionOf v0 w.1 = .data ∨ regionOf v0 w.1 = .info) ∧
    regionOf v0 w.1 ≠ .outside ∧ regionOf v0 w.1 ≠ .boot ∧ regionOf v0 w.1 ≠ .reserved ∧ regionOf v0 w.1 ≠ .tail ∧
    InPartition v0 w.1 ∧ v0.lbaStart < w.1 ∧ w.1 ≠ 0 := by
  obtain ⟨Ls, hR, _⟩ := history_licensed v0 ops s gh hI h0 hc
  have hg : WFGeom v0 := h0.symm.wfGeom hI.1.med.geom
  obtain ⟨hr, h1, h2, h3⟩ := Lemmas.WriteSetInv.runLicensed_region hg hR o ho w hw
  refine ⟨hr, ?_, ?_, ?_, ?_, h1, h2, h3⟩ <;>
    · intro e
      rcases hr with h | h | h | h <;> rw [h] at e <;> cases e

/-! ### The frame -/

/-- Byte `i` of block `b` is one the licence `L` allows to change: a byte of the FAT entry of a licensed cluster,
any byte of a block of a licensed data cluster, a byte of a licensed slot, one of bytes 488..495 of the info
sector, a byte holding a licensed position of a licensed file. -/
theorem covers_def (v : FatVolume) (L : Licence) (b i : Nat) :
    Covers v L b i ↔
      (InLicensedEntry v L b i ∨
       (∃ c, c ∈ L.dataClusters ∧ InRange v c ∧ clusterToBlock v c ≤ b ∧ b < clusterToBlock v c + v.blocksPerCluster) ∨
       InLicensedSlot L b i ∨
       (L.info = true ∧ v.fatType = .fat32 ∧ b = v.infoLocation ∧ 488 ≤ i ∧ i < 496) ∨
       InLicensedRange v L b i) := Iff.rfl

/-- **`history_frame`.**  A byte that no licence of the history covers is the same after the history. -/
theorem history_frame (v0 : FatVolume) (ops : List Op) (s : Mgr) (Ls : List Licence) (hR : RunLicensed v0 s ops Ls)
    (b i : Nat) (hn : ∀ L, L ∈ Ls → ¬ Covers v0 L b i) :
    ((run s ops).1.dev.disk.get b).getD i 0 = (s.dev.disk.get b).getD i 0 :=
  Lemmas.WriteSetInv.runLicensed_frame hR hn

/-- The licences of a licensed history are well formed: licensed FAT clusters are clusters of the volume, licensed
slots are aligned slots of directory blocks, the clusters of licensed file chains are data clusters. -/
theorem history_licences_wf (v0 : FatVolume) (ops : List Op) (s : Mgr) (Ls : List Licence) (hR : RunLicensed v0 s ops Ls)
    (L : Licence) (hL : L ∈ Ls) :
    (∀ c, c ∈ L.fatClusters → c < endCluster v0) ∧
    (∀ p, p ∈ L.slots → p.2 % 32 = 0 ∧ (regionOf v0 p.1 = .root ∨ regionOf v0 p.1 = .data)) ∧
    (∀ r, r ∈ L.files → ∀ c, c ∈ r.1 → InRange v0 c) :=
  let h := Lemmas.WriteSetInv.runLicensed_wf hR L hL
  ⟨h.fatRange, h.slots, h.files⟩

/-- "The licence `L` does not name the object with slot `(sb, so)` and chain `cs`." -/
theorem notNamed_def (v : FatVolume) (L : Licence) (sb so : Nat) (cs : List Nat) :
    NotNamed v L sb so cs ↔
      (∀ c, c ∈ cs → c ∉ L.fatClusters) ∧
      (∀ c, c ∈ L.dataClusters → c ∉ cs ∧ ¬ InCluster v c sb) ∧
      (∀ p, p ∈ L.slots → p ≠ (sb, so) ∧ ∀ c, c ∈ cs → ¬ InCluster v c p.1) ∧
      (∀ r, r ∈ L.files → ∀ c, c ∈ r.1 → c ∉ cs ∧ ¬ InCluster v c sb) :=
  ⟨fun h => ⟨h.fat, h.data, h.slots, h.files⟩, fun h => ⟨h.1, h.2.1, h.2.2.1, h.2.2.2⟩⟩

theorem inCluster_def (v : FatVolume) (c b : Nat) :
    InCluster v c b ↔ clusterToBlock v c ≤ b ∧ b < clusterToBlock v c + v.blocksPerCluster := Iff.rfl

/-- **`history_untouched_objects`.**  Every file and directory the history did not touch is byte-for-byte and
entry-for-entry unchanged: let `X` be an object of the start state — its directory slot at byte `so` (a multiple of
32) of the directory block `sb`, its cluster chain `cs` from cluster `c` on the start medium.  If no call of the
history names `X` (`NotNamed` for the licence of every call), then after the whole history the 32 bytes of the slot,
the chain of `c` and the bytes of the chain are identical to what they were. -/
theorem history_untouched_objects (v0 : FatVolume) (ops : List Op) (s : Mgr) (gh : Ghost) (hI : VolInvM s gh)
    (h0 : SameGeom v0 gh.vol) (hc : CoveredAllRun v0 s ops) :
    ∃ Ls, RunLicensed v0 s ops Ls ∧
      ∀ (sb so c : Nat) (cs : List Nat), Chain v0 s.dev.disk c cs →
        (regionOf v0 sb = .root ∨ regionOf v0 sb = .data) → so % 32 = 0 →
        (∀ L, L ∈ Ls → NotNamed v0 L sb so cs) →
        slice ((run s ops).1.dev.disk.get sb) so 32 = slice (s.dev.disk.get sb) so 32 ∧
        Chain v0 (run s ops).1.dev.disk c cs ∧
        chainBytes v0 (run s ops).1.dev.disk cs = chainBytes v0 s.dev.disk cs := by
  obtain ⟨Ls, hR, gh', hI', _⟩ := history_licensed v0 ops s gh hI h0 hc
  refine ⟨Ls, hR, fun sb so c cs hch hsreg hso hnn => ?_⟩
  exact Lemmas.WriteSetInv.unnamed_object_unchanged (h0.symm.wfGeom hI.1.med.geom) hR hI.1.med.blocksOK hI'.1.med.blocksOK
    sb so c cs hch hsreg hso hnn

/-- The same with the hypothesis on the licences stated without the list `Ls`: whatever licence `LicenceFor` allows
for the `k`-th call in the state it is issued in does not name the object. -/
theorem history_untouched_objects' (v0 : FatVolume) (ops : List Op) (s : Mgr) (gh : Ghost) (hI : VolInvM s gh)
    (h0 : SameGeom v0 gh.vol) (hc : CoveredAllRun v0 s ops) (sb so c : Nat) (cs : List Nat) (hch : Chain v0 s.dev.disk c cs)
    (hsreg : regionOf v0 sb = .root ∨ regionOf v0 sb = .data) (hso : so % 32 = 0)
    (hnn : ∀ k op gh' L, ops[k]? = some op → VolInv (run s (ops.take k)).1 gh' → SameGeom v0 gh'.vol →
      LicenceFor gh' (run s (ops.take k)).1.files (run s (ops.take k)).1.dirs (run s (ops.take k)).1.dev.disk op L →
      NotNamed v0 L sb so cs) :
    slice ((run s ops).1.dev.disk.get sb) so 32 = slice (s.dev.disk.get sb) so 32 ∧
    Chain v0 (run s ops).1.dev.disk c cs ∧
    chainBytes v0 (run s ops).1.dev.disk cs = chainBytes v0 s.dev.disk cs := by
  obtain ⟨Ls, hR, hall⟩ := history_untouched_objects v0 ops s gh hI h0 hc
  refine hall sb so c cs hch hsreg hso fun L hL => ?_
  obtain ⟨k, op, gh', h1, h2, h3, h4⟩ := Lemmas.WriteSetInv.runLicensed_nth hR L hL
  exact hnn k op gh' L h1 h2 h3 h4

/-! ### Non-vacuity -/

namespace Example
open Sdmmc.Lemmas.VolExample Sdmmc.Props.C03Inv.Example

/-- A checkable form of `Mirror`. -/
theorem mirror_of_check (v : FatVolume) (d : Disk)
    (h : ∀ c, c < endCluster v → (match fatBlock2 v c with
      | some b2 => decide (d.get b2 = d.get (fatBlock v c)) | none => true) = true) : Mirror v d := by
  intro c hc b2 hb
  have := h c hc
  rw [hb] at this
  exact of_decide_eq_true this

/-- The FAT16 example volume of `Props.C03Inv` has two FAT copies, and they agree. -/
theorem mirror1 : Mirror vol16 mgr1.dev.disk := mirror_of_check _ _ (by decide +kernel)

theorem inv1 : VolInvM mgr1 gh1 := ⟨mgr1_inv, mirror1⟩

/-- The history of `Props.C03Inv.Example` (create `N.TXT`, write 600 bytes, flush, `mkdir D` in `SUB`, delete `A.TXT`,
close): every call is licensed … -/
example : ∃ Ls, RunLicensed vol16 mgr1 ops Ls ∧ ∃ gh', VolInvM (run mgr1 ops).1 gh' ∧ SameGeom vol16 gh'.vol :=
  history_licensed vol16 ops mgr1 gh1 inv1 (SameGeom.refl _) ops_covered_all

/-- … and no write leaves the volume: the volume has its boot sector in block 0, the FAT copies in blocks 1 and 2,
the root directory in block 3, the data area from block 4 on, 40 blocks in all. -/
example (o : Out) (ho : o ∈ (run mgr1 ops).2) (w : Nat × Block) (hw : w ∈ o.writes) :
    (regionOf vol16 w.1 = .fat ∨ regionOf vol16 w.1 = .root ∨ regionOf vol16 w.1 = .data ∨ regionOf vol16 w.1 = .info) ∧
    regionOf vol16 w.1 ≠ .outside ∧ regionOf vol16 w.1 ≠ .boot ∧ regionOf vol16 w.1 ≠ .reserved ∧ regionOf vol16 w.1 ≠ .tail ∧
    InPartition vol16 w.1 ∧ vol16.lbaStart < w.1 ∧ w.1 ≠ 0 :=
  history_never_leaves_volume vol16 ops mgr1 gh1 inv1 (SameGeom.refl _) ops_covered_all o ho w hw

/-- The blocks the six calls write, evaluated: root directory (3); FAT copies (1, 2) and data clusters; … -/
example : ((run mgr1 ops).2.map fun o => o.writes.map (·.1)) =
    [[3], [1, 2, 8, 1, 2, 1, 2, 10], [3], [1, 2, 11, 6], [3, 1, 2, 1, 2, 1, 2], [3]] := by decide +kernel

/-- One call: the `delete` issued in the state the first four calls leave. -/
example : ∃ L, LicenceFor gh1 mgr1.files mgr1.dirs mgr1.dev.disk (.delete 2 [65, 46, 84, 88, 84]) L ∧
    AllLicensed gh1.vol mgr1.dev.disk L (step mgr1 (.delete 2 [65, 46, 84, 88, 84])).2.writes ∧
    (∀ i, (step mgr1 (.delete 2 [65, 46, 84, 88, 84])).1.dev.disk.get i =
      (mgr1.dev.disk.applyWrites (step mgr1 (.delete 2 [65, 46, 84, 88, 84])).2.writes).get i) ∧
    Mirror gh1.vol (step mgr1 (.delete 2 [65, 46, 84, 88, 84])).1.dev.disk :=
  step_licensed mgr1 gh1 _ inv1
    (nameOK_of_eval (sfn0 := [65, 32, 32, 32, 32, 32, 32, 32, 84, 88, 84]) (by decide +kernel) (by decide) : NameOK _)

/-- A history of calls that can only have the empty licence — lookups, listings, a flush and a write through
handles that are not open — names no object: `B.BIN` of `SUB` (slot at byte 64 of block 6, chain `[5]`) is
unchanged. -/
def quiet : List Op := [.find 2 [65, 46, 84, 88, 84], .list 3, .flush 99, .write 99 [1, 2, 3], .hasOpen]

theorem quiet_covered : CoveredAllRun vol16 mgr1 quiet :=
  C03Inv.coveredAllRun_of_coveredRun vol16 (by refine ⟨trivial, trivial, trivial, trivial, trivial, trivial⟩)

set_option maxRecDepth 100000 in
theorem quiet_files (k : Nat) : (run mgr1 (quiet.take k)).1.files = [] := by
  have : ∀ k, k ≤ 5 → (run mgr1 (quiet.take k)).1.files = [] := by decide +kernel
  by_cases hk : k ≤ 5
  · exact this k hk
  · rw [List.take_of_length_le (by show 5 ≤ k; omega)]; exact this 5 (Nat.le_refl _)

set_option maxRecDepth 100000 in
example : slice ((run mgr1 quiet).1.dev.disk.get 6) 64 32 = slice (mgr1.dev.disk.get 6) 64 32 ∧
    Chain vol16 (run mgr1 quiet).1.dev.disk 5 [5] ∧
    chainBytes vol16 (run mgr1 quiet).1.dev.disk [5] = chainBytes vol16 mgr1.dev.disk [5] := by
  refine history_untouched_objects' vol16 quiet mgr1 gh1 inv1 (SameGeom.refl _) quiet_covered 6 64 5 [5]
    (.last 5 ⟨by decide, by decide⟩ (by decide +kernel)) (.inr (by decide)) (by decide) ?_
  intro k op gh' L hk _ _ hl
  have hnone : L = Licence.none := by
    have hf := quiet_files k
    match k, hk with
    | 0, hk => cases hk; cases hl; rfl
    | 1, hk => cases hk; cases hl; rfl
    | 2, hk =>
      cases hk
      cases hl with
      | nothing => rfl
      | flush h f hfm hh => rw [hf] at hfm; cases hfm
    | 3, hk =>
      cases hk
      cases hl with
      | nothing => rfl
      | write h data f hfm hh cs' k hpre hk' hin => rw [hf] at hfm; cases hfm
    | 4, hk => cases hk; cases hl; rfl
    | k + 5, hk => cases hk
  rw [hnone]
  exact ⟨(fun _ _ h => nomatch h), (fun _ h => nomatch h), (fun _ h => nomatch h), (fun _ h => nomatch h)⟩

end Example

end Sdmmc.Props.C04Hist
