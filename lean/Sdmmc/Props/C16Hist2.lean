/-
C16 over ALL calls — "the FAT32 free-space record stays truthful" for histories of all 24 API calls
(create / delete / mkdir / truncate included), closing with `close_volume` and a remount.

`Props.C16Api` / `Props.C16Hist` prove the sentence for data-plane sessions (`write`, `flush_file`,
`close_file`, `close_volume`).  Here the accounting is carried through EVERY call, on top of the volume
invariant of C03 (`Spec.Volume.VolInv`) and the mirror invariant of C04 (`Props.C04Hist.VolInvM`).

Property theorems only; the proofs are in `Sdmmc.Lemmas.AcctAll*` (and `Lemmas.Cycle*` for create / delete /
truncate): `AcctAllBase` (`Gave`: clusters given back), `AcctAllKeeps` (the 13 calls that touch neither the
volume table nor the medium), `AcctAllStep` (`Bal`, `DeltaOK`; `write`, `flush_file`, `close_file`,
`close_volume`), `AcctAllDir` (`open_file_in_dir` in every mode, `delete_file_in_dir`), `AcctAllMkdir`
(`make_dir_in_dir` including the growth of the parent and the clean-up path), `AcctAllHist` (all 24 calls),
`AcctAllMount` (no call changes what mounting reads), `AcctAllClose` (`close_volume`, then a mount).

THE STATEMENT.  `Bal δ v d`: the in-memory free count of the record `v`, WHEN KNOWN, plus the offset `δ` is the
number of free FAT entries of the medium `d` — "the count has changed by exactly the change in the number of
free FAT entries since it was read"; the record is exact when `δ = 0`.  `step_accounting`: every one of the 24
calls keeps `Bal` with the SAME `δ`; `history_accounting`: so does every history; `count_truthful_after_close_all`:
after a history that ends with `close_volume` answering `Ok`, the next mount reads a record with the same `δ`
(exact if it was exact).

THE CONDITION ON `δ` (`DeltaOK`), forced by the two saturations of the `u32` count in the crate
(`n - 1` stays `0` at `0`; `n + 1` stays `u32::MAX` at `u32::MAX`):
* `δ ≤ 0` — the count does not UNDER-report.  Otherwise it can stand at `0` while clusters are still handed out,
  and the allocation leaves it at `0`: `δ` shrinks.  `Example.underreporting_count_drifts` evaluates this.
* `endCluster - δ ≤ u32::MAX` — it over-reports by so little that giving back every cluster of the volume cannot
  reach `u32::MAX`.  `Example.saturating_count_drifts` evaluates a count of `0xFFFFFFFE`.
Both hold for the exact record (`deltaOK_zero`), which is what mounting a truthful info sector gives.

THE HINT.  What holds of the in-memory next-free hint in every reachable state is `HintOK`: unknown, or `≥ 2`
(`hint_ok`; it is part of `VolInv`).  It need NOT be below `endCluster`: mounting accepts any stored hint except
`0`, `1`, `0xFFFFFFFF`, and calls that allocate nothing leave it alone (`Props.C16Api`,
`Example.hint_out_of_range_written_back` there).

Hypotheses beyond `VolInvM`: `Covered` (names starting with 0xE5 excluded; `open_volume` only while a volume is
open, where it is refused) exactly as in `Props.C03Inv`; for the remount: FAT32, the medium mounts at the start
with the geometry of the volume, and the in-memory hint before the close fits 32 bits (it is a `u32` in the
crate; the model's `Nat` does not know).
-/
import Sdmmc.Lemmas.AcctAllHist
import Sdmmc.Lemmas.AcctAllClose
import Sdmmc.Props.C04Hist
import Sdmmc.Props.C16Api
import Sdmmc.Props.C02Reopen

namespace Sdmmc.Props.C16Hist2
open Sdmmc.Model Sdmmc.Model.Fat Sdmmc.Spec.Volume
open Sdmmc.Spec hiding run step NoFault Coherent
open Sdmmc.Props.C03Inv (Covered CoveredRun NameOK)
open Sdmmc.Props.C04Hist (VolInvM)
open Sdmmc.Props.C16Api (normCount)

/-! ### Vocabulary -/

/-- The in-memory free count, when known, plus `δ` is the number of free FAT entries. -/
def Bal (δ : Int) (v : FatVolume) (d : Disk) : Prop :=
  ∀ n, v.freeClustersCount = some n → (n : Int) + δ = (freeCount v d : Int)

/-- The offsets for which neither saturation of the `u32` count can occur. -/
def DeltaOK (v : FatVolume) (δ : Int) : Prop := δ ≤ 0 ∧ (endCluster v : Int) - δ ≤ (U32_MAX : Int)

/-- Every open volume is in balance. -/
def CountOK (δ : Int) (s : Mgr) : Prop := ∀ vi, vi ∈ s.vols → Bal δ vi.vol s.dev.disk

/-- The invariant of accounting histories: the volume invariant with agreeing FAT copies, every open volume in
balance with offset `δ`, and `δ` in the range where the count cannot saturate. -/
structure VolInvC (s : Mgr) (gh : Ghost) (δ : Int) : Prop where
  inv : VolInvM s gh
  count : CountOK δ s
  delta : DeltaOK gh.vol δ

theorem countOK_iff (δ : Int) (s : Mgr) : CountOK δ s ↔ Lemmas.AcctAll.CountOK δ s := Iff.rfl
theorem deltaOK_iff (v : FatVolume) (δ : Int) : DeltaOK v δ ↔ Lemmas.AcctAll.DeltaOK v δ := Iff.rfl

/-- The exact record is in range. -/
theorem deltaOK_zero (v : FatVolume) (hg : WFGeom v) : DeltaOK v 0 := by
  have := Lemmas.ForestCount.endCluster_le_u32 v hg
  refine ⟨Int.le_refl 0, ?_⟩
  rw [Int.sub_zero]
  exact_mod_cast this

/-- With `δ = 0` the balance says: a known count IS the number of free FAT entries. -/
theorem bal_zero (v : FatVolume) (d : Disk) : Bal 0 v d ↔ ∀ n, v.freeClustersCount = some n → n = freeCount v d := by
  unfold Bal
  constructor
  · intro h n hn; have := h n hn; omega
  · intro h n hn; have := h n hn; omega

/-- The in-memory hint of every open volume is unknown or at least 2. -/
theorem hint_ok {s : Mgr} {gh : Ghost} {δ : Int} (h : VolInvC s gh δ) : ∀ vi, vi ∈ s.vols → HintOK vi.vol := by
  intro vi hvi
  rcases h.inv.1.vols with h0 | ⟨vi', hv, hvol⟩
  · rw [h0] at hvi; cases hvi
  · rw [hv] at hvi
    rw [List.mem_singleton.1 hvi, hvol]
    exact h.inv.1.med.hint

/-! ### Every call, every history -/

/-- **`step_accounting`.**  Every covered API call — all 24 operations, whatever they answer — keeps the invariant
`VolInvC` with the SAME offset `δ`: an allocation takes one from the count and one free FAT entry (`write`, the
growth of a directory in `create` / `mkdir`, the new directory's cluster), a freed chain gives its length back
to both (`delete`, the tail in `truncate`, the clean-up path of `mkdir`), every other call changes neither. -/
theorem step_accounting (s : Mgr) (gh : Ghost) (δ : Int) (op : Op) (hI : VolInvC s gh δ) (hc : Covered s op) :
    ∃ gh', VolInvC (step s op).1 gh' δ ∧ SameGeom gh.vol gh'.vol := by
  obtain ⟨gh', hM', hsg⟩ := C04Hist.step_invariantM gh.vol s op gh hI.inv (SameGeom.refl _)
    (C03Inv.coveredAll_of_covered gh.vol hc)
  refine ⟨gh', ⟨hM', ?_, Lemmas.AcctAll.deltaOK_sameGeom hsg hI.delta⟩, hsg⟩
  exact Lemmas.AcctAll.step_countOK hI.inv.1 op (C04Hist.nameCovered_of_covered hc)
    (fun idx e => by subst e; exact hc) hI.delta hI.count

/-- What mounting reads is the same after the call. -/
theorem step_keeps_mount_blocks (s : Mgr) (gh : Ghost) (δ : Int) (op : Op) (hI : VolInvC s gh δ) (hc : Covered s op) :
    Lemmas.AcctAll.MountSame gh.vol s.dev.disk (step s op).1.dev.disk :=
  Lemmas.AcctAll.step_mountSame hI.inv.1 hI.inv.2 op (C04Hist.nameCovered_of_covered hc)

/-- **`history_accounting`.**  Every covered history keeps `VolInvC` with the same `δ`; and nothing mounting reads
(block 0, the boot sector, the info sector outside its two record words) has changed. -/
theorem history_accounting (ops : List Op) (s : Mgr) (gh : Ghost) (δ : Int) (hI : VolInvC s gh δ) (hc : CoveredRun s ops) :
    ∃ gh', VolInvC (run s ops).1 gh' δ ∧ SameGeom gh.vol gh'.vol ∧
      Lemmas.AcctAll.MountSame gh.vol s.dev.disk (run s ops).1.dev.disk := by
  induction ops generalizing s gh with
  | nil => exact ⟨gh, hI, SameGeom.refl _, Lemmas.AcctAll.MountSame.refl _ _⟩
  | cons op ops ih =>
    obtain ⟨gh1, h1, g1⟩ := step_accounting s gh δ op hI hc.1
    have m1 := step_keeps_mount_blocks s gh δ op hI hc.1
    obtain ⟨gh2, h2, g2, m2⟩ := ih (step s op).1 gh1 h1 hc.2
    refine ⟨gh2, by unfold run; exact h2, g1.trans g2, ?_⟩
    have m2' : Lemmas.AcctAll.MountSame gh.vol (step s op).1.dev.disk (run (step s op).1 ops).1.dev.disk :=
      Lemmas.AcctAll.MountSame.sameGeom g1.symm m2
    have := m1.trans m2'
    unfold run
    exact this

/-- The exact record stays exact along every covered history: `δ = 0`. -/
theorem exact_stays_exact (ops : List Op) (s : Mgr) (gh : Ghost) (hI : VolInvM s gh)
    (hex : ∀ vi, vi ∈ s.vols → ∀ n, vi.vol.freeClustersCount = some n → n = freeCount vi.vol s.dev.disk)
    (hc : CoveredRun s ops) :
    ∀ vi, vi ∈ (run s ops).1.vols → ∀ n, vi.vol.freeClustersCount = some n → n = freeCount vi.vol (run s ops).1.dev.disk := by
  have h0 : VolInvC s gh 0 := ⟨hI, fun vi hvi => (bal_zero _ _).2 (hex vi hvi), deltaOK_zero _ hI.1.med.geom⟩
  obtain ⟨gh', h', _⟩ := history_accounting ops s gh 0 h0 hc
  exact fun vi hvi => (bal_zero _ _).1 (h'.count vi hvi)

/-! ### Closing the volume and mounting again -/

/-- **`count_truthful_after_close_all`** — the C16 sentence for histories of ALL calls.  `s` satisfies `VolInvC`
with offset `δ`, its volume is FAT32, and its medium mounts (as `w0`, with the geometry of the volume).  The user
makes ANY covered history `ops` of API calls (create, delete, mkdir, truncate, write, … ), then `close_volume`,
which answers `Ok`; the in-memory hint at that point fits 32 bits.  Then in the final state `s3`
* no volume is open, both FAT copies agree, and the FAT is what the history left;
* mounting the final medium succeeds with a record `w'` of the same geometry;
* the count mounting reads is the in-memory count at the close (`0xFFFFFFFF` read as unknown), and it is in balance
  with the SAME offset `δ`: if it was known at the close, `count + δ` is the number of free FAT entries of the final
  medium — exact (`δ = 0`) if the record was exact at the start. -/
theorem count_truthful_after_close_all (s : Mgr) (gh : Ghost) (δ : Int) (hI : VolInvC s gh δ) (ops : List Op)
    (hc : CoveredRun s ops) (h32 : gh.vol.fatType = .fat32) (idx : Nat) (w0 : FatVolume)
    (hm : mountPure (s.dev.disk.get 0) idx s.dev.disk.get = .ok w0) (hsg0 : SameGeom w0 gh.vol) (vol : Nat)
    (hok : (step (run s ops).1 (.closeVolume vol)).2.result = .ok .unit)
    (hfit : ∀ vi, vi ∈ (run s ops).1.vols → ∀ n, vi.vol.nextFreeCluster = some n → n < 4294967296) :
    ∃ w' v2, (run s ops).1.vols = [v2] ∧
      mountPure ((step (run s ops).1 (.closeVolume vol)).1.dev.disk.get 0) idx
        (step (run s ops).1 (.closeVolume vol)).1.dev.disk.get = .ok w' ∧
      SameGeom gh.vol w' ∧ (step (run s ops).1 (.closeVolume vol)).1.vols = [] ∧
      Mirror gh.vol (step (run s ops).1 (.closeVolume vol)).1.dev.disk ∧
      freeCount gh.vol (step (run s ops).1 (.closeVolume vol)).1.dev.disk = freeCount gh.vol (run s ops).1.dev.disk ∧
      (∀ n, v2.vol.freeClustersCount = some n → w'.freeClustersCount = normCount n) ∧
      (v2.vol.freeClustersCount ≠ none → Bal δ w' (step (run s ops).1 (.closeVolume vol)).1.dev.disk) := by
  obtain ⟨gh2, h2, g2, m2⟩ := history_accounting ops s gh δ hI hc
  generalize hs2 : (run s ops).1 = s2 at *
  have hI2 := h2.inv.1
  have hunl : s2.locked = false := hI2.unlocked
  rw [Lemmas.MHoare.step_unlocked s2 _ hunl] at hok ⊢
  simp only at hok ⊢
  -- the medium still mounts
  have hlba : w0.lbaStart = gh.vol.lbaStart := by obtain ⟨a, b, e⟩ := hsg0; rw [e]
  have hiloc : w0.infoLocation = gh.vol.infoLocation := by obtain ⟨a, b, e⟩ := hsg0; rw [e]
  have h32w : w0.fatType = .fat32 := by rw [hsg0.fatType] at h32; exact h32
  obtain ⟨w2, hm2, hsgw⟩ := C02Reopen.fresh_mount_same_geometry s.dev.disk s2.dev.disk idx w0 hm m2.1
    (by rw [hlba]; exact m2.2.1) (fun _ => by rw [hiloc]; exact m2.2.2 h32)
  have hsgw' : SameGeom w0 w2 := ⟨_, _, hsgw⟩
  have hsg2 : SameGeom w2 gh2.vol := hsgw'.symm.trans (hsg0.trans g2)
  have hI2r := Lemmas.VolApi.volInv_resetLogs hI2
  have hokc : (closeVolume vol (Lemmas.MHoare.resetLogs s2)).1 = .ok () := by
    have : ((closeVolume vol >>= fun _ => (pure Payload.unit : M Payload)) (Lemmas.MHoare.resetLogs s2)).1 = .ok .unit := hok
    rw [Lemmas.MHoare.bind_def] at this
    rcases hcv : closeVolume vol (Lemmas.MHoare.resetLogs s2) with ⟨r, s'⟩
    rw [hcv] at this
    cases r <;> first | rfl | cases this
  have h32' : gh2.vol.fatType = .fat32 := by rw [g2.fatType]; exact h32
  obtain ⟨w', v2, hvs2, hvol2, hmnt, hsgw2, hvols3, hfat3, hfatB3, hcnt3, _⟩ :=
    Lemmas.AcctAll.close_remount (δ := δ) hI2r h2.count h2.delta h32' idx w2 hm2 hsg2
      (fun vi hvi => hfit vi hvi) vol hokc
  have hstate : (runOp (Op.closeVolume vol) (Lemmas.MHoare.resetLogs s2)).2 =
      (closeVolume vol (Lemmas.MHoare.resetLogs s2)).2 := Lemmas.VolApi.seq_state _ _ _
  rw [hstate]
  have hvs2' : s2.vols = [v2] := hvs2
  have hfatB3' : ∀ b, IsFatBlock gh2.vol b →
      (closeVolume vol (Lemmas.MHoare.resetLogs s2)).2.dev.disk.get b = s2.dev.disk.get b := hfatB3
  have hfat3' : ∀ c, c < endCluster gh2.vol →
      (closeVolume vol (Lemmas.MHoare.resetLogs s2)).2.dev.disk.get (fatBlock gh2.vol c) = s2.dev.disk.get (fatBlock gh2.vol c) := hfat3
  have hfc : freeCount gh.vol (closeVolume vol (Lemmas.MHoare.resetLogs s2)).2.dev.disk = freeCount gh.vol s2.dev.disk := by
    rw [← g2.freeCount, ← g2.freeCount]
    exact Lemmas.Acct.freeCount_congr hfat3'
  refine ⟨w', v2, hvs2', hmnt, g2.trans hsgw2, hvols3, ?_, hfc, hcnt3, ?_⟩
  · have hm2' : Mirror gh2.vol s2.dev.disk := h2.inv.2
    exact (g2.mirror _).1 (Lemmas.Acct.mirror_congr hfatB3' hm2')
  · intro hne n hn
    cases hc2 : v2.vol.freeClustersCount with
    | none => exact absurd hc2 hne
    | some m =>
      have hw := hcnt3 m hc2
      rw [hn] at hw
      unfold Lemmas.Acct.normCount at hw
      split at hw
      · cases hw
      · have hmn : n = m := Option.some.inj hw
        subst hmn
        have hb := h2.count v2 (by rw [hvs2']; exact List.mem_singleton.2 rfl) n hc2
        rw [hvol2] at hb
        have e1 : freeCount w' (closeVolume vol (Lemmas.MHoare.resetLogs s2)).2.dev.disk =
            freeCount gh2.vol s2.dev.disk := by
          rw [hsgw2.freeCount]
          exact Lemmas.Acct.freeCount_congr hfat3'
        rw [e1]
        exact hb

/-! ### Non-vacuity: the FAT32 volume of `Lemmas.VolExample`

`mgr32`: 20 clusters, root = cluster 2, `SUB` = cluster 3 (handle 3; the root is handle 2), `F.TXT` = clusters 4 → 5,
`SUB/G.BIN` = cluster 6; 15 clusters free, and the in-memory count says 15: `δ = 0`. -/

namespace Example
open Sdmmc.Lemmas.VolExample
open Sdmmc.Props.C03Inv.Example (nameOK_of_eval)

theorem mirror32 : Mirror vol32 mgr32.dev.disk := C04Hist.Example.mirror_of_check _ _ (by decide +kernel)

/-- The example state satisfies the accounting invariant with `δ = 0`. -/
theorem invC32 : VolInvC mgr32 gh32 0 where
  inv := ⟨mgr32_inv, mirror32⟩
  count := by
    intro vi hvi
    have : vi = { rawVolume := 1, idx := 0, vol := vol32 } := List.mem_singleton.1 hvi
    rw [this]
    exact (bal_zero _ _).2 (fun n hn => by cases hn; exact mgr32_count.symm)
  delta := deltaOK_zero _ mgr32_inv.med.geom

/-- A history of calls of every accounting kind: create `N.TXT`, write 1200 bytes (3 clusters), `mkdir D` in `SUB`
(1 cluster), delete `F.TXT` (2 clusters back), close, truncate `SUB/G.BIN` (1 cluster, keeps it), close, truncate
`N.TXT` (3 clusters, 2 back), close. -/
def ops32 : List Op :=
  [.openFile 2 [78, 46, 84, 88, 84] .ReadWriteCreate, .write 10 (List.replicate 1200 7), .mkdir 3 [68],
   .delete 2 [70, 46, 84, 88, 84], .closeFile 10, .openFile 3 [71, 46, 66, 73, 78] .ReadWriteTruncate, .closeFile 11,
   .openFile 2 [78, 46, 84, 88, 84] .ReadWriteTruncate, .closeFile 12]

theorem ops32_covered : CoveredRun mgr32 ops32 := by
  refine ⟨?_, trivial, ?_, ?_, trivial, ?_, trivial, ?_, trivial, trivial⟩
  · exact nameOK_of_eval (sfn0 := [78, 32, 32, 32, 32, 32, 32, 32, 84, 88, 84]) (by decide +kernel) (by decide)
  · exact nameOK_of_eval (sfn0 := [68, 32, 32, 32, 32, 32, 32, 32, 32, 32, 32]) (by decide +kernel) (by decide)
  · exact nameOK_of_eval (sfn0 := [70, 32, 32, 32, 32, 32, 32, 32, 84, 88, 84]) (by decide +kernel) (by decide)
  · exact nameOK_of_eval (sfn0 := [71, 32, 32, 32, 32, 32, 32, 32, 66, 73, 78]) (by decide +kernel) (by decide)
  · exact nameOK_of_eval (sfn0 := [78, 32, 32, 32, 32, 32, 32, 32, 84, 88, 84]) (by decide +kernel) (by decide)

/-- The history theorem applies … -/
theorem ops32_accounting : ∃ gh', VolInvC (run mgr32 ops32).1 gh' 0 ∧ SameGeom vol32 gh'.vol :=
  let ⟨gh', h, g, _⟩ := history_accounting ops32 mgr32 gh32 0 invC32 ops32_covered
  ⟨gh', h, g⟩

/-- … and the engine, run, agrees: all nine calls answer `Ok`; count and free FAT entries go
15 → 15 → 12 → 11 → 13 → 13 → 13 → 13 → 15 → 15 together. -/
theorem ops32_run :
    (run mgr32 ops32).2.map (fun o => match o.result with | .ok _ => true | _ => false) =
      [true, true, true, true, true, true, true, true, true] ∧
    (List.range 10).map (fun k => ((run mgr32 (ops32.take k)).1.vols.map fun v => v.vol.freeClustersCount,
      freeCount vol32 (run mgr32 (ops32.take k)).1.dev.disk)) =
      [([some 15], 15), ([some 15], 15), ([some 12], 12), ([some 11], 11), ([some 13], 13), ([some 13], 13),
       ([some 13], 13), ([some 13], 13), ([some 15], 15), ([some 15], 15)] := by decide +kernel

/-- **The excluded point `δ > 0`.**  The same medium with the in-memory count `0` (15 clusters are free: `δ = 15`):
`mkdir` allocates a cluster, the count stays `0` (`0 - 1` saturates), 14 clusters are free — the offset is 14 now. -/
def mgrU : Mgr := { mgr32 with vols := [{ rawVolume := 1, idx := 0, vol := { vol32 with freeClustersCount := some 0 } }] }
theorem underreporting_count_drifts :
    (match (step mgrU (.mkdir 3 [68])).2.result with | .ok _ => true | _ => false) = true ∧
    (step mgrU (.mkdir 3 [68])).1.vols.map (fun v => v.vol.freeClustersCount) = [some 0] ∧
    freeCount vol32 mgrU.dev.disk = 15 ∧ freeCount vol32 (step mgrU (.mkdir 3 [68])).1.dev.disk = 14 := by decide +kernel

/-- **The excluded point `endCluster - δ > u32::MAX`.**  The same medium with the in-memory count `0xFFFFFFFE`: deleting
`F.TXT` gives two clusters back, the count goes to `0xFFFFFFFF` only (`+ 1` saturates): the offset moved by one. -/
def mgrS : Mgr :=
  { mgr32 with vols := [{ rawVolume := 1, idx := 0, vol := { vol32 with freeClustersCount := some 0xFFFFFFFE } }] }
theorem saturating_count_drifts :
    (match (step mgrS (.delete 2 [70, 46, 84, 88, 84])).2.result with | .ok _ => true | _ => false) = true ∧
    (step mgrS (.delete 2 [70, 46, 84, 88, 84])).1.vols.map (fun v => v.vol.freeClustersCount) = [some 0xFFFFFFFF] ∧
    freeCount vol32 mgrS.dev.disk = 15 ∧ freeCount vol32 (step mgrS (.delete 2 [70, 46, 84, 88, 84])).1.dev.disk = 17 := by
  decide +kernel

end Example

end Sdmmc.Props.C16Hist2
