/-
C06 (and C17: listings with long names), tie to the source text, manager level: `VolumeManager::find_directory_entry`,
`iterate_dir`, `iterate_dir_lfn`, `get_root_volume_label` (volume_mgr.rs; with the `Directory` wrapper the last one
opens, lists and drops: filesystem/directory.rs), machine-translated by tools/translate_mgr2.py into
`Sdmmc.Gen.FunsMgr2`, are the hand-written `Model/Mgr.lean` as functions `Mgr → Res α × Mgr`, on EVERY state: with the
`RefCell` free the model's per-call function, with it borrowed `LockError` and nothing touched (what `Model.step`
does around `runOp`).

* A callback is the list of the argument tuples it is called with (`iterate_dir : M (List DirEntry)`), the model's
  convention; the closure the manager wraps around the user's callback (`if !de.attributes.is_lfn() { func(de) }`)
  is folded over the FAT level's calls and comes out as the model's `filter`.
* `iterate_dir_lfn` takes the LFN buffer as a value (`Lfn.Buf`); with a fresh buffer of `n` bytes it is the model's
  `iterateDirLfn d n` (`iterate_dir_lfn_eq`); for any buffer, the model's fold started on it (`iterate_dir_lfn_any`).
* `get_root_volume_label` is equal to the model UP TO THE STATE AFTER A PANIC (`PEq`): when the listing panics or runs
  out of fuel, the translation stops there (unwinding destructors are not modelled) while the model still closes the
  temporary directory.  On every other path — the label of the boot sector, `TooManyOpenDirs`, an `Err` of the listing
  (the destructor runs, then the error is returned), success (the destructor runs, then the first entry whose attributes
  are exactly `VOLUME`) — outcome and state are equal.

The FAT-level calls (`Fat.findDirectoryEntry`, `Fat.iterateRaw`) are bindings to the model, tied to the Rust text by
`Props/C06GenM.lean` and `Props/C06GenIter.lean`; the LFN fold is the model's `lfnFold` (no tie to `Gen/FunsDir.lean`
yet).  Proofs: `Sdmmc.Lemmas.GenMgr2`.
-/
import Sdmmc.Lemmas.GenMgr2
import Sdmmc.Props.C08Wrap

namespace Sdmmc.Props.C06GenMgr

open Sdmmc Sdmmc.Model Sdmmc.Gen
open Sdmmc.Lemmas.GenMgrIO (PEq)

/-- `find_directory_entry(directory, name)`. -/
theorem find_directory_entry_eq (directory : Nat) (name : List Nat) (s : Mgr) :
    FunsMgr2.VolumeManager_find_directory_entry directory name s =
      if s.locked then (.err .LockError, s) else findDirectoryEntry directory name s :=
  Lemmas.GenMgr2.find_directory_entry_eq directory name s

/-- `iterate_dir(directory, func)`: the calls of `func`, in order — the entries that are not LFN parts. -/
theorem iterate_dir_eq (directory : Nat) (s : Mgr) :
    FunsMgr2.VolumeManager_iterate_dir directory s =
      if s.locked then (.err .LockError, s) else iterateDir directory s :=
  Lemmas.GenMgr2.iterate_dir_eq directory s

/-- `iterate_dir_lfn(directory, lfn_buffer, func)` with a fresh buffer of `n` bytes. -/
theorem iterate_dir_lfn_eq (directory n : Nat) (s : Mgr) :
    FunsMgr2.VolumeManager_iterate_dir_lfn directory (Lfn.new (zeros n)) s =
      if s.locked then (.err .LockError, s) else iterateDirLfn directory n s :=
  Lemmas.GenMgr2.iterate_dir_lfn_fresh directory n s

/-- The same for any buffer: the handle look-ups, the raw listing, the model's LFN fold started on that buffer. -/
theorem iterate_dir_lfn_any (directory : Nat) (buf : Lfn.Buf) (s : Mgr) :
    FunsMgr2.VolumeManager_iterate_dir_lfn directory buf s =
      if s.locked then (.err .LockError, s) else
        (getDirById directory >>= fun dirIdx => getDir dirIdx >>= fun d => getVolumeById d.rawVolume >>= fun volIdx =>
          withVol volIdx (Fat.iterateRaw d.cluster) >>= fun es => M.lift (lfnFold .Waiting buf es)) s :=
  Lemmas.GenMgr2.iterate_dir_lfn_eq directory buf s

/-- `get_root_volume_label(raw_volume)`. -/
theorem get_root_volume_label_eq (volume : Nat) (s : Mgr) :
    PEq (FunsMgr2.VolumeManager_get_root_volume_label volume s)
      (if s.locked then (.err .LockError, s) else getRootVolumeLabel volume s) :=
  Lemmas.GenMgr2.get_root_volume_label_eq volume s

/-- The wrapper `Directory::iterate_dir` used by `get_root_volume_label` is the manager's method on its handle, and
its destructor is `close_dir` with the result swallowed. -/
theorem directory_wrapper (d : Nat) :
    FunsMgr2.Directory_iterate_dir d = FunsMgr2.VolumeManager_iterate_dir d ∧
    FunsMgr2.Directory_Drop_drop d = FunsMgr2.discardErr (FunsMgr.VolumeManager_close_dir d) ∧
    FunsMgr2.RawDirectory_to_directory d = d :=
  ⟨rfl, rfl, rfl⟩

/-! ### Evaluated examples -/

namespace Example
open Sdmmc.Props.C01Read.Example Sdmmc.Props.C08Wrap.Example

/-- The TRANSLATION computes, on the manager of `Props/C08Wrap.lean` (root directory open as 4 and 3, holding the one
entry `SUB`): the listing is that entry; `find("SUB")` finds it, `find("A")` is `NotFound`; a handle that is not open
is `BadHandle`; with the manager borrowed everything is `LockError`. -/
example : (match (FunsMgr2.VolumeManager_iterate_dir 4 mgrD).1 with | .ok l => l.map (·.name) | _ => []) = [subName] ∧
    (match (FunsMgr2.VolumeManager_find_directory_entry 4 [83, 85, 66] mgrD).1 with | .ok e => e.cluster | _ => 0) = 6 ∧
    (FunsMgr2.VolumeManager_find_directory_entry 4 [65] mgrD).1 = .err .NotFound ∧
    (FunsMgr2.VolumeManager_find_directory_entry 9 [65] mgrD).1 = .err .BadHandle ∧
    (FunsMgr2.VolumeManager_find_directory_entry 4 [65] { mgrD with locked := true }).1 = .err .LockError ∧
    (match (FunsMgr2.VolumeManager_iterate_dir 4 { mgrD with locked := true }).1 with | .err e => e | _ => .NotFound) = .LockError := by
  refine ⟨?_, ?_, ?_, ?_, ?_, ?_⟩ <;> decide +kernel

/-- The listing with long names, 64-byte buffer: `SUB` has none. -/
example : (match (FunsMgr2.VolumeManager_iterate_dir_lfn 4 (Lfn.new (zeros 64)) mgrD).1 with
    | .ok l => l.map fun x => (x.1.name, x.2) | _ => []) = [(subName, none)] := by decide +kernel

/-- The label: the volume of the example has a blank boot-sector label and no `VOLUME` entry in its root, so the
answer is `Ok(None)`, and the temporary directory handle (5) is closed again: the table is as before. -/
example : (FunsMgr2.VolumeManager_get_root_volume_label 0 mgrD).1 = (getRootVolumeLabel 0 mgrD).1 ∧
    dirTable (FunsMgr2.VolumeManager_get_root_volume_label 0 mgrD).2 = dirTable mgrD ∧
    (FunsMgr2.VolumeManager_get_root_volume_label 0 mgrD).2.nextId = mgrD.nextId + 1 := by
  refine ⟨?_, ?_, ?_⟩ <;> decide +kernel

/-- A full directory table: `TooManyOpenDirs` (the slow way needs a slot). -/
example : (FunsMgr2.VolumeManager_get_root_volume_label 0 { mgrD with maxDirs := 2 }).1 =
    (getRootVolumeLabel 0 { mgrD with maxDirs := 2 }).1 := by decide +kernel

end Example

end Sdmmc.Props.C06GenMgr
