/-
C01 / C02 / C11 / C16, tie to the source text, manager level: `VolumeManager::write` (volume_mgr.rs),
machine-translated into `Sdmmc.Gen.FunsMgr`, against `Model.write` / `Model.writeLoop`.
-/
import Sdmmc.Gen.FunsMgr
import Sdmmc.Model.Mgr
import Sdmmc.Lemmas.GenMgrIO
import Sdmmc.Props.C01GenM
import Sdmmc.Props.C01GenFind
import Sdmmc.Lemmas.GenBits

set_option linter.unusedSimpArgs false
set_option linter.unusedVariables false

namespace Sdmmc.Props.C01GenWrite

open Sdmmc Sdmmc.Model Sdmmc.Gen Sdmmc.Lemmas.GenMgr Sdmmc.Lemmas.GenMgrIO
open Sdmmc.Lemmas (FBasic.bind_apply)
open Sdmmc.Props.C01GenFind (find_data_on_disk_eq flat findDataOnDisk_keeps findDataOnDisk_avail)

/-- The loop's answer (`written` when it ends) for the model's `()`. -/
def outW (btw : Nat) (x : Res Unit × Mgr) : Res Nat × Mgr :=
  (match x.1 with
   | .ok _ => .ok btw
   | .err e => .err e
   | .panic m => .panic m
   | .diverged => .diverged, x.2)

/-! ### The loop bodies in two parts: locating the block (`loc*`), writing it and moving on (`tail*`)

The definitions below restate the parts of the generated loop (and of the model's) so that the two proofs can be
done separately; `gen_form` / `model_form` check by `rfl` that they ARE the parts of those definitions. -/

/-- `find_data_on_disk`, and once more after extending the chain when the offset lies at its end. -/
def locG (i vi : Nat) (current_cluster : Nat × Nat) (fileStart current_offset : Nat) :
    M ((Nat × Nat × Nat) × (Nat × Nat)) :=
  (FunsMgr.VolumeManagerData_find_data_on_disk vi current_cluster fileStart current_offset) >>= fun _t122 =>
    (let current_cluster := _t122.1; (match _t122.2 with
      | Res.ok vars => (pure (vars, current_cluster))
      | Res.err Err.EndOfFile => ((M.attempt (withVol vi (Fat.allocCluster (some current_cluster.2) false))) >>= fun _t123 =>
        (match _t123 with
         | Res.panic _t130 => M.panic _t130
         | Res.diverged => M.diverge
         | _ => ((if (FunsMgr.isOk _t123 = false)
           then (M.fail Err.DiskFull)
           else (pure ())) >>= fun _ =>
          ((getFile i) >>= fun _t125 =>
           ((FunsMgr.VolumeManagerData_find_data_on_disk vi current_cluster _t125.entry.cluster _t125.currentOffset) >>= fun _t129 =>
            (let current_cluster := _t129.1; (match _t129.2 with
              | Res.ok _t126 => (let new_offset := _t126; (M.get >>= fun s =>
                (pure (new_offset, current_cluster))))
              | Res.err _t127 => (M.fail Err.AllocationError)
              | Res.panic _t128 => M.panic _t128
              | Res.diverged => M.diverge)))))))
      | Res.err _t131 => (M.fail _t131)
      | Res.panic _t132 => M.panic _t132
      | Res.diverged => M.diverge))

open FunsMgr in
/-- The end of an iteration of the generated loop: the file record is brought up to date, the loop goes on. -/
def fileG (buffer : List UInt8) (i vi btw fuel written to_copy : Nat) (current_cluster : Nat × Nat) : M Nat :=
  (let written := (written + to_copy); ((modifyFile i fun _t136 => { _t136 with curClusterOff := (current_cluster).1, curCluster := (current_cluster).2 }) >>= fun _ =>
  (M.get >>= fun s =>
  (let to_copy := (to_copy % 4294967296); ((getFile i) >>= fun _t137 =>
  (let new_offset := (_t137.currentOffset + to_copy); ((getFile i) >>= fun _t138 =>
  ((if (new_offset > _t138.entry.size)
  then (((getFile i) >>= fun _t139 =>
  let _t140 := (FileInfo_update_length _t139 new_offset); ((setFile i _t140.2) >>= fun _ =>
  pure _t140.1)) >>= fun _ =>
  (M.get >>= fun s =>
  (pure ())))
  else (pure ())) >>= fun _ =>
  (M.get >>= fun s =>
  (((getFile i) >>= fun _t142 =>
  let _t143 := (FileInfo_seek_from_start _t142 new_offset); ((setFile i _t143.2) >>= fun _ =>
  match _t143.1 with
  | Except.ok _x => pure _x
  | Except.error _ => M.panic "called `Result::unwrap()` on an `Err` value")) >>= fun _ =>
  (M.get >>= fun s =>
  (VolumeManager_write_loop1 s buffer i vi btw fuel written))))))))))))

open FunsMgr in
/-- The rest of an iteration of the generated loop. -/
def tailG (buffer : List UInt8) (i vi btw fuel written : Nat) (_t133 : (Nat × Nat × Nat) × (Nat × Nat)) : M Nat :=
  (let current_cluster := _t133.2; (let _t121 := _t133.1; (M.get >>= fun s =>
  (let block_idx := _t121.1; (let block_offset := _t121.2.1; (let block_avail := _t121.2.2; (M.get >>= fun s =>
  (let to_copy := (min block_avail (btw - written)); ((if ((block_offset = 0) ∧ (to_copy = block_avail))
  then ((cacheOp (blankMut block_idx)) >>= fun _ =>
  (pure ()))
  else ((cacheOp (cacheRead block_idx)) >>= fun _ =>
  (pure ()))) >>= fun _ =>
  ((cacheOp cacheBlk) >>= fun block =>
  (M.get >>= fun s =>
  ((cacheOp (cacheModify fun block => let block := List.take block_offset block ++ (List.drop written (List.take (written + to_copy) buffer)) ++ List.drop (block_offset + to_copy) block; block)) >>= fun _ =>
  ((cacheOp cacheBlk) >>= fun block =>
  ((cacheOp writeBack) >>= fun _ =>
  (M.get >>= fun s =>
  (fileG buffer i vi btw fuel written to_copy current_cluster))))))))))))))))

theorem gen_form (s0 : Mgr) (buffer : List UInt8) (i vi btw fuel written : Nat) :
    FunsMgr.VolumeManager_write_loop1 s0 buffer i vi btw (fuel + 1) written =
      (M.get >>= fun _ =>
        (if written < btw
         then ((getFile i) >>= fun t1 => ((getFile i) >>= fun t2 => ((getFile i) >>= fun t3 =>
           (locG i vi (t1.curClusterOff, t1.curCluster) t3.entry.cluster t2.currentOffset >>=
             tailG buffer i vi btw fuel written))))
         else pure written)) := rfl

/-- The model's locating part. -/
def locM (vi : Nat) (f : FileInfo) : M ((Nat × Nat) × (Nat × Nat × Nat)) :=
  M.attempt (withVol vi (findDataOnDisk f.entry.cluster f.currentOffset (f.curClusterOff, f.curCluster))) >>= fun r =>
    (match r with
      | .ok (cc, .ok x) => pure (cc, x)
      | .ok (cc, .err .EndOfFile) => do
        let ra ← M.attempt (withVol vi (Fat.allocCluster (some cc.2) false))
        match ra with
        | .ok _ => do
          let r2 ← M.attempt (withVol vi (findDataOnDisk f.entry.cluster f.currentOffset cc))
          match r2 with
          | .ok (cc2, .ok x) => pure (cc2, x)
          | .ok (_, .err _) => M.fail .AllocationError
          | .ok (_, other) => M.lift (other.bind fun _ => .err .AllocationError)
          | other => M.lift (other.bind fun _ => .err .AllocationError)
        | .err _ => M.fail .DiskFull
        | other => M.lift (other.bind fun _ => .err .DiskFull)
      | .ok (_, other) => M.lift (other.bind fun _ => .err .DiskFull)
      | other => M.lift (other.bind fun _ => .err .DiskFull) : M ((Nat × Nat) × (Nat × Nat × Nat)))

/-- The rest of an iteration of the model's loop. -/
def tailM (i vi fuel : Nat) (buffer : Bytes) (p : (Nat × Nat) × (Nat × Nat × Nat)) : M Unit :=
  let toCopy := min p.2.2.2 buffer.length
  withVol vi (writeBlockPart p.2.1 p.2.2.1 (buffer.take toCopy) (p.2.2.1 = 0 ∧ toCopy = p.2.2.2)) >>= fun _ =>
  modifyFile i (fun f =>
      let newOffset := f.currentOffset + toCopy
      let f := { f with curClusterOff := p.1.1, curCluster := p.1.2 }
      let f := if newOffset > f.entry.size then f.updateLength newOffset else f
      { f with currentOffset := newOffset }) >>= fun _ =>
  writeLoop i vi fuel (buffer.drop toCopy)

theorem model_form (i vi fuel : Nat) (buffer : Bytes) :
    writeLoop i vi (fuel + 1) buffer =
      (if buffer.isEmpty then pure () else getFile i >>= fun f => locM vi f >>= tailM i vi fuel buffer) := rfl

/-! ### Locating the block -/

def swapR {α β : Type} : Res (α × β) → Res (β × α)
  | .ok (a, b) => .ok (b, a)
  | .err e => .err e
  | .panic m => .panic m
  | .diverged => .diverged

/-- What the loop relies on after a successful `loc*`: the file record is untouched, the volume slot is still
there, the offset lies in the block and the rest of the block is available. -/
abbrev LocOk (i vi : Nat) (f : FileInfo) (r : Res ((Nat × Nat × Nat) × (Nat × Nat))) (s' : Mgr) : Prop :=
  ∀ x cc, r = .ok (x, cc) → s'.files[i]? = some f ∧ (∃ v', s'.vols[vi]? = some v') ∧ x.2.1 < 512 ∧ x.2.2 = 512 - x.2.1

theorem locate_eq (i vi : Nat) (f : FileInfo) (v : VolInfo) (s : Mgr) (hf : s.files[i]? = some f)
    (hv : s.vols[vi]? = some v) :
    ∃ r s', locG i vi (f.curClusterOff, f.curCluster) f.entry.cluster f.currentOffset s = (r, s') ∧
      locM vi f s = (swapR r, s') ∧ LocOk i vi f r s' := by
  unfold locG locM
  simp only [bind_apply, attempt_apply, find_data_on_disk_eq]
  rw [withVol_keep vi _ s v hv (findDataOnDisk_keeps _ _ _ _).vol]
  have hk := findDataOnDisk_keeps f.entry.cluster f.currentOffset (f.curClusterOff, f.curCluster) (fsOf s v)
  rcases hfd : findDataOnDisk f.entry.cluster f.currentOffset (f.curClusterOff, f.curCluster) (fsOf s v) with ⟨r, fs1⟩
  rw [hfd] at hk
  have hf1 : (upd s fs1).files[i]? = some f := hf
  have hv1 : (upd s fs1).vols[vi]? = some v := hv
  cases r with
  | ok p =>
    obtain ⟨cc, r'⟩ := p
    cases r' with
    | ok x =>
      obtain ⟨b, o, a⟩ := x
      refine ⟨_, _, rfl, rfl, ?_⟩
      intro x' cc' h
      cases h
      obtain ⟨ho, ha⟩ := findDataOnDisk_avail hfd
      exact ⟨hf1, ⟨v, hv1⟩, ho, ha⟩
    | err e =>
      cases e
      case EndOfFile =>
        simp only [flat, bind_apply, attempt_apply]
        rw [withVol_runV vi _ _ v hv1]
        rcases hal : Fat.allocCluster (some cc.2) false (fsOf (upd s fs1) v) with ⟨ra, fsA⟩
        simp only []
        generalize hs2 : updV (upd s fs1) vi v fsA = s2
        have hf2 : s2.files[i]? = some f := by rw [← hs2]; exact hf
        have hv2 : s2.vols[vi]? = some { v with vol := fsA.vol } := by
          rw [← hs2]; exact updV_vols_get _ _ _ _ hv1
        have hfs2 : fsOf s2 { v with vol := fsA.vol } = fsA := by rw [← hs2]; rfl
        cases ra with
        | ok c =>
          simp only [FunsMgr.isOk, Bool.true_eq_false, if_false, ite_apply, pure_apply, bind_apply, getFile_ok _ i f hf2,
            find_data_on_disk_eq, attempt_apply]
          rw [withVol_keep vi _ s2 _ hv2 (findDataOnDisk_keeps _ _ _ _).vol, hfs2]
          have hk2 := findDataOnDisk_keeps f.entry.cluster f.currentOffset cc fsA
          rcases hfd2 : findDataOnDisk f.entry.cluster f.currentOffset cc fsA with ⟨r2, fs3⟩
          rw [hfd2] at hk2
          cases r2 with
          | ok p2 =>
            obtain ⟨cc2, r2'⟩ := p2
            cases r2' with
            | ok x2 =>
              obtain ⟨b, o, a⟩ := x2
              refine ⟨_, _, rfl, rfl, ?_⟩
              intro x' cc' h
              cases h
              obtain ⟨ho, ha⟩ := findDataOnDisk_avail hfd2
              exact ⟨hf2, ⟨_, hv2⟩, ho, ha⟩
            | err e2 => exact ⟨_, _, rfl, rfl, fun _ _ h => by cases h⟩
            | panic m => exact ⟨_, _, rfl, rfl, fun _ _ h => by cases h⟩
            | diverged => exact ⟨_, _, rfl, rfl, fun _ _ h => by cases h⟩
          | err e2 => exact ⟨_, _, rfl, rfl, fun _ _ h => by cases h⟩
          | panic m => exact ⟨_, _, rfl, rfl, fun _ _ h => by cases h⟩
          | diverged => exact ⟨_, _, rfl, rfl, fun _ _ h => by cases h⟩
        | err e2 => exact ⟨_, _, rfl, rfl, fun _ _ h => by cases h⟩
        | panic m => exact ⟨_, _, rfl, rfl, fun _ _ h => by cases h⟩
        | diverged => exact ⟨_, _, rfl, rfl, fun _ _ h => by cases h⟩
      all_goals exact ⟨_, _, rfl, rfl, fun _ _ h => by cases h⟩
    | panic m => exact ⟨_, _, rfl, rfl, fun _ _ h => by cases h⟩
    | diverged => exact ⟨_, _, rfl, rfl, fun _ _ h => by cases h⟩
  | err e => exact ⟨_, _, rfl, rfl, fun _ _ h => by cases h⟩
  | panic m => exact ⟨_, _, rfl, rfl, fun _ _ h => by cases h⟩
  | diverged => exact ⟨_, _, rfl, rfl, fun _ _ h => by cases h⟩

/-! ### Writing the block and moving on -/

theorem writeBlockPart_cacheOnly (b o : Nat) (src : Bytes) (whole : Bool) : CacheOnly (writeBlockPart b o src whole) := by
  have hjp : ∀ _u : Unit, CacheOnly (cacheModify (fun blk => splice blk o src) >>= fun _ => writeBack) :=
    fun _ => CacheOnly.bind (CacheOnly.cacheModify _) fun _ => CacheOnly.writeBack
  unfold writeBlockPart
  cases whole
  · exact CacheOnly.bind (CacheOnly.cacheRead _) hjp
  · exact CacheOnly.bind (CacheOnly.blankMut _) hjp

/-- The bytes of this iteration, as the model cuts them from what is left and as the Rust cuts them from the
whole buffer. -/
theorem src_eq (buffer : List UInt8) (btw written tc : Nat) (htc : tc ≤ btw - written) :
    List.take tc (List.drop written (List.take btw buffer)) = List.drop written (List.take (written + tc) buffer) := by
  rw [List.drop_take, List.drop_take, List.take_take, Nat.add_sub_cancel_left, Nat.min_eq_left htc]

theorem getFile_setF (s : Mgr) (i : Nat) (f f' : FileInfo) (h : s.files[i]? = some f) :
    getFile i (setF s i f') = (.ok f', setF s i f') := getFile_ok _ i f' (setF_files_get s i f f' h)

theorem modifyFile_setF (s : Mgr) (i : Nat) (g : FileInfo → FileInfo) (f f' : FileInfo) (h : s.files[i]? = some f) :
    modifyFile i g (setF s i f') = (.ok (), setF s i (g f')) := by
  rw [modifyFile_ok _ i g f' (setF_files_get s i f f' h), setF_setF]

/-- The model's update of the file record at the end of an iteration. -/
def fileUpd (cc : Nat × Nat) (tc : Nat) (f : FileInfo) : FileInfo :=
  let newOffset := f.currentOffset + tc
  let f : FileInfo := { f with curClusterOff := cc.1, curCluster := cc.2 }
  let f := if newOffset > f.entry.size then f.updateLength newOffset else f
  { f with currentOffset := newOffset }

/-- The end of an iteration: the file record is brought up to date and the loop goes on. -/
theorem file_step (i vi btw : Nat) (buffer : List UInt8) (fuelG fuelM written : Nat)
    (ih : ∀ (s0 s : Mgr) (written : Nat) (f : FileInfo) (v : VolInfo),
      s.files[i]? = some f → s.vols[vi]? = some v → written ≤ btw →
      btw - written < fuelG → btw - written < fuelM →
      PEq (FunsMgr.VolumeManager_write_loop1 s0 buffer i vi btw fuelG written s)
        (outW btw (writeLoop i vi fuelM ((buffer.take btw).drop written) s)))
    (s3 : Mgr) (f : FileInfo) (v : VolInfo) (cc : Nat × Nat) (tc : Nat)
    (hf3 : s3.files[i]? = some f) (hv3 : s3.vols[vi]? = some v) (htc : tc < 4294967296) (h0 : 0 < tc)
    (hw : written + tc ≤ btw) (hG : btw - written < fuelG + 1) (hM : btw - written < fuelM + 1) :
    PEq (fileG buffer i vi btw fuelG written tc cc s3)
      (outW btw ((modifyFile i (fileUpd cc tc) >>= fun _ =>
        writeLoop i vi fuelM (List.drop tc (List.drop written (List.take btw buffer)))) s3)) := by
  have hmod : tc % 4294967296 = tc := Nat.mod_eq_of_lt htc
  unfold fileG
  simp only [bind_apply, get_apply, modifyFile_ok _ i _ f hf3, getFile_setF s3 i f _ hf3, hmod, ite_apply, pure_apply]
  rw [List.drop_drop]
  by_cases hgt : f.currentOffset + tc > f.entry.size
  · simp only [if_pos hgt, bind_apply, get_apply, pure_apply, getFile_setF s3 i f _ hf3, setFile_apply, setF_setF,
      C01GenM.seek_from_start_eq, FileInfo.seekFromStart, FunsMgr.FileInfo_update_length, Nat.lt_irrefl, if_false,
      gt_iff_lt]
    have hupd : fileUpd cc tc f = { ({ f with curClusterOff := cc.1, curCluster := cc.2 } : FileInfo).updateLength
        (f.currentOffset + tc) with currentOffset := f.currentOffset + tc } := by
      unfold fileUpd
      simp only [if_pos hgt]
    rw [hupd]
    exact ih _ _ _ _ v (setF_files_get _ i _ _ hf3) hv3 (by omega) (by omega) (by omega)
  · have hle : ¬ (f.entry.size < f.currentOffset + tc) := hgt
    simp only [if_neg hgt, bind_apply, get_apply, pure_apply, getFile_setF s3 i f _ hf3, setFile_apply, setF_setF,
      C01GenM.seek_from_start_eq, FileInfo.seekFromStart, hle, if_false, gt_iff_lt]
    have hupd : fileUpd cc tc f = { ({ f with curClusterOff := cc.1, curCluster := cc.2 } : FileInfo) with
        currentOffset := f.currentOffset + tc } := by
      unfold fileUpd
      simp only [if_neg hgt]
    rw [hupd]
    exact ih _ _ _ _ v (setF_files_get _ i _ _ hf3) hv3 (by omega) (by omega) (by omega)

set_option hygiene false in
/-- The steps shared by the two ways the block is prepared (`blank_mut` / `read_mut`) in `tail_eq`. -/
local macro "write_tail_steps" : tactic => `(tactic| (
  rw [hpart _ (by first | exact CacheOnly.blankMut _ | exact CacheOnly.cacheRead _)]
  simp only [bind_apply, get_apply, pure_apply]
  generalize hc1 : FunsMgr.cacheOp _ s = x1
  have h1f : x1.2.files = s.files := by rw [← hc1]; rfl
  have h1v : x1.2.vols = s.vols := by rw [← hc1]; rfl
  obtain ⟨r1, s1⟩ := x1
  simp only at h1f h1v
  cases r1 with
  | ok u1 =>
    simp only [cacheOp_cacheBlk]
    generalize hc2 : FunsMgr.cacheOp _ s1 = x2
    have h2f : x2.2.files = s1.files := by rw [← hc2]; rfl
    have h2v : x2.2.vols = s1.vols := by rw [← hc2]; rfl
    obtain ⟨r2, s2⟩ := x2
    simp only at h2f h2v
    cases r2 with
    | ok u2 =>
      simp only [cacheOp_cacheBlk]
      generalize hc3 : FunsMgr.cacheOp writeBack s2 = x3
      have h3f : x3.2.files = s2.files := by rw [← hc3]; rfl
      have h3v : x3.2.vols = s2.vols := by rw [← hc3]; rfl
      obtain ⟨r3, s3⟩ := x3
      simp only at h3f h3v
      cases r3 with
      | ok u3 =>
        have hf3 : s3.files[i]? = some f := by rw [h3f, h2f, h1f]; exact hf
        have hv3 : s3.vols[vi]? = some v := by rw [h3v, h2v, h1v]; exact hv
        exact file_step i vi btw buffer fuelG fuelM written ih s3 f v cc tc hf3 hv3 (by omega) (by omega) (by omega)
          (by omega) (by omega)
      | err e => exact PEq.of_eq rfl
      | panic m => exact PEq.of_eq rfl
      | diverged => exact PEq.of_eq rfl
    | err e => exact PEq.of_eq rfl
    | panic m => exact PEq.of_eq rfl
    | diverged => exact PEq.of_eq rfl
  | err e => exact PEq.of_eq rfl
  | panic m => exact PEq.of_eq rfl
  | diverged => exact PEq.of_eq rfl
  ))

theorem tail_eq (i vi btw : Nat) (buffer : List UInt8) (hbtw : btw ≤ buffer.length) (fuelG fuelM written : Nat)
    (ih : ∀ (s0 s : Mgr) (written : Nat) (f : FileInfo) (v : VolInfo),
      s.files[i]? = some f → s.vols[vi]? = some v → written ≤ btw →
      btw - written < fuelG → btw - written < fuelM →
      PEq (FunsMgr.VolumeManager_write_loop1 s0 buffer i vi btw fuelG written s)
        (outW btw (writeLoop i vi fuelM ((buffer.take btw).drop written) s)))
    (s : Mgr) (f : FileInfo) (v : VolInfo) (b o a : Nat) (cc : Nat × Nat)
    (hf : s.files[i]? = some f) (hv : s.vols[vi]? = some v) (ho : o < 512) (ha : a = 512 - o)
    (hw : written < btw) (hG : btw - written < fuelG + 1) (hM : btw - written < fuelM + 1) :
    PEq (tailG buffer i vi btw fuelG written ((b, o, a), cc) s)
      (outW btw (tailM i vi fuelM ((buffer.take btw).drop written) (cc, (b, o, a)) s)) := by
  have hlenb : ((buffer.take btw).drop written).length = btw - written := by
    rw [List.length_drop, List.length_take]; omega
  unfold tailG tailM
  simp only [hlenb]
  have htc1 : min a (btw - written) ≤ btw - written := Nat.min_le_right _ _
  have htc2 : min a (btw - written) ≤ a := Nat.min_le_left _ _
  have htc0 : 0 < min a (btw - written) := by rw [Nat.lt_min]; omega
  generalize min a (btw - written) = tc at htc1 htc2 htc0 ⊢
  rw [src_eq buffer btw written tc htc1]
  rw [bind_apply (withVol vi _), withVol_cacheOnly vi _ (writeBlockPart_cacheOnly _ _ _ _) s v hv]
  have hsl : (List.drop written (List.take (written + tc) buffer)).length = tc := by
    rw [List.length_drop, List.length_take]; omega
  have hg : (fun block : List UInt8 => List.take o block ++ List.drop written (List.take (written + tc) buffer) ++
      List.drop (o + tc) block) = (fun blk => splice blk o (List.drop written (List.take (written + tc) buffer))) := by
    funext blk
    unfold splice
    rw [hsl]
  have hjp : CacheOnly (cacheModify (fun blk => splice blk o (List.drop written (List.take (written + tc) buffer))) >>=
      fun _ => writeBack) := CacheOnly.bind (CacheOnly.cacheModify _) fun _ => CacheOnly.writeBack
  -- the block write, both sides as the same three uses of the cache
  have hpart : ∀ (first : F Unit), CacheOnly first →
      FunsMgr.cacheOp (first >>= fun _ => (cacheModify (fun blk => splice blk o
        (List.drop written (List.take (written + tc) buffer))) >>= fun _ => writeBack)) s =
      (FunsMgr.cacheOp first >>= fun _ => FunsMgr.cacheOp (cacheModify fun block => List.take o block ++
        List.drop written (List.take (written + tc) buffer) ++ List.drop (o + tc) block) >>= fun _ =>
        FunsMgr.cacheOp writeBack) s := by
    intro first hfirst
    rw [cacheOp_bind hfirst, hg]
    simp only [bind_apply]
    rcases FunsMgr.cacheOp first s with ⟨r1, s1⟩
    cases r1 <;> simp only []
    rw [cacheOp_bind (CacheOnly.cacheModify _)]
    try rfl
  unfold writeBlockPart
  by_cases hwh : o = 0 ∧ tc = a
  · simp only [if_pos hwh, decide_eq_true hwh, if_true, get_apply, ite_apply, bind_apply]
    write_tail_steps
  · simp only [if_neg hwh, decide_eq_false hwh, Bool.false_eq_true, if_false, get_apply, ite_apply, bind_apply]
    write_tail_steps

/-! ### The loop -/

theorem write_loop_eq (i vi btw : Nat) (buffer : List UInt8) (hbtw : btw ≤ buffer.length) :
    ∀ (fuelG fuelM : Nat) (s0 s : Mgr) (written : Nat) (f : FileInfo) (v : VolInfo),
      s.files[i]? = some f → s.vols[vi]? = some v → written ≤ btw →
      btw - written < fuelG → btw - written < fuelM →
      PEq (FunsMgr.VolumeManager_write_loop1 s0 buffer i vi btw fuelG written s)
        (outW btw (writeLoop i vi fuelM ((buffer.take btw).drop written) s)) := by
  intro fuelG
  induction fuelG with
  | zero => intro _ _ _ _ _ _ _ _ _ h; omega
  | succ fuelG ih =>
    intro fuelM s0 s written f v hf hv hw hG hM
    cases fuelM with
    | zero => omega
    | succ fuelM =>
      rw [gen_form, model_form]
      simp only [bind_apply, get_apply, ite_apply]
      have hlenb : ((buffer.take btw).drop written).length = btw - written := by
        rw [List.length_drop, List.length_take]; omega
      by_cases hc : written < btw
      · have hne : ((buffer.take btw).drop written).isEmpty = false := by
          rw [List.isEmpty_eq_false_iff]
          intro h0
          rw [h0] at hlenb
          simp at hlenb
          omega
        rw [if_pos hc, hne]
        simp only [Bool.false_eq_true, if_false, getFile_ok s i f hf, bind_apply]
        obtain ⟨r, s', hG', hM', hinv⟩ := locate_eq i vi f v s hf hv
        rw [hG', hM']
        cases r with
        | ok p =>
          obtain ⟨⟨b, o, a⟩, cc⟩ := p
          obtain ⟨hf', ⟨v', hv'⟩, ho, ha⟩ := hinv _ _ rfl
          exact tail_eq i vi btw buffer hbtw fuelG fuelM written (fun s0 s w f v => ih fuelM s0 s w f v) s' f v' b o a cc
            hf' hv' ho ha hc hG hM
        | err e => exact PEq.of_eq rfl
        | panic m => exact PEq.of_eq rfl
        | diverged => exact PEq.of_eq rfl
      · have he : ((buffer.take btw).drop written).isEmpty = true := by
          rw [List.isEmpty_iff]
          apply List.eq_nil_of_length_eq_zero
          omega
        rw [if_neg hc, he]
        obtain rfl : written = btw := by omega
        exact PEq.of_eq rfl

/-! ### `write` -/

theorem or_32 (a : Nat) : a ||| 32 = if a / 32 % 2 = 1 then a else a + 32 := by
  apply Nat.eq_of_testBit_eq
  intro i
  have h32 : (32 : Nat) = 2 ^ 5 := rfl
  rw [Nat.testBit_or, h32, Nat.testBit_two_pow]
  split
  · rename_i h
    by_cases hi : 5 = i
    · subst hi
      rw [Nat.testBit_eq_decide_div_mod_eq]
      simp [h]
    · simp [hi]
  · rename_i h
    -- a = q * 64 + r with r < 32
    have hr : a % 64 < 32 := by omega
    have ha : a + 2 ^ 5 = 2 ^ 6 * (a / 64) + (a % 64 + 32) := by omega
    have hb : a = 2 ^ 6 * (a / 64) + a % 64 := by omega
    rw [ha]
    conv => lhs; rw [hb]
    by_cases hi : i < 6
    · rw [Nat.testBit_two_pow_mul_add _ (by omega), Nat.testBit_two_pow_mul_add _ (by omega)]
      simp only [hi, if_true]
      have : a % 64 + 32 = 2 ^ 5 * 1 + a % 64 := by omega
      rw [this, Nat.two_pow_add_eq_or_of_lt (by omega), Nat.testBit_or, Nat.mul_one, Nat.testBit_two_pow, Bool.or_comm]
    · rw [Nat.testBit_two_pow_mul_add _ (by omega), Nat.testBit_two_pow_mul_add _ (by omega)]
      simp only [hi, if_false]
      have : ¬ 5 = i := by omega
      simp [this]

theorem set_archive_eq (a : Nat) : (FunsMgr.Attributes_set_archive a true).2 = Attr.setArchive a := by
  unfold FunsMgr.Attributes_set_archive Attr.setArchive
  simp only [if_true]
  exact or_32 a

open FunsMgr in
/-- The last part of the generated `write`: the loop and the report of a buffer cut short at the maximum file size. -/
def endG (s : Mgr) (fuel : Nat) (buffer : List UInt8) (i volume_idx : Nat) : M Unit :=
  ((getFile i) >>= fun _t117 =>
  (let bytes_until_max := (4294967295 - _t117.currentOffset); (let bytes_to_write := (min buffer.length bytes_until_max); (let written := 0; ((VolumeManager_write_loop1 s buffer i volume_idx bytes_to_write fuel written) >>= fun _t144 =>
  (let written := _t144; (M.get >>= fun s =>
  ((if (bytes_to_write < buffer.length)
  then (M.fail Err.DiskFull)
  else (pure ())) >>= fun _ =>
  (pure ())))))))))

open FunsMgr in
/-- The part of the generated `write` after the first cluster has been made sure of. -/
def restG (fuel : Nat) (buffer : List UInt8) (i : Nat) : M Unit :=
  ((getFile i) >>= fun _t112 =>
  ((VolumeManagerData_get_volume_by_id _t112.rawVolume) >>= fun volume_idx =>
  ((getFile i) >>= fun _t113 =>
  ((if (_t113.curCluster < _t113.entry.cluster)
  then ((getFile i) >>= fun _t114 =>
  ((modifyFile i fun _t115 => { _t115 with curClusterOff := ((0, _t114.entry.cluster)).1, curCluster := ((0, _t114.entry.cluster)).2 }) >>= fun _ =>
  (M.get >>= fun s =>
  (pure ()))))
  else (pure ())) >>= fun _ =>
  (M.get >>= fun s =>
  (endG s fuel buffer i volume_idx))))))

open FunsMgr in
theorem gen_write_form (fuel file : Nat) (buffer : List UInt8) :
    FunsMgr.VolumeManager_write fuel file buffer =
    M.get >>= fun s =>
    (M.get >>= fun s =>
    (if s.locked = true
    then M.fail Err.LockError
    else ((VolumeManagerData_get_file_by_id file) >>= fun file_idx =>
    ((getFile file_idx) >>= fun _t100 =>
    ((VolumeManagerData_get_volume_by_id _t100.rawVolume) >>= fun volume_idx =>
    ((getFile file_idx) >>= fun _t101 =>
    ((if (_t101.mode = Mode.ReadOnly)
    then (M.fail Err.ReadOnly)
    else (pure ())) >>= fun _ =>
    ((modifyFile file_idx fun _t103 => { _t103 with dirty := true }) >>= fun _ =>
    (M.get >>= fun s =>
    (((getFile file_idx) >>= fun _t104 =>
    let _t105 := (Attributes_set_archive _t104.entry.attributes true); ((setFile file_idx ({ _t104 with entry := { _t104.entry with attributes := _t105.2 } })) >>= fun _ =>
    pure _t105.1)) >>= fun _ =>
    (M.get >>= fun s =>
    ((modifyFile file_idx fun _t106 => { _t106 with entry := { _t106.entry with mtime := s.clock } }) >>= fun _ =>
    (M.get >>= fun s =>
    ((getFile file_idx) >>= fun _t107 =>
    ((if (_t107.entry.cluster < 2)
    then (((withVol volume_idx (Fat.allocCluster none false)) >>= fun _t109 =>
    (pure _t109)) >>= fun _t108 =>
    (M.get >>= fun s =>
    ((modifyFile file_idx fun _t110 => { _t110 with entry := { _t110.entry with cluster := _t108 } }) >>= fun _ =>
    (M.get >>= fun s =>
    (M.get >>= fun s =>
    (pure ()))))))
    else (pure ())) >>= fun _ =>
    (M.get >>= fun s =>
    (restG fuel buffer file_idx))))))))))))))))) := rfl

/-- The last part of the model's `write`. -/
def endM (i volIdx : Nat) (buffer : Bytes) : M Unit := do
  let f ← getFile i
  let bytesUntilMax := MAX_FILE_SIZE - f.currentOffset
  let bytesToWrite := min buffer.length bytesUntilMax
  writeLoop i volIdx (bytesToWrite + 1) (buffer.take bytesToWrite)
  if bytesToWrite < buffer.length then M.fail .DiskFull else pure ()

/-- The same part of the model's `write`. -/
def restM (raw i : Nat) (buffer : Bytes) : M Unit := do
  let volIdx ← getVolumeById raw
  modifyFile i fun f =>
    if f.curCluster < f.entry.cluster then { f with curClusterOff := 0, curCluster := f.entry.cluster } else f
  endM i volIdx buffer

theorem model_write_form (file : Nat) (buffer : Bytes) :
    Model.write file buffer = (do
      let fileIdx ← getFileById file
      let f ← getFile fileIdx
      let volIdx ← getVolumeById f.rawVolume
      if f.mode = .ReadOnly then M.fail .ReadOnly else
      let s0 ← M.get
      modifyFile fileIdx fun f => { f with dirty := true, entry := { f.entry with attributes := Attr.setArchive f.entry.attributes, mtime := s0.clock } }
      if f.entry.cluster < RESERVED_ENTRIES then do
        let c ← withVol volIdx (Fat.allocCluster none false)
        modifyFile fileIdx fun f => { f with entry := { f.entry with cluster := c } }
      restM f.rawVolume fileIdx buffer) := rfl

/-- A borrowed `RefCell` (a directory callback is running): `LockError`, nothing changes. -/
theorem write_locked (fuel file : Nat) (buffer : List UInt8) (s : Mgr) (hl : s.locked = true) :
    FunsMgr.VolumeManager_write fuel file buffer s = (.err .LockError, s) := by
  unfold FunsMgr.VolumeManager_write
  simp only [bind_apply, get_apply, ite_apply, hl, if_true, fail_apply]

theorem rest_eq (fuel i raw : Nat) (buffer : List UInt8) (s5 : Mgr) (f5 : FileInfo) (hf5 : s5.files[i]? = some f5)
    (hraw : f5.rawVolume = raw) (hfuel : buffer.length < fuel) :
    PEq (restG fuel buffer i s5) (restM raw i buffer s5) := by
  unfold restG restM
  simp only [bind_apply, get_apply, getFile_ok _ i f5 hf5, hraw, C08GenM.get_volume_by_id_eq, ite_apply, pure_apply]
  have hs6 := getVolumeById_state raw s5
  rcases hgv : getVolumeById raw s5 with ⟨r, s6⟩
  rw [hgv] at hs6
  simp only at hs6
  subst hs6
  cases r with
  | ok vi =>
    obtain ⟨v, hv⟩ := getVolumeById_valid hgv
    simp only [getFile_ok _ i f5 hf5, modifyFile_ok _ i _ f5 hf5]
    -- the loop and the final report
    have hstep : ∀ (s0 s7 : Mgr) (f7 : FileInfo), s7.files[i]? = some f7 → s7.vols[vi]? = some v →
        PEq (endG s0 fuel buffer i vi s7) (endM i vi buffer s7) := by
      intro s0 s7 f7 hf7 hv7
      unfold endG endM
      simp only [bind_apply, get_apply, pure_apply]
      simp only [getFile_ok _ i f7 hf7]
      have hmax : MAX_FILE_SIZE = 4294967295 := rfl
      rw [hmax]
      generalize hbtw' : min buffer.length (4294967295 - f7.currentOffset) = btw
      have hb : btw ≤ buffer.length := by rw [← hbtw']; exact Nat.min_le_left _ _
      have h := write_loop_eq i vi btw buffer hb fuel (btw + 1) s0 s7 0 f7 v hf7 hv7 (Nat.zero_le _) (by omega) (by omega)
      rw [List.drop_zero] at h
      rcases hG : FunsMgr.VolumeManager_write_loop1 s0 buffer i vi btw fuel 0 s7 with ⟨rg, sg⟩
      rcases hM : writeLoop i vi (btw + 1) (List.take btw buffer) s7 with ⟨rm, sm⟩
      rw [hG, hM] at h
      obtain ⟨h1, h2⟩ := h
      simp only [outW] at h1 h2
      cases rm with
      | ok u =>
        subst h1
        have := h2 (.inl ⟨_, rfl⟩)
        subst this
        by_cases hlt : btw < buffer.length
        · simp only [ite_apply, fail_apply, pure_apply, if_pos hlt]
          exact PEq.of_eq rfl
        · simp only [ite_apply, fail_apply, pure_apply, if_neg hlt]
          exact PEq.of_eq rfl
      | err e =>
        subst h1
        have := h2 (.inr ⟨_, rfl⟩)
        subst this
        exact PEq.of_eq rfl
      | panic m => subst h1; exact PEq.panic m _ _
      | diverged => subst h1; exact PEq.diverged _ _
    by_cases hrw : f5.curCluster < f5.entry.cluster
    · simp only [if_pos hrw, bind_apply, get_apply, pure_apply, getFile_ok _ i f5 hf5, modifyFile_ok _ i _ f5 hf5]
      exact hstep _ _ _ (setF_files_get _ i _ _ hf5) hv
    · simp only [if_neg hrw, setF_self _ i f5 hf5]
      exact hstep _ _ _ hf5 hv
  | err e => exact PEq.of_eq rfl
  | panic m => exact PEq.of_eq rfl
  | diverged => exact PEq.of_eq rfl

theorem write_eq (fuel file : Nat) (buffer : List UInt8) (s : Mgr) (hl : s.locked = false)
    (hfuel : buffer.length < fuel) :
    PEq (FunsMgr.VolumeManager_write fuel file buffer s) (Model.write file buffer s) := by
  rw [gen_write_form, model_write_form]
  simp only [bind_apply, get_apply, ite_apply, hl, Bool.false_eq_true, if_false, C08GenM.get_file_by_id_eq,
    C08GenM.get_volume_by_id_eq]
  have hs1 := getFileById_state file s
  rcases hg : getFileById file s with ⟨r, s1⟩
  rw [hg] at hs1
  simp only at hs1
  subst hs1
  cases r with
  | ok i =>
    obtain ⟨f, hf⟩ := getFileById_valid hg
    simp only [getFile_ok _ i f hf]
    have hs2 := getVolumeById_state f.rawVolume s1
    rcases hgv : getVolumeById f.rawVolume s1 with ⟨r2, s2⟩
    rw [hgv] at hs2
    simp only at hs2
    subst hs2
    cases r2 with
    | ok vi =>
      obtain ⟨v, hv⟩ := getVolumeById_valid hgv
      simp only [getFile_ok _ i f hf]
      by_cases hm : f.mode = Mode.ReadOnly
      · simp only [hm, if_true, fail_apply]
        exact PEq.of_eq rfl
      · simp only [hm, if_false, pure_apply, bind_apply, get_apply, modifyFile_ok _ i _ f hf,
          getFile_setF s2 i f _ hf, modifyFile_setF s2 i _ f _ hf, setFile_apply, setF_setF, set_archive_eq, setF_clock]
        generalize hs3 : setF s2 i _ = s3
        obtain ⟨f3, hf3, hraw3⟩ : ∃ f3, s3.files[i]? = some f3 ∧ f3.rawVolume = f.rawVolume := by
          rw [← hs3]; exact ⟨_, setF_files_get _ _ _ _ hf, rfl⟩
        have hv3 : s3.vols[vi]? = some v := by rw [← hs3]; exact hv
        have hres : RESERVED_ENTRIES = 2 := rfl
        rw [hres]
        by_cases hcl : f.entry.cluster < 2
        · rw [if_pos hcl, if_pos hcl, withVol_runV vi _ s3 v hv3]
          rcases Fat.allocCluster none false (fsOf s3 v) with ⟨ra, fsA⟩
          have hf4 : (updV s3 vi v fsA).files[i]? = some f3 := hf3
          cases ra with
          | ok c =>
            simp only [modifyFile_ok _ i _ f3 hf4]
            exact rest_eq fuel i f.rawVolume buffer _ _ (setF_files_get _ i _ _ hf4) hraw3 hfuel
          | err e => exact PEq.of_eq rfl
          | panic m => exact PEq.of_eq rfl
          | diverged => exact PEq.of_eq rfl
        · rw [if_neg hcl, if_neg hcl]
          exact rest_eq fuel i f.rawVolume buffer s3 f3 hf3 hraw3 hfuel
    | err e => exact PEq.of_eq rfl
    | panic m => exact PEq.of_eq rfl
    | diverged => exact PEq.of_eq rfl
  | err e => exact PEq.of_eq rfl
  | panic m => exact PEq.of_eq rfl
  | diverged => exact PEq.of_eq rfl

end Sdmmc.Props.C01GenWrite
