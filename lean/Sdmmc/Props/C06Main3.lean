/-
C06 — the START CLUSTER in the API-layer listing (closes the gap left by `Props/C06Main2.lean`).

`C06Main2.api_listing_is_raw_listing` joined the API layer and the raw layer of `C06Main` for
`iterate_dir` THROUGH `view` (name, attributes, size, time stamps): the refinement theorem it used
drops the start cluster.  Here the entries themselves are identified:

`api_listing_exact` — in every state with the volume invariant (`VolInv s gh`, with its abstract
counterpart `Abs s gh a`: hence before and after any history, `C06Main.Api.history`), for every open
directory handle `d` (`dirOf a d = .ok od`): the API call `iterate_dir` answers `Ok` with EXACTLY
`C06.listing ft (dirSlots gh.vol disk gh.G od.dir)` — the specification listing of `Props/C06.lean`
over the raw 32-byte slots of the directory on the medium: every live slot that is not a long-name
fragment (by the crate's test, finding F3), once, in on-disk order, nothing past the end marker,
decoded at the FAT offsets (`C06.decode`): name, attributes, size, time stamps, START CLUSTER (both
halves on FAT32; a directory entry with cluster 0 = the root), and the entry's position (block,
offset).  No hypothesis beyond `C06Main.Api`'s (`od.dir ∈ dirIds` is not needed).

With it the listing clause of C06 is ONE layer.  Still as in `C06Main`: F3 (mask 0x0F vs 0x3F) and,
for lookup over several blocks, F2 (clean tail) — `Props/C06.lean`, `Example`.
-/
import Sdmmc.Lemmas.MainK06b
import Sdmmc.Props.C06Main2

namespace Sdmmc.Props.C06Main3
open Sdmmc.Model Sdmmc.Model.Fat
open Sdmmc.Spec.Volume (VolInv Ghost)
open Sdmmc.Spec.AbsFs (AbsFs view OpenDir)
open Sdmmc.Lemmas.AbsFs (Abs)

/-- **`iterate_dir` answers exactly the specification listing of the directory's raw slots** — full
entries, start cluster included. -/
theorem api_listing_exact {s : Mgr} {gh : Ghost} {a : AbsFs} (hI : VolInv s gh) (hA : Abs s gh a)
    (d : Nat) (od : OpenDir) (hd : Spec.AbsFs.dirOf a d = .ok od) :
    (step s (.list d)).2.result =
      .ok (.entries (C06.listing gh.vol.fatType (Spec.Volume.dirSlots gh.vol s.dev.disk gh.G od.dir))) := by
  rw [Lemmas.MHoare.step_unlocked s _ hI.unlocked]
  show (runOp (.list d) (Lemmas.MHoare.resetLogs s)).1 = _
  rw [show runOp (.list d) (Lemmas.MHoare.resetLogs s) =
    (iterateDir d >>= fun es => pure (Payload.entries es)) (Lemmas.MHoare.resetLogs s) from rfl, Lemmas.AbsFs.run_map]
  have h := Lemmas.AbsFs.iterateDir_exact d (Lemmas.VolApi.volInv_resetLogs hI) (Lemmas.AbsFs.abs_resetLogs hA) hd
  simp only [h]
  rfl

/-- … in particular each entry carries the start cluster its slot stores: the `i`-th entry reported
is the decoding of the `i`-th live short slot. -/
theorem api_entry_is_decoded_slot {s : Mgr} {gh : Ghost} {a : AbsFs} (hI : VolInv s gh) (hA : Abs s gh a)
    (d : Nat) (od : OpenDir) (hd : Spec.AbsFs.dirOf a d = .ok od) :
    ∃ es, (step s (.list d)).2.result = .ok (.entries es) ∧
      es = ((C06.live (Spec.Volume.dirSlots gh.vol s.dev.disk gh.G od.dir)).filter fun x => !C06.isFragment x.2.2).map
        (C06.decode gh.vol.fatType) :=
  ⟨_, api_listing_exact hI hA d od hd, rfl⟩

namespace Example

/-- On the example volume `VolExample.mgr1` (root = handle 2): evaluated, the root listing reports the
start clusters stored in the slots. -/
example : (match (step Lemmas.VolExample.mgr1 (.list 2)).2.result with
    | .ok (.entries es) => es.map fun e => (e.attributes, e.cluster, e.size)
    | _ => []) ≠ [] := by decide +kernel

end Example

end Sdmmc.Props.C06Main3
