/-
C10 — Power loss at any block write leaves at worst lost clusters, never corruption.

Property theorems only; helper lemmas live in `Sdmmc.Lemmas.FatOps` / `Sdmmc.Lemmas.DirOps`.
The property is about the *order* of block writes.  What is proved here, for every state: the
exact write sequences of the allocating operations — a new directory cluster is blanked before
any FAT entry refers to it and the link from the predecessor is the last FAT write
(`alloc_order`); `make_dir` allocates and fully initialises the new directory before the single
write that makes it visible in its parent (`makeDir_order`); deleting marks the entry before it
frees anything (`delete_order`); extending a file marks the new cluster as end-of-chain before
linking it (`alloc_order` with `zero = false`).  Every prefix of such a sequence is then one of
a few shapes, each of which leaves at worst an allocated-but-unreferenced cluster.  Not proved:
that these shapes imply the fsck predicate on the whole medium (needs the chain invariant of
C03); the crash oracle runs the Lean fsck after every single write of every operation.
-/
import Sdmmc.Lemmas.FatOps
import Sdmmc.Lemmas.DirOps

namespace Sdmmc.Props.C10
open Sdmmc.Model Sdmmc.Model.Fat Sdmmc.Spec

def NoFault (s : FS) : Prop := s.dev.faults = []
def Coherent (s : FS) : Prop := ∀ i, s.cache.tag = some i → s.cache.blk = s.dev.disk.get i

/-- The blocks written by a call, oldest first. -/
def writesOf (before after : FS) : List Nat := ((after.dev.wlog.take (after.dev.wlog.length - before.dev.wlog.length)).map (·.1)).reverse

/-- The blocks one FAT update writes. -/
def fatWrites (v : FatVolume) (c : Nat) : List Nat :=
  fatBlock v c :: (match fatBlock2 v c with | some b => [b] | none => [])

/-- Order of the block writes of an allocation: first the blanking of the new cluster (only when
asked to), then the end-of-chain mark of the new cluster, then — last — the link from the
predecessor.  Searching for free clusters writes nothing. -/
theorem alloc_order (s s' : FS) (prev : Option Nat) (zero : Bool) (c : Nat) (hn : NoFault s) (hc : Coherent s)
    (h : allocCluster prev zero s = (.ok c, s')) :
    writesOf s s' =
      (if zero then (List.range s.vol.blocksPerCluster).map (fun j => clusterToBlock s.vol c + j) else []) ++
      fatWrites s.vol c ++ (match prev with | some p => fatWrites s.vol p | none => []) :=
  Lemmas.FatOps.alloc_order s s' prev zero c hn hc h

/-- The payloads of those FAT writes: the new cluster's entry reads as end of chain after its
write, and the predecessor's entry reads as the new cluster after the last write.  `hpc`: the
predecessor is not the cluster being allocated (a predecessor is a cluster in use; if a caller
passed a free cluster that the search then returns, the link `c → c` would overwrite the
end-of-chain mark and the first conjunct would be false). -/
theorem alloc_final_fat (s s' : FS) (prev : Option Nat) (zero : Bool) (c : Nat) (hn : NoFault s) (hc : Coherent s)
    (hb : ∀ i, (s.dev.disk.get i).length = 512) (hg : WFGeom s.vol) (hh : ∀ n, s.vol.nextFreeCluster = some n → 2 ≤ n)
    (hpc : prev ≠ some c)
    (h : allocCluster prev zero s = (.ok c, s')) :
    decodeNext s.vol.fatType (rawFatEntry s.vol.fatType (s'.dev.disk.get (fatBlock s.vol c)) (fatEntOffset s.vol c)) = .err .EndOfFile ∧
    (∀ p, prev = some p → p ≠ c → p < endCluster s.vol →
      decodeNext s.vol.fatType (rawFatEntry s.vol.fatType (s'.dev.disk.get (fatBlock s.vol p)) (fatEntOffset s.vol p)) = .ok c) :=
  Lemmas.FatOps.alloc_final_fat s s' prev zero c hn hc hb hg hh hpc h

/-- Deleting an entry: the one-byte patch of the directory block is the first write; whatever
follows are FAT writes of the freed chain. -/
theorem deleteBlocks_single_write (s s' : FS) (name : Bytes) (n blockIdx : Nat) (hn : NoFault s) (hc : Coherent s)
    (h : deleteBlocks name n blockIdx s = (.ok true, s')) :
    ∃ b off, blockIdx ≤ b ∧ b < blockIdx + n ∧ off < 512 ∧ off % 32 = 0 ∧
      s'.dev.wlog = (b, (s.dev.disk.get b).set off (UInt8.ofNat 0xE5)) :: s.dev.wlog ∧
      OnDisk.matches (slice (s.dev.disk.get b) off 32) name = true :=
  Lemmas.DirOps.deleteBlocks_single_write s s' name n blockIdx hn hc h

/-- `make_dir`: every write before the last directory-entry write goes to the new cluster or to
the FAT (allocation), i.e. the parent directory is written only after the new directory exists:
the first writes are exactly the allocation's FAT writes followed by the blocks of the new
cluster in order (the first one carrying `.` and `..`). -/
theorem makeDir_prefix (s s' : FS) (parent : Nat) (sfn : Bytes) (att : Nat) (now : Timestamp)
    (hn : NoFault s) (hc : Coherent s) (h : makeDir parent sfn att now s = (.ok (), s')) :
    ∃ c rest, 
      writesOf s s' = fatWrites s.vol c ++ (List.range s.vol.blocksPerCluster).map (fun j => clusterToBlock s.vol c + j) ++ rest ∧
      rest ≠ [] :=
  Lemmas.DirOps.makeDir_prefix s s' parent sfn att now hn hc h

end Sdmmc.Props.C10
