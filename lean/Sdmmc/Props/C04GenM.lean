/-
C04 / C03, tie to the source text, effectful level: `FatVolume::cluster_to_block`, `next_cluster`,
`update_fat` and `update_info_sector` (fat/volume.rs), machine-translated WHOLE into the model's `F`
monad (`Sdmmc.Gen.FunsM`: cache reads, the duplicate write to the second FAT, the info-sector
write), are equal to the hand-written `Model/Fat.lean` as functions `FS → Res α × FS`.
-/
import Sdmmc.Gen.FunsM
import Sdmmc.Model.Fat
import Sdmmc.Lemmas.GenBits
import Sdmmc.Lemmas.FBasic

set_option linter.unusedSimpArgs false

namespace Sdmmc.Props.C04GenM

open Sdmmc Sdmmc.Model Sdmmc.Model.Fat Sdmmc.Gen Sdmmc.Lemmas.GenBits
open Sdmmc.Lemmas.FBasic (bind_apply pure_apply getVol_apply)

/-- `FatVolume::cluster_to_block` as a function of the volume record: equal to the model. -/
theorem cluster_to_block_eq : FunsM.FatVolume_cluster_to_block = clusterToBlock := by
  funext v cluster
  unfold FunsM.FatVolume_cluster_to_block clusterToBlock FunsM.BlockIdx_add FunsM.BlockCount_add
  rw [show CLUSTER_ROOT_DIR = 4294967292 from rfl]
  cases v.fatType
  · by_cases hc : cluster = 4294967292
    · simp only [hc, if_true]
    · simp only [hc, if_false]
  · by_cases hc : cluster = 4294967292
    · simp only [hc, if_true]
    · simp only [hc, if_false]

theorem decode16 (raw : Nat) (hlt : raw < 65536) (s1 : FS) :
    (if raw = 65527 then F.fail Err.BadCluster
      else if 65528 ≤ raw ∧ raw ≤ 65535 then F.fail Err.EndOfFile else pure raw : F Nat) s1 =
    (if raw = 65527 then Res.err Err.BadCluster else if raw ≥ 65528 then Res.err Err.EndOfFile else Res.ok raw, s1) := by
  by_cases h1 : raw = 65527
  · simp [h1, F.fail]
  by_cases h2 : raw ≥ 65528
  · have h2' : 65528 ≤ raw ∧ raw ≤ 65535 := ⟨h2, by omega⟩
    simp [h1, h2, h2', F.fail]
  · have h2' : ¬ (65528 ≤ raw ∧ raw ≤ 65535) := fun hh => h2 hh.1
    simp [h1, h2, h2', pure_apply]

theorem decode32 (f : Nat) (hlt : f < 268435456) (s1 : FS) :
    (if f = 0 then F.fail Err.UnterminatedFatChain
      else if f = 268435447 then F.fail Err.BadCluster
      else if f = 1 ∨ 268435448 ≤ f ∧ f ≤ 268435455 then F.fail Err.EndOfFile else pure f : F Nat) s1 =
    (if f = 0 then Res.err Err.UnterminatedFatChain
      else if f = 268435447 then Res.err Err.BadCluster
      else if f = 1 ∨ f ≥ 268435448 then Res.err Err.EndOfFile else Res.ok f, s1) := by
  by_cases h0 : f = 0
  · simp [h0, F.fail]
  by_cases h1 : f = 268435447
  · simp [h1, F.fail]
  by_cases h2 : f = 1 ∨ f ≥ 268435448
  · have h2' : f = 1 ∨ (268435448 ≤ f ∧ f ≤ 268435455) := by omega
    simp [h0, h1, h2, h2', F.fail]
  · have h2' : ¬ (f = 1 ∨ (268435448 ≤ f ∧ f ≤ 268435455)) := by omega
    simp [h0, h1, h2, h2', pure_apply]

/-- The FAT entry is read from the same block at the same offset, and classified the same way. -/
theorem next_cluster_eq_of_le (cluster : Nat) (h : cluster ≤ U32_MAX / 4) :
    FunsM.FatVolume_next_cluster cluster = nextCluster cluster := by
  funext s
  have h' : ¬ cluster > 1073741823 := by unfold U32_MAX at h; omega
  have h'' : ¬ cluster > U32_MAX / 4 := by omega
  unfold FunsM.FatVolume_next_cluster nextCluster
  simp only [bind_apply, pure_apply, getVol_apply, h', h'', if_false]
  rcases hft : s.vol.fatType
  · simp only [bind_apply, FunsM.BlockIdx_add, FunsM.BlockCount_offset_bytes]
    have hb : s.vol.lbaStart + (s.vol.fatStart + cluster * 2 / 512) = fatBlock s.vol cluster := by
      unfold fatBlock; rw [hft]; rfl
    have ho : cluster * 2 % 512 = fatEntOffset s.vol cluster := by
      unfold fatEntOffset; rw [hft]; rfl
    rw [hb, ho]
    rcases hcr : cacheRead (fatBlock s.vol cluster) s with ⟨r, s1⟩
    cases r <;> simp only []
    simp only [cacheBlk, decodeNext, rawFatEntry, F.lift, F.fail, pure_apply]
    have e : FunsM.rdByte s1.cache.blk (fatEntOffset s.vol cluster) +
        256 * FunsM.rdByte s1.cache.blk (fatEntOffset s.vol cluster + 1) =
        readU16 s1.cache.blk (fatEntOffset s.vol cluster) := rfl
    rw [e]
    have hlt : readU16 s1.cache.blk (fatEntOffset s.vol cluster) < 65536 := by
      unfold readU16 byteAt
      have := UInt8.toNat_lt (s1.cache.blk.getD (fatEntOffset s.vol cluster) 0)
      have := UInt8.toNat_lt (s1.cache.blk.getD (fatEntOffset s.vol cluster + 1) 0)
      omega
    exact decode16 _ hlt s1
  · simp only [bind_apply, FunsM.BlockIdx_add, FunsM.BlockCount_offset_bytes]
    have hb : s.vol.lbaStart + (s.vol.fatStart + cluster * 4 / 512) = fatBlock s.vol cluster := by
      unfold fatBlock; rw [hft]; rfl
    have ho : cluster * 4 % 512 = fatEntOffset s.vol cluster := by
      unfold fatEntOffset; rw [hft]; rfl
    rw [hb, ho]
    rcases hcr : cacheRead (fatBlock s.vol cluster) s with ⟨r, s1⟩
    cases r <;> simp only []
    simp only [cacheBlk, decodeNext, rawFatEntry, F.lift, F.fail, pure_apply, and_fff_ffff]
    have e : FunsM.rdByte s1.cache.blk (fatEntOffset s.vol cluster) +
        256 * FunsM.rdByte s1.cache.blk (fatEntOffset s.vol cluster + 1) +
        65536 * FunsM.rdByte s1.cache.blk (fatEntOffset s.vol cluster + 2) +
        16777216 * FunsM.rdByte s1.cache.blk (fatEntOffset s.vol cluster + 3) =
        readU32 s1.cache.blk (fatEntOffset s.vol cluster) := rfl
    rw [e]
    have hlt : readU32 s1.cache.blk (fatEntOffset s.vol cluster) % 268435456 < 268435456 := Nat.mod_lt _ (by decide)
    exact decode32 _ hlt s1

/-- **`next_cluster` whole**, every cluster id and every state: above the guard `u32::MAX / 4` both
panic (the translation renders `panic!("next_cluster called on invalid cluster {:x?}", ..)` by the
literal part of its message) and leave the state alone; below it the FAT entry is read from the same
block at the same offset and classified the same way. -/
theorem next_cluster_eq (cluster : Nat) : FunsM.FatVolume_next_cluster cluster = nextCluster cluster := by
  by_cases h : cluster ≤ U32_MAX / 4
  · exact next_cluster_eq_of_le cluster h
  · funext s
    have h1 : cluster > U32_MAX / 4 := by omega
    have h' : cluster > 1073741823 := by unfold U32_MAX at h1; omega
    unfold FunsM.FatVolume_next_cluster nextCluster
    simp only [bind_apply, getVol_apply, h', h1, if_true, F.panic]

theorem readU32_lt (b : Bytes) (off : Nat) : readU32 b off < 4294967296 := by
  unfold readU32 byteAt
  have := UInt8.toNat_lt (b.getD off 0)
  have := UInt8.toNat_lt (b.getD (off + 1) 0)
  have := UInt8.toNat_lt (b.getD (off + 2) 0)
  have := UInt8.toNat_lt (b.getD (off + 3) 0)
  omega

/-- The top-nibble merge of `update_fat` on a FAT32 entry. -/
theorem merge32 (existing entry : Nat) (h : existing < 4294967296) :
    (existing &&& 4026531840) ||| (entry &&& 268435455) = existing / 268435456 * 268435456 + entry % 268435456 := by
  have h1 : existing &&& 4026531840 = existing / 2 ^ 28 * 2 ^ 28 := and_high existing 28 4 h
  simp only [h1, and_fff_ffff]
  exact or_eq_add _ _ 28 (Nat.mod_lt _ (by decide))

/-- The patched FAT block, FAT16. -/
theorem patch16 (blk : Block) (off nv : Nat) :
    (let entry := (if nv = 4294967286 then 65526 else if nv = 4294967287 then 65527 else if nv = 0 then 0
        else if nv = 4294967295 then 65535 else (nv % 65536));
      List.take off blk ++ [UInt8.ofNat (entry % 256), UInt8.ofNat (entry / 256 % 256)] ++ List.drop ((off + 1) + 1) blk) =
    patchFatBlock .fat16 blk off nv := by
  unfold patchFatBlock splice leU16
  simp only [List.length_cons, List.length_nil, Nat.add_assoc]
  rfl

/-- The patched FAT block, FAT32. -/
theorem patch32 (blk : Block) (off nv : Nat) :
    (let entry := (if nv = 4294967286 then 268435446 else if nv = 4294967287 then 268435447 else if nv = 0 then 0 else nv);
      let existing := (FunsM.rdByte blk off + 256 * FunsM.rdByte blk (off + 1) + 65536 * FunsM.rdByte blk (off + 2) +
        16777216 * FunsM.rdByte blk (off + 3));
      let new := ((existing &&& 4026531840) ||| (entry &&& 268435455));
      List.take off blk ++ [UInt8.ofNat (new % 256), UInt8.ofNat (new / 256 % 256), UInt8.ofNat (new / 65536 % 256),
        UInt8.ofNat (new / 16777216 % 256)] ++ List.drop ((off + 3) + 1) blk) =
    patchFatBlock .fat32 blk off nv := by
  unfold patchFatBlock splice leU32
  have e : FunsM.rdByte blk off + 256 * FunsM.rdByte blk (off + 1) + 65536 * FunsM.rdByte blk (off + 2) +
      16777216 * FunsM.rdByte blk (off + 3) = readU32 blk off := rfl
  simp only [e, merge32 _ _ (readU32_lt blk off)]
  simp only [List.length_cons, List.length_nil, Nat.reduceAdd, Nat.add_assoc off 3 1]
  rfl

/-- `update_fat` whole: the entry is patched in the cached FAT block and written back, to both FATs
when the volume has a second one. -/
theorem update_fat_eq (cluster newValue : Nat) :
    FunsM.FatVolume_update_fat cluster newValue = updateFat cluster newValue := by
  funext s
  unfold FunsM.FatVolume_update_fat updateFat
  simp only [bind_apply, pure_apply, getVol_apply]
  rcases hft : s.vol.fatType
  · have hb : FunsM.BlockIdx_add s.vol.lbaStart (FunsM.BlockCount_offset_bytes s.vol.fatStart (cluster * 2)) =
        fatBlock s.vol cluster := by unfold fatBlock; rw [hft]; rfl
    have ho : cluster * 2 % 512 = fatEntOffset s.vol cluster := by unfold fatEntOffset; rw [hft]; rfl
    have h2 : fatBlock2 s.vol cluster = s.vol.secondFatStart.map fun st =>
        FunsM.BlockIdx_add s.vol.lbaStart (FunsM.BlockCount_offset_bytes st (cluster * 2)) := by
      unfold fatBlock2; rw [hft]; rfl
    rw [h2]
    rcases hs : s.vol.secondFatStart with _ | st
    all_goals
      simp only [bind_apply, pure_apply, hb, ho, Option.map]
      rcases hcr : cacheRead (fatBlock s.vol cluster) s with ⟨r, s1⟩
      cases r <;> simp only []
      simp only [cacheBlk, cacheModify, bind_apply, pure_apply, patch16]
      first
        | (rcases writeBack _ with ⟨r2, s2⟩; cases r2 <;> rfl)
        | (rcases writeBackWithDuplicate _ _ with ⟨r2, s2⟩; cases r2 <;> rfl)
  · have hb : FunsM.BlockIdx_add s.vol.lbaStart (FunsM.BlockCount_offset_bytes s.vol.fatStart (cluster * 4)) =
        fatBlock s.vol cluster := by unfold fatBlock; rw [hft]; rfl
    have ho : cluster * 4 % 512 = fatEntOffset s.vol cluster := by unfold fatEntOffset; rw [hft]; rfl
    have h2 : fatBlock2 s.vol cluster = s.vol.secondFatStart.map fun st =>
        FunsM.BlockIdx_add s.vol.lbaStart (FunsM.BlockCount_offset_bytes st (cluster * 4)) := by
      unfold fatBlock2; rw [hft]; rfl
    rw [h2]
    rcases hs : s.vol.secondFatStart with _ | st
    all_goals
      simp only [bind_apply, pure_apply, hb, ho, Option.map]
      rcases hcr : cacheRead (fatBlock s.vol cluster) s with ⟨r, s1⟩
      cases r <;> simp only []
      simp only [cacheBlk, cacheModify, bind_apply, pure_apply, patch32]
      first
        | (rcases writeBack _ with ⟨r2, s2⟩; cases r2 <;> rfl)
        | (rcases writeBackWithDuplicate _ _ with ⟨r2, s2⟩; cases r2 <;> rfl)

theorem splice4 (b : Block) (off : Nat) (x : Nat) (hi : Nat) (h : hi = off + 4) :
    List.take off b ++ [UInt8.ofNat (x % 256), UInt8.ofNat (x / 256 % 256), UInt8.ofNat (x / 65536 % 256),
      UInt8.ofNat (x / 16777216 % 256)] ++ List.drop hi b = splice b off (leU32 x) := by
  subst h
  unfold splice leU32
  rfl

/-- `update_info_sector` whole: nothing on FAT16 and when both numbers are unknown; otherwise the
info sector is read, the known numbers are patched in at 488 / 492, and the block is written back. -/
theorem update_info_sector_eq : FunsM.FatVolume_update_info_sector = updateInfoSector := by
  funext s
  unfold FunsM.FatVolume_update_info_sector updateInfoSector
  simp only [bind_apply, pure_apply, getVol_apply]
  rcases hft : s.vol.fatType
  · rfl
  · simp only []
    rcases hfc : s.vol.freeClustersCount with _ | fc <;> rcases hnf : s.vol.nextFreeCluster with _ | nf
    all_goals
      simp only [Option.isNone, and_self, and_true, and_false, if_true, if_false, reduceCtorEq, Bool.false_eq_true,
        bind_apply, pure_apply]
    all_goals first
      | rfl
      | (rcases hcr : cacheRead s.vol.infoLocation s with ⟨r, s1⟩
         cases r <;> simp only []
         simp only [cacheBlk, cacheModify, bind_apply, pure_apply,
           splice4 _ 488 _ 492 rfl, splice4 _ 492 _ 496 rfl, INFO_WRITE_FREE_LO, INFO_WRITE_NEXT_LO]
         rcases writeBack _ with ⟨r2, s2⟩
         cases r2 <;> rfl)

end Sdmmc.Props.C04GenM
