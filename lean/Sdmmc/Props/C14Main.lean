/-
C14 — headline theorem.

Property C14, `statement` (verbatim):
  "Every command the driver sends is a well-formed six-byte frame (start and transmission bits,
  command index, big-endian argument, correct CRC-7, end bit) and is sent only when the card is
  able to accept it: not while the card signals busy, application commands directly preceded by
  the application-command prefix, data commands only after a completed identification sequence
  in the order the specification prescribes. Data blocks carry the right start token, exactly 512
  payload bytes and two CRC bytes (valid when CRC is on), multi-block reads are ended by
  stop-transmission and multi-block writes by the stop token."
`quantifier.text` (verbatim):
  "all sequences of driver calls on all card kinds, CRC modes and card timings, including
  re-initialisation after mark-uninitialised and calls after errors"

`C14_main` is ONE statement, for every bus `B : BusOps σ` (= every card kind, every card timing,
every misbehaving card, every SPI failure), every driver state `s` (= every CRC mode, every retry
budget, card type recorded or not — in particular the fresh driver) and every list of calls `cs`
(`read`, `write`, `num_blocks`, `num_bytes`, `get_card_type`, `mark_card_uninit`, continuing
after errors): the record `Clauses B cs s`, one field per clause of the sentence, in its order.

How to read it.  `L = evsNew s (runCalls B cs s)` is everything the session put on the bus
(`Spec/SdSession.lean`: `runCalls`; `Props/C14.lean`: `evsNew`, `Event`s).
`M = sessionMarks B cs s` is the same log with the call boundaries and the outcome of every
`acquire` written into it (`Spec/SdSession.lean`); `log_is_marks` says so.
Predicates: `FrameWF`, `NotWhileBusy`, `AcmdPrefixed`, `WriteChunk`, `ReadChunk`, `WriteFraming`,
`IdentOrder` — `Props/C14.lean`; `IdentRunBefore`, `MultiStopped` — `Props/C14Session.lean`.
The frame is the one REGENERATED FROM THE SOURCE (`Gen.Funs.card_command_buf`, `C14Gen`); the CRC
bytes of a data block are those of `Gen.Funs.crc16` (`C19Gen`); CRC-7 is the specification's
remainder `specCrc7` (`C19`).

Hypotheses: none.  (No conformance of the card is assumed: the clauses constrain what the DRIVER
sends, whatever comes back.)

Full / partial: FULL, with these readings, stated here so that nobody has to find them:
* "not while the card signals busy": every command except CMD0 (reset) and CMD12
  (stop-transmission, which must interrupt a transfer) — as in the source, mod.rs:487-489.
* "exactly 512 payload bytes": the model's blocks are byte lists; `write_data` sends the block it
  is given in ONE piece, whole (`WriteChunk`: `.dataOut buf`), `read_data` clocks in exactly the
  requested length (`ReadChunk`: `.dataIn len`), and `read`/`write` call them with 512
  (`Sd.read`: `readData B 512`); Rust's `Block` is `[u8; 512]`.
* data-block clauses are stated per function / per call FOR EVERY STATE, which covers every
  state reached in every session; the per-call split `pfx ++ eo` removes the 0xFF flush bytes that
  `acquire` may send in front.
* multi-block write: when the busy wait in front of the stop token fails (card busy beyond the
  write budget, or SPI error) no stop token is sent and the call ends there with an error —
  second alternative of `StoppedByToken`; this is the driver's behaviour, not a gap of the proof.
-/
import Sdmmc.Lemmas.MainK14
import Sdmmc.Props.C14Session
import Sdmmc.Props.C14Gen

namespace Sdmmc.Props.C14Main
open Sdmmc.Model Sdmmc.Model.Sd Sdmmc.Gen Sdmmc.Spec Sdmmc.Spec.SdSession Sdmmc.Props.C14 Sdmmc.Props.C14Session

variable {σ : Type}

/-- A well-formed six-byte frame for index `c` and argument `arg`, as the source builds it. -/
def SourceFrame (f : Bytes) : Prop :=
  ∃ c arg, c < 64 ∧ arg < 4294967296 ∧ f = Funs.card_command_buf c arg ∧
    f.length = 6 ∧
    f.getD 0 0 = UInt8.ofNat (0x40 + c) ∧          -- start bit 0, transmission bit 1, index
    frameArg f = arg ∧                              -- big-endian argument in bytes 1..4
    toBV (f.getD 5 0) = specCrc7 ((f.take 5).map toBV) ∧   -- CRC-7 of the first five bytes, shifted
    (f.getD 5 0).toNat % 2 = 1                      -- end bit

/-- The clauses of C14 for the session `cs` run on bus `B` from state `s`. -/
structure Clauses (B : BusOps σ) (cs : List Call) (s : St σ) : Prop where
  /-- every command is a well-formed six-byte frame -/
  frames : ∀ f, Event.cmd f ∈ evsNew s (runCalls B cs s) → SourceFrame f
  /-- not while the card signals busy -/
  not_busy : NotWhileBusy (evsNew s (runCalls B cs s))
  /-- application commands directly preceded by the application-command prefix -/
  acmd : AcmdPrefixed (evsNew s (runCalls B cs s))
  /-- the marked log is the log -/
  log_is_marks : events (sessionMarks B cs s) = evsNew s (runCalls B cs s)
  /-- data commands only after a completed identification sequence in the prescribed order
  (since the last `mark_card_uninit` / failed `acquire`); the second alternative exists only for
  a driver that entered the session with a card type recorded -/
  ident_before_data : ∀ pre f post, sessionMarks B cs s = pre ++ Mark.ev (.cmd f) :: post →
    cmdIdx f ∉ identCmds → IdentRunBefore s.useCrc pre ∨ (s.cardType.isSome ∧ Mark.reset ∉ pre)
  /-- a data block sent: token, the whole payload in one piece, two CRC bytes, one response byte -/
  block_out : ∀ (s' : St σ) tok buf,
    WriteChunk s'.useCrc tok buf (writeData B tok buf s').1 (evsNew s' (writeData B tok buf s').2)
  /-- the two CRC bytes are the big-endian CRC-16 (of the source's `crc16`) when CRC is on -/
  crc_valid : ∀ buf, crcOut true buf =
    [UInt8.ofNat (Funs.crc16 buf / 256), UInt8.ofNat (Funs.crc16 buf % 256)]
  /-- a data block received: only after the start token 0xFE, exactly `len` bytes, then two CRC bytes -/
  block_in : ∀ (s' : St σ) len, ReadChunk len (readData B len s').1 (evsNew s' (readData B len s').2)
  /-- the data phase of a whole `write` call: start token 0xFE for one block; token 0xFC per block
  and the stop token 0xFD for several -/
  write_tokens : ∀ (s' : St σ) blocks idx, ∃ pfx eo r,
    evsNew s' (call B (.write blocks idx) s').2 = pfx ++ eo ∧ IdentOnly pfx ∧
    WriteFraming s'.useCrc blocks r (dataEvs eo) ∧
    ((∃ a, (call B (.write blocks idx) s').1 = .ok a) → ∃ u, r = .ok u)
  /-- multi-block reads are ended by stop-transmission and multi-block writes by the stop token,
  in every call of the session, also when the call failed -/
  multi_stopped : ∀ blk ∈ sessionBlocks B cs s, MultiStopped (events blk)

theorem C14_main (B : BusOps σ) (cs : List Call) (s : St σ) : Clauses B cs s where
  frames := fun f hf => by
    obtain ⟨c, arg, hc, ha, rfl⟩ := session_frames_wellformed B cs s f hf
    obtain ⟨h1, h2, h3, _, h5, h6⟩ := frame_layout c arg hc ha
    exact ⟨c, arg, hc, ha, (C14Gen.card_command_buf_eq c arg (by omega)).symm, h1, h2, h3, h5, h6⟩
  not_busy := session_not_while_busy B cs s
  acmd := session_acmd_prefixed B cs s
  log_is_marks := marks_are_the_log B cs s
  ident_before_data := fun pre f post hL hn => session_ident_before_data_general B cs s pre f post hL hn
  block_out := fun s' tok buf => data_framing_write B tok buf s'
  crc_valid := fun buf => by
    have h : crc16Nat buf = Funs.crc16 buf := (C19Gen.crc16_eq buf).symm
    simp [crcOut, h]
  block_in := fun s' len => data_framing_read B len s'
  write_tokens := fun s' blocks idx => Lemmas.Sd.call_write_framing B blocks idx s'
  multi_stopped := session_multi_terminated B cs s

/-- The fresh driver: the alternative "identified before the session" does not arise. -/
theorem C14_main_fresh (B : BusOps σ) (cs : List Call) (s : St σ) (hs : s.cardType = none) :
    Clauses B cs s ∧ ∀ pre f post, sessionMarks B cs s = pre ++ Mark.ev (.cmd f) :: post →
      cmdIdx f ∉ identCmds → IdentRunBefore s.useCrc pre :=
  ⟨C14_main B cs s, fun pre f post hL hn => session_ident_before_data B cs s hs pre f post hL hn⟩

namespace Example

/-- The session of `C14Session.Example` (a card silent after CMD8, then a version-1 card): the
headline holds of it, and its log is not empty (evaluated there: `session_skeleton`). -/
example : Clauses replayBus C14Session.Example.session C14Session.Example.start :=
  C14_main _ _ _

example : C14Session.Example.skeleton (sessionMarks replayBus C14Session.Example.session C14Session.Example.start) =
    [.call, .cmd 0, .cmd 8, .reset, .call, .cmd 0, .cmd 8, .cmd 55, .cmd 41, .identified, .cmd 17] :=
  C14Session.Example.session_skeleton

/-- A `SourceFrame`: CMD17 with argument 0x12345678. -/
example : Funs.card_command_buf 17 0x12345678 = [0x51, 0x12, 0x34, 0x56, 0x78, 0x5D] := by decide +kernel

end Example

end Sdmmc.Props.C14Main
