/-
C10 — HEADLINE THEOREM.

PROPERTY (verbatim from `properties.jsonl`).
statement:
  "If the device stops accepting writes after any block write of any operation, the medium mounts, and no live
  directory entry or chain refers to a free, bad or out-of-range cluster, no two chains share a cluster, no chain is
  cyclic, no directory exposes uninitialised cluster contents as entries, and no sub-directory entry lacks its own
  cluster. Space that is allocated but not yet referenced, and a size not yet updated, are the only permitted
  residue."
quantifier:
  "every prefix of the block-write sequence of every mutating operation (create, write and extend, flush, close,
  truncate-open, delete, mkdir, directory growth, volume close) in any history, on all geometries, with previously
  used (non-zero) free clusters so that stale contents are visible; block writes atomic and ordered"

HOW TO READ `C10_main_partial`.
* `ops` is ANY history of API calls from the state `s`; `ops[j]` is issued in the state `(run s (ops.take j)).1` the first
  `j` calls leave; `(step t op).2.writes` are the block writes the call `op` issues in state `t`, in order;
  `crashDisk d ws k` (`Spec/Crash.lean`) is the medium `d` with the first `k` writes of `ws` applied — the medium left when
  the device stops accepting writes after the `k`-th block write of the call (block writes atomic and ordered; `k = 0`
  and `k ≥ ws.length`: the call boundaries).  The theorem speaks of EVERY `j` and EVERY `k`, whatever the calls answer,
  for all 24 constructors of `Op` (create, write and extend, flush, close, truncate-open, delete, mkdir, directory
  growth, volume close included).
* The medium is arbitrary (`Disk`): free clusters hold whatever earlier use left in them.
* `Consistent v dk gh'` — the clauses of the sentence, about the MEDIUM `dk` alone, for some record `gh'` of its tree
  (`gh'.G`: the cluster chains, `gh'.dirs`: the sub-directories `(first cluster, parent)`; `Spec/Volume.lean`: `dirSlots`,
  `objects` = live short entries except `.`/`..`, `sCluster` = the raw on-disk first-cluster field, `chainOf`, `rootHead`,
  `fileRefs`; `Spec/Chain.lean`: `InRange`, `isFree`, `isBad`, `nextOf`; `Spec/Crash.lean`: `Lost` = in use and in no chain):
    (refs)     the FAT32 root, every sub-directory and every file entry with a cluster designate the first cluster of a
               chain of `gh'.G`;
    (chains)   every cluster of every chain is in range, not free, not bad, linked to the next, the last one carrying an
               end-of-chain mark — with (refs): "no live directory entry or chain refers to a free, bad or
               out-of-range cluster";
    (sharing)  a cluster lies in at most one chain, at one position; no two references name the same chain;
    (acyclic)  no chain repeats a cluster;
    (tail)     in no directory does anything follow the end-of-directory marker — SEE (5) BELOW;
    (subdirs)  every sub-directory entry names a cluster that is a sub-directory of the record with this parent, heads
               a chain, and starts with correct `.` and `..` entries;
    (residue)  the chains are, one to one, exactly the referenced ones, and every cluster in use is a cluster of such a
               chain or LOST (allocated, not referenced).  No clause constrains stored sizes: "a size not yet updated";
    (rest)     the other clauses of C03 survive: unique names, correct dot entries of every sub-directory.
  `Props.C10Inv`: `CrashInv` is the medium invariant of C03 with `Owns` weakened to `OwnsLoose` and `sizes` dropped.
* (mounts) the crashed medium mounts as the same partition with the same geometry; (fat) every FAT entry of a data
  cluster — lost ones included — is free, bad, end-of-chain or a link in range; (fsck) the independent checker
  `Spec.Fs.fsck` in its crash variant reports no problem (H1 `NoOne`, H2 `DepthOK`: as for C03, needed by the CHECKER).

HYPOTHESES.
* `VolInvC s gh` (`Props.C10Inv.volInvC_def`) = the invariant of API histories `VolInv` (C03) ∧ identical FAT copies ∧
  `RawOK` (the on-disk entry of an open file names no cluster or the file's).  Holds after a mount
  (`Props.C15Fs.mount_establishes_invariant`, `Props.C10Inv.volInvC_of_quiescent`); preserved by every covered history
  (`Props.C10Inv.api_history_invariantC`).  `RawOK` cannot be dropped: `Props.C10Inv.Example.rawOK_needed`.
* `CoveredAllRun v0 s ops`: restricts only `open_volume` calls that succeed (`Props.C03All.coveredAllRun_iff_remountRun`).
* `hm`, `hsg` — for (mounts) only: the medium the HISTORY starts from mounts.

STATUS: PARTIAL.
* Clauses 1 (mounts), 2 (refs, chains), 3 (sharing), 4 (acyclic), 6 (subdirs), 7 (residue): PROVED, every crash point.
* (5) "no directory exposes uninitialised cluster contents as entries" is proved in the form (tail) + "every entry a
  directory shows satisfies all other clauses".  MISSING at the API level: "a cluster that joins a directory chain is
  blank at every crash point at which it is linked" — (tail) does not say it when the directory was FULL (no marker
  before the new cluster).  It IS proved for the FAT engine (`Props.C10Crash.crash_step_zeroed`: blank before it stops
  being free; `alloc_crash_stages`: blank, mark, link; `Props.C10CrashDir.grow_order`, `make_dir_crash`), but those
  theorems speak of `Spec.Forest.step` on `FS × record` under `Exact`, not of `Model.step` on `Mgr` under `VolInvC`: the
  two do not compose as they stand (FINDING: no lemma relates the engine calls inside `step s op` to `FatOp` steps).
* (scope) ONE open volume (`VolInv`); the crash invariant has no several-volumes form (`VolInvN`) yet.
* Fault-free device: a crash is the device no longer ACCEPTING writes, not a failing write (C11).
-/
import Sdmmc.Props.C10Inv

namespace Sdmmc.Props.C10Main
open Sdmmc.Model Sdmmc.Model.Fat Sdmmc.Spec.Volume
open Sdmmc.Spec hiding run step NoFault Coherent
open Sdmmc.Props.C03Inv (CoveredAllRun)

/-- The clauses of the sentence, for a medium `d` read with the geometry `v`, and a record `gh` of its tree. -/
structure Consistent (v : FatVolume) (d : Disk) (gh : Ghost) : Prop where
  refs : (∀ c, c ∈ rootHead v → chainOf gh.G c ∈ gh.G ∧ (chainOf gh.G c).head? = some c) ∧
    (∀ h p, (h, p) ∈ gh.dirs → chainOf gh.G h ∈ gh.G ∧ (chainOf gh.G h).head? = some h) ∧
    (∀ h, h ∈ dirIds gh.dirs → ∀ o, o ∈ objects h (dirSlots v d gh.G h) → isDirE o = false → sCluster v.fatType o ≠ 0 →
      chainOf gh.G (sCluster v.fatType o) ∈ gh.G ∧ (chainOf gh.G (sCluster v.fatType o)).head? = some (sCluster v.fatType o))
  chains : ∀ cs, cs ∈ gh.G → cs ≠ [] ∧
    (∀ c, c ∈ cs → InRange v c ∧ ¬ isFree v d c ∧ ¬ isBad v d c) ∧
    (∀ k x y, cs[k]? = some x → cs[k + 1]? = some y → nextOf v d x = .ok y) ∧
    (∀ k x, cs[k]? = some x → k + 1 = cs.length → nextOf v d x = .err .EndOfFile)
  sharing : (∀ (i j a b : Nat) (cs cs' : List Nat) (c : Nat), gh.G[i]? = some cs → gh.G[j]? = some cs' → cs[a]? = some c →
      cs'[b]? = some c → i = j ∧ a = b) ∧
    (rootHead v ++ gh.dirs.map Prod.fst ++
      (dirIds gh.dirs).flatMap fun h => fileRefs v.fatType [] (objects h (dirSlots v d gh.G h))).Nodup
  acyclic : ∀ cs, cs ∈ gh.G → cs.Nodup
  tail : ∀ h, h ∈ dirIds gh.dirs → CleanTail (dirSlots v d gh.G h)
  subdirs : ∀ h, h ∈ dirIds gh.dirs → ∀ o, o ∈ objects h (dirSlots v d gh.G h) → isDirE o = true →
    (sCluster v.fatType o, h) ∈ gh.dirs ∧ chainOf gh.G (sCluster v.fatType o) ∈ gh.G ∧
    (chainOf gh.G (sCluster v.fatType o)).head? = some (sCluster v.fatType o) ∧
    ∃ s0 s1 rest, dirSlots v d gh.G (sCluster v.fatType o) = s0 :: s1 :: rest ∧
      IsDot v.fatType Sfn.thisDir (sCluster v.fatType o) s0 ∧ IsDot v.fatType Sfn.parentDir h s1
  residue : List.Perm (rootHead v ++ gh.dirs.map Prod.fst ++
      (dirIds gh.dirs).flatMap fun h => fileRefs v.fatType [] (objects h (dirSlots v d gh.G h))) (gh.G.map fun cs => cs.headD 0) ∧
    ∀ c, isUsed v d c → (∃ cs, cs ∈ gh.G ∧ c ∈ cs) ∨ Lost v d gh.G c
  rest : (∀ h, h ∈ dirIds gh.dirs → ((entries (dirSlots v d gh.G h)).map sName).Nodup) ∧
    ∀ h p, (h, p) ∈ gh.dirs → (∃ s0 s1 rest, dirSlots v d gh.G h = s0 :: s1 :: rest ∧ IsDot v.fatType Sfn.thisDir h s0 ∧
      IsDot v.fatType Sfn.parentDir p s1) ∧ p ∈ dirIds gh.dirs

/-- `CrashInv` (`Spec/VolumeCrash.lean`) gives the clauses (`Props.C10Inv`, section "what it says"). -/
theorem consistent_of_crashInv {v : FatVolume} {d : Disk} {gh : Ghost} (hC : CrashInv v d gh) : Consistent v d gh :=
  ⟨C10Inv.crash_references_sound hC,
   fun _ hcs => ⟨(C10Inv.crash_chains_sound hC hcs).1, (C10Inv.crash_chains_sound hC hcs).2.2⟩,
   C10Inv.crash_no_sharing hC, fun _ hcs => (C10Inv.crash_chains_sound hC hcs).2.1,
   fun _ hh => C10Inv.crash_clean_tail hC hh, fun _ hh _ ho hd => C10Inv.crash_subdirs hC hh ho hd,
   C10Inv.crash_residue hC,
   ⟨fun _ hh => (C10Inv.crash_names_unique hC hh).1, fun _ _ hp => C10Inv.crash_dot_entries hC hp⟩⟩

/-- **C10.**  See the header.  (`_partial`: clause (5) in the form (tail); one open volume.) -/
theorem C10_main_partial (v0 : FatVolume) (ops : List Op) (s : Mgr) (gh : Ghost) (hI : VolInvC s gh) (h0 : SameGeom v0 gh.vol)
    (hc : CoveredAllRun v0 s ops) (j : Nat) (op : Op) (k : Nat) (hj : ops[j]? = some op) (dk : Disk)
    (hdk : dk = crashDisk (run s (ops.take j)).1.dev.disk (step (run s (ops.take j)).1 op).2.writes k) :
    -- "the medium mounts"
    (∀ idx vm, mountPure (s.dev.disk.get 0) idx s.dev.disk.get = .ok vm → SameGeom vm v0 →
      ∃ w, mountPure (dk.get 0) idx dk.get = .ok w ∧ SameGeom v0 w) ∧
    -- the clauses, the valid FAT entries, the independent checker
    ∃ gh', Consistent v0 dk gh' ∧ FatEntriesOK v0 dk ∧
      ∀ g : Spec.Fs.Geom, GeomOf v0 g → NoOne v0 dk → DepthOK gh'.dirs → (Spec.Fs.fsck g dk [] false).problems = [] := by
  subst hdk
  obtain ⟨⟨gh', hC⟩, hF⟩ := C10Inv.history_crash_invariant v0 ops s gh hI h0 hc j op hj k
  exact ⟨fun idx vm hm hsg => C10Inv.history_crash_mounts_from_start v0 ops s gh hI h0 hc j op hj k idx vm hm hsg,
    gh', consistent_of_crashInv hC, hF, fun g hg h1 h2 => C10Inv.crash_fsck_ok v0 _ gh' hC hF g hg h1 h2⟩

/-! ### Non-vacuity -/

namespace Example
open Sdmmc.Lemmas.VolExample Sdmmc.Props.C03Inv.Example Sdmmc.Props.C10Inv.Example

/-- The history of `Props.C03Inv.Example` on the quiescent FAT16 volume (create `N.TXT`, write 600 bytes, flush, `mkdir D`
in `SUB`, delete `A.TXT`, close): 19 block writes, 25 crash points (evaluated with their lost clusters in
`Props.C10Inv.Example.ops_crash_points_checked`). -/
example (j : Nat) (op : Op) (k : Nat) (hj : ops[j]? = some op) :=
  C10_main_partial vol16 ops mgr1 gh1 quiescent (SameGeom.refl _) ops_covered_all j op k hj _ rfl

/-- A start state with an open, written, unflushed file (a lost cluster on the medium as it stands) satisfies the
hypothesis too. -/
example (j : Nat) (op : Op) (k : Nat) (ops' : List Op) (hc : CoveredAllRun vol16 mgr0 ops') (hj : ops'[j]? = some op) :=
  C10_main_partial vol16 ops' mgr0 gh0 open_file (SameGeom.refl _) hc j op k hj _ rfl

end Example

end Sdmmc.Props.C10Main
