/-
C16 (history form) — both FAT copies stay identical and the free-space record stays truthful over
EVERY history of allocation, truncation and deletion at the FAT-engine level.

Property theorems only; they are the C16 reading of `Sdmmc.Props.C05Forest.forest_history`
(proofs: `Sdmmc.Lemmas.Forest*`).  Vocabulary: `Sdmmc.Spec.Forest` (`FatOp`, `step`, `run`, `Exact`,
`Mirror`, `CountExact`, `freeCount`, `SameGeom`).

WHAT IS PROVED (all volumes with 1 or 2 FATs, all media, all histories, no bound on any size):

* `mirror_history`: if FAT copy 2 is identical to copy 1 on the blocks holding the volume's entries,
  it still is after every history of `newChain / extend / truncate / free` (each of which is the
  model's `alloc_cluster`, `truncate_cluster_chain`, `free_cluster_chain`).
* `count_delta_history`: the in-memory free count, when known and equal to the number of free FAT
  entries, equals the number of free FAT entries after every history — so the count "has changed by
  exactly the change in the number of free FAT entries"; `count_unknown_stays_unknown`: a count
  marked unknown (`none`) stays unknown.
* `hint_history`: the next-free hint is unknown or ≥ 2 after every history (`HintOK`), and with
  `hint_in_range_after_alloc` (Props/C16.lean) inside the volume after an allocation.
* `geometry_history`: no engine operation changes any field of the volume record other than the two
  bookkeeping fields.

NOT PROVED HERE (checked by the harness on generated API histories): that what `update_info_sector`
stores at flush / close is this in-memory pair (the write itself is `updateInfoSector_writes` in
Props/C16.lean: bytes 488..495 of the info sector only), and that API calls are such sequences of
engine operations (Props/C05Api.lean when present).  Fault-free runs only (`Exact` contains
`NoFault`).
-/
import Sdmmc.Props.C05Forest
import Sdmmc.Lemmas.ForestUnknown

namespace Sdmmc.Props.C16Hist
open Sdmmc.Model Sdmmc.Model.Fat Sdmmc.Spec

/-- Identical FAT copies stay identical through every history. -/
theorem mirror_history (st : FS × List (List Nat)) (ops : List FatOp) (h : Exact st)
    (hm : Mirror st.1.vol st.1.dev.disk) : Mirror (run st ops).1.vol (run st ops).1.dev.disk :=
  (C05Forest.forest_history st ops h).2.2.2.1 hm

/-- A correct free count stays correct through every history: it always equals the number of free
FAT entries of the volume. -/
theorem count_delta_history (st : FS × List (List Nat)) (ops : List FatOp) (h : Exact st) (hc : CountExact st.1) :
    CountExact (run st ops).1 :=
  (C05Forest.forest_history st ops h).2.2.2.2 hc

/-- One step never turns an unknown count into a known one. -/
theorem count_unknown_step (st : FS × List (List Nat)) (op : FatOp) (h : Exact st)
    (hu : st.1.vol.freeClustersCount = none) : (step st op).1.vol.freeClustersCount = none :=
  Lemmas.ForestUnknown.count_unknown_step st op h hu

/-- A count marked unknown stays unknown through every history. -/
theorem count_unknown_stays_unknown (st : FS × List (List Nat)) (ops : List FatOp) (h : Exact st)
    (hu : st.1.vol.freeClustersCount = none) : (run st ops).1.vol.freeClustersCount = none := by
  induction ops generalizing st with
  | nil => exact hu
  | cons op ops ih =>
    have h' := (C05Forest.forest_step st op h).1
    exact ih (step st op) h' (count_unknown_step st op h hu)

/-- The hint is unknown or at least 2 after every history. -/
theorem hint_history (st : FS × List (List Nat)) (ops : List FatOp) (h : Exact st) :
    ∀ n, (run st ops).1.vol.nextFreeCluster = some n → 2 ≤ n :=
  (C05Forest.forest_history st ops h).1.1.hint

/-- Only the two bookkeeping fields of the volume record ever change. -/
theorem geometry_history (st : FS × List (List Nat)) (ops : List FatOp) (h : Exact st) :
    SameGeom st.1.vol (run st ops).1.vol :=
  (C05Forest.forest_history st ops h).2.2.1

/-! ### Non-vacuity (tests, labelled as tests): the example history of Props/C05Forest.lean -/
namespace Example
open C05Forest.Example

/-- Both FAT copies of the example volume are identical at the start … -/
theorem st_mirror : Mirror st.vol st.dev.disk := by
  intro c hc b2 hb
  have : ∀ c, c < 22 → ∀ b2, fatBlock2 st.vol c = some b2 → st.dev.disk.get b2 = st.dev.disk.get (fatBlock st.vol c) := by
    decide +kernel
  exact this c hc b2 hb

/-- … and after the example history (new chain, extend, truncate, delete, new chain), and the count
is the number of free entries. -/
example : Mirror (run (st, G0) ops).1.vol (run (st, G0) ops).1.dev.disk ∧ CountExact (run (st, G0) ops).1 :=
  ⟨mirror_history (st, G0) ops st_exact st_mirror, count_delta_history (st, G0) ops st_exact st_count⟩

end Example
end Sdmmc.Props.C16Hist
