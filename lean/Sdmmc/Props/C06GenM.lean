/-
C06, tie to the source text, FAT level: `FatVolume::find_entry_in_block` and `FatVolume::find_directory_entry`
(fat/volume.rs), machine-translated into `Sdmmc.Gen.FunsDir`, against `Model.Fat.findDirectoryEntry`.

`find_entry_in_block_eq` is unconditional.  `find_directory_entry_eq_partial` holds for every fuel above
`chainFuel v + (blocks per step) + 2` WHEN THE MODEL'S ANSWER IS NOT `diverged`: the model's walk carries its own
fuel `chainFuel v` (it answers `diverged` on a chain longer than any well-formed one), the translation's loops
take theirs from the argument, so on such a chain the two stop at different places.
-/
import Sdmmc.Gen.FunsDir
import Sdmmc.Model.Fat
import Sdmmc.Lemmas.GenMgrIO
import Sdmmc.Props.C01GenFind

set_option linter.unusedSimpArgs false

namespace Sdmmc.Props.C06GenM

open Sdmmc Sdmmc.Model Sdmmc.Model.Fat Sdmmc.Gen Sdmmc.Lemmas.GenMgrIO
open Sdmmc.Lemmas.FBasic

/-! ### The sixteen slots of a block -/

theorem slot_eq (blk : Block) (i : Nat) : List.drop (i * 32) (List.take (i * 32 + 32) blk) = slice blk (i * 32) 32 := by
  unfold slice
  rw [List.drop_take, Nat.add_sub_cancel_left]

/-- The slots `i .. i+n` of a block, as the model lists them. -/
def slotsFrom (blk : Block) (i n : Nat) : List (Nat × Bytes) :=
  (List.range' i n).map fun j => (j * 32, slice blk (j * 32) 32)

theorem slotsOf_eq (blk : Block) : slotsOf blk = slotsFrom blk 0 16 := by
  unfold slotsOf slotsFrom
  have h : BLOCK_LEN / DIRENT_LEN = 16 := rfl
  rw [h, List.range_eq_range']
  rfl

theorem slotsFrom_succ (blk : Block) (i n : Nat) :
    slotsFrom blk i (n + 1) = (i * 32, slice blk (i * 32) 32) :: slotsFrom blk (i + 1) n := by
  unfold slotsFrom
  rw [List.range'_succ]
  rfl

/-- The loop over the slots of `find_entry_in_block` is the model's `findInSlots`. -/
theorem find_slots_loop (v : FatVolume) (ft : FatType) (name : Bytes) (b : Nat) (blk : Block) :
    ∀ (n i : Nat), i + n = 16 → ∀ fs : FS, ∃ c,
      FunsDir.FatVolume_find_entry_in_block_loop1 v ft name b blk n i fs =
        (.ok (match findInSlots ft b name (slotsFrom blk i n) with
              | some e => Except.error e
              | none => Except.ok c), fs)
  | 0, i, _, fs => ⟨i, rfl⟩
  | n + 1, i, h, fs => by
    rw [FunsDir.FatVolume_find_entry_in_block_loop1, slotsFrom_succ, findInSlots]
    simp only [slot_eq]
    by_cases he : OnDisk.isEnd (slice blk (i * 32) 32) = true
    · rw [if_pos he, if_pos he]
      exact ⟨i + 1, rfl⟩
    · rw [if_neg he, if_neg he]
      by_cases hm : OnDisk.matches (slice blk (i * 32) 32) name = true
      · rw [if_pos hm, if_pos hm]
        have : i * 32 % 4294967296 = i * 32 := Nat.mod_eq_of_lt (by omega)
        rw [this]
        exact ⟨0, rfl⟩
      · rw [if_neg hm, if_neg hm]
        exact find_slots_loop v ft name b blk n (i + 1) (by omega) fs

/-- `find_entry_in_block(fat_type, name, block)`: read the block, look through its slots. -/
theorem find_entry_in_block_eq (ft : FatType) (name : Bytes) (b : Nat) :
    FunsDir.FatVolume_find_entry_in_block ft name b =
      (cacheRead b >>= fun _ => cacheBlk >>= fun blk =>
        match findInSlots ft b name (slotsOf blk) with
        | some e => pure e
        | none => F.fail .NotFound) := by
  funext fs
  unfold FunsDir.FatVolume_find_entry_in_block
  simp only [bind_apply, getVol_apply]
  rcases cacheRead b fs with ⟨r, fs1⟩
  cases r <;> simp only []
  simp only [cacheBlk, bind_apply]
  obtain ⟨c, hc⟩ := find_slots_loop fs.vol ft name b fs1.cache.blk 16 0 rfl fs1
  rw [hc, slotsOf_eq]
  cases findInSlots ft b name (slotsFrom fs1.cache.blk 0 16) <;> rfl

/-! ### The blocks of one step -/

/-- How the translated loops report the model's scan of `n` blocks. -/
def blocksOut (x : Res (Option DirEntry)) (done : FunsM.BlockIter) : Res (Except DirEntry FunsM.BlockIter) :=
  match x with
  | .ok (some e) => .ok (.error e)
  | .ok none => .ok (.ok done)
  | .err e => .err e
  | .panic m => .panic m
  | .diverged => .diverged

theorem cacheRead_vol (b : Nat) (fs : FS) : (cacheRead b fs).2.vol = fs.vol := (KeepsF.cacheRead b fs).vol

set_option hygiene false in
/-- The same proof for the FAT16 and the FAT32 copy of the loop over the blocks. -/
local macro "find_blocks_tac" loop:ident : tactic => `(tactic| (
  intro n
  induction n with
  | zero =>
    intro first fuel fs hf hft
    obtain ⟨fuel', rfl⟩ : ∃ f', fuel = f' + 1 := ⟨fuel - 1, by omega⟩
    rw [$loop:ident]
    simp only [FunsM.BlockIter_next, Nat.add_zero, ge_iff_le, Nat.le_refl, if_true, findBlocks, pure_apply, blocksOut]
  | succ n ih =>
    intro first fuel fs hf hft
    obtain ⟨fuel', rfl⟩ : ∃ f', fuel = f' + 1 := ⟨fuel - 1, by omega⟩
    rw [$loop:ident, findBlocks]
    have hlt : ¬ first ≥ first + (n + 1) := by omega
    simp only [FunsM.BlockIter_next, hlt, if_false, FunsM.BlockIdx_add, bind_apply, attempt_apply,
      find_entry_in_block_eq, getVol_apply, hft]
    have hv1 := cacheRead_vol first fs
    have hres := Sdmmc.Lemmas.FBasic.cacheRead_result first fs
    rcases hcr : cacheRead first fs with ⟨r, fs1⟩
    rw [hcr] at hv1 hres
    simp only at hv1 hres
    cases r with
    | ok u =>
      simp only [cacheBlk, bind_apply]
      cases hfi : findInSlots _ first name (slotsOf fs1.cache.blk) with
      | some e => simp only [pure_apply, lift_apply, bind_apply, blocksOut]
      | none =>
        simp only [fail_apply, pure_apply]
        have h2 : first + (n + 1) = first + 1 + n := by omega
        rw [h2]
        exact ih (first + 1) fuel' fs1 (by omega) (by rw [hv1]; exact hft)
    | err e =>
      rcases hres with h | h
      · cases h
      · cases h
        simp only [lift_apply, bind_apply, blocksOut]
    | panic m => rcases hres with h | h <;> cases h
    | diverged => rcases hres with h | h <;> cases h
  ))

theorem find_blocks16 (v : FatVolume) (name : Bytes) : ∀ (n first fuel : Nat) (fs : FS), fuel ≥ n + 1 →
    fs.vol.fatType = .fat16 →
    FunsDir.FatVolume_find_directory_entry_loop2 v name fuel { inclusive_end := first + n, current := first } fs =
      (blocksOut (findBlocks name n first fs).1 { inclusive_end := first + n, current := first + n },
       (findBlocks name n first fs).2) := by
  find_blocks_tac FunsDir.FatVolume_find_directory_entry_loop2

theorem find_blocks32 (v : FatVolume) (name : Bytes) : ∀ (n first fuel : Nat) (fs : FS), fuel ≥ n + 1 →
    fs.vol.fatType = .fat32 →
    FunsDir.FatVolume_find_directory_entry_loop4 v name fuel { inclusive_end := first + n, current := first } fs =
      (blocksOut (findBlocks name n first fs).1 { inclusive_end := first + n, current := first + n },
       (findBlocks name n first fs).2) := by
  find_blocks_tac FunsDir.FatVolume_find_directory_entry_loop4

/-! ### The walk along the chain -/

theorem readU16_lt (d : Bytes) (off : Nat) : readU16 d off < 65536 := by
  unfold readU16 byteAt
  have := UInt8.toNat_lt (d.getD off 0)
  have := UInt8.toNat_lt (d.getD (off + 1) 0)
  omega

/-- On FAT16 a cluster number read from the FAT is a `u16`: never the `ROOT_DIR` marker. -/
theorem next16_ne_root (c n : Nat) (fs : FS) (hft : fs.vol.fatType = .fat16) (h : (nextCluster c fs).1 = .ok n) :
    n ≠ 4294967292 := by
  unfold nextCluster at h
  simp only [ite_apply, panic_apply, bind_apply, getVol_apply] at h
  split at h
  · cases h
  · rcases hcr : cacheRead (fatBlock fs.vol c) fs with ⟨r, fs1⟩
    rw [hcr] at h
    cases r with
    | ok u =>
      simp only [cacheBlk, bind_apply, lift_apply, hft, decodeNext, rawFatEntry] at h
      have hlt := readU16_lt fs1.cache.blk (fatEntOffset fs.vol c)
      split at h
      · cases h
      · split at h
        · cases h
        · cases h
          omega
    | err e => cases h
    | panic m => cases h
    | diverged => cases h

theorem nextCluster_vol (c : Nat) (fs : FS) : (nextCluster c fs).2.vol = fs.vol :=
  (C01GenFind.nextCluster_keeps c fs).vol

theorem findBlocks_vol (name : Bytes) : ∀ (n b : Nat) (fs : FS), (findBlocks name n b fs).2.vol = fs.vol
  | 0, _, _ => rfl
  | n + 1, b, fs => by
    rw [findBlocks]
    simp only [bind_apply, getVol_apply]
    have hv := cacheRead_vol b fs
    rcases hcr : cacheRead b fs with ⟨r, fs1⟩
    rw [hcr] at hv
    have hv : fs1.vol = fs.vol := hv
    cases r with
    | ok u =>
      simp only [cacheBlk, bind_apply]
      cases findInSlots fs.vol.fatType b name (slotsOf fs1.cache.blk) with
      | some e => exact hv
      | none => rw [findBlocks_vol name n (b + 1) fs1]; exact hv
    | err e => exact hv
    | panic m => exact hv
    | diverged => exact hv

/-- What `find_directory_entry` does with the answer of its outer loop. -/
def finish {σ : Type} (r : Except DirEntry σ) : F DirEntry :=
  match r with
  | Except.error e => pure e
  | Except.ok _ => F.fail .NotFound

theorem range_iter (first n : Nat) :
    FunsM.BlockIdx_range first n = { inclusive_end := first + n, current := first } := rfl

/-- The FAT16 walk: the fixed root or a cluster chain. -/
theorem find_walk16 (v : FatVolume) (name : Bytes) (hft : v.fatType = .fat16) :
    ∀ (fuelM fuelG : Nat) (w : DirWalk) (fs : FS), fs.vol = v →
      (w.fixedRoot = true ↔ w.cluster = 4294967292) →
      fuelG ≥ fuelM + w.dirSize + 1 → (findWalk name fuelM w fs).1 ≠ .diverged →
      (FunsDir.FatVolume_find_directory_entry_loop1 v name w.dirSize fuelG (some w.cluster, w.firstBlock) >>= finish) fs =
        findWalk name fuelM w fs := by
  intro fuelM
  induction fuelM with
  | zero =>
    intro fuelG w fs _ _ _ hnd
    exact (hnd rfl).elim
  | succ fuelM ih =>
    intro fuelG w fs hv hroot hG hnd
    obtain ⟨fuel, rfl⟩ : ∃ f, fuelG = f + 1 := ⟨fuelG - 1, by omega⟩
    rw [findWalk] at hnd ⊢
    rw [bind_apply, FunsDir.FatVolume_find_directory_entry_loop1]
    simp only [range_iter, bind_apply, getVol_apply] at hnd ⊢
    rw [find_blocks16 v name w.dirSize w.firstBlock fuel fs (by omega) (by rw [hv]; exact hft)]
    have hv1 := findBlocks_vol name w.dirSize w.firstBlock fs
    rcases hfb : findBlocks name w.dirSize w.firstBlock fs with ⟨r, fs1⟩
    rw [hfb] at hv1 hnd
    simp only at hv1 hnd
    cases r with
    | ok oe =>
      cases oe with
      | some e => rfl
      | none =>
        simp only [blocksOut, ite_apply, bind_apply, pure_apply] at hnd ⊢
        obtain ⟨fuel', rfl⟩ : ∃ f, fuel = f + 1 := ⟨fuel - 1, by omega⟩
        by_cases hfr : w.fixedRoot = true
        · have hc : ¬ (w.cluster ≠ 4294967292) := fun h => h (hroot.mp hfr)
          simp only [hfr, if_true, hc, if_false, pure_apply, bind_apply]
          rfl
        · have hc : w.cluster ≠ 4294967292 := fun h => hfr (hroot.mpr h)
          simp only [hfr, if_false, hc, ne_eq, not_false_eq_true, if_true, attempt_apply, bind_apply,
            Bool.false_eq_true] at hnd ⊢
          have hv2 := nextCluster_vol w.cluster fs1
          have hne := next16_ne_root w.cluster
          rcases hnc : nextCluster w.cluster fs1 with ⟨rn, fs2⟩
          rw [hnc] at hv2 hnd
          simp only at hv2 hnd
          cases rn with
          | ok n =>
            simp only [pure_apply, bind_apply] at hnd ⊢
            have hn := hne n fs1 (by rw [hv1, hv]; exact hft) (by rw [hnc])
            rw [hv]
            exact ih (fuel' + 1)
              { cluster := n, firstBlock := clusterToBlock v n, dirSize := w.dirSize, fixedRoot := false } fs2
              (by rw [hv2, hv1, hv]) ⟨fun h => (by cases h), fun h => (hn h).elim⟩ (by simp only []; omega)
              (by rw [hv] at hnd; exact hnd)
          | err e =>
            cases e
            case EndOfFile => rfl
            all_goals rfl
          | panic m => rfl
          | diverged => rfl
    | err e => rfl
    | panic m => rfl
    | diverged => rfl

/-- The FAT32 walk: every directory is a cluster chain. -/
theorem find_walk32 (v : FatVolume) (name : Bytes) (hft : v.fatType = .fat32) :
    ∀ (fuelM fuelG : Nat) (w : DirWalk) (fs : FS), fs.vol = v → w.fixedRoot = false →
      w.firstBlock = clusterToBlock v w.cluster → w.dirSize = v.blocksPerCluster →
      fuelG ≥ fuelM + w.dirSize + 1 → (findWalk name fuelM w fs).1 ≠ .diverged →
      (FunsDir.FatVolume_find_directory_entry_loop3 v name fuelG (some w.cluster) >>= finish) fs =
        findWalk name fuelM w fs := by
  intro fuelM
  induction fuelM with
  | zero =>
    intro fuelG w fs _ _ _ _ _ hnd
    exact (hnd rfl).elim
  | succ fuelM ih =>
    intro fuelG w fs hv hfr hfb0 hds hG hnd
    obtain ⟨fuel, rfl⟩ : ∃ f, fuelG = f + 1 := ⟨fuelG - 1, by omega⟩
    rw [findWalk] at hnd ⊢
    rw [bind_apply, FunsDir.FatVolume_find_directory_entry_loop3]
    simp only [range_iter, bind_apply, getVol_apply] at hnd ⊢
    rw [← hfb0, ← hds, find_blocks32 v name w.dirSize w.firstBlock fuel fs (by omega) (by rw [hv]; exact hft)]
    have hv1 := findBlocks_vol name w.dirSize w.firstBlock fs
    rcases hfb : findBlocks name w.dirSize w.firstBlock fs with ⟨r, fs1⟩
    rw [hfb] at hv1 hnd
    simp only at hv1 hnd
    cases r with
    | ok oe =>
      cases oe with
      | some e => rfl
      | none =>
        simp only [blocksOut, ite_apply, bind_apply, pure_apply, hfr, Bool.false_eq_true, if_false, attempt_apply]
          at hnd ⊢
        obtain ⟨fuel', rfl⟩ : ∃ f, fuel = f + 1 := ⟨fuel - 1, by omega⟩
        have hv2 := nextCluster_vol w.cluster fs1
        rcases hnc : nextCluster w.cluster fs1 with ⟨rn, fs2⟩
        rw [hnc] at hv2 hnd
        simp only at hv2 hnd
        cases rn with
        | ok n =>
          simp only [pure_apply, bind_apply] at hnd ⊢
          rw [hv]
          exact ih (fuel' + 1)
            { cluster := n, firstBlock := clusterToBlock v n, dirSize := w.dirSize, fixedRoot := false } fs2
            (by rw [hv2, hv1, hv]) rfl rfl hds (by simp only []; omega) (by rw [hv] at hnd; exact hnd)
        | err e =>
          cases e
          case EndOfFile => rfl
          all_goals rfl
        | panic m => rfl
        | diverged => rfl
    | err e => rfl
    | panic m => rfl
    | diverged => rfl

/-! ### `find_directory_entry` -/

theorem clusterToBlock_root32 (v : FatVolume) (hft : v.fatType = .fat32) (d : Nat) :
    clusterToBlock v (if d = 4294967292 then v.firstRootDirCluster else d) = clusterToBlock v d := by
  unfold clusterToBlock
  simp only [hft]
  have hr : CLUSTER_ROOT_DIR = 4294967292 := rfl
  rw [hr]
  by_cases h : d = 4294967292
  · subst h
    simp only [if_true]
    by_cases h2 : v.firstRootDirCluster = 4294967292
    · simp only [h2, if_true]
    · simp only [h2, if_false]
  · simp only [h, if_false]

/-- `find_directory_entry(dir, name)` is the model's `findDirectoryEntry dir.cluster name`, for every fuel above
`chainFuel v + (blocks per step) + 2`, when the model's answer is not `diverged` (the model's walk stops after
`chainFuel v` clusters by itself; see the head of this file). -/
theorem find_directory_entry_eq_partial (fuel : Nat) (dir : DirInfo) (name : Bytes) (fs : FS)
    (hfuel : fuel ≥ chainFuel fs.vol + (dirWalkStart fs.vol dir.cluster).dirSize + 2)
    (hnd : (Fat.findDirectoryEntry dir.cluster name fs).1 ≠ .diverged) :
    FunsDir.FatVolume_find_directory_entry fuel dir name fs = Fat.findDirectoryEntry dir.cluster name fs := by
  unfold FunsDir.FatVolume_find_directory_entry Fat.findDirectoryEntry at *
  simp only [bind_apply, getVol_apply] at hnd ⊢
  cases hft : fs.vol.fatType with
  | fat16 =>
    simp only []
    have hw : dirWalkStart fs.vol dir.cluster =
        { cluster := dir.cluster,
          firstBlock := if dir.cluster = 4294967292 then FunsM.BlockIdx_add fs.vol.lbaStart fs.vol.firstRootDirBlock
            else clusterToBlock fs.vol dir.cluster,
          dirSize := if dir.cluster = 4294967292 then FunsDir.BlockCount_from_bytes (fs.vol.rootEntriesCount * 32)
            else fs.vol.blocksPerCluster,
          fixedRoot := decide (dir.cluster = 4294967292) } := by
      unfold dirWalkStart
      simp only [hft]
      have hr : CLUSTER_ROOT_DIR = 4294967292 := rfl
      rw [hr]
      by_cases h : dir.cluster = 4294967292
      · simp only [h, if_true, decide_true]
        rfl
      · simp only [h, if_false, decide_false]
    rw [hw] at hnd hfuel ⊢
    have := find_walk16 fs.vol name hft (chainFuel fs.vol) fuel _ fs rfl (by simp) (by simp only [] at hfuel ⊢; omega) hnd
    rw [← this]
    refine congrFun (congrArg _ (funext fun r => ?_)) fs
    cases r <;> rfl
  | fat32 =>
    simp only []
    have hw : dirWalkStart fs.vol dir.cluster =
        { cluster := if dir.cluster = 4294967292 then fs.vol.firstRootDirCluster else dir.cluster,
          firstBlock := clusterToBlock fs.vol dir.cluster, dirSize := fs.vol.blocksPerCluster, fixedRoot := false } := by
      unfold dirWalkStart
      simp only [hft]
      rfl
    rw [hw] at hnd hfuel ⊢
    have := find_walk32 fs.vol name hft (chainFuel fs.vol) fuel _ fs rfl rfl
      (by simp only []; exact (clusterToBlock_root32 fs.vol hft dir.cluster).symm) rfl
      (by simp only [] at hfuel ⊢; omega) hnd
    rw [← this]
    by_cases h : dir.cluster = 4294967292
    · simp only [h, if_true]
      refine congrFun (congrArg _ (funext fun r => ?_)) fs
      cases r <;> rfl
    · simp only [h, if_false]
      refine congrFun (congrArg _ (funext fun r => ?_)) fs
      cases r <;> rfl

end Sdmmc.Props.C06GenM
