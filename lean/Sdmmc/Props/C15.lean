/-
C15 — Mounting locates every valid FAT16/32 layout and rejects bad ones without panic.

Property theorems only; helper lemmas live in `Sdmmc.Lemmas.C15`.
Model: `Sdmmc.Model.mountPure` (MBR parse of `open_raw_volume`, `Bpb::create_from_bytes`,
`InfoSector`, `parse_volume`), with the dev-profile arithmetic of the Rust (unchecked `+`, `*`
panic on overflow).  Spec: `Sdmmc.Spec.FatLayout` (Microsoft formulas).
-/
import Sdmmc.Lemmas.C15

namespace Sdmmc.Props.C15
open Sdmmc.Model Sdmmc.Spec.FatLayout

/-- For *arbitrary* contents of the partition table, the boot sector and the information
sector, for every volume index, opening the volume returns a volume or an error: it never
panics (no overflow, underflow, division by zero, index out of range) and never diverges. -/
theorem mount_total (mbr : Bytes) (idx : Nat) (fetch : Nat → Bytes) :
    (∃ v, mountPure mbr idx fetch = .ok v) ∨ (∃ e, mountPure mbr idx fetch = .err e) :=
  Lemmas.C15.mount_total mbr idx fetch

/-- The BPB fields of a boot sector, as the specification names them. -/
def fieldsOf (bpb : Bytes) : BpbFields :=
  { bytsPerSec := readU16 bpb 11, secPerClus := byteAt bpb 13, rsvdSecCnt := readU16 bpb 14, numFATs := byteAt bpb 16,
    rootEntCnt := readU16 bpb 17, totSec16 := readU16 bpb 19, fatSz16 := readU16 bpb 22, totSec32 := readU32 bpb 32,
    fatSz32 := readU32 bpb 36, fsVer := readU16 bpb 42, rootClus := readU32 bpb 44, fsInfo := readU16 bpb 48 }

/-- The generated BPB field table (from the `define_field!` rows of the source) reads the
specification's offsets and widths. -/
theorem bpb_field_table (bpb : Bytes) :
    Bpb.bytesPerBlock bpb = (fieldsOf bpb).bytsPerSec ∧ Bpb.blocksPerCluster bpb = (fieldsOf bpb).secPerClus ∧
    Bpb.reservedBlockCount bpb = (fieldsOf bpb).rsvdSecCnt ∧ Bpb.numFats bpb = (fieldsOf bpb).numFATs ∧
    Bpb.rootEntriesCount bpb = (fieldsOf bpb).rootEntCnt ∧ Bpb.totalBlocks16 bpb = (fieldsOf bpb).totSec16 ∧
    Bpb.fatSize16 bpb = (fieldsOf bpb).fatSz16 ∧ Bpb.totalBlocks32 bpb = (fieldsOf bpb).totSec32 ∧
    Bpb.fatSize32 bpb = (fieldsOf bpb).fatSz32 ∧ Bpb.fsVer bpb = (fieldsOf bpb).fsVer ∧
    Bpb.firstRootDirCluster bpb = (fieldsOf bpb).rootClus ∧ Bpb.fsInfo bpb = (fieldsOf bpb).fsInfo ∧
    Bpb.footer bpb = readU16 bpb 510 :=
  Lemmas.C15.bpb_field_table bpb

/-- For every well-formed boot sector (any blocks-per-cluster 1..128, reserved count, 1–2 FATs,
root entry count, 16- or 32-bit total field) at any partition offset, parsing succeeds and
locates the FATs, the root directory and the data area where the specification puts them. -/
theorem mount_layout (bpb : Bytes) (lba nb : Nat) (hsig : readU16 bpb 510 = 0xAA55)
    (hwf : WFBpb (fieldsOf bpb)) (hlba : lba + (fieldsOf bpb).fsInfo ≤ 4294967295) :
    ∃ v, parseVolumeBpb bpb lba nb = .ok v ∧
      v.lbaStart = lba ∧ v.numBlocks = nb ∧
      v.blocksPerCluster = (fieldsOf bpb).secPerClus ∧
      v.fatStart = (fieldsOf bpb).rsvdSecCnt ∧
      v.secondFatStart = (if (fieldsOf bpb).numFATs = 2 then some ((fieldsOf bpb).rsvdSecCnt + fatSz (fieldsOf bpb)) else none) ∧
      v.firstDataBlock = firstDataSector (fieldsOf bpb) ∧
      v.clusterCount = countOfClusters (fieldsOf bpb) ∧
      (kind (fieldsOf bpb) = .fat16 →
        v.fatType = .fat16 ∧ v.rootEntriesCount = (fieldsOf bpb).rootEntCnt ∧
        v.firstRootDirBlock = (fieldsOf bpb).rsvdSecCnt + (fieldsOf bpb).numFATs * fatSz (fieldsOf bpb)) ∧
      (kind (fieldsOf bpb) = .fat32 →
        v.fatType = .fat32 ∧ v.firstRootDirCluster = (fieldsOf bpb).rootClus ∧
        v.infoLocation = lba + (fieldsOf bpb).fsInfo) :=
  Lemmas.C15.mount_layout bpb lba nb hsig hwf hlba

/-- FAT type boundaries: 4084 clusters are refused (FAT12), 4085..65524 are FAT16, 65525 and
more are FAT32 — whatever else the boot sector says, provided parsing gets that far. -/
theorem fat_type_boundaries (bpb : Bytes) (ft : FatType) (cc : Nat) (h : Bpb.createFromBytes bpb = .ok (ft, cc)) :
    4085 ≤ cc ∧ (ft = .fat16 ↔ cc < 65525) ∧ (ft = .fat32 ↔ 65525 ≤ cc) ∧
    cc = countOfClusters (fieldsOf bpb) :=
  Lemmas.C15.fat_type_boundaries bpb ft cc h

/-- Information-sector sentinels: a free count of 0xFFFFFFFF is "unknown"; a next-free hint of
0xFFFFFFFF, 0 or 1 is "unknown"; wrong signatures are an error. -/
theorem info_sentinels (info : Bytes) :
    (readU32 info 0 = 0x41615252 ∧ readU32 info 484 = 0x61417272 ∧ readU32 info 508 = 0xAA550000 →
      Info.parse info = .ok
        (if readU32 info 488 = 0xFFFFFFFF then none else some (readU32 info 488),
         if readU32 info 492 = 0xFFFFFFFF ∨ readU32 info 492 = 0 ∨ readU32 info 492 = 1 then none else some (readU32 info 492))) ∧
    (¬ (readU32 info 0 = 0x41615252 ∧ readU32 info 484 = 0x61417272 ∧ readU32 info 508 = 0xAA550000) →
      ∃ m, Info.parse info = .err (.FormatError m)) :=
  Lemmas.C15.info_sentinels info

/-- Partition-table rules: signature, index 0..3, status byte 0x00/0x80, supported type bytes;
the start and length are the little-endian words at offsets 8 and 12 of the 16-byte record at
446 + 16·index. -/
theorem mbr_rules (mbr : Bytes) (idx : Nat) :
    (readU16 mbr 510 ≠ 0xAA55 → ∃ m, parsePartition mbr idx = .err (.FormatError m)) ∧
    (readU16 mbr 510 = 0xAA55 → 3 < idx → parsePartition mbr idx = .err .NoSuchVolume) ∧
    (readU16 mbr 510 = 0xAA55 → idx ≤ 3 → mbr.length = 512 → byteAt mbr (446 + 16 * idx) % 128 = 0 →
      parsePartition mbr idx = .ok (byteAt mbr (446 + 16 * idx + 4), readU32 mbr (446 + 16 * idx + 8), readU32 mbr (446 + 16 * idx + 12))) ∧
    (∀ t, supportedPartitionType t = true ↔ t ∈ [0x04, 0x06, 0x0B, 0x0C, 0x0E]) :=
  Lemmas.C15.mbr_rules mbr idx

/-! Non-vacuity (test): a concrete well-formed FAT16 field set. -/
example : WFBpb { bytsPerSec := 512, secPerClus := 1, rsvdSecCnt := 1, numFATs := 2, rootEntCnt := 512,
                  totSec16 := 4150, fatSz16 := 16, totSec32 := 0, fatSz32 := 0, fsVer := 0, rootClus := 0, fsInfo := 0 } := by
  decide

end Sdmmc.Props.C15
