/-
C08, tie to the source text, manager level: the handle generator, the three look-ups by handle,
`file_is_open`, `has_open_handles`, `open_root_dir`, `close_dir`, `close_volume` (volume_mgr.rs,
filesystem/handles.rs), machine-translated WHOLE into the model's `M` monad (`Sdmmc.Gen.FunsMgr`), are
equal to the hand-written `Model/Mgr.lean` as functions `Mgr → Res α × Mgr`.  The `RefCell` borrow at the
top of every public method is the model's `locked` flag: unlocked, the translation is the model's
per-call function; locked, it answers `LockError` (`has_open_handles`: it panics) and touches nothing —
which is what `Model.step` does around `runOp`.
-/
import Sdmmc.Gen.FunsMgr
import Sdmmc.Model.Mgr
import Sdmmc.Lemmas.GenMgr

set_option linter.unusedSimpArgs false

namespace Sdmmc.Props.C08GenM

open Sdmmc Sdmmc.Model Sdmmc.Gen Sdmmc.Lemmas.GenMgr

/-- `HandleGenerator::generate` (a `Wrapping<u32>` counter). -/
theorem generate_eq : FunsMgr.HandleGenerator_generate = generate := by
  funext s; rfl

/-- `get_volume_by_id`: the `for (idx, v) in ..enumerate()` search is `findIdx?`. -/
theorem get_volume_by_id_eq (raw : Nat) : FunsMgr.VolumeManagerData_get_volume_by_id raw = getVolumeById raw := by
  funext s
  unfold FunsMgr.VolumeManagerData_get_volume_by_id getVolumeById
  simp only [bind_apply, get_apply]
  rw [forFirst_findIdx (fun v : VolInfo => v.rawVolume = raw) (fun idx => (pure idx : M Nat))]
  cases s.vols.findIdx? (fun x => decide (x.rawVolume = raw)) with
  | none => rfl
  | some i => simp only [Option.map, Nat.zero_add]; rfl

theorem get_dir_by_id_eq (raw : Nat) : FunsMgr.VolumeManagerData_get_dir_by_id raw = getDirById raw := by
  funext s
  unfold FunsMgr.VolumeManagerData_get_dir_by_id getDirById
  simp only [bind_apply, get_apply]
  rw [forFirst_findIdx (fun v : DirInfo => v.rawDirectory = raw) (fun idx => (pure idx : M Nat))]
  cases s.dirs.findIdx? (fun x => decide (x.rawDirectory = raw)) with
  | none => rfl
  | some i => simp only [Option.map, Nat.zero_add]; rfl

theorem get_file_by_id_eq (raw : Nat) : FunsMgr.VolumeManagerData_get_file_by_id raw = getFileById raw := by
  funext s
  unfold FunsMgr.VolumeManagerData_get_file_by_id getFileById
  simp only [bind_apply, get_apply]
  rw [forFirst_findIdx (fun v : FileInfo => v.rawFile = raw) (fun idx => (pure idx : M Nat))]
  cases s.files.findIdx? (fun x => decide (x.rawFile = raw)) with
  | none => rfl
  | some i => simp only [Option.map, Nat.zero_add]; rfl

/-- `file_is_open`. -/
theorem file_is_open_eq (s : Mgr) (rawVolume : Nat) (e : DirEntry) :
    FunsMgr.VolumeManagerData_file_is_open s rawVolume e = fileIsOpen s rawVolume e := by
  unfold FunsMgr.VolumeManagerData_file_is_open fileIsOpen
  rw [forFirst_any (fun f : FileInfo => (f.rawVolume = rawVolume ∧ f.entry.entryBlock = e.entryBlock) ∧
    f.entry.entryOffset = e.entryOffset) true]
  have : (s.files.any fun f => decide ((f.rawVolume = rawVolume ∧ f.entry.entryBlock = e.entryBlock) ∧
      f.entry.entryOffset = e.entryOffset)) =
      (s.files.any fun f => decide (f.rawVolume = rawVolume ∧ f.entry.entryBlock = e.entryBlock ∧
      f.entry.entryOffset = e.entryOffset)) := by
    congr 1; funext f; simp only [and_assoc]
  rw [this]
  cases (s.files.any fun f => decide (f.rawVolume = rawVolume ∧ f.entry.entryBlock = e.entryBlock ∧
      f.entry.entryOffset = e.entryOffset)) <;> rfl

/-- `has_open_handles`: unlocked, the model's `hasOpenHandles`; locked, `RefCell::borrow` panics. -/
theorem has_open_handles_eq (s : Mgr) :
    FunsMgr.VolumeManager_has_open_handles s =
      if s.locked then (.panic "already mutably borrowed", s) else (.ok (hasOpenHandles s), s) := by
  unfold FunsMgr.VolumeManager_has_open_handles hasOpenHandles
  simp only [bind_apply, get_apply]
  cases hl : s.locked
  · simp only [ite_apply, pure_apply, Bool.false_eq_true, if_false]
    cases s.dirs.isEmpty <;> cases s.files.isEmpty <;> rfl
  · simp only [ite_apply, if_true, panic_apply]

/-- `open_root_dir`. -/
theorem open_root_dir_eq (volume : Nat) (s : Mgr) :
    FunsMgr.VolumeManager_open_root_dir volume s =
      if s.locked then (.err .LockError, s) else openRootDir volume s := by
  unfold FunsMgr.VolumeManager_open_root_dir openRootDir
  simp only [bind_apply, get_apply, generate_eq]
  cases hl : s.locked
  · simp only [ite_apply, Bool.false_eq_true, if_false, bind_apply, get_apply, generate]
    by_cases hfull : s.dirs.length ≥ s.maxDirs
    · simp only [hfull, if_true, ite_apply, fail_apply]
    · simp only [hfull, if_false, ite_apply, modify_apply, bind_apply, get_apply, pure_apply,
        show CLUSTER_ROOT_DIR = 4294967292 from rfl]
  · simp only [ite_apply, if_true, fail_apply]

/-- `close_dir`: the search-and-`swap_remove` loop. -/
theorem close_dir_eq (directory : Nat) (s : Mgr) :
    FunsMgr.VolumeManager_close_dir directory s =
      if s.locked then (.err .LockError, s) else closeDir directory s := by
  unfold FunsMgr.VolumeManager_close_dir closeDir
  simp only [bind_apply, get_apply]
  cases hl : s.locked
  · simp only [ite_apply, Bool.false_eq_true, if_false]
    rw [forFirst_findIdx (fun d : DirInfo => directory = d.rawDirectory)
      (fun idx => ((M.modify fun s => { s with dirs := swapRemove s.dirs idx }) >>= fun _ =>
        (M.get >>= fun s => (pure () : M Unit))))]
    have : (s.dirs.findIdx? fun d => decide (directory = d.rawDirectory)) =
        s.dirs.findIdx? (fun d => decide (d.rawDirectory = directory)) := by
      congr 1; funext d; simp only [eq_comm]
    rw [this]
    cases s.dirs.findIdx? (fun d => decide (d.rawDirectory = directory)) with
    | none => simp only [Option.map, bind_apply, get_apply, fail_apply]
    | some i => simp only [Option.map, Nat.zero_add, bind_apply, modify_apply, get_apply, pure_apply]
  · simp only [ite_apply, if_true, fail_apply]

/-- `close_volume`: refused while a file or a directory of the volume is open; otherwise the info
sector is updated and the volume leaves the table. -/
theorem close_volume_eq (volume : Nat) (s : Mgr) :
    FunsMgr.VolumeManager_close_volume volume s =
      if s.locked then (.err .LockError, s) else closeVolume volume s := by
  unfold FunsMgr.VolumeManager_close_volume closeVolume
  simp only [bind_apply, get_apply, get_volume_by_id_eq]
  cases hl : s.locked
  · simp only [ite_apply, Bool.false_eq_true, if_false]
    rw [forFirst_any (fun f : FileInfo => f.rawVolume = volume) (M.fail Err.VolumeStillInUse : M Unit)]
    by_cases hf : (s.files.any fun f => decide (f.rawVolume = volume)) = true
    · simp only [hf, if_true, fail_apply]
    · simp only [hf, Bool.false_eq_true, if_false]
      rw [forFirst_any (fun d : DirInfo => d.rawVolume = volume) (M.fail Err.VolumeStillInUse : M Unit)]
      by_cases hd : (s.dirs.any fun d => decide (d.rawVolume = volume)) = true
      · simp only [hd, if_true, fail_apply]
      · simp only [hd, Bool.false_eq_true, if_false, bind_apply]
        rcases getVolumeById volume s with ⟨r, s1⟩
        cases r <;> simp only []
        rcases withVol _ Fat.updateInfoSector s1 with ⟨r2, s2⟩
        cases r2 <;> simp only [get_apply, bind_apply, modify_apply, pure_apply]
  · simp only [ite_apply, if_true, fail_apply]

end Sdmmc.Props.C08GenM
