/-
C09 with SEVERAL OPEN VOLUMES on one device — "Once flush or close of a file has returned success, cutting power after any
later block write — during any subsequent operation on other files, directories or the volume — and mounting the medium
afresh shows that file with at least the flushed length and exactly the flushed contents, until the file itself is next
modified, truncated or deleted."

`Props/C09Hist.lean` / `Props/C09Main.lean` prove this for a manager with ONE open volume.  Here: a manager with ANY NUMBER of
open volumes on one device (one block cache, ONE handle generator, global table limits).  The file lives on the volume with raw
handle `hv`; the history after the flush / close may interleave ARBITRARY calls on the other volumes (creates, writes, deletes
— also of files with the SAME NAME —, mkdirs, `close_volume` of other volumes, `open_volume` of further partitions) with calls
on the file's volume that do not target the file.  Property theorems only; proofs `Sdmmc.Lemmas.SurviveN` … `SurviveN4` on top
of the one-volume proofs `Lemmas.Survive*`, the simulation `Props.C03Multi.step_proj`, the write frame
`Props.C04Multi.step_stays_in_volume` and the multi-volume crash invariant `Props.C10Multi`.
Non-vacuity: `Props/Slow/C09MultiEx.lean` (thorough tier: ~110 s of kernel evaluation; the medium is in
`Props/Slow/SurviveNExample.lean`).

VOCABULARY.
* `KeptN v0 e cs ys h hv s` (`keptN_def`): `s` satisfies `VolInvNC` (`Spec/VolumeNCrash.lean`) for some ghosts, a volume record
  with raw handle `hv` is open — at SOME index `i` —, and the projection `proj s i` (`Spec/VolumeN.lean`: the manager as that
  volume sees it) satisfies the one-volume invariant `Kept v0 e cs ys h (proj s i) gh` of `Props.C09Hist.kept_def` for some
  ghost `gh` of the volume.  THE VOLUME IS TRACKED BY ITS RAW HANDLE: `close_volume` of another volume is a `swap_remove` on
  the volume table and may move the record to another index; handles of open volumes are pairwise distinct
  (`VolInvN.handles`).  `keptN_of_index`: the index form.
* `TargetsN s hv h N pos op` (`targetsN_def`): the call is ADDRESSED to the volume `hv` (its directory / file handle leads to
  that volume's record: `target s op = some i`) and targets the file there (`Props.C09Hist.targets_def` on the projection).
  A call addressed to another volume, or to none, NEVER targets the file (`not_targetsN_of_foreign`) — whatever it does and
  whatever name it uses.
* `UntouchedN hv h N pos s ops` (`untouchedN_def`): every call of the history is issued while the volume `hv` is open and does
  not target the file in the state it is issued in.  (The LAST call may be a successful `close_volume hv`; the theorem
  follows the file while its volume stays open.)

WHAT IS PROVED.
1. `one_call_multi` — ONE call (all 24 constructors of `Op`, every outcome) issued in a `KeptN` state that does not target the
   file: at EVERY crash point the file is kept (`SameFile`: slot bytes, FAT entries and bytes of the chain, links of the
   directory chains, slots of the path); the state afterwards is `KeptN` again if the volume is still open — always, unless the
   call is `close_volume hv` and succeeds.  For a call addressed to the file's volume this is the one-volume theorem on the
   projection; for every other call it is the frame: no FAT, root-directory or data block of the file's volume is written
   (`other_volumes_write_elsewhere`), the records of the volume stay.
2. `close_establishes_keptN`, `flush_establishes_keptN` — a successful `close_file` / `flush_file` (handle left open) of a
   handle that was written to establishes `KeptN`.
3. `other_volume_calls_untouched` — a history none of whose calls is addressed to `hv` (and none is `close_volume hv`) is
   `UntouchedN`: CALLS ON OTHER VOLUMES ARE AUTOMATICALLY UNTOUCHED FOR THE FILE.  `untouched_of_never_names_multi` — the
   syntactic corollary (`NeverNames` on the whole list — merely stronger than necessary — and no `close_volume hv`).
4. `flushed_file_intact_multi` — part (a) at every crash point of every call, no mounting hypothesis.
5. **`flushed_file_survives_multi`** — the analogue of `Props.C09Hist.flushed_file_survives`: from a `KeptN` state whose medium
   mounts, along any `CoveredNRun` / `FreshRun` history that is `UntouchedN`, at EVERY crash point of EVERY call: (a) slot /
   chain / contents, (b) `CrashInv` + path + first hit, (c) `FreshReads`.
6. **`flush_or_close_survives_multi`** — the statement in the shape of `Props.C09Main.C09_main_partial`, from the call itself.

HYPOTHESES, all explicit: `VolInvNC` at the start (`Props.C10Multi`: every fresh manager satisfies it, every history keeps it);
`CoveredNRun` (about `open_volume` calls that succeed only: fresh handle, disjoint partition, sound volume — `Props.C03Multi`);
`FreshRun` (about `get_root_volume_label` only); the medium mounts when the flush / close is issued; `hnames`; for `flush_file`
`f.entry.cluster ≠ 0` — the last three exactly as in `Props.C09Main`.

NOT DONE.  After a successful `close_volume hv` the file is no longer followed (the crash points OF that call are covered): a
later `open_volume` of the same partition gives the volume a new handle, and nothing here links the two.  No purely syntactic
criterion for the `flush_file` case (as for one volume).
-/
import Sdmmc.Lemmas.SurviveN4
import Sdmmc.Props.C10Multi

namespace Sdmmc.Props.C09Multi
open Sdmmc.Model Sdmmc.Model.Fat Sdmmc.Spec.Volume
open Sdmmc.Spec hiding run step NoFault Coherent
open Sdmmc.Props.C03Multi (CoveredN CoveredNRun)
open Sdmmc.Props.C01Multi (FreshRun)
open Sdmmc.Props.C09Hist (FreshReads)
open Sdmmc.Lemmas.VolN (LabelFresh)
open Sdmmc.Lemmas.VolNCrash (Structural)
open Sdmmc.Lemmas.Survive (Kept SameFile Targets Opens PathOn HistCrash NeverNames)
open Sdmmc.Lemmas.SurviveN (KeptN TargetsN OpensN UntouchedN ForeignN IsOpen ROAtN Mounts)
open Sdmmc.Lemmas.VolTree (fkey spos)
open Sdmmc.Lemmas.MainC09 (Shows)

/-! ### Vocabulary -/

theorem keptN_def (v0 : FatVolume) (e : DirEntry) (cs : List Nat) (ys : List Slot) (h hv : Nat) (s : Mgr) :
    KeptN v0 e cs ys h hv s ↔
      (∃ ghs, VolInvNC s ghs) ∧
      ∃ (i : Nat) (vi : VolInfo) (gh : Ghost), s.vols[i]? = some vi ∧ vi.rawVolume = hv ∧ Kept v0 e cs ys h (proj s i) gh :=
  Iff.rfl

/-- The index form: volume record `i` of a `VolInvNC` state whose projection is `Kept`. -/
theorem keptN_of_index {v0 : FatVolume} {e : DirEntry} {cs : List Nat} {ys : List Slot} {h : Nat} {s : Mgr} {ghs : List Ghost}
    (hI : VolInvNC s ghs) {i : Nat} {vi : VolInfo} {gh : Ghost} (hvi : s.vols[i]? = some vi)
    (hK : Kept v0 e cs ys h (proj s i) gh) : KeptN v0 e cs ys h vi.rawVolume s :=
  ⟨⟨ghs, hI⟩, i, vi, gh, hvi, rfl, hK⟩

theorem targetsN_def (s : Mgr) (hv h : Nat) (N : Bytes) (pos : Nat × Nat) (op : Op) :
    TargetsN s hv h N pos op ↔
      ∃ (i : Nat) (vi : VolInfo), s.vols[i]? = some vi ∧ vi.rawVolume = hv ∧ target s op = some i ∧
        Targets (proj s i) h N pos op := Iff.rfl

theorem isOpen_def (hv : Nat) (s : Mgr) : IsOpen hv s ↔ hv ∈ s.vols.map (·.rawVolume) := Iff.rfl

theorem untouchedN_def (hv h : Nat) (N : Bytes) (pos : Nat × Nat) (s : Mgr) :
    (UntouchedN hv h N pos s [] ↔ True) ∧
    ∀ op ops, UntouchedN hv h N pos s (op :: ops) ↔
      IsOpen hv s ∧ ¬ TargetsN s hv h N pos op ∧ UntouchedN hv h N pos (step s op).1 ops :=
  ⟨Iff.rfl, fun _ _ => Iff.rfl⟩

theorem foreignN_def (hv : Nat) (s : Mgr) :
    (ForeignN hv s [] ↔ True) ∧
    ∀ op ops, ForeignN hv s (op :: ops) ↔
      (∀ (i : Nat) (vi : VolInfo), target s op = some i → s.vols[i]? = some vi → vi.rawVolume ≠ hv) ∧
      op ≠ .closeVolume hv ∧ ForeignN hv (step s op).1 ops :=
  ⟨Iff.rfl, fun _ _ => Iff.rfl⟩

theorem mounts_def (v0 : FatVolume) (idx : Nat) (d : Disk) :
    Mounts v0 idx d ↔ ∃ vm, mountPure (d.get 0) idx d.get = .ok vm ∧ SameGeom vm v0 := Iff.rfl

/-- A call that is not addressed to the volume `hv` — its handle leads to another volume record or to none — does not
target the file, whatever it is. -/
theorem not_targetsN_of_foreign {s : Mgr} {hv h : Nat} {N : Bytes} {pos : Nat × Nat} {op : Op}
    (hfo : ∀ (i : Nat) (vi : VolInfo), target s op = some i → s.vols[i]? = some vi → vi.rawVolume ≠ hv) :
    ¬ TargetsN s hv h N pos op := Lemmas.SurviveN.not_targetsN_of_foreign hfo

/-! ### 1. One call -/

/-- **A call that is not addressed to volume record `i` writes no FAT, root-directory or data block of volume `i`** — at most
(`close_volume` of that very volume) its FAT32 info sector. -/
theorem other_volumes_write_elsewhere {s : Mgr} {ghs : List Ghost} (hI : VolInvNC s ghs) (op : Op) {i : Nat} {vi : VolInfo}
    (hvi : s.vols[i]? = some vi) (hnt : target s op ≠ some i) (w : Nat × Block) (hw : w ∈ (step s op).2.writes) :
    regionOf vi.vol w.1 ≠ .fat ∧ regionOf vi.vol w.1 ≠ .data ∧ regionOf vi.vol w.1 ≠ .root :=
  ⟨fun e => Lemmas.SurviveN.writes_miss_structural hI op hvi hnt (.inl e) w hw rfl,
   fun e => Lemmas.SurviveN.writes_miss_structural hI op hvi hnt (.inr (.inl e)) w hw rfl,
   fun e => Lemmas.SurviveN.writes_miss_structural hI op hvi hnt (.inr (.inr e)) w hw rfl⟩

/-- **One call of a multi-volume manager**, issued in a `KeptN` state, that does not target the file: at EVERY crash point of
the call the file is kept (`SameFile`, relative to a `Kept` projection of the state the call is issued in); if the volume
`hv` is still open afterwards — always, unless the call is a successful `close_volume hv` — the state after the call is
`KeptN`; if only read-only handles of the volume sit at the slot and the call does not open the file in another mode, only
read-only handles sit there afterwards. -/
theorem one_call_multi {v0 : FatVolume} {e : DirEntry} {cs : List Nat} {ys : List Slot} {h hv : Nat} {s : Mgr}
    (hK : KeptN v0 e cs ys h hv s) (hst : Lemmas.Reopen.Storable v0.fatType e) (op : Op)
    (hc : CoveredN s op) (hf : LabelFresh s op) (hn : ¬ TargetsN s hv h e.name (e.entryBlock, e.entryOffset) op) :
    (∃ (i : Nat) (vi : VolInfo) (gh : Ghost), s.vols[i]? = some vi ∧ vi.rawVolume = hv ∧ Kept v0 e cs ys h (proj s i) gh ∧
      ∀ k, SameFile v0 e cs gh ys s.dev.disk (crashDisk s.dev.disk (step s op).2.writes k)) ∧
    ((op ≠ .closeVolume hv ∨ IsOpen hv (step s op).1) → KeptN v0 e cs ys h hv (step s op).1) ∧
    (ROAtN s hv (e.entryBlock, e.entryOffset) → ¬ OpensN s hv h e.name op →
      ROAtN (step s op).1 hv (e.entryBlock, e.entryOffset)) :=
  Lemmas.SurviveN.keptN_step hK hst op hc hf hn

/-- **Every crash point of one call** issued in a `KeptN` state whose medium mounts shows the file (`Shows`: (a), (b), (c) of
`flushed_file_survives_multi`) and mounts.  The call may be ANY call that does not target the file — also `close_volume hv`. -/
theorem one_call_crash_multi {v0 : FatVolume} {e : DirEntry} {cs : List Nat} {ys : List Slot} {h hv : Nat} {s : Mgr}
    (hK : KeptN v0 e cs ys h hv s) (hst : Lemmas.Reopen.Storable v0.fatType e) (op : Op)
    (hc : CoveredN s op) (hf : LabelFresh s op) (hn : ¬ TargetsN s hv h e.name (e.entryBlock, e.entryOffset) op)
    {idx : Nat} (hm : Mounts v0 idx s.dev.disk) (k : Nat) :
    Shows v0 e cs ys h s.dev.disk idx (crashDisk s.dev.disk (step s op).2.writes k) ∧
    Mounts v0 idx (crashDisk s.dev.disk (step s op).2.writes k) :=
  Lemmas.SurviveN.keptN_crash hK hst op hc hf hn hm k

/-! ### 2. Establishing the invariant -/

/-- **`close_establishes_keptN`**: `s` satisfies `VolInvNC`; `hd` is the handle of the open file `f` of volume record `i`
(ghost `gh`), which was written to.  `close_file hd` answers `Ok`, and the state it leaves is `KeptN` for the file — entry
`f.entry`, chain `chainOf gh.G f.entry.cluster`, in the directory `h` the file sits in, for every path `ys` that leads to
`h` —, with NO handle of the volume left at its slot. -/
theorem close_establishes_keptN (v0 : FatVolume) (s : Mgr) (ghs : List Ghost) (hI : VolInvNC s ghs) (i : Nat) (vi : VolInfo)
    (gh : Ghost) (hvi : s.vols[i]? = some vi) (hgh : ghs[i]? = some gh) (h0 : SameGeom v0 gh.vol) (hd k : Nat) (f : FileInfo)
    (hidx : s.files.findIdx? (·.rawFile = hd) = some k) (hfk : s.files[k]? = some f) (hfv : f.rawVolume = vi.rawVolume)
    (hdirty : f.dirty = true) :
    (step s (.closeFile hd)).2.result = .ok .unit ∧
    ∃ h, (∃ o, o ∈ objects h (dirSlots gh.vol s.dev.disk gh.G h) ∧ spos o = fkey f) ∧ h ∈ dirIds gh.dirs ∧
      ∀ ys, PathOn gh.vol.fatType gh.dirs (dirSlots gh.vol s.dev.disk gh.G) 0 ys h →
        (∀ y, y ∈ ys → sName y ≠ Sfn.thisDir ∧ sName y ≠ Sfn.parentDir) →
        KeptN v0 f.entry (chainOf gh.G f.entry.cluster) ys h vi.rawVolume (step s (.closeFile hd)).1 ∧
        ∀ g, g ∈ volFiles (step s (.closeFile hd)).1 vi.rawVolume → fkey g ≠ fkey f := by
  obtain ⟨r1, _, h, r3, r4, r5⟩ := Lemmas.SurviveN.establish_keptN hI hvi hgh h0 hidx hfk hfv hdirty (.closeFile hd) (.inl rfl)
  exact ⟨r1, h, r3, r4, fun ys hp hn => ⟨(r5 ys hp hn).1, (r5 ys hp hn).2 rfl⟩⟩

/-- **`flush_establishes_keptN`** — the handle is LEFT OPEN: the same for `flush_file hd` of a file that owns a cluster. -/
theorem flush_establishes_keptN (v0 : FatVolume) (s : Mgr) (ghs : List Ghost) (hI : VolInvNC s ghs) (i : Nat) (vi : VolInfo)
    (gh : Ghost) (hvi : s.vols[i]? = some vi) (hgh : ghs[i]? = some gh) (h0 : SameGeom v0 gh.vol) (hd k : Nat) (f : FileInfo)
    (hidx : s.files.findIdx? (·.rawFile = hd) = some k) (hfk : s.files[k]? = some f) (hfv : f.rawVolume = vi.rawVolume)
    (hdirty : f.dirty = true) (hcl : f.entry.cluster ≠ 0) :
    (step s (.flush hd)).2.result = .ok .unit ∧
    ∃ h, (∃ o, o ∈ objects h (dirSlots gh.vol s.dev.disk gh.G h) ∧ spos o = fkey f) ∧ h ∈ dirIds gh.dirs ∧
      ∀ ys, PathOn gh.vol.fatType gh.dirs (dirSlots gh.vol s.dev.disk gh.G) 0 ys h →
        (∀ y, y ∈ ys → sName y ≠ Sfn.thisDir ∧ sName y ≠ Sfn.parentDir) →
        KeptN v0 f.entry (chainOf gh.G f.entry.cluster) ys h vi.rawVolume (step s (.flush hd)).1 := by
  obtain ⟨r1, _, h, r3, r4, r5⟩ :=
    Lemmas.SurviveN.establish_keptN hI hvi hgh h0 hidx hfk hfv hdirty (.flush hd) (.inr ⟨rfl, hcl⟩)
  exact ⟨r1, h, r3, r4, fun ys hp hn => (r5 ys hp hn).1⟩

/-! ### 3. The criteria -/

/-- **Calls on other volumes never touch the file**: from a `KeptN` state, a history none of whose calls is addressed to the
volume `hv` — whatever it does on the other volumes, under whatever names — and none of whose calls is `close_volume hv`
is `UntouchedN`. -/
theorem other_volume_calls_untouched {v0 : FatVolume} {e : DirEntry} {cs : List Nat} {ys : List Slot} {h hv : Nat}
    (hst : Lemmas.Reopen.Storable v0.fatType e) (ops : List Op) (s : Mgr) (hK : KeptN v0 e cs ys h hv s)
    (hc : CoveredNRun s ops) (hf : FreshRun s ops) (hfo : ForeignN hv s ops) :
    UntouchedN hv h e.name (e.entryBlock, e.entryOffset) s ops :=
  Lemmas.SurviveN.untouchedN_of_foreign hst ops s hK hc hf hfo

/-- **The syntactic corollary**: from a `KeptN` state in which only read-only handles of the volume sit at the slot (none
after a close), a history whose LIST OF CALLS contains no `open_file_in_dir` in a mode other than `ReadOnly` and no
`delete_file_in_dir` of any spelling of the file's name (`NeverNames`, `Props.C09Hist.neverNames_def` — on ANY volume, which
is stronger than necessary: see `other_volume_calls_untouched`) and no `close_volume hv` is `UntouchedN`. -/
theorem untouched_of_never_names_multi {v0 : FatVolume} {e : DirEntry} {cs : List Nat} {ys : List Slot} {h hv : Nat}
    (hst : Lemmas.Reopen.Storable v0.fatType e) (ops : List Op) (s : Mgr) (hK : KeptN v0 e cs ys h hv s)
    (hc : CoveredNRun s ops) (hf : FreshRun s ops) (hro : ROAtN s hv (e.entryBlock, e.entryOffset))
    (hn : NeverNames e.name ops) (hcl : ∀ op, op ∈ ops → op ≠ .closeVolume hv) :
    UntouchedN hv h e.name (e.entryBlock, e.entryOffset) s ops :=
  Lemmas.SurviveN.untouchedN_of_neverNames hst ops s hK hc hf hro hn hcl

/-! ### 4., 5. Histories -/

/-- **`flushed_file_intact_multi`** — part (a), no mounting hypothesis: from a `KeptN` state, along a history that is
`UntouchedN`, at EVERY crash point `dk` — inside any call, on any volume —: the blocks have 512 bytes, the slot holds the
serialised entry, the chain is `cs`, the FAT entries of `cs` and the contents (every length) are those of the start. -/
theorem flushed_file_intact_multi (v0 : FatVolume) (e : DirEntry) (cs : List Nat) (ys : List Slot) (h hv : Nat) (s1 : Mgr)
    (hK : KeptN v0 e cs ys h hv s1) (hst : Lemmas.Reopen.Storable v0.fatType e) (ops : List Op) (hc : CoveredNRun s1 ops)
    (hf : FreshRun s1 ops) (hu : UntouchedN hv h e.name (e.entryBlock, e.entryOffset) s1 ops) (dk : Disk)
    (hk : HistCrash s1 ops dk) :
    BlocksOK dk ∧ slice (dk.get e.entryBlock) e.entryOffset 32 = e.serialize v0.fatType ∧
    ((e.cluster < 2 ∧ cs = [] ∧ e.size = 0) ∨ Chain v0 dk e.cluster cs) ∧
    (∀ x, x ∈ cs → fatRaw v0 dk x = fatRaw v0 s1.dev.disk x) ∧
    ∀ n, fileContent v0 dk cs n = fileContent v0 s1.dev.disk cs n :=
  Lemmas.SurviveN.keptN_intact hst ops s1 hK hc hf hu dk hk

/-- **`flushed_file_survives_multi`** — the full statement for a manager with any number of open volumes.

`s1` is a `KeptN` state for the file (entry `e`, storable; chain `cs`; directory `h` of the volume with handle `hv`, reached
from its root directory through `ys`); its medium mounts as partition `idx` with the geometry of `v0`.  `ops` is ANY history
from `s1` (`CoveredNRun`, `FreshRun`) — calls on any of the open volumes, `open_volume`, `close_volume` — every call of which
is issued while `hv` is open and does not target the file (`UntouchedN`).  Then at EVERY crash point `dk` of the history
(`HistCrash`, `Props.C09Hist.histCrash_iff`: the medium after any number of the block writes of any call):

(a) the blocks have 512 bytes, the slot holds the serialised entry, the chain is `cs`, the contents are the flushed contents;
(b) `dk` is crash-consistent for some record `ghk` of the volume's tree (`CrashInv`), in which `ys` still lead from the root
    directory to `h`, and the slot is the FIRST HIT for the file's name among the slots of directory `h` of `dk`;
(c) ANY fresh manager on `dk` mounts partition `idx`, opens the root directory, walks the path, opens the file by any spelling
    of its name, is told the length `e.size`, and reads exactly the flushed contents, writing nothing (`FreshReads`). -/
theorem flushed_file_survives_multi (v0 : FatVolume) (s1 : Mgr) (e : DirEntry) (cs : List Nat) (ys : List Slot) (h hv : Nat)
    (hK : KeptN v0 e cs ys h hv s1) (hst : Lemmas.Reopen.Storable v0.fatType e)
    (ops : List Op) (hc : CoveredNRun s1 ops) (hf : FreshRun s1 ops)
    (hu : UntouchedN hv h e.name (e.entryBlock, e.entryOffset) s1 ops)
    (idx : Nat) (vm : FatVolume) (hm : mountPure (s1.dev.disk.get 0) idx s1.dev.disk.get = .ok vm) (hsg : SameGeom vm v0)
    (dk : Disk) (hk : HistCrash s1 ops dk) :
    (BlocksOK dk ∧ slice (dk.get e.entryBlock) e.entryOffset 32 = e.serialize v0.fatType ∧
      ((e.cluster < 2 ∧ cs = [] ∧ e.size = 0) ∨ Chain v0 dk e.cluster cs) ∧
      ∀ n, fileContent v0 dk cs n = fileContent v0 s1.dev.disk cs n) ∧
    (∃ ghk, CrashInv v0 dk ghk ∧ PathOn v0.fatType ghk.dirs (dirSlots v0 dk ghk.G) 0 ys h ∧
      Lemmas.Reopen.FirstHit (dirSlots v0 dk ghk.G h) e.name
        (e.entryBlock, e.entryOffset, slice (dk.get e.entryBlock) e.entryOffset 32)) ∧
    FreshReads v0 e cs ys s1.dev.disk idx dk :=
  Lemmas.SurviveN.keptN_history hst ops s1 hK ⟨vm, hm, hsg⟩ hc hf hu dk hk

/-! ### 6. From the call itself -/

/-- "The flushed contents" are the file's bytes in the abstract file system of ITS volume (`Props.C01Fs`, on the
projection): in every abstract counterpart `a` of `proj s i`, the record of handle `hd` designates a file slot whose bytes
are the contents of the file's chain on the medium of `s`, cut at the pending size. -/
theorem flushed_contents_are_model_bytes_multi (v0 : FatVolume) {s : Mgr} {ghs : List Ghost} (hI : VolInvNC s ghs) {i : Nat}
    {vi : VolInfo} {gh : Ghost} (hvi : s.vols[i]? = some vi) (hgh : ghs[i]? = some gh) (h0 : SameGeom v0 gh.vol) {hd k : Nat}
    {f : FileInfo} (hidx : s.files.findIdx? (·.rawFile = hd) = some k) (hfk : s.files[k]? = some f)
    (hfv : f.rawVolume = vi.rawVolume) {a : Lemmas.AbsFs.AState} (hA : Lemmas.AbsFs.Abs (proj s i) gh a) :
    ∃ k' af m, Spec.AbsFs.fileOf a hd = some (k', af) ∧
      (a.slots af.dir)[af.idx]? = some (.file m (fileContent v0 s.dev.disk (chainOf gh.G f.entry.cluster) f.entry.size)) := by
  obtain ⟨_, k', hidx', hfk'⟩ := Lemmas.SurviveN.file_in_proj hI.inv hvi hidx hfk hfv
  have hC := C10Multi.projection_satisfies_volInvC hI hvi hgh
  obtain ⟨af, m, h1, h2⟩ := Lemmas.MainC09.flushed_contents_are_model_bytes v0 hC.inv h0 hA hidx' hfk'
  rw [(C04Multi.proj_tables hvi).2.2] at h2
  exact ⟨k', af, m, h1, h2⟩

/-- **C09 with several open volumes, from the call itself** (the shape of `Props.C09Main.C09_main_partial`).

`s` satisfies `VolInvNC` (ghosts `ghs`); `hd` is the handle of the open file `f` of volume record `i` (raw handle
`vi.rawVolume`, ghost `gh`), which was written to; the file sits in directory `h` of that volume, reached through `ys`; the
medium of `s` mounts as partition `idx` with the geometry of `v0`; `call` is `close_file hd`, or `flush_file hd` (handle left
open) of a file that owns a cluster.  Then `call` answers `Ok`, and for EVERY history `ops` after it — calls on ANY of the
open volumes, opening further ones, closing others — that is `UntouchedN` for the file (or, after `close_file`, whose list of
calls satisfies the syntactic criterion), for EVERY call `ops[j]` and EVERY number `k` of its block writes, the crashed
medium shows the file (`Props.C09Main.shows_def`: (a), (b), (c)) with exactly the contents it had when `call` was issued. -/
theorem flush_or_close_survives_multi (v0 : FatVolume) (s : Mgr) (ghs : List Ghost) (hI : VolInvNC s ghs) (i : Nat)
    (vi : VolInfo) (gh : Ghost) (hvi : s.vols[i]? = some vi) (hgh : ghs[i]? = some gh) (h0 : SameGeom v0 gh.vol)
    (hd k : Nat) (f : FileInfo) (hidx : s.files.findIdx? (·.rawFile = hd) = some k) (hfk : s.files[k]? = some f)
    (hfv : f.rawVolume = vi.rawVolume) (hdirty : f.dirty = true) (h : Nat) (ys : List Slot)
    (hdir : ∃ o, o ∈ objects h (dirSlots gh.vol s.dev.disk gh.G h) ∧ spos o = fkey f)
    (hpath : PathOn gh.vol.fatType gh.dirs (dirSlots gh.vol s.dev.disk gh.G) 0 ys h)
    (hnames : ∀ y, y ∈ ys → sName y ≠ Sfn.thisDir ∧ sName y ≠ Sfn.parentDir)
    (idx : Nat) (vm : FatVolume) (hm : mountPure (s.dev.disk.get 0) idx s.dev.disk.get = .ok vm) (hsg : SameGeom vm v0)
    (call : Op) (hcall : call = .closeFile hd ∨ (call = .flush hd ∧ f.entry.cluster ≠ 0)) :
    -- "flush or close of a file has returned success"
    (step s call).2.result = .ok .unit ∧
    -- "cutting power after any later block write, during any subsequent operation …, until the file itself is next
    -- modified, truncated or deleted"
    ∀ ops, CoveredNRun s (call :: ops) → FreshRun s (call :: ops) →
      (UntouchedN vi.rawVolume h f.entry.name (f.entry.entryBlock, f.entry.entryOffset) (step s call).1 ops ∨
        (call = .closeFile hd ∧ NeverNames f.entry.name ops ∧ ∀ op, op ∈ ops → op ≠ .closeVolume vi.rawVolume)) →
      ∀ (j : Nat) (op : Op) (n : Nat), ops[j]? = some op →
        -- "… and mounting the medium afresh shows that file with at least the flushed length and exactly the flushed contents"
        Shows v0 f.entry (chainOf gh.G f.entry.cluster) ys h s.dev.disk idx
          (crashDisk (run (step s call).1 (ops.take j)).1.dev.disk
            (step (run (step s call).1 (ops.take j)).1 op).2.writes n) := by
  obtain ⟨hres, hall⟩ := Lemmas.SurviveN.survives_multi hI hvi hgh h0 hidx hfk hfv hdirty h ys hdir hpath hnames idx vm hm hsg
    call hcall
  refine ⟨hres, fun ops hc hf hcrit j op n hj => ?_⟩
  exact hall ops hc hf hcrit _ ((C09Hist.histCrash_iff _ ops _).2 ⟨j, op, n, hj, rfl⟩)

end Sdmmc.Props.C09Multi
