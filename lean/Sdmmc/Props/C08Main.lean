/-
C08 — HEADLINE THEOREM.

PROPERTY (verbatim from `properties.jsonl`).
statement:
  "Every handle the library returns is distinct from all handles currently open, and a handle that has been closed
  is rejected as a bad handle by every call that takes it, without any effect. At most the configured number of
  volumes, directories and files can be open, the call that would exceed a limit fails with the matching too-many
  error, closing frees the slot, a volume cannot be closed while anything on it is open nor opened twice, and the
  open-handle query tells the truth. A result-returning call made from inside a directory-iteration callback fails
  with the lock error and changes nothing."
quantifier:
  "all open/close histories over all limit configurations (1..8 of each kind), all stale-handle uses after close,
  and every public result-returning method invoked re-entrantly from a callback"

HOW TO READ `C08_main_partial`.
* `Mgr` (`Model/Mgr.lean`): the three tables `vols` / `dirs` / `files` (records carrying the handles `rawVolume` /
  `rawDirectory` / `rawFile`; a directory and a file record also carry the `rawVolume` they live on, a volume record the
  partition index `idx`), the limits `maxVols` / `maxDirs` / `maxFiles` (ANY natural numbers — "all limit configurations"),
  the wrapping 32-bit handle counter `nextId`, the borrow flag `locked` (true while a directory-iteration callback runs).
  `step t op = (t', out)`: one API call; `out.result` its answer.  `run s ops`: a history; `(run s (ops.take k)).1` the
  state after the first `k` calls, whatever they answered.
* `handles t` (`Props.C08.handles`): all handles open in `t`, of the three kinds.  `HInv t` (`Props.C08.HInv`): they are
  pairwise distinct, all below the counter, and no table is over its limit.
* `resetLogs t` is `t` with the per-call read / write logs emptied (`step` does that first); `refused e` is the answer
  `Err(e)` with nothing read and nothing written.  So `step t op = (resetLogs t, refused e)` says: the call answers
  `Err(e)`, does not touch the device, and changes NOTHING — every field of the state is as before.
* `fileHandleOf op` / `dirHandleOf op`: the file / directory handle the call `op` takes (`Props.C08`): `read`, `write`, the
  three seeks, `flush_file`, `close_file`, `file_length`, `file_offset`, `file_eof` / `open_dir`, `close_dir`,
  `open_file_in_dir`, `delete_file_in_dir`, `make_dir_in_dir`, `find_directory_entry`, `iterate_dir`, `iterate_dir_lfn`.
  The calls that take a volume handle are `close_volume`, `get_root_volume_label` and `open_root_dir`.

CLAUSES.  For EVERY history `ops` from a state with `HInv`, after EVERY number `k` of calls, in the state `t` reached
(`Enforced t`, in the order of the sentence):
  (fresh)   a handle returned by ANY call made in `t` is not among the handles open in `t`;
  (stale…)  a file / directory / volume handle that is not open — in particular one that has been closed: (closed) below —
            is refused by every call that takes it, with the state unchanged: `BadHandle`, except that, exactly as the
            code orders its checks, `open_dir` / `make_dir_in_dir` with the directory table full answer `TooManyOpenDirs`,
            `open_file_in_dir` with the file table full answers `TooManyOpenFiles`, and `close_volume` on a handle that an
            open file or directory still refers to answers `VolumeStillInUse` — all three without any effect either.
            NOT among the calls: `open_root_dir` — see FINDING.
  (atMost)  no table is over its limit;  (tooMany…) with a table full, the call that would add to it answers the matching
            too-many error, state unchanged (`open_root_dir` has drawn a handle number before it looks: the counter moves,
            nothing else);
  (close…)  `close_file` on an open handle frees exactly one slot WHATEVER the flush inside answers, `close_dir` on an open
            handle answers `Ok` and frees exactly one slot, a `close_volume` that answers `Ok` frees exactly one slot; the
            handle is not open afterwards;
  (inUse)   `close_volume` on a volume that an open file or directory refers to: `VolumeStillInUse`, state unchanged;
  (twice)   `open_volume` on a partition that is open: `VolumeAlreadyOpen` (`TooManyOpenVolumes` if the table is full,
            which is checked first), state unchanged;
  (query)   `has_open_handles` answers `true` exactly when a directory or a file is open, and changes nothing;
  (lock)    every `Result`-returning call made while the manager is borrowed answers `LockError`; every field of the state
            is unchanged.
And along the history: (config) the three limits are constants; (closed) a handle that was open after `i` calls and is
not open after `k ≥ i` calls — it has been closed — is not open after `k + j` calls, for every `j`: it is never handed
out again, so (stale…) applies to it in every later state.

HYPOTHESES.
* `HInv s`, `s.locked = false` at the start: hold of a fresh manager with ANY limits (tables empty: second example below).
* `s.nextId + ops.length + 1 < 2 ^ 32`: the 32-bit handle counter does not wrap during the history (each call draws at most
  one handle).  NECESSARY: `wrap_breaks_distinctness` below — at `nextId = 2^32 - 1` with handle 0 open, two `open_root_dir`
  calls leave two open directories with the same handle 0 (known finding: `Wrapping<u32>` handle generator).
Nothing is assumed about the device, the volume contents or the fault plan: the FAT layer is never unfolded.

FINDING (the model, like the crate, VIOLATES the sentence here; known_findings.json).  "A handle that has been closed is
rejected as a bad handle by every call that takes it" is FALSE for `open_root_dir`: it does not look its volume handle
up.  `open_root_dir_accepts_closed_volume`: after `close_volume 0` answered `Ok`, `open_root_dir 0` answers `Ok(handle)`
and adds an open directory on a volume that is not open.  The clause is therefore stated for every other call.

STATUS: PARTIAL — `C08_main_partial` proves every clause of the sentence for all histories and all limit configurations,
with these differences: (1) `open_root_dir` is excluded from (stale…) — violated, see FINDING; (2) in three cases a stale
handle is refused with a different error than `BadHandle` (a too-many error or `VolumeStillInUse`, checked first), still
without any effect; (3) the no-wrap hypothesis.  The RAII wrappers (`close`, `Drop`, `change_dir`), which the sentence does
not mention, are `Props/C08Wrap.lean`.
-/
import Sdmmc.Props.C08
import Sdmmc.Lemmas.MainC08
import Sdmmc.Props.C08GenM

namespace Sdmmc.Props.C08Main
open Sdmmc.Model
open Sdmmc.Lemmas.MHoare (resetLogs)
open Sdmmc.Props.C08

/-- The clauses of the sentence that speak about one state `t` — the state after any number of calls. -/
structure Enforced (t : Mgr) : Prop where
  fresh : ∀ op h, (step t op).2.result = .ok (.handle h) → h ∉ handles t
  staleFile : ∀ op f, fileHandleOf op = some f → f ∉ t.files.map (·.rawFile) → step t op = (resetLogs t, refused .BadHandle)
  staleDir : ∀ op d, dirHandleOf op = some d → d ∉ t.dirs.map (·.rawDirectory) →
    step t op = (resetLogs t, refused
      (if needsDirSlot op = true ∧ t.dirs.length ≥ t.maxDirs then .TooManyOpenDirs
       else if needsFileSlot op = true ∧ t.files.length ≥ t.maxFiles then .TooManyOpenFiles else .BadHandle))
  staleVol : ∀ v, v ∉ t.vols.map (·.rawVolume) →
    step t (.label v) = (resetLogs t, refused .BadHandle) ∧
    step t (.closeVolume v) = (resetLogs t, refused
      (if v ∈ t.files.map (·.rawVolume) ∨ v ∈ t.dirs.map (·.rawVolume) then .VolumeStillInUse else .BadHandle))
  atMost : t.vols.length ≤ t.maxVols ∧ t.dirs.length ≤ t.maxDirs ∧ t.files.length ≤ t.maxFiles
  tooManyVols : t.vols.length = t.maxVols → ∀ i, step t (.openVolume i) = (resetLogs t, refused .TooManyOpenVolumes)
  tooManyDirs : t.dirs.length = t.maxDirs → ∀ d nm v,
    step t (.openDir d nm) = (resetLogs t, refused .TooManyOpenDirs) ∧
    step t (.mkdir d nm) = (resetLogs t, refused .TooManyOpenDirs) ∧
    step t (.openRoot v) = ({ resetLogs t with nextId := (t.nextId + 1) % 4294967296 }, refused .TooManyOpenDirs)
  tooManyFiles : t.files.length = t.maxFiles → ∀ d nm m, step t (.openFile d nm m) = (resetLogs t, refused .TooManyOpenFiles)
  closeFile : ∀ f, f ∈ t.files.map (·.rawFile) →
    (step t (.closeFile f)).1.files.length = t.files.length - 1 ∧ f ∉ (step t (.closeFile f)).1.files.map (·.rawFile)
  closeDir : ∀ d, d ∈ t.dirs.map (·.rawDirectory) → (step t (.closeDir d)).2.result = .ok .unit ∧
    (step t (.closeDir d)).1.dirs.length = t.dirs.length - 1 ∧ d ∉ (step t (.closeDir d)).1.dirs.map (·.rawDirectory)
  closeVolume : ∀ v, (step t (.closeVolume v)).2.result = .ok .unit →
    (step t (.closeVolume v)).1.vols.length = t.vols.length - 1 ∧ v ∉ (step t (.closeVolume v)).1.vols.map (·.rawVolume)
  inUse : ∀ v, v ∈ t.files.map (·.rawVolume) ∨ v ∈ t.dirs.map (·.rawVolume) →
    step t (.closeVolume v) = (resetLogs t, refused .VolumeStillInUse)
  twice : ∀ i, i ∈ t.vols.map (·.idx) → step t (.openVolume i) =
    (resetLogs t, refused (if t.vols.length ≥ t.maxVols then .TooManyOpenVolumes else .VolumeAlreadyOpen))
  query : step t .hasOpen = (resetLogs t, { result := .ok (.bool (hasOpenHandles t)), writes := [], reads := [] }) ∧
    (hasOpenHandles t = true ↔ t.dirs ≠ [] ∨ t.files ≠ [])
  lock : ∀ op, op.returnsResult = true →
    step { t with locked := true } op = ({ t with locked := true }, refused .LockError)

/-- Every state with the handle invariant, not borrowed, one handle away from the wrap at least, enforces the clauses. -/
theorem enforced_of_inv (t : Mgr) (hi : HInv t) (hl : t.locked = false) (hn : t.nextId + 1 < 2 ^ 32) : Enforced t where
  fresh := fun op h hr => (fresh_handle_distinct t op h hi hn hr).2
  staleFile := fun op f hop hf => bad_file_handle_rejected t op f hop hl hf
  staleDir := fun op d hop hd => by
    by_cases h1 : needsDirSlot op = true ∧ t.dirs.length ≥ t.maxDirs
    · rw [if_pos h1]
      cases op <;> first | exact absurd h1.1 Bool.false_ne_true | skip
      · exact ((limits_exact t hl).2.1 h1.2 _ _).1
      · exact ((limits_exact t hl).2.1 h1.2 _ _).2
    · rw [if_neg h1]
      by_cases h2 : needsFileSlot op = true ∧ t.files.length ≥ t.maxFiles
      · rw [if_pos h2]
        cases op <;> first | exact absurd h2.1 Bool.false_ne_true | skip
        exact (limits_exact t hl).1 h2.2 _ _ _
      · rw [if_neg h2]
        exact bad_dir_handle_rejected t op d hop hl hd
          (fun h => Nat.lt_of_not_le fun hle => h1 ⟨h, hle⟩) (fun h => Nat.lt_of_not_le fun hle => h2 ⟨h, hle⟩)
  staleVol := fun v hv => by
    refine ⟨(bad_volume_handle_rejected t v hl hv).2, ?_⟩
    by_cases hu : v ∈ t.files.map (·.rawVolume) ∨ v ∈ t.dirs.map (·.rawVolume)
    · rw [if_pos hu]; exact close_volume_guard t v hl hu
    · rw [if_neg hu]
      exact (bad_volume_handle_rejected t v hl hv).1 (fun h => hu (.inl h)) (fun h => hu (.inr h))
  atMost := hi.2.2
  tooManyVols := fun h i => (limits_exact t hl).2.2.2 (Nat.le_of_eq h.symm) i
  tooManyDirs := fun h d nm v =>
    ⟨((limits_exact t hl).2.1 (Nat.le_of_eq h.symm) d nm).1, ((limits_exact t hl).2.1 (Nat.le_of_eq h.symm) d nm).2,
     (limits_exact t hl).2.2.1 (Nat.le_of_eq h.symm) v⟩
  tooManyFiles := fun h d nm m => (limits_exact t hl).1 (Nat.le_of_eq h.symm) d nm m
  closeFile := fun f hf => ⟨(close_file_effect t f hl hi hf).1, (close_file_effect t f hl hi hf).2.1⟩
  closeDir := fun d hd =>
    ⟨(close_dir_effect t d hl hi hd).1, (close_dir_effect t d hl hi hd).2.1, (close_dir_effect t d hl hi hd).2.2.1⟩
  closeVolume := fun v hok => ⟨(close_volume_effect t v hl hi hok).1, (close_volume_effect t v hl hi hok).2.1⟩
  inUse := fun v hu => close_volume_guard t v hl hu
  twice := fun i ho => by
    by_cases hf : t.vols.length ≥ t.maxVols
    · rw [if_pos hf]; exact (limits_exact t hl).2.2.2 hf i
    · rw [if_neg hf]; exact volume_double_open t i hl (Nat.lt_of_not_le hf) ho
  query := ⟨has_open_handles_step t hl, has_open_handles_truth t⟩
  lock := fun op h => reentrant_lock t op h

/-- **C08.**  See the header. -/
theorem C08_main_partial (s : Mgr) (ops : List Op) (hi : HInv s) (hl : s.locked = false)
    (hn : s.nextId + ops.length + 1 < 2 ^ 32) :
    -- after every number `k` of calls: (config), the invariant, the clauses
    (∀ k, ((run s (ops.take k)).1.maxVols = s.maxVols ∧ (run s (ops.take k)).1.maxDirs = s.maxDirs ∧
        (run s (ops.take k)).1.maxFiles = s.maxFiles) ∧
      HInv (run s (ops.take k)).1 ∧ Enforced (run s (ops.take k)).1) ∧
    -- (closed)
    ∀ i k j h, i ≤ k → h ∈ handles (run s (ops.take i)).1 → h ∉ handles (run s (ops.take k)).1 →
      h ∉ handles (run s (ops.take (k + j))).1 := by
  have hlen : ∀ k, (ops.take k).length ≤ ops.length := fun k => by rw [List.length_take]; exact Nat.min_le_right _ _
  refine ⟨fun k => ?_, fun i k j h hik ho hc =>
    Lemmas.MainC08.closed_stays_closed s ops hi (by have : (2:Nat) ^ 32 = 4294967296 := rfl; omega) i k j h hik ho hc⟩
  have h32 : (2:Nat) ^ 32 = 4294967296 := rfl
  have sp := Lemmas.Tables.run_spec (ops.take k) s hi (by have := hlen k; omega)
  obtain ⟨c1, c2, c3, c4⟩ := Lemmas.MainC08.run_cfg (ops.take k) s
  exact ⟨⟨c2, c3, c4⟩, sp.1, enforced_of_inv _ sp.1 (c1.trans hl) (by have := sp.2.2.1; have := hlen k; omega)⟩

/-- **The functions are the source's.**  The handle generator, the three handle look-ups, `open_root_dir`, `close_dir`,
`close_volume` and `has_open_handles`, WHOLE, as REGENERATED FROM THE SOURCE (`Gen.FunsMgr`, `Props/C08GenM.lean`), are the
model's as functions of the manager state — the re-entrancy check (`LockError` when borrowed) in front included.
(`open_raw_volume` whole: `C15Main.C15_main_source`.  `has_open_handles`, which returns no `Result`, panics when borrowed.) -/
theorem C08_main_source :
    Gen.FunsMgr.HandleGenerator_generate = generate ∧
    (∀ raw, Gen.FunsMgr.VolumeManagerData_get_volume_by_id raw = getVolumeById raw) ∧
    (∀ raw, Gen.FunsMgr.VolumeManagerData_get_dir_by_id raw = getDirById raw) ∧
    (∀ raw, Gen.FunsMgr.VolumeManagerData_get_file_by_id raw = getFileById raw) ∧
    (∀ volume s, Gen.FunsMgr.VolumeManager_open_root_dir volume s =
      if s.locked then (.err .LockError, s) else openRootDir volume s) ∧
    (∀ directory s, Gen.FunsMgr.VolumeManager_close_dir directory s =
      if s.locked then (.err .LockError, s) else closeDir directory s) ∧
    (∀ volume s, Gen.FunsMgr.VolumeManager_close_volume volume s =
      if s.locked then (.err .LockError, s) else closeVolume volume s) ∧
    (∀ s, Gen.FunsMgr.VolumeManager_has_open_handles s =
      if s.locked then (.panic "already mutably borrowed", s) else (.ok (hasOpenHandles s), s)) :=
  ⟨C08GenM.generate_eq, C08GenM.get_volume_by_id_eq, C08GenM.get_dir_by_id_eq, C08GenM.get_file_by_id_eq,
   C08GenM.open_root_dir_eq, C08GenM.close_dir_eq, C08GenM.close_volume_eq, C08GenM.has_open_handles_eq⟩

/-! ### The two findings, as theorems -/

/-- **`open_root_dir` accepts a closed volume handle** (known finding).  From the example state of `Props.C08` (volume 0,
directory 3 and file 4 open): after `close_file 4`, `close_dir 3`, `close_volume 0` — the last answers `Ok`, no volume is
open any more — `open_root_dir 0` answers `Ok(5)`: a directory is open on a volume that is not. -/
theorem open_root_dir_accepts_closed_volume :
    (run sEx [.closeFile 4, .closeDir 3, .closeVolume 0]).1.vols = [] ∧
    (match (step (run sEx [.closeFile 4, .closeDir 3]).1 (.closeVolume 0)).2.result with
      | .ok .unit => true
      | _ => false) = true ∧
    (step (run sEx [.closeFile 4, .closeDir 3, .closeVolume 0]).1 (.openRoot 0)).2.result = .ok (.handle 5) ∧
    (step (run sEx [.closeFile 4, .closeDir 3, .closeVolume 0]).1 (.openRoot 0)).1.dirs.map (·.rawVolume) = [0] := by
  refine ⟨by decide +kernel, rfl, rfl, by decide +kernel⟩

/-- **The no-wrap hypothesis is necessary**: `sWrap` of `Props.C08` (counter at `2^32 - 1`, directory handle 0 open) has
the invariant; two `open_root_dir` calls later two open directories carry the handle 0. -/
theorem wrap_breaks_distinctness : HInv sWrap ∧ ¬ (handles (run sWrap [.openRoot 7, .openRoot 7]).1).Nodup :=
  ⟨⟨by decide, by decide, by decide, by decide, by decide⟩, by decide⟩

/-! ### Non-vacuity -/

namespace Example

/-- The example state of `Props.C08` (one volume, one directory, one file open; `maxVols = 1`, `maxDirs = 2`,
`maxFiles = 1`) and a history over it: the hypotheses hold. -/
example := C08_main_partial sEx [.openRoot 0, .closeDir 3, .read 3 1, .closeFile 4, .closeVolume 0, .hasOpen]
  ⟨by decide, by decide, by decide, by decide, by decide⟩ rfl (by decide)

/-- A fresh manager — empty tables — with ANY limits and any counter value satisfies the start hypotheses. -/
example (s : Mgr) (hv : s.vols = []) (hd : s.dirs = []) (hf : s.files = []) : HInv s := by
  unfold HInv handles
  rw [hv, hd, hf]
  exact ⟨by simp, by simp, Nat.zero_le _, Nat.zero_le _, Nat.zero_le _⟩

end Example

end Sdmmc.Props.C08Main
