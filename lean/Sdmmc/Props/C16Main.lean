/-
C16 — headline theorem.

Property C16, `statement` (verbatim):
  "Whenever an API call has returned, every FAT copy on a multi-FAT volume is byte-identical to
  the first. On FAT32, after a flush or volume close the stored free-cluster count has changed by
  exactly the change in the number of free FAT entries since mount (so a count that was correct
  stays correct and one marked unknown stays unknown), and the next-free hint is unknown or a
  cluster inside the volume. A wrong or out-of-range record found at mount never makes an
  operation fail or panic."
`quantifier.text` (verbatim):
  "all histories of allocation, truncation and deletion; volumes with 1 and 2 FATs; information
  sectors starting with correct, unknown (0xFFFFFFFF) and stale values"

`C16_main_partial` is ONE statement over every history `ops` of the 24 API calls of the manager
model (`Model/Mgr.lean`: create, write, truncate, delete, mkdir, … in any order, whatever they
answer), from every state `s` satisfying the standing invariant, on every geometry (1 or 2 FATs:
`fatBlock2` is `none` on a single-FAT volume and `Mirror` is then vacuous), for every offset `δ`
between the in-memory count and the truth (correct record: `δ = 0`; stale: `δ ≠ 0`; unknown
count: `Bal` says nothing about it).

How to read it.  `run s ops` runs the calls; `(run s (ops.take k)).1` is the state after the
first `k` calls ("whenever an API call has returned").  `Mirror v d` (`Spec/Forest.lean`): FAT
copy 2 is block-for-block identical to copy 1.  `Bal δ v d` (`Props/C16Hist2.lean`, `bal_def`
below): the in-memory count, when known, plus `δ` is the number of free FAT entries of the medium
— `δ` never changes, i.e. the count changes by exactly the change in the number of free entries.
`HintOK v`: the hint is unknown or `≥ 2`.  `normCount`: how mounting reads a stored count
(`0xFFFFFFFF` = unknown).  `Stores v b b'` (`Props/C16Api.lean`): `b'` is the info sector `b` with
the record of `v` stored at offsets 488 / 492.

Standing hypotheses:
* `VolInvC s gh δ` (`Props/C16Hist2.lean`) = the volume invariant `VolInv` of C03 + `Mirror` + every
  open volume in balance with offset `δ` + `DeltaOK gh.vol δ`; established by mounting
  (`C15Fs`), discharged on the example state by `Example.invC32`.  `DeltaOK` (`δ ≤ 0`, and
  `endCluster − δ ≤ u32::MAX`) is FORCED: outside it the `u32` count saturates and `δ` drifts —
  known findings, evaluated in `C16Hist2.Example.underreporting_count_drifts` /
  `saturating_count_drifts`; the correct record (`δ = 0`) is always inside (`deltaOK_zero`).
* `CoveredRun s ops` (`Props/C03Inv.lean`): names whose first byte would be stored as 0xE5
  excluded; `open_volume` only while a volume is open, where it is refused (several volumes:
  `C16Multi.history_accounting_multi_prefix`, same statement per volume).
* for `close_remount`: FAT32, the medium mounts at the start with the volume's geometry, the hint
  fits 32 bits (a `u32` in the crate), `close_volume` answers `Ok`.

PARTIAL — clause by clause:
* FAT copies identical after every call: FULL (`copies_identical`).
* count changed by exactly the change in free entries: FULL for the in-memory record after every
  call (`in_balance`) and for what the next mount reads after `close_volume` (`close_remount`);
  for `flush` the record stored is the in-memory one (`flush_stores`, under the data-plane
  hypotheses of `C16Api.flush_stores_record`), not re-proved over all-call histories.
  "correct stays correct": `δ = 0` (`exact_stays_exact`).  "unknown stays unknown": proved for the
  FAT-level operations (`C16Hist.count_unknown_stays_unknown`) and for `write`
  (`C16Api.Took.count`), NOT carried through all 24 calls — missing lemma, no counterexample known.
* "next-free hint is unknown or a cluster inside the volume": FALSE as stated — known finding:
  mounting accepts any stored hint except 0, 1, 0xFFFFFFFF, calls that allocate nothing leave it
  alone and `close_volume` writes it back (`C16Api.Example.hint_out_of_range_written_back`).
  Proved instead: unknown or `≥ 2` in every reachable state (`hint`), and inside the volume
  after every allocation (`C16.alloc_hint_in_range`, `C16Api.Took.hintIn`).
* "a wrong or out-of-range record never makes an operation fail or panic": proved for `write`,
  the only call whose behaviour could depend on it (`stale_harmless`: same answer for ANY count
  and any hint mounting can produce; the answer is a function of the medium); a lying info sector
  mounts (`C16Multi.Example.lying_info_sector_mounts`).  Not stated for the other 23 calls.
* `source`: the functions that do the bookkeeping (`alloc_cluster`, `truncate_cluster_chain`,
  `free_cluster_chain`) are the ones REGENERATED FROM THE SOURCE (`Props/C16GenM.lean`).
-/
import Sdmmc.Lemmas.MainK16
import Sdmmc.Props.C16GenM

namespace Sdmmc.Props.C16Main
open Sdmmc.Model Sdmmc.Model.Fat Sdmmc.Spec.Volume Sdmmc.Gen
open Sdmmc.Spec hiding run step NoFault Coherent
open Sdmmc.Spec.DataPlane
open Sdmmc.Props.C03Inv (Covered CoveredRun)
open Sdmmc.Props.C16Hist2
open Sdmmc.Props.C16Api (normCount Stores RecordFits outcome)
open Sdmmc.Props.C01Read (MgrOK)

theorem bal_def (δ : Int) (v : FatVolume) (d : Disk) :
    Bal δ v d ↔ ∀ n, v.freeClustersCount = some n → (n : Int) + δ = (freeCount v d : Int) := Iff.rfl
theorem mirror_def (v : FatVolume) (d : Disk) :
    Mirror v d ↔ ∀ c, c < endCluster v → ∀ b2, fatBlock2 v c = some b2 → d.get b2 = d.get (fatBlock v c) := Iff.rfl
theorem hintOK_def (v : FatVolume) : HintOK v ↔ ∀ n, v.nextFreeCluster = some n → 2 ≤ n := Iff.rfl

/-- The history clauses. -/
structure Clauses (s : Mgr) (gh : Ghost) (δ : Int) (ops : List Op) : Prop where
  /-- whenever an API call has returned, FAT copy 2 is identical to copy 1 -/
  copies_identical : ∀ k, Mirror gh.vol (run s (ops.take k)).1.dev.disk ∧
    ∀ vi, vi ∈ (run s (ops.take k)).1.vols → Mirror vi.vol (run s (ops.take k)).1.dev.disk
  /-- … and the in-memory count, when known, is off by the same `δ` as at the start -/
  in_balance : ∀ k, ∀ vi, vi ∈ (run s (ops.take k)).1.vols → Bal δ vi.vol (run s (ops.take k)).1.dev.disk
  /-- … and the hint is unknown or `≥ 2` -/
  hint : ∀ k, ∀ vi, vi ∈ (run s (ops.take k)).1.vols → HintOK vi.vol
  /-- after `close_volume`: the medium mounts again, FAT copies identical, and the count the
  mount reads is the in-memory count at the close, in balance with the SAME `δ` -/
  close_remount : gh.vol.fatType = .fat32 → ∀ (idx : Nat) (w0 : FatVolume),
    mountPure (s.dev.disk.get 0) idx s.dev.disk.get = .ok w0 → SameGeom w0 gh.vol → ∀ (vol : Nat),
    (step (run s ops).1 (.closeVolume vol)).2.result = .ok .unit →
    (∀ vi, vi ∈ (run s ops).1.vols → ∀ n, vi.vol.nextFreeCluster = some n → n < 4294967296) →
    ∃ w' v2, (run s ops).1.vols = [v2] ∧
      mountPure ((step (run s ops).1 (.closeVolume vol)).1.dev.disk.get 0) idx
        (step (run s ops).1 (.closeVolume vol)).1.dev.disk.get = .ok w' ∧
      SameGeom gh.vol w' ∧ (step (run s ops).1 (.closeVolume vol)).1.vols = [] ∧
      Mirror gh.vol (step (run s ops).1 (.closeVolume vol)).1.dev.disk ∧
      freeCount gh.vol (step (run s ops).1 (.closeVolume vol)).1.dev.disk = freeCount gh.vol (run s ops).1.dev.disk ∧
      (∀ n, v2.vol.freeClustersCount = some n → w'.freeClustersCount = normCount n) ∧
      (v2.vol.freeClustersCount ≠ none → Bal δ w' (step (run s ops).1 (.closeVolume vol)).1.dev.disk)

/-- The clauses that are not about a history. -/
structure RecordFacts : Prop where
  /-- `flush_file` stores the in-memory record in the info sector (FAT32) -/
  flush_stores : ∀ (s : Mgr) (h i vi : Nat) (f : FileInfo) (v : VolInfo), MgrOK s →
    s.files.findIdx? (·.rawFile = h) = some i → s.files[i]? = some f →
    s.vols.findIdx? (·.rawVolume = f.rawVolume) = some vi → s.vols[vi]? = some v →
    f.dirty = true → ¬ (f.entry.size ≠ 0 ∧ f.entry.cluster = 0) →
    f.entry.entryOffset + 32 ≤ 512 → f.entry.name.length = 11 →
    f.entry.entryBlock ≠ v.vol.infoLocation → RecordFits v.vol →
    ∃ s1, flushFile h s = (.ok (), s1) ∧
      (v.vol.fatType = .fat32 → Stores v.vol (s.dev.disk.get v.vol.infoLocation) (s1.dev.disk.get v.vol.infoLocation))
  /-- a stale or absurd record (ANY count, any hint mounting can produce) does not change what
  `write` answers: the answer is `outcome`, a function of the medium — never a panic -/
  stale_harmless : ∀ (s : Mgr) (h i vi : Nat) (data : Bytes) (f : FileInfo) (v : VolInfo) (cs : List Nat)
    (A B : List (List Nat)), MgrOK s →
    s.files.findIdx? (·.rawFile = h) = some i → s.files[i]? = some f →
    s.vols.findIdx? (·.rawVolume = f.rawVolume) = some vi → s.vols[vi]? = some v →
    f.mode ≠ .ReadOnly → WFGeom v.vol → HintOK v.vol →
    FileOK v.vol s.dev.disk f cs → (cs = [] → f.curCluster < 2) →
    Owns v.vol s.dev.disk (withChain A cs B) →
    f.currentOffset + data.length ≤ Gen.MAX_FILE_SIZE →
    ∀ (cnt hint : Option Nat), (∀ n, hint = some n → 2 ≤ n) →
    let v2 : VolInfo := { v with vol := { v.vol with freeClustersCount := cnt, nextFreeCluster := hint } }
    let s2 : Mgr := { s with vols := s.vols.set vi v2 }
    (write h data s2).1 = (write h data s).1 ∧
    (write h data s2).1 = outcome v.vol s.dev.disk cs f.currentOffset data.length
  /-- the bookkeeping functions are the ones regenerated from the source -/
  source : ∀ (s : FS),
    (∀ cluster, FunsM.FatVolume_truncate_cluster_chain (chainFuel s.vol) cluster s = truncateClusterChain cluster s) ∧
    (∀ cluster, FunsM.FatVolume_free_cluster_chain (chainFuel s.vol) cluster s = freeClusterChain cluster s) ∧
    (∀ prev zero fuel, fuel ≥ s.vol.clusterCount + 4 → fuel ≥ s.vol.blocksPerCluster + 1 →
      FunsM.FatVolume_alloc_cluster fuel prev zero s = allocCluster prev zero s)

theorem prefix_inv (s : Mgr) (gh : Ghost) (δ : Int) (ops : List Op) (hI : VolInvC s gh δ) (hc : CoveredRun s ops)
    (k : Nat) : ∃ gh', VolInvC (run s (ops.take k)).1 gh' δ ∧ SameGeom gh.vol gh'.vol := by
  obtain ⟨gh', h, g, _⟩ := history_accounting (ops.take k) s gh δ hI (Lemmas.MainK16.coveredRun_take ops s hc k)
  exact ⟨gh', h, g⟩

theorem C16_main_partial (s : Mgr) (gh : Ghost) (δ : Int) (ops : List Op) (hI : VolInvC s gh δ)
    (hc : CoveredRun s ops) : Clauses s gh δ ops ∧ RecordFacts := by
  refine ⟨?_, ?_⟩
  · exact
    { copies_identical := fun k => by
        obtain ⟨gh', h, g⟩ := prefix_inv s gh δ ops hI hc k
        refine ⟨(g.mirror _).1 h.inv.2, fun vi hvi => ?_⟩
        rcases h.inv.1.vols with h0 | ⟨vi', hv, hvol⟩
        · rw [h0] at hvi; cases hvi
        · rw [hv] at hvi
          rw [List.mem_singleton.1 hvi, hvol]
          exact h.inv.2
      in_balance := fun k vi hvi => by
        obtain ⟨gh', h, _⟩ := prefix_inv s gh δ ops hI hc k
        exact h.count vi hvi
      hint := fun k vi hvi => by
        obtain ⟨gh', h, _⟩ := prefix_inv s gh δ ops hI hc k
        exact hint_ok h vi hvi
      close_remount := fun h32 idx w0 hm hsg0 vol hok hfit =>
        count_truthful_after_close_all s gh δ hI ops hc h32 idx w0 hm hsg0 vol hok hfit }
  · exact
    { flush_stores := fun s h i vi f v hs hh hf hv hvi hd hassert ho hname hne hfit => by
        obtain ⟨s1, h1, _, _, _, h5, _⟩ := C16Api.flush_stores_record s h i vi f v hs hh hf hv hvi hd hassert ho hname hne hfit
        exact ⟨s1, h1, h5⟩
      stale_harmless := fun s h i vi data f v cs A B hs hh hf hv hvi hmode hg hhint hok hcur hown hmax cnt hint hh2 =>
        C16Api.stale_record_harmless s h i vi data f v cs A B hs hh hf hv hvi hmode hg hhint hok hcur hown hmax cnt hint hh2
      source := fun s => ⟨fun c => C16GenM.truncate_cluster_chain_eq c s, fun c => C16GenM.free_cluster_chain_eq c s,
        fun prev zero fuel hf hz => C16GenM.alloc_cluster_eq prev zero fuel s hf hz⟩ }

/-- "A count that was correct stays correct": `δ = 0`. -/
theorem C16_exact_stays_exact (s : Mgr) (gh : Ghost) (ops : List Op) (hI : VolInvC s gh 0) (hc : CoveredRun s ops) (k : Nat) :
    ∀ vi, vi ∈ (run s (ops.take k)).1.vols → ∀ n, vi.vol.freeClustersCount = some n →
      n = freeCount vi.vol (run s (ops.take k)).1.dev.disk :=
  fun vi hvi => (bal_zero _ _).1 ((C16_main_partial s gh 0 ops hI hc).1.in_balance k vi hvi)

namespace Example
open Sdmmc.Props.C16Hist2.Example Sdmmc.Lemmas.VolExample

/-- The FAT32 example volume of `C16Hist2` (20 clusters, 15 free, count 15: `δ = 0`) and its
history of create / write / mkdir / delete / truncate: both standing hypotheses discharged. -/
example : Clauses mgr32 gh32 0 ops32 ∧ RecordFacts := C16_main_partial mgr32 gh32 0 ops32 invC32 ops32_covered

/-- … evaluated: count and free FAT entries move together, 15 → 12 → 11 → 13 → 15. -/
example : (List.range 10).map (fun k => ((run mgr32 (ops32.take k)).1.vols.map fun v => v.vol.freeClustersCount,
      freeCount vol32 (run mgr32 (ops32.take k)).1.dev.disk)) =
      [([some 15], 15), ([some 15], 15), ([some 12], 12), ([some 11], 11), ([some 13], 13), ([some 13], 13),
       ([some 13], 13), ([some 13], 13), ([some 15], 15), ([some 15], 15)] := ops32_run.2

end Example

end Sdmmc.Props.C16Main
