/-
C01, wrapper side — `embedded_io::{Read, Write, Seek}` for `File` and the observers
`File::{length, offset, is_eof}` refine the byte-array model exactly as far as their integer
conversions and shortcuts allow.

Property theorems only; the proofs are in `Sdmmc.Lemmas.WrapBase` (combinators, observers, seek),
`Sdmmc.Lemmas.WrapIo` (read / write / flush) and `Sdmmc.Lemmas.WrapStep` (the transition function).
Model: `Sdmmc.Model.Wrap` (`File.ioSeek`, `File.ioRead`, `File.ioWrite`, `File.ioFlush`,
`File.length` / `offset` / `isEof`, `call`, `expect`, `wstep`).
Specification vocabulary: `Sdmmc.Spec.Wrap` (`target`, `seekSpec`, `ConvOK`, `expectRes`), and for the
read / write reductions the vocabulary of `Sdmmc.Props.C01Read` / `Sdmmc.Props.C01Write`.

STATUS: PROVED (no theorem below is `_partial`).

REPAIRED FINDING.  Until the repair of `Seek::seek` (`SeekFrom::Current(x)` used to convert `x` to
`i32` and call `seek_from_current`, so that on a file longer than `i32::MAX` bytes a relative seek
by more than 2 GiB − 1 was refused although its target lay inside the file — formerly
`io_seek_current_incomplete`), the conversions lost legitimate targets.  The model follows the
repaired code: `Current(x)` reads the position with the raw `file_offset`, computes
`i64::from(pos).checked_add(x)`, converts the target to `u32` and seeks from the start.  Now
`io_seek_complete`: on a file whose length fits `u32`, `seek` IS the byte-array cursor — every target
in `[0, len]` is reached, and the only refusals are targets outside the file (`io_seek_refused_iff`),
an `i64` overflow of `pos + x` being one of them (`io_seek_overflow_outside`).  The former
counterexample now succeeds (`Example.current_on_3GiB_file`).

Other observations stated below:
* order of refusals (`io_seek_conversion_first`, `io_seek_current_handle_first`): `Start` / `End`
  convert their argument first — a refused argument is `InvalidOffset` even on a handle that is not
  open and even with the manager borrowed; `Current` looks at the file first — `LockError` /
  `BadHandle` whatever the offset, and `InvalidOffset` only on an open handle;
* `Seek::seek` never panics, for any argument in any state (`io_seek_total`) — `End(i64::MIN)`,
  `Current(i64::MIN)`, `Current(i64::MAX)` included (`Example.end_i64_min`);
* empty buffers: `Read::read` / `Write::write` make no call at all, so they answer `Ok(0)` on a
  handle that is not open, where the raw calls answer `BadHandle` (`io_read_empty`,
  `io_write_empty`, `Example.empty_on_bad_handle`); and the raw `write` of zero bytes is NOT a
  no-op (it marks the file dirty and allocates the first cluster of an empty file) while the wrapper's
  is (`Example.empty_write_differs`);
* `length` / `offset` / `is_eof` panic exactly when the handle is not open or the manager is
  borrowed (`wrapper_observers_panic_iff`).
-/
import Sdmmc.Props.C01Write
import Sdmmc.Lemmas.WrapStep

namespace Sdmmc.Props.C01Io
open Sdmmc.Model Sdmmc.Model.Fat Sdmmc.Model.Wrap Sdmmc.Spec Sdmmc.Spec.Wrap Sdmmc.Props.C01Read
open Sdmmc.Lemmas.MHoare (resetLogs)

/-! ### 1. `Seek::seek` -/

/-- **Main theorem.**  `h` is an open file handle (slot `i`, record `f`), the manager is not
borrowed.  For EVERY argument (any natural number as `Start`, any integer as `End` / `Current` — the
`u64` / `i64` values are among them): when the integer arithmetic accepts it (`ConvOK`, which for
`Current` depends on the position), the answer is the byte-array cursor's — `Ok(t)` with `t` the
target position if `0 ≤ t ≤ len`, the offset of slot `i` becomes `t` and nothing else changes (no
other file, no table, no device, no cache); `InvalidOffset` and nothing at all changed otherwise —
and when it refuses, `InvalidOffset` and nothing changed.  No hypothesis on the file length. -/
theorem io_seek_refines (s : Mgr) (h i : Nat) (f : FileInfo) (p : SeekFrom) (hl : s.locked = false)
    (hh : s.files.findIdx? (·.rawFile = h) = some i) (hf : s.files[i]? = some f) :
    File.ioSeek h p s =
      if ConvOK f.currentOffset p then
        match seekSpec f.entry.size f.currentOffset p with
        | some t => (.ok t, { s with files := s.files.set i { f with currentOffset := t } })
        | none => (.err .InvalidOffset, s)
      else (.err .InvalidOffset, s) :=
  Lemmas.Wrap.ioSeek_spec hl hh hf p

/-- The arithmetic loses no target: whenever the target lies in `[0, size]` (`size` a `u32`), the
argument is accepted — all three kinds. -/
theorem io_seek_conv_complete (size pos : Nat) (p : SeekFrom) (hsz : size ≤ U32_MAX)
    (ht : (seekSpec size pos p).isSome) : ConvOK pos p :=
  Lemmas.Wrap.conv_complete size pos p hsz ht

/-- **Completeness** (replaces the finding `io_seek_current_incomplete`).  On an open file whose
length fits `u32`, for EVERY `SeekFrom` value: `seek` is exactly the byte-array cursor — `Ok(t)` and
the offset set to `t` when the target `t` lies in `[0, len]`, `InvalidOffset` and nothing changed
otherwise. -/
theorem io_seek_complete (s : Mgr) (h i : Nat) (f : FileInfo) (p : SeekFrom) (hl : s.locked = false)
    (hh : s.files.findIdx? (·.rawFile = h) = some i) (hf : s.files[i]? = some f)
    (hsz : f.entry.size ≤ U32_MAX) :
    File.ioSeek h p s =
      match seekSpec f.entry.size f.currentOffset p with
      | some t => (.ok t, { s with files := s.files.set i { f with currentOffset := t } })
      | none => (.err .InvalidOffset, s) :=
  Lemmas.Wrap.ioSeek_exact hl hh hf hsz p

/-- What remains refused, exactly: the targets outside the file. -/
theorem io_seek_refused_iff (s : Mgr) (h i : Nat) (f : FileInfo) (p : SeekFrom) (hl : s.locked = false)
    (hh : s.files.findIdx? (·.rawFile = h) = some i) (hf : s.files[i]? = some f)
    (hsz : f.entry.size ≤ U32_MAX) :
    (File.ioSeek h p s).1 = .err .InvalidOffset ↔
      ¬ (0 ≤ target f.entry.size f.currentOffset p ∧ target f.entry.size f.currentOffset p ≤ (f.entry.size : Int)) := by
  rw [Lemmas.Wrap.ioSeek_exact hl hh hf hsz p]
  unfold seekSpec
  by_cases hz : 0 ≤ target f.entry.size f.currentOffset p ∧ target f.entry.size f.currentOffset p ≤ (f.entry.size : Int)
  · rw [if_pos hz]
    exact ⟨(fun hc => by cases hc), fun hc => absurd hz hc⟩
  · rw [if_neg hz]
    exact ⟨fun _ => hz, fun _ => rfl⟩

/-- The `checked_add` refusal is one of them: a sum `pos + x` outside the `i64` range is a target
outside the file. -/
theorem io_seek_overflow_outside (size pos : Nat) (o : Int) (hsz : size ≤ U32_MAX)
    (hov : ¬ (I64_MIN ≤ (pos : Int) + o ∧ (pos : Int) + o ≤ I64_MAX)) :
    seekSpec size pos (.current o) = none :=
  Lemmas.Wrap.overflow_outside size pos o hsz hov

/-- `ConvOK` for `Current`, spelled with the two steps of the Rust: `checked_add` succeeds and the
sum fits `u32`. -/
theorem io_seek_current_arith (pos : Nat) (o : Int) :
    ConvOK pos (.current o) ↔
      (I64_MIN ≤ (pos : Int) + o ∧ (pos : Int) + o ≤ I64_MAX) ∧ 0 ≤ (pos : Int) + o ∧ (pos : Int) + o ≤ (U32_MAX : Int) :=
  Lemmas.Wrap.convOK_current_iff pos o

/-- **Never a panic**, whatever the state (handle open or not, manager borrowed or not) and whatever
the argument: `Ok` with one offset of the file table changed, or one of three errors with nothing
changed. -/
theorem io_seek_total (s : Mgr) (h : Nat) (p : SeekFrom) :
    (∃ (t i : Nat) (f : FileInfo), File.ioSeek h p s = (.ok t, { s with files := s.files.set i { f with currentOffset := t } })) ∨
    (∃ e : Err, File.ioSeek h p s = (.err e, s) ∧ (e = .InvalidOffset ∨ e = .BadHandle ∨ e = .LockError)) :=
  Lemmas.Wrap.ioSeek_total s h p

/-- `Start` / `End`: the conversions come first — a refused argument is answered `InvalidOffset` in
every state (handle open or not, manager borrowed or not).  This does NOT hold for `Current` any
more, see `io_seek_current_handle_first`. -/
theorem io_seek_conversion_first (s : Mgr) (h pos : Nat) (p : SeekFrom) (hk : p.isCurrent = false)
    (hc : ¬ ConvOK pos p) : File.ioSeek h p s = (.err .InvalidOffset, s) :=
  Lemmas.Wrap.ioSeek_conv_fail s h pos p hk hc

/-- `Current`: the file comes first — with the manager borrowed the answer is `LockError`, on a
handle that is not open it is `BadHandle`, for EVERY offset (`i64::MIN`, `i64::MAX` included); an
`InvalidOffset` is therefore only ever answered on an open handle. -/
theorem io_seek_current_handle_first (s : Mgr) (h : Nat) (o : Int) :
    (s.locked = true → File.ioSeek h (.current o) s = (.err .LockError, s)) ∧
    (s.locked = false → h ∉ s.files.map (·.rawFile) → File.ioSeek h (.current o) s = (.err .BadHandle, s)) :=
  ⟨Lemmas.Wrap.ioSeek_current_locked s h o, Lemmas.Wrap.ioSeek_current_bad s h o⟩

/-- An argument that is not refused up front (`Current`: any; `Start` / `End`: accepted by the
conversions) on a handle that is not open: `BadHandle` (not the panic of `offset()`, which is not
reached); with the manager borrowed: `LockError`. -/
theorem io_seek_bad_handle (s : Mgr) (h pos : Nat) (p : SeekFrom) (hc : p.isCurrent = true ∨ ConvOK pos p) :
    (s.locked = false → h ∉ s.files.map (·.rawFile) → File.ioSeek h p s = (.err .BadHandle, s)) ∧
    (s.locked = true → File.ioSeek h p s = (.err .LockError, s)) :=
  ⟨fun hl hb => Lemmas.Wrap.ioSeek_bad s h pos p hl hc hb, fun hl => Lemmas.Wrap.ioSeek_locked s h pos p hl hc⟩

/-- As the user of the driver protocol observes it (`wstep`): a seek lists no device write and no
device read, and leaves device, cache, directory table and volume table alone — in every state. -/
theorem io_seek_step_quiet (s : Mgr) (h : Nat) (p : SeekFrom) :
    (wstep s (.ioSeek h p)).2.writes = [] ∧ (wstep s (.ioSeek h p)).2.reads = [] ∧
    (wstep s (.ioSeek h p)).1.dev = (resetLogs s).dev ∧ (wstep s (.ioSeek h p)).1.cache = s.cache ∧
    (wstep s (.ioSeek h p)).1.dirs = s.dirs ∧ (wstep s (.ioSeek h p)).1.vols = s.vols :=
  Lemmas.Wrap.wstep_ioSeek_quiet s h p

/-! ### 2. `Read::read` -/

/-- An empty buffer: `Ok(0)`, nothing changed, no call made — whatever the handle (open or not) and
whether or not the manager is borrowed. -/
theorem io_read_empty (s : Mgr) (h : Nat) : File.ioRead h 0 s = (.ok [], s) :=
  Lemmas.Wrap.ioRead_zero s h

/-- A non-empty buffer: the raw `read` (so `read_refines` and every other theorem about `read`
applies); with the manager borrowed, `LockError`. -/
theorem io_read_reduces (s : Mgr) (h n : Nat) (hn : n ≠ 0) :
    (s.locked = false → File.ioRead h n s = read h n s) ∧
    (s.locked = true → File.ioRead h n s = (.err .LockError, s)) :=
  ⟨Lemmas.Wrap.ioRead_pos s h n hn, Lemmas.Wrap.ioRead_locked s h n hn⟩

/-- `read_refines` for the wrapper, every buffer length (0 included): same hypotheses, same
conclusion — the bytes of the byte-array model, its new position, nothing else changed. -/
theorem io_read_refines (s : Mgr) (h n i vi : Nat) (f : FileInfo) (v : VolInfo) (cs : List Nat)
    (hs : MgrOK s)
    (hh : s.files.findIdx? (·.rawFile = h) = some i) (hf : s.files[i]? = some f)
    (hv : s.vols.findIdx? (·.rawVolume = f.rawVolume) = some vi) (hvi : s.vols[vi]? = some v)
    (hg : WFGeom v.vol) (hok : FileOK v.vol s.dev.disk f cs) :
    ∃ s' f', File.ioRead h n s = (.ok ((absFile v.vol s.dev.disk f cs).read n).1, s') ∧
      s'.dev.disk = s.dev.disk ∧ s'.dev.wlog = s.dev.wlog ∧
      s' = { s with dev := s'.dev, cache := s'.cache, files := s.files.set i f' } ∧
      f' = { f with currentOffset := ((absFile v.vol s.dev.disk f cs).read n).2.pos,
                    curClusterOff := f'.curClusterOff, curCluster := f'.curCluster } ∧
      absFile v.vol s'.dev.disk f' cs = ((absFile v.vol s.dev.disk f cs).read n).2 ∧
      FileOK v.vol s'.dev.disk f' cs ∧ MgrOK s' := by
  have hl : s.locked = false := by obtain ⟨_, _, _, hl⟩ := hs; exact hl
  rw [Lemmas.Wrap.ioRead_open hl hh hf hv n]
  exact read_refines s h n i vi f v cs hs hh hf hv hvi hg hok

/-! ### 3. `Write::write`, `Write::flush` -/

/-- An empty buffer: `Ok(0)`, nothing changed, no call made — whatever the handle. -/
theorem io_write_empty (s : Mgr) (h : Nat) : File.ioWrite h [] s = (.ok 0, s) :=
  Lemmas.Wrap.ioWrite_nil s h

/-- A non-empty buffer: the state the raw `write` leaves, its answer with `Ok(())` replaced by
`Ok(buf.len())`; with the manager borrowed, `LockError`. -/
theorem io_write_reduces (s : Mgr) (h : Nat) (data : Bytes) (hne : data ≠ []) :
    (s.locked = false →
      File.ioWrite h data s = ((write h data s).1.bind (fun _ => .ok data.length), (write h data s).2)) ∧
    (s.locked = true → File.ioWrite h data s = (.err .LockError, s)) :=
  ⟨Lemmas.Wrap.ioWrite_cons s h data hne, Lemmas.Wrap.ioWrite_locked s h data hne⟩

/-- `write_refines` for the wrapper (non-empty buffer): same hypotheses, same conclusion, the answer
being `Ok(data.len())` exactly when all of `data` was stored (`k = data.length`); when the volume
runs full the answer is the error although the first `k` bytes WERE stored and the position moved
(`embedded_io` would allow `Ok(k)` here; the crate reports the error instead). -/
theorem io_write_refines (s : Mgr) (h i vi : Nat) (data : Bytes) (f : FileInfo) (v : VolInfo) (cs : List Nat)
    (A B : List (List Nat)) (hne : data ≠ []) (hs : MgrOK s)
    (hh : s.files.findIdx? (·.rawFile = h) = some i) (hf : s.files[i]? = some f)
    (hv : s.vols.findIdx? (·.rawVolume = f.rawVolume) = some vi) (hvi : s.vols[vi]? = some v)
    (hmode : f.mode ≠ .ReadOnly) (hg : WFGeom v.vol) (hhint : HintOK v.vol)
    (hok : FileOK v.vol s.dev.disk f cs) (hcur : cs = [] → f.curCluster < 2)
    (hown : Owns v.vol s.dev.disk (withChain A cs B))
    (hmax : f.currentOffset + data.length ≤ Gen.MAX_FILE_SIZE) :
    ∃ k r s' f' v' cs', File.ioWrite h data s = (r, s') ∧ k ≤ data.length ∧
      ((r = .ok data.length ∧ k = data.length) ∨
       (r = .err .DiskFull ∧ k < data.length ∧ cs' ≠ [] ∧ Full v'.vol s'.dev.disk) ∨
       (r = .err .NotEnoughSpace ∧ k = 0 ∧ cs' = [] ∧ Full v'.vol s'.dev.disk)) ∧
      s' = { s with dev := s'.dev, cache := s'.cache, files := s.files.set i f', vols := s.vols.set vi v' } ∧
      v' = { v with vol := v'.vol } ∧ SameGeom v.vol v'.vol ∧
      absFile v'.vol s'.dev.disk f' cs' = (absFile v.vol s.dev.disk f cs).write (data.take k) ∧
      FileOK v'.vol s'.dev.disk f' cs' ∧ (cs' = [] → f'.curCluster < 2) ∧ cs <+: cs' ∧
      Owns v'.vol s'.dev.disk (withChain A cs' B) ∧ MgrOK s' ∧ HintOK v'.vol ∧ WFGeom v'.vol ∧
      (∀ X, X ∈ A ++ B → chainBytes v.vol s'.dev.disk X = chainBytes v.vol s.dev.disk X) ∧
      (∀ b, ¬ IsFatBlock v.vol b → ¬ IsClusterBlock v.vol cs' b → s'.dev.disk.get b = s.dev.disk.get b) ∧
      (∀ b, ¬ InPartition v.vol b → s'.dev.disk.get b = s.dev.disk.get b) ∧
      (∃ new, s'.dev.wlog = new ++ s.dev.wlog ∧ ∀ w, w ∈ new → IsFatBlock v.vol w.1 ∨ IsClusterBlock v.vol cs' w.1) ∧
      f' = { f with currentOffset := f.currentOffset + k, curClusterOff := f'.curClusterOff, curCluster := f'.curCluster,
                    dirty := true,
                    entry := { f.entry with size := max f.entry.size (f.currentOffset + k), cluster := f'.entry.cluster,
                                            attributes := Attr.setArchive f.entry.attributes, mtime := s.clock } } := by
  obtain ⟨k, r, s', f', v', cs', hw, hk, hout, rest⟩ :=
    C01Write.write_refines s h i vi data f v cs A B hs hh hf hv hvi hmode hg hhint hok hcur hown hmax
  refine ⟨k, r.bind (fun _ => .ok data.length), s', f', v', cs', ?_, hk, ?_, rest⟩
  · have hl : s.locked = false := by obtain ⟨_, _, _, hl⟩ := hs; exact hl
    rw [Lemmas.Wrap.ioWrite_cons s h data hne hl, hw]
  · rcases hout with ⟨hr, hk'⟩ | ⟨hr, h2⟩ | ⟨hr, h2⟩
    · exact .inl ⟨by rw [hr]; rfl, hk'⟩
    · exact .inr (.inl ⟨by rw [hr]; rfl, h2⟩)
    · exact .inr (.inr ⟨by rw [hr]; rfl, h2⟩)

/-- `Write::flush` is `flush_file`. -/
theorem io_flush_reduces (s : Mgr) (h : Nat) (hl : s.locked = false) : File.ioFlush h s = flushFile h s :=
  Lemmas.Wrap.ioFlush_eq s h hl

/-! ### 4. `length`, `offset`, `is_eof` -/

/-- On an open handle (manager not borrowed) the wrapper observers ARE the raw calls: the byte-array
cursor's length, position and end-of-file flag; the state is untouched. -/
theorem wrapper_observers (s : Mgr) (h i : Nat) (f : FileInfo) (hl : s.locked = false)
    (hh : s.files.findIdx? (·.rawFile = h) = some i) (hf : s.files[i]? = some f) :
    File.length h s = fileLength h s ∧ File.offset h s = fileOffset h s ∧ File.isEof h s = fileEof h s ∧
    File.length h s = (.ok f.entry.size, s) ∧ File.offset h s = (.ok f.currentOffset, s) ∧
    File.isEof h s = (.ok (decide (f.currentOffset = f.entry.size)), s) :=
  Lemmas.Wrap.observers_open hl hh hf

/-- On a handle that is not open: a panic (`expect("Corrupt file ID")`), where the raw calls answer
`BadHandle`; nothing is touched. -/
theorem wrapper_observers_bad (s : Mgr) (h : Nat) (hb : h ∉ s.files.map (·.rawFile)) :
    File.length h s = (.panic "Corrupt file ID", s) ∧ File.offset h s = (.panic "Corrupt file ID", s) ∧
    File.isEof h s = (.panic "Corrupt file ID", s) :=
  Lemmas.Wrap.observers_bad hb

/-- They panic EXACTLY when the handle is not open or the manager is borrowed (then the raw call
answers `LockError`, which `expect` turns into the same panic). -/
theorem wrapper_observers_panic_iff (s : Mgr) (h : Nat) :
    ((File.length h s).1 = .panic "Corrupt file ID" ↔ (h ∉ s.files.map (·.rawFile) ∨ s.locked = true)) ∧
    ((File.offset h s).1 = .panic "Corrupt file ID" ↔ (h ∉ s.files.map (·.rawFile) ∨ s.locked = true)) ∧
    ((File.isEof h s).1 = .panic "Corrupt file ID" ↔ (h ∉ s.files.map (·.rawFile) ∨ s.locked = true)) := by
  cases hl : s.locked with
  | true =>
    obtain ⟨h1, h2, h3⟩ := Lemmas.Wrap.observers_locked (h := h) hl
    rw [h1, h2, h3]
    exact ⟨⟨fun _ => .inr rfl, fun _ => rfl⟩, ⟨fun _ => .inr rfl, fun _ => rfl⟩, ⟨fun _ => .inr rfl, fun _ => rfl⟩⟩
  | false =>
    rcases Lemmas.Wrap.file_handle_cases s h with hb | ⟨i, f, hh, hf⟩
    · obtain ⟨h1, h2, h3⟩ := Lemmas.Wrap.observers_bad hb
      rw [h1, h2, h3]
      exact ⟨⟨fun _ => .inl hb, fun _ => rfl⟩, ⟨fun _ => .inl hb, fun _ => rfl⟩, ⟨fun _ => .inl hb, fun _ => rfl⟩⟩
    · obtain ⟨_, _, _, h1, h2, h3⟩ := Lemmas.Wrap.observers_open hl hh hf
      have hm : h ∈ s.files.map (·.rawFile) := by
        obtain ⟨x, hx, hp⟩ := Lemmas.MHoare.findIdx?_some_get hh
        have hp' : x.rawFile = h := of_decide_eq_true hp
        rw [← hp']
        exact List.mem_map_of_mem (List.mem_of_getElem? hx)
      rw [h1, h2, h3]
      refine ⟨⟨(fun hc => by cases hc), ?_⟩, ⟨(fun hc => by cases hc), ?_⟩, ⟨(fun hc => by cases hc), ?_⟩⟩ <;>
        (rintro (hb | hc)
         · exact absurd hm hb
         · cases hc)

/-! ### Non-vacuity (tests, evaluated by the kernel)

The FAT16 example volume of `Sdmmc.Props.C01Read` (a 1300-byte file, handle 1, at offset 1000; a
second file, handle 2; in `mgrW` an empty writable file, handle 3). -/
namespace Example
open Sdmmc.Props.C01Read.Example Sdmmc.Props.C01Write.Example

/-- The hypotheses of `io_seek_refines` are satisfiable, and its right-hand side computes. -/
example : mgr.locked = false ∧ mgr.files.findIdx? (·.rawFile = 1) = some 0 ∧ mgr.files[0]? = some file :=
  ⟨rfl, by decide, rfl⟩

/-- A relative seek back by 300 from offset 1000: `Ok(700)`, the offset of slot 0 is 700, slot 1 as before. -/
example : (File.ioSeek 1 (.current (-300)) mgr).1 = .ok 700 ∧
    (File.ioSeek 1 (.current (-300)) mgr).2.files.map (·.currentOffset) = [700, 0] := by decide +kernel

/-- `End(-300)`: 1000; `End(0)`: 1300; `End(1)` (beyond the end), `End(-1301)` (before the start),
`Start(1301)`: `InvalidOffset`; `Start(1300)`: 1300. -/
example : (File.ioSeek 1 (.end_ (-300)) mgr).1 = .ok 1000 ∧ (File.ioSeek 1 (.end_ 0) mgr).1 = .ok 1300 ∧
    (File.ioSeek 1 (.end_ 1) mgr).1 = .err .InvalidOffset ∧ (File.ioSeek 1 (.end_ (-1301)) mgr).1 = .err .InvalidOffset ∧
    (File.ioSeek 1 (.start 1301) mgr).1 = .err .InvalidOffset ∧ (File.ioSeek 1 (.start 1300) mgr).1 = .ok 1300 := by
  decide +kernel

/-- `End(i64::MIN)` — the released overflow panic — is `InvalidOffset` now; so are the extreme values
of the other two kinds. -/
theorem end_i64_min : (File.ioSeek 1 (.end_ I64_MIN) mgr).1 = .err .InvalidOffset ∧
    (File.ioSeek 1 (.end_ I64_MAX) mgr).1 = .err .InvalidOffset ∧
    (File.ioSeek 1 (.current I64_MIN) mgr).1 = .err .InvalidOffset ∧
    (File.ioSeek 1 (.current I64_MAX) mgr).1 = .err .InvalidOffset ∧
    (File.ioSeek 1 (.start U64_MAX) mgr).1 = .err .InvalidOffset := by decide +kernel

/-- The same file record with a length of 3 GiB, positioned at the start. -/
def big : FileInfo := { file with entry := { entry with size := 3221225472 }, currentOffset := 0 }
def mgrBig : Mgr := { mgr with files := [big, file2] }

/-- **The former finding, repaired.**  On the 3 GiB file, `Current(2^31)` from position 0 — refused
before the repair — is `Ok(2^31)`; so is the whole way, `Current(3 GiB)`; one byte further is
`InvalidOffset`; from the end, `Current(-2^31 - 1)` and `Current(-3 GiB)` succeed, one byte further
does not; and the byte-array cursor agrees in every case. -/
theorem current_on_3GiB_file :
    seekSpec 3221225472 0 (.current 2147483648) = some 2147483648 ∧
    (File.ioSeek 1 (.current 2147483648) mgrBig).1 = .ok 2147483648 ∧
    (File.ioSeek 1 (.current 3221225472) mgrBig).1 = .ok 3221225472 ∧
    (File.ioSeek 1 (.current 3221225473) mgrBig).1 = .err .InvalidOffset ∧
    (File.ioSeek 1 (.current (-1)) mgrBig).1 = .err .InvalidOffset ∧
    (File.ioSeek 1 (.current (-2147483649)) (File.ioSeek 1 (.end_ 0) mgrBig).2).1 = .ok 1073741823 ∧
    (File.ioSeek 1 (.current (-3221225472)) (File.ioSeek 1 (.end_ 0) mgrBig).2).1 = .ok 0 ∧
    (File.ioSeek 1 (.current (-3221225473)) (File.ioSeek 1 (.end_ 0) mgrBig).2).1 = .err .InvalidOffset ∧
    (File.ioSeek 1 (.current 2147483648) mgrBig).2.files.map (·.currentOffset) = [2147483648, 0] := by
  refine ⟨?_, ?_, ?_, ?_, ?_, ?_, ?_, ?_, ?_⟩ <;> decide +kernel

/-- The hypothesis of `io_seek_complete` holds of that file. -/
example : big.entry.size ≤ U32_MAX := by decide

/-- Order of refusals: handle 9 is not open, yet `Start(2^32)` and `End(1)` are `InvalidOffset`;
`Start(42)` is `BadHandle`; `Current` is `BadHandle` whatever the offset; no panic. -/
example : (File.ioSeek 9 (.start 4294967296) mgr).1 = .err .InvalidOffset ∧
    (File.ioSeek 9 (.end_ 1) mgr).1 = .err .InvalidOffset ∧
    (File.ioSeek 9 (.start 42) mgr).1 = .err .BadHandle ∧
    (File.ioSeek 9 (.current 0) mgr).1 = .err .BadHandle ∧
    (File.ioSeek 9 (.current I64_MAX) mgr).1 = .err .BadHandle ∧
    (File.ioSeek 9 (.current I64_MIN) mgr).1 = .err .BadHandle := by decide +kernel

/-- Empty buffers on a handle that is not open: the wrappers say `Ok(0)`, the raw calls `BadHandle`;
the observers panic. -/
theorem empty_on_bad_handle :
    (File.ioRead 9 0 mgrW).1 = .ok [] ∧ (read 9 0 mgrW).1 = .err .BadHandle ∧
    (File.ioWrite 9 [] mgrW).1 = .ok 0 ∧ (write 9 [] mgrW).1 = .err .BadHandle ∧
    (File.offset 9 mgrW).1 = .panic "Corrupt file ID" ∧ (fileOffset 9 mgrW).1 = .err .BadHandle := by
  decide +kernel

/-- On the empty file (handle 3) the raw `write` of zero bytes allocates cluster 4 and marks the file
dirty; the wrapper's does nothing. -/
theorem empty_write_differs :
    summary (write 3 ([] : Bytes) mgrW).2 =
      [(1000, 1300, 5, 1024, 7, false), (0, 10, 3, 0, 3, false), (0, 0, 4, 0, 4, true)] ∧
    summary (File.ioWrite 3 [] mgrW).2 =
      [(1000, 1300, 5, 1024, 7, false), (0, 10, 3, 0, 3, false), (0, 0, 0, 0, 0, false)] := by
  refine ⟨?_, ?_⟩ <;> decide +kernel

/-- A 700-byte write through the wrapper: `Ok(700)`, the state of the raw write. -/
example : (File.ioWrite 1 data700 mgrW).1 = .ok 700 ∧
    summary (File.ioWrite 1 data700 mgrW).2 = summary (write 1 data700 mgrW).2 ∧
    summary (File.ioWrite 1 data700 mgrW).2 =
      [(1700, 1700, 5, 1536, 4, true), (0, 10, 3, 0, 3, false), (0, 0, 0, 0, 0, false)] := by
  refine ⟨?_, ?_, ?_⟩ <;> decide +kernel

/-- A 300-byte read through the wrapper: the model's bytes (24 × BB, 276 × CC). -/
example : (File.ioRead 1 300 mgr).1 = .ok (List.replicate 24 0xBB ++ List.replicate 276 0xCC) ∧
    (File.ioRead 1 300 mgr).1 = (read 1 300 mgr).1 := by decide +kernel

/-- The observers on the open handle. -/
example : (File.length 1 mgr).1 = .ok 1300 ∧ (File.offset 1 mgr).1 = .ok 1000 ∧ (File.isEof 1 mgr).1 = .ok false := by
  decide +kernel

/-- With the manager borrowed: empty buffers still `Ok(0)`, non-empty `LockError`, observers panic. -/
example : ∀ s, s = { mgrW with locked := true } →
    (File.ioRead 1 0 s).1 = .ok [] ∧ (File.ioRead 1 5 s).1 = .err .LockError ∧
    (File.ioWrite 1 [1] s).1 = .err .LockError ∧ (File.length 1 s).1 = .panic "Corrupt file ID" ∧
    (File.ioSeek 1 (.start 5) s).1 = .err .LockError ∧ (File.ioSeek 1 (.start 4294967296) s).1 = .err .InvalidOffset ∧
    (File.ioSeek 1 (.current 5) s).1 = .err .LockError ∧ (File.ioSeek 1 (.current I64_MAX) s).1 = .err .LockError := by
  intro s hs; subst hs; decide +kernel

end Example

end Sdmmc.Props.C01Io
