/-
C11 over HISTORIES UNDER FAULTS — THE EXCLUDED CALL ITSELF, AND THE EXCURSION THROUGH A DAMAGED FILE.

`Props/C11HistD` / `C11Main2` exclude ONE call from a history (`NotDamagedRun`): an `open_file_in_dir` that keeps the stored size
(`ReadOnly`, `ReadWriteAppend`, `ReadWriteCreateOrAppend`) of a closed file whose entry is DAMAGED — the residue of a device
failure inside a truncating open.  `Props/C11Weak` showed what calls on a handle of such a file do FROM the weak invariant.
Here:

(a) `damaged_open_leaves_faultInvE` — THE EXCLUDED CALL ITSELF.  From `VolInvSE k` (any slack), an `open_file_in_dir` in a mode
    that does not truncate, under ANY fault schedule, WITHOUT the side condition, its fresh handle id carried by no open file
    (true until the 32-bit handle generator wraps: C08): the state it leaves satisfies `FaultInvE` — for a ghost of the same
    geometry and some lost chains; every open file, the new one included, satisfies `FileLoose`: its record names its chain,
    offset ≤ size, cursor on the chain —; a device failure is answered with an error; and EITHER `VolInvSE k` holds again
    (every failing or refused open, a created file, an existing file whose size fits) OR the call answered `Ok(handle)` with
    that fresh id, the record is in the table, unmodified, and it alone may say more than its chain holds
    (`Lemmas/LooseHyb.VolInvH`).
(b) `excursion_restores_invariant` — after such an open: any sequence of `read` / seeks / `length` / `offset` / `is_eof` on ANY
    handle keeps `FaultInvE`, every call answering `Ok` or an error; then `close_file` of the handle the open drew answers
    `Ok` or an error and `VolInvSE k'` HOLDS AGAIN (the evaluated excursion of `Props.C11Weak.Example` as a theorem).
(c) `history_with_excursion_W_partial` — histories  H1 ++ [open] ++ mid ++ [close_file h] ++ H2  with H1, H2 satisfying
    `NotDamagedRun`, the open ARBITRARY (damaged or not), `mid` file-read-only calls, `h` the id the open drew: after EVERY
    prefix `FaultInvE` holds (`VolInvSE` after every prefix of H1 and from the close on), every call other than the open
    answered `Ok` or an error, the open answered an error if a device call failed and `Ok` if it opened a damaged file.
    Several excursions: H2 may again be of this shape (the theorem applies from `VolInvSE`).

STILL EXCLUDED (why `_partial`; TARGET `history_under_faults`: `FaultInvE` after every prefix of every covered history):
while the handle of a damaged file is open, any call other than the file-read-only ones — calls on directories, other
opens, `write`, `flush`, closing ANOTHER file (which reorders the table: harmless, not done), `close_volume`.  And: the
answer of the open is not shown to be `Ok`-or-error in ONE sub-case — no device failure, the open ends in a state satisfying
`VolInvSE` although `NotDamagedOpen` fails (e.g. the damaged file sits in ANOTHER open directory with the same handle id, or
the open is refused): the restated refinement (`Lemmas/AbsDOpen`) needs the side condition.  `C11Main2` stays the headline:
its clauses (others intact, mounts, retry, handles) are not extended through the excursion here — `mid` and the close write
nothing (`Props.C11Weak`: the medium is untouched), so they hold trivially, but this is not assembled.
-/
import Sdmmc.Lemmas.LooseRun
import Sdmmc.Props.C11Weak

namespace Sdmmc.Props.C11HistW
open Sdmmc.Model Sdmmc.Model.Fat Sdmmc.Spec.Volume
open Sdmmc.Spec hiding run step NoFault Coherent
open Sdmmc.Props.C11Inv (withFaults Covered NameOK)
open Sdmmc.Props.C11Hist (CoveredRun)
open Sdmmc.Props.C11HistB (nonTruncating)
open Sdmmc.Props.C11Weak (fileReadOnlyOp fileReadOnlyOp_iff)

/-- The weak invariant with no entry ahead, for a ghost of the geometry of `gh`. -/
def Weak (gh : Ghost) (t : Mgr) : Prop := ∃ gh' X', FaultInvE t gh' X' ∧ SameGeom gh.vol gh'.vol

/-- The strong one, with some slack `≥ k`. -/
def Strong (k : Nat) (gh : Ghost) (t : Mgr) : Prop := ∃ k' gh' X', k ≤ k' ∧ VolInvSE k' t gh' X' ∧ SameGeom gh.vol gh'.vol

theorem weak_of_strong {k : Nat} {gh : Ghost} {t : Mgr} (h : Strong k gh t) : Weak gh t :=
  let ⟨_, gh', X', _, h1, h2⟩ := h
  ⟨gh', X', C11HistD.faultInvE_of_volInvSE h1, h2⟩

theorem weak_of_mid {k : Nat} {gh : Ghost} {h : Nat} {t : Mgr} (hm : Lemmas.VolD.Mid k gh h t) : Weak gh t :=
  let ⟨⟨gh', X', h1, h2⟩, h3⟩ := Lemmas.VolD.weak_of_mid hm
  ⟨gh', X', ⟨h1, h3⟩, h2⟩

theorem strong_of_invFE {k k' : Nat} (hle : k ≤ k') {gh : Ghost} {t : Mgr} (h : Lemmas.VolD.InvFE k' gh t) : Strong k gh t :=
  let ⟨gh', X', h1, h2⟩ := Lemmas.VolD.invFE_iffD.1 h
  ⟨k', gh', X', hle, h1, h2⟩

theorem run_append_state (s : Mgr) (a b : List Op) : (run s (a ++ b)).1 = (run (run s a).1 b).1 := by
  induction a generalizing s with
  | nil => rfl
  | cons op a ih => rw [List.cons_append, Lemmas.WriteSetInv.run_cons, Lemmas.WriteSetInv.run_cons, ih]

/-- **(a) `damaged_open_leaves_faultInvE`.**  See the header. -/
theorem damaged_open_leaves_faultInvE {k : Nat} {s : Mgr} {gh : Ghost} {X : List (List Nat)} (hI : VolInvSE k s gh X)
    (dir : Nat) (name : List Nat) (mode : Mode) (hmode : nonTruncating mode = true) (hname : NameOK name)
    (hfresh : s.nextId ∉ s.files.map (·.rawFile)) :
    Weak gh (step s (.openFile dir name mode)).1 ∧
    ((step s (.openFile dir name mode)).1.dev.failed ≠ s.dev.failed → ∃ e, (step s (.openFile dir name mode)).2.result = .err e) ∧
    (Strong k gh (step s (.openFile dir name mode)).1 ∨
      ((step s (.openFile dir name mode)).2.result = .ok (.handle s.nextId) ∧
        ∃ f, f ∈ (step s (.openFile dir name mode)).1.files ∧ f.rawFile = s.nextId ∧ f.dirty = false)) := by
  have hE := Lemmas.VolD.invFE_iffD.2 ⟨gh, X, hI, SameGeom.refl _⟩
  obtain ⟨hm, hrep, hok⟩ := Lemmas.VolD.step_open_mid hE dir name mode (by rw [← C11HistB.nonTruncating_iff]; exact hmode)
    hname hfresh
  refine ⟨weak_of_mid hm, hrep, ?_⟩
  rcases hm with hS | ⟨gh', X', hH, _, hmem, _⟩
  · exact .inl (strong_of_invFE (Nat.le_refl _) hS)
  · by_cases hS : Lemmas.VolD.InvFE k gh (step s (.openFile dir name mode)).1
    · exact .inl (strong_of_invFE (Nat.le_refl _) hS)
    · obtain ⟨f, hf, hfe⟩ := List.mem_map.1 hmem
      exact .inr ⟨hok hS, f, hf, hfe, hH.med.clean f hf hfe⟩

/-- **(b) `excursion_restores_invariant`.**  See the header: `s2` the state after the open, `mid` the calls in between. -/
theorem excursion_restores_invariant {k : Nat} {s : Mgr} {gh : Ghost} {X : List (List Nat)} (hI : VolInvSE k s gh X)
    (dir : Nat) (name : List Nat) (mode : Mode) (hmode : nonTruncating mode = true) (hname : NameOK name)
    (hfresh : s.nextId ∉ s.files.map (·.rawFile)) (mid : List Op) (hmid : ∀ op, op ∈ mid → fileReadOnlyOp op = true)
    (s2 : Mgr) (hs2 : s2 = (step s (.openFile dir name mode)).1) :
    (∀ j, Weak gh (run s2 (mid.take j)).1 ∧ ∀ o, o ∈ (run s2 (mid.take j)).2 → Clean o.result) ∧
    Strong k gh (step (run s2 mid).1 (.closeFile s.nextId)).1 ∧
    Clean (step (run s2 mid).1 (.closeFile s.nextId)).2.result := by
  subst hs2
  have hE := Lemmas.VolD.invFE_iffD.2 ⟨gh, X, hI, SameGeom.refl _⟩
  obtain ⟨hm, _, _⟩ := Lemmas.VolD.step_open_mid hE dir name mode (by rw [← C11HistB.nonTruncating_iff]; exact hmode)
    hname hfresh
  have hro : ∀ op, op ∈ mid → Lemmas.Loose.fileRO op = true := fun op h => by rw [← fileReadOnlyOp_iff]; exact hmid op h
  refine ⟨fun j => ?_, ?_⟩
  · obtain ⟨h1, h2⟩ := Lemmas.VolD.run_fileRO_mid mid hm hro j
    exact ⟨weak_of_mid h1, h2⟩
  · obtain ⟨h1, _⟩ := Lemmas.VolD.run_fileRO_mid mid hm hro mid.length
    rw [List.take_length] at h1
    obtain ⟨⟨k', hle, h3⟩, h4⟩ := Lemmas.VolD.step_close_mid h1
    exact ⟨strong_of_invFE hle h3, h4⟩

/-- **(c) `history_with_excursion_W_partial`** (TARGET `history_under_faults`).  `s1` … `s4`: the states after H1, after the
open, after `mid`, after the close. -/
theorem history_with_excursion_W_partial {k : Nat} {s : Mgr} {gh : Ghost} {X : List (List Nat)} (hI : VolInvSE k s gh X)
    (H1 : List Op) (dir : Nat) (name : List Nat) (mode : Mode) (mid H2 : List Op)
    (hc1 : CoveredRun s H1) (hn1 : NotDamagedRun s H1)
    (s1 : Mgr) (hs1 : s1 = (run s H1).1)
    (hmode : nonTruncating mode = true) (hname : NameOK name) (hfresh : s1.nextId ∉ s1.files.map (·.rawFile))
    (s2 : Mgr) (hs2 : s2 = (step s1 (.openFile dir name mode)).1)
    (hmid : ∀ op, op ∈ mid → fileReadOnlyOp op = true)
    (s3 : Mgr) (hs3 : s3 = (run s2 mid).1)
    (s4 : Mgr) (hs4 : s4 = (step s3 (.closeFile s1.nextId)).1)
    (hc2 : CoveredRun s4 H2) (hn2 : NotDamagedRun s4 H2) :
    -- H1
    (∀ j, Strong k gh (run s (H1.take j)).1 ∧ ∀ o, o ∈ (run s (H1.take j)).2 → Clean o.result) ∧
    -- the open
    (Weak gh s2 ∧
      ((step s1 (.openFile dir name mode)).1.dev.failed ≠ s1.dev.failed →
        ∃ e, (step s1 (.openFile dir name mode)).2.result = .err e) ∧
      (Strong k gh s2 ∨ (step s1 (.openFile dir name mode)).2.result = .ok (.handle s1.nextId))) ∧
    -- in between
    (∀ j, Weak gh (run s2 (mid.take j)).1 ∧ ∀ o, o ∈ (run s2 (mid.take j)).2 → Clean o.result) ∧
    -- the close
    (Strong k gh s4 ∧ Clean (step s3 (.closeFile s1.nextId)).2.result) ∧
    -- H2
    (∀ j, Strong k gh (run s4 (H2.take j)).1 ∧ ∀ o, o ∈ (run s4 (H2.take j)).2 → Clean o.result) ∧
    -- the whole history ends where H2 ends
    (run s (H1 ++ .openFile dir name mode :: mid ++ .closeFile s1.nextId :: H2)).1 = (run s4 H2).1 := by
  have stage1 : ∀ j, Strong k gh (run s (H1.take j)).1 ∧ ∀ o, o ∈ (run s (H1.take j)).2 → Clean o.result := fun j => by
    obtain ⟨⟨k', gh', X', hle, h1, _, h2⟩, h3⟩ := C11HistD.history_under_faults_D_partial H1 hI hc1 hn1 j
    exact ⟨⟨k', gh', X', hle, h1, h2⟩, h3⟩
  obtain ⟨k1, gh1, X1, hle1, hI1, hg1⟩ : Strong k gh s1 := by
    have := (stage1 H1.length).1
    rw [List.take_length, ← hs1] at this
    exact this
  obtain ⟨hw2, hrep, hcase⟩ := damaged_open_leaves_faultInvE hI1 dir name mode hmode hname hfresh
  obtain ⟨hmidW, hS4, hC4⟩ := excursion_restores_invariant hI1 dir name mode hmode hname hfresh mid hmid s2 hs2
  rw [← hs2] at hw2 hcase
  rw [← hs3, ← hs4] at hS4
  rw [← hs3] at hC4
  have lift : ∀ {t}, Weak gh1 t → Weak gh t := fun ⟨g, Y, a, b⟩ => ⟨g, Y, a, hg1.trans b⟩
  have liftS : ∀ {t}, Strong k1 gh1 t → Strong k gh t := fun ⟨k', g, Y, a, b, c⟩ => ⟨k', g, Y, Nat.le_trans hle1 a, b, hg1.trans c⟩
  obtain ⟨k4, gh4, X4, hle4, hI4, hg4⟩ := hS4
  refine ⟨stage1, ⟨lift hw2, hrep, hcase.imp liftS (fun h => h.1)⟩, fun j => ⟨lift (hmidW j).1, (hmidW j).2⟩,
    ⟨liftS ⟨k4, gh4, X4, hle4, hI4, hg4⟩, hC4⟩, fun j => ?_, ?_⟩
  · obtain ⟨⟨k', gh', X', hle, h1, _, h2⟩, h3⟩ := C11HistD.history_under_faults_D_partial H2 hI4 hc2 hn2 j
    exact ⟨⟨k', gh', X', Nat.le_trans hle1 (Nat.le_trans hle4 hle), h1, (hg1.trans hg4).trans h2⟩, h3⟩
  · rw [List.append_assoc, run_append_state, ← hs1, List.cons_append, Lemmas.WriteSetInv.run_cons, ← hs2, run_append_state,
      ← hs3, Lemmas.WriteSetInv.run_cons, ← hs4]

/-! ### Non-vacuity (evaluated, and the theorem instantiated) -/

namespace Example
open Sdmmc.Lemmas.VolExample Sdmmc.Lemmas.VolCheck
open Sdmmc.Lemmas.VolD (notDamagedB notDamagedRunB notDamagedRunB_sound damagedB damagedB_sound checkVolInvS)
open Sdmmc.Props.C11Hist.Example (trunc ghOf nameA)
open Sdmmc.Props.C11HistB.Example (ok_A)
open Sdmmc.Props.C11HistT.Example (outcome)

/-- On the example volume with `E.DAT` open and modified (`mgr0`), device call 7 failing:  H1 = the truncating open of
`A.TXT` (FAILS inside the truncation: `A.TXT` damaged);  THE EXCLUDED CALL: `A.TXT` opened `ReadOnly` (handle 11);  in
between: reads, a seek, observers on handle 11 and a read on `E.DAT`;  close 11;  H2 = truncate `A.TXT` again (repairs),
close, open it `ReadOnly` again (now allowed), read, close. -/
def sW : Mgr := withFaults [7] mgr0
def H1 : List Op := [trunc]
def midW : List Op := [.read 11 100, .seekStart 11 500, .read 11 50, .offset 11, .length 11, .read 4 2]
def H2 : List Op := [trunc, .closeFile 12, .openFile 2 nameA .ReadOnly, .read 13 10, .closeFile 13]
def s1 : Mgr := (run sW H1).1
def s2 : Mgr := (step s1 (.openFile 2 nameA .ReadOnly)).1
def s3 : Mgr := (run s2 midW).1
def s4 : Mgr := (step s3 (.closeFile s1.nextId)).1

/-- The open in the middle really is the excluded call (`NotDamagedOpen` fails), the id it draws (11) is fresh. -/
theorem the_open_is_damaged : ¬ NotDamagedOpen s1 (.openFile 2 nameA .ReadOnly) ∧ s1.nextId = 11 ∧
    s1.nextId ∉ s1.files.map (·.rawFile) :=
  ⟨damagedB_sound (by decide +kernel), by decide +kernel, by decide +kernel⟩

/-- **The theorem, instantiated on this history.** -/
example :=
  history_with_excursion_W_partial (C11HistD.volInvSE_withFaults mgr0_inv C11HistE.Example.mgr0_entries [7])
    H1 2 nameA .ReadOnly midW H2 ⟨ok_A, trivial⟩ (notDamagedRunB_sound _ _ (by decide +kernel)) s1 rfl rfl ok_A
    the_open_is_damaged.2.2 s2 rfl (fun op h => by
      simp only [midW, List.mem_cons, List.not_mem_nil, or_false] at h
      rcases h with rfl | rfl | rfl | rfl | rfl | rfl <;> rfl) s3 rfl s4 rfl
    ⟨ok_A, trivial, ok_A, trivial, trivial, trivial⟩ (notDamagedRunB_sound _ _ (by decide +kernel))

/-- **Evaluated**: the outcomes of the 14 calls (2 = `DeviceError`, 1 = `EndOfFile`: the read across the end of the
one-cluster chain, 0 = `Ok`); while handle 11 is open `VolInvS` fails (188 shown; `fileOK`), after its close `VolInvS 188`
holds again, and after H2 (the file truncated again) `VolInvS 0`. -/
theorem excursion_evaluated :
    (run sW (H1 ++ .openFile 2 nameA .ReadOnly :: midW ++ .closeFile 11 :: H2)).2.map (fun o => outcome o.result) =
      [2, 0, 0, 0, 1, 0, 0, 0, 0, 0, 0, 0, 0, 0] ∧
    (s2.files.map (·.rawFile), s4.files.map (·.rawFile)) = ([4, 11], [4]) ∧
    (checkVolInvS 188 s2 (ghOf s2 [[2], [4], [5], [6]]) [], checkVolInvS 188 s4 (ghOf s4 [[2], [4], [5], [6]]) [],
      checkVolInvS 0 (run s4 H2).1 (ghOf s4 [[2], [4], [5], [6]]) []) = (false, true, true) := by
  refine ⟨?_, ?_, ?_⟩ <;> decide +kernel

end Example

end Sdmmc.Props.C11HistW
