/-
C04 for WHOLE API CALLS.  C04: "Every block the library writes lies inside the partition of the volume
being operated on and inside the region appropriate to its purpose; the master boot record, boot sector,
other partitions and blocks past the last cluster are never written.  Within the data area a call only
changes bytes of the file range it was asked to write, of clusters it newly allocated, or of the directory
slot it owns; within the FAT only entries of chains it extends, truncates or frees; all other bytes of
every rewritten block are preserved."

`Props/C04.lean` proves this for the engine primitives; here it is proved for the calls of the API, on
every state that satisfies the standing hypotheses `MgrOK s` (no fault scheduled, coherent cache, 512-byte
blocks, not locked), `WFGeom v.vol`, `HintOK v.vol`, `Mirror v.vol s.dev.disk` (identical FAT copies) and
the call-specific hypotheses each theorem lists.

Vocabulary (`Sdmmc.Spec.WriteSet`): a `Licence` names what a call may change — `fatClusters` (clusters
whose FAT entries may change), `dataClusters` (clusters whose blocks may change arbitrarily), `slots`
(directory slots `(block, offset)`), `info` (the two counters of the FAT32 info sector), `files` (byte
ranges `(chain, lo, hi)` of files).  `Licensed v d L (idx, payload)`: the write is a 512-byte payload and
(a) a FAT block in which only bytes of licensed entries differ from the medium `d` (and on FAT32 the top
four bits of every entry are kept), or (b) a block of a licensed data cluster, or (c) a directory block in
which only bytes of licensed slots differ, or (d) the info sector with only bytes 488..495 differing, or
(e) a block of a cluster of a file in which only bytes holding licensed file positions differ.
`AllLicensed v d L ws` judges every write of the list against the medium the earlier ones produced.
`newWritesM s s'` are the writes a call added to the log, oldest first.

Property theorems only; proofs in `Sdmmc.Lemmas.WriteSet*`.

STATUS: PROVED — items 1–9 of the package.  Item 10 (`step_licensed` with a uniform `licenceOf s op`) is
proved in the form `step_licensed_partial`: for every state and operation the writes `step` reports are
none when the state is locked, the operation is read-only or the call is refused; for the seven writing
operations `step_writes` / `runOp_*` reduce the writes `step` reports to `newWritesM` of the call, to which
the per-call theorems below apply under their own hypotheses.  A single `licenceOf s op` computed from
the state alone would need a global invariant over all open files and directories; that is not done here.

Deviations from the package text, all in the direction of a stronger or a more explicit statement:
* (a) is stated byte by byte (and on FAT32 with the reserved nibble), which implies the entry-by-entry
  reading (`fat_write_other_entries`);
* `write`: no cluster is licensed wholesale — not even the newly allocated ones: every data write of the
  call is of kind (e) for the byte range `[offset, offset + k)` of the file (`writeLicence`);
* `Mirror` is a hypothesis everywhere: the write to the second FAT copy is judged against the block of the
  second copy, which equals the first only when the copies agree;
* `delete`, `truncate`, `create`, `mkdir` take the outcome of the directory lookup on the state as a
  hypothesis (`(Fat.findDirectoryEntry … (fsOf s v)).1 = …`), the region of the found slot
  (`regionOf … = .root ∨ … = .data`; it holds when the slot lies in a block of the directory,
  `dir_block_region`) and the cluster chain of the file / of the directory (`Spec.Chain`, which includes
  "every cluster is a data cluster of the volume"): on a corrupt FAT whose directory chain leaves the
  volume the walk WOULD write outside (the model, like the Rust, follows the chain);
* the two hypotheses that are not mere bookkeeping are evaluated at their excluded points:
  `Example.mirror_needed` (FAT copies that differ: `update_fat` copies the whole block of copy 1 over copy 2
  and changes the entry of an unrelated cluster there) and `Example32.corrupt_dir_chain_escapes` (a
  directory chain that leaves the volume: the new entry is written behind the end of the partition);
* `refused_writes_nothing` holds for EVERY state and the refusal errors listed in `refused_def`;
  `NotFound`, `NotEnoughSpace`, `DiskFull`, `DeviceError`, … are outcomes of the engine, not refusals
  (`NotEnoughSpace`/`DiskFull` are covered by the per-call theorems: nothing or a licensed prefix written).
-/
import Sdmmc.Lemmas.WriteSetApi
import Sdmmc.Props.C01Write
import Sdmmc.Props.C02Reopen

namespace Sdmmc.Props.C04Api
open Sdmmc.Model Sdmmc.Model.Fat Sdmmc.Spec
open Sdmmc.Lemmas.ReadRefines (MgrOK fsOf)
open Sdmmc.Lemmas.Reopen (IsFixedRoot rootStart rootBlocks)
open Sdmmc.Lemmas.Listing (startCluster)
open Sdmmc.Lemmas.WriteSet (flushLicence infoLicence writeLicence deleteLicence truncateLicence DirBlock)
open Sdmmc.Lemmas (Modes.DirCtx Modes.truncatedFile Modes.createdFile)

/-! ### The licences of the calls -/

/-- `flush_file` / `close_file`: the slot of the file's entry, and on FAT32 the info sector. -/
theorem flushLicence_def (v : FatVolume) (e : DirEntry) :
    flushLicence v e = { slots := [(e.entryBlock, e.entryOffset)], info := decide (v.fatType = .fat32) } := rfl
/-- `close_volume`: on FAT32 the info sector. -/
theorem infoLicence_def (v : FatVolume) : infoLicence v = { info := decide (v.fatType = .fat32) } := rfl
/-- `write` of `k` bytes at `offset`, chain `cs` growing to `cs'`: the FAT entries of the last cluster of
`cs` and of the new clusters, the bytes `[offset, offset + k)` of the file. -/
theorem writeLicence_def (cs cs' : List Nat) (offset k : Nat) :
    writeLicence cs cs' offset k =
      { fatClusters := cs.getLast?.toList ++ cs'.drop cs.length, files := [(cs', offset, offset + k)] } := rfl
/-- `delete_file_in_dir`: the slot of the entry, the FAT entries of the file's chain. -/
theorem deleteLicence_def (e : DirEntry) (cs : List Nat) :
    deleteLicence e cs = { fatClusters := cs, slots := [(e.entryBlock, e.entryOffset)] } := rfl
/-- A truncating open: the same. -/
theorem truncateLicence_def (e : DirEntry) (cs : List Nat) :
    truncateLicence e cs = { fatClusters := cs, slots := [(e.entryBlock, e.entryOffset)] } := rfl
/-- A block of the directory designated by a handle with cluster `dc`: of the FAT16 root region, or of a
cluster of the directory's chain `dcs`. -/
theorem dirBlock_def (v : FatVolume) (dc : Nat) (dcs : List Nat) (b : Nat) :
    DirBlock v dc dcs b ↔
      if IsFixedRoot v dc then rootStart v ≤ b ∧ b < rootStart v + rootBlocks v
      else ∃ x, x ∈ dcs ∧ clusterToBlock v x ≤ b ∧ b < clusterToBlock v x + v.blocksPerCluster := Iff.rfl

/-! ### 1. A licensed write stays in the region of its purpose -/

/-- **Item 1.**  A licensed write goes to a block of the FAT region (a), of the data region (b, e), of the
FAT16 root or the data region (c), or to the info sector (d): always strictly inside the partition of the
volume — never block 0, never the boot sector `lbaStart`, never a reserved block other than the info
sector, never a block behind the last cluster, never a block of another partition. -/
theorem licensed_in_region (v : FatVolume) (hg : WFGeom v) (d : Disk) (L : Licence) (w : Nat × Block)
    (h : Licensed v d L w) :
    (regionOf v w.1 = .fat ∨ regionOf v w.1 = .root ∨ regionOf v w.1 = .data ∨ regionOf v w.1 = .info) ∧
    InPartition v w.1 ∧ v.lbaStart < w.1 ∧ w.1 ≠ 0 :=
  Lemmas.WriteSet.licensed_in_region v hg d L w h

/-- The same for every write of a licensed list. -/
theorem all_licensed_in_region (v : FatVolume) (hg : WFGeom v) (L : Licence) (ws : List (Nat × Block)) (d : Disk)
    (h : AllLicensed v d L ws) (w : Nat × Block) (hw : w ∈ ws) :
    (regionOf v w.1 = .fat ∨ regionOf v w.1 = .root ∨ regionOf v w.1 = .data ∨ regionOf v w.1 = .info) ∧
    InPartition v w.1 ∧ v.lbaStart < w.1 ∧ w.1 ≠ 0 :=
  Lemmas.WriteSet.allLicensed_in_region v hg L ws d h w hw

/-- What kind (a) says entry by entry: the entry of a cluster that is not licensed — and whose bytes do not
overlap those of a licensed one held by the same block — reads the same in the payload as on the medium. -/
theorem fat_write_other_entries {v : FatVolume} {d : Disk} {L : Licence} {w : Nat × Block} (h : FatWrite v d L w)
    (c : Nat) (hb : HoldsEntry v w.1 c)
    (hc : ∀ c', c' ∈ L.fatClusters → HoldsEntry v w.1 c' → fatEntOffset v c' = fatEntOffset v c → False)
    (hdis : ∀ c', c' ∈ L.fatClusters → HoldsEntry v w.1 c' → fatEntOffset v c' ≠ fatEntOffset v c →
      fatEntOffset v c' + entryWidth v.fatType ≤ fatEntOffset v c ∨ fatEntOffset v c + entryWidth v.fatType ≤ fatEntOffset v c') :
    entryIn v w.2 c = entryIn v (d.get w.1) c :=
  Lemmas.WriteSet.fatWrite_other_entries h c hb hc hdis

/-- A block of a directory lies in the FAT16 root region or in the data region. -/
theorem dir_block_region (v : FatVolume) (hg : WFGeom v) (dc : Nat) (dcs : List Nat) (b : Nat)
    (hin : ¬ IsFixedRoot v dc → ∀ x, x ∈ dcs → InRange v x) (h : DirBlock v dc dcs b) :
    regionOf v b = .root ∨ regionOf v b = .data :=
  Lemmas.WriteSet.dirBlock_region v hg dc dcs b hin h

/-- The entry a directory lookup returns sits in a slot: offset a multiple of 32 below 512, eleven name bytes. -/
theorem found_entry_shape (dc : Nat) (name : Bytes) (s s1 : FS) (e : DirEntry) (hn : NoFault s) (hc : Coherent s)
    (hb : BlocksOK s.dev.disk) (h : Fat.findDirectoryEntry dc name s = (.ok e, s1)) :
    e.entryOffset + 32 ≤ 512 ∧ e.entryOffset % 32 = 0 ∧ e.name.length = 11 :=
  Lemmas.WriteSet.found_entry_shape dc name s s1 e hn hc hb h

/-! ### 3. `flush_file`, `close_file` -/

/-- **Item 3, `flush_file`.**  `h` is an open handle (slot `i`, record `f`, dirty) on the open volume `v`
(slot `vi`); the `assert!` on the entry does not fire; the entry's slot lies in a directory block, has room
for 32 bytes and an 11-byte name.  Then the call succeeds, the tables are untouched, the standing
hypotheses hold again, and every write of the call is licensed by the file's slot and — on FAT32 — the two
counters of the info sector. -/
theorem flush_licensed (s : Mgr) (h i vi : Nat) (f : FileInfo) (v : VolInfo) (hs : MgrOK s) (hg : WFGeom v.vol)
    (hhint : HintOK v.vol) (hm : Mirror v.vol s.dev.disk)
    (hh : s.files.findIdx? (·.rawFile = h) = some i) (hf : s.files[i]? = some f)
    (hv : s.vols.findIdx? (·.rawVolume = f.rawVolume) = some vi) (hvi : s.vols[vi]? = some v)
    (hd : f.dirty = true) (hassert : ¬ (f.entry.size ≠ 0 ∧ f.entry.cluster = 0))
    (hreg : regionOf v.vol f.entry.entryBlock = .root ∨ regionOf v.vol f.entry.entryBlock = .data)
    (ho : f.entry.entryOffset + 32 ≤ 512) (hname : f.entry.name.length = 11) :
    ∃ s', flushFile h s = (.ok (), s') ∧ s' = { s with dev := s'.dev, cache := s'.cache } ∧ MgrOK s' ∧
      Mirror v.vol s'.dev.disk ∧ AllLicensed v.vol s.dev.disk (flushLicence v.vol f.entry) (newWritesM s s') :=
  Lemmas.WriteSet.flush_licensed s h i vi f v hs hg hhint hm hh hf hv hvi hd hassert hreg ho hname

/-- A file that is not dirty: `flush_file` does nothing — same state, no write. -/
theorem flush_clean_no_write (s : Mgr) (h i : Nat) (f : FileInfo)
    (hh : s.files.findIdx? (·.rawFile = h) = some i) (hf : s.files[i]? = some f) (hd : f.dirty = false) :
    flushFile h s = (.ok (), s) :=
  Lemmas.WriteSet.flushFile_clean_nowrite s h i f hh hf hd

/-- **Item 3, `close_file`** of a dirty file: the same licence; the record leaves the file table. -/
theorem close_file_licensed (s : Mgr) (h i vi : Nat) (f : FileInfo) (v : VolInfo) (hs : MgrOK s) (hg : WFGeom v.vol)
    (hhint : HintOK v.vol) (hm : Mirror v.vol s.dev.disk)
    (hh : s.files.findIdx? (·.rawFile = h) = some i) (hf : s.files[i]? = some f)
    (hv : s.vols.findIdx? (·.rawVolume = f.rawVolume) = some vi) (hvi : s.vols[vi]? = some v)
    (hd : f.dirty = true) (hassert : ¬ (f.entry.size ≠ 0 ∧ f.entry.cluster = 0))
    (hreg : regionOf v.vol f.entry.entryBlock = .root ∨ regionOf v.vol f.entry.entryBlock = .data)
    (ho : f.entry.entryOffset + 32 ≤ 512) (hname : f.entry.name.length = 11) :
    ∃ s', closeFile h s = (.ok (), s') ∧ s'.files = swapRemove s.files i ∧ s'.vols = s.vols ∧ MgrOK s' ∧
      Mirror v.vol s'.dev.disk ∧ AllLicensed v.vol s.dev.disk (flushLicence v.vol f.entry) (newWritesM s s') :=
  Lemmas.WriteSet.close_file_licensed s h i vi f v hs hg hhint hm hh hf hv hvi hd hassert hreg ho hname

/-- `close_file` of a clean file: the record leaves the table, device and cache are the same — no write. -/
theorem close_file_clean_no_write (s : Mgr) (h i : Nat) (f : FileInfo)
    (hh : s.files.findIdx? (·.rawFile = h) = some i) (hf : s.files[i]? = some f) (hd : f.dirty = false) :
    closeFile h s = (.ok (), { s with files := swapRemove s.files i }) :=
  Lemmas.WriteSet.closeFile_clean_nowrite s h i f hh hf hd

/-! ### 8. `close_volume`; the read-only operations -/

/-- **Item 8, `close_volume`** of a volume no open file or directory refers to: the only write — on FAT32 — is
the info sector's with bytes 488..495 changed; on FAT16 nothing is written. -/
theorem close_volume_licensed (s : Mgr) (vol vi : Nat) (v : VolInfo) (hs : MgrOK s) (hg : WFGeom v.vol)
    (hhint : HintOK v.vol) (hm : Mirror v.vol s.dev.disk)
    (hfiles : s.files.any (·.rawVolume = vol) = false) (hdirs : s.dirs.any (·.rawVolume = vol) = false)
    (hv : s.vols.findIdx? (·.rawVolume = vol) = some vi) (hvi : s.vols[vi]? = some v) :
    ∃ s', closeVolume vol s = (.ok (), s') ∧ AllLicensed v.vol s.dev.disk (infoLicence v.vol) (newWritesM s s') ∧
      (v.vol.fatType = .fat16 → newWritesM s s' = []) ∧ s'.files = s.files ∧ s'.dirs = s.dirs :=
  Lemmas.WriteSet.close_volume_licensed s vol vi v hs hg hhint hm hfiles hdirs hv hvi

/-- **Item 8, read-only operations** (`Props.C11.readonly_ops_write_nothing`): `openVolume`, `openRoot`,
`openDir`, `closeDir`, `read`, the seeks, `find`, `list`, `listLfn`, `length`, `offset`, `eof`, `hasOpen`,
`label` never issue a device write — on every state, with or without faults. -/
theorem readonly_ops_write_nothing (s : Mgr) (op : Op) (h : Lemmas.Fault.readOnlyOp op = true) :
    (step s op).1.dev.disk = s.dev.disk ∧ (step s op).2.writes = [] :=
  Lemmas.Fault.step_readonly_nowrite s op h

/-! ### 9. Refused calls -/

/-- The errors by which the manager refuses a call. -/
abbrev Refused (e : Err) : Prop := Lemmas.WriteSet.Refusal e

theorem refused_def (e : Err) : Refused e ↔
    (e = .BadHandle ∨ e = .TooManyOpenVolumes ∨ e = .TooManyOpenDirs ∨ e = .TooManyOpenFiles ∨ e = .FileAlreadyOpen ∨
     e = .DirAlreadyOpen ∨ e = .OpenedDirAsFile ∨ e = .OpenedFileAsDir ∨ e = .DeleteDirAsFile ∨ e = .VolumeStillInUse ∨
     e = .VolumeAlreadyOpen ∨ e = .Unsupported ∨ e = .ReadOnly ∨ e = .FileAlreadyExists ∨ e = .DirAlreadyExists ∨
     (∃ x, e = .FilenameError x) ∨ e = .InvalidOffset ∨ e = .LockError ∨ e = .NoSuchVolume ∨ (∃ x, e = .FormatError x) ∨
     (∃ x, e = .BadBlockSize x) ∨ e = .ConversionError) := by
  cases e <;> simp [Refused, Lemmas.WriteSet.Refusal]

/-- **Item 9.**  A call answered with a refusal — bad handle, a full table, name clash, file already open,
read-only file or attribute, wrong kind of entry, invalid name, volume in use, locked manager, … — has
issued no device write and left the medium as it was: for EVERY state and every operation. -/
theorem refused_writes_nothing (s : Mgr) (op : Op) (e : Err) (h : (step s op).2.result = .err e) (hr : Refused e) :
    (step s op).2.writes = [] ∧ (step s op).1.dev.disk = s.dev.disk :=
  Lemmas.WriteSet.step_refused_nowrite s op e h hr

/-! ### 2. `write` -/

/-- **Item 2, `write`** — `Props.C01Write.write_refines` (same hypotheses plus identical FAT copies) with the
licence of the writes: `k` bytes are stored, the chain `cs` grows to `cs'`, and every device write of the call
is licensed by `writeLicence cs cs' f.currentOffset k`: a FAT write changes only the entries of the last
cluster of `cs` (the link) and of the clusters `cs'.drop cs.length` the chain grew by; a data write goes to a
block of a cluster of `cs'` and changes only bytes that hold the file positions `offset ≤ p < offset + k`
— in old and in newly allocated clusters alike.  No directory slot, not the info sector.  The invariants
(`FileOK`, `Owns`, `MgrOK`, `HintOK`, `WFGeom`, `Mirror`) hold again, so the theorem applies to the next call. -/
theorem write_licensed (s : Mgr) (h i vi : Nat) (data : Bytes) (f : FileInfo) (v : VolInfo) (cs : List Nat)
    (A B : List (List Nat)) (hs : MgrOK s)
    (hh : s.files.findIdx? (·.rawFile = h) = some i) (hf : s.files[i]? = some f)
    (hv : s.vols.findIdx? (·.rawVolume = f.rawVolume) = some vi) (hvi : s.vols[vi]? = some v)
    (hmode : f.mode ≠ .ReadOnly) (hg : WFGeom v.vol) (hhint : HintOK v.vol)
    (hok : FileOK v.vol s.dev.disk f cs) (hcur : cs = [] → f.curCluster < 2)
    (hown : Owns v.vol s.dev.disk (withChain A cs B)) (hmir : Mirror v.vol s.dev.disk) :
    ∃ k r s' f' v' cs', Model.write h data s = (r, s') ∧ k ≤ data.length ∧
      ((r = .ok () ∧ k = data.length) ∨
       (r = .err .DiskFull ∧ k < data.length ∧ cs' ≠ [] ∧
         (Full v'.vol s'.dev.disk ∨ Gen.MAX_FILE_SIZE ≤ f.currentOffset + k)) ∨
       (r = .err .NotEnoughSpace ∧ k = 0 ∧ cs' = [] ∧ Full v'.vol s'.dev.disk)) ∧
      s' = { s with dev := s'.dev, cache := s'.cache, files := s.files.set i f', vols := s.vols.set vi v' } ∧
      v' = { v with vol := v'.vol } ∧ SameGeom v.vol v'.vol ∧
      absFile v'.vol s'.dev.disk f' cs' = (absFile v.vol s.dev.disk f cs).write (data.take k) ∧
      FileOK v'.vol s'.dev.disk f' cs' ∧ (cs' = [] → f'.curCluster < 2) ∧ cs <+: cs' ∧
      Owns v'.vol s'.dev.disk (withChain A cs' B) ∧ MgrOK s' ∧ HintOK v'.vol ∧ WFGeom v'.vol ∧
      f'.currentOffset = f.currentOffset + k ∧ f'.entry.size = max f.entry.size (f.currentOffset + k) ∧
      Mirror v'.vol s'.dev.disk ∧
      AllLicensed v.vol s.dev.disk (writeLicence cs cs' f.currentOffset k) (newWritesM s s') :=
  Lemmas.WriteSet.write_licensed s h i vi data f v cs A B hs hh hf hv hvi hmode hg hhint hok hcur hown hmir

/-! ### 6. `delete_file_in_dir` -/

/-- **Item 6, `delete_file_in_dir`.**  `directory` is an open directory handle (record `d`) on the open volume
`v`; the name is a valid 8.3 name; looking it up in the directory on this state returns the entry `e` of a
file that is not open; the slot of `e` lies in a directory block; `cs` is the file's cluster chain (none
for a file without clusters).  Then the call succeeds; its writes are licensed by the slot of `e` and the
FAT entries of `cs`; in the slot's block exactly ONE byte differs afterwards — the first byte of the slot,
now `0xE5`; only the volume record's two bookkeeping fields changed; the standing hypotheses hold again. -/
theorem delete_licensed (s : Mgr) (directory di vi : Nat) (name : List Nat) (sfn : Bytes) (d : DirInfo) (v : VolInfo)
    (e : DirEntry) (cs : List Nat) (hs : MgrOK s) (hg : WFGeom v.vol) (hhint : HintOK v.vol) (hm : Mirror v.vol s.dev.disk)
    (hd : s.dirs.findIdx? (·.rawDirectory = directory) = some di) (hdi : s.dirs[di]? = some d)
    (hv : s.vols.findIdx? (·.rawVolume = d.rawVolume) = some vi) (hvi : s.vols[vi]? = some v)
    (hname : Sfn.createFromStr name = .ok sfn)
    (hfind : (Fat.findDirectoryEntry d.cluster sfn (fsOf s v)).1 = .ok e)
    (hnd : Attr.isDirectory e.attributes = false) (hno : fileIsOpen s d.rawVolume e = false)
    (hreg : regionOf v.vol e.entryBlock = .root ∨ regionOf v.vol e.entryBlock = .data)
    (hch : (e.cluster < 2 ∧ cs = []) ∨ Chain v.vol s.dev.disk e.cluster cs) :
    ∃ s' v', deleteFileInDir directory name s = (.ok (), s') ∧
      s' = { s with dev := s'.dev, cache := s'.cache, vols := s.vols.set vi v' } ∧ v' = { v with vol := v'.vol } ∧
      MgrOK s' ∧ WFGeom v'.vol ∧ HintOK v'.vol ∧ Mirror v'.vol s'.dev.disk ∧ SameGeom v.vol v'.vol ∧
      AllLicensed v.vol s.dev.disk (deleteLicence e cs) (newWritesM s s') ∧
      s'.dev.disk.get e.entryBlock = (s.dev.disk.get e.entryBlock).set e.entryOffset (UInt8.ofNat 0xE5) :=
  Lemmas.WriteSet.delete_licensed s directory di vi name sfn d v e cs hs hg hhint hm hd hdi hv hvi hname hfind hnd hno hreg hch

/-! ### 5. `open_file_in_dir`, truncating -/

/-- **Item 5, a truncating open** (`ReadWriteTruncate`, or `ReadWriteCreateOrTruncate` on an existing name) of a
closed, writable plain file with entry `e` and chain `cs`: the call succeeds and its writes are licensed by
the FAT entries of `cs` and the slot of `e`. -/
theorem truncate_open_licensed (s : Mgr) (dh vi : Nat) (name : List Nat) (sfn : Bytes) (dir : DirInfo) (mode : Mode) (v : VolInfo)
    (e : DirEntry) (cs : List Nat) (hm : mode = .ReadWriteTruncate ∨ mode = .ReadWriteCreateOrTruncate)
    (hc : Modes.DirCtx s dh name dir vi sfn) (hroom : s.files.length < s.maxFiles) (hvi : s.vols[vi]? = some v)
    (hs : MgrOK s) (hg : WFGeom v.vol) (hhint : HintOK v.vol) (hmir : Mirror v.vol s.dev.disk)
    (hfind : (Fat.findDirectoryEntry dir.cluster sfn (fsOf s v)).1 = .ok e)
    (hno : fileIsOpen s dir.rawVolume e = false) (hro : Attr.isReadOnly e.attributes = false)
    (hd : Attr.isDirectory e.attributes = false)
    (hreg : regionOf v.vol e.entryBlock = .root ∨ regionOf v.vol e.entryBlock = .data)
    (hch : (e.cluster < 2 ∧ cs = []) ∨ Chain v.vol s.dev.disk e.cluster cs) :
    ∃ s' v', openFileInDir dh name mode s = (.ok s.nextId, s') ∧ s'.vols = s.vols.set vi v' ∧ v' = { v with vol := v'.vol } ∧
      s'.files = s.files ++ [Modes.truncatedFile dir s.nextId e s.clock] ∧
      MgrOK s' ∧ WFGeom v'.vol ∧ HintOK v'.vol ∧ Mirror v'.vol s'.dev.disk ∧ SameGeom v.vol v'.vol ∧
      AllLicensed v.vol s.dev.disk (truncateLicence e cs) (newWritesM s s') :=
  Lemmas.WriteSet.truncate_open_licensed s dh vi name sfn dir mode v e cs hm hc hroom hvi hs hg hhint hmir hfind hno hro hd hreg hch

/-! ### 4. `open_file_in_dir`, creating -/

/-- **Item 4, a creating open** of a name the lookup does not find, the directory the FAT16 fixed root or a
directory with a well-formed chain `dcs`.  Three outcomes:
* the entry `en` went into the first free slot of a block of the directory: every write is licensed by
  that slot alone;
* the chained directory was full: a FREE cluster `c` was blanked and linked behind the directory's last
  cluster, the entry is in its slot 0: the writes are licensed by the FAT entries of `last` and `c` and the
  blocks of `c`;
* a full FAT16 root directory, or a full chained directory on a full volume: `NotEnoughSpace`, no write. -/
theorem create_licensed (s : Mgr) (dh vi : Nat) (name : List Nat) (sfn : Bytes) (dir : DirInfo) (mode : Mode) (v : VolInfo)
    (dcs : List Nat)
    (hm : mode = .ReadWriteCreate ∨ mode = .ReadWriteCreateOrTruncate ∨ mode = .ReadWriteCreateOrAppend)
    (hc : Modes.DirCtx s dh name dir vi sfn) (hroom : s.files.length < s.maxFiles) (hvi : s.vols[vi]? = some v)
    (hs : MgrOK s) (hg : WFGeom v.vol) (hhint : HintOK v.vol) (hmir : Mirror v.vol s.dev.disk)
    (hfind : (Fat.findDirectoryEntry dir.cluster sfn (fsOf s v)).1 = .err .NotFound)
    (hdir : ¬ IsFixedRoot v.vol dir.cluster → Chain v.vol s.dev.disk (startCluster v.vol dir.cluster) dcs) :
    ∃ r s' v', openFileInDir dh name mode s = (r, s') ∧ s'.vols = s.vols.set vi v' ∧ v' = { v with vol := v'.vol } ∧
      MgrOK s' ∧ WFGeom v'.vol ∧ HintOK v'.vol ∧ Mirror v'.vol s'.dev.disk ∧ SameGeom v.vol v'.vol ∧
      ((∃ en, r = .ok s.nextId ∧ s'.files = s.files ++ [Modes.createdFile dir s.nextId en] ∧
          DirBlock v.vol dir.cluster dcs en.entryBlock ∧ en.entryOffset + 32 ≤ 512 ∧ en.entryOffset % 32 = 0 ∧
          AllLicensed v.vol s.dev.disk { slots := [(en.entryBlock, en.entryOffset)] } (newWritesM s s')) ∨
       (∃ en last c, r = .ok s.nextId ∧ s'.files = s.files ++ [Modes.createdFile dir s.nextId en] ∧
          ¬ IsFixedRoot v.vol dir.cluster ∧ dcs.getLast? = some last ∧ InRange v.vol c ∧ isFree v.vol s.dev.disk c ∧
          en.entryBlock = clusterToBlock v.vol c ∧ en.entryOffset = 0 ∧
          AllLicensed v.vol s.dev.disk { fatClusters := [last, c], dataClusters := [c] } (newWritesM s s')) ∨
       (r = .err .NotEnoughSpace ∧ s'.files = s.files ∧ newWritesM s s' = [])) :=
  Lemmas.WriteSet.create_licensed s dh vi name sfn dir mode v dcs hm hc hroom hvi hs hg hhint hmir hfind hdir

/-! ### 7. `make_dir_in_dir` -/

/-- **Item 7, `make_dir_in_dir`** of a name the lookup does not find.  On a full volume: `NotEnoughSpace`, no
write.  Otherwise a FREE cluster `cn` becomes the new directory (its FAT entry, its blocks) and the entry
goes into the parent as in item 4 — a free slot `(b, off)`, or a parent grown by a cluster `c`; when the
parent has no room (`NotEnoughSpace`) `cn` is freed again and only its FAT entry and blocks were written. -/
theorem mkdir_licensed (s : Mgr) (dh vi : Nat) (name : List Nat) (sfn : Bytes) (dir : DirInfo) (v : VolInfo) (dcs : List Nat)
    (hc : Modes.DirCtx s dh name dir vi sfn) (hroom : s.dirs.length < s.maxDirs) (hvi : s.vols[vi]? = some v)
    (hs : MgrOK s) (hg : WFGeom v.vol) (hhint : HintOK v.vol) (hmir : Mirror v.vol s.dev.disk)
    (hfind : (Fat.findDirectoryEntry dir.cluster sfn (fsOf s v)).1 = .err .NotFound)
    (hdir : ¬ IsFixedRoot v.vol dir.cluster → Chain v.vol s.dev.disk (startCluster v.vol dir.cluster) dcs) :
    (∃ s', makeDirInDir dh name s = (.err .NotEnoughSpace, s') ∧ newWritesM s s' = [] ∧ s'.dev.disk = s.dev.disk) ∨
    (∃ cn r s' v', makeDirInDir dh name s = (r, s') ∧ s'.vols = s.vols.set vi v' ∧ v' = { v with vol := v'.vol } ∧
      MgrOK s' ∧ WFGeom v'.vol ∧ HintOK v'.vol ∧ Mirror v'.vol s'.dev.disk ∧ SameGeom v.vol v'.vol ∧
      InRange v.vol cn ∧ isFree v.vol s.dev.disk cn ∧
      ((∃ b off, r = .ok () ∧ DirBlock v.vol dir.cluster dcs b ∧ off + 32 ≤ 512 ∧ off % 32 = 0 ∧
          AllLicensed v.vol s.dev.disk { fatClusters := [cn], dataClusters := [cn], slots := [(b, off)] } (newWritesM s s')) ∨
       (∃ last c, r = .ok () ∧ ¬ IsFixedRoot v.vol dir.cluster ∧ dcs.getLast? = some last ∧ InRange v.vol c ∧
          AllLicensed v.vol s.dev.disk { fatClusters := [cn, last, c], dataClusters := [cn, c] } (newWritesM s s')) ∨
       (r = .err .NotEnoughSpace ∧
          AllLicensed v.vol s.dev.disk { fatClusters := [cn], dataClusters := [cn] } (newWritesM s s')))) :=
  Lemmas.WriteSet.mkdir_licensed s dh vi name sfn dir v dcs hc hroom hvi hs hg hhint hmir hfind hdir

/-! ### 10. `step` -/

/-- The writes `step` reports are the writes the call added to the cleared log, and the medium the call
starts from is the medium of `s`. -/
theorem step_writes (s : Mgr) (op : Op) (hl : s.locked = false) :
    (step s op).2.writes = newWritesM (Lemmas.MHoare.resetLogs s) (runOp op (Lemmas.MHoare.resetLogs s)).2 ∧
    (step s op).1 = (runOp op (Lemmas.MHoare.resetLogs s)).2 ∧ (Lemmas.MHoare.resetLogs s).dev.disk = s.dev.disk :=
  Lemmas.WriteSet.step_writes s op hl

/-- `resetLogs` clears the two per-call logs and nothing else. -/
theorem resetLogs_def (s : Mgr) :
    Lemmas.MHoare.resetLogs s = { s with dev := { s.dev with wlog := [], rlog := [] } } := rfl

/-- The state `runOp` leaves is the state the API function leaves (for the seven writing operations). -/
theorem runOp_states (s : Mgr) :
    (∀ f b, (runOp (.write f b) s).2 = (write f b s).2) ∧ (∀ f, (runOp (.flush f) s).2 = (flushFile f s).2) ∧
    (∀ f, (runOp (.closeFile f) s).2 = (closeFile f s).2) ∧ (∀ v, (runOp (.closeVolume v) s).2 = (closeVolume v s).2) ∧
    (∀ d n, (runOp (.delete d n) s).2 = (deleteFileInDir d n s).2) ∧ (∀ d n, (runOp (.mkdir d n) s).2 = (makeDirInDir d n s).2) ∧
    (∀ d n m, (runOp (.openFile d n m) s).2 = (openFileInDir d n m s).2) :=
  ⟨fun f b => Lemmas.WriteSet.runOp_write f b s, fun f => Lemmas.WriteSet.runOp_flush f s,
   fun f => Lemmas.WriteSet.runOp_closeFile f s, fun v => Lemmas.WriteSet.runOp_closeVolume v s,
   fun d n => Lemmas.WriteSet.runOp_delete d n s, fun d n => Lemmas.WriteSet.runOp_mkdir d n s,
   fun d n m => Lemmas.WriteSet.runOp_openFile d n m s⟩

/-- **Item 10, partial.**  For every state and every operation: when the manager is locked, the operation
is read-only, or the call is refused, `step` reports no write (so its writes are licensed by the empty
licence) and the medium is unchanged.  (Full statement, not proved: `∀ s op, [standing invariant of all open
files and directories] → AllLicensed … (licenceOf s op) (step s op).2.writes`; for the writing operations use
`step_writes`, `runOp_states` and the per-call theorems, e.g. `flush_step_licensed`.) -/
theorem step_licensed_partial (s : Mgr) (op : Op)
    (h : s.locked = true ∨ Lemmas.Fault.readOnlyOp op = true ∨ ∃ e, (step s op).2.result = .err e ∧ Refused e)
    (v : FatVolume) :
    AllLicensed v s.dev.disk Licence.none (step s op).2.writes ∧ (step s op).2.writes = [] ∧
    (step s op).1.dev.disk = s.dev.disk := by
  obtain ⟨h1, h2⟩ := Lemmas.WriteSet.step_nowrite_cases s op h
  rw [h1]
  exact ⟨trivial, rfl, h2⟩

/-- How the per-call theorems give the writes of `step`, here for `flush`: the writes `step s (.flush h)`
reports are licensed by the file's slot (and the info sector on FAT32). -/
theorem flush_step_licensed (s : Mgr) (h i vi : Nat) (f : FileInfo) (v : VolInfo) (hs : MgrOK s) (hg : WFGeom v.vol)
    (hhint : HintOK v.vol) (hm : Mirror v.vol s.dev.disk)
    (hh : s.files.findIdx? (·.rawFile = h) = some i) (hf : s.files[i]? = some f)
    (hv : s.vols.findIdx? (·.rawVolume = f.rawVolume) = some vi) (hvi : s.vols[vi]? = some v)
    (hd : f.dirty = true) (hassert : ¬ (f.entry.size ≠ 0 ∧ f.entry.cluster = 0))
    (hreg : regionOf v.vol f.entry.entryBlock = .root ∨ regionOf v.vol f.entry.entryBlock = .data)
    (ho : f.entry.entryOffset + 32 ≤ 512) (hname : f.entry.name.length = 11) :
    AllLicensed v.vol s.dev.disk (flushLicence v.vol f.entry) (step s (.flush h)).2.writes := by
  obtain ⟨hw, _, _⟩ := step_writes s (.flush h) hs.2.2.2
  obtain ⟨s', hrun, _, _, _, hl⟩ := flush_licensed (Lemmas.MHoare.resetLogs s) h i vi f v hs hg hhint hm hh hf hv hvi hd hassert hreg ho hname
  rw [hw, (runOp_states _).2.1 h, hrun]
  exact hl

/-! ### Non-vacuity: the theorems applied to concrete states, and the excluded points evaluated

`Example`: the FAT16 volume of `Props.C02Reopen.Example` (4085 clusters, one FAT copy, fixed root directory in
block 18, the file "A.TXT" with chain 2 → 3).  `ExampleW`: the state of `Props.C01Write.Example`.  `Example32`:
the FAT32 volume of `Props.C02Reopen.Example32` (info sector in block 2, root directory in cluster 2). -/

namespace Example
open Sdmmc.Props.C02Reopen.Example

theorem hintOK : HintOK vol := fun n h => by
  have : some 4 = some n := h
  cases this; decide
theorem mirror (d : Disk) : Mirror vol d := fun c _ b2 h => by
  have : (none : Option Nat) = some b2 := h
  cases this

example : regionOf vol 18 = .root ∧ regionOf vol 2 = .fat ∧ regionOf vol 19 = .data ∧ regionOf vol 1 = .boot ∧
    regionOf vol 0 = .outside := by decide

example : ∃ s', flushFile 7 mgr = (.ok (), s') ∧ s' = { mgr with dev := s'.dev, cache := s'.cache } ∧ MgrOK s' ∧
    Mirror vol s'.dev.disk ∧ AllLicensed vol disk (flushLicence vol entry) (newWritesM mgr s') :=
  flush_licensed mgr 7 0 0 file vinfo mgrOK wfgeom hintOK (mirror _) handle_found rfl volume_found rfl rfl (by decide)
    (.inl (by decide)) (by decide) (by decide)

example : (step mgr (.flush 7)).2.writes.map (·.1) = [18] := by decide +kernel

/-- The directory slot holds the flushed entry; the file is closed. -/
def disk2 : Disk := disk.set 18 (entry.serialize .fat16 ++ zeros 480)
def dir0 : DirInfo := { rawDirectory := 5, rawVolume := 3, cluster := Gen.CLUSTER_ROOT_DIR }
def mgr2 : Mgr := { mgr with dev := { disk := disk2 }, files := [] }

theorem blocksOK2 : BlocksOK disk2 := Lemmas.FatOps.blocksOK_set _ _ _ blocksOK (by decide +kernel)
theorem mgrOK2 : MgrOK mgr2 := ⟨rfl, fun i h => (by cases h), blocksOK2, rfl⟩
theorem chain2 : Chain vol disk2 2 [2, 3] :=
  .link 2 3 [3] ⟨by decide, by decide⟩ (by decide +kernel) (by decide) (.last 3 ⟨by decide, by decide⟩ (by decide +kernel))
theorem find2 : (Fat.findDirectoryEntry dir0.cluster nameA (fsOf mgr2 vinfo)).1 = .ok entry := by decide +kernel
theorem ctx2 : Lemmas.Modes.DirCtx mgr2 5 nameStr dir0 0 nameA := ⟨⟨0, by decide, rfl⟩, by decide, by decide⟩

example : ∃ s' v', deleteFileInDir 5 nameStr mgr2 = (.ok (), s') ∧
    s' = { mgr2 with dev := s'.dev, cache := s'.cache, vols := mgr2.vols.set 0 v' } ∧ v' = { vinfo with vol := v'.vol } ∧
    MgrOK s' ∧ WFGeom v'.vol ∧ HintOK v'.vol ∧ Mirror v'.vol s'.dev.disk ∧ SameGeom vol v'.vol ∧
    AllLicensed vol disk2 (deleteLicence entry [2, 3]) (newWritesM mgr2 s') ∧
    s'.dev.disk.get 18 = (disk2.get 18).set 0 (UInt8.ofNat 0xE5) :=
  delete_licensed mgr2 5 0 0 nameStr nameA dir0 vinfo entry [2, 3] mgrOK2 wfgeom hintOK (mirror _) (by decide) rfl (by decide) rfl
    (by decide) find2 (by decide) (by decide) (.inl (by decide)) (.inr chain2)


example : ∃ s' v', openFileInDir 5 nameStr .ReadWriteTruncate mgr2 = (.ok mgr2.nextId, s') ∧ s'.vols = mgr2.vols.set 0 v' ∧
    v' = { vinfo with vol := v'.vol } ∧ s'.files = mgr2.files ++ [Lemmas.Modes.truncatedFile dir0 mgr2.nextId entry mgr2.clock] ∧
    MgrOK s' ∧ WFGeom v'.vol ∧ HintOK v'.vol ∧ Mirror v'.vol s'.dev.disk ∧ SameGeom vol v'.vol ∧
    AllLicensed vol disk2 (truncateLicence entry [2, 3]) (newWritesM mgr2 s') :=
  truncate_open_licensed mgr2 5 0 nameStr nameA dir0 .ReadWriteTruncate vinfo entry [2, 3] (.inl rfl) ctx2 (by decide) rfl mgrOK2 wfgeom
    hintOK (mirror _) find2 (by decide) (by decide) (by decide) (.inl (by decide)) (.inr chain2)

def nameB : Bytes := [0x42, 0x20, 0x20, 0x20, 0x20, 0x20, 0x20, 0x20, 0x54, 0x58, 0x54]
def nameStrB : List Nat := [0x42, 0x2E, 0x54, 0x58, 0x54]   -- "B.TXT"
theorem ctxB : Lemmas.Modes.DirCtx mgr2 5 nameStrB dir0 0 nameB := ⟨⟨0, by decide, rfl⟩, by decide, by decide⟩
theorem findB : (Fat.findDirectoryEntry dir0.cluster nameB (fsOf mgr2 vinfo)).1 = .err .NotFound := by decide +kernel
theorem rootDir : ¬ Lemmas.Reopen.IsFixedRoot vol dir0.cluster → Chain vol disk2 (Lemmas.Listing.startCluster vol dir0.cluster) [] :=
  fun hk => absurd ⟨rfl, rfl⟩ hk

example : ∃ r s' v', openFileInDir 5 nameStrB .ReadWriteCreate mgr2 = (r, s') ∧ s'.vols = mgr2.vols.set 0 v' ∧
    v' = { vinfo with vol := v'.vol } ∧ MgrOK s' ∧ WFGeom v'.vol ∧ HintOK v'.vol ∧ Mirror v'.vol s'.dev.disk ∧ SameGeom vol v'.vol ∧
    ((∃ en, r = .ok mgr2.nextId ∧ s'.files = mgr2.files ++ [Lemmas.Modes.createdFile dir0 mgr2.nextId en] ∧
        DirBlock vol dir0.cluster [] en.entryBlock ∧ en.entryOffset + 32 ≤ 512 ∧ en.entryOffset % 32 = 0 ∧
        AllLicensed vol disk2 { slots := [(en.entryBlock, en.entryOffset)] } (newWritesM mgr2 s')) ∨
     (∃ en last c, r = .ok mgr2.nextId ∧ s'.files = mgr2.files ++ [Lemmas.Modes.createdFile dir0 mgr2.nextId en] ∧
        ¬ Lemmas.Reopen.IsFixedRoot vol dir0.cluster ∧ ([] : List Nat).getLast? = some last ∧ InRange vol c ∧ isFree vol disk2 c ∧
        en.entryBlock = clusterToBlock vol c ∧ en.entryOffset = 0 ∧
        AllLicensed vol disk2 { fatClusters := [last, c], dataClusters := [c] } (newWritesM mgr2 s')) ∨
     (r = .err .NotEnoughSpace ∧ s'.files = mgr2.files ∧ newWritesM mgr2 s' = [])) :=
  create_licensed mgr2 5 0 nameStrB nameB dir0 .ReadWriteCreate vinfo [] (.inl rfl) ctxB (by decide) rfl mgrOK2 wfgeom hintOK (mirror _)
    findB rootDir

/-- On this state the creating open takes the first outcome: slot 1 of the root directory block. -/
example : (openFileInDir 5 nameStrB .ReadWriteCreate mgr2).1 = .ok 8 ∧
    ((openFileInDir 5 nameStrB .ReadWriteCreate mgr2).2.files.map fun f => (f.entry.entryBlock, f.entry.entryOffset)) = [(18, 32)] := by
  decide +kernel

example : (∃ s', makeDirInDir 5 nameStrB mgr2 = (.err .NotEnoughSpace, s') ∧ newWritesM mgr2 s' = [] ∧ s'.dev.disk = mgr2.dev.disk) ∨
    (∃ cn r s' v', makeDirInDir 5 nameStrB mgr2 = (r, s') ∧ s'.vols = mgr2.vols.set 0 v' ∧ v' = { vinfo with vol := v'.vol } ∧
      MgrOK s' ∧ WFGeom v'.vol ∧ HintOK v'.vol ∧ Mirror v'.vol s'.dev.disk ∧ SameGeom vol v'.vol ∧
      InRange vol cn ∧ isFree vol disk2 cn ∧
      ((∃ b off, r = .ok () ∧ DirBlock vol dir0.cluster [] b ∧ off + 32 ≤ 512 ∧ off % 32 = 0 ∧
          AllLicensed vol disk2 { fatClusters := [cn], dataClusters := [cn], slots := [(b, off)] } (newWritesM mgr2 s')) ∨
       (∃ last c, r = .ok () ∧ ¬ Lemmas.Reopen.IsFixedRoot vol dir0.cluster ∧ ([] : List Nat).getLast? = some last ∧ InRange vol c ∧
          AllLicensed vol disk2 { fatClusters := [cn, last, c], dataClusters := [cn, c] } (newWritesM mgr2 s')) ∨
       (r = .err .NotEnoughSpace ∧
          AllLicensed vol disk2 { fatClusters := [cn], dataClusters := [cn] } (newWritesM mgr2 s')))) :=
  mkdir_licensed mgr2 5 0 nameStrB nameB dir0 vinfo [] ctxB (by decide) rfl mgrOK2 wfgeom hintOK (mirror _) findB rootDir


/-- A FAT16 volume with TWO FAT copies (blocks 2..17 and 18..33), root directory in block 34, data from 35. -/
def volM : FatVolume :=
  { lbaStart := 1, numBlocks := 4119, name := zeros 11, blocksPerCluster := 1, firstDataBlock := 34, fatStart := 1,
    secondFatStart := some 17, freeClustersCount := none, nextFreeCluster := none, clusterCount := 4085,
    fatType := .fat16, rootEntriesCount := 16, firstRootDirBlock := 33, infoLocation := 0, firstRootDirCluster := 0 }
theorem wfgeomM : WFGeom volM :=
  ⟨by decide, by decide, fun s h => (by cases h; decide), fun _ => (by decide), fun h => (by cases h), by decide,
   (by show endCluster volM ≤ 0xFFF7; decide)⟩
/-- Copy 1: 2 → 3 → end.  Copy 2 differs in the entry of cluster 5 (`0x0007` instead of free). -/
def fat1 : Block := [0xF8, 0xFF, 0xFF, 0xFF, 3, 0, 0xFF, 0xFF] ++ zeros 504
def fat2 : Block := [0xF8, 0xFF, 0xFF, 0xFF, 3, 0, 0xFF, 0xFF, 0, 0, 7, 0] ++ zeros 500
def diskM : Disk := (Disk.empty.set 2 fat1).set 18 fat2
def fsM : FS := { dev := { disk := diskM }, cache := { tag := none, blk := [] }, vol := volM }

example : ¬ Mirror volM diskM := fun h => by
  have := h 5 (by decide) 18 (by decide)
  revert this
  decide +kernel

/-- **Excluded point of the hypothesis `Mirror`.**  With FAT copies that differ, `update_fat(2, free)` writes
the patched block of copy 1 over the block of copy 2 as well: in copy 2 the entry of cluster 5 — no cluster
of any licence of the call — changes from `0x0007` to free.  The second write is not licensed. -/
theorem mirror_needed :
    (updateFat 2 0 fsM).1 = .ok () ∧ ((updateFat 2 0 fsM).2.dev.wlog.map (·.1)) = [18, 2] ∧
    ¬ AllLicensed volM diskM { fatClusters := [2] } (updateFat 2 0 fsM).2.dev.wlog.reverse := by
  refine ⟨by decide +kernel, by decide +kernel, ?_⟩
  generalize hw : (updateFat 2 0 fsM).2.dev.wlog = wl
  have hlen : wl.map (·.1) = [18, 2] := by rw [← hw]; decide +kernel
  have hbyte : (wl.head?.map fun w => w.2.getD 10 0) = some 0 := by rw [← hw]; decide +kernel
  match wl, hlen, hbyte with
  | [w2, w1], hlen, hbyte =>
    have h2 : w2.1 = 18 := by simpa using (List.cons.inj hlen).1
    have h1 : w1.1 = 2 := by simpa using (List.cons.inj (List.cons.inj hlen).2).1
    have hb : w2.2.getD 10 0 = 0 := by simpa using hbyte
    intro hall
    have hl : Licensed volM (diskM.set w1.1 w1.2) { fatClusters := [2] } w2 := hall.2.1
    have hold : ((diskM.set w1.1 w1.2).get w2.1).getD 10 0 = 7 := by
      rw [h1, h2, Lemmas.FBasic.Disk.get_set_ne _ _ _ _ (by decide)]
      decide +kernel
    rcases hl with ⟨_, _, h3, _⟩ | ⟨_, c, hc, _⟩ | ⟨_, _, ⟨off, ho⟩, _⟩ | ⟨hi, _⟩ | ⟨_, ⟨cs, lo, hi, c, hm, _⟩, _⟩
    · have := h3 10 (by
        rintro ⟨c, hc, _, g1, g2⟩
        have : c = 2 := by simpa using hc
        subst this
        revert g1 g2
        decide)
      rw [hb, hold] at this
      cases this
    · cases hc
    · cases ho
    · cases hi
    · cases hm
end Example

namespace ExampleW
open Sdmmc.Props.C01Read.Example Sdmmc.Props.C01Write.Example

theorem mirrorW (d : Disk) : Mirror vol d := fun c _ b2 h => by
  have : (none : Option Nat) = some b2 := h
  cases this

/-- `write_licensed` applies to the state of `Props.C01Write.Example` (700 bytes at offset 1000 of a
1300-byte file with chain `[5, 2, 7]`): its hypotheses are satisfiable. -/
example : ∃ (k : Nat) (r : Res Unit) (s' : Mgr) (cs' : List Nat), write 1 data700 mgrW = (r, s') ∧ k ≤ data700.length ∧ [5, 2, 7] <+: cs' ∧
    AllLicensed vol disk (writeLicence [5, 2, 7] cs' fileW.currentOffset k) (newWritesM mgrW s') := by
  obtain ⟨k, r, s', f', v', cs', h1, h2, _, _, _, _, _, _, _, h10, _, _, _, _, _, _, _, h18⟩ :=
    write_licensed mgrW 1 0 0 data700 fileW vinfo [5, 2, 7] [] [[3]] mgrOKW Sdmmc.Props.C01Write.Example.handle_found rfl Sdmmc.Props.C01Write.Example.volume_found rfl
      (by decide) wfgeom hintOK fileOKW (fun h => by cases h) owns (mirrorW _)
  exact ⟨k, r, s', cs', h1, h2, h10, h18⟩
end ExampleW

namespace Example32
open Sdmmc.Props.C02Reopen.Example32
open Sdmmc.Props.C02Reopen.Example (nameStr)
theorem hintOK : HintOK vol := fun n h => by
  have : some 5 = some n := h
  cases this; decide
theorem mirror (d : Disk) : Mirror vol d := fun c _ b2 h => by
  have : (none : Option Nat) = some b2 := h
  cases this
/-- FAT32: the flush is licensed by the slot and the info sector; it writes the info sector (block 2), then
the directory block (515). -/
example : ∃ s', flushFile 7 mgr = (.ok (), s') ∧ s' = { mgr with dev := s'.dev, cache := s'.cache } ∧ MgrOK s' ∧
    Mirror vol s'.dev.disk ∧ AllLicensed vol disk (flushLicence vol entry) (newWritesM mgr s') :=
  flush_licensed mgr 7 0 0 file vinfo mgrOK wfgeom hintOK (mirror _) (by decide) rfl (by decide) rfl rfl (by decide)
    (.inr (by decide)) (by decide) (by decide)
example : (flushLicence vol entry).info = true ∧ (flushLicence vol entry).slots = [(515, 0)] := by decide
example : AllLicensed vol disk (flushLicence vol entry) (step mgr (.flush 7)).2.writes :=
  flush_step_licensed mgr 7 0 0 file vinfo mgrOK wfgeom hintOK (mirror _) (by decide) rfl (by decide) rfl rfl (by decide)
    (.inr (by decide)) (by decide) (by decide)

def nameStrB : List Nat := [0x42, 0x2E, 0x54, 0x58, 0x54]   -- "B.TXT"
/-- A CORRUPT FAT: the root directory's cluster 2 links to cluster 70000 — the volume has clusters 2..65526. -/
def fatBad : Block := [0xF8, 0xFF, 0xFF, 0x0F, 0xFF, 0xFF, 0xFF, 0x0F, 0x70, 0x11, 0x01, 0x00] ++ zeros 500
/-- The root directory block, all sixteen slots taken. -/
def dirFull : Block := (List.replicate 16 (oldEntry.serialize .fat32)).flatten
/-- Block 549 is where a FAT entry of "cluster 70000" would be read from — a data block of the volume (cluster 36); it
happens to hold an end-of-chain pattern at byte 448. -/
def blk549 : Block := zeros 448 ++ [0xFF, 0xFF, 0xFF, 0x0F] ++ zeros 60
def diskBad : Disk := ((disk.set 3 fatBad).set 515 dirFull).set 549 blk549
def mgrBad : Mgr := { mgr with dev := { disk := diskBad }, files := [] }

/-- **Excluded point of the hypothesis "the directory's chain is a chain of data clusters of the volume".**
`next_cluster` answers whatever the FAT entry holds (no range check, in the model as in the Rust), the walk
of `write_new_directory_entry` follows it, and the new entry is written into block 70513 — behind the last
block (66039) of the partition.  (The same walk is used by `make_dir_in_dir` and, reading only, by every
lookup.) -/
theorem corrupt_dir_chain_escapes :
    ¬ Chain vol diskBad 2 [2] ∧
    (step mgrBad (.openFile 5 nameStrB .ReadWriteCreate)).2.writes.map (·.1) = [70513] ∧
    ¬ InPartition vol 70513 := by
  refine ⟨?_, by decide +kernel, by unfold InPartition; decide⟩
  intro h
  cases h with
  | last _ _ he => revert he; decide +kernel
  | link _ n _ _ _ _ hrest => cases hrest
end Example32

end Sdmmc.Props.C04Api
