/-
C17, tie to the source text (whole functions of filesystem/filename.rs): `LfnBuffer::{new, clear, push, as_str}` — the
bookkeeping of the long-file-name buffer: the free index, the overflow flag, the surrogate carried from one directory
entry to the next (`self.unpaired_surrogate.take()` BEFORE the decode loop, `Some(..)` only for an unpaired unit that
comes FIRST), the cut at the first null, the scratch vector of 14 chars with its two `expect`s, the store loop that
writes every encoded char backwards below `free` and gives up (overflow, `return`) when one does not fit — as
machine-translated from the source into `Sdmmc.Gen.FunsName` (tools/translate_name.py), are EQUAL to the hand-written
model `Model/Lfn.lean`.  `char::decode_utf16` and `char::encode_utf8` are the model's functions `Lfn.decodeUtf16` /
`Lfn.encodeUtf8` on both sides (bindings of the translator; they are tied to the Unicode definitions in `Props/C17`).

`struct LfnBuffer` is generated from the source (`inner` is the storage itself); a `&mut self` method takes the four
fields and hands them back as a tuple in the order of the struct (`tupOf`).  The generated code carries the index /
subtraction / capacity checks of the Rust (`N.panic`); `push_eq` shows that on a buffer with `free ≤ inner.len()` and a
fragment of 13 units none of them fires and the result is the model's.
-/
import Sdmmc.Lemmas.GenLfn

namespace Sdmmc.Props.C17GenM
open Sdmmc.Model Sdmmc.Model.Lfn Sdmmc.Gen Sdmmc.Gen.FunsName
open Sdmmc.Lemmas.GenLfn (tupOf bufOf merge)

theorem new_eq (storage : Bytes) : bufOf (LfnBuffer_new storage) = Lfn.new storage := Lemmas.GenLfn.new_eq storage

theorem clear_eq (b : Buf) : LfnBuffer_clear b.inner b.free b.overflow b.unpaired = pure (tupOf (Lfn.clear b)) :=
  Lemmas.GenLfn.clear_eq b

theorem as_str_eq (b : Buf) : LfnBuffer_as_str b.inner b.free b.overflow = Lfn.asStr b := Lemmas.GenLfn.as_str_eq b

/-- `buffer.iter().position(|&b| b == 0).unwrap_or(buffer.len())` and `&buffer[0..null_idx]`: the units before the
first null. -/
theorem cut_at_null_eq (l : List Nat) :
    List.take (Option.getD (List.findIdx? (fun b => decide (b = 0)) l) l.length) l = l.takeWhile (· ≠ 0) :=
  Lemmas.GenLfn.take_findIdx l

/-- The decode loop: whenever the model's `collect` does not run out of room, the generated loop returns its result
(the chars in order, the surrogate to carry). -/
theorem decode_loop_eq (items : List Item) (acc : List Nat) (isFirst : Bool) (saved : Option Nat) (r : List Nat × Option Nat)
    (h : collect items isFirst acc saved = some r) : LfnBuffer_push_loop1 items acc isFirst saved = pure r :=
  Lemmas.GenLfn.loop1_eq items acc isFirst saved r h

/-- The byte loop: one encoded char, written backwards below `free`. -/
theorem byte_loop_eq (rbs : Bytes) (free : Nat) (inner : Bytes) (h1 : rbs.length ≤ free) (h2 : free ≤ inner.length) :
    LfnBuffer_push_loop3 rbs free inner = pure (free - rbs.length, splice inner (free - rbs.length) rbs.reverse) :=
  Lemmas.GenLfn.loop3_eq rbs free inner h1 h2

/-- The store loop is the model's `store` (an `Except`: the fields at the early `return`, or what the loop assigns). -/
theorem store_loop_eq (chars : List Nat) (b : Buf) (hb : b.free ≤ b.inner.length) :
    ∃ r, LfnBuffer_push_loop2 b.unpaired chars b.free b.inner b.overflow = pure r ∧ merge b.unpaired r = tupOf (store b chars) :=
  Lemmas.GenLfn.loop2_eq chars b hb

/-- **`LfnBuffer::push`** equals the model's `push`. -/
theorem push_eq (b : Buf) (frag : List Nat) (hb : b.free ≤ b.inner.length) (hf : frag.length = 13) :
    ∃ b', Lfn.push b frag = .ok b' ∧ LfnBuffer_push b.inner b.free b.overflow b.unpaired frag = pure (tupOf b') :=
  Lemmas.GenLfn.push_eq b frag hb hf

namespace Example
def okOf {α : Type} : N α → Option α
  | NRes.ok a => some a
  | _ => none

/-- The two directory entries of the crate's own test (`two_piece_split_surrogate`): "AB0123456789😀.txt". -/
def frag2 : List Nat := [0xde00, 0x002e, 0x0074, 0x0078, 0x0074, 0x0000, 0xffff, 0xffff, 0xffff, 0xffff, 0xffff, 0xffff, 0xffff]
def frag1 : List Nat := [0x0041, 0x0042, 0x0030, 0x0031, 0x0032, 0x0033, 0x0034, 0x0035, 0x0036, 0x0037, 0x0038, 0x0039, 0xd83d]

/-- Evaluated on the generated functions: after the first push the low surrogate is carried and ".txt" is stored;
after the second the buffer reads "AB0123456789😀.txt" (20 bytes, U+1F600 as F0 9F 98 80); a 3-byte storage overflows
and `as_str` is empty. -/
example :
    (okOf (LfnBuffer_push (List.replicate 32 0) 32 false none frag2)).map (fun t => (t.2.1, t.2.2.2)) = some (28, some 0xde00) ∧
    ((okOf (LfnBuffer_push (List.replicate 32 0) 32 false none frag2)).bind fun t =>
        (okOf (LfnBuffer_push t.1 t.2.1 t.2.2.1 t.2.2.2 frag1)).map fun t => LfnBuffer_as_str t.1 t.2.1 t.2.2.1) =
      some ([0x41, 0x42, 0x30, 0x31, 0x32, 0x33, 0x34, 0x35, 0x36, 0x37, 0x38, 0x39, 0xF0, 0x9F, 0x98, 0x80, 0x2E, 0x74, 0x78, 0x74]) ∧
    (okOf (LfnBuffer_push (List.replicate 3 0) 3 false none frag2)).map (fun t => (t.2.2.1, LfnBuffer_as_str t.1 t.2.1 t.2.2.1)) =
      some (true, []) := by
  decide +kernel
end Example

end Sdmmc.Props.C17GenM
