/-
C15, second half, meets C03 / C01 — "For every well-formed partition table and boot sector, opening the volume
succeeds and locates the FATs, root directory and data area where the specification puts them, so files placed by an
independent formatter are found and read correctly."

Trusted statement: `Spec/Formatted.lean` (`Formatted d idx gh`: an independent formatter's product, stated from the
specification only — MBR record, BPB fields at their offsets, the Microsoft layout formulas `layoutOf`, the FSInfo
signatures, and `Spec.Volume.MedInv` over THAT layout), `Spec/FatLayout.lean`, `Spec/Volume.lean` (`VolInv`),
`Spec/AbsFs.lean` (the abstract file system), and from `Lemmas/`: `Lemmas.AbsFs.Abs` / `absOf0` (the abstraction
relation and the abstract counterpart of a state without open files), `Lemmas.Mounted.FreshMgr`.
Proofs: `Lemmas/MountedLayout.lean` (the parser returns exactly `layoutOf`), `Lemmas/MountedInv.lean` (mounting
establishes the invariant; any medium: error or mount), `Lemmas/MountedFs.lean` (what the abstract file system
answers to open-root / open-file / read and to open-root / list).

STATUS: all PROVED, none `_partial`.
* `parser_locates_by_formulas`, `mount_of_formatted` — the crate's `parse_volume` returns EXACTLY the record the
  specification's formulas give (every field, not only those `Props.C15.mount_layout` lists), with the FSInfo count /
  hint merged on FAT32.
* `mount_establishes_invariant` — fresh manager over a formatted medium: `open_raw_volume` answers the handle, writes
  nothing, and `VolInv` holds for the formatter's chains and sub-directories.
* `formatted_then_any_history` — mount, then ANY history of the 24 calls with any names: the invariant holds after
  every call and the answers are those of the abstract file system started from the tree the formatter placed.
  The one hypothesis left is `RemountRun` of `Props.C03All` (an `open_volume` issued after a `close_volume` mounts —
  if it mounts anything — a record of the same geometry).
* `formatted_files_found_and_read`, `formatted_root_listed` — the instance spelled out.
* `rejects_or_mounts` — ANY contents of block 0 / boot sector / FSInfo sector: an error (nothing written, no table
  changed) or a mount; never a panic.  When what was mounted is not `Formatted`, nothing further is claimed.

Hypotheses, all explicit: `FreshMgr t0` (no volume / directory / file open, `maxVols = 1` — the crate's default; the
multi-volume lift is elsewhere —, fault-free, coherent cache, unlocked) and for the spelled-out instance room for one
directory and one file.  `Formatted` asks on FAT32 for the three FSInfo signatures: the crate refuses a FAT32 volume
without them (`Props.C15.info_sentinels`), and so does the specification.

Non-vacuity: `Example16` instantiates everything on the SMALLEST FAT16 volume (4085 clusters; the medium of
`Props.C02Reopen.Example` after its close).  The smallest FAT32 volume (65525 clusters, `C02Reopen.Example32`) passes
the executable checker when evaluated, but the kernel evaluation of `checkVolInv` over 65525 FAT entries runs into the
deterministic timeout at the default heartbeat limit; it is therefore NOT instantiated here.
-/
import Sdmmc.Lemmas.MountedInv
import Sdmmc.Lemmas.MountedFs
import Sdmmc.Lemmas.NameE5
import Sdmmc.Props.C15
import Sdmmc.Props.C03All
import Sdmmc.Props.C01Fs
import Sdmmc.Props.C02Reopen
import Sdmmc.Lemmas.VolCheck

namespace Sdmmc.Props.C15Fs
open Sdmmc.Model Sdmmc.Model.Fat Sdmmc.Spec.Volume
open Sdmmc.Spec hiding run step NoFault Coherent
open Sdmmc.Spec.FatLayout Sdmmc.Spec.Formatted
open Sdmmc.Spec.AbsFs (AbsFs absRun view lookup listing)
open Sdmmc.Lemmas.AbsFs (Abs absOf0 FsCoveredRun)
open Sdmmc.Lemmas.Mounted (FreshMgr)
open Sdmmc.Props.C03All (RemountRun)

/-! ### 1. The parser against the formulas -/

/-- The field reader of `Spec.Formatted` is the one of `Props.C15`. -/
theorem fieldsOf_eq (bpb : Bytes) : Formatted.fieldsOf bpb = C15.fieldsOf bpb := rfl

/-- **The parser locates everything where the formulas put it**: for a boot sector with the signature and
well-formed fields (`WFBpb`), at any partition offset, `parse_volume`'s first half returns EXACTLY the record
`layoutOf` — FAT start(s), root directory, data area, cluster count, FAT type, FSInfo sector, root cluster, label. -/
theorem parser_locates_by_formulas (bpb : Bytes) (lba nb : Nat) (hsig : readU16 bpb 510 = 0xAA55)
    (hwf : WFBpb (Formatted.fieldsOf bpb)) (hlba : lba + (Formatted.fieldsOf bpb).fsInfo ≤ 4294967295) :
    parseVolumeBpb bpb lba nb = .ok (layoutOf (Formatted.fieldsOf bpb) (labelOf (Formatted.fieldsOf bpb) bpb) lba nb) :=
  Lemmas.Mounted.parseVolumeBpb_layout bpb lba nb hsig hwf hlba

/-- **Mounting a formatted medium succeeds** with the specification's layout up to the two bookkeeping fields (read
from the FSInfo sector on FAT32), and a hint that is unknown or at least 2. -/
theorem mount_of_formatted {d : Disk} {idx : Nat} {gh : Ghost} (hF : Formatted d idx gh) :
    ∃ v1, mountPure (d.get 0) idx d.get = .ok v1 ∧ SameGeom (layoutOn d idx) v1 ∧ HintOK v1 :=
  Lemmas.Mounted.mount_of_formatted hF

/-! ### 2. Mounting establishes the invariant -/

/-- **`mount_establishes_invariant`.**  Fresh manager `t0` over a formatted medium: `open_raw_volume idx` answers
the handle `t0.nextId`; nothing is written; the one volume record is the specification's layout with the FSInfo count /
hint; and the volume invariant holds for the formatter's chains `gh.G` and sub-directories `gh.dirs`. -/
theorem mount_establishes_invariant {t0 : Mgr} {idx : Nat} {gh : Ghost} (hfr : FreshMgr t0)
    (hF : Formatted t0.dev.disk idx gh) :
    ∃ t1 gh1, openRawVolume idx t0 = (.ok t0.nextId, t1) ∧ VolInv t1 gh1 ∧ SameGeom gh.vol gh1.vol ∧
      gh1.G = gh.G ∧ gh1.dirs = gh.dirs ∧ SameGeom (layoutOn t0.dev.disk idx) gh1.vol ∧
      t1.dev.disk = t0.dev.disk ∧ t1.dev.wlog = t0.dev.wlog ∧
      t1.vols = [{ rawVolume := t0.nextId, idx := idx, vol := gh1.vol }] ∧ t1.dirs = [] ∧ t1.files = [] ∧
      t1.nextId = (t0.nextId + 1) % 4294967296 ∧ t1.maxDirs = t0.maxDirs ∧ t1.maxFiles = t0.maxFiles ∧
      t1.clock = t0.clock :=
  Lemmas.Mounted.mount_establishes_invariant hfr hF

/-! ### 3. Then any history -/

/-- Every name is covered (`Props.C03All.name_ok_all`), so the coverage predicate of the refinement theorem reduces to
the remount hypothesis. -/
theorem fsCoveredRun_of_remountRun (v0 : FatVolume) : ∀ (s : Mgr) (ops : List Op), RemountRun v0 s ops → FsCoveredRun v0 s ops
  | _, [], _ => trivial
  | s, op :: ops, h =>
    ⟨C01Fs.fsCovered_of_coveredAll v0 ((C03All.coveredAll_iff_remount v0 s op).2 h.1)
        (fun _ _ _ => fun _ hs => Lemmas.NameE5.createFromStr_first_byte hs),
     fsCoveredRun_of_remountRun v0 _ ops h.2⟩

/-- **`formatted_then_any_history`.**  Fresh manager over a formatted medium.  After `open_raw_volume` (state `t1`,
ghost `gh1` with the formatter's chains and sub-directories) the abstract counterpart of `t1` is `absOf0 t1 gh1` — the
tree the formatter placed — and for ANY history `ops` of the 24 calls, with any names (the only hypothesis being
`RemountRun`): the volume invariant holds after every call, and the answers of the history are answers of the abstract
file system started from that tree. -/
theorem formatted_then_any_history {t0 : Mgr} {idx : Nat} {gh : Ghost} (hfr : FreshMgr t0)
    (hF : Formatted t0.dev.disk idx gh) :
    ∃ t1 gh1, openRawVolume idx t0 = (.ok t0.nextId, t1) ∧ VolInv t1 gh1 ∧ gh1.G = gh.G ∧ gh1.dirs = gh.dirs ∧
      SameGeom (layoutOn t0.dev.disk idx) gh1.vol ∧ Abs t1 gh1 (absOf0 t1 gh1) ∧
      ∀ ops, RemountRun gh1.vol t1 ops →
        (∀ k, ∃ gh', VolInv (run t1 (ops.take k)).1 gh' ∧ SameGeom gh1.vol gh'.vol) ∧
        ∃ gh' a', VolInv (run t1 ops).1 gh' ∧ SameGeom gh1.vol gh'.vol ∧ Abs (run t1 ops).1 gh' a' ∧
          absRun (absOf0 t1 gh1) ops ((run t1 ops).2.map (·.result)) a' := by
  obtain ⟨t1, gh1, hrun, hI, _, hG, hD, hsg, _, _, _, _, hfiles, _⟩ := mount_establishes_invariant hfr hF
  have hA : Abs t1 gh1 (absOf0 t1 gh1) := Lemmas.AbsFs.abs_absOf0 hfiles
  refine ⟨t1, gh1, hrun, hI, hG, hD, hsg, hA, fun ops hc => ⟨fun k => ?_, ?_⟩⟩
  · exact C03All.api_history_invariant_all_names_prefix gh1.vol ops t1 gh1 hI (SameGeom.refl _) hc k
  · exact C01Fs.fs_history_refines gh1.vol ops hI hA (SameGeom.refl _) (fsCoveredRun_of_remountRun gh1.vol t1 ops hc)

/-- The abstract state right after the mount: one volume open, nothing else; its tree is the formatter's medium read
through the invariant's vocabulary — directory `h` is the list of its slots before the end marker, a file slot
carrying the bytes of the chain its entry names, cut at the size its entry records. -/
theorem mounted_tree {t0 : Mgr} {idx : Nat} {gh : Ghost} (hfr : FreshMgr t0) (hF : Formatted t0.dev.disk idx gh)
    {t1 : Mgr} {gh1 : Ghost} (h : openRawVolume idx t0 = (.ok t0.nextId, t1)) (hI : VolInv t1 gh1) (hG : gh1.G = gh.G) :
    ∀ h', (absOf0 t1 gh1).slots h' =
      (beforeEnd (dirSlots gh1.vol t0.dev.disk gh.G h')).map
        (Lemmas.AbsFs.absSlot gh1.vol.fatType (Lemmas.AbsFs.contentOf gh1.vol t0.dev.disk gh.G [])) := by
  obtain ⟨t1', gh1', hrun, _, _, _, _, _, hd, _, _, _, hfiles, _⟩ := mount_establishes_invariant hfr hF
  have ht : t1' = t1 := by rw [hrun] at h; exact (Prod.mk.inj h).2
  subst ht
  intro h'
  show Lemmas.AbsFs.absSlots t1' gh1 h' = _
  unfold Lemmas.AbsFs.absSlots
  rw [hd, hfiles, hG]

/-- **Files placed by the formatter are found and read correctly.**  Fresh manager over a formatted medium, with room
for one directory and one file.  Let `t1`, `gh1` be the state and ghost after the mount and `tree` the root directory
of `absOf0 t1 gh1` (see `mounted_tree`).  For every name (short form `sfn`) whose first match in `tree` is a FILE slot
`(m, bytes)`: `open_root_dir; open_file_in_dir name ReadOnly; read n` answer the handles and then `bytes.take n`. -/
theorem formatted_files_found_and_read {t0 : Mgr} {idx : Nat} {gh : Ghost} (hfr : FreshMgr t0)
    (hF : Formatted t0.dev.disk idx gh) (hroomD : 0 < t0.maxDirs) (hroomF : 0 < t0.maxFiles) :
    ∃ t1 gh1, openRawVolume idx t0 = (.ok t0.nextId, t1) ∧ VolInv t1 gh1 ∧ gh1.G = gh.G ∧ gh1.dirs = gh.dirs ∧
      ∀ (name : List Nat) (sfn : Bytes) (i n : Nat) (m : Spec.AbsFs.Meta) (bytes : Bytes),
        Sfn.createFromStr name = .ok sfn → lookup ((absOf0 t1 gh1).slots 0) sfn = some i →
        ((absOf0 t1 gh1).slots 0)[i]? = some (.file m bytes) →
        (run t1 [.openRoot t0.nextId, .openFile t1.nextId name .ReadOnly, .read ((t1.nextId + 1) % 4294967296) n]).2.map
            (·.result) =
          [.ok (.handle t1.nextId), .ok (.handle ((t1.nextId + 1) % 4294967296)), .ok (.bytes (bytes.take n))] := by
  obtain ⟨t1, gh1, hrun, hI, _, hG, hD, _, _, _, hvols, hdirs, hfiles, _, hmd, hmf, _⟩ := mount_establishes_invariant hfr hF
  refine ⟨t1, gh1, hrun, hI, hG, hD, fun name sfn i n m bytes hsfn hlk hsl => ?_⟩
  have hA : Abs t1 gh1 (absOf0 t1 gh1) := Lemmas.AbsFs.abs_absOf0 hfiles
  have hj : Lemmas.Mounted.JustMounted (absOf0 t1 gh1) t0.nextId idx :=
    ⟨hI.unlocked, by show t1.vols.map _ = _; rw [hvols]; rfl, by show t1.dirs.map _ = _; rw [hdirs]; rfl, rfl,
      by show 0 < t1.maxDirs; rw [hmd]; exact hroomD, by show 0 < t1.maxFiles; rw [hmf]; exact hroomF⟩
  have hc : RemountRun gh1.vol t1 [.openRoot t0.nextId, .openFile t1.nextId name .ReadOnly,
      .read ((t1.nextId + 1) % 4294967296) n] := ⟨trivial, trivial, trivial, trivial⟩
  obtain ⟨_, a', _, _, _, hr⟩ := C01Fs.fs_history_refines gh1.vol _ hI hA (SameGeom.refl _)
    (fsCoveredRun_of_remountRun gh1.vol t1 _ hc)
  exact Lemmas.Mounted.abs_open_read hj name sfn n i m bytes hsfn hlk hsl hr

/-- **The listing shows the formatter's live entries in order**: `open_root_dir; iterate_dir` answer the handle and then
entries whose views are the file / directory slots of the formatter's root directory, in slot order (deleted slots and
long-name fragments skipped, nothing else). -/
theorem formatted_root_listed {t0 : Mgr} {idx : Nat} {gh : Ghost} (hfr : FreshMgr t0)
    (hF : Formatted t0.dev.disk idx gh) (hroomD : 0 < t0.maxDirs) (hroomF : 0 < t0.maxFiles) :
    ∃ t1 gh1, openRawVolume idx t0 = (.ok t0.nextId, t1) ∧ VolInv t1 gh1 ∧ gh1.G = gh.G ∧ gh1.dirs = gh.dirs ∧
      ∃ es, (run t1 [.openRoot t0.nextId, .list t1.nextId]).2.map (·.result) = [.ok (.handle t1.nextId), .ok (.entries es)] ∧
        es.map view = listing ((absOf0 t1 gh1).slots 0) := by
  obtain ⟨t1, gh1, hrun, hI, _, hG, hD, _, _, _, hvols, hdirs, hfiles, _, hmd, hmf, _⟩ := mount_establishes_invariant hfr hF
  refine ⟨t1, gh1, hrun, hI, hG, hD, ?_⟩
  have hA : Abs t1 gh1 (absOf0 t1 gh1) := Lemmas.AbsFs.abs_absOf0 hfiles
  have hj : Lemmas.Mounted.JustMounted (absOf0 t1 gh1) t0.nextId idx :=
    ⟨hI.unlocked, by show t1.vols.map _ = _; rw [hvols]; rfl, by show t1.dirs.map _ = _; rw [hdirs]; rfl, rfl,
      by show 0 < t1.maxDirs; rw [hmd]; exact hroomD, by show 0 < t1.maxFiles; rw [hmf]; exact hroomF⟩
  have hc : RemountRun gh1.vol t1 [.openRoot t0.nextId, .list t1.nextId] := ⟨trivial, trivial, trivial⟩
  obtain ⟨_, a', _, _, _, hr⟩ := C01Fs.fs_history_refines gh1.vol _ hI hA (SameGeom.refl _)
    (fsCoveredRun_of_remountRun gh1.vol t1 _ hc)
  exact Lemmas.Mounted.abs_open_list hj hr

/-! ### 4. Any medium: an error or a mount -/

/-- **`rejects_or_mounts`.**  Fresh manager over ANY medium whose blocks have 512 bytes — any contents of block 0, of
the boot sector, of the FSInfo sector: `open_raw_volume idx` either answers the handle `t0.nextId`, having written
nothing and appended the one volume record `mountPure` computes, or answers an error, having written nothing and changed
no table.  It never panics and never diverges.  (When it mounts a medium that is not `Formatted`, nothing more is
claimed.) -/
theorem rejects_or_mounts {t0 : Mgr} (idx : Nat) (hfr : FreshMgr t0) (hb : BlocksOK t0.dev.disk) :
    (∃ v t1, mountPure (t0.dev.disk.get 0) idx t0.dev.disk.get = .ok v ∧ openRawVolume idx t0 = (.ok t0.nextId, t1) ∧
        t1 = { t0 with dev := t1.dev, cache := t1.cache, nextId := (t0.nextId + 1) % 4294967296,
                       vols := [{ rawVolume := t0.nextId, idx := idx, vol := v }] } ∧
        t1.dev.disk = t0.dev.disk ∧ t1.dev.wlog = t0.dev.wlog) ∨
    (∃ e t1, mountPure (t0.dev.disk.get 0) idx t0.dev.disk.get = .err e ∧ openRawVolume idx t0 = (.err e, t1) ∧
        t1 = { t0 with dev := t1.dev, cache := t1.cache } ∧ t1.dev.disk = t0.dev.disk ∧ t1.dev.wlog = t0.dev.wlog) :=
  Lemmas.Mounted.openRawVolume_total idx hfr hb

/-! ### Non-vacuity: the smallest FAT16 volume

The medium of `Props.C02Reopen.Example` after its close (`disk1`): block 0 an MBR whose partition 0 (type 0x06) starts at
block 1 and has 4103 blocks; block 1 a boot sector (1 block per cluster, 1 reserved block, 1 FAT of 16 blocks, 16 root
entries): 4085 clusters, the smallest FAT16 volume; the root directory (block 18) holds `A.TXT`, 600 bytes in clusters
2 → 3. -/

namespace Example16
open Sdmmc.Props.C02Reopen.Example (disk1 vol0 fresh nameStr nameA B)

/-- The formatter's ghost: one chain, no sub-directory. -/
def ghM : Ghost := { vol := vol0, G := [[2, 3]], dirs := [] }
/-- A manager over the medium with the volume open and nothing else (only used to run the executable checker). -/
def mgrM : Mgr :=
  { dev := { disk := disk1 }, nextId := 1, vols := [{ rawVolume := 0, idx := 0, vol := vol0 }], dirs := [], files := [],
    maxVols := 1, maxDirs := 1, maxFiles := 1 }

/-- The volume is structurally sound (the executable checker of `Props.C03Inv`, evaluated by the kernel over all 4085
FAT entries). -/
theorem invM : VolInv mgrM ghM := Lemmas.VolCheck.checkVolInv_sound mgrM ghM (by decide +kernel)

/-- The specification's formulas, applied to this boot sector, give the record `vol0`. -/
theorem layout16 : layoutOn disk1 0 = vol0 := by decide +kernel

/-- **The medium is `Formatted`.** -/
theorem formatted16 : Formatted disk1 0 ghM where
  mbrLen := by decide +kernel
  mbrSig := by decide +kernel
  idxLe := by decide
  status := by decide +kernel
  ptype := by decide +kernel
  bootSig := by decide +kernel
  wf := by decide +kernel
  infoAddr := by decide +kernel
  infoSigs := fun h => absurd h (by decide +kernel)
  geom := by rw [layout16]; exact SameGeom.refl _
  med := invM.med

theorem fresh16 : FreshMgr fresh where
  vols := rfl
  dirs := rfl
  files := rfl
  maxVols := rfl
  noFault := rfl
  coherent := fun i h => (by cases h)
  unlocked := rfl

/-- `mount_establishes_invariant`, instantiated. -/
theorem mount16 : ∃ t1 gh1, openRawVolume 0 fresh = (.ok 0, t1) ∧ VolInv t1 gh1 ∧ gh1.G = [[2, 3]] ∧ gh1.dirs = [] := by
  obtain ⟨t1, gh1, h1, h2, _, h4, h5, _⟩ := mount_establishes_invariant fresh16 formatted16
  exact ⟨t1, gh1, h1, h2, h4, h5⟩

/-- `formatted_files_found_and_read` and `formatted_root_listed`, instantiated (their hypotheses hold). -/
example := formatted_files_found_and_read fresh16 formatted16 (by decide) (by decide)
example := formatted_root_listed fresh16 formatted16 (by decide) (by decide)

/-- The tree the formatter placed, as `mounted_tree` describes it (the mounted record is `vol0`): the root directory
has one slot, the file `A.TXT` with its 600 bytes — so the hypotheses of `formatted_files_found_and_read` about the tree
are satisfiable, with `i = 0` and `bytes = B`. -/
def tree0 : List Spec.AbsFs.Slot :=
  (beforeEnd (dirSlots vol0 disk1 [[2, 3]] 0)).map (Lemmas.AbsFs.absSlot vol0.fatType (Lemmas.AbsFs.contentOf vol0 disk1 [[2, 3]] []))
def fileAt (ss : List Spec.AbsFs.Slot) (i : Nat) : Option (Bytes × Nat × Bytes) :=
  match ss[i]? with
  | some (.file m bytes) => some (m.name, m.size, bytes)
  | _ => none
theorem tree0_root : tree0.length = 1 ∧ lookup tree0 nameA = some 0 ∧ fileAt tree0 0 = some (nameA, 600, B) := by
  decide +kernel

/-- The engine, run on the fresh manager: mount (handle 0), open the root (handle 1), open `A.TXT` read-only (handle 2),
read 1000 bytes: the 600 bytes of the file; and the listing of the root shows the one entry. -/
theorem run16 :
    ((run fresh [.openVolume 0, .openRoot 0, .openFile 1 nameStr .ReadOnly, .read 2 1000]).2.map fun o =>
      match o.result with
      | .ok (.handle h) => (some h, none)
      | .ok (.bytes b) => (none, some b)
      | _ => (none, none)) = [(some 0, none), (some 1, none), (some 2, none), (none, some B)] ∧
    ((run fresh [.openVolume 0, .openRoot 0, .list 1]).2.map fun o =>
      match o.result with
      | .ok (.entries es) => es.map fun e => (e.name, e.size)
      | _ => []) = [[], [], [(nameA, 600)]] := by decide +kernel

/-- `rejects_or_mounts` on a medium without a partition table (all blocks blank): the call answers an error. -/
def blank : Mgr := { dev := { disk := Disk.empty }, nextId := 0, maxVols := 1, maxDirs := 1, maxFiles := 1 }
theorem blank_rejected : (match (openRawVolume 0 blank).1 with | .err _ => true | _ => false) = true ∧
    (openRawVolume 0 blank).2.vols = [] ∧ (openRawVolume 0 blank).2.dev.wlog = [] := by decide +kernel

end Example16

end Sdmmc.Props.C15Fs
